(* CAPSTONE of the store layer of x/stream: the keeper and message server of /repo/x/stream/keeper/{stream,msg_server}.go
   rendered over the BYTE-LEVEL store (GeneratedStreamKeeperOnStore.v: world [sworld] of model/StreamStoreWorld.v, store
   access through the GENERATED accessors of GeneratedStreamStore.v and the GENERATED key builders) simulates the rendering
   over the hand-written primitives (GeneratedStreamKeeper.v: world [kworld] of model/StreamKeeperPrims.v), about which
   C10 / C11 / C12 are proved (proofs/GeneratedStreamEq.v, proofs/GeneratedStreamValidateEq.v).

   Given (as in proofs/GeneratedStreamStoreRefines.v):
       dom : Z -> Prop     the abstract addresses in use,          emb : Z -> list N    their address bytes,
       emb_len : on dom, 1 <= length (emb a) <= 255,               emb_inj : on dom, emb is injective.

   Rw w ws  - the byte-level world ws represents the abstract world w:
       sw_emb ws = emb (the embedding is the given one - so it never changes along a run),
       same block time, same bank, and Rstr dom emb (sw_store ws) (kw_str w).
   sim a c  - the two results agree: Ok/Ok with related worlds and EQUAL values, Err/Err and Panic/Panic with equal codes.

   part 1  the relation, sim, the "bind" library;
   part 2  every adapter primitive of model/StreamStoreWorld.v simulates its counterpart of model/StreamKeeperPrims.v;
   part 3  a tactic walking two bodies of the same shape; the five keeper functions; the six handlers;
   part 4  messages (the five of the model + MsgUpdateParams), ValidateBasic, histories;
   part 5  C10 / C11 / C12 transported to the on-store rendering;
   part 6  a concrete run. *)
From MC Require Import lib.Prelude lib.AMap lib.GoSdk GeneratedFns GeneratedStreamTypes model.Bank model.Stream
  model.StreamSpec model.KVStore model.StoreCodecPrims model.StreamKeeperPrims model.StreamStoreWorld model.StreamGenSpec
  GeneratedKeys GeneratedStreamStore.
From MC Require GeneratedStreamKeeper GeneratedStreamKeeperOnStore.
From MC Require Import proofs.StreamProofs proofs.GeneratedStreamEq proofs.GeneratedStreamValidateEq
  proofs.GeneratedStreamStoreEq proofs.GeneratedStreamStoreRefines.
From Coq Require Import NArith ZArith List Bool Lia.
Import ListNotations.
Local Open Scope Z_scope.

(* the two renderings, by short names; never imported *)
Module K := MC.GeneratedStreamKeeper.
Module S := MC.GeneratedStreamKeeperOnStore.

Lemma obind_Ok {A B} (x : A) (f : A -> outcome B) : obind (Ok x) f = f x.
Proof. reflexivity. Qed.


(* ================================================================== *)
(* messages and histories: definitions (they mention neither dom nor emb) *)
(* ================================================================== *)

(* the on-store message server and ValidateBasic, driven by the model's message type exactly as [go_msg_exec] /
   [go_str_validate_basic] (model/StreamGenSpec.v, proofs/GeneratedStreamValidateEq.v) drive rendering (1) *)
Definition os_msg_exec (w : sworld) (m : str_msg) : outcome (sworld * str_resp) :=
  match m with
  | SCreate sn r d amt rate =>
      do (w', _) <- S.go_CreateStream w (mk_go_MsgCreateStream r sn (d, amt) rate); Ok (w', RNone)
  | SClaim sn r =>
      do (w', rsp) <- S.go_ClaimStream w (mk_go_MsgClaimStream sn r);
      Ok (w', RClaim {| cr_receiver := snd (MsgClaimStreamResponse_StreamPayment rsp);
                        cr_fee := snd (MsgClaimStreamResponse_ValidatorFee rsp);
                        cr_total := snd (MsgClaimStreamResponse_TotalClaimed rsp);
                        cr_remaining := snd (MsgClaimStreamResponse_RemainingDeposit rsp) |})
  | STopUp sn r d amt =>
      do (w', rsp) <- S.go_TopUpDeposit w (mk_go_MsgTopUpDeposit r sn (d, amt));
      Ok (w', RTopUp (snd (MsgTopUpDepositResponse_CurrentDeposit rsp)) (MsgTopUpDepositResponse_DepositZeroTime rsp))
  | SUpdateFlow sn r rate =>
      do (w', _) <- S.go_UpdateFlowRate w (mk_go_MsgUpdateFlowRate r sn rate); Ok (w', RNone)
  | SCancel sn r =>
      do (w', _) <- S.go_CancelStream w (mk_go_MsgCancelStream r sn); Ok (w', RNone)
  end.

Definition os_str_validate_basic (m : str_msg) : outcome unit :=
  match m with
  | SCreate sn r d amt rate => S.go_MsgCreateStream_ValidateBasic (mk_go_MsgCreateStream r sn (d, amt) rate)
  | SClaim sn r => S.go_MsgClaimStream_ValidateBasic (mk_go_MsgClaimStream sn r)
  | STopUp sn r d amt => S.go_MsgTopUpDeposit_ValidateBasic (mk_go_MsgTopUpDeposit r sn (d, amt))
  | SUpdateFlow sn r rate => S.go_MsgUpdateFlowRate_ValidateBasic (mk_go_MsgUpdateFlowRate r sn rate)
  | SCancel sn r => S.go_MsgCancelStream_ValidateBasic (mk_go_MsgCancelStream r sn)
  end.

(* the six message kinds of the module: the five of the model, and MsgUpdateParams *)
Inductive kmsg :=
| KStr (m : str_msg)
| KUpdateParams (req : go_MsgUpdateParams).

Inductive kresp :=
| KRStr (r : str_resp)
| KRParams.

(* DeliverTx of one message: ValidateBasic, then the handler (MsgUpdateParams has no ValidateBasic of its own) *)
Definition k_deliver (w : kworld) (m : kmsg) : outcome (kworld * kresp) :=
  match m with
  | KStr m => do _ <- go_str_validate_basic m; do (w', r) <- go_msg_exec w m; Ok (w', KRStr r)
  | KUpdateParams req => do (w', _) <- K.go_UpdateParams w req; Ok (w', KRParams)
  end.
Definition s_deliver (w : sworld) (m : kmsg) : outcome (sworld * kresp) :=
  match m with
  | KStr m => do _ <- os_str_validate_basic m; do (w', r) <- os_msg_exec w m; Ok (w', KRStr r)
  | KUpdateParams req => do (w', _) <- S.go_UpdateParams w req; Ok (w', KRParams)
  end.

(* the block time of a world *)
Definition kw_at (t : Z) (w : kworld) : kworld := mk_kworld t (kw_bank w) (kw_str w).
Definition sw_at (t : Z) (w : sworld) : sworld := mk_sworld (sw_emb w) t (sw_bank w) (sw_store w).

(* a history: (block time, message) pairs.  Each message is delivered at its block time; a message that fails (Err) or
   panics (recovered by runTx) leaves the state untouched; the trace keeps every result. *)
Section HRun.
  Context {W : Type}.
  Variable at_time : Z -> W -> W.
  Variable deliver : W -> kmsg -> outcome (W * kresp).
  Fixpoint hrun (w : W) (h : list (Z * kmsg)) : list (outcome kresp) * W :=
    match h with
    | [] => ([], w)
    | (t, m) :: h' =>
        match deliver (at_time t w) m with
        | Ok (w', r) => let tr := hrun w' h' in (Ok r :: fst tr, snd tr)
        | Err e => let tr := hrun (at_time t w) h' in (Err e :: fst tr, snd tr)
        | Panic c => let tr := hrun (at_time t w) h' in (Panic c :: fst tr, snd tr)
        end
    end.
End HRun.

Definition k_run : kworld -> list (Z * kmsg) -> list (outcome kresp) * kworld := hrun kw_at k_deliver.
Definition s_run : sworld -> list (Z * kmsg) -> list (outcome kresp) * sworld := hrun sw_at s_deliver.

(* the addresses of a message *)
Definition str_msg_addrs (m : str_msg) : addr * addr :=
  match m with
  | SCreate sn r _ _ _ | SClaim sn r | STopUp sn r _ _ | SUpdateFlow sn r _ | SCancel sn r => (sn, r)
  end.

(* a history of the model's five kinds, as a history of the six *)
Definition lift_hist (h : list (Z * str_msg)) : list (Z * kmsg) := map (fun tm => (fst tm, KStr (snd tm))) h.

(* the two ValidateBasic are one function: they touch no store *)
Lemma os_str_validate_basic_eq m : os_str_validate_basic m = go_str_validate_basic m.
Proof. destruct m; reflexivity. Qed.


(* ---- vocabulary of the transported theorems ---- *)

(* what the Go types and the signature check guarantee about a delivered message (str_msg_wf for the five kinds) *)
Definition kmsg_wf (m : kmsg) : Prop := match m with KStr m => str_msg_wf m | KUpdateParams _ => True end.

(* block times never decrease and are storable (times_sorted of model/StreamSpec.v, for six kinds) *)
Fixpoint ktimes_sorted (now : Z) (h : list (Z * kmsg)) : Prop :=
  match h with
  | [] => True
  | (t, m) :: r => now <= t /\ time_storable t = true /\ kmsg_wf m /\ ktimes_sorted t r
  end.

Definition klast_time (now : Z) (h : list (Z * kmsg)) : Z := fold_left (fun _ tm => fst tm) h now.

(* one step of a history on the state *)
Definition k_step (t : Z) (m : kmsg) (w : kworld) : kworld :=
  match k_deliver (kw_at t w) m with Ok (w', _) => w' | _ => kw_at t w end.

Lemma k_run_cons w t m h : snd (k_run w ((t, m) :: h)) = snd (k_run (k_step t m w) h).
Proof.
  unfold k_run, k_step. cbn [hrun]. destruct (k_deliver (kw_at t w) m) as [[w' r]|e|p]; reflexivity.
Qed.

(* the total of the deposits in one denomination, computed on the BYTE store by the generated IterateAllStreams *)
Definition os_total_deposits (s : okv stream_val) (d : denom) : Z :=
  match go_st_IterateAllStreams s (fun acc_ a_ => Ok (acc_ ++ [a_], false)) [] with
  | Ok L => sumZ (map (fun a => if fst (Stream_Deposit (snd a)) =? d then snd (Stream_Deposit (snd a)) else 0) L)
  | _ => 0
  end.

(* escrow backing, on-store: the module account holds exactly the deposits the store lists, per denomination *)
Definition os_escrow_backed (ws : sworld) : Prop :=
  forall d, balance (sw_bank ws) STREAM_MACC d = os_total_deposits (sw_store ws) d.

Lemma sumZ_perm l1 l2 : Permutation.Permutation l1 l2 -> sumZ l1 = sumZ l2.
Proof. induction 1; cbn [sumZ]; lia. Qed.

(* ---- rendering (1): the invariant along histories of the SIX kinds (proofs/StreamProofs.v has the five) ---- *)

Lemma k_step_str t m w :
  (kw_bank (k_step t (KStr m) w), kw_str (k_step t (KStr m) w)) = go_step_v (kw_bank w, kw_str w) (t, m).
Proof.
  unfold k_step, k_deliver, go_step_v, kw_at, world. cbn [fst snd].
  destruct (go_str_validate_basic m) as [[]|e|p]; cbn [obind]; try reflexivity.
  destruct (go_msg_exec (mk_kworld t (kw_bank w) (kw_str w)) m) as [[w' r]|e|p]; reflexivity.
Qed.

Lemma k_step_inv now t m w :
  str_inv now (kw_bank w) (kw_str w) -> now <= t -> time_storable t = true -> kmsg_wf m ->
  str_inv t (kw_bank (k_step t m w)) (kw_str (k_step t m w)).
Proof.
  intros I Hle Hst W. pose proof (inv_time_mono _ _ _ _ I Hle Hst) as It. destruct m as [m|req].
  - cbn [kmsg_wf] in W. pose proof (k_step_str t m w) as E.
    rewrite (gen_step_v_eq t (kw_bank w) (kw_str w) m It W) in E.
    pose proof (str_step_preserves_inv _ _ _ _ _ I Hle Hst W) as I1.
    rewrite <- E in I1. exact I1.
  - unfold k_step, k_deliver. destruct req as [auth [vf]]. rewrite gen_UpdateParams_eq.
    destruct (negb (auth =? GOV_MACC)); cbn [obind]; [exact It|].
    destruct (str_params_valid vf) eqn:V; cbn [obind]; [|exact It].
    cbn [kw_at with_str kw_bank kw_str kw_now].
    destruct It as [K S B Vf R N]. constructor; cbn [s_valfee s_streams]; try assumption.
    unfold str_params_valid in V. lia.
Qed.

Theorem k_run_inv h : forall now0 w,
  str_inv now0 (kw_bank w) (kw_str w) -> ktimes_sorted now0 h ->
  str_inv (klast_time now0 h) (kw_bank (snd (k_run w h))) (kw_str (snd (k_run w h))).
Proof.
  induction h as [|[t m] h IH]; intros now0 w I TS.
  - exact I.
  - cbn [ktimes_sorted] in TS. destruct TS as (Hle & Hst & W & TS).
    rewrite k_run_cons. unfold klast_time. cbn [fold_left fst].
    exact (IH t (k_step t m w) (k_step_inv now0 t m w I Hle Hst W) TS).
Qed.

(* a history of the five kinds, run as a history of the six, is [go_run_v] (hence the model's [str_run]) *)
Theorem k_run_lift h : forall w,
  (kw_bank (snd (k_run w (lift_hist h))), kw_str (snd (k_run w (lift_hist h)))) = go_run_v (kw_bank w, kw_str w) h.
Proof.
  induction h as [|[t m] h IH]; intros w; [reflexivity|].
  cbn [lift_hist map fst snd]. rewrite k_run_cons. fold (lift_hist h). rewrite IH, k_step_str. reflexivity.
Qed.

(* ================================================================== *)
Section Simulation.
(* ================================================================== *)

Variable dom : addr -> Prop.
Variable emb : addr -> list N.
Hypothesis emb_len : forall a, dom a -> (1 <= length (emb a) <= 255)%nat.
Hypothesis emb_inj : forall a b, dom a -> dom b -> emb a = emb b -> a = b.

(* ------------------------------------------------------------------ *)
(* part 1: the relation, sim, binds                                    *)
(* ------------------------------------------------------------------ *)

Definition Rw (w : kworld) (ws : sworld) : Prop :=
  sw_emb ws = emb /\ kw_now w = sw_now ws /\ kw_bank w = sw_bank ws /\ Rstr dom emb (sw_store ws) (kw_str w).

Definition Rres {R} (a : kworld * R) (c : sworld * R) : Prop := Rw (fst a) (fst c) /\ snd a = snd c.

Definition sim {R} (a : outcome (kworld * R)) (c : outcome (sworld * R)) : Prop := out_sim Rres a c.

Lemma sim_ret {R} w ws (r : R) : Rw w ws -> sim (Ok (w, r)) (Ok (ws, r)).
Proof. intros H. split; [exact H | reflexivity]. Qed.

Lemma sim_err {R} e : @sim R (Err e) (Err e).
Proof. reflexivity. Qed.

Lemma sim_panic {R} e : @sim R (Panic e) (Panic e).
Proof. reflexivity. Qed.

(* a state-changing call on both sides, then related continuations *)
Lemma sim_bind {R R'} (a : outcome (kworld * R)) (c : outcome (sworld * R))
      (ka : kworld * R -> outcome (kworld * R')) (kc : sworld * R -> outcome (sworld * R')) :
  sim a c ->
  (forall w ws r, Rw w ws -> sim (ka (w, r)) (kc (ws, r))) ->
  sim (obind a ka) (obind c kc).
Proof.
  intros H K. destruct a as [[w r]|e|p], c as [[ws r']|e'|p']; cbn in H |- *; try contradiction.
  - destruct H as [H E]. cbn in H, E. subst r'. apply K, H.
  - exact H.
  - exact H.
Qed.

(* the same pure computation on both sides *)
Lemma sim_bind_pure {A R} (p : outcome A) (ka : A -> outcome (kworld * R)) (kc : A -> outcome (sworld * R)) :
  (forall x, sim (ka x) (kc x)) -> sim (obind p ka) (obind p kc).
Proof. intros K. destruct p as [x|e|q]; cbn; [apply K | reflexivity | reflexivity]. Qed.

(* a reader: a pure let on the abstract side, a bind of an accessor that answers Ok of the same value on the store side *)
Lemma sim_bind_reader {A R} (v : A) (c : outcome A) (a : outcome (kworld * R)) (kc : A -> outcome (sworld * R)) :
  c = Ok v -> sim a (kc v) -> sim a (obind c kc).
Proof. intros -> H. exact H. Qed.

Lemma sim_if {R} (b : bool) (a1 a2 : outcome (kworld * R)) (c1 c2 : outcome (sworld * R)) :
  (b = true -> sim a1 c1) -> (b = false -> sim a2 c2) -> sim (if b then a1 else a2) (if b then c1 else c2).
Proof. destruct b; auto. Qed.

(* results: what a successful pair of runs gives *)
Lemma sim_Ok_inv {R} (a : outcome (kworld * R)) ws' r :
  forall c, sim a c -> c = Ok (ws', r) -> exists w', a = Ok (w', r) /\ Rw w' ws'.
Proof.
  intros c H ->. destruct a as [[w' r']|e|p]; cbn in H; try contradiction.
  destruct H as [H E]. cbn in H, E. subst r'. exists w'. split; [reflexivity | exact H].
Qed.

Lemma sim_Ok_inv_l {R} (c : outcome (sworld * R)) w' r :
  forall a, sim a c -> a = Ok (w', r) -> exists ws', c = Ok (ws', r) /\ Rw w' ws'.
Proof.
  intros a H ->. destruct c as [[ws' r']|e|p]; cbn in H; try contradiction.
  destruct H as [H E]. cbn in H, E. subst r'. exists ws'. split; [reflexivity | exact H].
Qed.

(* ------------------------------------------------------------------ *)
(* part 2: the primitives                                               *)
(* ------------------------------------------------------------------ *)

Lemma Rw_emb w ws : Rw w ws -> sw_emb ws = emb.
Proof. intros H; apply H. Qed.

Lemma prim_now w ws : Rw w ws -> os_kw_now ws = kw_now w.
Proof. intros (_ & H & _). symmetry. exact H. Qed.

Lemma prim_GetStream w ws r sn : Rw w ws -> dom r -> dom sn ->
  os_str_GetStream ws r sn = Ok (str_GetStream w r sn).
Proof.
  intros (He & _ & _ & HR) Dr Ds. unfold os_str_GetStream. rewrite He.
  exact (GetStream_refines dom emb emb_len (sw_store ws) w r sn HR Dr Ds).
Qed.

Lemma prim_IsStream w ws r sn : Rw w ws -> dom r -> dom sn ->
  os_str_IsStream ws r sn = Ok (str_IsStream w r sn).
Proof.
  intros (He & _ & _ & HR) Dr Ds. unfold os_str_IsStream. rewrite He.
  exact (IsStream_refines dom emb emb_len (sw_store ws) w r sn HR Dr Ds).
Qed.

Lemma prim_GetParams w ws : Rw w ws -> os_str_GetParams ws = Ok (str_GetParams w).
Proof.
  intros (_ & _ & _ & HR). unfold os_str_GetParams. exact (GetParams_refines dom emb (sw_store ws) w HR).
Qed.

(* a store writer: the new abstract world differs from w in its stream state only *)
Lemma writer_sim w ws (a : outcome (kworld * unit)) (c : outcome (okv stream_val * unit)) :
  Rw w ws ->
  (forall x, a = Ok x -> kw_now (fst x) = kw_now w /\ kw_bank (fst x) = kw_bank w) ->
  out_sim (fun x y => Rstr dom emb (fst y) (kw_str (fst x))) a c ->
  sim a (do x <- c; Ok (with_sstore ws (fst x), tt)).
Proof.
  intros (He & Hn & Hb & _) Hfr H.
  destruct a as [[w' []]|e|p], c as [[s' []]|e'|p']; cbn in H |- *; try contradiction; try exact H.
  destruct (Hfr _ eq_refl) as [Hn' Hb']. cbn [fst] in Hn', Hb'.
  split; [|reflexivity]. cbn [fst]. unfold Rw. cbn [with_sstore sw_emb sw_now sw_bank sw_store].
  split; [exact He | split; [congruence | split; [congruence | exact H]]].
Qed.

Lemma prim_SetStream w ws r sn g : Rw w ws -> dom r -> dom sn ->
  sim (str_SetStream w r sn g) (os_str_SetStream ws r sn g).
Proof.
  intros H Dr Ds. unfold os_str_SetStream. rewrite (Rw_emb _ _ H). apply (writer_sim w ws); [exact H | |].
  - intros x. unfold str_SetStream. destruct (set_stream (kw_str w) r sn (of_go_stream g)); cbn [obind]; try discriminate.
    intros [= <-]. split; reflexivity.
  - destruct H as (_ & _ & _ & HR).
    exact (SetStream_refines dom emb emb_len emb_inj (sw_store ws) w r sn g HR Dr Ds).
Qed.

Lemma prim_DeleteStream w ws r sn : Rw w ws -> dom r -> dom sn ->
  sim (str_DeleteStream w r sn) (os_str_DeleteStream ws r sn).
Proof.
  intros H Dr Ds. unfold os_str_DeleteStream. rewrite (Rw_emb _ _ H). apply (writer_sim w ws); [exact H | |].
  - intros x. unfold str_DeleteStream. intros [= <-]. split; reflexivity.
  - destruct H as (_ & _ & _ & HR).
    exact (DeleteStream_refines dom emb emb_len emb_inj (sw_store ws) w r sn HR Dr Ds).
Qed.

Lemma prim_SetParams w ws p : Rw w ws -> sim (str_SetParams w p) (os_str_SetParams ws p).
Proof.
  intros H. unfold os_str_SetParams. apply (writer_sim w ws); [exact H | |].
  - intros x. unfold str_SetParams. destruct (str_params_valid (Params_ValidatorFee p)); try discriminate.
    intros [= <-]. split; reflexivity.
  - destruct H as (_ & _ & _ & HR). exact (SetParams_refines dom emb (sw_store ws) w p HR).
Qed.

(* x/bank: the same function of the same bank *)
Lemma bank_sim w ws from to cs : Rw w ws ->
  sim (do b <- send_all (kw_bank w) from to cs; Ok (with_bank w b, tt))
      (do b <- send_all (sw_bank ws) from to cs; Ok (with_sbank ws b, tt)).
Proof.
  intros (He & Hn & Hb & HR). rewrite Hb. destruct (send_all (sw_bank ws) from to cs) as [b|e|p]; cbn [obind].
  - apply sim_ret. unfold Rw. cbn [with_sbank with_bank sw_emb sw_now sw_bank sw_store kw_now kw_bank kw_str]. auto.
  - reflexivity.
  - reflexivity.
Qed.

Lemma prim_SendM2M w ws from to cs : Rw w ws ->
  sim (bank_SendCoinsFromModuleToModule w from to cs) (os_bank_SendCoinsFromModuleToModule ws from to cs).
Proof. apply bank_sim. Qed.

Lemma prim_SendA2M w ws from to cs : Rw w ws ->
  sim (bank_SendCoinsFromAccountToModule w from to cs) (os_bank_SendCoinsFromAccountToModule ws from to cs).
Proof. apply bank_sim. Qed.

Lemma prim_SendM2A w ws from to cs : Rw w ws ->
  sim (bank_SendCoinsFromModuleToAccount w from to cs) (os_bank_SendCoinsFromModuleToAccount ws from to cs).
Proof.
  intros H. unfold bank_SendCoinsFromModuleToAccount, os_bank_SendCoinsFromModuleToAccount.
  destruct (blocked to); [reflexivity | apply bank_sim, H].
Qed.

(* ------------------------------------------------------------------ *)
(* part 3: the walk                                                     *)
(* ------------------------------------------------------------------ *)

(* One step on a goal [sim A C] where A and C are the two renderings of one Go body at related worlds.  Nothing here names
   a temporary of the generated files or the nesting of their tests. *)
Ltac sred := cbv beta iota zeta.

(* the store-side readers answer Ok of the abstract reader *)
Ltac sread :=
  match goal with
  | HR : Rw ?w ?ws |- context [os_str_GetStream ?ws ?r ?sn] =>
      rewrite (prim_GetStream w ws r sn HR) by assumption; rewrite obind_Ok
  | HR : Rw ?w ?ws |- context [os_str_IsStream ?ws ?r ?sn] =>
      rewrite (prim_IsStream w ws r sn HR) by assumption; rewrite obind_Ok
  | HR : Rw ?w ?ws |- context [os_str_GetParams ?ws] =>
      rewrite (prim_GetParams w ws HR); rewrite obind_Ok
  | HR : Rw ?w ?ws |- context [os_kw_now ?ws] =>
      rewrite (prim_now w ws HR)
  end.

Ltac sprim :=
  first [ apply prim_SetStream | apply prim_DeleteStream | apply prim_SetParams
        | apply prim_SendM2M | apply prim_SendA2M | apply prim_SendM2A ]; assumption.

(* [scall]: a call of an already treated function (re-bound below, after each function) *)
Ltac scall := fail.

Ltac sstep :=
  first
  [ progress sread
  | match goal with
    | |- context [match ?v with pair _ _ => _ end] => is_var v; destruct v
    | |- sim (match ?x with pair _ _ => _ end) _ => destruct x
    end
  | match goal with
    | |- sim (Err _) (Err _) => reflexivity
    | |- sim (Panic _) (Panic _) => reflexivity
    | |- sim (Ok (_, _)) (Ok (_, _)) => apply sim_ret; assumption
    | |- sim (if ?b then _ else _) (if ?b then _ else _) => destruct b
    | |- sim (obind _ _) (obind _ _) =>
        first [ apply sim_bind_pure; intro
              | apply sim_bind; [ first [ sprim | scall ] | intros ? ? ? ? ] ]
    end ].

Ltac swalk := sred; repeat (sstep; sred).

Theorem sim_ClaimFromStream w ws r sn : Rw w ws -> dom r -> dom sn ->
  sim (K.go_ClaimFromStream w r sn) (S.go_ClaimFromStream ws r sn).
Proof.
  intros HR Dr Ds. unfold K.go_ClaimFromStream, S.go_ClaimFromStream. swalk.
Qed.

Ltac scall ::= apply sim_ClaimFromStream; assumption.

Theorem sim_AddDeposit w ws r sn dep : Rw w ws -> dom r -> dom sn ->
  sim (K.go_AddDeposit w r sn dep) (S.go_AddDeposit ws r sn dep).
Proof.
  intros HR Dr Ds. unfold K.go_AddDeposit, S.go_AddDeposit. swalk.
Qed.

Theorem sim_SetNewFlowRate w ws r sn rate : Rw w ws -> dom r -> dom sn ->
  sim (K.go_SetNewFlowRate w r sn rate) (S.go_SetNewFlowRate ws r sn rate).
Proof.
  intros HR Dr Ds. unfold K.go_SetNewFlowRate, S.go_SetNewFlowRate. swalk.
Qed.

Theorem sim_CancelStreamBySenderReceiver w ws r sn : Rw w ws -> dom r -> dom sn ->
  sim (K.go_CancelStreamBySenderReceiver w r sn) (S.go_CancelStreamBySenderReceiver ws r sn).
Proof.
  intros HR Dr Ds. unfold K.go_CancelStreamBySenderReceiver, S.go_CancelStreamBySenderReceiver. swalk.
Qed.

Theorem sim_CreateNewStream w ws r sn dep rate : Rw w ws -> dom r -> dom sn ->
  sim (K.go_CreateNewStream w r sn dep rate) (S.go_CreateNewStream ws r sn dep rate).
Proof.
  intros HR Dr Ds. unfold K.go_CreateNewStream, S.go_CreateNewStream. swalk.
Qed.

Ltac scall ::=
  first [ apply sim_ClaimFromStream | apply sim_AddDeposit | apply sim_SetNewFlowRate
        | apply sim_CancelStreamBySenderReceiver | apply sim_CreateNewStream ]; assumption.

(* the handlers: the addresses of the message are in dom *)
Theorem sim_CreateStream w ws msg : Rw w ws -> dom (MsgCreateStream_Sender msg) -> dom (MsgCreateStream_Receiver msg) ->
  sim (K.go_CreateStream w msg) (S.go_CreateStream ws msg).
Proof.
  intros HR Ds Dr. unfold K.go_CreateStream, S.go_CreateStream, sdk_AccAddressFromBech32. rewrite !obind_Ok. swalk.
Qed.

Theorem sim_ClaimStream w ws msg : Rw w ws -> dom (MsgClaimStream_Sender msg) -> dom (MsgClaimStream_Receiver msg) ->
  sim (K.go_ClaimStream w msg) (S.go_ClaimStream ws msg).
Proof.
  intros HR Ds Dr. unfold K.go_ClaimStream, S.go_ClaimStream, sdk_AccAddressFromBech32. rewrite !obind_Ok. swalk.
Qed.

Theorem sim_TopUpDeposit w ws msg : Rw w ws -> dom (MsgTopUpDeposit_Sender msg) -> dom (MsgTopUpDeposit_Receiver msg) ->
  sim (K.go_TopUpDeposit w msg) (S.go_TopUpDeposit ws msg).
Proof.
  intros HR Ds Dr. unfold K.go_TopUpDeposit, S.go_TopUpDeposit, sdk_AccAddressFromBech32. rewrite !obind_Ok. swalk.
Qed.

Theorem sim_UpdateFlowRate w ws msg : Rw w ws -> dom (MsgUpdateFlowRate_Sender msg) -> dom (MsgUpdateFlowRate_Receiver msg) ->
  sim (K.go_UpdateFlowRate w msg) (S.go_UpdateFlowRate ws msg).
Proof.
  intros HR Ds Dr. unfold K.go_UpdateFlowRate, S.go_UpdateFlowRate, sdk_AccAddressFromBech32. rewrite !obind_Ok. swalk.
Qed.

Theorem sim_CancelStream w ws msg : Rw w ws -> dom (MsgCancelStream_Sender msg) -> dom (MsgCancelStream_Receiver msg) ->
  sim (K.go_CancelStream w msg) (S.go_CancelStream ws msg).
Proof.
  intros HR Ds Dr. unfold K.go_CancelStream, S.go_CancelStream, sdk_AccAddressFromBech32. rewrite !obind_Ok. swalk.
Qed.

(* UpdateParams touches no address *)
Theorem sim_UpdateParams w ws req : Rw w ws -> sim (K.go_UpdateParams w req) (S.go_UpdateParams ws req).
Proof.
  intros HR. unfold K.go_UpdateParams, S.go_UpdateParams. swalk.
Qed.

(* ------------------------------------------------------------------ *)
(* part 4: messages, histories                                          *)
(* ------------------------------------------------------------------ *)

Definition msg_dom (m : str_msg) : Prop := dom (fst (str_msg_addrs m)) /\ dom (snd (str_msg_addrs m)).
Definition kmsg_dom (m : kmsg) : Prop := match m with KStr m => msg_dom m | KUpdateParams _ => True end.

Ltac scall ::=
  first [ apply sim_CreateStream | apply sim_ClaimStream | apply sim_TopUpDeposit | apply sim_UpdateFlowRate
        | apply sim_CancelStream | apply sim_UpdateParams ]; assumption.

Theorem sim_msg_exec w ws m : Rw w ws -> msg_dom m -> sim (go_msg_exec w m) (os_msg_exec ws m).
Proof.
  intros HR [Ds Dr].
  destruct m as [sn r d amt rate | sn r | sn r d amt | sn r rate | sn r]; cbn [str_msg_addrs fst snd] in Ds, Dr;
    unfold go_msg_exec, os_msg_exec; swalk.
Qed.

Theorem sim_deliver w ws m : Rw w ws -> kmsg_dom m -> sim (k_deliver w m) (s_deliver ws m).
Proof.
  intros HR D. destruct m as [m|req]; unfold k_deliver, s_deliver.
  - change (os_str_validate_basic m) with (go_str_validate_basic m). apply sim_bind_pure. intros _.
    apply sim_bind; [apply sim_msg_exec; assumption|]. intros w' ws' r HR'. apply sim_ret, HR'.
  - apply sim_bind; [apply sim_UpdateParams; assumption|]. intros w' ws' r HR'. apply sim_ret, HR'.
Qed.

Lemma Rw_at t w ws : Rw w ws -> Rw (kw_at t w) (sw_at t ws).
Proof. intros (He & _ & Hb & HR). unfold Rw, kw_at, sw_at. cbn. auto. Qed.

(* any history of the six message kinds, from related worlds: the same result for every message, related final worlds *)
Theorem sim_run h : forall w ws, Rw w ws -> Forall (fun tm => kmsg_dom (snd tm)) h ->
  fst (k_run w h) = fst (s_run ws h) /\ Rw (snd (k_run w h)) (snd (s_run ws h)).
Proof.
  induction h as [|[t m] h IH]; intros w ws HR HD.
  - split; [reflexivity | exact HR].
  - inversion HD as [|x l Dm Dh]; subst x l. cbn [snd] in Dm.
    pose proof (Rw_at t w ws HR) as HRt.
    pose proof (sim_deliver (kw_at t w) (sw_at t ws) m HRt Dm) as Hs.
    unfold k_run, s_run in *. cbn [hrun].
    destruct (k_deliver (kw_at t w) m) as [[w' r]|e|p], (s_deliver (sw_at t ws) m) as [[ws' r']|e'|p'];
      cbn in Hs; try contradiction.
    + destruct Hs as [HR' E]. cbn [fst snd] in HR', E. subst r'.
      destruct (IH w' ws' HR' Dh) as [E1 E2]. cbn [fst snd]. rewrite E1. split; [reflexivity | exact E2].
    + subst e'. destruct (IH _ _ HRt Dh) as [E1 E2]. cbn [fst snd]. rewrite E1. split; [reflexivity | exact E2].
    + subst p'. destruct (IH _ _ HRt Dh) as [E1 E2]. cbn [fst snd]. rewrite E1. split; [reflexivity | exact E2].
Qed.

(* the embedding never changes *)
Corollary s_run_emb h w ws : Rw w ws -> Forall (fun tm => kmsg_dom (snd tm)) h ->
  sw_emb (snd (s_run ws h)) = sw_emb ws.
Proof.
  intros HR HD. destruct (sim_run h w ws HR HD) as [_ H]. rewrite (Rw_emb _ _ H), (Rw_emb _ _ HR). reflexivity.
Qed.

(* ------------------------------------------------------------------ *)
(* part 5: C10 / C11 / C12 on the on-store rendering                    *)
(* ------------------------------------------------------------------ *)

Lemma world_eta w : w = world (kw_now w) (kw_bank w) (kw_str w).
Proof. destruct w; reflexivity. Qed.

(* the stream the GENERATED accessor reads from the byte store is the one the abstract map holds *)
Lemma os_GetStream_found w ws r sn g : Rw w ws -> dom r -> dom sn ->
  os_str_GetStream ws r sn = Ok (g, true) ->
  exists st, aget (r, sn) (s_streams (kw_str w)) = Some st /\ g = to_go_stream st.
Proof.
  intros HR Dr Ds H. rewrite (prim_GetStream w ws r sn HR Dr Ds) in H. unfold str_GetStream in H.
  destruct (aget (r, sn) (s_streams (kw_str w))) as [st|]; [|discriminate H].
  injection H as <-. exists st. split; reflexivity.
Qed.

(* the deposits the generated IterateAllStreams lists on the byte store add up to the abstract total *)
Lemma os_total_deposits_eq s st d : Rstr dom emb s st -> os_total_deposits s d = total_deposits st d.
Proof.
  intros HR.
  destruct (AllStreams_refines_perm dom emb emb_len emb_inj s (mk_kworld 0 {| bal := []; supply := [] |} st) HR)
    as (L & HL & P).
  unfold os_total_deposits. rewrite HL.
  rewrite (sumZ_perm _ _ (Permutation.Permutation_map _ P)).
  unfold str_AllStreams, total_deposits, asum. cbn [kw_str]. rewrite !map_map.
  first [ reflexivity | f_equal; apply map_ext; intros [[r sn] x]; reflexivity ].
Qed.

Lemma os_escrow_backed_of w ws : Rw w ws -> escrow_backed (kw_bank w) (kw_str w) -> os_escrow_backed ws.
Proof.
  intros (_ & _ & Hb & HR) B d. rewrite <- Hb, (os_total_deposits_eq _ _ d HR). apply B.
Qed.

(* every state the on-store rendering reaches represents a state of rendering (1) inside the invariant, and the two
   runs answered every message alike *)
Theorem os_run_reachable h now0 w ws :
  Rw w ws -> str_inv now0 (kw_bank w) (kw_str w) -> ktimes_sorted now0 h -> Forall (fun tm => kmsg_dom (snd tm)) h ->
  exists w', Rw w' (snd (s_run ws h)) /\ str_inv (klast_time now0 h) (kw_bank w') (kw_str w') /\
             fst (s_run ws h) = fst (k_run w h).
Proof.
  intros HR I TS HD. exists (snd (k_run w h)). destruct (sim_run h w ws HR HD) as [E HR'].
  split; [exact HR'|]. split; [exact (k_run_inv h now0 w I TS) | symmetry; exact E].
Qed.

(* C10: escrow fully backed in every reachable state - on the abstract state the store represents, and as a statement
   about the bytes alone *)
Theorem os_escrow_backed_reachable h now0 w ws :
  Rw w ws -> str_inv now0 (kw_bank w) (kw_str w) -> ktimes_sorted now0 h -> Forall (fun tm => kmsg_dom (snd tm)) h ->
  (exists st', Rstr dom emb (sw_store (snd (s_run ws h))) st' /\ escrow_backed (sw_bank (snd (s_run ws h))) st') /\
  os_escrow_backed (snd (s_run ws h)).
Proof.
  intros HR I TS HD. destruct (os_run_reachable h now0 w ws HR I TS HD) as (w' & HR' & I' & _).
  split.
  - exists (kw_str w'). destruct HR' as (_ & _ & Hb & HS). split; [exact HS|]. rewrite <- Hb. exact (si_backed _ _ _ I').
  - exact (os_escrow_backed_of w' _ HR' (si_backed _ _ _ I')).
Qed.

(* histories of the model's five kinds: the on-store run ends in a world representing the MODEL's run [str_run] *)
Theorem os_run_is_model h now0 w ws :
  Rw w ws -> str_inv now0 (kw_bank w) (kw_str w) -> times_sorted now0 h ->
  Forall (fun tm => msg_dom (snd tm)) h ->
  exists w', Rw w' (snd (s_run ws (lift_hist h))) /\
             (kw_bank w', kw_str w') = str_run (kw_bank w, kw_str w) h.
Proof.
  intros HR I TS HD. exists (snd (k_run w (lift_hist h))).
  assert (HD' : Forall (fun tm => kmsg_dom (snd tm)) (lift_hist h)).
  { unfold lift_hist. apply Forall_map. eapply Forall_impl; [|exact HD]. intros [t m] H. exact H. }
  destruct (sim_run (lift_hist h) w ws HR HD') as [_ HR']. split; [exact HR'|].
  rewrite k_run_lift. exact (gen_run_v_eq now0 (kw_bank w) (kw_str w) h I TS).
Qed.

(* C12: a claim on a funded stream succeeds *)
Theorem os_claim_succeeds w ws (sn r : addr) g :
  Rw w ws -> str_inv (kw_now w) (kw_bank w) (kw_str w) -> dom sn -> dom r ->
  os_str_GetStream ws r sn = Ok (g, true) -> 0 < snd (Stream_Deposit g) ->
  exists ws' c, os_msg_exec ws (SClaim sn r) = Ok (ws', RClaim c) /\ exists w', Rw w' ws'.
Proof.
  intros HR I Ds Dr Hg Hd.
  destruct (os_GetStream_found w ws r sn g HR Dr Ds Hg) as (st & Ha & ->). cbn in Hd.
  destruct (gen_claim_succeeds _ _ _ sn r st I Ha Hd) as (b' & s' & c & H). rewrite <- world_eta in H.
  destruct (sim_Ok_inv_l _ _ _ _ (sim_msg_exec w ws (SClaim sn r) HR (conj Ds Dr)) H) as (ws' & H' & HR').
  exists ws', c. split; [exact H' | eexists; exact HR'].
Qed.

(* C12: the sender of a cancellable stream can always cancel *)
Theorem os_cancel_succeeds w ws (sn r : addr) g :
  Rw w ws -> str_inv (kw_now w) (kw_bank w) (kw_str w) -> dom sn -> dom r ->
  os_str_GetStream ws r sn = Ok (g, true) -> Stream_Cancellable g = true -> blocked sn = false ->
  exists ws', os_msg_exec ws (SCancel sn r) = Ok (ws', RNone) /\ exists w', Rw w' ws'.
Proof.
  intros HR I Ds Dr Hg Hc Hb.
  destruct (os_GetStream_found w ws r sn g HR Dr Ds Hg) as (st & Ha & ->). cbn in Hc.
  destruct (gen_cancel_succeeds _ _ _ sn r st I Ha Hc Hb) as (b' & s' & H). rewrite <- world_eta in H.
  destruct (sim_Ok_inv_l _ _ _ _ (sim_msg_exec w ws (SCancel sn r) HR (conj Ds Dr)) H) as (ws' & H' & HR').
  exists ws'. split; [exact H' | eexists; exact HR'].
Qed.

(* C12: claim and cancel never panic *)
Theorem os_no_panic_claim_cancel w ws (sn r : addr) :
  Rw w ws -> str_inv (kw_now w) (kw_bank w) (kw_str w) -> dom sn -> dom r ->
  (forall c, os_msg_exec ws (SClaim sn r) <> Panic c) /\ (forall c, os_msg_exec ws (SCancel sn r) <> Panic c).
Proof.
  intros HR I Ds Dr.
  destruct (gen_no_arith_panic_claim_cancel _ _ _ sn r I) as [H1 H2]. rewrite <- world_eta in H1, H2.
  split; intros c E.
  - pose proof (sim_msg_exec w ws (SClaim sn r) HR (conj Ds Dr)) as Hs. rewrite E in Hs.
    destruct (go_msg_exec w (SClaim sn r)) as [x|e|p] eqn:Ek; cbn in Hs; try contradiction. exact (H1 p eq_refl).
  - pose proof (sim_msg_exec w ws (SCancel sn r) HR (conj Ds Dr)) as Hs. rewrite E in Hs.
    destruct (go_msg_exec w (SCancel sn r)) as [x|e|p] eqn:Ek; cbn in Hs; try contradiction. exact (H2 p eq_refl).
Qed.

(* C11: before the deposit-zero time a claim releases exactly rate x whole seconds since the last release, never more *)
Theorem os_never_early w ws (sn r : addr) g ws' c :
  Rw w ws -> str_inv (kw_now w) (kw_bank w) (kw_str w) -> dom sn -> dom r ->
  os_str_GetStream ws r sn = Ok (g, true) -> sw_now ws < Stream_DepositZeroTime g ->
  os_msg_exec ws (SClaim sn r) = Ok (ws', RClaim c) ->
  cr_total c = Stream_FlowRate g * whole_seconds (sw_now ws - Stream_LastOutflowTime g) /\
  cr_total c < snd (Stream_Deposit g) /\ 0 < cr_remaining c /\
  cr_total c * NS <= Stream_FlowRate g * (sw_now ws - Stream_LastOutflowTime g).
Proof.
  intros HR I Ds Dr Hg Hz H.
  destruct (os_GetStream_found w ws r sn g HR Dr Ds Hg) as (st & Ha & ->).
  destruct (sim_Ok_inv _ _ _ _ (sim_msg_exec w ws (SClaim sn r) HR (conj Ds Dr)) H) as (w' & Hk & _).
  assert (En : sw_now ws = kw_now w) by (symmetry; apply HR). rewrite En in *. clear En.
  rewrite (world_eta w), (gen_msg_exec_eq_rate _ _ _ (SClaim sn r) I Logic.I) in Hk.
  destruct (str_exec (kw_now w) (kw_bank w) (kw_str w) (SClaim sn r)) as [[[b' s'] resp]|e|p] eqn:E;
    cbn [lift] in Hk; try discriminate Hk.
  injection Hk as _ ->.
  cbn [to_go_stream Stream_FlowRate Stream_LastOutflowTime Stream_Deposit Stream_DepositZeroTime snd] in Hz |- *.
  exact (never_early _ _ _ sn r st b' s' c I Ha Hz E).
Qed.

(* ------------------------------------------------------------------ *)
(* summaries (for props/C10onstore.v)                                   *)
(* ------------------------------------------------------------------ *)

Lemma sim_spelled {R} (a : outcome (kworld * R)) (c : outcome (sworld * R)) :
  sim a c <->
  match a, c with
  | Ok (w, x), Ok (ws, y) => Rw w ws /\ x = y
  | Err e, Err e' => e = e'
  | Panic p, Panic p' => p = p'
  | _, _ => False
  end.
Proof. destruct a as [[w x]|e|p], c as [[ws y]|e'|p']; cbn; reflexivity. Qed.

Theorem sim_primitives w ws : Rw w ws ->
  os_kw_now ws = kw_now w /\
  os_str_GetParams ws = Ok (str_GetParams w) /\
  (forall r sn, dom r -> dom sn -> os_str_GetStream ws r sn = Ok (str_GetStream w r sn)) /\
  (forall r sn, dom r -> dom sn -> os_str_IsStream ws r sn = Ok (str_IsStream w r sn)) /\
  (forall r sn g, dom r -> dom sn -> sim (str_SetStream w r sn g) (os_str_SetStream ws r sn g)) /\
  (forall r sn, dom r -> dom sn -> sim (str_DeleteStream w r sn) (os_str_DeleteStream ws r sn)) /\
  (forall p, sim (str_SetParams w p) (os_str_SetParams ws p)) /\
  (forall from to cs,
     sim (bank_SendCoinsFromModuleToModule w from to cs) (os_bank_SendCoinsFromModuleToModule ws from to cs)) /\
  (forall from to cs,
     sim (bank_SendCoinsFromAccountToModule w from to cs) (os_bank_SendCoinsFromAccountToModule ws from to cs)) /\
  (forall from to cs,
     sim (bank_SendCoinsFromModuleToAccount w from to cs) (os_bank_SendCoinsFromModuleToAccount ws from to cs)).
Proof.
  intros HR.
  split; [exact (prim_now w ws HR)|]. split; [exact (prim_GetParams w ws HR)|].
  split; [intros; apply prim_GetStream; assumption|]. split; [intros; apply prim_IsStream; assumption|].
  split; [intros; apply prim_SetStream; assumption|]. split; [intros; apply prim_DeleteStream; assumption|].
  split; [intros; apply prim_SetParams; assumption|]. split; [intros; apply prim_SendM2M; assumption|].
  split; [intros; apply prim_SendA2M; assumption | intros; apply prim_SendM2A; assumption].
Qed.

Theorem sim_keeper w ws : Rw w ws ->
  (forall r sn, dom r -> dom sn -> sim (K.go_ClaimFromStream w r sn) (S.go_ClaimFromStream ws r sn)) /\
  (forall r sn dep, dom r -> dom sn -> sim (K.go_AddDeposit w r sn dep) (S.go_AddDeposit ws r sn dep)) /\
  (forall r sn rate, dom r -> dom sn -> sim (K.go_SetNewFlowRate w r sn rate) (S.go_SetNewFlowRate ws r sn rate)) /\
  (forall r sn, dom r -> dom sn ->
     sim (K.go_CancelStreamBySenderReceiver w r sn) (S.go_CancelStreamBySenderReceiver ws r sn)) /\
  (forall r sn dep rate, dom r -> dom sn ->
     sim (K.go_CreateNewStream w r sn dep rate) (S.go_CreateNewStream ws r sn dep rate)).
Proof.
  intros HR.
  split; [intros; apply sim_ClaimFromStream; assumption|]. split; [intros; apply sim_AddDeposit; assumption|].
  split; [intros; apply sim_SetNewFlowRate; assumption|].
  split; [intros; apply sim_CancelStreamBySenderReceiver; assumption | intros; apply sim_CreateNewStream; assumption].
Qed.

Theorem sim_msg_server w ws : Rw w ws ->
  (forall msg, dom (MsgCreateStream_Sender msg) -> dom (MsgCreateStream_Receiver msg) ->
     sim (K.go_CreateStream w msg) (S.go_CreateStream ws msg)) /\
  (forall msg, dom (MsgClaimStream_Sender msg) -> dom (MsgClaimStream_Receiver msg) ->
     sim (K.go_ClaimStream w msg) (S.go_ClaimStream ws msg)) /\
  (forall msg, dom (MsgTopUpDeposit_Sender msg) -> dom (MsgTopUpDeposit_Receiver msg) ->
     sim (K.go_TopUpDeposit w msg) (S.go_TopUpDeposit ws msg)) /\
  (forall msg, dom (MsgUpdateFlowRate_Sender msg) -> dom (MsgUpdateFlowRate_Receiver msg) ->
     sim (K.go_UpdateFlowRate w msg) (S.go_UpdateFlowRate ws msg)) /\
  (forall msg, dom (MsgCancelStream_Sender msg) -> dom (MsgCancelStream_Receiver msg) ->
     sim (K.go_CancelStream w msg) (S.go_CancelStream ws msg)) /\
  (forall req, sim (K.go_UpdateParams w req) (S.go_UpdateParams ws req)).
Proof.
  intros HR.
  split; [intros; apply sim_CreateStream; assumption|]. split; [intros; apply sim_ClaimStream; assumption|].
  split; [intros; apply sim_TopUpDeposit; assumption|]. split; [intros; apply sim_UpdateFlowRate; assumption|].
  split; [intros; apply sim_CancelStream; assumption | intros; apply sim_UpdateParams; assumption].
Qed.

(* the pure functions of the two files are the same functions *)
Theorem pure_functions_agree :
  (forall i, S.go_validateBaseValidatorFee i = K.go_validateBaseValidatorFee i) /\
  (forall p, S.go_Params_Validate p = K.go_Params_Validate p) /\
  (forall m, S.go_MsgCreateStream_ValidateBasic m = K.go_MsgCreateStream_ValidateBasic m) /\
  (forall m, S.go_MsgClaimStream_ValidateBasic m = K.go_MsgClaimStream_ValidateBasic m) /\
  (forall m, S.go_MsgTopUpDeposit_ValidateBasic m = K.go_MsgTopUpDeposit_ValidateBasic m) /\
  (forall m, S.go_MsgUpdateFlowRate_ValidateBasic m = K.go_MsgUpdateFlowRate_ValidateBasic m) /\
  (forall m, S.go_MsgCancelStream_ValidateBasic m = K.go_MsgCancelStream_ValidateBasic m) /\
  (forall t secs, S.go_addSeconds t secs = K.go_addSeconds t secs).
Proof. repeat split. Qed.

(* the history theorem with the side condition on addresses spelled out *)
Theorem sim_run_spelled h w ws : Rw w ws ->
  Forall (fun tm => match snd tm with
                    | KStr (SCreate sn r _ _ _) | KStr (SClaim sn r) | KStr (STopUp sn r _ _)
                    | KStr (SUpdateFlow sn r _) | KStr (SCancel sn r) => dom sn /\ dom r
                    | KUpdateParams _ => True
                    end) h ->
  fst (k_run w h) = fst (s_run ws h) /\ Rw (snd (k_run w h)) (snd (s_run ws h)).
Proof.
  intros HR HD. apply sim_run; [exact HR|]. eapply Forall_impl; [|exact HD].
  intros [t [[sn r d amt rate | sn r | sn r d amt | sn r rate | sn r]|req]] H; exact H.
Qed.

Lemma dom_spelled m km now t h :
  (msg_dom m <->
   match m with
   | SCreate sn r _ _ _ | SClaim sn r | STopUp sn r _ _ | SUpdateFlow sn r _ | SCancel sn r => dom sn /\ dom r
   end) /\
  (kmsg_dom km <-> match km with KStr m => msg_dom m | KUpdateParams _ => True end) /\
  (ktimes_sorted now [] <-> True) /\
  (ktimes_sorted now ((t, km) :: h) <->
   now <= t /\ time_storable t = true /\ match km with KStr m => str_msg_wf m | KUpdateParams _ => True end /\
   ktimes_sorted t h) /\
  klast_time now [] = now /\ klast_time now ((t, km) :: h) = klast_time t h.
Proof.
  split; [destruct m; reflexivity|]. split; [reflexivity|]. split; [reflexivity|].
  split; [destruct km; reflexivity|]. split; reflexivity.
Qed.

End Simulation.

(* ================================================================== *)
(* part 6: a concrete run                                               *)
(* ================================================================== *)

(* 20-byte addresses: account number a (0..255) is nineteen zero bytes and the byte a *)
Definition ex_dom20 (a : Z) : Prop := 0 <= a < 256.
Definition ex_emb20 (a : Z) : list N := repeat 0%N 19 ++ [Z.to_N a].

Lemma ex_emb20_len a : ex_dom20 a -> (1 <= length (ex_emb20 a) <= 255)%nat.
Proof. intros _. unfold ex_emb20. rewrite app_length, repeat_length. cbn. lia. Qed.

Lemma ex_emb20_inj a b : ex_dom20 a -> ex_dom20 b -> ex_emb20 a = ex_emb20 b -> a = b.
Proof.
  unfold ex_dom20, ex_emb20. intros Ha Hb E. apply app_inv_head in E. injection E as E.
  apply Z2N.inj in E; lia.
Qed.

(* the chain of proofs/StreamProofs.v (account 1 holds 10^22 of denom 0; validator fee 1 %), on the byte store: the
   store holds the Params cell and nothing else *)
Definition ex_store0 : okv stream_val := [(stream_ParamsKey, SV_Params (mk_go_Params 10000000000000000))].
Definition ex_sw0 : sworld := mk_sworld ex_emb20 ex_now ex_bank ex_store0.
Definition ex_kw0 : kworld := world ex_now ex_bank ex_state0.

Lemma ex_Rw0 : Rw ex_dom20 ex_emb20 ex_kw0 ex_sw0.
Proof.
  unfold Rw, ex_kw0, ex_sw0, world. cbn [sw_emb sw_now sw_bank sw_store kw_now kw_bank kw_str].
  split; [reflexivity | split; [reflexivity | split; [reflexivity|]]].
  refine (proj1 (Rstr_init ex_dom20 ex_emb20 (mk_go_Params 10000000000000000) ex_store0 tt _)).
  vm_compute. reflexivity.
Qed.

(* create, claim, a claim by a stranger (refused), top-up, rate change, an UpdateParams by account 1 (refused: not the
   authority), cancel, UpdateParams by the authority to 2 % *)
Definition ex_khist : list (Z * kmsg) :=
  [ (ex_t 0,  KStr (SCreate 1 2 0 100000 100));
    (ex_t 10, KStr (SClaim 1 2));
    (ex_t 15, KStr (SClaim 3 2));
    (ex_t 20, KStr (STopUp 1 2 0 50000));
    (ex_t 30, KStr (SUpdateFlow 1 2 200));
    (ex_t 35, KUpdateParams (mk_go_MsgUpdateParams 1 (mk_go_Params 20000000000000000)));
    (ex_t 40, KStr (SCancel 1 2));
    (ex_t 50, KUpdateParams (mk_go_MsgUpdateParams GOV_MACC (mk_go_Params 20000000000000000))) ].

Lemma ex_khist_dom : Forall (fun tm => kmsg_dom ex_dom20 (snd tm)) ex_khist.
Proof. unfold ex_khist. repeat constructor; cbn; unfold ex_dom20; lia. Qed.

Lemma ex_khist_sorted : ktimes_sorted ex_now ex_khist.
Proof. cbn [ktimes_sorted ex_khist kmsg_wf str_msg_wf str_signer]. repeat split; zdec. Qed.

(* the first five messages: the stream is in the store *)
Definition ex_khist5 : list (Z * kmsg) := firstn 5 ex_khist.

(* the on-store rendering runs: the results of the eight messages, the final store, the final balances *)
Example ex_onstore_run :
  fst (s_run ex_sw0 ex_khist) =
    [ Ok (KRStr RNone);
      Ok (KRStr (RClaim {| cr_receiver := 990; cr_fee := 10; cr_total := 1000; cr_remaining := 99000 |}));
      Err ERR_INVALID_DATA;
      Ok (KRStr (RTopUp 149000 (ex_t 1500)));
      Ok (KRStr RNone);
      Err 42;
      Ok (KRStr RNone);
      Ok KRParams ] /\
  sw_store (snd (s_run ex_sw0 ex_khist)) = [(stream_ParamsKey, SV_Params (mk_go_Params 20000000000000000))] /\
  balance (sw_bank (snd (s_run ex_sw0 ex_khist))) STREAM_MACC 0 = 0 /\
  balance (sw_bank (snd (s_run ex_sw0 ex_khist))) 2 0 = 4950 /\
  balance (sw_bank (snd (s_run ex_sw0 ex_khist))) FEE_COLLECTOR 0 = 50.
Proof. vm_compute. repeat split; reflexivity. Qed.

(* after five messages: a Params cell (1-byte key) and one stream under a 43-byte key (prefix, 20, receiver, 20, sender);
   the generated accessor reads it back; the deposits the store lists are what the module account holds *)
Example ex_onstore_mid :
  let ws := snd (s_run ex_sw0 ex_khist5) in
  map (fun kv => length (fst kv)) (sw_store ws) = [1; 43]%nat /\
  os_str_GetStream ws 2 1 = Ok (mk_go_Stream (0, 147000) 200 (ex_t 30) (ex_t 765) true, true) /\
  os_total_deposits (sw_store ws) 0 = 147000 /\ balance (sw_bank ws) STREAM_MACC 0 = 147000.
Proof. vm_compute. repeat split; reflexivity. Qed.

(* ... and it is related to the run of rendering (1): by the theorem, and by computation *)
Example ex_onstore_related :
  fst (k_run ex_kw0 ex_khist) = fst (s_run ex_sw0 ex_khist) /\
  Rw ex_dom20 ex_emb20 (snd (k_run ex_kw0 ex_khist)) (snd (s_run ex_sw0 ex_khist)) /\
  os_escrow_backed (snd (s_run ex_sw0 ex_khist5)).
Proof.
  destruct (sim_run ex_dom20 ex_emb20 ex_emb20_len ex_emb20_inj ex_khist ex_kw0 ex_sw0 ex_Rw0 ex_khist_dom) as [E R].
  split; [exact E|]. split; [exact R|].
  refine (proj2 (os_escrow_backed_reachable ex_dom20 ex_emb20 ex_emb20_len ex_emb20_inj ex_khist5 ex_now ex_kw0 ex_sw0
                   ex_Rw0 ex_inv0 _ _)).
  - cbn [ex_khist5 ex_khist firstn ktimes_sorted kmsg_wf str_msg_wf str_signer]. repeat split; zdec.
  - unfold ex_khist5, ex_khist. cbn [firstn]. repeat constructor; cbn; unfold ex_dom20; lia.
Qed.

Example ex_onstore_traces_computed : fst (k_run ex_kw0 ex_khist) = fst (s_run ex_sw0 ex_khist).
Proof. vm_compute. reflexivity. Qed.

Print Assumptions sim_ClaimFromStream.
Print Assumptions sim_AddDeposit.
Print Assumptions sim_SetNewFlowRate.
Print Assumptions sim_CancelStreamBySenderReceiver.
Print Assumptions sim_CreateNewStream.
Print Assumptions sim_CreateStream.
Print Assumptions sim_ClaimStream.
Print Assumptions sim_TopUpDeposit.
Print Assumptions sim_UpdateFlowRate.
Print Assumptions sim_CancelStream.
Print Assumptions sim_UpdateParams.
Print Assumptions sim_primitives.
Print Assumptions sim_keeper.
Print Assumptions sim_msg_server.
Print Assumptions pure_functions_agree.
Print Assumptions sim_msg_exec.
Print Assumptions sim_deliver.
Print Assumptions sim_run.
Print Assumptions sim_run_spelled.
Print Assumptions k_run_inv.
Print Assumptions os_run_reachable.
Print Assumptions os_escrow_backed_reachable.
Print Assumptions os_run_is_model.
Print Assumptions os_claim_succeeds.
Print Assumptions os_cancel_succeeds.
Print Assumptions os_no_panic_claim_cancel.
Print Assumptions os_never_early.
Print Assumptions ex_onstore_run.
Print Assumptions ex_onstore_mid.
Print Assumptions ex_onstore_related.
