(* Params.Validate of /repo/x/wrkchain/types/params.go as generated on every run (the six go_validate* functions and
   go_Params_Validate at the head of coq/GeneratedWrkchainKeeper.v) computes what the hand-written [reg_params_valid]
   of model/Registry.v computes:

     gen_wrk_Params_Validate_eq : under [wrk_params_nonneg p],
        go_Params_Validate p = if reg_params_valid (params_of_go p) then Ok tt else Err (wrk_params_err p)

   where the error is wrkchain_ErrInvalidParams = 40 except for a denomination that is not blank but malformed: there
   the Go code returns the error of sdk.ValidateDenom itself (lib/GoSdk.v: 1), and it does so before looking at any other
   field.  Both are errors: Ok exactly on the valid parameter sets, never a panic.

   Premise.  The Go fields FeeRegister, FeeRecord, FeePurchaseStorage, DefaultStorageLimit are uint64 and the Go code
   tests them with `== 0`; the model says `0 <`.  The two agree on non-negative values only, so the theorem asks
   0 <= each of these four (no upper bound is needed, and nothing is needed of MaxStorageLimit: a negative maximum is
   below a non-negative default, refused by both).  Each of the four is shown necessary below.

   The proof never mentions a temporary of the generated file nor the nesting / order of its tests. *)
From Coq Require Import ZifyBool.
From MC Require Import lib.Prelude lib.GoSdk GeneratedWrkchainTypes model.Registry model.WrkchainKeeperPrims
  GeneratedWrkchainKeeper.
Local Open Scope Z_scope.

Definition wrk_params_nonneg (p : go_Params) : Prop :=
  0 <= Params_FeeRegister p /\ 0 <= Params_FeeRecord p /\ 0 <= Params_FeePurchaseStorage p /\
  0 <= Params_DefaultStorageLimit p.

(* what decoding a protobuf message gives: every uint64 field in [0, 2^64) *)
Definition wrk_params_u64 (p : go_Params) : Prop :=
  0 <= Params_FeeRegister p < two64 /\ 0 <= Params_FeeRecord p < two64 /\ 0 <= Params_FeePurchaseStorage p < two64 /\
  0 <= Params_DefaultStorageLimit p < two64 /\ 0 <= Params_MaxStorageLimit p < two64.

(* the error returned for an invalid set: sdk.ValidateDenom's own for a non-blank malformed denomination *)
Definition wrk_params_err (p : go_Params) : Z :=
  if (Params_Denom p <? 0) && negb (Params_Denom p =? go_zero_denom) then 1 else wrkchain_ErrInvalidParams.

Ltac pv_norm :=
  cbv beta zeta; cbn [obind negb];
  unfold Denom_IsBlank, sdk_ValidateDenom.
Ltac pv_step :=
  match goal with
  | |- context [if ?b then _ else _] =>
      lazymatch b with
      | context [if _ then _ else _] => fail
      | _ => let H := fresh "T" in destruct b eqn:H
      end
  end.
Ltac pv_walk := pv_norm; repeat (pv_step; pv_norm); try reflexivity; try (exfalso; unfold go_zero_denom in *; lia).

Theorem gen_wrk_Params_Validate_eq : forall p, wrk_params_nonneg p ->
  go_Params_Validate p = if reg_params_valid (params_of_go p) then Ok tt else Err (wrk_params_err p).
Proof.
  intros p (H1 & H2 & H3 & H4).
  destruct (reg_params_valid (params_of_go p)) eqn:V;
    unfold reg_params_valid, params_of_go in V;
    cbn [rp_fee_register rp_fee_record rp_fee_purchase rp_denom rp_default_limit rp_max_limit] in V;
    unfold go_Params_Validate, go_validateFeeDenom, go_validateFeeRegister, go_validateFeeRecord,
      go_validateFeePurchaseStorage, go_validateDefaultStorageLimit, go_validateMaxStorageLimit, wrk_params_err;
    pv_walk.
Qed.

Corollary gen_wrk_Params_Validate_eq_u64 : forall p, wrk_params_u64 p ->
  go_Params_Validate p = if reg_params_valid (params_of_go p) then Ok tt else Err (wrk_params_err p).
Proof.
  intros p (H1 & H2 & H3 & H4 & _). apply gen_wrk_Params_Validate_eq. unfold wrk_params_nonneg. lia.
Qed.

(* the verdict *)
Corollary gen_wrk_Params_Validate_ok_iff : forall p, wrk_params_nonneg p ->
  (go_Params_Validate p = Ok tt <-> reg_params_valid (params_of_go p) = true).
Proof.
  intros p H. rewrite (gen_wrk_Params_Validate_eq p H). destruct (reg_params_valid (params_of_go p)); split;
    intros X; try reflexivity; discriminate X.
Qed.

(* the error: always one of the two classes, the module's own whenever the denomination is blank or well-formed *)
Corollary gen_wrk_Params_Validate_invalid : forall p, wrk_params_nonneg p ->
  reg_params_valid (params_of_go p) = false ->
  go_Params_Validate p = Err wrkchain_ErrInvalidParams \/ go_Params_Validate p = Err 1.
Proof.
  intros p H V. rewrite (gen_wrk_Params_Validate_eq p H), V. unfold wrk_params_err.
  destruct ((Params_Denom p <? 0) && negb (Params_Denom p =? go_zero_denom)); [right|left]; reflexivity.
Qed.

Corollary gen_wrk_Params_Validate_invalid_denom_ok : forall p, wrk_params_nonneg p ->
  reg_params_valid (params_of_go p) = false -> 0 <= Params_Denom p \/ Params_Denom p = go_zero_denom ->
  go_Params_Validate p = Err wrkchain_ErrInvalidParams.
Proof.
  intros p H V D. rewrite (gen_wrk_Params_Validate_eq p H), V. unfold wrk_params_err.
  destruct ((Params_Denom p <? 0) && negb (Params_Denom p =? go_zero_denom)) eqn:E; [exfalso; lia|reflexivity].
Qed.

(* never a panic: needs no hypothesis *)
Theorem gen_wrk_Params_Validate_no_panic : forall p r, go_Params_Validate p = r -> r = Ok tt \/ exists c, r = Err c.
Proof.
  intros p r <-.
  unfold go_Params_Validate, go_validateFeeDenom, go_validateFeeRegister, go_validateFeeRecord,
    go_validateFeePurchaseStorage, go_validateDefaultStorageLimit, go_validateMaxStorageLimit.
  pv_norm; repeat (pv_step; pv_norm); (left; reflexivity) || (right; eexists; reflexivity).
Qed.

Lemma wrkchain_ErrInvalidParams_is_40 : wrkchain_ErrInvalidParams = 40.
Proof. reflexivity. Qed.

(* ---- the hypothesis cannot be dropped: a negative value in any of the four fields passes the `== 0` test ---- *)
Example gen_wrk_Params_Validate_neg_register_refuted :
  go_Params_Validate (mk_go_Params (-1) 1 1 0 2 10) = Ok tt /\
  reg_params_valid (params_of_go (mk_go_Params (-1) 1 1 0 2 10)) = false.
Proof. vm_compute. auto. Qed.
Example gen_wrk_Params_Validate_neg_record_refuted :
  go_Params_Validate (mk_go_Params 1 (-1) 1 0 2 10) = Ok tt /\
  reg_params_valid (params_of_go (mk_go_Params 1 (-1) 1 0 2 10)) = false.
Proof. vm_compute. auto. Qed.
Example gen_wrk_Params_Validate_neg_purchase_refuted :
  go_Params_Validate (mk_go_Params 1 1 (-1) 0 2 10) = Ok tt /\
  reg_params_valid (params_of_go (mk_go_Params 1 1 (-1) 0 2 10)) = false.
Proof. vm_compute. auto. Qed.
Example gen_wrk_Params_Validate_neg_default_refuted :
  go_Params_Validate (mk_go_Params 1 1 1 0 (-2) 10) = Ok tt /\
  reg_params_valid (params_of_go (mk_go_Params 1 1 1 0 (-2) 10)) = false.
Proof. vm_compute. auto. Qed.

(* the two error classes are really met *)
Example gen_wrk_Params_Validate_err_classes :
  go_Params_Validate (mk_go_Params 1 1 1 (-1) 2 10) = Err 40 /\      (* blank denomination *)
  go_Params_Validate (mk_go_Params 1 1 1 (-7) 2 10) = Err 1 /\       (* malformed denomination: sdk.ValidateDenom's error *)
  go_Params_Validate (mk_go_Params 0 1 1 (-7) 2 10) = Err 1 /\       (* ... found before the zero fee *)
  go_Params_Validate (mk_go_Params 0 1 1 0 2 10) = Err 40.
Proof. vm_compute. auto. Qed.

Print Assumptions gen_wrk_Params_Validate_eq.
Print Assumptions gen_wrk_Params_Validate_eq_u64.
Print Assumptions gen_wrk_Params_Validate_ok_iff.
Print Assumptions gen_wrk_Params_Validate_invalid.
Print Assumptions gen_wrk_Params_Validate_no_panic.
