(* C02 (supply changes only through purchase-order completion), C17 (the supply queries) and the
   application-level part of C14 (block hooks never panic on reachable states). *)
From MC Require Import lib.Prelude lib.AMap model.Bank model.Stream model.StreamSpec model.Registry
  model.RegistrySpec model.Enterprise model.EnterpriseSpec model.App model.AppSpec.
From MC Require Import proofs.BankProofs proofs.StreamProofs proofs.EnterpriseProofs proofs.EnterpriseC03
  proofs.EnterpriseC04 proofs.AppFrame proofs.AppAuthProofs proofs.AppFeeProofs proofs.AppParamsProofs
  proofs.AppInv.
From Coq Require Import ZifyBool.
Ltac Zify.zify_post_hook ::= Z.div_mod_to_equations.
Local Open Scope Z_scope.

(* ================================================================= *)
(* transfers of the ante chain and of whole transactions, no hypotheses *)
(* ================================================================= *)

Lemma unlock_ante_xfer a t au :
  unlock_ante a t = Ok au -> xfer (q_unlock (tx_payer t)) (a_bank a) (a_bank au).
Proof.
  unfold unlock_ante.
  destruct (is_registry_tx t && (0 <? snd (locked_coin (a_ent a) (tx_payer t)))).
  - intros H. dobind H. destruct a0 as [b' e']. injection H as <-. cbn.
    eapply unlock_for_fees_xfer; eauto.
  - intros [= <-]. apply xf_refl.
Qed.

Lemma ante_xfer check a t a1 : ante check a t = Ok a1 -> xfer (q_ante t) (a_bank a) (a_bank a1).
Proof.
  intros H. destruct (ante_stages check a t a1 H) as (_ & _ & _ & _ & au & U & D).
  apply xfer_trans with (a_bank au).
  - eapply xfer_mono; [|eapply unlock_ante_xfer; eauto]. intros x y q; left; exact q.
  - eapply xfer_mono; [|apply (deduct_fee_xfer au t a1 D)]. intros x y q; right; exact q.
Qed.

Lemma exec_all_xfer_any a t a' : exec_all a t = Ok a' -> xfer (fun _ _ => True) (a_bank a) (a_bank a').
Proof.
  apply (exec_all_rel (fun a a' => xfer (fun _ _ => True) (a_bank a) (a_bank a')) (fun _ => True)); auto.
  - intros; apply xf_refl.
  - intros; eapply xfer_trans; eauto.
  - intros f0 a0 m0 a1 X _ H. eapply xfer_mono; [|eapply exec_leaf_xfer; eauto]. auto.
Qed.

Lemma deliver_tx_xfer a t a' r : deliver_tx a t = (a', r) -> xfer (fun _ _ => True) (a_bank a) (a_bank a').
Proof.
  unfold deliver_tx. intros H.
  destruct (validate_all t) as [u|c|c]; try (injection H as <- _; apply xf_refl).
  destruct (ante false a t) as [a1|c|c] eqn:A; try (injection H as <- _; apply xf_refl).
  assert (xfer (fun _ _ => True) (a_bank a) (a_bank a1)) as X1.
  { eapply xfer_mono; [|eapply ante_xfer; eauto]. auto. }
  destruct (exec_all a1 t) as [a2|c|c] eqn:E; injection H as <- _; auto.
  eapply xfer_trans; [exact X1|]. eapply exec_all_xfer_any; eauto.
Qed.

Lemma check_tx_xfer a t a' r : check_tx a t = (a', r) -> xfer (fun _ _ => True) (a_bank a) (a_bank a').
Proof.
  unfold check_tx. intros H.
  destruct (validate_all t) as [u|c|c]; try (injection H as <- _; apply xf_refl).
  destruct (ante true a t) as [a1|c|c] eqn:A; injection H as <- _; try apply xf_refl.
  eapply xfer_mono; [|eapply ante_xfer; eauto]. auto.
Qed.

Lemma exec_proposal_xfer a ms : xfer (fun _ _ => True) (a_bank a) (a_bank (exec_proposal a ms)).
Proof.
  rewrite exec_proposal_ofold.
  destruct (ofold (fun a1 m => exec_msg (S (S (msg_depth m))) a1 m) ms (Ok a)) as [a'|?|?] eqn:E;
    try apply xf_refl.
  revert E. apply (ofold_rel (fun a1 m => exec_msg (S (S (msg_depth m))) a1 m)
    (fun a a' => xfer (fun _ _ => True) (a_bank a) (a_bank a')) (fun _ => True)); auto.
  - intros; apply xf_refl.
  - intros; eapply xfer_trans; eauto.
  - intros a0 m a1 _ H. eapply exec_msg_xfer_any; eauto.
Qed.

Lemma end_block_xfer props : forall a, xfer (fun _ _ => True) (a_bank a) (a_bank (end_block a props)).
Proof.
  unfold end_block. induction props as [|ms rest IH]; intros a; cbn [fold_left].
  - apply xf_refl.
  - eapply xfer_trans; [apply exec_proposal_xfer | apply IH].
Qed.

(* ================================================================= *)
(* C02                                                               *)
(* ================================================================= *)

(* no message, however nested, creates or destroys coins *)
Theorem msg_keeps_supply f a m a' :
  exec_msg f a m = Ok a' ->
  forall d, supply_of (a_bank a') d = supply_of (a_bank a) d /\
            total_balance (a_bank a') d = total_balance (a_bank a) d.
Proof.
  intros H d. pose proof (exec_msg_xfer_any f a m a' H) as X.
  destruct (xfer_conserves _ _ _ X d). auto.
Qed.

Theorem deliver_keeps_supply a t a' r :
  deliver_tx a t = (a', r) ->
  forall d, supply_of (a_bank a') d = supply_of (a_bank a) d /\
            total_balance (a_bank a') d = total_balance (a_bank a) d.
Proof.
  intros H d. pose proof (deliver_tx_xfer a t a' r H) as X.
  destruct (xfer_conserves _ _ _ X d). auto.
Qed.

Theorem check_keeps_supply a t a' r :
  check_tx a t = (a', r) ->
  forall d, supply_of (a_bank a') d = supply_of (a_bank a) d /\
            total_balance (a_bank a') d = total_balance (a_bank a) d.
Proof.
  intros H d. pose proof (check_tx_xfer a t a' r H) as X.
  destruct (xfer_conserves _ _ _ X d). auto.
Qed.

Theorem end_block_keeps_supply a props :
  forall d, supply_of (a_bank (end_block a props)) d = supply_of (a_bank a) d /\
            total_balance (a_bank (end_block a props)) d = total_balance (a_bank a) d.
Proof.
  intros d. pose proof (end_block_xfer props a) as X.
  destruct (xfer_conserves _ _ _ X d). auto.
Qed.

(* the amounts of the orders waiting in status accepted *)
Definition accepted_total (e : ent_state) : Z :=
  asum (fun o => if po_status o =? ST_ACCEPTED then po_amount o else 0) (e_pos e).

Lemma sumZ_nonneg l : (forall x, In x l -> 0 <= x) -> 0 <= sumZ l.
Proof.
  induction l as [|x l IH]; cbn; intros H; [lia|].
  pose proof (H x (or_introl eq_refl)). assert (0 <= sumZ l) by (apply IH; intros y Hy; apply H; right; exact Hy). lia.
Qed.

Lemma accepted_total_nonneg now e : sinv now e -> 0 <= accepted_total e.
Proof.
  intros I. unfold accepted_total, asum. apply sumZ_nonneg. intros x Hx.
  apply in_map_iff in Hx as ([k o] & <- & Hin). cbn [snd].
  destruct (po_status o =? ST_ACCEPTED); [|lia].
  assert (aget k (e_pos e) = Some o) as G.
  { apply EnterpriseProofs.In_aget_NoDup; [apply (si_nd_pos _ _ I) | exact Hin]. }
  pose proof (pk_amt _ _ _ _ _ (si_po _ _ I _ _ G)). lia.
Qed.

Theorem begin_block_supply_delta a now a' :
  app_inv a -> begin_wf a now -> begin_block a now = Some a' ->
  (forall d, supply_of (a_bank a') d - supply_of (a_bank a) d =
             if d =? ep_denom (e_params (a_ent a)) then accepted_total (a_ent a) else 0) /\
  (forall id o, aget id (e_pos (a_ent a)) = Some o -> po_status o = ST_ACCEPTED ->
                status_of (a_ent a') id = ST_COMPLETED /\
                aget id (e_pos (a_ent a')) = Some (set_po_status o ST_COMPLETED 0 false)) /\
  0 <= accepted_total (a_ent a) /\
  (e_acceptedq (a_ent a) = [] -> forall d, supply_of (a_bank a') d = supply_of (a_bank a) d).
Proof.
  intros I W H. destruct (begin_block_inv a now a' H) as (b1 & e1 & E & St & ->).
  pose proof (begin_op_wf a now W) as Wo.
  destruct (begin_completes_accepted _ _ _ (ai_ent a I) Wo St) as (Hc & _ & _ & Hs & _).
  cbn [w_bank w_ent ew] in Hc, Hs.
  pose proof (sweep_fees_xfer b1) as XS.
  assert (forall d, supply_of (a_bank (with_ent (with_time a now) (sweep_fees b1) e1)) d - supply_of (a_bank a) d =
             if d =? ep_denom (e_params (a_ent a)) then accepted_total (a_ent a) else 0) as D.
  { intros d. cbn. rewrite (xfer_supply _ _ _ d XS). apply Hs. }
  pose proof (accepted_total_nonneg _ _ (inv_s _ (ai_ent a I))) as NN. cbn [w_ent ew] in NN.
  repeat split; auto.
  - cbn. apply (Hc id o); auto.
  - cbn. apply (Hc id o); auto.
  - intros Q d. specialize (D d).
    destruct (no_accepted_sums _ _ (inv_s _ (ai_ent a I)) Q) as [_ Z0]. cbn [w_ent ew] in Z0.
    unfold accepted_total in D. unfold acc_all in Z0. rewrite Z0 in D.
    destruct (d =? ep_denom (e_params (a_ent a))); lia.
Qed.

(* at every point of every well-formed history the balances sum to the recorded supply *)
Theorem balances_sum_to_supply g h n :
  app_inv g -> hist_wf (node_init g) h -> node_run (node_init g) h = Some n ->
  (forall d, total_balance (a_bank (n_committed n)) d = supply_of (a_bank (n_committed n)) d) /\
  (forall d, total_balance (a_bank (n_check n)) d = supply_of (a_bank (n_check n)) d) /\
  match n_deliver n with
  | Some a => forall d, total_balance (a_bank a) d = supply_of (a_bank a) d
  | None => True
  end.
Proof.
  intros I W H. destruct (app_inv_node_run g h n I W H) as (Ic & Ik & Id).
  split; [apply Ic | split; [apply Ik|]]. destruct (n_deliver n); [apply Id | trivial].
Qed.

(* one node step changes the supply of the state it works on only in BeginBlock *)
Theorem node_step_supply n o n' r :
  node_step n o = Some (n', r) ->
  match o with
  | OpBegin _ => True
  | OpDeliver _ | OpEnd _ =>
      match n_deliver n, n_deliver n' with
      | Some a, Some a' => forall d, supply_of (a_bank a') d = supply_of (a_bank a) d
      | _, _ => False
      end
  | OpCheck _ => forall d, supply_of (a_bank (n_check n')) d = supply_of (a_bank (n_check n)) d
  | OpCommit => n_deliver n = Some (n_committed n')
  | OpCrash => n_committed n' = n_committed n
  end.
Proof.
  destruct o as [now|t|t|ps| |]; cbn; intros H; auto.
  - destruct (n_deliver n) as [a|]; [|discriminate]. destruct (deliver_tx a t) as [a' r'] eqn:E.
    injection H as <- _. cbn. intros d. apply (deliver_keeps_supply a t a' r' E d).
  - destruct (check_tx (n_check n) t) as [c' r'] eqn:E. injection H as <- _. cbn.
    intros d. apply (check_keeps_supply _ t c' r' E d).
  - destruct (n_deliver n) as [a|]; [|discriminate]. injection H as <- _. cbn.
    intros d. apply (end_block_keeps_supply a ps d).
  - destruct (n_deliver n) as [a|]; [|discriminate]. injection H as <- _. reflexivity.
  - injection H as <- _. reflexivity.
Qed.

(* ================================================================= *)
(* C17                                                               *)
(* ================================================================= *)

Lemma balance_le_total_list (l : amap (addr * denom) Z) :
  NoDup (akeys l) -> (forall k v, In (k, v) l -> 0 <= v) ->
  forall x d,
    0 <= sumZ (map (fun kv : (addr * denom) * Z => if snd (fst kv) =? d then snd kv else 0) l) /\
    match aget (x, d) l with Some v => v | None => 0 end
    <= sumZ (map (fun kv : (addr * denom) * Z => if snd (fst kv) =? d then snd kv else 0) l).
Proof.
  induction l as [|[k v] r IH]; intros ND NN x d; cbn [map sumZ aget fst snd].
  - split; lia.
  - inversion ND as [|? ? NI ND']; subst.
    assert (0 <= v) as Hv by (apply (NN k v); left; reflexivity).
    destruct (IH ND' (fun k0 v0 Hin => NN k0 v0 (or_intror Hin)) x d) as [S0 S1].
    destruct (keqb (x, d) k) eqn:Ek.
    + apply keqb_spec in Ek. subst k. cbn [snd]. rewrite Z.eqb_refl. split; lia.
    + destruct (snd k =? d); split; lia.
Qed.

Lemma balance_le_total b x d :
  bank_wf b -> bank_nonneg b -> 0 <= total_balance b d /\ balance b x d <= total_balance b d.
Proof.
  intros Wf NN. unfold total_balance, balance. apply balance_le_total_list; [exact Wf|].
  intros [y d'] v Hin. specialize (NN y d'). unfold balance in NN.
  pose proof (StreamProofs.In_aget_NoDup (bal b) (y, d') v Wf Hin) as G.
  unfold addr, denom in *. rewrite G in NN. exact NN.
Qed.

Lemma locked_le_supply a :
  app_inv a ->
  let d := ep_denom (e_params (a_ent a)) in
  fst (total_locked (a_ent a)) = d /\ 0 <= snd (total_locked (a_ent a)) /\
  snd (total_locked (a_ent a)) <= supply_of (a_bank a) d.
Proof.
  intros I d.
  destruct (books_balance _ (ai_ent a I)) as (Eb & _ & _ & _ & _ & Ef & _ & E0 & _). cbn [w_bank w_ent ew] in *.
  repeat split; auto. rewrite <- Eb. rewrite <- (ai_supply a I).
  apply balance_le_total; apply I.
Qed.

Theorem q_supply_of_spec a d :
  app_inv a ->
  q_supply_of (a_bank a) (a_ent a) d =
    Ok (if d =? ep_denom (e_params (a_ent a))
        then supply_of (a_bank a) d - snd (total_locked (a_ent a)) else supply_of (a_bank a) d) /\
  0 <= (if d =? ep_denom (e_params (a_ent a))
        then supply_of (a_bank a) d - snd (total_locked (a_ent a)) else supply_of (a_bank a) d).
Proof.
  intros I. destruct (locked_le_supply a I) as (Ef & E0 & El).
  assert (0 <= supply_of (a_bank a) d) as S0.
  { rewrite <- (ai_supply a I). apply (balance_le_total (a_bank a) 0 d); apply I. }
  unfold q_supply_of. destruct (d =? ep_denom (e_params (a_ent a))) eqn:Ed.
  - apply Z.eqb_eq in Ed. subst d. rewrite Ef, Z.eqb_refl. cbn [negb].
    destruct (supply_of (a_bank a) (ep_denom (e_params (a_ent a))) <? snd (total_locked (a_ent a))) eqn:C; [lia|].
    split; [reflexivity | lia].
  - split; [reflexivity | exact S0].
Qed.

Theorem q_ent_supply_spec a :
  app_inv a -> supply_of (a_bank a) (ep_denom (e_params (a_ent a))) < two64 ->
  exists l u t,
    q_ent_supply (a_bank a) (a_ent a) = Ok (l, u, t) /\
    l + u = t /\ 0 <= l /\ 0 <= u /\
    l = snd (total_locked (a_ent a)) /\ t = supply_of (a_bank a) (ep_denom (e_params (a_ent a))).
Proof.
  intros I Hs. destruct (locked_le_supply a I) as (Ef & E0 & El).
  unfold q_ent_supply. rewrite Ef, Z.eqb_refl. cbn [negb].
  set (T := supply_of (a_bank a) (ep_denom (e_params (a_ent a)))) in *.
  set (L := snd (total_locked (a_ent a))) in *.
  destruct (T <? L) eqn:C1; [lia|].
  destruct ((two64 <=? T) || (two64 <=? L)) eqn:C2; [lia|].
  exists L, (T - L), T. repeat split; lia.
Qed.

(* locked and circulating supply agree between the two queries *)
Theorem q_supplies_agree a l u t :
  app_inv a -> q_ent_supply (a_bank a) (a_ent a) = Ok (l, u, t) ->
  q_supply_of (a_bank a) (a_ent a) (ep_denom (e_params (a_ent a))) = Ok u.
Proof.
  intros I H. destruct (q_supply_of_spec a (ep_denom (e_params (a_ent a))) I) as [-> _].
  rewrite Z.eqb_refl. unfold q_ent_supply in H.
  repeat step H. injection H as _ <- _. reflexivity.
Qed.

(* ================================================================= *)
(* C14, application level                                            *)
(* ================================================================= *)

Lemma begin_block_total a now : app_inv a -> begin_wf a now -> begin_block a now <> None.
Proof.
  intros I W. pose proof (begin_op_wf a now W) as Wo.
  pose proof (begin_block_never_panics (ew a) (unix now) (ai_ent a I) (ai_nonneg a I) Wo) as NP.
  cbn [ent_step ew w_bank w_ent] in NP. unfold begin_block. cbn [a_bank a_ent with_time].
  destruct (ent_begin_block (unix now) (a_bank a) (a_ent a)) as [[b1 e1]|?|?]; congruence.
Qed.

Theorem blockers_never_panic g h n o :
  app_inv g -> hist_wf (node_init g) h -> node_run (node_init g) h = Some n -> op_wf n o ->
  match o with
  | OpBegin _ => n_deliver n = None
  | OpEnd _ | OpCommit => n_deliver n <> None
  | _ => False
  end ->
  node_step n o <> None.
Proof.
  intros I W H Wo Ph. destruct (app_inv_node_run g h n I W H) as (Ic & _ & _).
  destruct o as [now|t|t|ps| |]; try contradiction; cbn.
  - pose proof (begin_block_total (n_committed n) now Ic Wo) as NP.
    destruct (begin_block (n_committed n) now); congruence.
  - destruct (n_deliver n); congruence.
  - destruct (n_deliver n); congruence.
Qed.

(* BeginBlock needs no phase condition: it reads the committed state only *)
Theorem begin_never_panics g h n now :
  app_inv g -> hist_wf (node_init g) h -> node_run (node_init g) h = Some n -> op_wf n (OpBegin now) ->
  node_step n (OpBegin now) <> None.
Proof.
  intros I W H Wo. destruct (app_inv_node_run g h n I W H) as (Ic & _ & _). cbn.
  pose proof (begin_block_total (n_committed n) now Ic Wo) as NP.
  destruct (begin_block (n_committed n) now); congruence.
Qed.

(* a whole well-formed history whose operations come in block order never halts *)
Fixpoint phased (deliver : bool) (h : list op) : Prop :=
  match h with
  | [] => True
  | OpBegin _ :: r => deliver = false /\ phased true r
  | OpDeliver _ :: r => deliver = true /\ phased true r
  | OpEnd _ :: r => deliver = true /\ phased true r
  | OpCommit :: r => deliver = true /\ phased false r
  | OpCheck _ :: r => phased deliver r
  | OpCrash :: r => phased false r
  end.

Theorem chain_never_halts h : forall n,
  node_inv n -> hist_wf n h -> phased (match n_deliver n with Some _ => true | None => false end) h ->
  node_run n h <> None.
Proof.
  induction h as [|o r IH]; intros n I W P; cbn [node_run]; [discriminate|].
  destruct W as [Wo Wr].
  assert (node_step n o <> None) as NS.
  { destruct o as [now|t|t|ps| |]; cbn in P |- *.
    - pose proof (begin_block_total (n_committed n) now (proj1 I) Wo).
      destruct (begin_block (n_committed n) now); congruence.
    - destruct (n_deliver n); [|destruct P; discriminate]. destruct (deliver_tx a t). discriminate.
    - destruct (check_tx (n_check n) t). discriminate.
    - destruct (n_deliver n); [discriminate | destruct P; discriminate].
    - destruct (n_deliver n); [discriminate | destruct P; discriminate].
    - discriminate. }
  destruct (node_step n o) as [[n1 x]|] eqn:E; [|congruence].
  apply IH; auto.
  - eapply node_step_inv; eauto.
  - destruct o as [now|t|t|ps| |]; cbn in E, P.
    + destruct (begin_block (n_committed n) now); [|discriminate]. injection E as <- _. cbn. tauto.
    + destruct (n_deliver n); [|discriminate]. destruct (deliver_tx a t). injection E as <- _. cbn. tauto.
    + destruct (check_tx (n_check n) t). injection E as <- _. cbn. exact P.
    + destruct (n_deliver n); [|discriminate]. injection E as <- _. cbn. tauto.
    + destruct (n_deliver n); [|discriminate]. injection E as <- _. cbn. tauto.
    + injection E as <- _. cbn. exact P.
Qed.

(* the listed class: governance changes the enterprise denomination while an accepted order waits *)
Definition ex_ep_other : ent_params :=
  {| ep_denom := 1; ep_min_accepts := 1; ep_time_limit := 100; ep_signers := [7] |}.

Definition ex_hist_denom : list op :=
  [OpBegin (ex_t 5); OpDeliver ex_tx_raise; OpDeliver ex_tx_accept; OpEnd []; OpCommit;
   OpBegin (ex_t 10); OpEnd [[MUpdParams GOV_MACC (UEnt ex_ep_other)]]; OpCommit].

Theorem denom_change_halts :
  exists n,
    node_run (node_init ex_g) ex_hist_denom = Some n /\
    upd_valid (UEnt ex_ep_other) = true /\
    e_acceptedq (a_ent (n_committed n)) = [1] /\
    ep_denom (e_params (a_ent (n_committed n))) = 1 /\
    begin_wf (n_committed n) (ex_t 15) /\
    ent_begin_block (unix (ex_t 15)) (a_bank (n_committed n)) (a_ent (n_committed n)) = Panic PANIC_DENOM /\
    node_step n (OpBegin (ex_t 15)) = None.
Proof.
  eexists. split; [vm_compute; reflexivity|].
  vm_compute. repeat split; try reflexivity; discriminate.
Qed.

(* the uint64 conversion of the supply query panics above 2^64 - 1, on a state satisfying the invariant *)
Theorem ent_supply_uint64_panic :
  app_inv (ex_g_of two64) /\
  q_ent_supply (a_bank (ex_g_of two64)) (a_ent (ex_g_of two64)) = Panic PANIC_UINT64 /\
  q_supply_of (a_bank (ex_g_of two64)) (a_ent (ex_g_of two64)) NUND = Ok (two64 + 150).
Proof.
  split; [apply ex_g_of_inv; unfold two64; lia|]. vm_compute. split; reflexivity.
Qed.
