(* GENESIS of x/enterprise ON THE BYTE STORE: InitGenesis / ExportGenesis of /repo/x/enterprise/genesis.go as rendered a
   second time (GeneratedEnterpriseKeeperOnStore.v: world [esworld] of model/EnterpriseStoreWorld.v, store access through
   the GENERATED accessors of GeneratedEnterpriseStore.v - in particular the four export listings GetAllPurchaseOrders,
   GetAllLockedUnds, GetAllWhitelistedAddresses, GetAllSpentEFUNDs) against the first rendering
   (GeneratedEnterpriseKeeper.v over the hand-written primitives, world [eworld]; proofs/GeneratedEnterpriseGenesisEq.v
   relates THAT to the model's import_ent / export_ent).

   Given, as in proofs/GeneratedEnterpriseOnStoreEq.v: dom, emb, unemb with emb_hyps dom emb unemb.

   part 1  the four listing adapters: the primitive's listing sorted by store key; equal when the abstract list is in
           key order; a permutation otherwise;
   part 2  ExportGenesis: the document; equal under [ent_key_ordered]; equal up to permutations of the four lists
           without it; the hypothesis is needed;
   part 3  InitGenesis simulates (Ok/Ok related worlds, Panic/Panic equal codes) under [doc_side]. *)
From Coq Require Import ZifyBool.
From MC Require Import lib.Prelude lib.AMap lib.GoSdk GeneratedEnterpriseTypes model.Bank model.Enterprise model.EnterpriseSpec
  model.Keys model.KeyPrims model.KVStore model.StoreCodecPrims model.EnterpriseKeeperPrims model.EnterpriseStoreWorld
  model.EnterpriseGenSpec GeneratedKeys GeneratedEnterpriseStore.
From MC Require GeneratedEnterpriseKeeper GeneratedEnterpriseKeeperOnStore.
From MC Require Import proofs.BankProofs proofs.GeneratedEnterpriseParamsEq proofs.KVStoreFacts proofs.KVStoreFacts2Enterprise proofs.GeneratedEnterpriseStoreEq
  proofs.GeneratedEnterpriseStoreRefines proofs.GeneratedEnterpriseOnStoreEq.
From Coq Require Import NArith ZArith List Bool Lia Sorted Permutation.
Import ListNotations.
Local Open Scope Z_scope.

(* ================================================================== *)
Section Genesis.
(* ================================================================== *)

Variable dom : addr -> Prop.
Variable emb : addr -> list N.
Variable unemb : list N -> addr.
Hypothesis Hemb : emb_hyps dom emb unemb.

Notation Rw := (Rw dom emb unemb).
Notation Rwi := (Rwi dom emb unemb).
Notation Rent := (Rent dom emb).

Local Lemma g_emb_inj : forall a b, dom a -> dom b -> emb a = emb b -> a = b.
Proof. exact (proj1 Hemb). Qed.
Local Lemma g_unemb_emb : forall a, dom a -> unemb (emb a) = a.
Proof. exact (proj1 (proj2 Hemb)). Qed.
Local Lemma g_emb_nonempty : forall a, dom a -> emb a <> [].
Proof. exact (proj1 (proj2 (proj2 Hemb))). Qed.

(* ------------------------------------------------------------------ *)
(* part 1: the listings                                                 *)
(* ------------------------------------------------------------------ *)

(* the abstract state lists in the order of the store keys: purchase orders by ascending id, whitelist / locked / spent
   by ascending address BYTES *)
Definition byte_lt (a b : addr) : Prop := lex_lt (emb a) (emb b) = true.
Definition ent_key_ordered (st : ent_state) : Prop :=
  StronglySorted Z.lt (akeys (e_pos st)) /\ StronglySorted byte_lt (e_wl st) /\
  StronglySorted byte_lt (akeys (e_locked st)) /\ StronglySorted byte_lt (akeys (e_spent st)).

Lemma Rw_unemb w ws : Rw w ws -> esw_unemb ws = unemb.
Proof. intros H; apply H. Qed.

Theorem os_GetAllPurchaseOrders_sorted w ws : Rw w ws ->
  os_ent_GetAllPurchaseOrders ws = Ok (map po_image (ksort po_key (e_pos (ew_ent w)))).
Proof. intros H. exact (GetAllPurchaseOrders_refines dom emb _ w (Rw_Rent _ _ _ _ _ H)). Qed.

Theorem os_GetAllLockedUnds_sorted w ws : Rw w ws ->
  os_ent_GetAllLockedUnds ws = Ok (map locked_image (ksort (locked_key emb) (e_locked (ew_ent w)))).
Proof. intros H. exact (GetAllLockedUnds_refines dom emb g_emb_inj _ w (Rw_Rent _ _ _ _ _ H)). Qed.

Theorem os_GetAllSpentEFUNDs_sorted w ws : Rw w ws ->
  os_ent_GetAllSpentEFUNDs ws = Ok (map spent_image (ksort (spent_key emb) (e_spent (ew_ent w)))).
Proof. intros H. exact (GetAllSpentEFUNDs_refines dom emb g_emb_inj _ w (Rw_Rent _ _ _ _ _ H)). Qed.

Theorem os_GetAllWhitelistedAddresses_sorted w ws : Rw w ws ->
  os_ent_GetAllWhitelistedAddresses ws = Ok (ksort (wl_key emb) (e_wl (ew_ent w))).
Proof.
  intros H. unfold os_ent_GetAllWhitelistedAddresses. rewrite (Rw_unemb _ _ H).
  exact (GetAllWhitelistedAddresses_refines dom emb unemb g_emb_inj g_unemb_emb _ w (Rw_Rent _ _ _ _ _ H)).
Qed.

(* ------------------------------------------------------------------ *)
(* part 2: ExportGenesis                                                *)
(* ------------------------------------------------------------------ *)

(* the document written from the bytes: parameters, counter and the two totals as the first rendering reads them, the
   four lists in store-key order.  No ordering hypothesis; never an error *)
Theorem os_ExportGenesis_run w ws : Rw w ws ->
  S.go_ExportGenesis ws =
    Ok (mk_go_GenesisState (ent_GetParams w) (e_next (ew_ent w))
          (map po_image (ksort po_key (e_pos (ew_ent w))))
          (map locked_image (ksort (locked_key emb) (e_locked (ew_ent w))))
          (ent_GetTotalLockedUnd w)
          (ksort (wl_key emb) (e_wl (ew_ent w)))
          (map spent_image (ksort (spent_key emb) (e_spent (ew_ent w))))
          (ent_GetTotalSpentEFUND w)).
Proof.
  intros H. unfold S.go_ExportGenesis.
  rewrite (prim_GetParams dom emb unemb w ws H), obind_Ok.
  rewrite (prim_GetHighestPurchaseOrderID dom emb unemb w ws H). unfold ent_GetHighestPurchaseOrderID. cbn [drop_err]. rewrite obind_Ok.
  rewrite (os_GetAllPurchaseOrders_sorted w ws H), obind_Ok.
  rewrite (os_GetAllLockedUnds_sorted w ws H), obind_Ok.
  rewrite (prim_GetTotalLockedUnd dom emb unemb w ws H), obind_Ok.
  rewrite (os_GetAllWhitelistedAddresses_sorted w ws H), obind_Ok.
  rewrite (prim_GetTotalSpentEFUND dom emb unemb w ws H), obind_Ok.
  rewrite (os_GetAllSpentEFUNDs_sorted w ws H), obind_Ok. reflexivity.
Qed.

Lemma K_ExportGenesis_run w :
  K.go_ExportGenesis w =
    Ok (mk_go_GenesisState (ent_GetParams w) (e_next (ew_ent w)) (ent_GetAllPurchaseOrders w) (ent_GetAllLockedUnds w)
          (ent_GetTotalLockedUnd w) (ent_GetAllWhitelistedAddresses w) (ent_GetAllSpentEFUNDs w) (ent_GetTotalSpentEFUND w)).
Proof. reflexivity. Qed.

(* the four sorts are the identity on a state in key order *)
Lemma key_ordered_sorts s st : Rent s st -> ent_key_ordered st ->
  ksort po_key (e_pos st) = e_pos st /\ ksort (wl_key emb) (e_wl st) = e_wl st /\
  ksort (locked_key emb) (e_locked st) = e_locked st /\ ksort (spent_key emb) (e_spent st) = e_spent st.
Proof.
  intros HR (Hp & Hw & Hl & Hs). set (w := mk_eworld 0 {| bal := []; supply := [] |} st).
  pose proof (GetAllPurchaseOrders_refines dom emb s w HR) as E1.
  pose proof (GetAllPurchaseOrders_refines_sorted dom emb s w HR Hp) as E1'.
  pose proof (GetAllWhitelistedAddresses_refines dom emb unemb g_emb_inj g_unemb_emb s w HR) as E2.
  pose proof (GetAllWhitelistedAddresses_refines_sorted dom emb unemb g_emb_inj g_unemb_emb s w HR Hw) as E2'.
  split; [|split; [|split]].
  - apply ksort_id.
    assert (H : forall l : list (Z * po), (forall x, In x (map fst l) -> u64 x) -> StronglySorted Z.lt (map fst l) ->
                StronglySorted (klt po_key) l).
    { induction l as [|[i o] l IH]; intros Hu Hsrt; [constructor|]. cbn [map] in Hsrt. inversion Hsrt as [|? ? Hs' Hall]; subst.
      constructor; [apply IH; [intros x Hx; apply Hu; right; exact Hx | exact Hs']|].
      rewrite Forall_forall in *. intros [j o'] Hj. unfold klt, po_key. cbn [fst].
      apply kpo_order; [apply Hu; left; reflexivity | apply Hu; right; apply in_map_iff; exists (j, o'); split; [reflexivity | exact Hj]|].
      apply Hall. apply in_map_iff. exists (j, o'). split; [reflexivity | exact Hj]. }
    apply H; [intros x Hx; apply (pos_keys_u64 dom emb s _ x HR Hx) | exact Hp].
  - rewrite E2 in E2'. injection E2' as E2'. exact E2'.
  - apply ksort_id. exact (akeys_sorted_klt emb 2%N _ Hl).
  - apply ksort_id. exact (akeys_sorted_klt emb 6%N _ Hs).
Qed.

Theorem os_ExportGenesis_eq w ws : Rw w ws -> ent_key_ordered (ew_ent w) ->
  S.go_ExportGenesis ws = K.go_ExportGenesis w.
Proof.
  intros H HO. rewrite (os_ExportGenesis_run w ws H), K_ExportGenesis_run.
  destruct (key_ordered_sorts _ _ (Rw_Rent _ _ _ _ _ H) HO) as (E1 & E2 & E3 & E4). rewrite E1, E2, E3, E4. reflexivity.
Qed.

(* without the order: the same parameters, counter and totals; each of the four lists a permutation *)
Theorem os_ExportGenesis_perm w ws : Rw w ws ->
  exists d d', S.go_ExportGenesis ws = Ok d /\ K.go_ExportGenesis w = Ok d' /\
    GenesisState_Params d = GenesisState_Params d' /\
    GenesisState_StartingPurchaseOrderId d = GenesisState_StartingPurchaseOrderId d' /\
    GenesisState_TotalLocked d = GenesisState_TotalLocked d' /\ GenesisState_TotalSpent d = GenesisState_TotalSpent d' /\
    Permutation (GenesisState_PurchaseOrders d) (GenesisState_PurchaseOrders d') /\
    Permutation (GenesisState_LockedUnd d) (GenesisState_LockedUnd d') /\
    Permutation (GenesisState_Whitelist d) (GenesisState_Whitelist d') /\
    Permutation (GenesisState_SpentEfund d) (GenesisState_SpentEfund d').
Proof.
  intros H. rewrite (os_ExportGenesis_run w ws H), K_ExportGenesis_run. do 2 eexists.
  split; [reflexivity|]. split; [reflexivity|]. repeat (split; [reflexivity|]).
  cbn [GenesisState_PurchaseOrders GenesisState_LockedUnd GenesisState_Whitelist GenesisState_SpentEfund].
  split; [apply (Permutation_map po_image), ksort_perm|]. split; [apply (Permutation_map locked_image), ksort_perm|].
  split; [apply ksort_perm | apply (Permutation_map spent_image), ksort_perm].
Qed.

(* ------------------------------------------------------------------ *)
(* part 3: InitGenesis simulates                                        *)
(* ------------------------------------------------------------------ *)

Notation pdom := (pdom dom).
Notation sim := (@GeneratedEnterpriseOnStoreEq.sim dom emb unemb unit).

Definition po_id := EnterpriseUndPurchaseOrder_Id.
Definition po_status := EnterpriseUndPurchaseOrder_Status.
Definition raised_ids (l : list go_EnterpriseUndPurchaseOrder) : list Z :=
  map po_id (filter (fun po => po_status po =? enterprise_StatusRaised) l).
Definition accepted_ids (l : list go_EnterpriseUndPurchaseOrder) : list Z :=
  map po_id (filter (fun po => po_status po =? enterprise_StatusAccepted) l).

(* what the byte store needs of a document imported ONTO the abstract state st, besides what both renderings check:
   uint64 counter and ids; parameters in the range where the two Params.Validate agree; addresses that parse are in
   dom; no whitelist entry twice or already present (the primitive appends, the store is a set); the orders queued as
   Raised / Accepted come in ascending id order, above what is already queued, the raised ones below the counter (the
   primitives append to lists, the store keeps id-ordered sets) *)
Definition doc_side (st : ent_state) (d : go_GenesisState) : Prop :=
  ent_params_range (GenesisState_Params d) /\ denom_ok (GenesisState_Params d) /\
  u64 (GenesisState_StartingPurchaseOrderId d) /\
  (forall y, In y (e_raisedq st) -> y < GenesisState_StartingPurchaseOrderId d) /\
  Forall pdom (GenesisState_Whitelist d) /\ NoDup (GenesisState_Whitelist d) /\
  (forall a, In a (GenesisState_Whitelist d) -> mem_addr a (e_wl st) = false) /\
  Forall (fun po => u64 (po_id po) /\ pdom (EnterpriseUndPurchaseOrder_Purchaser po)) (GenesisState_PurchaseOrders d) /\
  StronglySorted Z.lt (raised_ids (GenesisState_PurchaseOrders d)) /\
  (forall y r, In y (e_raisedq st) -> In r (raised_ids (GenesisState_PurchaseOrders d)) -> y < r) /\
  (forall r, In r (raised_ids (GenesisState_PurchaseOrders d)) -> r < GenesisState_StartingPurchaseOrderId d) /\
  StronglySorted Z.lt (accepted_ids (GenesisState_PurchaseOrders d)) /\
  (forall y r, In y (e_acceptedq st) -> In r (accepted_ids (GenesisState_PurchaseOrders d)) -> y < r) /\
  Forall (fun l => dom (LockedUnd_Owner l)) (GenesisState_LockedUnd d) /\
  Forall (fun l => dom (SpentEFUND_Owner l)) (GenesisState_SpentEfund d).

Lemma gsim_ignore_err E w ws (a : outcome (eworld * unit)) (c : outcome (esworld * unit)) :
  Rwi w ws -> gsim Rwi E a c -> gsim Rwi eq (ignore_err w a) (ignore_err ws c).
Proof.
  intros H Hs. destruct a as [[w' []]|e|p], c as [[ws' []]|e'|p']; cbn in Hs |- *; try contradiction; try exact Hs.
  split; [exact H | reflexivity].
Qed.

(* the part of the abstract state the side conditions speak about *)
Definition qsum (w : eworld) : Z * list Z * list Z * list addr :=
  (e_next (ew_ent w), e_raisedq (ew_ent w), e_acceptedq (ew_ent w), e_wl (ew_ent w)).

Lemma fr_SetParams w p w' u : ignore_err w (ent_SetParams w p) = Ok (w', u) -> qsum w' = qsum w.
Proof.
  unfold ent_SetParams, ent_set_params. destruct (ent_params_valid _); cbn [obind ignore_err]; intros [= <- _]; reflexivity.
Qed.
Lemma fr_SetHighest w n w' u : ent_SetHighestPurchaseOrderID w n = Ok (w', u) ->
  qsum w' = (n, e_raisedq (ew_ent w), e_acceptedq (ew_ent w), e_wl (ew_ent w)).
Proof. intros [= <- _]. reflexivity. Qed.
Lemma fr_AddWL c w a w' u : panic_on_err c (ent_AddAddressToWhitelist w a) = Ok (w', u) ->
  qsum w' = (e_next (ew_ent w), e_raisedq (ew_ent w), e_acceptedq (ew_ent w), e_wl (ew_ent w) ++ [a]).
Proof. intros [= <- _]. reflexivity. Qed.
Lemma fr_TotLocked c w x w' u : panic_on_err c (ent_SetTotalLockedUnd w x) = Ok (w', u) -> qsum w' = qsum w.
Proof. intros [= <- _]. reflexivity. Qed.
Lemma fr_TotSpent c w x w' u : panic_on_err c (ent_SetTotalSpentEFUND w x) = Ok (w', u) -> qsum w' = qsum w.
Proof. intros [= <- _]. reflexivity. Qed.
Lemma fr_SetPO c w g w' u : panic_on_err c (ent_SetPurchaseOrder w g) = Ok (w', u) -> qsum w' = qsum w.
Proof. unfold ent_SetPurchaseOrder. destruct (negb _); cbn [panic_on_err]; [discriminate|]. intros [= <- _]. reflexivity. Qed.
Lemma fr_AddRaised w id w' u : ent_AddPoToRaisedQueue w id = Ok (w', u) ->
  qsum w' = (e_next (ew_ent w), e_raisedq (ew_ent w) ++ [id], e_acceptedq (ew_ent w), e_wl (ew_ent w)).
Proof. intros [= <- _]. reflexivity. Qed.
Lemma fr_AddAccepted w id w' u : ent_AddPoToAcceptedQueue w id = Ok (w', u) ->
  qsum w' = (e_next (ew_ent w), e_raisedq (ew_ent w), e_acceptedq (ew_ent w) ++ [id], e_wl (ew_ent w)).
Proof. intros [= <- _]. reflexivity. Qed.

Lemma qsum_inv w n q a l : qsum w = (n, q, a, l) ->
  e_next (ew_ent w) = n /\ e_raisedq (ew_ent w) = q /\ e_acceptedq (ew_ent w) = a /\ e_wl (ew_ent w) = l.
Proof. unfold qsum. intros E. repeat split; congruence. Qed.

Lemma mem_addr_app a l b : mem_addr a (l ++ [b]) = mem_addr a l || (a =? b).
Proof. unfold mem_addr. rewrite existsb_app. cbn [existsb]. rewrite orb_false_r. reflexivity. Qed.

Ltac eprim L := first [ apply (L dom emb unemb Hemb) | apply (L dom emb unemb) ].

Lemma qsum_eq w w' : qsum w' = qsum w ->
  e_next (ew_ent w') = e_next (ew_ent w) /\ e_raisedq (ew_ent w') = e_raisedq (ew_ent w) /\
  e_acceptedq (ew_ent w') = e_acceptedq (ew_ent w) /\ e_wl (ew_ent w') = e_wl (ew_ent w).
Proof. unfold qsum. intros E. repeat split; congruence. Qed.

(* the state of the purchase-order loop *)
Definition po_inv (n : Z) (rest : list go_EnterpriseUndPurchaseOrder) (w : eworld) (ws : esworld) : Prop :=
  Rwi w ws /\ e_next (ew_ent w) = n /\
  Forall (fun po => u64 (po_id po) /\ pdom (EnterpriseUndPurchaseOrder_Purchaser po)) rest /\
  StronglySorted Z.lt (raised_ids rest) /\
  (forall y r, In y (e_raisedq (ew_ent w)) -> In r (raised_ids rest) -> y < r) /\
  (forall r, In r (raised_ids rest) -> r < n) /\
  StronglySorted Z.lt (accepted_ids rest) /\
  (forall y r, In y (e_acceptedq (ew_ent w)) -> In r (accepted_ids rest) -> y < r).

Lemma ids_cons po rest :
  raised_ids (po :: rest) = (if po_status po =? enterprise_StatusRaised then [po_id po] else []) ++ raised_ids rest /\
  accepted_ids (po :: rest) = (if po_status po =? enterprise_StatusAccepted then [po_id po] else []) ++ accepted_ids rest.
Proof.
  unfold raised_ids, accepted_ids. cbn [filter].
  destruct (po_status po =? enterprise_StatusRaised), (po_status po =? enterprise_StatusAccepted); split; reflexivity.
Qed.

Lemma po_loop_sim n l : forall w ws, po_inv n l w ws ->
  lrel (fun w ws => Rwi w ws) (fun (r : eworld * unit) (r' : esworld * unit) => Rwi (fst r) (fst r') /\ snd r = snd r') eq
    (go_range (fun po stt2_ =>
       let w := stt2_ in
       let epo := (mk_go_EnterpriseUndPurchaseOrder (EnterpriseUndPurchaseOrder_Id po) (EnterpriseUndPurchaseOrder_Purchaser po) (EnterpriseUndPurchaseOrder_Amount po) (EnterpriseUndPurchaseOrder_Status po) (EnterpriseUndPurchaseOrder_RaiseTime po) (EnterpriseUndPurchaseOrder_CompletionTime po) (EnterpriseUndPurchaseOrder_Decisions po)) in
       do (w, _) <- (panic_on_err enterprise_PANIC (ent_SetPurchaseOrder w epo));
       if ((EnterpriseUndPurchaseOrder_Status po) =? enterprise_StatusRaised) then (
         do (w, _) <- (ent_AddPoToRaisedQueue w (EnterpriseUndPurchaseOrder_Id po));
         if ((EnterpriseUndPurchaseOrder_Status po) =? enterprise_StatusAccepted) then (
           do (w, _) <- (ent_AddPoToAcceptedQueue w (EnterpriseUndPurchaseOrder_Id po));
           Ok (LCont w))
         else (Ok (LCont w)))
       else (
         if ((EnterpriseUndPurchaseOrder_Status po) =? enterprise_StatusAccepted) then (
           do (w, _) <- (ent_AddPoToAcceptedQueue w (EnterpriseUndPurchaseOrder_Id po));
           Ok (LCont w))
         else (Ok (LCont w)))) l w)
    (go_range (fun po stt3_ =>
       let w := stt3_ in
       let epo := (mk_go_EnterpriseUndPurchaseOrder (EnterpriseUndPurchaseOrder_Id po) (EnterpriseUndPurchaseOrder_Purchaser po) (EnterpriseUndPurchaseOrder_Amount po) (EnterpriseUndPurchaseOrder_Status po) (EnterpriseUndPurchaseOrder_RaiseTime po) (EnterpriseUndPurchaseOrder_CompletionTime po) (EnterpriseUndPurchaseOrder_Decisions po)) in
       do (w, _) <- (panic_on_err enterprise_PANIC (os_ent_SetPurchaseOrder w epo));
       if ((EnterpriseUndPurchaseOrder_Status po) =? enterprise_StatusRaised) then (
         do (w, _) <- (os_ent_AddPoToRaisedQueue w (EnterpriseUndPurchaseOrder_Id po));
         if ((EnterpriseUndPurchaseOrder_Status po) =? enterprise_StatusAccepted) then (
           do (w, _) <- (os_ent_AddPoToAcceptedQueue w (EnterpriseUndPurchaseOrder_Id po));
           Ok (LCont w))
         else (Ok (LCont w)))
       else (
         if ((EnterpriseUndPurchaseOrder_Status po) =? enterprise_StatusAccepted) then (
           do (w, _) <- (os_ent_AddPoToAcceptedQueue w (EnterpriseUndPurchaseOrder_Id po));
           Ok (LCont w))
         else (Ok (LCont w)))) l ws).
Proof.
  intros w ws HI.
  refine (range_rel (fun rest w ws => if rest then Rwi w ws else po_inv n rest w ws) _ eq _ _ _ l w ws _);
    [|destruct l; [apply HI | exact HI]].
  clear w ws HI. intros po rest w ws (Ha & En & Hf & Sr & Qr & Nr & Sa & Qa). cbv beta zeta.
  pose proof (Forall_inv Hf) as [Hu Hpd]. pose proof (Forall_inv_tail Hf) as Hf'. cbv beta in Hu, Hpd.
  destruct (ids_cons po rest) as [Er Ea]. rewrite Er in Sr, Qr, Nr. rewrite Ea in Sa, Qa. clear Er Ea.
  unfold po_status, po_id in *.
  assert (Fin : forall w' ws', po_inv n rest w' ws' -> (if rest then Rwi w' ws' else po_inv n rest w' ws'))
    by (intros w' ws' X; destruct rest; [apply X | exact X]).
  apply (lrel_bind_gen Rwi eq (fun w' => qsum w' = qsum w)).
  { apply gsim_panic_on_err with (E' := ecode). eprim prim_SetPurchaseOrder_E; [exact Eweak_ecode | exact Ha | exact Hu | exact Hpd]. }
  { intros w' [] E'. exact (fr_SetPO _ _ _ _ _ E'). }
  intros w4 ws4 [] H4 Q4. cbv beta iota. destruct (qsum_eq _ _ Q4) as (E4n & E4r & E4a & _).
  destruct (EnterpriseUndPurchaseOrder_Status po =? enterprise_StatusRaised) eqn:ER;
  destruct (EnterpriseUndPurchaseOrder_Status po =? enterprise_StatusAccepted) eqn:EA.
  - exfalso. apply Z.eqb_eq in ER. apply Z.eqb_eq in EA. unfold enterprise_StatusRaised, enterprise_StatusAccepted in *. lia.
  - (* raised *)
    cbn [app] in Sr, Qr, Nr, Sa, Qa. apply StronglySorted_inv in Sr as [Sr' Fr]. rewrite Forall_forall in Fr.
    apply (lrel_bind_gen Rwi eq (fun w' => qsum w' = (e_next (ew_ent w4), e_raisedq (ew_ent w4) ++ [EnterpriseUndPurchaseOrder_Id po], e_acceptedq (ew_ent w4), e_wl (ew_ent w4)))).
    { eprim prim_AddPoToRaisedQueue; [exact Erefl_eq | exact H4 | exact Hu | |].
      - intros y Hy. rewrite E4r in Hy. apply (Qr y); [exact Hy | left; reflexivity].
      - rewrite E4n, En. apply Nr. left; reflexivity. }
    { intros w' [] E'. exact (fr_AddRaised _ _ _ _ E'). }
    intros w5 ws5 [] H5 Q5. cbv beta iota. cbn [lrel]. apply Fin. destruct (qsum_inv _ _ _ _ _ Q5) as (E5n & E5r & E5a & _).
    split; [exact H5|]. split; [congruence|]. split; [exact Hf'|]. split; [exact Sr'|].
    split; [|split; [intros r Hr; apply Nr; right; exact Hr|split; [exact Sa|]]].
    + intros y r Hy Hr. rewrite E5r, E4r in Hy. apply in_app_iff in Hy. destruct Hy as [Hy|[<-|[]]].
      * apply (Qr y r Hy). right; exact Hr.
      * apply Fr, Hr.
    + intros y r Hy Hr. rewrite E5a, E4a in Hy. exact (Qa y r Hy Hr).
  - (* accepted *)
    cbn [app] in Sr, Qr, Nr, Sa, Qa. apply StronglySorted_inv in Sa as [Sa' Fa]. rewrite Forall_forall in Fa.
    apply (lrel_bind_gen Rwi eq (fun w' => qsum w' = (e_next (ew_ent w4), e_raisedq (ew_ent w4), e_acceptedq (ew_ent w4) ++ [EnterpriseUndPurchaseOrder_Id po], e_wl (ew_ent w4)))).
    { eprim prim_AddPoToAcceptedQueue; [exact Erefl_eq | exact H4 | exact Hu |].
      intros y Hy. rewrite E4a in Hy. apply (Qa y); [exact Hy | left; reflexivity]. }
    { intros w' [] E'. exact (fr_AddAccepted _ _ _ _ E'). }
    intros w5 ws5 [] H5 Q5. cbv beta iota. cbn [lrel]. apply Fin. destruct (qsum_inv _ _ _ _ _ Q5) as (E5n & E5r & E5a & _).
    split; [exact H5|]. split; [congruence|]. split; [exact Hf'|]. split; [exact Sr|].
    split; [|split; [exact Nr|split; [exact Sa'|]]].
    + intros y r Hy Hr. rewrite E5r, E4r in Hy. exact (Qr y r Hy Hr).
    + intros y r Hy Hr. rewrite E5a, E4a in Hy. apply in_app_iff in Hy. destruct Hy as [Hy|[<-|[]]].
      * apply (Qa y r Hy). right; exact Hr.
      * apply Fa, Hr.
  - (* neither *)
    cbn [app] in Sr, Qr, Nr, Sa, Qa. cbn [lrel]. apply Fin.
    split; [exact H4|]. split; [congruence|]. split; [exact Hf'|]. split; [exact Sr|].
    split; [|split; [exact Nr|split; [exact Sa|]]].
    + intros y r Hy Hr. rewrite E4r in Hy. exact (Qr y r Hy Hr).
    + intros y r Hy Hr. rewrite E4a in Hy. exact (Qa y r Hy Hr).
Qed.

(* the two simple loops: locked and spent entries *)
Lemma locked_loop_sim l : forall w ws, Rwi w ws -> Forall (fun x => dom (LockedUnd_Owner x)) l ->
  lrel (fun w ws => Rwi w ws) (fun (r : eworld * unit) (r' : esworld * unit) => Rwi (fst r) (fst r') /\ snd r = snd r') eq
    (go_range (fun lund stt3_ =>
       let w := stt3_ in
       let locked := (mk_go_LockedUnd (LockedUnd_Owner lund) (LockedUnd_Amount lund)) in
       do (w, _) <- (panic_on_err enterprise_PANIC (ent_SetLockedUndForAccount w locked));
       Ok (LCont w)) l w)
    (go_range (fun lund stt4_ =>
       let w := stt4_ in
       let locked := (mk_go_LockedUnd (LockedUnd_Owner lund) (LockedUnd_Amount lund)) in
       do (w, _) <- (panic_on_err enterprise_PANIC (os_ent_SetLockedUndForAccount w locked));
       Ok (LCont w)) l ws).
Proof.
  intros w ws HR HF.
  refine (range_rel (fun rest w ws => if rest then Rwi w ws else Rwi w ws /\ Forall (fun x => dom (LockedUnd_Owner x)) rest) _ eq _ _ _ l w ws _).
  - clear w ws HR HF. intros x rest w ws [Ha Hf]. cbv beta zeta.
    pose proof (Forall_inv Hf) as Hd. pose proof (Forall_inv_tail Hf) as Hf'. cbv beta in Hd.
    apply (lrel_bind Rwi eq).
    + apply gsim_panic_on_err with (E' := ecode). eprim prim_SetLockedUndForAccount_E; [exact Eweak_ecode | exact Ha | exact Hd].
    + intros w' ws' [] H'. cbv beta iota. cbn [lrel]. destruct rest; [exact H' | split; [exact H' | exact Hf']].
  - destruct l; [exact HR | split; [exact HR | exact HF]].
Qed.

Lemma spent_loop_sim l : forall w ws, Rwi w ws -> Forall (fun x => dom (SpentEFUND_Owner x)) l ->
  lrel (fun w ws => Rwi w ws) (fun (r : eworld * unit) (r' : esworld * unit) => Rwi (fst r) (fst r') /\ snd r = snd r') eq
    (go_range (fun spent stt4_ =>
       let w := stt4_ in
       do (w, _) <- (panic_on_err enterprise_PANIC (ent_SetSpentEFUNDForAccount w spent));
       Ok (LCont w)) l w)
    (go_range (fun spent stt5_ =>
       let w := stt5_ in
       do (w, _) <- (panic_on_err enterprise_PANIC (os_ent_SetSpentEFUNDForAccount w spent));
       Ok (LCont w)) l ws).
Proof.
  intros w ws HR HF.
  refine (range_rel (fun rest w ws => if rest then Rwi w ws else Rwi w ws /\ Forall (fun x => dom (SpentEFUND_Owner x)) rest) _ eq _ _ _ l w ws _).
  - clear w ws HR HF. intros x rest w ws [Ha Hf]. cbv beta zeta.
    pose proof (Forall_inv Hf) as Hd. pose proof (Forall_inv_tail Hf) as Hf'. cbv beta in Hd.
    apply (lrel_bind Rwi eq).
    + apply gsim_panic_on_err with (E' := eq). eprim prim_SetSpentEFUNDForAccount; [exact Erefl_eq | exact Ha | exact Hd].
    + intros w' ws' [] H'. cbv beta iota. cbn [lrel]. destruct rest; [exact H' | split; [exact H' | exact Hf']].
  - destruct l; [exact HR | split; [exact HR | exact HF]].
Qed.

(* the whitelist loop *)
Definition wl_inv (n : Z) (q0 a0 : list Z) (rest : list addr) (w : eworld) (ws : esworld) : Prop :=
  Rwi w ws /\ (exists l, qsum w = (n, q0, a0, l)) /\ Forall pdom rest /\ NoDup rest /\
  (forall a, In a rest -> mem_addr a (e_wl (ew_ent w)) = false).

Lemma wl_loop_sim n q0 a0 l : forall w ws, wl_inv n q0 a0 l w ws ->
  lrel (fun w ws => Rwi w ws /\ exists l', qsum w = (n, q0, a0, l'))
       (fun (r : eworld * unit) (r' : esworld * unit) => Rwi (fst r) (fst r') /\ snd r = snd r') eq
    (go_range (fun wlAddr stt1_ =>
       let w := stt1_ in
       do addr <- (panic_on_err enterprise_PANIC (ent_AccAddressFromBech32 wlAddr));
       do (w, _) <- (panic_on_err enterprise_PANIC (ent_AddAddressToWhitelist w addr));
       Ok (LCont w)) l w)
    (go_range (fun wlAddr stt2_ =>
       let w := stt2_ in
       do addr <- (panic_on_err enterprise_PANIC (ent_AccAddressFromBech32 wlAddr));
       do (w, _) <- (panic_on_err enterprise_PANIC (os_ent_AddAddressToWhitelist w addr));
       Ok (LCont w)) l ws).
Proof.
  intros w ws HI.
  refine (range_rel (fun rest w ws => if rest then Rwi w ws /\ (exists l', qsum w = (n, q0, a0, l')) else wl_inv n q0 a0 rest w ws) _ eq _ _ _ l w ws _);
    [|destruct l; [split; apply HI | exact HI]].
  clear w ws HI. intros x rest w ws (Ha & (l' & Ql) & Hp & Hn & Hm). cbv beta zeta.
  pose proof (Forall_inv Hp) as Hx. pose proof (Forall_inv_tail Hp) as Hp'. cbv beta in Hx.
  apply NoDup_cons_iff in Hn as [Hnx Hn'].
  apply lrel_bind_pure; [exact Erefl_eq|]. intros addr Eaddr.
  assert (Dx : dom addr) by (eapply parse_dom_panic; [exact Hx | exact Eaddr]).
  assert (Ex : addr = x).
  { unfold ent_AccAddressFromBech32 in Eaddr. destruct (addr_parses x); cbn [panic_on_err] in Eaddr; [|discriminate Eaddr].
    injection Eaddr as <-. reflexivity. }
  subst addr.
  apply (lrel_bind_gen Rwi eq (fun w' => qsum w' = (n, q0, a0, l' ++ [x]))).
  { apply gsim_panic_on_err with (E' := eq). eprim prim_AddAddressToWhitelist; [exact Erefl_eq | exact Ha | exact Dx|].
    unfold ent_AddressIsWhitelisted. apply Hm. left; reflexivity. }
  { intros w' [] E'. rewrite (fr_AddWL _ _ _ _ _ E'). destruct (qsum_inv _ _ _ _ _ Ql) as (-> & -> & -> & ->). reflexivity. }
  intros w' ws' [] H' Q'. cbv beta iota. cbn [lrel].
  assert (X : wl_inv n q0 a0 rest w' ws').
  { split; [exact H'|]. split; [eexists; exact Q'|]. split; [exact Hp'|]. split; [exact Hn'|].
    intros a Hin. destruct (qsum_inv _ _ _ _ _ Q') as (_ & _ & _ & ->). destruct (qsum_inv _ _ _ _ _ Ql) as (_ & _ & _ & El).
    rewrite mem_addr_app. rewrite <- El, (Hm a (or_intror Hin)). cbn [orb].
    apply Z.eqb_neq. intros ->. exact (Hnx Hin). }
  destruct rest; [split; apply X | exact X].
Qed.

Lemma gsim_eq_ext {R} (a a' : outcome (eworld * R)) (c c' : outcome (esworld * R)) :
  a = a' -> c = c' -> gsim Rwi eq a c -> gsim Rwi eq a' c'.
Proof. intros -> ->. auto. Qed.

Theorem os_InitGenesis_sim w ws d : Rwi w ws -> doc_side (ew_ent w) d -> sim (K.go_InitGenesis w d) (S.go_InitGenesis ws d).
Proof.
  intros HR (Hpr & Hdn & Hn & Hqn & Hwp & Hwn & Hwm & Hpo & Hrs & Hrq & Hrn & Has & Haq & Hlk & Hsp).
  unfold GeneratedEnterpriseOnStoreEq.sim, K.go_InitGenesis, S.go_InitGenesis, ent_GetEnterpriseAccount, os_ent_GetEnterpriseAccount.
  rewrite obind_Ok. cbv beta zeta. cbn [modacc_is_nil].
  set (n := GenesisState_StartingPurchaseOrderId d) in *.
  set (q0 := e_raisedq (ew_ent w)) in *. set (a0 := e_acceptedq (ew_ent w)) in *. set (l0 := e_wl (ew_ent w)) in *.
  (* SetParams, its error dropped *)
  apply (gsim_bind_gen Rwi Rwi eq (fun w1 => qsum w1 = qsum w)).
  { apply (gsim_ignore_err eq); [exact HR|]. eprim prim_SetParams; [exact Erefl_eq | exact HR | exact Hpr | exact Hdn]. }
  { intros w1 [] E1. exact (fr_SetParams _ _ _ _ E1). }
  intros w1 ws1 [] H1 Q1. cbv beta iota.
  (* SetHighestPurchaseOrderID *)
  apply (gsim_bind_gen Rwi Rwi eq (fun w2 => qsum w2 = (n, q0, a0, l0))).
  { eprim prim_SetHighestPurchaseOrderID; [exact Erefl_eq | exact H1 | exact Hn|].
    destruct (qsum_inv _ _ _ _ _ Q1) as (_ & -> & _). exact Hqn. }
  { intros w2 [] E2. rewrite (fr_SetHighest _ _ _ _ E2). destruct (qsum_inv _ _ _ _ _ Q1) as (_ & -> & -> & ->). reflexivity. }
  intros w2 ws2 [] H2 Q2. cbv beta iota.
  (* the branch on a nil whitelist: ranging over [] does nothing, so both branches are the loop followed by the rest *)
  match goal with
  | |- gsim _ _ (if _ then ?A else _) (if _ then ?C else _) => assert (main : gsim Rwi eq A C)
  end.
  2:{ destruct (go_is_nil (GenesisState_Whitelist d)) eqn:EN; cbn [negb]; [|exact main].
      destruct (GenesisState_Whitelist d); [|discriminate EN]. exact main. }
  apply (gsim_after_loop Rwi eq (fun w ws => Rwi w ws /\ exists l', qsum w = (n, q0, a0, l'))).
  { apply (wl_loop_sim n q0 a0). split; [exact H2|]. split; [eexists; exact Q2|]. split; [exact Hwp|]. split; [exact Hwn|].
    intros a Ha. destruct (qsum_inv _ _ _ _ _ Q2) as (_ & _ & _ & ->). exact (Hwm a Ha). }
  intros w3 ws3 (H3 & l3 & Q3). cbv beta iota.
  (* the two totals *)
  apply (gsim_bind_gen Rwi Rwi eq (fun w' => qsum w' = qsum w3)).
  { apply gsim_panic_on_err with (E' := eq). eprim prim_SetTotalLockedUnd; [exact Erefl_eq | exact H3]. }
  { intros w' [] E'. exact (fr_TotLocked _ _ _ _ _ E'). }
  intros w4 ws4 [] H4 Q4. cbv beta iota.
  apply (gsim_bind_gen Rwi Rwi eq (fun w' => qsum w' = qsum w4)).
  { apply gsim_panic_on_err with (E' := eq). eprim prim_SetTotalSpentEFUND; [exact Erefl_eq | exact H4]. }
  { intros w' [] E'. exact (fr_TotSpent _ _ _ _ _ E'). }
  intros w5 ws5 [] H5 Q5. cbv beta iota.
  assert (Q5' : qsum w5 = (n, q0, a0, l3)) by congruence.
  destruct (qsum_inv _ _ _ _ _ Q5') as (E5n & E5r & E5a & _).
  (* purchase orders *)
  apply (gsim_after_loop Rwi eq (fun w ws => Rwi w ws)).
  { apply (po_loop_sim n). split; [exact H5|]. split; [exact E5n|]. split; [exact Hpo|]. split; [exact Hrs|].
    split; [rewrite E5r; exact Hrq|]. split; [exact Hrn|]. split; [exact Has|]. rewrite E5a. exact Haq. }
  intros w6 ws6 H6. cbv beta iota.
  apply (gsim_after_loop Rwi eq (fun w ws => Rwi w ws)); [apply locked_loop_sim; [exact H6 | exact Hlk]|].
  intros w7 ws7 H7. cbv beta iota.
  apply (gsim_after_loop Rwi eq (fun w ws => Rwi w ws)); [apply spent_loop_sim; [exact H7 | exact Hsp]|].
  intros w8 ws8 H8. cbv beta iota.
  (* the module account against the recorded total *)
  apply gsim_bind_pure; [exact Erefl_eq|]. intros hold _.
  unfold os_bank_GetAllBalances, bank_GetAllBalances, acc_SetModuleAccount, os_acc_SetModuleAccount.
  rewrite (prim_SpendableCoins dom emb unemb w8 ws8 _ (Rwi_Rw _ _ _ _ _ H8)). cbn [obind]. cbv beta iota zeta.
  match goal with |- context [Coins_IsZero ?b] => destruct (Coins_IsZero b) end; cbn [obind];
    match goal with |- context [Coins_IsEqual ?a ?b] => destruct (Coins_IsEqual a b) as [[|]|err|p] end;
    cbn [obind negb gsim]; first [ reflexivity | (split; [exact H8 | reflexivity]) ].
Qed.

(* read off: Ok with Ok and related worlds (both directions), Panic with Panic and the same code, Err never with
   anything but the same Err *)
Corollary os_InitGenesis_outcomes w ws d : Rwi w ws -> doc_side (ew_ent w) d ->
  (forall ws', S.go_InitGenesis ws d = Ok (ws', tt) -> exists w', K.go_InitGenesis w d = Ok (w', tt) /\ Rwi w' ws') /\
  (forall w', K.go_InitGenesis w d = Ok (w', tt) -> exists ws', S.go_InitGenesis ws d = Ok (ws', tt) /\ Rwi w' ws') /\
  (forall c, K.go_InitGenesis w d = Panic c <-> S.go_InitGenesis ws d = Panic c) /\
  (forall e, K.go_InitGenesis w d = Err e <-> S.go_InitGenesis ws d = Err e).
Proof.
  intros H HD. pose proof (os_InitGenesis_sim w ws d H HD) as Hs. unfold GeneratedEnterpriseOnStoreEq.sim in Hs.
  split; [intros ws' E; exact (gsim_Ok_inv Rwi eq _ _ ws' tt Hs E)|].
  split; [intros w' E; exact (gsim_Ok_inv_l Rwi eq _ _ w' tt Hs E)|].
  split; [intros c; exact (gsim_Panic_inv Rwi eq _ _ c Hs) | intros e; exact (gsim_Err_inv Rwi _ _ e Hs)].
Qed.

End Genesis.

(* ================================================================== *)
(* a concrete import / export on 20-byte addresses                      *)
(* ================================================================== *)

(* the worlds of proofs/GeneratedEnterpriseOnStoreEq.v part 6 (Params cell + counter cell, nothing else), over a bank in
   which the module account holds 50 nund *)
Definition exg_bank : bank := {| bal := [((ENT_MACC, NUND), 50); ((7, NUND), 100)]; supply := [(NUND, 150)] |}.
Definition exg_kw0 : eworld := mk_eworld 0 exg_bank (ew_ent os_ex_kw0).
Definition exg_sw0 : esworld := mk_esworld os_ex_emb os_ex_unemb 0 exg_bank os_ex_store0.

Lemma exg_Rwi0 : Rwi os_ex_dom os_ex_emb os_ex_unemb exg_kw0 exg_sw0.
Proof.
  split.
  - split; [reflexivity|]. split; [reflexivity|]. split; [reflexivity|]. split; [reflexivity|].
    exact (Rent_init os_ex_dom os_ex_emb os_ex_params 1 ltac:(lia)).
  - split; [intros id []|intros id o []].
Qed.

Definition exg_po (id purchaser status : Z) : go_EnterpriseUndPurchaseOrder :=
  mk_go_EnterpriseUndPurchaseOrder id purchaser (NUND, 10 * id) status 1700000000 0 [].
(* orders 2 (accepted), 3 (raised), 4 (completed); whitelist and books listed AGAINST the byte order of the addresses *)
Definition exg_doc : go_GenesisState :=
  mk_go_GenesisState os_ex_params 5 [exg_po 2 9 2; exg_po 3 7 1; exg_po 4 7 4]
    [mk_go_LockedUnd 9 (NUND, 40); mk_go_LockedUnd 7 (NUND, 10)] (NUND, 50) [9; 7]
    [mk_go_SpentEFUND 9 (NUND, 3)] (NUND, 3).

Lemma exg_doc_side : doc_side os_ex_dom (ew_ent exg_kw0) exg_doc.
Proof.
  unfold doc_side, exg_doc. cbn [GenesisState_Params GenesisState_StartingPurchaseOrderId GenesisState_Whitelist
    GenesisState_PurchaseOrders GenesisState_LockedUnd GenesisState_SpentEfund].
  split; [vm_compute; repeat split; intros X; discriminate X|].
  split; [left; vm_compute; intros X; discriminate X|].
  split; [lia|].
  split; [intros y []|].
  split; [repeat (apply Forall_cons; [intros _; unfold os_ex_dom; lia|]); apply Forall_nil|].
  split; [repeat constructor; cbn; intros X; repeat (destruct X as [X|X]; [discriminate X|]); exact X|].
  split; [intros a _; reflexivity|].
  split; [repeat constructor; cbn; try (lia); intros _; unfold os_ex_dom; lia|].
  split; [vm_compute; repeat constructor|].
  split; [intros y r []|].
  split; [intros r Hr; vm_compute in Hr; destruct Hr as [<-|[]]; lia|].
  split; [vm_compute; repeat constructor|].
  split; [intros y r []|].
  split; repeat (apply Forall_cons; [cbn; unfold os_ex_dom; lia|]); apply Forall_nil.
Qed.

Definition exg_sw1 : esworld := match S.go_InitGenesis exg_sw0 exg_doc with Ok (ws, _) => ws | _ => exg_sw0 end.
Definition exg_kw1 : eworld := match K.go_InitGenesis exg_kw0 exg_doc with Ok (w, _) => w | _ => exg_kw0 end.
(* what the store lists: ascending ids, ascending address bytes *)
Definition exg_doc1 : go_GenesisState :=
  mk_go_GenesisState os_ex_params 5 [exg_po 2 9 2; exg_po 3 7 1; exg_po 4 7 4]
    [mk_go_LockedUnd 7 (NUND, 10); mk_go_LockedUnd 9 (NUND, 40)] (NUND, 50) [7; 9]
    [mk_go_SpentEFUND 9 (NUND, 3)] (NUND, 3).

Example os_ent_genesis_ex :
  S.go_InitGenesis exg_sw0 exg_doc = Ok (exg_sw1, tt) /\ K.go_InitGenesis exg_kw0 exg_doc = Ok (exg_kw1, tt) /\
  (* 2 cells, 3 orders, 1 raised + 1 accepted queue entry, 2 whitelist, 2 locked, 1 spent entries, 2 totals *)
  List.length (esw_store exg_sw1) = 14%nat /\
  S.go_ExportGenesis exg_sw1 = Ok exg_doc1 /\ K.go_ExportGenesis exg_kw1 = Ok exg_doc /\ exg_doc <> exg_doc1 /\
  (* a module balance that does not match: the same panic *)
  S.go_InitGenesis (mk_esworld os_ex_emb os_ex_unemb 0 os_ex_bank os_ex_store0) exg_doc = Panic enterprise_PANIC /\
  K.go_InitGenesis os_ex_kw0 exg_doc = Panic enterprise_PANIC.
Proof.
  split; [vm_compute; reflexivity|]. split; [vm_compute; reflexivity|]. split; [vm_compute; reflexivity|].
  split; [vm_compute; reflexivity|]. split; [vm_compute; reflexivity|].
  split; [intros X; vm_compute in X; discriminate X|]. split; vm_compute; reflexivity.
Qed.

(* through the theorems: the imported worlds are related, the abstract state is not in key order, the exports differ
   by permutations of the locked list and of the whitelist *)
Example os_ent_genesis_ex_by_theorem :
  Rwi os_ex_dom os_ex_emb os_ex_unemb exg_kw1 exg_sw1 /\
  ~ ent_key_ordered os_ex_emb (ew_ent exg_kw1) /\
  S.go_ExportGenesis exg_sw1 <> K.go_ExportGenesis exg_kw1.
Proof.
  destruct os_ent_genesis_ex as (E1 & E2 & _ & E3 & E4 & Hne & _).
  destruct (os_InitGenesis_outcomes os_ex_dom os_ex_emb os_ex_unemb os_ex_hyps exg_kw0 exg_sw0 exg_doc exg_Rwi0 exg_doc_side)
    as (Hok & _).
  destruct (Hok _ E1) as (w' & E' & H'). rewrite E2 in E'.
  assert (Ew : w' = exg_kw1)
    by (apply (f_equal (fun o : outcome (eworld * unit) => match o with Ok (x, _) => x | _ => exg_kw0 end)) in E'; symmetry; exact E').
  subst w'.
  split; [exact H'|].
  assert (Hd : S.go_ExportGenesis exg_sw1 <> K.go_ExportGenesis exg_kw1) by (rewrite E3, E4; intros X; apply Hne; congruence).
  split; [|exact Hd]. intros HO. apply Hd.
  exact (os_ExportGenesis_eq os_ex_dom os_ex_emb os_ex_unemb os_ex_hyps exg_kw1 exg_sw1 (Rwi_Rw _ _ _ _ _ H') HO).
Qed.

(* the ordering hypothesis of [os_ExportGenesis_eq] cannot be dropped *)
Example os_ent_ExportGenesis_order_refuted :
  exists w ws, GeneratedEnterpriseOnStoreEq.Rw os_ex_dom os_ex_emb os_ex_unemb w ws /\ S.go_ExportGenesis ws <> K.go_ExportGenesis w.
Proof.
  destruct os_ent_genesis_ex_by_theorem as (H & _ & Hd). exists exg_kw1, exg_sw1. split; [exact (Rwi_Rw _ _ _ _ _ H) | exact Hd].
Qed.

(* the whitelist condition of [doc_side]: an address listed twice is appended twice by the primitive and written once
   by the store - the two ExportGenesis after the import list different documents *)
Example os_ent_doc_side_whitelist_refuted :
  let d := mk_go_GenesisState os_ex_params 1 [] [] (NUND, 50) [7; 7] [] (NUND, 0) in
  match K.go_InitGenesis exg_kw0 d, S.go_InitGenesis exg_sw0 d with
  | Ok (w', _), Ok (ws', _) =>
      (exists dk ds, K.go_ExportGenesis w' = Ok dk /\ S.go_ExportGenesis ws' = Ok ds /\
                     GenesisState_Whitelist dk = [7; 7] /\ GenesisState_Whitelist ds = [7])
  | _, _ => False
  end.
Proof. vm_compute. do 2 eexists. split; [reflexivity|]. split; [reflexivity|]. split; reflexivity. Qed.

(* ---- the vocabulary, spelled out (for props/C15onstoreenterprise.v) ---- *)
Lemma ent_key_ordered_spelled (emb : addr -> list N) st :
  ent_key_ordered emb st <->
  (StronglySorted Z.lt (map fst (e_pos st)) /\
   StronglySorted (fun a b => lex_lt (emb a) (emb b) = true) (e_wl st) /\
   StronglySorted (fun a b => lex_lt (emb a) (emb b) = true) (map fst (e_locked st)) /\
   StronglySorted (fun a b => lex_lt (emb a) (emb b) = true) (map fst (e_spent st))).
Proof. reflexivity. Qed.

Lemma doc_side_spelled (dom : addr -> Prop) st d :
  doc_side dom st d <->
  (ent_params_range (GenesisState_Params d) /\ denom_ok (GenesisState_Params d) /\
   0 <= GenesisState_StartingPurchaseOrderId d < 2 ^ 64 /\
   (forall y, In y (e_raisedq st) -> y < GenesisState_StartingPurchaseOrderId d) /\
   Forall (fun a => addr_parses a = true -> dom a) (GenesisState_Whitelist d) /\ NoDup (GenesisState_Whitelist d) /\
   (forall a, In a (GenesisState_Whitelist d) -> mem_addr a (e_wl st) = false) /\
   Forall (fun po => 0 <= EnterpriseUndPurchaseOrder_Id po < 2 ^ 64 /\
                     (addr_parses (EnterpriseUndPurchaseOrder_Purchaser po) = true -> dom (EnterpriseUndPurchaseOrder_Purchaser po)))
          (GenesisState_PurchaseOrders d) /\
   StronglySorted Z.lt (raised_ids (GenesisState_PurchaseOrders d)) /\
   (forall y r, In y (e_raisedq st) -> In r (raised_ids (GenesisState_PurchaseOrders d)) -> y < r) /\
   (forall r, In r (raised_ids (GenesisState_PurchaseOrders d)) -> r < GenesisState_StartingPurchaseOrderId d) /\
   StronglySorted Z.lt (accepted_ids (GenesisState_PurchaseOrders d)) /\
   (forall y r, In y (e_acceptedq st) -> In r (accepted_ids (GenesisState_PurchaseOrders d)) -> y < r) /\
   Forall (fun l => dom (LockedUnd_Owner l)) (GenesisState_LockedUnd d) /\
   Forall (fun l => dom (SpentEFUND_Owner l)) (GenesisState_SpentEfund d)).
Proof. reflexivity. Qed.

Lemma queued_ids_spelled l :
  raised_ids l = map EnterpriseUndPurchaseOrder_Id (filter (fun po => EnterpriseUndPurchaseOrder_Status po =? 1) l) /\
  accepted_ids l = map EnterpriseUndPurchaseOrder_Id (filter (fun po => EnterpriseUndPurchaseOrder_Status po =? 2) l).
Proof. split; reflexivity. Qed.

Print Assumptions os_ExportGenesis_run.
Print Assumptions os_ExportGenesis_eq.
Print Assumptions os_ExportGenesis_perm.
Print Assumptions os_InitGenesis_sim.
Print Assumptions os_InitGenesis_outcomes.
Print Assumptions os_ent_genesis_ex.
Print Assumptions os_ent_genesis_ex_by_theorem.
Print Assumptions os_ent_ExportGenesis_order_refuted.
Print Assumptions os_ent_doc_side_whitelist_refuted.
