(* Facts about the bank sub-model (model/Bank.v): balances after a send, conservation of the
   per-denomination total and of the supply.  No well-formedness of the balance table is
   needed for conservation (aset replaces the entry aget reads); [bank_wf] is provided and
   shown preserved anyway. *)
From MC Require Import lib.Prelude lib.AMap model.Bank.
From Coq Require Import ZifyBool.
Ltac Zify.zify_post_hook ::= Z.div_mod_to_equations.

Local Open Scope Z_scope.

(* ---------- reading a table after one write ---------- *)

Lemma keqb_addr_denom (a a' : addr) (d d' : denom) :
  keqb (a, d) (a', d') = (a =? a') && (d =? d').
Proof. reflexivity. Qed.

Lemma pair_neq_dec (a a' : addr) (d d' : denom) :
  (a =? a') && (d =? d') = false -> (a, d) <> (a', d').
Proof. intros E [= -> ->]. rewrite !Z.eqb_refl in E. discriminate. Qed.

Lemma balance_set_balance b a d v a' d' :
  balance (set_balance b a d v) a' d' = if (a' =? a) && (d' =? d) then v else balance b a' d'.
Proof.
  unfold balance, set_balance; cbn [bal].
  destruct ((a' =? a) && (d' =? d)) eqn:E.
  - assert (a' = a /\ d' = d) as [-> ->] by lia. rewrite aget_aset_eq. reflexivity.
  - rewrite aget_aset_neq; [reflexivity|]. intros X. symmetry in X. revert X. apply pair_neq_dec. exact E.
Qed.

Lemma supply_set_balance b a d v : supply (set_balance b a d v) = supply b.
Proof. reflexivity. Qed.

Lemma total_balance_aset (m : amap (addr * denom) Z) a d v d' :
  sumZ (map (fun kv : (addr * denom) * Z => if snd (fst kv) =? d' then snd kv else 0) (aset (a, d) v m))
  = sumZ (map (fun kv : (addr * denom) * Z => if snd (fst kv) =? d' then snd kv else 0) m)
    + (if d =? d' then v - match aget (a, d) m with Some o => o | None => 0 end else 0).
Proof.
  induction m as [|[[a2 d2] v2] r IH].
  - cbn. destruct (d =? d'); lia.
  - cbn [aset aget]. rewrite keqb_addr_denom.
    destruct ((a =? a2) && (d =? d2)) eqn:E.
    + assert (a = a2 /\ d = d2) as [-> ->] by lia. cbn. destruct (d2 =? d'); lia.
    + cbn [map sumZ fst snd]. rewrite IH. lia.
Qed.

Lemma total_balance_set_balance b a d v d' :
  total_balance (set_balance b a d v) d' =
  total_balance b d' + (if d =? d' then v - balance b a d else 0).
Proof. unfold total_balance, set_balance, balance; cbn [bal]. apply total_balance_aset. Qed.

(* ---------- a transfer, as a relation on banks ---------- *)

Definition moved (b b' : bank) (from to : addr) (d : denom) (amt : Z) : Prop :=
  (forall a d', balance b' a d' =
     balance b a d' - (if (a =? from) && (d' =? d) then amt else 0)
                    + (if (a =? to) && (d' =? d) then amt else 0)) /\
  (forall d', supply_of b' d' = supply_of b d') /\
  (forall d', total_balance b' d' = total_balance b d').

Lemma moved_zero b from to d : moved b b from to d 0.
Proof.
  split; [|split]; auto. intros a d'. destruct (_ && _); destruct (_ && _); lia.
Qed.

Lemma bank_send_inv b from to d amt b' :
  bank_send b from to d amt = Ok b' ->
  0 <= amt /\ amt <= balance b from d /\ moved b b' from to d amt.
Proof.
  unfold bank_send. destruct (amt <? 0) eqn:E1; [discriminate|].
  destruct (balance b from d <? amt) eqn:E2; [discriminate|].
  intros [= <-]. split; [lia|]. split; [lia|]. split; [|split].
  - intros a d'. rewrite !balance_set_balance. rewrite (Z.eqb_refl d), andb_true_r.
    destruct (Z.eqb_spec d' d) as [->|Nd]; rewrite ?andb_true_r, ?andb_false_r; [|lia].
    destruct (Z.eqb_spec a from) as [Ea|Na]; destruct (Z.eqb_spec a to) as [Eb|Nb];
      destruct (Z.eqb_spec to from) as [Ec|Nc]; subst; try congruence; lia.
  - intros d'. reflexivity.
  - intros d'. rewrite !total_balance_set_balance, !balance_set_balance.
    rewrite (Z.eqb_refl d), andb_true_r.
    destruct (d =? d') eqn:Ed; [|lia].
    destruct (Z.eqb_spec to from) as [->|N]; lia.
Qed.

Lemma bank_send_ok b from to d amt :
  0 <= amt -> amt <= balance b from d -> exists b', bank_send b from to d amt = Ok b'.
Proof.
  intros H1 H2. unfold bank_send. destruct (amt <? 0) eqn:E1; [lia|].
  destruct (balance b from d <? amt) eqn:E2; [lia|]. eauto.
Qed.

Lemma bank_send_no_panic b from to d amt c :
  0 <= amt -> bank_send b from to d amt <> Panic c.
Proof.
  intros H. unfold bank_send. destruct (amt <? 0) eqn:E1; [lia|].
  destruct (_ <? amt); discriminate.
Qed.

Lemma bank_send_m2a_inv b macc to d amt b' :
  bank_send_m2a b macc to d amt = Ok b' ->
  blocked to = false /\ 0 <= amt /\ amt <= balance b macc d /\ moved b b' macc to d amt.
Proof.
  unfold bank_send_m2a. destruct (blocked to); [discriminate|].
  intros H. split; [reflexivity|]. apply bank_send_inv; exact H.
Qed.

Lemma bank_send_m2a_ok b macc to d amt :
  blocked to = false -> 0 <= amt -> amt <= balance b macc d ->
  exists b', bank_send_m2a b macc to d amt = Ok b'.
Proof. intros Hb. unfold bank_send_m2a. rewrite Hb. apply bank_send_ok. Qed.

Lemma bank_send_m2a_no_panic b macc to d amt c :
  0 <= amt -> bank_send_m2a b macc to d amt <> Panic c.
Proof.
  intros H. unfold bank_send_m2a. destruct (blocked to); [discriminate|].
  apply bank_send_no_panic; exact H.
Qed.

(* headline: a successful send neither creates nor destroys coins *)
Lemma bank_send_conserves b from to d amt b' d' :
  bank_send b from to d amt = Ok b' ->
  total_balance b' d' = total_balance b d' /\ supply_of b' d' = supply_of b d'.
Proof. intros H. apply bank_send_inv in H as (_ & _ & _ & Hs & Ht). auto. Qed.

Lemma bank_send_m2a_conserves b macc to d amt b' d' :
  bank_send_m2a b macc to d amt = Ok b' ->
  total_balance b' d' = total_balance b d' /\ supply_of b' d' = supply_of b d'.
Proof. intros H. apply bank_send_m2a_inv in H as (_ & _ & _ & _ & Hs & Ht). auto. Qed.

(* mint / burn change total and supply by the same amount *)
Lemma supply_of_set_supply b d v d' :
  supply_of (set_supply b d v) d' = if d' =? d then v else supply_of b d'.
Proof.
  unfold supply_of, set_supply; cbn [supply].
  destruct (d' =? d) eqn:E.
  - assert (d' = d) as -> by lia. rewrite aget_aset_eq. reflexivity.
  - rewrite aget_aset_neq; [reflexivity|lia].
Qed.

Lemma bank_mint_effect b macc d amt b' d' :
  bank_mint b macc d amt = Ok b' ->
  total_balance b' d' = total_balance b d' + (if d =? d' then amt else 0) /\
  supply_of b' d' = supply_of b d' + (if d =? d' then amt else 0).
Proof.
  unfold bank_mint. destruct (amt <? 0); [discriminate|]. intros [= <-].
  split.
  - change (total_balance (set_supply ?x _ _) d') with (total_balance x d').
    rewrite total_balance_set_balance. destruct (d =? d'); lia.
  - rewrite supply_of_set_supply.
    change (supply_of (set_balance b macc d ?v) ?e) with (supply_of b e).
    destruct (d' =? d) eqn:E; destruct (d =? d') eqn:E'; try lia.
    assert (d' = d) as -> by lia. lia.
Qed.

Lemma bank_burn_effect b macc d amt b' d' :
  bank_burn b macc d amt = Ok b' ->
  total_balance b' d' = total_balance b d' - (if d =? d' then amt else 0) /\
  supply_of b' d' = supply_of b d' - (if d =? d' then amt else 0).
Proof.
  unfold bank_burn. destruct (amt <? 0); [discriminate|].
  destruct (_ <? amt); [discriminate|]. intros [= <-].
  split.
  - change (total_balance (set_supply ?x _ _) d') with (total_balance x d').
    rewrite total_balance_set_balance. destruct (d =? d'); lia.
  - rewrite supply_of_set_supply.
    change (supply_of (set_balance b macc d ?v) ?e) with (supply_of b e).
    destruct (d' =? d) eqn:E; destruct (d =? d') eqn:E'; try lia.
    assert (d' = d) as -> by lia. lia.
Qed.

(* ---------- optional well-formedness: one entry per (account, denom) ---------- *)

Definition bank_wf (b : bank) : Prop := NoDup (akeys (bal b)).

Lemma bank_wf_set_balance b a d v : bank_wf b -> bank_wf (set_balance b a d v).
Proof. unfold bank_wf, set_balance; cbn [bal]. apply NoDup_akeys_aset. Qed.

Lemma bank_wf_set_supply b d v : bank_wf b -> bank_wf (set_supply b d v).
Proof. unfold bank_wf, set_supply; cbn [bal]. auto. Qed.

Lemma bank_send_wf b from to d amt b' : bank_send b from to d amt = Ok b' -> bank_wf b -> bank_wf b'.
Proof.
  unfold bank_send. destruct (amt <? 0); [discriminate|]. destruct (_ <? amt); [discriminate|].
  intros [= <-] H. apply bank_wf_set_balance, bank_wf_set_balance, H.
Qed.

Lemma bank_send_m2a_wf b macc to d amt b' :
  bank_send_m2a b macc to d amt = Ok b' -> bank_wf b -> bank_wf b'.
Proof. unfold bank_send_m2a. destruct (blocked to); [discriminate|]. apply bank_send_wf. Qed.

Lemma bank_mint_wf b macc d amt b' : bank_mint b macc d amt = Ok b' -> bank_wf b -> bank_wf b'.
Proof.
  unfold bank_mint. destruct (amt <? 0); [discriminate|].
  intros [= <-] H. apply bank_wf_set_supply, bank_wf_set_balance, H.
Qed.

Lemma bank_burn_wf b macc d amt b' : bank_burn b macc d amt = Ok b' -> bank_wf b -> bank_wf b'.
Proof.
  unfold bank_burn. destruct (amt <? 0); [discriminate|]. destruct (_ <? amt); [discriminate|].
  intros [= <-] H. apply bank_wf_set_supply, bank_wf_set_balance, H.
Qed.

(* ---------- reading balances through [moved] ---------- *)

Lemma moved_other b b' from to d amt a d' :
  moved b b' from to d amt -> a <> from -> a <> to -> balance b' a d' = balance b a d'.
Proof.
  intros (H & _) N1 N2. rewrite H.
  destruct (Z.eqb_spec a from); [contradiction|]. destruct (Z.eqb_spec a to); [contradiction|].
  cbn [andb]. lia.
Qed.

Lemma moved_other_denom b b' from to d amt a d' :
  moved b b' from to d amt -> d' <> d -> balance b' a d' = balance b a d'.
Proof.
  intros (H & _) N. rewrite H. destruct (Z.eqb_spec d' d); [contradiction|].
  rewrite !andb_false_r. lia.
Qed.

Lemma moved_sender b b' from to d amt d' :
  moved b b' from to d amt -> from <> to ->
  balance b' from d' = balance b from d' - (if d' =? d then amt else 0).
Proof.
  intros (H & _) N. rewrite H. rewrite Z.eqb_refl.
  destruct (Z.eqb_spec from to); [contradiction|]. cbn [andb]. lia.
Qed.

Lemma moved_recipient b b' from to d amt d' :
  moved b b' from to d amt -> from <> to ->
  balance b' to d' = balance b to d' + (if d' =? d then amt else 0).
Proof.
  intros (H & _) N. rewrite H. rewrite Z.eqb_refl.
  destruct (Z.eqb_spec to from); [congruence|]. cbn [andb]. lia.
Qed.

Lemma moved_total b b' from to d amt d' :
  moved b b' from to d amt -> total_balance b' d' = total_balance b d'.
Proof. intros (_ & _ & H). apply H. Qed.

Lemma moved_supply b b' from to d amt d' :
  moved b b' from to d amt -> supply_of b' d' = supply_of b d'.
Proof. intros (_ & H & _). apply H. Qed.
