(* C15 on BYTES, x/beacon: InitGenesis / ExportGenesis of /repo/x/beacon/genesis.go rendered over the BYTE-LEVEL store
   (GeneratedBeaconKeeperOnStore.v: S.go_InitGenesis, S.go_ExportGenesis, through the generated store accessors of
   GeneratedBeaconStore.v and the adapters os_reg_* of model/BeaconStoreWorld.v) against the rendering over the
   hand-written primitives (GeneratedBeaconKeeper.v: K.go_InitGenesis, K.go_ExportGenesis), about which
   proofs/GeneratedBeaconGenesisEq.v proves the round trips against the model of model/Genesis.v.

   part 1  the two listing adapters of the export: os_reg_GetRecordsForExport (a reverse iteration that counts, stops after
           EXPORT_CAP = 20000 entries and prepends) and os_reg_GetAllEntities agree with their primitives on related worlds;
   part 2  S.go_ExportGenesis = K.go_ExportGenesis on related worlds: the SAME document;
   part 3  S.go_InitGenesis: its closed form on every store and every document; simulation of K.go_InitGenesis from
           related worlds; the EMPTY store [] against a fresh abstract state;
   part 4  the byte-level round trip: export, import into [], Rreg again - and s' = s under the export cap; over the cap
           the stores differ;
   part 5  export -> import -> export: the same document, on bytes;
   part 6  the registrations of reachable states are listed in ascending id order (the hypothesis of parts 1 / 2 / 4 / 5);
   part 7  a concrete run. *)
From Coq Require Import ZifyBool.
From MC Require Import lib.Prelude lib.AMap lib.GoSdk GeneratedBeaconTypes model.Bank model.Registry model.RegistrySpec
  model.Genesis model.Keys model.KeyPrims model.KVStore model.StoreCodecPrims model.BeaconKeeperPrims model.BeaconStoreWorld
  model.BeaconGenSpec model.BeaconGenesisGenSpec GeneratedKeys GeneratedBeaconStore.
From MC Require GeneratedBeaconKeeper GeneratedBeaconKeeperOnStore.
From MC Require Import proofs.RegistryProofs proofs.GenesisLib proofs.GenesisProofs proofs.GeneratedBeaconEq
  proofs.GeneratedBeaconGenesisEq proofs.GeneratedBeaconParamsEq proofs.KVStoreFacts proofs.KVStoreFacts2Beacon proofs.GeneratedBeaconStoreEq
  proofs.GeneratedBeaconStoreRefines proofs.GeneratedBeaconOnStoreEq.
From Coq Require Import NArith ZArith List Bool Lia Sorted Permutation.
Import ListNotations.
Local Open Scope Z_scope.

(* the two renderings, by short names; never imported *)
Module K := MC.GeneratedBeaconKeeper.
Module S := MC.GeneratedBeaconKeeperOnStore.

(* ================================================================== *)
(* part 1: the listing adapters of the export                           *)
(* ================================================================== *)

(* what the export writes for one stored timestamp *)
Definition exp_block (b : go_BeaconTimestamp) : go_BeaconTimestampGenesisExport :=
  mk_go_BeaconTimestampGenesisExport (BeaconTimestamp_TimestampId b) (BeaconTimestamp_SubmitTime b) (BeaconTimestamp_Hash b).

(* the callback of GetAllBeaconTimestampsForExport, visiting a descending listing: with [c] entries already
   taken (c below the cap) it takes the next EXPORT_CAP - c entries at most, prepending each *)
Lemma export_visit (F : go_BeaconTimestamp -> go_BeaconTimestampGenesisExport) (r : list go_BeaconTimestamp) :
  forall c acc, 0 <= c < EXPORT_CAP ->
  exists c',
    visit (fun '(count, blocks) (wcb : go_BeaconTimestamp) =>
             Ok ((u64_add count 1, store_prepend blocks (F wcb)), (u64_add count 1 =? store_const_MaxHashSubmissionsToExport)))
          r (c, acc)
    = Ok (c', rev (map F (firstn (Z.to_nat (EXPORT_CAP - c)) r)) ++ acc).
Proof.
  induction r as [|x r IH]; intros c acc Hc.
  - exists c. cbn [visit]. rewrite firstn_nil. reflexivity.
  - cbn [visit obind snd fst].
    assert (E1 : u64_add c 1 = c + 1).
    { unfold u64_add, wrap64. apply Z.mod_small. unfold EXPORT_CAP, two64 in *. lia. }
    rewrite E1. unfold store_const_MaxHashSubmissionsToExport in *.
    assert (En : Z.to_nat (EXPORT_CAP - c) = Datatypes.S (Z.to_nat (EXPORT_CAP - (c + 1)))) by (unfold EXPORT_CAP in *; lia).
    rewrite En. cbn [firstn map rev]. destruct (Z.eqb_spec (c + 1) 20000) as [E|NE].
    + exists (c + 1). replace (Z.to_nat (EXPORT_CAP - (c + 1))) with 0%nat by (unfold EXPORT_CAP; lia).
      cbn [firstn map rev List.app]. reflexivity.
    + destruct (IH (c + 1) (store_prepend acc (F x))) as [c' E]; [unfold EXPORT_CAP in *; lia|].
      exists c'. rewrite E. unfold store_prepend. rewrite <- app_assoc. reflexivity.
Qed.

Lemma rev_firstn_rev_newest {A} (l : list A) : rev (firstn (Z.to_nat EXPORT_CAP) (rev l)) = newest EXPORT_CAP l.
Proof.
  rewrite firstn_rev, rev_involutive. unfold newest. f_equal. unfold EXPORT_CAP. lia.
Qed.

(* GetAllBeaconTimestampsForExport: the newest EXPORT_CAP timestamps of the ascending listing, ascending *)
Theorem ForGenesisExport_listing (s : okv beacon_val) w id : Rreg s (rw_reg w) -> u64 id ->
  go_st_GetAllBeaconTimestampsForExport s id =
    Ok (map exp_block (newest EXPORT_CAP (map (fun kr => rec_to_go (snd kr)) (sort_by_key (records_of id (r_recs (rw_reg w))))))).
Proof.
  intros R Hi. destruct (GetAllRecords_refines s w id R Hi) as (_ & _ & Hrev & _). cbv zeta in Hrev.
  unfold go_st_GetAllBeaconTimestampsForExport. cbv zeta. rewrite Hrev.
  set (l := map (fun kr => rec_to_go (snd kr)) (sort_by_key (records_of id (r_recs (rw_reg w))))).
  destruct (export_visit exp_block (rev l) 0 [] ltac:(unfold EXPORT_CAP; lia)) as [c' E].
  unfold exp_block in E at 1.
  match goal with |- obind ?v _ = _ => replace v with (@Ok (Z * list go_BeaconTimestampGenesisExport)
      (c', rev (map exp_block (firstn (Z.to_nat (EXPORT_CAP - 0)) (rev l))) ++ [])) end; try (rewrite <- E; reflexivity).
  cbn [obind]. rewrite app_nil_r, Z.sub_0_r, <- map_rev, rev_firstn_rev_newest. reflexivity.
Qed.

(* ... which is the primitive reg_GetRecordsForExport *)
Theorem ForGenesisExport_refines (s : okv beacon_val) w id : Rreg s (rw_reg w) -> u64 id ->
  go_st_GetAllBeaconTimestampsForExport s id = Ok (reg_GetRecordsForExport w id).
Proof.
  intros R Hi. rewrite (ForGenesisExport_listing s w id R Hi). f_equal.
  destruct (GetAllRecords_refines s w id R Hi) as (Hall & _). cbv zeta in Hall.
  exact (GetRecordsForExport_refines s w id _ R Hi Hall).
Qed.

(* the readers of proofs/GeneratedBeaconOnStoreEq.v are stated on Rwi; the export needs Rw only *)
Lemma rw_GetParams w ws : Rw w ws -> os_reg_GetParams ws = Ok (reg_GetParams w).
Proof. intros (_ & _ & HR). exact (GetParams_refines _ w HR). Qed.
Lemma rw_GetHighestID w ws : Rw w ws -> os_reg_GetHighestID ws = reg_GetHighestID w.
Proof. intros (_ & _ & HR). exact (GetHighestID_refines _ w HR). Qed.
Lemma rw_GetStorageLimit w ws id : Rw w ws -> u64 id -> os_reg_GetStorageLimit ws id = Ok (reg_GetStorageLimit w id).
Proof. intros (_ & _ & HR) Hi. exact (GetStorageLimit_refines _ w HR id Hi). Qed.

(* the adapters *)
Theorem prim_GetRecordsForExport w ws id : Rw w ws -> u64 id ->
  os_reg_GetRecordsForExport ws id = Ok (reg_GetRecordsForExport w id).
Proof. intros (_ & _ & HR) Hi. exact (ForGenesisExport_refines _ w id HR Hi). Qed.

(* the registrations in ascending id order: what the model's association list is in every reachable state (part 6) *)
Definition regs_ascending (st : reg_state) : Prop := StronglySorted Z.lt (akeys (r_regs st)).

Theorem prim_GetAllEntities w ws : Rw w ws -> regs_ascending (rw_reg w) ->
  os_reg_GetAllEntities ws = Ok (reg_GetAllEntities w).
Proof. intros (_ & _ & HR) HS. exact (proj1 (GetAllEntities_refines_sorted _ w HR HS)). Qed.

(* without the order: the same registrations, sorted by id *)
Theorem prim_GetAllEntities_perm w ws : Rw w ws ->
  exists l, os_reg_GetAllEntities ws = Ok l /\ Permutation l (reg_GetAllEntities w) /\
            StronglySorted (fun a b => Beacon_BeaconId a < Beacon_BeaconId b) l.
Proof.
  intros (_ & _ & HR). destruct (GetAllEntities_refines _ w HR) as (H1 & _ & H3 & H4). cbv zeta in *.
  eexists. split; [exact H1 | split; [exact H3 | exact H4]].
Qed.

(* ================================================================== *)
(* part 2: ExportGenesis - the same document                            *)
(* ================================================================== *)

Lemma go_range_ext_in {A St R} (f g : A -> St -> outcome (loop_res St R)) l :
  (forall x s, In x l -> f x s = g x s) -> forall s, go_range f l s = go_range g l s.
Proof.
  induction l as [|x l IH]; intros E s; [reflexivity|].
  rewrite !go_range_cons, (E x s) by (left; reflexivity).
  destruct (g x s) as [[s'|v]| |]; cbn [obind]; [apply IH; intros y s0 Hin; apply E; right; exact Hin | reflexivity ..].
Qed.

(* the ids the listing of the registrations returns are uint64 *)
Lemma entities_u64 w ws wc : Rw w ws -> In wc (reg_GetAllEntities w) -> u64 (Beacon_BeaconId wc).
Proof.
  intros (_ & _ & HR) Hin. unfold reg_GetAllEntities in Hin. apply in_map_iff in Hin. destruct Hin as [[id rg] [<- Hin]].
  destruct (R_regs_wf _ _ HR) as [_ W]. destruct (W _ _ Hin) as (Hu & E & _). cbn [snd to_go_entity Beacon_BeaconId].
  rewrite E. exact Hu.
Qed.

(* the export loop: the two bodies agree on every listed BEACON, whatever the bodies are called *)
Theorem os_ExportGenesis_eq w ws : Rw w ws -> regs_ascending (rw_reg w) ->
  S.go_ExportGenesis ws = K.go_ExportGenesis w.
Proof.
  intros HR HS. unfold S.go_ExportGenesis, K.go_ExportGenesis.
  rewrite (rw_GetParams w ws HR), (rw_GetHighestID w ws HR), (prim_GetAllEntities w ws HR HS).
  cbv zeta. cbn [obind].
  destruct (drop_err 0 (reg_GetHighestID w)) as [n|e|p]; cbn [obind]; try reflexivity.
  destruct (go_len_list (reg_GetAllEntities w) =? 0); [reflexivity|].
  match goal with
  | |- obind (go_range ?f ?l ?s) _ = obind (go_range ?g _ _) _ => rewrite (go_range_ext_in f g l); [reflexivity|]
  end.
  intros wc recs Hin. pose proof (entities_u64 w ws wc HR Hin) as Hu. cbv beta zeta.
  rewrite (prim_GetRecordsForExport w ws _ HR Hu), (rw_GetStorageLimit w ws _ HR Hu). cbn [obind].
  reflexivity.
Qed.

(* hence: the on-store export of a store representing [w] is the document of proofs/GeneratedBeaconGenesisEq.v *)
Corollary os_ExportGenesis_run w ws : Rw w ws -> regs_ascending (rw_reg w) ->
  S.go_ExportGenesis ws =
    Ok (mk_go_GenesisState (params_to_go (r_params (rw_reg w))) (r_next (rw_reg w))
          (map (go_export_entry w) (reg_GetAllEntities w))).
Proof. intros HR HS. rewrite (os_ExportGenesis_eq w ws HR HS). apply gen_bcn_ExportGenesis_run. Qed.

(* ... and the model's: the one-hash / own-key / no-genesis conditions of the model-level theorem are part of Rreg *)
Lemma Rreg_exportable s st : Rreg s st -> bcn_exportable st.
Proof.
  intros R [id rg] Hkv. cbn [snd]. destruct (R_regs_wf _ _ R) as [_ Wr]. destruct (Wr _ _ Hkv) as (_ & _ & Hg & Ht).
  split; [exact Hg|]. split; [exact Ht|]. intros k rc Hin.
  destruct (R_recs_wf _ _ R) as [_ W]. destruct (W _ _ _ Hin) as (_ & _ & Ek & h & E1).
  split; [exact Ek | rewrite E1; reflexivity].
Qed.

Corollary os_ExportGenesis_model w ws : Rw w ws -> regs_ascending (rw_reg w) ->
  exists d, S.go_ExportGenesis ws = Ok d /\ gen_of_go d = export_reg (rw_reg w).
Proof.
  intros HR HS. rewrite (os_ExportGenesis_eq w ws HR HS). apply gen_bcn_ExportGenesis_eq.
  destruct HR as (_ & _ & R). exact (Rreg_exportable _ _ R).
Qed.

(* without the order the listing of the byte store is the sorted one: the documents list the same entries, the byte
   store's in ascending id order *)
Theorem os_ExportGenesis_sorted_refuted :
  exists w ws, Rw w ws /\ S.go_ExportGenesis ws <> K.go_ExportGenesis w.
Proof.
  exists demo_w1, (mk_bsworld 0 0 demo_s1). split.
  - split; [reflexivity | split; [reflexivity | exact (proj2 (proj2 demo_R1))]].
  - vm_compute. intros E. discriminate E.
Qed.

(* ================================================================== *)
(* part 3: InitGenesis                                                  *)
(* ================================================================== *)

#[local] Arguments go_range : simpl never.
#[local] Arguments okv_set : simpl never.
#[local] Arguments imp_rec : simpl never.
#[local] Arguments imp_entry : simpl never.
#[local] Arguments reg_params_valid : simpl never.
#[local] Arguments aset : simpl never.

(* ---- what the byte store becomes: the closed form ---- *)

(* the BEACON InitGenesis stores: the document's, field by field *)
Definition bc_eta (x : go_Beacon) : go_Beacon :=
  mk_go_Beacon (Beacon_BeaconId x) (Beacon_Moniker x) (Beacon_Name x) (Beacon_LastTimestampId x) (Beacon_FirstIdInState x)
    (Beacon_NumInState x) (Beacon_RegTime x) (Beacon_Owner x).
Lemma bc_eta_eq x : bc_eta x = x.
Proof. destruct x; reflexivity. Qed.

(* the timestamp InitGenesis stores for an exported timestamp *)
Definition blk_of (b : go_BeaconTimestampGenesisExport) : go_BeaconTimestamp :=
  mk_go_BeaconTimestamp (BeaconTimestampGenesisExport_Id b) (BeaconTimestampGenesisExport_T b) (BeaconTimestampGenesisExport_H b).

(* one iteration of the inner / outer loop, on bytes *)
Definition s_imp_rec (id : Z) (b : go_BeaconTimestampGenesisExport) (s : store) : store :=
  okv_set s (kRec id (BeaconTimestampGenesisExport_Id b)) (BV_BeaconTimestamp (blk_of b)).
Definition s_imp_entry (e : go_BeaconExport) (s : store) : store :=
  let id := Beacon_BeaconId (BeaconExport_Beacon e) in
  fold_left (fun s b => s_imp_rec id b s) (BeaconExport_Timestamps e)
    (okv_set (okv_set s (kReg id) (BV_Beacon (bc_eta (BeaconExport_Beacon e))))
       (kLim id) (v_lim id (BeaconExport_InStateLimit e))).
(* the whole of InitGenesis on any store: the Params cell is written only when Params.Validate accepts *)
Definition s_import_onto (valid : bool) (d : go_GenesisState) (s : store) : store :=
  fold_left (fun s e => s_imp_entry e s) (GenesisState_RegisteredBeacons d)
    (okv_set (if valid then okv_set s beacon_ParamsKey (BV_Params (GenesisState_Params d)) else s) beacon_HighestBeaconIDKey
       (BV_bytes (be64 (Z.to_N (GenesisState_StartingBeaconId d))))).

#[local] Arguments s_imp_rec : simpl never.
#[local] Arguments s_imp_entry : simpl never.

(* the writing adapters: what they return *)
Lemma os_SetParams_eq ws p :
  os_reg_SetParams ws p = do _ <- K.go_Params_Validate p; Ok (with_bstore ws (okv_set (bsw_store ws) beacon_ParamsKey (BV_Params p)), tt).
Proof.
  unfold os_reg_SetParams. rewrite SetParams_spec. destruct (K.go_Params_Validate p) as [[]|e|c]; reflexivity.
Qed.
Lemma os_SetHighestID_eq ws v :
  os_reg_SetHighestID ws v = Ok (with_bstore ws (okv_set (bsw_store ws) beacon_HighestBeaconIDKey (BV_bytes (be64 (Z.to_N v)))), tt).
Proof. unfold os_reg_SetHighestID. rewrite SetHighestBeaconID_spec. reflexivity. Qed.
Lemma os_SetEntity_eq ws g :
  os_reg_SetEntity ws g = Ok (with_bstore ws (okv_set (bsw_store ws) (kReg (Beacon_BeaconId g)) (BV_Beacon g)), tt).
Proof. unfold os_reg_SetEntity. rewrite SetBeacon_spec. reflexivity. Qed.
Lemma os_SetStorageLimit_eq ws id l :
  os_reg_SetStorageLimit ws id l = Ok (with_bstore ws (okv_set (bsw_store ws) (kLim id) (v_lim id l)), tt).
Proof. unfold os_reg_SetStorageLimit. rewrite SetBeaconStorageLimit_spec. reflexivity. Qed.
Lemma os_SetRecord_eq ws id b :
  os_reg_SetRecord ws id b =
    Ok (with_bstore ws (okv_set (bsw_store ws) (kRec id (BeaconTimestamp_TimestampId b)) (BV_BeaconTimestamp b)), tt).
Proof. unfold os_reg_SetRecord. rewrite SetBeaconTimestamp_spec. reflexivity. Qed.

Lemma with_bstore_same ws : with_bstore ws (bsw_store ws) = ws.
Proof. destruct ws; reflexivity. Qed.

(* every iteration continues with a world that differs from the previous one by a function of the byte store *)
Lemma go_range_wstore {A R} (body : A -> bsworld -> outcome (loop_res bsworld R)) (f : A -> store -> store) :
  (forall x ws, body x ws = Ok (LCont (with_bstore ws (f x (bsw_store ws))))) ->
  forall l ws, go_range body l ws = Ok (LCont (with_bstore ws (fold_left (fun s y => f y s) l (bsw_store ws)))).
Proof.
  intros E l. induction l as [|x l IH]; intros ws.
  - rewrite go_range_nil. cbn [fold_left]. rewrite with_bstore_same. reflexivity.
  - rewrite go_range_cons, E. cbn [obind fold_left]. rewrite IH. reflexivity.
Qed.

(* the loops of InitGenesis, whatever their bodies are called *)
Ltac jprims :=
  first [ rewrite os_SetHighestID_eq | rewrite os_SetEntity_eq | rewrite os_SetStorageLimit_eq | rewrite os_SetRecord_eq ].
Ltac jloop := fail.
Ltac jstep := first [ jprims | progress cbv beta zeta | progress cbn [obind panic_on_err ignore_err] | jloop ].
Ltac jwalk := repeat jstep.
Ltac jloop ::=
  match goal with
  | e : go_BeaconExport |- context [go_range ?b (BeaconExport_Timestamps ?e') ?w0] =>
      rewrite (go_range_wstore b (s_imp_rec (Beacon_BeaconId (BeaconExport_Beacon e'))))
        by (let blk := fresh "blk" in let w' := fresh "w" in intros blk w'; jwalk; reflexivity)
  | |- context [go_range ?b (GenesisState_RegisteredBeacons ?g) ?w0] =>
      rewrite (go_range_wstore b s_imp_entry)
        by (let e := fresh "e" in let w' := fresh "w" in intros e w'; jwalk; reflexivity)
  end.

(* on every store and every document: never an error; a panic only if Params.Validate panics (it never does) *)
Theorem os_InitGenesis_run_gen ws d :
  S.go_InitGenesis ws d =
    match K.go_Params_Validate (GenesisState_Params d) with
    | Ok _ => Ok (with_bstore ws (s_import_onto true d (bsw_store ws)), tt)
    | Err _ => Ok (with_bstore ws (s_import_onto false d (bsw_store ws)), tt)
    | Panic c => Panic c
    end.
Proof.
  unfold S.go_InitGenesis, s_import_onto. rewrite os_SetParams_eq.
  destruct (K.go_Params_Validate (GenesisState_Params d)) as [[]|e|p]; cbn [obind ignore_err]; [| |reflexivity];
    jwalk; reflexivity.
Qed.

Definition validates (p : go_Params) : bool := match K.go_Params_Validate p with Ok _ => true | _ => false end.

Theorem os_InitGenesis_run ws d :
  S.go_InitGenesis ws d = Ok (with_bstore ws (s_import_onto (validates (GenesisState_Params d)) d (bsw_store ws)), tt).
Proof.
  rewrite os_InitGenesis_run_gen. unfold validates.
  destruct (gen_bcn_Params_Validate_no_panic (GenesisState_Params d) _ eq_refl) as [E|[c E]]; rewrite E; reflexivity.
Qed.

(* ---- the documents covered: the counter, the BEACON ids and the timestamp ids are what Go's uint64 fields can hold ---- *)
Definition entry_ok (e : go_BeaconExport) : Prop :=
  u64 (Beacon_BeaconId (BeaconExport_Beacon e)) /\
  Forall (fun b => u64 (BeaconTimestampGenesisExport_Id b)) (BeaconExport_Timestamps e).
Definition doc_ok (d : go_GenesisState) : Prop :=
  u64 (GenesisState_StartingBeaconId d) /\ Forall entry_ok (GenesisState_RegisteredBeacons d).

(* ---- the folds keep the representation relation ---- *)
Lemma imp_recs_sim id l : u64 id -> Forall (fun b => u64 (BeaconTimestampGenesisExport_Id b)) l ->
  forall s st, Rreg s st ->
  Rreg (fold_left (fun s b => s_imp_rec id b s) l s)
       (fold_left (fun st kr => imp_rec id kr st) (map BeaconGenesisGenSpec.rec_of_go l) st).
Proof.
  intros Hi HF. induction HF as [|b l Hb _ IH]; intros s st R; cbn [fold_left map]; [exact R|].
  apply IH. exact (R_set_record s st id (blk_of b) R Hi Hb).
Qed.

Lemma imp_entry_sim e s st : Rreg s st -> entry_ok e -> Rreg (s_imp_entry e s) (imp_entry (entry_of_go e) st).
Proof.
  intros R [Hi HF]. unfold s_imp_entry, imp_entry. cbv zeta. rewrite bc_eta_eq.
  apply (imp_recs_sim _ _ Hi HF).
  exact (R_set_limit _ _ _ (BeaconExport_InStateLimit e) (R_set_entity s st (BeaconExport_Beacon e) R Hi) Hi).
Qed.

Lemma imp_entries_sim l : Forall entry_ok l -> forall s st, Rreg s st ->
  Rreg (fold_left (fun s e => s_imp_entry e s) l s) (fold_left (fun st e => imp_entry e st) (map entry_of_go l) st).
Proof.
  intros HF. induction HF as [|e l He _ IH]; intros s st R; cbn [fold_left map]; [exact R|].
  apply IH. exact (imp_entry_sim e s st R He).
Qed.

(* the whole import, from related states; [valid] is the verdict of Params.Validate on both sides *)
Lemma import_onto_sim d s st : Rreg s st -> doc_ok d ->
  Rreg (s_import_onto (reg_params_valid (params_of_go (GenesisState_Params d))) d s) (import_onto (gen_of_go d) st).
Proof.
  intros R [Hs HF]. unfold s_import_onto, import_onto, gen_of_go. cbn [gr_params gr_start gr_regs].
  apply (imp_entries_sim _ HF).
  destruct (reg_params_valid (params_of_go (GenesisState_Params d))).
  - exact (R_set_highest _ _ _ (R_set_params s st (GenesisState_Params d) R) Hs).
  - destruct st as [p n rg li rc]. exact (R_set_highest s _ _ R Hs).
Qed.

Lemma validates_eq p : bcn_params_nonneg p -> validates p = reg_params_valid (params_of_go p).
Proof. intros H. unfold validates. rewrite (gen_bcn_Params_Validate_eq p H). destruct (reg_params_valid (params_of_go p)); reflexivity. Qed.

(* ---- simulation from related worlds: both renderings answer Ok, the worlds stay related.  A parameter set that does
   not validate is dropped on both sides (so the code of its error plays no role).
   [sim0] is [sim] of proofs/GeneratedBeaconOnStoreEq.v with Rw in place of Rwi ---- *)
Definition sim0 {R} (a : outcome (rworld * R)) (c : outcome (bsworld * R)) : Prop :=
  match a, c with
  | Ok (w, x), Ok (ws, y) => Rw w ws /\ x = y
  | Err e, Err e' => e = e'
  | Panic p, Panic p' => p = p'
  | _, _ => False
  end.

Theorem os_InitGenesis_sim0 w ws d : Rw w ws -> doc_ok d -> bcn_params_nonneg (GenesisState_Params d) ->
  sim0 (K.go_InitGenesis w d) (S.go_InitGenesis ws d).
Proof.
  intros (Hn & Hl & R) Hd Hp. rewrite gen_bcn_InitGenesis_run, os_InitGenesis_run, (validates_eq _ Hp).
  split; [|reflexivity]. split; [exact Hn | split; [exact Hl|]].
  exact (import_onto_sim d _ _ R Hd).
Qed.

(* with the invariant the message server needs afterwards (Rwi = Rw and lowest_ok): the document's FirstIdInState fields
   are uint64 *)
Definition entry_winv (e : go_BeaconExport) : Prop := u64 (Beacon_FirstIdInState (BeaconExport_Beacon e)).

Lemma imp_recs_regs id l : forall st,
  r_regs (fold_left (fun st kr => imp_rec id kr st) l st) = r_regs st.
Proof. induction l as [|kr l IH]; intros st; cbn [fold_left]; [reflexivity|]. rewrite IH. reflexivity. Qed.

Lemma imp_entries_lowest_ok l : Forall entry_winv l -> forall st, lowest_ok st ->
  lowest_ok (fold_left (fun st e => imp_entry e st) (map entry_of_go l) st).
Proof.
  intros HF. induction HF as [|e l Hl _ IH]; intros st I; cbn [fold_left map]; [exact I|].
  apply IH. unfold lowest_ok, imp_entry. cbv zeta. rewrite imp_recs_regs. cbn [with_regs r_regs].
  intros id rg G. cbn [entry_of_go gre_reg of_go_entity rg_id] in G.
  destruct (Z.eq_dec (Beacon_BeaconId (BeaconExport_Beacon e)) id) as [E|Hne].
  - rewrite E, aget_aset_eq in G. injection G as <-. exact Hl.
  - rewrite aget_aset_neq in G by exact Hne. exact (I _ _ G).
Qed.

Theorem os_InitGenesis_sim w ws d : Rwi w ws -> doc_ok d -> bcn_params_nonneg (GenesisState_Params d) ->
  Forall entry_winv (GenesisState_RegisteredBeacons d) ->
  sim (K.go_InitGenesis w d) (S.go_InitGenesis ws d).
Proof.
  intros [HR I] Hd Hp Hw. pose proof (os_InitGenesis_sim0 w ws d HR Hd Hp) as H0.
  rewrite gen_bcn_InitGenesis_run in *. destruct (S.go_InitGenesis ws d) as [[ws' []]|e|p]; cbn in H0 |- *; try contradiction.
  destruct H0 as [HR' _]. split; [|reflexivity]. cbn [fst]. split; [exact HR'|]. cbn [rw_reg with_reg].
  unfold import_onto, gen_of_go. cbn [gr_params gr_start gr_regs]. apply (imp_entries_lowest_ok _ Hw).
  intros id rg G. exact (I id rg G).
Qed.

(* ---- the EMPTY byte store against a fresh abstract state ---- *)

(* both renderings answer Ok on every document; when the parameters validate the resulting byte store represents the
   resulting abstract state, which is the model's import of the document *)
Theorem os_InitGenesis_empty now wall p0 d : doc_ok d -> bcn_params_nonneg (GenesisState_Params d) ->
  reg_params_valid (params_of_go (GenesisState_Params d)) = true ->
  exists s' st',
    S.go_InitGenesis (mk_bsworld now wall []) d = Ok (mk_bsworld now wall s', tt) /\
    K.go_InitGenesis (fresh_world now wall p0) d = Ok (mk_rworld now wall st', tt) /\
    import_reg (gen_of_go d) = Some st' /\
    Rreg s' st'.
Proof.
  intros [Hs HF] Hp V.
  exists (s_import_onto true d []), (import_onto (gen_of_go d) (rw_reg (fresh_world now wall p0))).
  split; [|split; [|split]].
  - rewrite os_InitGenesis_run, (validates_eq _ Hp), V. reflexivity.
  - rewrite gen_bcn_InitGenesis_run. reflexivity.
  - apply (import_onto_fresh (gen_of_go d) p0). exact V.
  - unfold s_import_onto, import_onto, gen_of_go. cbn [gr_params gr_start gr_regs fresh_world rw_reg r_params r_next r_regs r_limits r_recs].
    rewrite V. apply (imp_entries_sim _ HF).
    exact (init_refines (GenesisState_Params d) (GenesisState_StartingBeaconId d) _ _
             ltac:(rewrite SetParams_spec, (proj2 (gen_bcn_Params_Validate_ok_iff _ Hp) V); reflexivity)
             (SetHighestBeaconID_spec _ _) Hs).
Qed.

(* every document, valid or not, covered or not: both renderings answer Ok (never Err, never Panic), clocks untouched *)
Theorem os_InitGenesis_total ws w d :
  (exists s', S.go_InitGenesis ws d = Ok (mk_bsworld (bsw_now ws) (bsw_wall ws) s', tt)) /\
  (exists st', K.go_InitGenesis w d = Ok (mk_rworld (rw_now w) (rw_wall w) st', tt)).
Proof.
  split; [rewrite os_InitGenesis_run | rewrite gen_bcn_InitGenesis_run]; eexists; reflexivity.
Qed.

(* parameters that do not validate: both renderings drop them, and the byte store started from [] is left WITHOUT a
   Params cell - it represents no abstract state (GetParams would read the zero parameters); ValidateGenesis refuses
   such a document before InitGenesis runs *)
Example os_InitGenesis_empty_invalid_refuted :
  let d := mk_go_GenesisState (params_to_go exg_bad_params) 4 [] in
  doc_ok d /\ bcn_params_nonneg (GenesisState_Params d) /\
  reg_params_valid (params_of_go (GenesisState_Params d)) = false /\
  exists s', S.go_InitGenesis (mk_bsworld 0 0 []) d = Ok (mk_bsworld 0 0 s', tt) /\
             okv_get s' beacon_ParamsKey = None /\ (forall st, ~ Rreg s' st) /\
             go_st_GetParams s' = Ok zero_go_Params.
Proof.
  cbv zeta. split; [split; [unfold u64; cbn; lia | constructor]|].
  split; [unfold bcn_params_nonneg; cbn; lia|]. split; [reflexivity|].
  eexists. split; [vm_compute; reflexivity|]. split; [reflexivity|]. split; [|reflexivity].
  intros st R. pose proof (R_params _ _ R) as E. discriminate E.
Qed.

(* ================================================================== *)
(* part 4: export, then import into the empty byte store                *)
(* ================================================================== *)

(* ---- the abstract state determines the byte store ---- *)
Lemma Rreg_get_determined s1 s2 st : Rreg s1 st -> Rreg s2 st -> forall k, key_ok k -> okv_get s1 k = okv_get s2 k.
Proof.
  intros R1 R2 k [->|[->|[[id [Hid ->]]|[[id [Hid ->]]|[id [t [Hid [Ht ->]]]]]]]].
  - rewrite (R_params _ _ R1), (R_params _ _ R2). reflexivity.
  - rewrite (R_next _ _ R1), (R_next _ _ R2). reflexivity.
  - rewrite (R_regs _ _ R1 id Hid), (R_regs _ _ R2 id Hid). reflexivity.
  - rewrite (R_limits _ _ R1 id Hid), (R_limits _ _ R2 id Hid). reflexivity.
  - rewrite (R_recs _ _ R1 id t Hid Ht), (R_recs _ _ R2 id t Hid Ht). reflexivity.
Qed.

Theorem Rreg_store_unique s1 s2 st : Rreg s1 st -> Rreg s2 st -> s1 = s2.
Proof.
  intros R1 R2. apply okv_ext; [exact (R_sorted _ _ R1) | exact (R_sorted _ _ R2)|]. intros k.
  destruct (okv_get s1 k) as [v|] eqn:E1.
  - rewrite <- E1. apply (Rreg_get_determined s1 s2 st R1 R2). exact (R_complete _ _ R1 _ _ (get_in _ _ _ E1)).
  - destruct (okv_get s2 k) as [v|] eqn:E2; [|reflexivity].
    rewrite <- E1, <- E2. apply (Rreg_get_determined s1 s2 st R1 R2). exact (R_complete _ _ R2 _ _ (get_in _ _ _ E2)).
Qed.

(* two abstract states with the same parameters, counter and lookups are represented by the same stores *)
Lemma Rreg_equiv s st1 st2 : Rreg s st1 -> reg_equiv st1 st2 ->
  regs_wf (r_regs st2) -> limits_wf (r_limits st2) -> recs_wf (r_recs st2) -> Rreg s st2.
Proof.
  intros R (Ep & En & Er & El & _ & Ec) W1 W2 W3. constructor.
  - exact (R_sorted _ _ R).
  - rewrite <- Ep. exact (R_params _ _ R).
  - rewrite <- En. exact (R_next_range _ _ R).
  - rewrite <- En. exact (R_next _ _ R).
  - exact W1.
  - intros id Hid. rewrite <- Er. exact (R_regs _ _ R id Hid).
  - exact W2.
  - intros id Hid. rewrite <- El. exact (R_limits _ _ R id Hid).
  - exact W3.
  - intros id t Hid Ht. rewrite <- Ec. exact (R_recs _ _ R id t Hid Ht).
  - exact (R_complete _ _ R).
Qed.

(* ---- the exported document is a covered one ---- *)
Lemma valid_nonneg p : reg_params_valid (params_of_go p) = true -> bcn_params_nonneg p.
Proof.
  unfold reg_params_valid, params_of_go, bcn_params_nonneg.
  cbn [rp_fee_register rp_fee_record rp_fee_purchase rp_denom rp_default_limit rp_max_limit]. lia.
Qed.

Lemma export_blocks_u64 s w id : Rreg s (rw_reg w) ->
  Forall (fun b => u64 (BeaconTimestampGenesisExport_Id b)) (reg_GetRecordsForExport w id).
Proof.
  intros R. unfold reg_GetRecordsForExport. apply Forall_forall. intros b Hin. apply in_map_iff in Hin.
  destruct Hin as [[t rc] [<- Hin]]. cbn [BeaconTimestampGenesisExport_Id fst].
  apply newest_incl in Hin. apply (proj1 (sort_In _ _)) in Hin. apply records_of_In in Hin.
  destruct (R_recs_wf _ _ R) as [_ W]. destruct (W _ _ _ Hin) as (_ & Ht & _). exact Ht.
Qed.

Lemma export_doc_ok w ws : Rw w ws ->
  doc_ok (mk_go_GenesisState (params_to_go (r_params (rw_reg w))) (r_next (rw_reg w))
            (map (go_export_entry w) (reg_GetAllEntities w))).
Proof.
  intros HR. pose proof HR as (_ & _ & R). split; [exact (R_next_range _ _ R)|].
  cbn [GenesisState_RegisteredBeacons]. apply Forall_forall. intros e Hin. apply in_map_iff in Hin.
  destruct Hin as [wc [<- Hin]]. unfold go_export_entry, entry_ok. cbv zeta.
  cbn [BeaconExport_Beacon BeaconExport_Timestamps Beacon_BeaconId].
  split; [exact (entities_u64 w ws wc HR Hin) | exact (export_blocks_u64 _ w _ R)].
Qed.

Lemma Rreg_one_hash s st : Rreg s st -> bcn_one_hash st.
Proof.
  intros R [id k] rc Hin. destruct (R_recs_wf _ _ R) as [_ W].
  destruct (W _ _ _ Hin) as (_ & _ & _ & h & E1). rewrite E1. reflexivity.
Qed.

Lemma rworld_eta' w : mk_rworld (rw_now w) (rw_wall w) (rw_reg w) = w.
Proof. destruct w; reflexivity. Qed.

(* what Rreg asks of the three maps holds of the re-imported state's *)
Lemma reimported_regs_ascending st : regs_ascending st -> regs_ascending (reg_reimported st).
Proof.
  unfold regs_ascending. cbn [reg_reimported r_regs]. unfold akeys. rewrite map_map. cbn [fst]. intros H. exact H.
Qed.

(* THE BYTE-LEVEL ROUND TRIP.  [ws] represents a reachable abstract state [rw_reg w]; the on-store ExportGenesis gives a
   document d (the one rendering (1) and the model give); the on-store InitGenesis of d on the EMPTY byte store answers
   Ok with a store s' that represents the model's re-imported state - and, when no registration holds more records
   than the export cap, the original abstract state: then s' is the exported byte store itself *)
Theorem os_export_import_roundtrip w ws g0 now wall :
  Rw w ws -> reg_inv false (rw_reg w) g0 -> regs_ascending (rw_reg w) ->
  exists d s',
    S.go_ExportGenesis ws = Ok d /\
    gen_of_go d = export_reg (rw_reg w) /\
    S.go_InitGenesis (mk_bsworld now wall []) d = Ok (mk_bsworld now wall s', tt) /\
    Rreg s' (reg_reimported (rw_reg w)) /\
    (under_cap (rw_reg w) -> Rreg s' (rw_reg w) /\ s' = bsw_store ws).
Proof.
  intros HR I HS. pose proof HR as (_ & _ & R).
  destruct (gen_bcn_export_import_roundtrip w g0 now wall (r_params (rw_reg w)) I (Rw_no_genesis w ws HR) (Rreg_one_hash _ _ R))
    as (d & Ed & Md & Imp & _).
  pose proof Ed as Ed'. rewrite gen_bcn_ExportGenesis_run in Ed'. injection Ed' as Ed'.
  assert (Hok : doc_ok d) by (rewrite <- Ed'; exact (export_doc_ok w ws HR)).
  assert (V : reg_params_valid (params_of_go (GenesisState_Params d)) = true).
  { rewrite <- Ed'. cbn [GenesisState_Params]. rewrite GeneratedBeaconGenesisEq.params_of_to_go. exact (inv_params _ _ _ I). }
  destruct (os_InitGenesis_empty now wall (r_params (rw_reg w)) d Hok (valid_nonneg _ V) V) as (s' & st' & ES & _ & Imp' & R').
  rewrite Imp in Imp'. injection Imp' as <-.
  exists d, s'. split; [rewrite (os_ExportGenesis_eq w ws HR HS); exact Ed|].
  split; [exact Md|]. split; [exact ES|]. split; [exact R'|].
  intros C.
  assert (R'' : Rreg s' (rw_reg w)).
  { apply (Rreg_equiv s' _ _ R' (reg_equiv_reimported false _ g0 I C));
      [exact (R_regs_wf _ _ R) | exact (R_limits_wf _ _ R) | exact (R_recs_wf _ _ R)]. }
  split; [exact R'' | exact (Rreg_store_unique _ _ _ R'' R)].
Qed.

(* the cap is needed for the equality: when some registration holds more than EXPORT_CAP records the re-imported byte
   store differs from the exported one (it holds the newest EXPORT_CAP records of that registration only) *)
Lemma records_of_nodup_list id (recs : amap (Z * Z) record) : NoDup (akeys recs) -> NoDup (records_of id recs).
Proof. intros ND. exact (NoDup_map_inv fst _ (records_of_nodup id recs ND)). Qed.

Theorem os_roundtrip_over_cap_differs w ws g0 s' id :
  Rw w ws -> reg_inv false (rw_reg w) g0 -> Rreg s' (reg_reimported (rw_reg w)) ->
  EXPORT_CAP < Z.of_nat (List.length (records_of id (r_recs (rw_reg w)))) ->
  s' <> bsw_store ws.
Proof.
  intros (_ & _ & R) I R' Hlen E. subst s'.
  destruct (Rreg_functional _ _ _ R R') as (_ & _ & _ & _ & Ec).
  pose proof (inv_nd_recs _ _ _ I) as ND. pose proof (reimported_recs_nodup false _ g0 I) as ND'.
  assert (P : Permutation (records_of id (r_recs (rw_reg w))) (records_of id (r_recs (reg_reimported (rw_reg w))))).
  { apply NoDup_Permutation; [apply records_of_nodup_list; exact ND | apply records_of_nodup_list; exact ND'|].
    intros [t rc]. rewrite !records_of_In. split; intros Hin.
    - apply aget_In. rewrite <- Ec. apply aget_of_In; assumption.
    - apply aget_In. rewrite Ec. apply aget_of_In; assumption. }
  apply Permutation_length in P. rewrite (records_of_reimported false _ g0 id I) in P.
  pose proof (blocks_cap (rw_reg w) id). lia.
Qed.

(* ================================================================== *)
(* part 5: export -> import -> export                                   *)
(* ================================================================== *)

(* the byte store InitGenesis builds from the exported document exports to the very same document (no cap hypothesis) *)
Theorem os_export_import_export w ws g0 now wall :
  Rw w ws -> reg_inv false (rw_reg w) g0 -> regs_ascending (rw_reg w) ->
  exists d s',
    S.go_ExportGenesis ws = Ok d /\
    S.go_InitGenesis (mk_bsworld now wall []) d = Ok (mk_bsworld now wall s', tt) /\
    S.go_ExportGenesis (mk_bsworld now wall s') = Ok d.
Proof.
  intros HR I HS. destruct (os_export_import_roundtrip w ws g0 now wall HR I HS) as (d & s' & Ed & _ & Ei & R' & _).
  exists d, s'. split; [exact Ed|]. split; [exact Ei|].
  assert (HR' : Rw (mk_rworld now wall (reg_reimported (rw_reg w))) (mk_bsworld now wall s'))
    by (split; [reflexivity | split; [reflexivity | exact R']]).
  rewrite (os_ExportGenesis_eq _ _ HR' (reimported_regs_ascending _ HS)).
  rewrite (gen_bcn_export_reimported false (rw_reg w) g0 (rw_now w) (rw_wall w) now wall I), rworld_eta'.
  rewrite <- (os_ExportGenesis_eq w ws HR HS). exact Ed.
Qed.

(* ================================================================== *)
(* part 6: reachable states list their registrations in ascending id    *)
(* ================================================================== *)

(* [regs_ascending] is a fact about every state the module reaches: a registration is appended under the id r_next,
   above every id in use (reg_inv: registered ids are below r_next); a record / a purchase leaves the ids alone *)
Lemma record_new_regs heighted t s rg key hashes s' k pr :
  record_new heighted t s rg key hashes = (s', k, pr) -> exists rg', r_regs s' = aset (rg_id rg) rg' (r_regs s).
Proof.
  unfold record_new.
  destruct (limit_of s (rg_id rg) <? rg_num rg + 1);
    [destruct heighted; [destruct (0 <? rg_lowest rg)|]|];
    intros [= <- _ _]; eexists; reflexivity.
Qed.

Lemma sorted_app_last (l : list Z) x : StronglySorted Z.lt l -> (forall y, In y l -> y < x) -> StronglySorted Z.lt (l ++ [x]).
Proof.
  induction 1 as [|a l HS IH HF]; intros Hx; cbn [List.app].
  - constructor; constructor.
  - constructor; [apply IH; intros y Hy; apply Hx; right; exact Hy|].
    apply Forall_forall. intros y Hy. apply in_app_or in Hy. destruct Hy as [Hy|[<-|[]]].
    + rewrite Forall_forall in HF. exact (HF y Hy).
    + apply Hx. left. reflexivity.
Qed.

Lemma regs_ascending_step heighted s g t m s1 g1 :
  reg_inv heighted s g -> reg_msg_wf m -> reg_step heighted (s, g) (t, m) = (s1, g1) ->
  regs_ascending s -> regs_ascending s1.
Proof.
  intros I Hwf ES HS. unfold regs_ascending in *.
  destruct (reg_step_cases _ _ _ _ _ _ _ I Hwf ES)
    as [-> _ _ | o moniker name genesis type -> E _ | o id key hashes rg -> G _ E _ _ | o id n c -> _ E _].
  - exact HS.
  - destruct (reg_exec_register_inv _ _ _ _ _ _ _ _ _ _ E) as [_ ->]. cbn [r_regs].
    assert (Hlt : forall y, In y (akeys (r_regs s)) -> y < r_next s).
    { intros y Hy. apply In_akeys_aget in Hy as [rg Gy]. destruct (inv_regs _ _ _ I _ _ Gy) as [Hr _]. lia. }
    rewrite akeys_aset_notin by (intros Hin; specialize (Hlt _ Hin); lia).
    apply sorted_app_last; assumption.
  - destruct (reg_exec_record_inv _ _ _ _ _ _ _ _ _ E) as (rg0 & k & pr & G0 & _ & _ & _ & EN & _).
    destruct (record_new_regs _ _ _ _ _ _ _ _ _ EN) as [rg' ->].
    rewrite akeys_aset_in; [exact HS|].
    pose proof (regs_ids heighted s g (id, rg0) I (aget_In _ _ _ G0)) as Eid. cbn [fst snd] in Eid. rewrite Eid.
    change id with (fst (id, rg0)). apply in_map. exact (aget_In _ _ _ G0).
  - destruct (reg_exec_purchase_inv _ _ _ _ _ _ _ _ E) as (rg0 & _ & _ & _ & _ & _ & -> & _). exact HS.
Qed.

Theorem regs_ascending_run heighted h s g :
  reg_inv heighted s g -> hist_wf h -> regs_ascending s -> regs_ascending (fst (reg_run heighted (s, g) h)).
Proof.
  intros I Hh HS. destruct (reg_run heighted (s, g) h) as [s' g'] eqn:ER. cbn [fst].
  revert HS. apply (reg_run_ind heighted (fun s g s' g' => regs_ascending s -> regs_ascending s')) with (h := h) (g := g) (g' := g');
    [intros; assumption | | exact I | exact Hh | exact ER].
  intros s0 g0' t m s1 g1 s2 g2 I0 Hm _ ES _ IH H0. apply IH. exact (regs_ascending_step _ _ _ _ _ _ _ I0 Hm ES H0).
Qed.

Lemma regs_ascending_init p start : regs_ascending (reg_init p start).
Proof. unfold regs_ascending, reg_init. cbn. constructor. Qed.

(* ... and a genesis import of a document whose entries come in ascending id order (as every exported document) keeps
   it: the re-imported state of an ascending state is ascending (reimported_regs_ascending) *)

(* ---- the round trip along the on-store message server: whatever history of the three message kinds the on-store
   rendering has run from a related, reachable, ascending start, its byte store exports, and the document imports into
   the empty store to - under the cap - the very same byte store ---- *)
Lemma bcn_hist_ok_wf h : bcn_hist_ok h -> hist_wf h.
Proof.
  intros Hh. unfold hist_wf. unfold bcn_hist_ok in Hh. eapply Forall_impl; [|exact Hh]. intros [t m] (Wf & Ht & _).
  split; [exact Wf | cbn [fst] in *; lia].
Qed.

Theorem os_run_roundtrip wall h w ws g B now' wall' :
  Rw w ws -> reg_inv false (rw_reg w) g -> bcn_bounded B (rw_reg w) -> B + Z.of_nat (List.length h) < two64 ->
  bcn_hist_ok h -> regs_ascending (rw_reg w) ->
  let ws' := snd (s_run ws (lift_hist wall h)) in
  let st' := fst (reg_run false (rw_reg w, g) h) in
  exists d s',
    S.go_ExportGenesis ws' = Ok d /\
    gen_of_go d = export_reg st' /\
    S.go_InitGenesis (mk_bsworld now' wall' []) d = Ok (mk_bsworld now' wall' s', tt) /\
    Rreg s' (reg_reimported st') /\
    S.go_ExportGenesis (mk_bsworld now' wall' s') = Ok d /\
    (under_cap st' -> s' = bsw_store ws').
Proof.
  intros HR I HB Hlen Hh HS. cbv zeta.
  destruct (os_run_is_model wall h w ws g B HR I HB Hlen Hh) as (w' & HR' & Es & I' & _).
  pose proof (regs_ascending_run false h _ _ I (bcn_hist_ok_wf _ Hh) HS) as HS'.
  rewrite <- Es in *. pose proof (proj1 HR') as HR0.
  destruct (os_export_import_roundtrip w' _ _ now' wall' HR0 I' HS') as (d & s' & Ed & Md & Ei & R' & Hc).
  destruct (os_export_import_export w' _ _ now' wall' HR0 I' HS') as (d2 & s2 & Ed2 & Ei2 & Ee2).
  rewrite Ed in Ed2. injection Ed2 as <-. rewrite Ei in Ei2. injection Ei2 as <-.
  exists d, s'. split; [exact Ed|]. split; [exact Md|]. split; [exact Ei|]. split; [exact R'|]. split; [exact Ee2|].
  intros C. exact (proj2 (Hc C)).
Qed.

(* ================================================================== *)
(* part 7: a concrete run                                               *)
(* ================================================================== *)
Local Open Scope string_scope.

(* the byte store the on-store message server builds in proofs/GeneratedBeaconOnStoreEq.v (ex_khist: account 7 registers
   BEACON 1 and records three timestamps - the third prunes id 1 -, buys 3 slots, the parameters are updated by
   governance): six cells.  Exported by the on-store ExportGenesis, imported by the on-store InitGenesis into the EMPTY
   store of another node (other clocks): the same six cells, byte for byte; exported again: the same document *)
Example os_genesis_ex :
  let ws := snd (s_run ex_bs0 ex_khist) in
  match S.go_ExportGenesis ws with
  | Ok d =>
      GenesisState_Params d = ex_gp2 /\ GenesisState_StartingBeaconId d = 2 /\
      map BeaconExport_Beacon (GenesisState_RegisteredBeacons d) = [mk_go_Beacon 1 "m" "n" 3 2 2 1700000000 7] /\
      map BeaconExport_InStateLimit (GenesisState_RegisteredBeacons d) = [5] /\
      map BeaconExport_Timestamps (GenesisState_RegisteredBeacons d) =
        [[mk_go_BeaconTimestampGenesisExport 2 1700000015 "b"; mk_go_BeaconTimestampGenesisExport 3 1700000025 "c"]] /\
      match S.go_InitGenesis (mk_bsworld 77 78 []) d with
      | Ok (ws', _) =>
          bsw_store ws' = bsw_store ws /\ List.length (bsw_store ws') = 6%nat /\
          bsw_now ws' = 77 /\ bsw_wall ws' = 78 /\
          S.go_ExportGenesis ws' = Ok d
      | _ => False
      end
  | _ => False
  end.
Proof. vm_compute. repeat split; reflexivity. Qed.

(* the same by the theorems, not by computation, for the history of proofs/GeneratedBeaconEq.v (register; three timestamps
   under limit 2) run by the on-store message server from the genesis store *)
Lemma records_of_length_le id (recs : amap (Z * Z) record) : (List.length (records_of id recs) <= List.length recs)%nat.
Proof.
  unfold records_of. rewrite map_length. induction recs as [|x r IH]; cbn [filter List.length]; [lia|].
  destruct (fst (fst x) =? id)%Z; cbn [List.length]; lia.
Qed.

Lemma under_cap_small st : Z.of_nat (List.length (r_recs st)) <= EXPORT_CAP -> under_cap st.
Proof. intros H id. pose proof (records_of_length_le id (r_recs st)). lia. Qed.

Example os_genesis_ex_by_theorem :
  let ws := snd (s_run ex_bs0 (lift_hist 0 ex_history)) in
  exists d s',
    S.go_ExportGenesis ws = Ok d /\
    S.go_InitGenesis (mk_bsworld 77 78 []) d = Ok (mk_bsworld 77 78 s', tt) /\
    S.go_ExportGenesis (mk_bsworld 77 78 s') = Ok d /\
    s' = bsw_store ws.
Proof.
  cbv zeta.
  assert (Hlen : 1 + Z.of_nat (List.length ex_history) < two64) by (cbn; unfold two64; lia).
  assert (I0 : reg_inv false (rw_reg ex_rw0) ghost_init) by (apply reg_inv_init; [reflexivity | apply Z.le_refl]).
  assert (B0 : bcn_bounded 1 (rw_reg ex_rw0)).
  { unfold bcn_bounded, ex_rw0, reg_init. cbn [rw_reg r_next r_params r_limits r_regs aget ex_params rp_max_limit rp_default_limit].
    split; [lia|]. split; [reflexivity|]. split; [lia|]. split; intros; discriminate. }
  assert (H0 : bcn_hist_ok ex_history).
  { unfold bcn_hist_ok, ex_history.
    repeat (apply Forall_cons; [cbn [fst snd reg_msg_wf]|]); try apply Forall_nil;
      (split; [unfold RegistrySpec.u64, two64; lia|]); (split; [unfold two63; lia|]);
      intros o id key hashes [= <- <- <- <-]; reflexivity. }
  destruct (os_run_roundtrip 0 ex_history ex_rw0 ex_bs0 ghost_init 1 77 78
              ex_Rw0 I0 B0 Hlen H0 (regs_ascending_init _ _))
    as (d & s' & Ed & _ & Ei & _ & Ee & Hc).
  exists d, s'. split; [exact Ed|]. split; [exact Ei|]. split; [exact Ee|].
  apply Hc. apply under_cap_small. vm_compute. discriminate.
Qed.

(* ================================================================== *)
(* the definitions, spelled out (for props/C15onstorebeacon.v)          *)
(* ================================================================== *)
Local Close Scope string_scope.
Lemma doc_ok_spelled d :
  doc_ok d <->
  (0 <= GenesisState_StartingBeaconId d < 2 ^ 64 /\
   Forall (fun e => 0 <= Beacon_BeaconId (BeaconExport_Beacon e) < 2 ^ 64 /\
                    Forall (fun b => 0 <= BeaconTimestampGenesisExport_Id b < 2 ^ 64) (BeaconExport_Timestamps e))
          (GenesisState_RegisteredBeacons d)).
Proof. reflexivity. Qed.

Lemma regs_ascending_spelled st : regs_ascending st <-> StronglySorted Z.lt (map fst (r_regs st)).
Proof. reflexivity. Qed.

Lemma under_cap_spelled st :
  under_cap st <-> forall id, Z.of_nat (List.length (records_of id (r_recs st))) <= 20000.
Proof. reflexivity. Qed.

(* the byte store InitGenesis builds, equation by equation *)
Lemma s_import_spelled :
  (forall valid d s,
     s_import_onto valid d s =
       fold_left (fun s e => s_imp_entry e s) (GenesisState_RegisteredBeacons d)
         (okv_set (if valid then okv_set s beacon_ParamsKey (BV_Params (GenesisState_Params d)) else s) beacon_HighestBeaconIDKey
            (BV_bytes (be64 (Z.to_N (GenesisState_StartingBeaconId d)))))) /\
  (forall e s,
     s_imp_entry e s =
       fold_left (fun s b => s_imp_rec (Beacon_BeaconId (BeaconExport_Beacon e)) b s) (BeaconExport_Timestamps e)
         (okv_set (okv_set s (kReg (Beacon_BeaconId (BeaconExport_Beacon e))) (BV_Beacon (BeaconExport_Beacon e)))
            (kLim (Beacon_BeaconId (BeaconExport_Beacon e)))
            (BV_BeaconStorageLimit (mk_go_BeaconStorageLimit (Beacon_BeaconId (BeaconExport_Beacon e))
                                      (BeaconExport_InStateLimit e))))) /\
  (forall id b s,
     s_imp_rec id b s =
       okv_set s (kRec id (BeaconTimestampGenesisExport_Id b))
         (BV_BeaconTimestamp (mk_go_BeaconTimestamp (BeaconTimestampGenesisExport_Id b) (BeaconTimestampGenesisExport_T b)
                                (BeaconTimestampGenesisExport_H b)))) /\
  (forall p, validates p = match K.go_Params_Validate p with Ok _ => true | _ => false end).
Proof.
  split; [reflexivity|]. split; [|split; reflexivity].
  intros e s. unfold s_imp_entry. cbv zeta. rewrite bc_eta_eq. reflexivity.
Qed.

Lemma sim0_spelled' (a : outcome (rworld * unit)) (c : outcome (bsworld * unit)) :
  sim0 a c <->
  match a, c with
  | Ok (w, x), Ok (ws, y) => Rw w ws /\ x = y
  | Err e, Err e' => e = e'
  | Panic p, Panic p' => p = p'
  | _, _ => False
  end.
Proof. reflexivity. Qed.
