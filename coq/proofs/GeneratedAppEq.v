(* The application with every module-level step replaced by the code GENERATED from /repo (model/GeneratedApp.v) is the
   hand-written application of model/App.v:

     1. step-level equalities (ValidateBasic, the message servers incl. authz nesting, the ante chain, DeliverTx, CheckTx,
        BeginBlock, EndBlock) under explicit side conditions on the state ([gen_inv B]) and the message ([msg_wf],
        [gmsg_ok], [gmsg_nz]);
     2. [gen_inv B]: the application invariant [app_inv] + the two registries' invariants + the machine-integer bounds
        the generated code needs, preserved by the MODEL's steps with B growing by the number of leaf messages;
     3. the capstone [gen_node_run_eq]: the two nodes agree on every well-formed history;
     4. the hypotheses of the capstone are met by a concrete genesis and history;
     5. what fails without the side conditions ([..._refuted]).

   The proofs go through the per-module equality theorems (proofs/Generated*Eq.v) only: no generated function is
   unfolded here, no generated hypothesis name is mentioned. *)
From Coq Require Import ZArith Lia List String Bool.
From MC Require Import lib.Prelude lib.AMap lib.GoSdk model.Bank model.Stream model.StreamSpec model.Registry
  model.RegistrySpec model.Enterprise model.EnterpriseSpec model.App model.AppSpec model.GeneratedApp.
From MC Require Import proofs.BankProofs proofs.AppFrame proofs.AppParamsProofs proofs.AppAuthProofs proofs.AppInv.
From MC Require proofs.StreamProofs proofs.RegistryProofs proofs.EnterpriseProofs proofs.AppCrashProofs.
From MC Require GeneratedStreamTypes GeneratedStreamKeeper GeneratedWrkchainTypes GeneratedWrkchainKeeper
  GeneratedBeaconTypes GeneratedBeaconKeeper GeneratedEnterpriseTypes GeneratedEnterpriseKeeper.
From MC Require model.StreamKeeperPrims model.RegistryWorld model.WrkchainKeeperPrims model.BeaconKeeperPrims
  model.EnterpriseKeeperPrims.
From MC Require model.StreamGenSpec model.WrkchainGenSpec model.BeaconGenSpec model.EnterpriseGenSpec
  model.WrkchainAnteGenSpec model.BeaconAnteGenSpec.
From MC Require proofs.GeneratedStreamEq proofs.GeneratedStreamValidateEq proofs.GeneratedStreamParamsEq
  proofs.GeneratedWrkchainEq proofs.GeneratedWrkchainValidateEq proofs.GeneratedWrkchainParamsEq
  proofs.GeneratedWrkchainAnteEq
  proofs.GeneratedBeaconEq proofs.GeneratedBeaconValidateEq proofs.GeneratedBeaconParamsEq proofs.GeneratedBeaconAnteEq
  proofs.GeneratedEnterpriseEq proofs.GeneratedEnterpriseMsgEq proofs.GeneratedEnterpriseBlockEq
  proofs.GeneratedEnterpriseParamsEq.
Import ListNotations.
Local Open Scope Z_scope.
Local Open Scope bool_scope.

Module SE := GeneratedStreamEq.
Module SV := GeneratedStreamValidateEq.
Module SP := GeneratedStreamParamsEq.
Module WE := GeneratedWrkchainEq.
Module WV := GeneratedWrkchainValidateEq.
Module WP := GeneratedWrkchainParamsEq.
Module WA := GeneratedWrkchainAnteEq.
Module BE := GeneratedBeaconEq.
Module BV := GeneratedBeaconValidateEq.
Module BP := GeneratedBeaconParamsEq.
Module BA := GeneratedBeaconAnteEq.
Module EE := GeneratedEnterpriseEq.
Module EM := GeneratedEnterpriseMsgEq.
Module EB := GeneratedEnterpriseBlockEq.
Module EP := GeneratedEnterpriseParamsEq.
Module RP := RegistryProofs.
Module EPr := EnterpriseProofs.

(* ================================================================================================ *)
(* 0. side conditions on messages                                                                    *)
(* ================================================================================================ *)

(* what decoding a protobuf MsgUpdateParams gives: unsigned fields are not negative, a Go slice's length is an int *)
Definition reg_params_range (p : reg_params) : Prop :=
  0 <= rp_fee_register p /\ 0 <= rp_fee_record p /\ 0 <= rp_fee_purchase p /\ 0 <= rp_default_limit p.
Definition ent_params_range (p : ent_params) : Prop :=
  0 <= ep_min_accepts p /\ 0 <= ep_time_limit p /\ Z.of_nat (List.length (ep_signers p)) < two64.
Definition upd_range (u : upd_params) : Prop :=
  match u with
  | UEnt p => ent_params_range p
  | UWrk p => reg_params_range p
  | UBcn p => reg_params_range p
  | UStr _ => True
  end.

(* what an update EXECUTED by governance must satisfy for the generated code to keep agreeing with the model afterwards:
   the three fees fit an int64 (the decorators convert them: proofs/GeneratedWrkchainAnteEq.v, ..._fee_param_refuted),
   the maximum storage limit is a uint64, len(signers) is an int *)
Definition fees_fit (p : reg_params) : Prop :=
  0 <= rp_fee_register p < two63 /\ 0 <= rp_fee_record p < two63 /\ 0 <= rp_fee_purchase p < two63.
Definition upd_fit (u : upd_params) : Prop :=
  match u with
  | UEnt p => Z.of_nat (List.length (ep_signers p)) < two63
  | UWrk p => fees_fit p /\ rp_max_limit p < two64
  | UBcn p => fees_fit p /\ rp_max_limit p < two64
  | UStr _ => True
  end.

(* the part of the wire format [msg_wf] does not speak of: a WRKChain record carries five hashes, a BEACON record one *)
Fixpoint gmsg_ok (m : msg) : Prop :=
  match m with
  | MWrk (RRecord _ _ _ hashes) => List.length hashes = 5%nat
  | MBcn (RRecord _ _ _ hashes) => List.length hashes = 1%nat
  | MUpdParams au u => upd_range u /\ (au = GOV_MACC -> upd_fit u)
  | MExec _ inner => fold_right (fun i acc => gmsg_ok i /\ acc) True inner
  | _ => True
  end.

(* a BEACON record's submit time is not zero at any depth: ValidateBasic, which runs first, guarantees it *)
Fixpoint gmsg_nz (m : msg) : Prop :=
  match m with
  | MBcn (RRecord _ _ key _) => key <> 0
  | MExec _ inner => fold_right (fun i acc => gmsg_nz i /\ acc) True inner
  | _ => True
  end.

Lemma gmsg_ok_exec g inner : gmsg_ok (MExec g inner) <-> Forall gmsg_ok inner.
Proof. cbn [gmsg_ok]. apply fold_right_and_Forall. Qed.
Lemma gmsg_nz_exec g inner : gmsg_nz (MExec g inner) <-> Forall gmsg_nz inner.
Proof. cbn [gmsg_nz]. apply fold_right_and_Forall. Qed.

(* number of leaf messages: the measure by which the counters may grow *)
Fixpoint leaves (m : msg) : Z :=
  match m with
  | MExec _ inner => fold_right (fun i acc => leaves i + acc) 0 inner
  | _ => 1
  end.
Definition leaves_l (l : list msg) : Z := fold_right (fun i acc => leaves i + acc) 0 l.

Fixpoint leaves_nonneg_f (f : nat) : forall m, (msg_depth m <= f)%nat -> 0 <= leaves m.
Proof.
  destruct f as [|f]; intros m Hd.
  - destruct m; cbn in Hd; lia.
  - destruct m as [| | | | | | |g inner|]; cbn [leaves]; try lia.
    cbn [msg_depth] in Hd. apply le_S_n in Hd.
    induction inner as [|i r IH]; cbn [fold_right]; [lia|].
    cbn [fold_right] in Hd.
    pose proof (leaves_nonneg_f f i ltac:(lia)). specialize (IH ltac:(lia)). lia.
Qed.

Lemma leaves_nonneg m : 0 <= leaves m.
Proof. exact (leaves_nonneg_f (msg_depth m) m (le_n _)). Qed.

Lemma leaves_l_nonneg l : 0 <= leaves_l l.
Proof. induction l as [|i r IH]; cbn; [lia|]. pose proof (leaves_nonneg i). unfold leaves_l in IH. lia. Qed.

Lemma leaves_exec g inner : leaves (MExec g inner) = leaves_l inner.
Proof. reflexivity. Qed.
Lemma leaves_l_cons i r : leaves_l (i :: r) = leaves i + leaves_l r.
Proof. reflexivity. Qed.

(* ================================================================================================ *)
(* 1. ValidateBasic                                                                                  *)
(* ================================================================================================ *)

Lemma wrk_params_roundtrip p : WrkchainKeeperPrims.params_of_go (WrkchainKeeperPrims.params_to_go p) = p.
Proof. destruct p; reflexivity. Qed.
Lemma bcn_params_roundtrip p : BeaconKeeperPrims.params_of_go (BeaconKeeperPrims.params_to_go p) = p.
Proof. destruct p; reflexivity. Qed.
Lemma ent_params_roundtrip p : EnterpriseKeeperPrims.params_of_go (EnterpriseKeeperPrims.params_to_go p) = p.
Proof. destruct p; reflexivity. Qed.

Lemma gen_upd_validate_eq u : upd_range u ->
  as_app_err (go_upd_validate u) = if upd_valid u then Ok tt else Err ERR_APP.
Proof.
  destruct u as [p|p|p|v]; cbn [upd_range go_upd_validate upd_valid]; intros R.
  - rewrite EP.gen_ent_Params_Validate_exact.
    + rewrite ent_params_roundtrip. destruct (ent_params_valid p); reflexivity.
    + destruct R as (R1 & R2 & R3). destruct p; exact (conj R1 (conj R2 R3)).
  - rewrite WP.gen_wrk_Params_Validate_eq.
    + rewrite wrk_params_roundtrip. destruct (reg_params_valid p); reflexivity.
    + destruct p; exact R.
  - rewrite BP.gen_bcn_Params_Validate_eq.
    + rewrite bcn_params_roundtrip. destruct (reg_params_valid p); reflexivity.
    + destruct p; exact R.
  - rewrite SP.gen_str_Params_Validate_eq. cbn [GeneratedStreamTypes.Params_ValidatorFee].
    destruct (str_params_valid v); reflexivity.
Qed.

Lemma bad_addr_neg : BAD_ADDR < 0. Proof. reflexivity. Qed.
Lemma empty_addr_neg : EMPTY_ADDR < 0. Proof. reflexivity. Qed.

Lemma ent_addrs_ok_of_wf e : 0 <= ent_signer e -> ent_msg_wf e -> EM.ent_msg_addrs_ok e.
Proof.
  pose proof bad_addr_neg. pose proof empty_addr_neg. destruct e as [p d amt|sg poid dec|sg t act]; cbn; intros; try split; lia.
Qed.

Lemma ofold_unit_ext {B} (g1 g2 : B -> outcome unit) l :
  (forall i, In i l -> g1 i = g2 i) ->
  forall acc : outcome unit,
  fold_left (fun acc i => do _ <- acc; g1 i) l acc = fold_left (fun acc i => do _ <- acc; g2 i) l acc.
Proof.
  induction l as [|i r IH]; intros E acc; [reflexivity|]. cbn [fold_left].
  rewrite (E i (or_introl eq_refl)). apply IH. intros j Hj. apply E. right; exact Hj.
Qed.

Theorem gen_app_validate_basic_eq : forall f m, msg_wf m -> gmsg_ok m -> go_validate_basic f m = validate_basic f m.
Proof.
  induction f as [|f IH]; intros m W G; [reflexivity|].
  destruct m as [e|r|r|s|from to cs|gr ge ty|gr ge|ge inner|au u]; cbn [go_validate_basic validate_basic].
  - destruct W as [Sg We]. apply EM.gen_ent_validate_basic_eq. apply ent_addrs_ok_of_wf; assumption.
  - destruct W as [_ Wr]. apply WV.gen_wrk_validate_basic_eq; [exact Wr|].
    intros o id key hashes ->. exact G.
  - destruct W as [_ Wr]. apply BV.gen_bcn_validate_basic_eq; [exact Wr|].
    intros o id key hashes ->. exact G.
  - destruct W as [_ Ws]. apply SV.gen_str_validate_basic_eq_wf. exact Ws.
  - reflexivity.
  - reflexivity.
  - reflexivity.
  - destruct (Nat.eqb (List.length inner) 0); [reflexivity|].
    apply ofold_unit_ext. intros i Hi. apply IH.
    + eapply msg_wf_inner; eauto.
    + apply gmsg_ok_exec in G. rewrite Forall_forall in G. auto.
  - apply gen_upd_validate_eq. apply G.
Qed.

Theorem gen_app_validate_all_eq : forall t, Forall msg_wf (tx_msgs t) -> Forall gmsg_ok (tx_msgs t) ->
  go_validate_all t = validate_all t.
Proof.
  intros t W G. unfold go_validate_all, validate_all. destruct (tx_msgs t) as [|m ms] eqn:E; [reflexivity|].
  rewrite <- E in *. clear E. apply ofold_unit_ext. intros i Hi. rewrite Forall_forall in W, G.
  apply gen_app_validate_basic_eq; auto.
Qed.

(* ================================================================================================ *)
(* 2. the invariant                                                                                  *)
(* ================================================================================================ *)

(* x/enterprise: the order counter and the number of decisions of an order are bounded by B; len(signers) is an int *)
Definition ent_bounded (B : Z) (s : ent_state) : Prop :=
  0 <= e_next s <= B /\
  (forall id o, aget id (e_pos s) = Some o -> Z.of_nat (List.length (po_decisions o)) <= B) /\
  Z.of_nat (List.length (ep_signers (e_params s))) < two63.

(* what the generated code needs beyond [app_inv]: it only speaks of the two registries and of the parameters, the
   counter and the order table of x/enterprise *)
Record gen_extra (B : Z) (a : app) : Prop := {
  gx_wrk : exists g, RP.reg_inv true (a_wrk a) g;
  gx_bcn : exists g, RP.reg_inv false (a_bcn a) g;
  gx_bcn_ng : BE.bcn_no_genesis (a_bcn a);
  gx_wrk_b : WE.wrk_bounded B (a_wrk a);
  gx_bcn_b : BE.bcn_bounded B (a_bcn a);
  gx_wrk_fees : fees_fit (r_params (a_wrk a));
  gx_bcn_fees : fees_fit (r_params (a_bcn a));
  gx_ent : ent_bounded B (a_ent a)
}.

Definition gen_inv (B : Z) (a : app) : Prop := app_inv a /\ gen_extra B a.

Lemma ent_bounded_mono B B' s : ent_bounded B s -> B <= B' -> ent_bounded B' s.
Proof.
  intros (Hn & Hd & Hs) L. split; [lia|]. split; [|exact Hs]. intros id o G. specialize (Hd id o G). lia.
Qed.

Lemma gen_extra_mono B B' a : gen_extra B a -> B <= B' -> gen_extra B' a.
Proof.
  intros [] L. constructor; auto.
  - eapply WE.wrk_bounded_mono; eauto.
  - eapply BE.bcn_bounded_mono; eauto.
  - eapply ent_bounded_mono; eauto.
Qed.

Lemma gen_inv_mono B B' a : gen_inv B a -> B <= B' -> gen_inv B' a.
Proof. intros [I X] L. split; [exact I|eapply gen_extra_mono; eauto]. Qed.

(* the state read by [gen_extra] *)
Lemma gen_extra_frame B a a' :
  a_wrk a' = a_wrk a -> a_bcn a' = a_bcn a ->
  e_params (a_ent a') = e_params (a_ent a) -> e_next (a_ent a') = e_next (a_ent a) -> e_pos (a_ent a') = e_pos (a_ent a) ->
  gen_extra B a -> gen_extra B a'.
Proof.
  intros Ew Eb Ep En Eo []. constructor; rewrite ?Ew, ?Eb; auto.
  unfold ent_bounded. rewrite Ep, En, Eo. assumption.
Qed.

(* ---- consequences of the invariant: the hypotheses of the per-module theorems ---- *)

Lemma inv_time a : app_inv a -> 0 <= a_now a / NSEC < two63.
Proof. intros I. exact (EPr.inv_now _ (ai_ent a I)). Qed.

Lemma inv_pos_keyed a : app_inv a -> EB.pos_keyed (a_ent a).
Proof. intros I. exact (EB.sinv_pos_keyed _ _ (EPr.inv_s _ (ai_ent a I))). Qed.

Lemma inv_threshold_fits B a : app_inv a -> ent_bounded B (a_ent a) -> EB.threshold_fits (e_params (a_ent a)).
Proof.
  intros I (_ & _ & Hs). apply EB.params_valid_threshold_fits; [|exact Hs].
  exact (EPr.si_params _ _ (EPr.inv_s _ (ai_ent a I))).
Qed.

Lemma inv_decisions_fit B s : ent_bounded B s -> B < two63 -> EB.decisions_fit s.
Proof. intros (_ & Hd & _) L id o G. specialize (Hd id o G). lia. Qed.

Lemma inv_fee_purchase_pos a : app_inv a -> 0 < rp_fee_purchase (r_params (a_wrk a)) /\ 0 < rp_fee_purchase (r_params (a_bcn a)).
Proof.
  intros I. destruct (ai_params a I) as (_ & Pw & Pb & _). unfold reg_params_ok in *. lia.
Qed.

(* ================================================================================================ *)
(* 3. the message servers                                                                            *)
(* ================================================================================================ *)

Lemma gen_update_params_eq a au u :
  go_update_params a au u =
    if negb (au =? GOV_MACC) then Err ERR_GOV_AUTH else
    match u with
    | UEnt p => do e' <- ent_set_params (a_ent a) p; Ok (with_ent a (a_bank a) e')
    | UWrk p => if reg_params_valid p then Ok (with_wrk a (reg_with_params (a_wrk a) p)) else Err ERR_APP
    | UBcn p => if reg_params_valid p then Ok (with_bcn a (reg_with_params (a_bcn a) p)) else Err ERR_APP
    | UStr v => if str_params_valid v
                then Ok (with_str a (a_bank a) {| s_valfee := v; s_streams := s_streams (a_str a) |})
                else Err ERR_APP
    end.
Proof.
  destruct u as [p|p|p|v]; cbn [go_update_params].
  - rewrite EM.gen_ent_UpdateParams_eq, ent_params_roundtrip. destruct (negb (au =? GOV_MACC)); [reflexivity|].
    cbn [ent_world_of EnterpriseKeeperPrims.ew_ent]. destruct (ent_set_params (a_ent a) p); reflexivity.
  - rewrite WE.gen_wrk_UpdateParams_eq, wrk_params_roundtrip. destruct (negb (au =? GOV_MACC)); [reflexivity|].
    destruct (reg_params_valid p); reflexivity.
  - rewrite BE.gen_bcn_UpdateParams_eq, bcn_params_roundtrip. destruct (negb (au =? GOV_MACC)); [reflexivity|].
    destruct (reg_params_valid p); reflexivity.
  - rewrite SE.gen_UpdateParams_eq. destruct (negb (au =? GOV_MACC)); [reflexivity|].
    destruct (str_params_valid v); reflexivity.
Qed.

(* a parameter update: no hypothesis at all *)
Lemma gen_exec_upd_eq f a au u : go_exec_msg f a (MUpdParams au u) = exec_msg f a (MUpdParams au u).
Proof. destruct f as [|f]; [reflexivity|]. cbn [go_exec_msg exec_msg]. apply gen_update_params_eq. Qed.

(* one leaf message *)
Lemma gen_exec_leaf_eq B f a m :
  is_exec m = false -> msg_wf m -> gmsg_ok m -> gmsg_nz m -> gen_inv B a -> B < two63 ->
  go_exec_msg f a m = exec_msg f a m.
Proof.
  intros X W G NZ [I E] HB. destruct f as [|f]; [reflexivity|].
  pose proof (inv_time a I) as Ht.
  destruct m as [e|r|r|s|from to cs|gr ge ty|gr ge|ge inner|au u]; try discriminate X;
    cbn [go_exec_msg exec_msg]; try reflexivity.
  - (* x/enterprise *)
    destruct W as [Sg We]. cbn [msg_signer] in Sg.
    rewrite EM.gen_ent_msg_exec_eq_uniform; cbn [ent_world_of EnterpriseKeeperPrims.ew_now EnterpriseKeeperPrims.ew_ent].
    + change (a_now a / NSEC) with (unix (a_now a)).
      destruct (ent_exec (unix (a_now a)) (a_ent a) e) as [[e' z]| |]; reflexivity.
    + apply ent_addrs_ok_of_wf; assumption.
    + unfold two63, two64 in *. lia.
    + destruct (gx_ent B a E) as (Hn & _). unfold two63, two64 in *. lia.
    + apply inv_pos_keyed; exact I.
  - (* x/wrkchain *)
    destruct W as [_ Wr]. destruct (gx_wrk B a E) as [g Ig]. unfold wrk_world.
    rewrite WE.gen_wrk_msg_exec_eq_weak.
    + change (a_now a / NSEC) with (unix (a_now a)).
      destruct (reg_exec true (unix (a_now a)) (a_wrk a) r) as [[r' z]| |]; reflexivity.
    + exact (WE.reg_inv_regs_keyed _ _ _ Ig).
    + apply (WE.wrk_bounded_small B); [apply E|unfold two63, two64 in *; lia].
    + apply WE.reg_msg_wf_wrk; [exact Wr|]. intros o id key hashes ->. exact G.
    + unfold two63, two64 in *. lia.
  - (* x/beacon *)
    destruct W as [_ Wr]. destruct (gx_bcn B a E) as [g Ig]. unfold bcn_world.
    rewrite BE.gen_bcn_msg_exec_eq_weak.
    + change (a_now a / NSEC) with (unix (a_now a)).
      destruct (reg_exec false (unix (a_now a)) (a_bcn a) r) as [[r' z]| |]; reflexivity.
    + exact (BE.reg_inv_bcn_regs_ok _ _ Ig (gx_bcn_ng B a E)).
    + apply (BE.bcn_bounded_small B); [apply E|unfold two63, two64 in *; lia].
    + apply BE.reg_msg_wf_bcn; [exact Wr|]. intros o id key hashes ->. split; [exact G|exact NZ].
    + unfold two63, two64 in *. lia.
  - (* x/stream *)
    destruct W as [_ [_ Ws]].
    change (str_world a) with (StreamGenSpec.world (a_now a) (a_bank a) (a_str a)).
    rewrite SE.gen_msg_exec_eq_rate.
    + destruct (str_exec (a_now a) (a_bank a) (a_str a) s) as [[[b' s'] z]| |]; reflexivity.
    + exact (ai_str a I).
    + destruct s; cbn in *; auto.
  - apply gen_update_params_eq.
Qed.

(* ---- what one leaf message does to [gen_extra] (the MODEL's message servers) ---- *)

Lemma reg_inv_exec h t s g m s' r :
  RP.reg_inv h s g -> reg_msg_wf m -> reg_exec h t s m = Ok (s', r) -> exists g', RP.reg_inv h s' g'.
Proof.
  intros I W E. destruct m as [o moniker name genesis type | o id key hashes | o id n].
  - eexists. eapply RP.reg_inv_register; eauto.
  - destruct W as (_ & _ & Hk). destruct (RP.reg_inv_record _ _ _ _ _ _ _ _ _ _ I Hk E) as (rg & _ & _ & _ & I').
    eexists; exact I'.
  - destruct W as (_ & _ & Hn & _). exists g. eapply RP.reg_inv_purchase; eauto.
Qed.

Lemma ent_bounded_exec B now s m s' z : ent_bounded B s -> ent_exec now s m = Ok (s', z) -> ent_bounded (B + 1) s'.
Proof.
  intros (Hn & Hd & Hs) E. unfold ent_exec in E. destruct m as [p d amt|sg poid dec|sg t act].
  - repeat step E. injection E as <- _. unfold ent_bounded. cbn [e_next e_pos e_params].
    split; [lia|]. split; [|exact Hs]. intros id o G.
    destruct (Z.eq_dec id (e_next s)) as [->|N].
    + rewrite aget_aset_eq in G. injection G as <-. cbn. lia.
    + rewrite aget_aset_neq in G by congruence. specialize (Hd id o G). lia.
  - repeat step E. injection E as <- _. unfold ent_bounded. cbn [with_pos e_next e_pos e_params].
    split; [lia|]. split; [|exact Hs]. intros id o G.
    destruct (Z.eq_dec id poid) as [->|N].
    + rewrite aget_aset_eq in G. injection G as <-. cbn [po_decisions]. rewrite app_length. cbn [List.length].
      match goal with H : aget poid (e_pos s) = Some ?o0 |- _ => specialize (Hd poid o0 H) end. lia.
    + rewrite aget_aset_neq in G by congruence. specialize (Hd id o G). lia.
  - repeat step E; injection E as <- _; unfold ent_bounded; cbn [e_next e_pos e_params];
      (split; [lia|]; split; [|exact Hs]; intros id o G; specialize (Hd id o G); lia).
Qed.

Lemma reg_with_params_inv h s g p : RP.reg_inv h s g -> reg_params_valid p = true -> RP.reg_inv h (reg_with_params s p) g.
Proof.
  intros I V. pose proof (RP.reg_inv_set_params h s g p I) as X. unfold reg_set_params in X. rewrite V in X. exact X.
Qed.

(* a parameter update executed by governance does not move any counter *)
Lemma gen_extra_upd B f a au u a' :
  gmsg_ok (MUpdParams au u) -> gen_extra B a -> exec_msg f a (MUpdParams au u) = Ok a' -> gen_extra B a'.
Proof.
  intros G E H. destruct f as [|f]; [discriminate|]. cbn [exec_msg] in H.
  step H. apply negb_false_iff, Z.eqb_eq in C. destruct G as [_ Gf]. specialize (Gf C).
  destruct u as [p|p|p|v]; cbn [upd_fit] in Gf.
  - stepas H e'. injection H as <-. unfold ent_set_params in E0. step E0. injection E0 as <-.
    destruct E. constructor; cbn [with_ent a_wrk a_bcn a_ent]; auto. destruct gx_ent0 as (Hn & Hd & _).
    unfold ent_bounded. cbn [e_next e_pos e_params]. repeat split; auto; lia.
  - step H. injection H as <-. destruct Gf as [Gf Gm].
    apply reg_params_valid_spec in C0 as Pv. unfold reg_params_ok in Pv.
    destruct (gx_wrk B a E) as [g Ig]. destruct E. constructor; cbn [with_wrk a_wrk a_bcn a_ent]; auto.
    + exists g. apply reg_with_params_inv; assumption.
    + destruct gx_wrk_b0 as (H1 & H2 & H3 & H4 & H5). unfold WE.wrk_bounded. cbn. repeat split; auto; lia.
  - step H. injection H as <-. destruct Gf as [Gf Gm].
    apply reg_params_valid_spec in C0 as Pv. unfold reg_params_ok in Pv.
    destruct (gx_bcn B a E) as [g Ig]. destruct E. constructor; cbn [with_bcn a_wrk a_bcn a_ent]; auto.
    + exists g. apply reg_with_params_inv; assumption.
    + destruct gx_bcn_b0 as (H1 & H2 & H3 & H4 & H5). unfold BE.bcn_bounded. cbn. repeat split; auto; lia.
  - step H. injection H as <-. eapply gen_extra_frame; [| | | | |exact E]; reflexivity.
Qed.

Lemma gen_extra_leaf B f a m a' :
  is_exec m = false -> (msg_wf m \/ is_param_update m = true) -> gmsg_ok m ->
  gen_extra B a -> exec_msg f a m = Ok a' -> gen_extra (B + 1) a'.
Proof.
  intros X W G E H. destruct f as [|f]; [discriminate|].
  assert (E1 : gen_extra (B + 1) a) by (apply (gen_extra_mono B); [exact E|lia]).
  destruct m as [e|r|r|s|from to cs|gr ge ty|gr ge|ge inner|au u]; try discriminate X; cbn [exec_msg] in H.
  - stepas H [e' z]. injection H as <-. destruct E1. constructor; cbn; auto.
    eapply ent_bounded_exec; eauto. apply E.
  - destruct W as [[_ Wr]|W]; [|discriminate W]. stepas H [r' z]. injection H as <-.
    destruct (gx_wrk B a E) as [g Ig]. destruct E1. constructor; cbn [with_wrk a_wrk a_bcn a_ent]; auto.
    + eapply reg_inv_exec; eauto.
    + eapply WE.wrk_bounded_exec; [apply E| |exact E0]. apply WE.reg_msg_wf_wrk; [exact Wr|].
      intros o id key hashes ->. exact G.
    + rewrite (reg_exec_params _ _ _ _ _ _ E0). assumption.
  - destruct W as [[_ Wr]|W]; [|discriminate W]. stepas H [r' z]. injection H as <-.
    destruct (gx_bcn B a E) as [g Ig]. destruct E1. constructor; cbn [with_bcn a_wrk a_bcn a_ent]; auto.
    + eapply reg_inv_exec; eauto.
    + eapply BE.bcn_no_genesis_exec; eauto.
    + eapply BE.bcn_bounded_exec; [|apply E| |exact E0].
      * exact (BE.reg_inv_bcn_regs_ok _ _ Ig (gx_bcn_ng B a E)).
      * apply BE.reg_msg_wf_bcn_step; [exact Wr|]. intros o id key hashes ->. exact G.
    + rewrite (reg_exec_params _ _ _ _ _ _ E0). assumption.
  - stepas H [[b' s'] z]. injection H as <-. eapply gen_extra_frame; [| | | | |exact E1]; reflexivity.
  - step H. step H. step H. injection H as <-. eapply gen_extra_frame; [| | | | |exact E1]; reflexivity.
  - injection H as <-. eapply gen_extra_frame; [| | | | |exact E1]; reflexivity.
  - step H. injection H as <-. eapply gen_extra_frame; [| | | | |exact E1]; reflexivity.
  - apply (gen_extra_mono B); [|lia]. eapply (gen_extra_upd B (S f)); eauto.
Qed.

(* ---- folds: two step functions that agree under an invariant which the second one preserves ---- *)

Definition sumsz {M} (sz : M -> Z) (l : list M) : Z := fold_right (fun i acc => sz i + acc) 0 l.

Lemma sumsz_nonneg {M} (sz : M -> Z) (Q : M -> Prop) l : (forall m, Q m -> 0 <= sz m) -> Forall Q l -> 0 <= sumsz sz l.
Proof.
  intros H F. induction F as [|m l Qm _ IH]; cbn [sumsz fold_right]; [lia|].
  specialize (H m Qm). unfold sumsz in IH. lia.
Qed.

Lemma ofold_eq_inv {A M} (g1 g2 : A -> M -> outcome A) (P : Z -> A -> Prop) (sz : M -> Z) (Q : M -> Prop) (lim : Z) :
  (forall m, Q m -> 0 <= sz m) ->
  (forall B a m, Q m -> P B a -> B + sz m < lim ->
     g1 a m = g2 a m /\ forall a', g2 a m = Ok a' -> P (B + sz m) a') ->
  forall l B a, Forall Q l -> P B a -> B + sumsz sz l < lim ->
    ofold g1 l (Ok a) = ofold g2 l (Ok a) /\ forall a', ofold g2 l (Ok a) = Ok a' -> P (B + sumsz sz l) a'.
Proof.
  intros Hsz Hstep. induction l as [|m l IH]; intros B a F Pa L.
  - split; [reflexivity|]. intros a' [= <-]. cbn [sumsz fold_right]. rewrite Z.add_0_r. exact Pa.
  - inversion F as [|? ? Qm Fl]; subst. cbn [sumsz fold_right] in *. fold (sumsz sz l) in *.
    pose proof (Hsz m Qm) as H0. pose proof (sumsz_nonneg sz Q l Hsz Fl) as H1.
    destruct (Hstep B a m Qm Pa ltac:(lia)) as [Eq Pr].
    rewrite !ofold_cons, Eq. destruct (g2 a m) as [a1|c|c] eqn:E2.
    + destruct (IH (B + sz m) a1 Fl (Pr a1 eq_refl) ltac:(lia)) as [Eq' Pr'].
      split; [exact Eq'|]. intros a' H. rewrite Z.add_assoc. apply Pr'. exact H.
    + rewrite !ofold_err. split; [reflexivity|discriminate].
    + rewrite !ofold_panic. split; [reflexivity|discriminate].
Qed.

Lemma go_exec_msg_exec f a g inner :
  go_exec_msg (S f) a (MExec g inner) =
  ofold (fun a1 i => if (msg_signer i =? g) || has_grant a1 (msg_signer i) g (msg_type i)
                     then go_exec_msg f a1 i else Err ERR_AUTHZ) inner (Ok a).
Proof. reflexivity. Qed.

(* the message class of a transaction: what the wire format and ValidateBasic guarantee *)
Definition umsg (m : msg) : Prop := msg_wf m /\ gmsg_ok m /\ gmsg_nz m.

Lemma umsg_inner g inner : umsg (MExec g inner) -> Forall umsg inner.
Proof.
  intros (W & G & N). apply msg_wf_exec in W as [_ W]. apply gmsg_ok_exec in G. apply gmsg_nz_exec in N.
  rewrite Forall_forall in *. intros i Hi. repeat split; auto.
Qed.

(* a message of a transaction, at any nesting depth: the generated server does what the model does, and the model keeps
   the invariant with room for one increment per leaf *)
Lemma gen_exec_msg_user : forall f B a m, umsg m -> gen_inv B a -> B + leaves m < two63 ->
  go_exec_msg f a m = exec_msg f a m /\ forall a', exec_msg f a m = Ok a' -> gen_inv (B + leaves m) a'.
Proof.
  induction f as [|f IH]; intros B a m U I L; [split; [reflexivity|discriminate]|].
  destruct (is_exec m) eqn:X.
  - destruct m as [| | | | | | |ge inner|]; try discriminate X.
    rewrite go_exec_msg_exec, exec_msg_exec, leaves_exec in *.
    apply (ofold_eq_inv _ _ gen_inv leaves umsg two63); auto.
    + intros i _. apply leaves_nonneg.
    + intros B0 a0 i Ui I0 L0.
      destruct ((msg_signer i =? ge) || has_grant a0 (msg_signer i) ge (msg_type i)); [|split; [reflexivity|discriminate]].
      apply IH; assumption.
    + apply umsg_inner with ge. exact U.
  - destruct U as (W & G & N).
    assert (Lf : leaves m = 1) by (destruct m; try reflexivity; discriminate X). rewrite Lf in *. split.
    + eapply gen_exec_leaf_eq; eauto. lia.
    + intros a' H. destruct I as [Ia Ix]. split.
      * eapply exec_leaf_inv; eauto.
      * eapply gen_extra_leaf; eauto.
Qed.

Theorem gen_app_exec_msg_eq : forall f B a m,
  msg_wf m -> gmsg_ok m -> gmsg_nz m -> gen_inv B a -> B + leaves m < two63 ->
  go_exec_msg f a m = exec_msg f a m.
Proof. intros f B a m W G N I L. apply (gen_exec_msg_user f B a m); [repeat split|..]; assumption. Qed.

Theorem gen_inv_exec_msg : forall f B a m a',
  msg_wf m -> gmsg_ok m -> gmsg_nz m -> gen_inv B a -> B + leaves m < two63 ->
  exec_msg f a m = Ok a' -> gen_inv (B + leaves m) a'.
Proof. intros f B a m a' W G N I L. apply (gen_exec_msg_user f B a m); [repeat split|..]; assumption. Qed.

(* ValidateBasic rejects a zero submit time at every depth *)
Lemma ofold_unit_ok_inv {M} (g : M -> outcome unit) l :
  fold_left (fun acc i => do _ <- acc; g i) l (Ok tt) = Ok tt -> forall i, In i l -> g i = Ok tt.
Proof.
  induction l as [|m l IH]; intros H i Hi; [destruct Hi|]. cbn [fold_left obind] in H.
  destruct (g m) as [[]|c|c] eqn:E.
  - destruct Hi as [<-|Hi]; [exact E|apply IH; assumption].
  - exfalso. clear -H. induction l; cbn in H; [discriminate|auto].
  - exfalso. clear -H. induction l; cbn in H; [discriminate|auto].
Qed.

Lemma validate_basic_nz : forall f m, validate_basic f m = Ok tt -> gmsg_nz m.
Proof.
  induction f as [|f IH]; intros m H; [discriminate|].
  destruct m as [e|r|r|s|from to cs|gr ge ty|gr ge|ge inner|au u]; cbn [gmsg_nz]; try exact I.
  - destruct r as [o moniker name genesis type | o id key hashes | o id n]; try exact I.
    cbn [validate_basic reg_validate_basic] in H.
    destruct (id =? 0); [discriminate|]. destruct (is_empty (hd EmptyString hashes)); [discriminate|].
    destruct (key =? 0) eqn:E; [discriminate|]. apply Z.eqb_neq. exact E.
  - cbn [validate_basic] in H. destruct (Nat.eqb (List.length inner) 0); [discriminate|].
    apply fold_right_and_Forall. apply Forall_forall. intros i Hi. apply IH.
    exact (ofold_unit_ok_inv _ _ H i Hi).
Qed.

(* ================================================================================================ *)
(* 4. the ante chain                                                                                 *)
(* ================================================================================================ *)

Lemma check_fees_panic pick rs t c : check_fees pick rs t = Panic c -> c = PANIC_NEGFEE.
Proof.
  unfold check_fees. destruct (negb _); [discriminate|]. destruct (existsb _ (own_msgs pick t)); [intros [= <-]; reflexivity|].
  cbv zeta. destruct (_ <? _); [discriminate|]. destruct (_ <? _); discriminate.
Qed.

Lemma as_fee_panic_check_fees pick rs t :
  as_fee_panic (match check_fees pick rs t with Panic _ => Panic GO_PANIC_NEGCOIN | o => o end) = check_fees pick rs t.
Proof.
  destruct (check_fees pick rs t) as [[]|c|c] eqn:E; try reflexivity.
  cbn [as_fee_panic]. rewrite (check_fees_panic _ _ _ _ E). reflexivity.
Qed.

Lemma purchases_u64_wrk t : Forall msg_wf (tx_msgs t) ->
  forall o id n, In (MWrk (RPurchase o id n)) (tx_msgs t) -> 0 <= n < two64.
Proof. intros F o id n Hi. rewrite Forall_forall in F. destruct (F _ Hi) as (_ & _ & _ & Hn). exact Hn. Qed.
Lemma purchases_u64_bcn t : Forall msg_wf (tx_msgs t) ->
  forall o id n, In (MBcn (RPurchase o id n)) (tx_msgs t) -> 0 <= n < two64.
Proof. intros F o id n Hi. rewrite Forall_forall in F. destruct (F _ Hi) as (_ & _ & _ & Hn). exact Hn. Qed.

Lemma gen_wrk_ante_eq check a t :
  (check = true -> fees_fit (r_params (a_wrk a)) /\ 0 < rp_fee_purchase (r_params (a_wrk a)) /\ Forall msg_wf (tx_msgs t)) ->
  go_wrk_ante check a t = reg_ante pick_wrk (a_wrk a) check (a_bank a) (a_ent a) t.
Proof.
  intros H. unfold go_wrk_ante, reg_ante. rewrite WA.gen_wrk_CheckIsWrkChainTx_eq. cbn [obind].
  destruct (own_msgs pick_wrk t) as [|r l] eqn:E; [reflexivity|]. cbn [List.length Nat.eqb negb].
  destruct check; [|reflexivity]. destruct (H eq_refl) as (F & Fp & W).
  unfold wrk_world. rewrite (WA.gen_wrk_checkFees_total _ _ _ _ F Fp (purchases_u64_wrk t W)).
  rewrite as_fee_panic_check_fees. reflexivity.
Qed.

Lemma gen_bcn_ante_eq check a t :
  (check = true -> fees_fit (r_params (a_bcn a)) /\ 0 < rp_fee_purchase (r_params (a_bcn a)) /\ Forall msg_wf (tx_msgs t)) ->
  go_bcn_ante check a t = reg_ante pick_bcn (a_bcn a) check (a_bank a) (a_ent a) t.
Proof.
  intros H. unfold go_bcn_ante, reg_ante. rewrite BA.gen_bcn_CheckIsBeaconTx_eq. cbn [obind].
  destruct (own_msgs pick_bcn t) as [|r l] eqn:E; [reflexivity|]. cbn [List.length Nat.eqb negb].
  destruct check; [|reflexivity]. destruct (H eq_refl) as (F & Fp & W).
  unfold bcn_world. rewrite (BA.gen_bcn_checkFees_total _ _ _ _ F Fp (purchases_u64_bcn t W)).
  rewrite as_fee_panic_check_fees. reflexivity.
Qed.

Theorem gen_app_ante_eq : forall check B a t,
  gen_inv B a -> Forall msg_wf (tx_msgs t) -> go_ante check a t = ante check a t.
Proof.
  intros check B a t [I E] W. unfold go_ante, ante.
  destruct (coins_valid (tx_fee t)) eqn:Cv; cbn [negb]; [|reflexivity].
  destruct (inv_fee_purchase_pos a I) as [Pw Pb].
  rewrite gen_wrk_ante_eq by (intros _; split; [apply E|split; assumption]).
  rewrite gen_bcn_ante_eq by (intros _; split; [apply E|split; assumption]).
  rewrite (EE.gen_unlock_ante_eq a t I Cv). reflexivity.
Qed.

(* in deliver mode the fee check is not run: only [app_inv] is needed *)
Theorem gen_app_ante_deliver_eq : forall a t, app_inv a -> go_ante false a t = ante false a t.
Proof.
  intros a t I. unfold go_ante, ante.
  destruct (coins_valid (tx_fee t)) eqn:Cv; cbn [negb]; [|reflexivity].
  rewrite gen_wrk_ante_eq by discriminate. rewrite gen_bcn_ante_eq by discriminate.
  rewrite (EE.gen_unlock_ante_eq a t I Cv). reflexivity.
Qed.

Lemma gen_inv_ante check B a t a1 :
  ante check a t = Ok a1 -> 0 <= tx_payer t -> tx_wf t -> gen_inv B a -> gen_inv B a1.
Proof.
  intros H Hp W [I E]. split; [apply (ante_inv check a t a1 H Hp W I)|].
  apply ante_frame in H as (H1 & H2 & _ & _ & _ & _ & H7 & H8 & H9 & _).
  eapply gen_extra_frame; eauto.
Qed.

(* ================================================================================================ *)
(* 5. DeliverTx, CheckTx                                                                             *)
(* ================================================================================================ *)

Lemma validate_all_nz t : validate_all t = Ok tt -> Forall gmsg_nz (tx_msgs t).
Proof.
  unfold validate_all. destruct (tx_msgs t) as [|m ms]; [discriminate|]. intros H.
  apply Forall_forall. intros i Hi. apply (validate_basic_nz (tx_fuel t)).
  exact (ofold_unit_ok_inv _ _ H i Hi).
Qed.

Lemma go_exec_all_ofold a t : go_exec_all a t = ofold (go_exec_msg (tx_fuel t)) (tx_msgs t) (Ok a).
Proof. reflexivity. Qed.

Lemma gen_exec_all B a t :
  Forall umsg (tx_msgs t) -> gen_inv B a -> B + leaves_l (tx_msgs t) < two63 ->
  go_exec_all a t = exec_all a t /\ forall a', exec_all a t = Ok a' -> gen_inv (B + leaves_l (tx_msgs t)) a'.
Proof.
  intros U I L. rewrite go_exec_all_ofold, exec_all_ofold.
  apply (ofold_eq_inv _ _ gen_inv leaves umsg two63); auto.
  - intros i _. apply leaves_nonneg.
  - intros B0 a0 i Ui I0 L0. apply gen_exec_msg_user; assumption.
Qed.

Lemma umsg_all t : tx_wf t -> Forall gmsg_ok (tx_msgs t) -> validate_all t = Ok tt -> Forall umsg (tx_msgs t).
Proof.
  intros W G V. pose proof (tw_msgs t W) as Wm. apply validate_all_nz in V.
  rewrite Forall_forall in *. intros i Hi. repeat split; auto.
Qed.

Theorem gen_app_exec_all_eq : forall B a t,
  tx_wf t -> Forall gmsg_ok (tx_msgs t) -> validate_all t = Ok tt -> gen_inv B a -> B + leaves_l (tx_msgs t) < two63 ->
  go_exec_all a t = exec_all a t.
Proof. intros B a t W G V I L. apply (gen_exec_all B a t); auto. apply umsg_all; assumption. Qed.

Lemma gen_deliver_tx B a t :
  tx_wf t -> Forall gmsg_ok (tx_msgs t) -> gen_inv B a -> B + leaves_l (tx_msgs t) < two63 ->
  go_deliver_tx a t = deliver_tx a t /\ gen_inv (B + leaves_l (tx_msgs t)) (fst (deliver_tx a t)).
Proof.
  intros W G I L. pose proof (leaves_l_nonneg (tx_msgs t)) as L0.
  assert (I' : gen_inv (B + leaves_l (tx_msgs t)) a) by (apply (gen_inv_mono B); [exact I|lia]).
  unfold go_deliver_tx, deliver_tx.
  rewrite (gen_app_validate_all_eq t (tw_msgs t W) G).
  destruct (validate_all t) as [u|c|c] eqn:V; [|split; [reflexivity|exact I']..].
  apply validate_all_unit in V. pose proof (validate_all_payer t V (tw_msgs t W)) as Hp.
  rewrite (gen_app_ante_deliver_eq a t (proj1 I)).
  destruct (ante false a t) as [a1|c|c] eqn:A; [|split; [reflexivity|exact I']..].
  pose proof (gen_inv_ante false B a t a1 A Hp W I) as I1.
  destruct (gen_exec_all B a1 t (umsg_all t W G V) I1 L) as [Eq Pr]. rewrite Eq.
  destruct (exec_all a1 t) as [a2|c|c]; (split; [reflexivity|]); cbn [fst].
  - apply Pr. reflexivity.
  - apply (gen_inv_mono B); [exact I1|lia].
  - apply (gen_inv_mono B); [exact I1|lia].
Qed.

Theorem gen_app_deliver_tx_eq : forall B a t,
  tx_wf t -> Forall gmsg_ok (tx_msgs t) -> gen_inv B a -> B + leaves_l (tx_msgs t) < two63 ->
  go_deliver_tx a t = deliver_tx a t.
Proof. intros B a t W G I L. apply (gen_deliver_tx B a t W G I L). Qed.

Theorem gen_inv_deliver_tx : forall B a t a' r,
  tx_wf t -> Forall gmsg_ok (tx_msgs t) -> gen_inv B a -> B + leaves_l (tx_msgs t) < two63 ->
  deliver_tx a t = (a', r) -> gen_inv (B + leaves_l (tx_msgs t)) a'.
Proof. intros B a t a' r W G I L H. pose proof (proj2 (gen_deliver_tx B a t W G I L)) as X. rewrite H in X. exact X. Qed.

Lemma gen_check_tx B a t :
  tx_wf t -> Forall gmsg_ok (tx_msgs t) -> gen_inv B a ->
  go_check_tx a t = check_tx a t /\ gen_inv B (fst (check_tx a t)).
Proof.
  intros W G I. unfold go_check_tx, check_tx.
  rewrite (gen_app_validate_all_eq t (tw_msgs t W) G).
  destruct (validate_all t) as [u|c|c] eqn:V; [|split; [reflexivity|exact I]..].
  apply validate_all_unit in V. pose proof (validate_all_payer t V (tw_msgs t W)) as Hp.
  rewrite (gen_app_ante_eq true B a t I (tw_msgs t W)).
  destruct (ante true a t) as [a1|c|c] eqn:A; (split; [reflexivity|]); cbn [fst]; try exact I.
  exact (gen_inv_ante true B a t a1 A Hp W I).
Qed.

Theorem gen_app_check_tx_eq : forall B a t,
  tx_wf t -> Forall gmsg_ok (tx_msgs t) -> gen_inv B a -> go_check_tx a t = check_tx a t.
Proof. intros B a t W G I. apply (gen_check_tx B a t W G I). Qed.

Theorem gen_inv_check_tx : forall B a t a' r,
  tx_wf t -> Forall gmsg_ok (tx_msgs t) -> gen_inv B a -> check_tx a t = (a', r) -> gen_inv B a'.
Proof. intros B a t a' r W G I H. pose proof (proj2 (gen_check_tx B a t W G I)) as X. rewrite H in X. exact X. Qed.

(* ================================================================================================ *)
(* 6. BeginBlock                                                                                     *)
(* ================================================================================================ *)

Theorem gen_app_begin_block_eq : forall B a now,
  gen_inv B a -> B < two63 -> 0 <= now -> unix now < two63 ->
  go_begin_block a now = begin_block a now.
Proof.
  intros B a now [I E] HB H0 Hu. unfold go_begin_block, begin_block. cbv zeta.
  rewrite EB.gen_ent_begin_block_eq;
    cbn [ent_world_of with_time a_now a_bank a_ent EnterpriseKeeperPrims.ew_now EnterpriseKeeperPrims.ew_ent
         EnterpriseKeeperPrims.ew_bank].
  - change (now / NSEC) with (unix now).
    destruct (ent_begin_block (unix now) (a_bank a) (a_ent a)) as [[b' e']| |]; reflexivity.
  - change (now / NSEC) with (unix now). split.
    + unfold unix, NS. apply Z.div_pos; lia.
    + unfold two63, two64 in *. lia.
  - exact (inv_threshold_fits B a I (gx_ent B a E)).
  - exact (inv_pos_keyed a I).
  - exact (inv_decisions_fit B _ (gx_ent B a E) HB).
Qed.

(* the blocker changes neither the parameters nor the order counter, nor the decisions of any order *)
Lemma mint_and_lock_core b s x c b' s' : mint_and_lock b s x c = Ok (b', s') -> ent_core s' = ent_core s.
Proof.
  unfold mint_and_lock. intros H. step H; [injection H as _ <-; reflexivity|].
  stepas H b1. stepas H b2. stepas H b3. stepas H s1. injection H as _ <-.
  eapply increment_locked_core; eauto.
Qed.

Definition decs_ok (P : list decision -> Prop) (s : ent_state) : Prop :=
  forall id o, aget id (e_pos s) = Some o -> P (po_decisions o).

Lemma process_accepted_decs P ids : forall b s b' s',
  process_accepted ids b s = Ok (b', s') ->
  e_params s' = e_params s /\ e_next s' = e_next s /\ (decs_ok P s -> decs_ok P s').
Proof.
  induction ids as [|id rest IH]; intros b s b' s' H; cbn [process_accepted] in H.
  - injection H as _ <-. auto.
  - destruct (aget id (e_pos s)) as [o|] eqn:G; [|discriminate].
    destruct (negb (po_status o =? ST_ACCEPTED)); [discriminate|].
    destruct (negb (addr_parses (po_purchaser o))); [discriminate|].
    match type of H with match ?e with _ => _ end = _ => destruct e as [[b2 s2]|?|?] eqn:M end; try discriminate.
    apply mint_and_lock_core in M. unfold ent_core in M. cbn [with_pos e_params e_next e_pos] in M.
    injection M as Mp Mn Mo _ _ _.
    destruct (IH _ _ _ _ H) as (Ep & En & Ed). cbn [with_pos e_params e_next e_pos] in Ep, En, Ed.
    split; [congruence|]. split; [congruence|]. intros D. apply Ed. intros id' o' G'. cbn [with_pos e_pos] in G'.
    rewrite Mo in G'. destruct (Z.eq_dec id' id) as [->|N].
    + rewrite aget_aset_eq in G'. injection G' as <-. cbn [set_po_status po_decisions]. exact (D id o G).
    + rewrite aget_aset_neq in G' by congruence. exact (D id' o' G').
Qed.

Lemma tally_decs P now ids : forall s s',
  tally ids now s = Ok s' ->
  e_params s' = e_params s /\ e_next s' = e_next s /\ (decs_ok P s -> decs_ok P s').
Proof.
  induction ids as [|id rest IH]; intros s s' H; cbn [tally] in H.
  - injection H as <-. auto.
  - destruct (aget id (e_pos s)) as [o|] eqn:G; [|discriminate].
    destruct (negb (po_status o =? ST_RAISED)); [discriminate|].
    destruct (tally_one (e_params s) now o) as [st|]; [|exact (IH _ _ H)].
    destruct (IH _ _ H) as (Ep & En & Ed). cbn [with_pos e_params e_next e_pos] in Ep, En, Ed.
    split; [exact Ep|]. split; [exact En|]. intros D. apply Ed. intros id' o' G'. cbn [with_pos e_pos] in G'.
    destruct (Z.eq_dec id' id) as [->|N].
    + rewrite aget_aset_eq in G'. injection G' as <-. cbn [set_po_status po_decisions]. exact (D id o G).
    + rewrite aget_aset_neq in G' by congruence. exact (D id' o' G').
Qed.

Lemma ent_begin_block_bounded B now b s b' s' :
  ent_begin_block now b s = Ok (b', s') -> ent_bounded B s -> ent_bounded B s'.
Proof.
  unfold ent_begin_block. intros H (Hn & Hd & Hs). stepas H [b1 s1]. stepas H s2. injection H as _ <-.
  destruct (process_accepted_decs (fun ds => Z.of_nat (List.length ds) <= B) _ _ _ _ _ E) as (P1 & N1 & D1).
  destruct (tally_decs (fun ds => Z.of_nat (List.length ds) <= B) _ _ _ _ E0) as (P2 & N2 & D2).
  unfold ent_bounded. rewrite P2, P1, N2, N1. split; [exact Hn|]. split; [|exact Hs]. exact (D2 (D1 Hd)).
Qed.

Theorem gen_inv_begin_block : forall B a now a',
  begin_block a now = Some a' -> begin_wf a now -> gen_inv B a -> gen_inv B a'.
Proof.
  intros B a now a' H W [I E]. split; [exact (app_inv_begin a now a' H W I)|].
  destruct (begin_block_inv a now a' H) as (b1 & e1 & Eb & _ & ->).
  destruct E. constructor; cbn [with_ent with_time a_wrk a_bcn a_ent]; auto.
  eapply ent_begin_block_bounded; eauto.
Qed.

(* ================================================================================================ *)
(* 7. EndBlock                                                                                       *)
(* ================================================================================================ *)

Lemma ofold_ext {A M} (g1 g2 : A -> M -> outcome A) l :
  (forall a m, In m l -> g1 a m = g2 a m) -> forall acc, ofold g1 l acc = ofold g2 l acc.
Proof.
  unfold ofold. induction l as [|m l IH]; intros E acc; [reflexivity|]. cbn [fold_left].
  assert (X : obind acc (fun a1 => g1 a1 m) = obind acc (fun a1 => g2 a1 m)).
  { destruct acc; cbn [obind]; auto. apply E. left; reflexivity. }
  rewrite X. apply IH. intros a m' Hm. apply E. right; exact Hm.
Qed.

Lemma go_exec_proposal_ofold a ms :
  go_exec_proposal a ms =
  match ofold (fun a1 m => go_exec_msg (S (S (msg_depth m))) a1 m) ms (Ok a) with Ok a' => a' | _ => a end.
Proof. reflexivity. Qed.

(* proposals made of parameter updates (what governance executes in the model's histories): no hypothesis on the state *)
Theorem gen_app_end_block_eq : forall a props,
  (forall ms m, In ms props -> In m ms -> is_param_update m = true) ->
  go_end_block a props = end_block a props.
Proof.
  intros a props. revert a. unfold go_end_block, end_block.
  induction props as [|ms rest IH]; intros a H; [reflexivity|]. cbn [fold_left].
  assert (X : go_exec_proposal a ms = exec_proposal a ms).
  { rewrite go_exec_proposal_ofold, exec_proposal_ofold.
    rewrite (ofold_ext (fun a1 m => go_exec_msg (S (S (msg_depth m))) a1 m)
                       (fun a1 m => exec_msg (S (S (msg_depth m))) a1 m)); [reflexivity|].
    intros a1 m Hm. specialize (H ms m (or_introl eq_refl) Hm).
    destruct m; try discriminate H. apply gen_exec_upd_eq. }
  rewrite X. apply IH. intros ms' m H1 H2. apply (H ms' m); [right; exact H1|exact H2].
Qed.

Lemma gen_extra_exec_proposal B a ms :
  (forall m, In m ms -> is_param_update m = true /\ gmsg_ok m) -> gen_extra B a -> gen_extra B (exec_proposal a ms).
Proof.
  intros W E. rewrite exec_proposal_ofold.
  destruct (ofold (fun a1 m => exec_msg (S (S (msg_depth m))) a1 m) ms (Ok a)) as [a'|?|?] eqn:F; auto.
  revert F. apply (ofold_invariant _ (gen_extra B) (fun m => is_param_update m = true /\ gmsg_ok m)); auto.
  - intros a0 m a1 E0 [Pm Gm] H. destruct m; try discriminate Pm. eapply gen_extra_upd; eauto.
  - apply Forall_forall. exact W.
Qed.

Theorem gen_inv_end_block : forall B a props,
  end_wf a props -> (forall ms m, In ms props -> In m ms -> gmsg_ok m) -> gen_inv B a -> gen_inv B (end_block a props).
Proof.
  intros B a props W G [I E]. split; [exact (app_inv_end a props W I)|].
  assert (W' : forall ms m, In ms props -> In m ms -> is_param_update m = true /\ gmsg_ok m).
  { intros ms m H1 H2. split; [|exact (G ms m H1 H2)]. destruct (W ms m H1 H2) as (u & -> & _). reflexivity. }
  clear W G I. revert a E. unfold end_block.
  induction props as [|ms rest IH]; intros a E; cbn [fold_left]; [exact E|].
  apply IH.
  - intros ms' m H1 H2. apply (W' ms' m); [right; exact H1|exact H2].
  - apply gen_extra_exec_proposal; [|exact E]. intros m Hm. apply (W' ms m); [left; reflexivity|exact Hm].
Qed.

(* ================================================================================================ *)
(* 8. the node                                                                                       *)
(* ================================================================================================ *)

Definition gnode_inv (B : Z) (n : node) : Prop :=
  gen_inv B (n_committed n) /\ gen_inv B (n_check n) /\
  match n_deliver n with Some a => gen_inv B a | None => True end.

(* what [op_wf] does not say of an operation: the [gmsg_ok] of every message it carries (transactions, proposals) *)
Definition gop_ok (o : op) : Prop :=
  match o with
  | OpDeliver t => Forall gmsg_ok (tx_msgs t)
  | OpCheck t => Forall gmsg_ok (tx_msgs t)
  | OpEnd props => forall ms m, In ms props -> In m ms -> gmsg_ok m
  | _ => True
  end.
Definition ghist_ok (h : list op) : Prop := Forall gop_ok h.

(* only a delivered transaction moves counters: by at most one per leaf message *)
Definition op_size (o : op) : Z := match o with OpDeliver t => leaves_l (tx_msgs t) | _ => 0 end.
Definition hist_size (h : list op) : Z := sumsz op_size h.

Lemma op_size_nonneg o : 0 <= op_size o.
Proof. destruct o; cbn; try lia. apply leaves_l_nonneg. Qed.
Lemma hist_size_nonneg h : 0 <= hist_size h.
Proof. apply (sumsz_nonneg op_size (fun _ => True)); [intros; apply op_size_nonneg|]. apply Forall_forall. auto. Qed.

Lemma gnode_inv_mono B B' n : gnode_inv B n -> B <= B' -> gnode_inv B' n.
Proof.
  intros (Ic & Ik & Id) L. split; [|split]; try (eapply gen_inv_mono; eauto).
  destruct (n_deliver n); [eapply gen_inv_mono; eauto|exact I].
Qed.

Lemma gen_node_step B n o :
  gnode_inv B n -> op_wf n o -> gop_ok o -> B + op_size o < two63 ->
  go_node_step n o = node_step n o /\
  forall n' r, node_step n o = Some (n', r) -> gnode_inv (B + op_size o) n'.
Proof.
  intros (Ic & Ik & Id) W G L. pose proof (op_size_nonneg o) as S0.
  assert (Ic' : gen_inv (B + op_size o) (n_committed n)) by (eapply gen_inv_mono; eauto; lia).
  assert (Ik' : gen_inv (B + op_size o) (n_check n)) by (eapply gen_inv_mono; eauto; lia).
  destruct o as [now|t|t|ps| |]; cbn [go_node_step node_step op_size op_wf gop_ok] in *.
  - destruct W as (W1 & W2 & W3 & W4).
    rewrite (gen_app_begin_block_eq B (n_committed n) now Ic ltac:(lia) W3 W4). split; [reflexivity|].
    intros n' r H. destruct (begin_block (n_committed n) now) as [a|] eqn:E; [|discriminate]. injection H as <- _.
    (split; [|split]; cbn [n_committed n_check n_deliver]; auto).
    apply (gen_inv_mono B); [|lia]. eapply gen_inv_begin_block; eauto. repeat split; assumption.
  - destruct (n_deliver n) as [a|]; [|split; [reflexivity|discriminate]].
    destruct (gen_deliver_tx B a t W G Id L) as [Eq Pr]. rewrite Eq. split; [reflexivity|].
    intros n' r H. destruct (deliver_tx a t) as [a' r'] eqn:E. injection H as <- _.
    (split; [|split]; cbn [n_committed n_check n_deliver]; auto).
  - destruct (gen_check_tx B (n_check n) t W G Ik) as [Eq Pr]. rewrite Eq. split; [reflexivity|].
    intros n' r H. destruct (check_tx (n_check n) t) as [c' r'] eqn:E. injection H as <- _.
    (split; [|split]; cbn [n_committed n_check n_deliver]; auto).
    + apply (gen_inv_mono B); [exact Pr|lia].
    + destruct (n_deliver n); [apply (gen_inv_mono B); [exact Id|lia]|exact I].
  - destruct (n_deliver n) as [a|]; [|split; [reflexivity|discriminate]].
    rewrite gen_app_end_block_eq.
    2:{ intros ms m H1 H2. destruct (W ms m H1 H2) as (u & -> & _). reflexivity. }
    split; [reflexivity|]. intros n' r H. injection H as <- _.
    (split; [|split]; cbn [n_committed n_check n_deliver]; auto).
    apply (gen_inv_mono B); [|lia]. apply gen_inv_end_block; assumption.
  - split; [reflexivity|]. intros n' r H. destruct (n_deliver n) as [a|]; [|discriminate]. injection H as <- _.
    rewrite Z.add_0_r. (split; [|split]; cbn [n_committed n_check n_deliver]; auto).
  - split; [reflexivity|]. intros n' r H. injection H as <- _.
    (split; [|split]; cbn [n_committed n_check n_deliver]; auto).
Qed.

Theorem gen_node_step_eq : forall B n o,
  gnode_inv B n -> op_wf n o -> gop_ok o -> B + op_size o < two63 -> go_node_step n o = node_step n o.
Proof. intros B n o I W G L. apply (gen_node_step B n o I W G L). Qed.

Theorem gnode_inv_step : forall B n o n' r,
  gnode_inv B n -> op_wf n o -> gop_ok o -> B + op_size o < two63 ->
  node_step n o = Some (n', r) -> gnode_inv (B + op_size o) n'.
Proof. intros B n o n' r I W G L. apply (gen_node_step B n o I W G L). Qed.

Lemma gen_node_run : forall h B n,
  gnode_inv B n -> hist_wf n h -> ghist_ok h -> B + hist_size h < two63 ->
  go_node_run n h = node_run n h /\ forall n', node_run n h = Some n' -> gnode_inv (B + hist_size h) n'.
Proof.
  induction h as [|o h IH]; intros B n I W G L.
  - split; [reflexivity|]. intros n' [= <-]. cbn. rewrite Z.add_0_r. exact I.
  - destruct W as [Wo Wr]. inversion G as [|? ? Go Gh]; subst.
    cbn [hist_size sumsz fold_right] in *. fold (sumsz op_size h) in *. fold (hist_size h) in *.
    pose proof (op_size_nonneg o) as S0. pose proof (hist_size_nonneg h) as S1.
    destruct (gen_node_step B n o I Wo Go ltac:(lia)) as [Eq Pr].
    cbn [go_node_run node_run]. rewrite Eq.
    destruct (node_step n o) as [[n1 r]|] eqn:E; [|split; [reflexivity|discriminate]].
    destruct (IH (B + op_size o) n1 (Pr n1 r eq_refl) Wr Gh ltac:(lia)) as [Eq' Pr'].
    split; [exact Eq'|]. intros n' H. rewrite Z.add_assoc. apply Pr'. exact H.
Qed.

Lemma gnode_inv_init B g : gen_inv B g -> gnode_inv B (node_init g).
Proof. intros I. (split; [|split]; cbn; auto). Qed.

(* ---- the capstone ---- *)
Theorem gen_node_run_eq : forall B g h,
  gen_inv B g -> hist_wf (node_init g) h -> ghist_ok h -> B + hist_size h < two63 ->
  go_node_run (node_init g) h = node_run (node_init g) h.
Proof. intros B g h I W G L. apply (gen_node_run h B (node_init g) (gnode_inv_init B g I) W G L). Qed.

(* the same from any node whose three states satisfy the invariant, with the invariant of the node reached *)
Theorem gen_node_run_eq_from : forall B n h,
  gnode_inv B n -> hist_wf n h -> ghist_ok h -> B + hist_size h < two63 ->
  go_node_run n h = node_run n h.
Proof. intros B n h I W G L. apply (gen_node_run h B n I W G L). Qed.

Theorem gnode_inv_run : forall B n h n',
  gnode_inv B n -> hist_wf n h -> ghist_ok h -> B + hist_size h < two63 ->
  node_run n h = Some n' -> gnode_inv (B + hist_size h) n'.
Proof. intros B n h n' I W G L. apply (gen_node_run h B n I W G L). Qed.

(* the generated node keeps the invariant as well *)
Corollary gnode_inv_go_run : forall B n h n',
  gnode_inv B n -> hist_wf n h -> ghist_ok h -> B + hist_size h < two63 ->
  go_node_run n h = Some n' -> gnode_inv (B + hist_size h) n'.
Proof.
  intros B n h n' I W G L H. rewrite (gen_node_run_eq_from B n h I W G L) in H. eapply gnode_inv_run; eauto.
Qed.

(* the results of the transactions are the same too: the step equality is about [node_step]'s whole result *)
Fixpoint go_node_trace (n : node) (h : list op) : option (node * list (option tx_result)) :=
  match h with
  | [] => Some (n, [])
  | o :: r =>
      match go_node_step n o with
      | Some (n', x) =>
          match go_node_trace n' r with
          | Some (n'', xs) => Some (n'', x :: xs)
          | None => None
          end
      | None => None
      end
  end.

Theorem gen_node_trace_eq_from : forall h B n,
  gnode_inv B n -> hist_wf n h -> ghist_ok h -> B + hist_size h < two63 ->
  go_node_trace n h = AppCrashProofs.node_trace n h.
Proof.
  induction h as [|o h IH]; intros B n I W G L; [reflexivity|].
  destruct W as [Wo Wr]. inversion G as [|? ? Go Gh]; subst.
  cbn [hist_size sumsz fold_right] in *. fold (sumsz op_size h) in *. fold (hist_size h) in *.
  pose proof (op_size_nonneg o) as S0. pose proof (hist_size_nonneg h) as S1.
  destruct (gen_node_step B n o I Wo Go ltac:(lia)) as [Eq Pr].
  cbn [go_node_trace AppCrashProofs.node_trace]. rewrite Eq.
  destruct (node_step n o) as [[n1 r]|] eqn:E; [|reflexivity].
  rewrite (IH (B + op_size o) n1 (Pr n1 r eq_refl) Wr Gh ltac:(lia)). reflexivity.
Qed.

Theorem gen_node_trace_eq : forall B g h,
  gen_inv B g -> hist_wf (node_init g) h -> ghist_ok h -> B + hist_size h < two63 ->
  go_node_trace (node_init g) h = AppCrashProofs.node_trace (node_init g) h.
Proof. intros B g h I W G L. apply (gen_node_trace_eq_from h B (node_init g) (gnode_inv_init B g I) W G L). Qed.

(* ================================================================================================ *)
(* 9. the hypotheses are satisfiable: a concrete genesis and history                                 *)
(* ================================================================================================ *)

(* the genesis of proofs/AppInv.v (accounts 1, 2, 7; both registries empty, next id 1; order counter 1) *)
Lemma ex_g_of_gen_inv x0 : 0 <= x0 -> gen_inv 1 (ex_g_of x0).
Proof.
  intros Hx. split; [apply ex_g_of_inv; exact Hx|].
  constructor; unfold ex_g_of; cbn [a_wrk a_bcn a_ent].
  - exists ghost_init. exact (RP.reg_inv_init true ex_rp 1 eq_refl ltac:(lia)).
  - exists ghost_init. exact (RP.reg_inv_init false ex_rp 1 eq_refl ltac:(lia)).
  - intros id rg G. discriminate G.
  - unfold WE.wrk_bounded, two64; cbn. repeat split; try lia; intros; discriminate.
  - unfold BE.bcn_bounded, two64; cbn. repeat split; try lia; intros; discriminate.
  - unfold fees_fit, two63; cbn. lia.
  - unfold fees_fit, two63; cbn. lia.
  - unfold ent_bounded, two63; cbn. repeat split; try lia. intros; discriminate.
Qed.

Lemma ex_g_gen_inv : gen_inv 1 ex_g.
Proof. apply ex_g_of_gen_inv. lia. Qed.

Local Open Scope string_scope.

(* new parameters for both registries (lower fees, a storage limit of 2) and for x/enterprise (a second signer) *)
Definition gx_rp : reg_params :=
  {| rp_fee_register := 500; rp_fee_record := 2; rp_fee_purchase := 3; rp_denom := NUND;
     rp_default_limit := 2; rp_max_limit := 1000 |}.
Definition gx_ep : ent_params :=
  {| ep_denom := NUND; ep_min_accepts := 1; ep_time_limit := 200; ep_signers := [7; 8] |}.

Definition gx_tx_wrk_register := ex_tx [MWrk (RRegister 1 "m" "n" "g" "t")] [(NUND, 1000)].
Definition gx_tx_bcn_register := ex_tx [MBcn (RRegister 1 "b" "bn" "" "")] [(NUND, 1000)].
Definition gx_tx_wrk_record (h : Z) := ex_tx [MWrk (RRecord 1 1 h ["a"; "b"; "c"; "d"; "e"])] [(NUND, 2)].
Definition gx_tx_bcn_record (k : Z) := ex_tx [MBcn (RRecord 1 1 k ["h"])] [(NUND, 2)].
Definition gx_tx_purchase := ex_tx [MWrk (RPurchase 1 1 10)] [(NUND, 30)].
Definition gx_tx_nested := ex_tx [MExec 1 [MExec 1 [MSend 1 2 [(NUND, 5)]]; MEnt (ERaise 1 NUND 10)]] [].
Definition gx_tx_grant := ex_tx [MGrant 1 2 5; MFeeAllow 1 2] [].
(* account 2 records a block for account 1 under the grant, account 1 paying the (empty) fee as the granter *)
Definition gx_tx_by_grantee :=
  {| tx_msgs := [MExec 2 [MWrk (RRecord 1 1 9 ["a"; "b"; "c"; "d"; "e"])]]; tx_fee := []; tx_granter := Some 1;
     tx_sig_ok := true |}.
(* a purchase of 2^63 slots: the fee check panics *)
Definition gx_tx_huge := ex_tx [MWrk (RPurchase 1 1 two63)] [(NUND, 50)].
(* a user's MsgUpdateParams: passes ValidateBasic, refused by the handler (not the authority) *)
Definition gx_tx_upd := ex_tx [MUpdParams 1 (UWrk gx_rp)] [].
Definition gx_tx_badsig :=
  {| tx_msgs := [MSend 1 2 [(NUND, 1)]]; tx_fee := []; tx_granter := None; tx_sig_ok := false |}.
Definition gx_tx_whitelist := ex_tx [MEnt (EWhitelist 7 2 1)] [].
Definition gx_tx_mixed :=
  ex_tx [MWrk (RRecord 1 1 7 ["a"; "b"; "c"; "d"; "e"]); MBcn (RRecord 1 1 99 ["z"])] [(NUND, 4)].

(* block 1: an order raised and accepted; block 2: tally; block 3: completion, both registrations, a stream, a whitelisting,
   a refused update, governance updating all four modules' parameters; block 4: a claim through authz, records (pruning at
   the new limit 2), a purchase, nested authz, a grant used by the grantee with a fee granter, a panicking fee check, a bad
   signature, then a crash before the commit; block 5: the chain goes on from the committed state *)
Definition gx_hist : list op :=
  [OpBegin (ex_t 5); OpDeliver ex_tx_raise; OpDeliver ex_tx_accept; OpEnd []; OpCommit;
   OpBegin (ex_t 10); OpEnd []; OpCommit;
   OpBegin (ex_t 15); OpCheck gx_tx_wrk_register; OpDeliver gx_tx_wrk_register; OpDeliver gx_tx_bcn_register;
     OpDeliver ex_tx_stream; OpDeliver gx_tx_whitelist; OpDeliver gx_tx_upd;
     OpEnd [[MUpdParams GOV_MACC (UStr 20000000000000000); MUpdParams GOV_MACC (UWrk gx_rp)];
            [MUpdParams GOV_MACC (UEnt gx_ep); MUpdParams GOV_MACC (UBcn gx_rp)]]; OpCommit;
   OpBegin (ex_t 25); OpDeliver ex_tx_claim; OpCheck (gx_tx_wrk_record 5); OpDeliver (gx_tx_wrk_record 5);
     OpDeliver (gx_tx_bcn_record 12345); OpDeliver gx_tx_mixed; OpCheck gx_tx_purchase; OpDeliver gx_tx_purchase;
     OpDeliver gx_tx_nested; OpDeliver gx_tx_grant; OpDeliver gx_tx_by_grantee;
     OpCheck gx_tx_huge; OpDeliver gx_tx_badsig; OpCrash;
   OpBegin (ex_t 30); OpDeliver (gx_tx_wrk_record 6); OpEnd []; OpCommit].

Ltac gx_op_wf :=
  cbn [op_wf n_deliver n_committed];
  lazymatch goal with
  | |- tx_wf _ =>
      constructor; cbn;
      [ repeat constructor; cbn; unfold u64, two63, two64; try lia
      | intros ? [=]; subst; lia | repeat constructor; cbn; tauto ]
  | |- True => exact I
  | |- _ /\ _ => vm_compute; repeat split; first [reflexivity | discriminate]
  | |- _ =>
      cbn; intros ? ? Hin1 Hin2; cbn [In] in Hin1;
      repeat match goal with H : _ \/ _ |- _ => destruct H | H : False |- _ => destruct H end;
      subst; cbn [In] in Hin2;
      repeat match goal with H : _ \/ _ |- _ => destruct H | H : False |- _ => destruct H end;
      subst; try (eexists; split; [reflexivity | first [exact I | reflexivity]])
  end.

Ltac gx_hist_wf :=
  lazymatch goal with
  | |- hist_wf _ [] => exact I
  | |- hist_wf ?n (?o :: ?r) =>
      let st := eval vm_compute in (node_step n o) in
      change (op_wf n o /\ match node_step n o with Some (n', _) => hist_wf n' r | None => True end);
      split; [ gx_op_wf
             | replace (node_step n o) with st by (vm_compute; reflexivity); cbv iota beta; gx_hist_wf ]
  | |- True => exact I
  end.

Lemma gx_hist_wf_ok : hist_wf (node_init ex_g) gx_hist.
Proof.
  let n := eval vm_compute in (node_init ex_g) in change (node_init ex_g) with n.
  let h := eval vm_compute in gx_hist in change gx_hist with h.
  gx_hist_wf.
Qed.

Lemma gx_hist_ok : ghist_ok gx_hist.
Proof.
  unfold ghist_ok, gx_hist.
  repeat (apply Forall_cons; [cbn [gop_ok]|]); try apply Forall_nil; try exact I;
    try (repeat constructor; cbn; unfold two63, two64; try lia; intros [=]; fail).
  all: intros ms m H1 H2; cbn [In] in H1;
    repeat match goal with H : _ \/ _ |- _ => destruct H | H : False |- _ => destruct H end;
    subst; cbn [In] in H2;
    repeat match goal with H : _ \/ _ |- _ => destruct H | H : False |- _ => destruct H end;
    subst; cbn; unfold fees_fit, two63, two64; cbn; repeat split; try lia; auto;
    try (vm_compute; discriminate).
Qed.

Lemma gx_hist_size : 1 + hist_size gx_hist < two63.
Proof. vm_compute. reflexivity. Qed.

(* every hypothesis of the capstone holds of [ex_g], [gx_hist] *)
Example gen_node_run_eq_ex : go_node_run (node_init ex_g) gx_hist = node_run (node_init ex_g) gx_hist.
Proof. exact (gen_node_run_eq 1 ex_g gx_hist ex_g_gen_inv gx_hist_wf_ok gx_hist_ok gx_hist_size). Qed.

(* the history runs to its end, most transactions succeed, and the failures are of every kind *)
Example gx_hist_results :
  option_map snd (AppCrashProofs.node_trace (node_init ex_g) gx_hist) =
  Some [None; Some TxOk; Some TxOk; None; None; None; None; None; None;
        Some TxOk; Some TxOk; Some TxOk; Some TxOk; Some TxOk; Some (TxFailed ERR_GOV_AUTH); None; None; None;
        Some TxOk; Some TxOk; Some TxOk; Some TxOk; Some TxOk; Some TxOk; Some TxOk; Some TxOk; Some TxOk; Some TxOk;
        Some (TxPanicked 1 PANIC_NEGFEE); Some (TxRejected ERR_BAD_SIG); None; None; Some TxOk; None; None].
Proof. vm_compute. reflexivity. Qed.

(* the same equality by running the generated code itself (no theorem involved) *)
Example gen_node_trace_eq_ex_computed :
  go_node_trace (node_init ex_g) gx_hist = AppCrashProofs.node_trace (node_init ex_g) gx_hist.
Proof. vm_compute. reflexivity. Qed.

(* ================================================================================================ *)
(* 10. the side conditions cannot be dropped                                                         *)
(* ================================================================================================ *)

(* (a) the glue's [as_fee_panic]: the raw generated fee check and the model's panic with different codes on a purchase
   of 2^63 slots (reachable: CheckTx of [gx_tx_huge]) *)
Example gen_checkFees_panic_code_refuted :
  GeneratedWrkchainKeeper.go_checkWrkchainFees (wrk_world ex_g) (WrkchainAnteGenSpec.gotx_of gx_tx_huge)
    = Panic GO_PANIC_NEGCOIN /\
  check_fees pick_wrk (a_wrk ex_g) gx_tx_huge = Panic PANIC_NEGFEE /\
  GO_PANIC_NEGCOIN <> PANIC_NEGFEE.
Proof. vm_compute. repeat split; try reflexivity. discriminate. Qed.

(* (b) [upd_fit]: governance sets the WRKChain registration fee to 2^63 (a valid uint64; Params.Validate accepts it); the
   generated decorator converts it to a negative int64 and panics in sdk.NewCoin, the model accepts the exact fee.
   Every other hypothesis of the capstone holds. *)
Definition rx_rp : reg_params :=
  {| rp_fee_register := two63; rp_fee_record := 1; rp_fee_purchase := 5; rp_denom := NUND;
     rp_default_limit := 100; rp_max_limit := 1000 |}.
Definition rx_tx := ex_tx [MWrk (RRegister 1 "m" "n" "g" "t")] [(NUND, two63)].
Definition rx_hist : list op :=
  [OpBegin (ex_t 5); OpEnd [[MUpdParams GOV_MACC (UWrk rx_rp)]]; OpCommit; OpCheck rx_tx].

Lemma rx_hist_wf_ok : hist_wf (node_init (ex_g_of two64)) rx_hist.
Proof.
  let n := eval vm_compute in (node_init (ex_g_of two64)) in change (node_init (ex_g_of two64)) with n.
  let h := eval vm_compute in rx_hist in change rx_hist with h.
  gx_hist_wf.
Qed.

Example gen_node_run_eq_without_fees_fit_refuted :
  gen_inv 1 (ex_g_of two64) /\ hist_wf (node_init (ex_g_of two64)) rx_hist /\ 1 + hist_size rx_hist < two63 /\
  upd_valid (UWrk rx_rp) = true /\ upd_range (UWrk rx_rp) /\ ~ upd_fit (UWrk rx_rp) /\
  go_node_run (node_init (ex_g_of two64)) rx_hist <> node_run (node_init (ex_g_of two64)) rx_hist /\
  option_map snd (go_node_trace (node_init (ex_g_of two64)) rx_hist) = Some [None; None; None; Some (TxPanicked 1 PANIC_NEGFEE)] /\
  option_map snd (AppCrashProofs.node_trace (node_init (ex_g_of two64)) rx_hist) = Some [None; None; None; Some TxOk].
Proof.
  split; [apply ex_g_of_gen_inv; unfold two64; lia|]. split; [exact rx_hist_wf_ok|].
  split; [vm_compute; reflexivity|]. split; [reflexivity|].
  split; [unfold upd_range, reg_params_range, rx_rp, two63; cbn; lia|].
  split; [unfold upd_fit, fees_fit, rx_rp, two63; cbn; lia|].
  split; [vm_compute; intros X; discriminate X|]. split; vm_compute; reflexivity.
Qed.

(* (c) [gmsg_ok]: a WRKChain record with six hashes (the Go message has five fields; the model's record keeps the list) *)
Definition six_tx := ex_tx [MWrk (RRecord 1 1 5 ["a"; "b"; "c"; "d"; "e"; "f"])] [(NUND, 1)].
Definition six_hist : list op := [OpBegin (ex_t 5); OpDeliver ex_tx_register; OpDeliver six_tx].

Lemma six_hist_wf_ok : hist_wf (node_init ex_g) six_hist.
Proof.
  let n := eval vm_compute in (node_init ex_g) in change (node_init ex_g) with n.
  let h := eval vm_compute in six_hist in change six_hist with h.
  gx_hist_wf.
Qed.

Example gen_node_run_eq_without_five_hashes_refuted :
  gen_inv 1 ex_g /\ hist_wf (node_init ex_g) six_hist /\ 1 + hist_size six_hist < two63 /\
  go_node_run (node_init ex_g) six_hist <> node_run (node_init ex_g) six_hist.
Proof.
  split; [exact ex_g_gen_inv|]. split; [exact six_hist_wf_ok|]. split; [vm_compute; reflexivity|].
  vm_compute. intros X; discriminate X.
Qed.

(* (d) the bound on the counters: from a registry whose next id is 2^64 - 1 the second registration gets id 2^64 in the
   model and id 0 in uint64 *)
Definition big_g : app :=
  with_wrk ex_g {| r_params := ex_rp; r_next := two64 - 1; r_regs := []; r_limits := []; r_recs := [] |}.
Definition big_hist : list op := [OpBegin (ex_t 5); OpDeliver ex_tx_register; OpDeliver ex_tx_register].

Example gen_node_run_eq_without_counter_bound_refuted :
  (forall B, gen_inv B big_g -> two64 - 1 <= B) /\
  go_node_run (node_init big_g) big_hist <> node_run (node_init big_g) big_hist.
Proof.
  split.
  - intros B [_ E]. destruct (gx_wrk_b B big_g E) as (H & _).
    change (r_next (a_wrk big_g)) with (two64 - 1) in H. lia.
  - vm_compute. intros X; discriminate X.
Qed.

Print Assumptions gen_app_validate_basic_eq.
Print Assumptions gen_app_exec_msg_eq.
Print Assumptions gen_inv_exec_msg.
Print Assumptions gen_app_ante_eq.
Print Assumptions gen_app_exec_all_eq.
Print Assumptions gen_app_deliver_tx_eq.
Print Assumptions gen_inv_deliver_tx.
Print Assumptions gen_app_check_tx_eq.
Print Assumptions gen_inv_check_tx.
Print Assumptions gen_app_begin_block_eq.
Print Assumptions gen_inv_begin_block.
Print Assumptions gen_app_end_block_eq.
Print Assumptions gen_inv_end_block.
Print Assumptions gen_node_step_eq.
Print Assumptions gnode_inv_step.
Print Assumptions gen_node_run_eq.
Print Assumptions gen_node_run_eq_from.
Print Assumptions gnode_inv_run.
Print Assumptions gen_node_trace_eq.
Print Assumptions gen_node_run_eq_ex.
Print Assumptions gx_hist_results.
Print Assumptions gen_node_trace_eq_ex_computed.
Print Assumptions gen_checkFees_panic_code_refuted.
Print Assumptions gen_node_run_eq_without_fees_fit_refuted.
Print Assumptions gen_node_run_eq_without_five_hashes_refuted.
Print Assumptions gen_node_run_eq_without_counter_bound_refuted.
