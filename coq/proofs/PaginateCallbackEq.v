(* The callback-driven FilteredPaginate (model/PaginateCallback.v) driven by a "filter-append" callback
   IS the hand-written model (model/Paginate.v) with the callback's filter: same outcome (error and
   panic included), same NextKey, same Total, and the callback's captured slice is the slice it had at
   the call followed by the values of the model's page.  Hence the C20 theorems (proofs/PaginateProofs.v)
   hold of the pages a handler produces with such a callback. *)
From MC Require Import lib.Prelude model.Paginate model.PaginateCallback proofs.PaginateProofs.
From Coq Require Import NArith Sorted.
Local Open Scope N_scope.
Local Notation length := List.length.

(* the callback appends the item iff it matches and accumulate is set, and reports whether it matches *)
Definition filter_append_cb {V} (cb : V -> bool -> list V -> outcome (list V * bool)) (flt : V -> bool) : Prop :=
  forall v acc xs, cb v acc xs = Ok (if flt v && acc then xs ++ [v] else xs, flt v).

(* the model's filter for a callback that only looks at the value *)
Definition vflt {V} (flt : V -> bool) : N -> V -> bool := fun _ v => flt v.

Lemma map_snd_filter : forall {V} (flt : V -> bool) (l : list (N * V)),
  map snd (filter (fun kv => vflt flt (fst kv) (snd kv)) l) = filter flt (map snd l).
Proof.
  induction l as [|x l IH]; simpl; [reflexivity|].
  unfold vflt at 1. destruct (flt (snd x)); simpl; rewrite IH; reflexivity.
Qed.

Section FilterAppend.
  Context {V : Type} (cb : V -> bool -> list V -> outcome (list V * bool)) (flt : V -> bool).
  Hypothesis Hcb : filter_append_cb cb flt.

  Lemma key_loop_cb_eq : forall limit seq n st,
    key_loop_cb cb limit seq n st =
    Ok (st ++ map snd (fst (key_loop (vflt flt) limit seq n)), snd (key_loop (vflt flt) limit seq n)).
  Proof.
    induction seq as [|x rest IH]; intros n st; simpl.
    - rewrite app_nil_r. reflexivity.
    - destruct (n =? limit); simpl.
      + rewrite app_nil_r. reflexivity.
      + rewrite Hcb. unfold hit. change (vflt flt (fst x) (snd x)) with (flt (snd x)). simpl.
        destruct (flt (snd x)); simpl.
        * rewrite IH. destruct (key_loop (vflt flt) limit rest (u64 (n + 1))) as [its nk]. simpl.
          rewrite <- app_assoc. reflexivity.
        * apply IH.
  Qed.

  Lemma offset_loop_cb_eq : forall offset end_ end1 ct seq n nk st,
    offset_loop_cb cb offset end_ end1 ct seq n nk st =
    let r := offset_loop (vflt flt) offset end_ end1 ct seq n nk in
    Ok (st ++ map snd (fst (fst r)), snd (fst r), snd r).
  Proof.
    induction seq as [|x rest IH]; intros n nk st; simpl.
    - rewrite app_nil_r. reflexivity.
    - rewrite Hcb. unfold hit. change (vflt flt (fst x) (snd x)) with (flt (snd x)). simpl.
      destruct (flt (snd x)); simpl.
      + destruct ((u64 (n + 1) =? end1) && negb ct); simpl.
        * destruct ((offset <=? n) && (n <? end_)); simpl; [|rewrite app_nil_r]; reflexivity.
        * rewrite IH. simpl.
          destruct (offset_loop (vflt flt) offset end_ end1 ct rest (u64 (n + 1))
                      (if u64 (n + 1) =? end1 then match nk with Some _ => nk | None => Some (fst x) end else nk))
            as [[its nk'] n']. simpl.
          destruct ((offset <=? n) && (n <? end_)); simpl; [rewrite <- app_assoc|]; reflexivity.
      + destruct ((n =? end1) && negb ct); simpl.
        * rewrite app_nil_r. reflexivity.
        * rewrite IH. simpl.
          destruct (offset_loop (vflt flt) offset end_ end1 ct rest n
                      (if n =? end1 then match nk with Some _ => nk | None => Some (fst x) end else nk))
            as [[its nk'] n']. reflexivity.
  Qed.

  (* KEY LEMMA: the SDK loop driven by a filter-append callback = the hand-written model with the
     callback's filter; [st0] is the callback's captured slice at the call *)
  Theorem filtered_paginate_cb_eq_from : forall items req st0,
    filtered_paginate_cb items cb req st0 =
    omap (fun r => {| cres_state := st0 ++ map snd (res_items r);
                      cres_next_key := res_next_key r;
                      cres_total := res_total r |})
         (filtered_paginate items (vflt flt) req).
  Proof.
    intros items req st0. unfold filtered_paginate_cb, filtered_paginate.
    destruct ((0 <? pr_offset req) && match pr_key req with KeyNil => false | _ => true end); [reflexivity|].
    destruct (pr_key req) as [| |k].
    - destruct (iter_seq items None (pr_reverse req)) as [seq|c|c]; simpl; try reflexivity.
      rewrite offset_loop_cb_eq. simpl.
      destruct (offset_loop (vflt flt) (pr_offset req) (u64 (pr_offset req + eff_limit req))
                  (u64 (u64 (pr_offset req + eff_limit req) + 1)) (eff_count_total req) seq 0 None) as [[its nk] n].
      reflexivity.
    - destruct (iter_seq items None (pr_reverse req)) as [seq|c|c]; simpl; try reflexivity.
      rewrite offset_loop_cb_eq. simpl.
      destruct (offset_loop (vflt flt) (pr_offset req) (u64 (pr_offset req + eff_limit req))
                  (u64 (u64 (pr_offset req + eff_limit req) + 1)) (eff_count_total req) seq 0 None) as [[its nk] n].
      reflexivity.
    - destruct (iter_seq items (Some k) (pr_reverse req)) as [seq|c|c]; simpl; try reflexivity.
      rewrite key_loop_cb_eq. simpl.
      destruct (key_loop (vflt flt) (eff_limit req) seq 0) as [its nk]. reflexivity.
  Qed.

  (* started from the nil slice, as the handlers do *)
  Theorem list_query_cb_eq : forall items req,
    list_query_cb items cb req = omap page_of_model (filtered_paginate items (vflt flt) req).
  Proof. intros. unfold list_query_cb. rewrite filtered_paginate_cb_eq_from. reflexivity. Qed.

  Corollary list_query_cb_ok : forall items req r,
    list_query_cb items cb req = Ok r <->
    exists r0, filtered_paginate items (vflt flt) req = Ok r0 /\ r = page_of_model r0.
  Proof.
    intros. rewrite list_query_cb_eq.
    destruct (filtered_paginate items (vflt flt) req) as [r0|c|c]; simpl; split.
    - intros H. inversion H. eauto.
    - intros [r1 [H1 H2]]. inversion H1. subst. reflexivity.
    - discriminate.
    - intros [r1 [H1 _]]. discriminate.
    - discriminate.
    - intros [r1 [H1 _]]. discriminate.
  Qed.

  (* ---- clients paging to the end ---- *)
  Lemma follow_keys_cb_eq : forall fuel items limit rv key,
    follow_keys_cb fuel items cb limit rv key = map snd (follow_keys fuel items (vflt flt) limit rv key).
  Proof.
    induction fuel as [|f IH]; intros; simpl; [reflexivity|].
    rewrite list_query_cb_eq.
    destruct (filtered_paginate items (vflt flt) _) as [r|c|c]; simpl; try reflexivity.
    rewrite map_app. destruct (res_next_key r); simpl; [rewrite IH|]; reflexivity.
  Qed.

  Lemma follow_offsets_cb_eq : forall fuel items limit rv off,
    follow_offsets_cb fuel items cb limit rv off = map snd (follow_offsets fuel items (vflt flt) limit rv off).
  Proof.
    induction fuel as [|f IH]; intros; simpl; [reflexivity|].
    rewrite list_query_cb_eq.
    destruct (filtered_paginate items (vflt flt) _) as [r|c|c]; simpl; try reflexivity.
    rewrite map_app. destruct (res_next_key r); simpl; [rewrite IH|]; reflexivity.
  Qed.

  (* ---- C20, for pages produced with the callback ---- *)
  Theorem cb_key_pages_partition : forall (items : list (N * V)) (limit : N) (fuel : nat),
    Sorted N.lt (map fst items) ->
    1 <= limit -> limit + 1 < two64N -> N.of_nat (length items) < two64N ->
    (length items + 1 <= fuel)%nat ->
    all_pages_by_key_cb fuel items cb limit = filter flt (map snd items).
  Proof.
    intros. unfold all_pages_by_key_cb. rewrite follow_keys_cb_eq.
    fold (all_pages_by_key fuel items (vflt flt) limit).
    rewrite key_pages_partition by assumption. apply map_snd_filter.
  Qed.

  Theorem cb_offset_pages_partition : forall (items : list (N * V)) (limit : N) (fuel : nat),
    1 <= limit -> N.of_nat (length items) + limit + 1 < two64N ->
    (length items + 1 <= fuel)%nat ->
    all_pages_by_offset_cb fuel items cb limit = filter flt (map snd items).
  Proof.
    intros. unfold all_pages_by_offset_cb. rewrite follow_offsets_cb_eq.
    fold (all_pages_by_offset fuel items (vflt flt) limit).
    rewrite offset_pages_partition by assumption. apply map_snd_filter.
  Qed.

  Theorem cb_key_pages_partition_rev : forall (items : list (N * V)) (limit : N) (fuel : nat),
    Sorted N.lt (map fst items) ->
    1 <= limit -> limit + 1 < two64N -> N.of_nat (length items) < two64N ->
    (length items + 1 <= fuel)%nat ->
    all_pages_by_key_rev_cb fuel items cb limit = rev (filter flt (map snd items)).
  Proof.
    intros. unfold all_pages_by_key_rev_cb. rewrite follow_keys_cb_eq.
    fold (all_pages_by_key_rev fuel items (vflt flt) limit).
    rewrite key_pages_partition_rev by assumption. rewrite map_rev, map_snd_filter. reflexivity.
  Qed.

  Theorem cb_offset_pages_partition_rev : forall (items : list (N * V)) (limit : N) (fuel : nat),
    1 <= limit -> N.of_nat (length items) + limit + 1 < two64N ->
    (length items + 1 <= fuel)%nat ->
    all_pages_by_offset_rev_cb fuel items cb limit = rev (filter flt (map snd items)).
  Proof.
    intros. unfold all_pages_by_offset_rev_cb. rewrite follow_offsets_cb_eq.
    fold (all_pages_by_offset_rev fuel items (vflt flt) limit).
    rewrite offset_pages_partition_rev by assumption. rewrite map_rev, map_snd_filter. reflexivity.
  Qed.

  (* a single page: the returned slice is the values of a duplicate-free list of stored entries that
     match the filter (the values themselves need not differ unless the store's values do), no longer
     than the effective limit *)
  Theorem cb_single_page_sound : forall (items : list (N * V)) (req : page_req) (r : page_res_cb (list V)),
    Sorted N.lt (map fst items) ->
    list_query_cb items cb req = Ok r ->
    exists its : list (N * V),
      cres_state r = map snd its /\
      (forall x, In x its -> In x items /\ flt (snd x) = true) /\
      NoDup its /\
      (pr_offset req < two64N -> pr_limit req < two64N -> N.of_nat (length items) < two64N ->
       (length (cres_state r) <= N.to_nat (eff_limit req))%nat).
  Proof.
    intros items req r Hs H. apply list_query_cb_ok in H. destruct H as [r0 [H0 ->]].
    destruct (single_page_sound items (vflt flt) req r0 Hs H0) as [Ha [Hb Hc]].
    exists (res_items r0). simpl. repeat split; try assumption.
    - apply Ha; assumption.
    - apply (Ha x); assumption.
    - intros. rewrite map_length. apply Hc; assumption.
  Qed.

  Corollary cb_single_page_values : forall (items : list (N * V)) (req : page_req) (r : page_res_cb (list V)),
    Sorted N.lt (map fst items) ->
    list_query_cb items cb req = Ok r ->
    forall v, In v (cres_state r) -> In v (map snd items) /\ flt v = true.
  Proof.
    intros items req r Hs H v Hv.
    destruct (cb_single_page_sound items req r Hs H) as [its [E [Ha _]]].
    rewrite E in Hv. apply in_map_iff in Hv. destruct Hv as [x [<- Hx]].
    destruct (Ha x Hx). split; [apply in_map|]; assumption.
  Qed.

  Theorem cb_total_count : forall (items : list (N * V)) (req : page_req) (r : page_res_cb (list V)),
    (match pr_key req with KeyAt _ => False | _ => True end) ->
    (pr_count_total req = true \/ pr_limit req = 0) ->
    N.of_nat (length items) < two64N ->
    list_query_cb items cb req = Ok r ->
    cres_total r = N.of_nat (length (filter flt (map snd items))).
  Proof.
    intros items req r Hk Hc Hl H. apply list_query_cb_ok in H. destruct H as [r0 [H0 ->]].
    simpl. rewrite (total_count items (vflt flt) req r0 Hk Hc Hl H0).
    rewrite <- map_snd_filter, map_length. reflexivity.
  Qed.
End FilterAppend.

(* a callback that fails aborts the query with its error as soon as it is called: with a non-empty
   iteration and limit >= 1 (numHits = 0 <> limit at the first item) the first call is always made *)
Lemma offset_loop_cb_err : forall {V S} (cb : V -> bool -> S -> outcome (S * bool)) c,
  (forall v acc st, cb v acc st = Err c) ->
  forall offset end_ end1 ct x rest n nk st,
    offset_loop_cb cb offset end_ end1 ct (x :: rest) n nk st = Err c.
Proof. intros. simpl. rewrite H. reflexivity. Qed.

Lemma key_loop_cb_err : forall {V S} (cb : V -> bool -> S -> outcome (S * bool)) c,
  (forall v acc st, cb v acc st = Err c) ->
  forall limit x rest n st, n <> limit ->
    key_loop_cb cb limit (x :: rest) n st = Err c.
Proof. intros. simpl. apply N.eqb_neq in H0. rewrite H0, H. reflexivity. Qed.
