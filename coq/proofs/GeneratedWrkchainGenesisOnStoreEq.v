(* C15 on BYTES, x/wrkchain: InitGenesis / ExportGenesis of /repo/x/wrkchain/genesis.go rendered over the BYTE-LEVEL store
   (GeneratedWrkchainKeeperOnStore.v: S.go_InitGenesis, S.go_ExportGenesis, through the generated store accessors of
   GeneratedWrkchainStore.v and the adapters os_reg_* of model/WrkchainStoreWorld.v) against the rendering over the
   hand-written primitives (GeneratedWrkchainKeeper.v: K.go_InitGenesis, K.go_ExportGenesis), about which
   proofs/GeneratedWrkchainGenesisEq.v proves the round trips against the model of model/Genesis.v.

   part 1  the two listing adapters of the export: os_reg_GetRecordsForExport (a reverse iteration that counts, stops after
           EXPORT_CAP = 20000 entries and prepends) and os_reg_GetAllEntities agree with their primitives on related worlds;
   part 2  S.go_ExportGenesis = K.go_ExportGenesis on related worlds: the SAME document;
   part 3  S.go_InitGenesis: its closed form on every store and every document; simulation of K.go_InitGenesis from
           related worlds; the EMPTY store [] against a fresh abstract state;
   part 4  the byte-level round trip: export, import into [], Rreg again - and s' = s under the export cap; over the cap
           the stores differ;
   part 5  export -> import -> export: the same document, on bytes;
   part 6  the registrations of reachable states are listed in ascending id order (the hypothesis of parts 1 / 2 / 4 / 5);
   part 7  a concrete run. *)
From Coq Require Import ZifyBool.
From MC Require Import lib.Prelude lib.AMap lib.GoSdk GeneratedWrkchainTypes model.Bank model.Registry model.RegistrySpec
  model.Genesis model.Keys model.KeyPrims model.KVStore model.StoreCodecPrims model.WrkchainKeeperPrims model.WrkchainStoreWorld
  model.WrkchainGenSpec model.WrkchainGenesisGenSpec GeneratedKeys GeneratedWrkchainStore.
From MC Require GeneratedWrkchainKeeper GeneratedWrkchainKeeperOnStore.
From MC Require Import proofs.RegistryProofs proofs.GenesisLib proofs.GenesisProofs proofs.GeneratedWrkchainEq
  proofs.GeneratedWrkchainGenesisEq proofs.GeneratedWrkchainParamsEq proofs.KVStoreFacts proofs.GeneratedWrkchainStoreEq
  proofs.GeneratedWrkchainStoreRefines proofs.GeneratedWrkchainOnStoreEq.
From Coq Require Import NArith ZArith List Bool Lia Sorted Permutation.
Import ListNotations.
Local Open Scope Z_scope.

(* the two renderings, by short names; never imported *)
Module K := MC.GeneratedWrkchainKeeper.
Module S := MC.GeneratedWrkchainKeeperOnStore.

(* ================================================================== *)
(* part 1: the listing adapters of the export                           *)
(* ================================================================== *)

(* what the export writes for one stored block *)
Definition exp_block (b : go_WrkChainBlock) : go_WrkChainBlockGenesisExport :=
  mk_go_WrkChainBlockGenesisExport (WrkChainBlock_Height b) (WrkChainBlock_Blockhash b) (WrkChainBlock_Parenthash b)
    (WrkChainBlock_Hash1 b) (WrkChainBlock_Hash2 b) (WrkChainBlock_Hash3 b) (WrkChainBlock_SubTime b).

(* the callback of GetAllWrkChainBlockHashesForGenesisExport, visiting a descending listing: with [c] entries already
   taken (c below the cap) it takes the next EXPORT_CAP - c entries at most, prepending each *)
Lemma export_visit (F : go_WrkChainBlock -> go_WrkChainBlockGenesisExport) (r : list go_WrkChainBlock) :
  forall c acc, 0 <= c < EXPORT_CAP ->
  exists c',
    visit (fun '(count, blocks) (wcb : go_WrkChainBlock) =>
             Ok ((u64_add count 1, store_prepend blocks (F wcb)), (u64_add count 1 =? store_const_MaxBlockSubmissionsKeepInState)))
          r (c, acc)
    = Ok (c', rev (map F (firstn (Z.to_nat (EXPORT_CAP - c)) r)) ++ acc).
Proof.
  induction r as [|x r IH]; intros c acc Hc.
  - exists c. cbn [visit]. rewrite firstn_nil. reflexivity.
  - cbn [visit obind snd fst].
    assert (E1 : u64_add c 1 = c + 1).
    { unfold u64_add, wrap64. apply Z.mod_small. unfold EXPORT_CAP, two64 in *. lia. }
    rewrite E1. unfold store_const_MaxBlockSubmissionsKeepInState in *.
    assert (En : Z.to_nat (EXPORT_CAP - c) = Datatypes.S (Z.to_nat (EXPORT_CAP - (c + 1)))) by (unfold EXPORT_CAP in *; lia).
    rewrite En. cbn [firstn map rev]. destruct (Z.eqb_spec (c + 1) 20000) as [E|NE].
    + exists (c + 1). replace (Z.to_nat (EXPORT_CAP - (c + 1))) with 0%nat by (unfold EXPORT_CAP; lia).
      cbn [firstn map rev List.app]. reflexivity.
    + destruct (IH (c + 1) (store_prepend acc (F x))) as [c' E]; [unfold EXPORT_CAP in *; lia|].
      exists c'. rewrite E. unfold store_prepend. rewrite <- app_assoc. reflexivity.
Qed.

Lemma rev_firstn_rev_newest {A} (l : list A) : rev (firstn (Z.to_nat EXPORT_CAP) (rev l)) = newest EXPORT_CAP l.
Proof.
  rewrite firstn_rev, rev_involutive. unfold newest. f_equal. unfold EXPORT_CAP. lia.
Qed.

(* GetAllWrkChainBlockHashesForGenesisExport: the newest EXPORT_CAP blocks of the ascending listing, ascending *)
Theorem ForGenesisExport_listing (s : okv wrkchain_val) w id : Rreg s (rw_reg w) -> u64 id ->
  go_st_GetAllWrkChainBlockHashesForGenesisExport s id =
    Ok (map exp_block (newest EXPORT_CAP (map (fun kr => rec_to_go (snd kr)) (sort_by_key (records_of id (r_recs (rw_reg w))))))).
Proof.
  intros R Hi. destruct (GetAllRecords_refines s w id R Hi) as (_ & _ & Hrev & _). cbv zeta in Hrev.
  unfold go_st_GetAllWrkChainBlockHashesForGenesisExport. cbv zeta. rewrite Hrev.
  set (l := map (fun kr => rec_to_go (snd kr)) (sort_by_key (records_of id (r_recs (rw_reg w))))).
  destruct (export_visit exp_block (rev l) 0 [] ltac:(unfold EXPORT_CAP; lia)) as [c' E].
  unfold exp_block in E at 1.
  match goal with |- obind ?v _ = _ => replace v with (@Ok (Z * list go_WrkChainBlockGenesisExport)
      (c', rev (map exp_block (firstn (Z.to_nat (EXPORT_CAP - 0)) (rev l))) ++ [])) end; try (rewrite <- E; reflexivity).
  cbn [obind]. rewrite app_nil_r, Z.sub_0_r, <- map_rev, rev_firstn_rev_newest. reflexivity.
Qed.

(* ... which is the primitive reg_GetRecordsForExport *)
Theorem ForGenesisExport_refines (s : okv wrkchain_val) w id : Rreg s (rw_reg w) -> u64 id ->
  go_st_GetAllWrkChainBlockHashesForGenesisExport s id = Ok (reg_GetRecordsForExport w id).
Proof.
  intros R Hi. rewrite (ForGenesisExport_listing s w id R Hi). f_equal.
  destruct (GetAllRecords_refines s w id R Hi) as (Hall & _). cbv zeta in Hall.
  exact (GetRecordsForExport_refines s w id _ R Hi Hall).
Qed.

(* the adapters *)
Theorem prim_GetRecordsForExport w ws id : Rw w ws -> u64 id ->
  os_reg_GetRecordsForExport ws id = Ok (reg_GetRecordsForExport w id).
Proof. intros (_ & _ & HR) Hi. exact (ForGenesisExport_refines _ w id HR Hi). Qed.

(* the registrations in ascending id order: what the model's association list is in every reachable state (part 6) *)
Definition regs_ascending (st : reg_state) : Prop := StronglySorted Z.lt (akeys (r_regs st)).

Theorem prim_GetAllEntities w ws : Rw w ws -> regs_ascending (rw_reg w) ->
  os_reg_GetAllEntities ws = Ok (reg_GetAllEntities w).
Proof. intros (_ & _ & HR) HS. exact (proj1 (GetAllEntities_refines_sorted _ w HR HS)). Qed.

(* without the order: the same registrations, sorted by id *)
Theorem prim_GetAllEntities_perm w ws : Rw w ws ->
  exists l, os_reg_GetAllEntities ws = Ok l /\ Permutation l (reg_GetAllEntities w) /\
            StronglySorted (fun a b => WrkChain_WrkchainId a < WrkChain_WrkchainId b) l.
Proof.
  intros (_ & _ & HR). destruct (GetAllEntities_refines _ w HR) as (H1 & _ & H3 & H4). cbv zeta in *.
  eexists. split; [exact H1 | split; [exact H3 | exact H4]].
Qed.

(* ================================================================== *)
(* part 2: ExportGenesis - the same document                            *)
(* ================================================================== *)

Lemma go_range_ext_in {A St R} (f g : A -> St -> outcome (loop_res St R)) l :
  (forall x s, In x l -> f x s = g x s) -> forall s, go_range f l s = go_range g l s.
Proof.
  induction l as [|x l IH]; intros E s; [reflexivity|].
  rewrite !go_range_cons, (E x s) by (left; reflexivity).
  destruct (g x s) as [[s'|v]| |]; cbn [obind]; [apply IH; intros y s0 Hin; apply E; right; exact Hin | reflexivity ..].
Qed.

(* the ids the listing of the registrations returns are uint64 *)
Lemma entities_u64 w ws wc : Rw w ws -> In wc (reg_GetAllEntities w) -> u64 (WrkChain_WrkchainId wc).
Proof.
  intros (_ & _ & HR) Hin. unfold reg_GetAllEntities in Hin. apply in_map_iff in Hin. destruct Hin as [[id rg] [<- Hin]].
  destruct (R_regs_wf _ _ HR) as [_ W]. destruct (W _ _ Hin) as [Hu E]. cbn [snd to_go_entity WrkChain_WrkchainId].
  rewrite E. exact Hu.
Qed.

(* the export loop: the two bodies agree on every listed WRKChain, whatever the bodies are called *)
Theorem os_ExportGenesis_eq w ws : Rw w ws -> regs_ascending (rw_reg w) ->
  S.go_ExportGenesis ws = K.go_ExportGenesis w.
Proof.
  intros HR HS. unfold S.go_ExportGenesis, K.go_ExportGenesis.
  rewrite (prim_GetParams w ws HR), (prim_GetHighestID w ws HR), (prim_GetAllEntities w ws HR HS).
  cbv zeta. cbn [obind].
  destruct (drop_err 0 (reg_GetHighestID w)) as [n|e|p]; cbn [obind]; try reflexivity.
  destruct (go_len_list (reg_GetAllEntities w) =? 0); [reflexivity|].
  match goal with
  | |- obind (go_range ?f ?l ?s) _ = obind (go_range ?g _ _) _ => rewrite (go_range_ext_in f g l); [reflexivity|]
  end.
  intros wc recs Hin. pose proof (entities_u64 w ws wc HR Hin) as Hu. cbv beta zeta.
  rewrite (prim_GetRecordsForExport w ws _ HR Hu), (prim_GetStorageLimit w ws _ HR Hu). cbn [obind].
  reflexivity.
Qed.

(* hence: the on-store export of a store representing [w] is the document of proofs/GeneratedWrkchainGenesisEq.v *)
Corollary os_ExportGenesis_run w ws : Rw w ws -> regs_ascending (rw_reg w) ->
  S.go_ExportGenesis ws =
    Ok (mk_go_GenesisState (params_to_go (r_params (rw_reg w))) (r_next (rw_reg w))
          (map (go_export_entry w) (reg_GetAllEntities w))).
Proof. intros HR HS. rewrite (os_ExportGenesis_eq w ws HR HS). apply gen_wrk_ExportGenesis_run. Qed.

(* ... and the model's: the five-hashes / own-key conditions of the model-level theorem are part of Rreg *)
Lemma Rreg_exportable s st : Rreg s st -> wrk_recs_exportable st.
Proof.
  intros R kv _ k rc Hin. destruct (R_recs_wf _ _ R) as [_ W]. destruct (W _ _ _ Hin) as (_ & _ & Ek & a & b & c & d & e & E5).
  split; [exact Ek | rewrite E5; reflexivity].
Qed.

Corollary os_ExportGenesis_model w ws : Rw w ws -> regs_ascending (rw_reg w) ->
  exists d, S.go_ExportGenesis ws = Ok d /\ gen_of_go d = export_reg (rw_reg w).
Proof.
  intros HR HS. rewrite (os_ExportGenesis_eq w ws HR HS). apply gen_wrk_ExportGenesis_eq.
  destruct HR as (_ & _ & R). exact (Rreg_exportable _ _ R).
Qed.

(* without the order the listing of the byte store is the sorted one: the documents list the same entries, the byte
   store's in ascending id order *)
Theorem os_ExportGenesis_sorted_refuted :
  exists w ws, Rw w ws /\ S.go_ExportGenesis ws <> K.go_ExportGenesis w.
Proof.
  exists demo_w1, (mk_wsworld 0 0 demo_s1). split.
  - split; [reflexivity | split; [reflexivity | exact (proj2 (proj2 demo_R1))]].
  - vm_compute. intros E. discriminate E.
Qed.

(* ================================================================== *)
(* part 3: InitGenesis                                                  *)
(* ================================================================== *)

#[local] Arguments go_range : simpl never.
#[local] Arguments okv_set : simpl never.
#[local] Arguments imp_rec : simpl never.
#[local] Arguments imp_entry : simpl never.
#[local] Arguments reg_params_valid : simpl never.
#[local] Arguments aset : simpl never.

(* ---- what the byte store becomes: the closed form ---- *)

(* the WRKChain InitGenesis stores: the document's, field by field *)
Definition wc_eta (x : go_WrkChain) : go_WrkChain :=
  mk_go_WrkChain (WrkChain_WrkchainId x) (WrkChain_Moniker x) (WrkChain_Name x) (WrkChain_Genesis x) (WrkChain_Type x)
    (WrkChain_Lastblock x) (WrkChain_NumBlocks x) (WrkChain_LowestHeight x) (WrkChain_RegTime x) (WrkChain_Owner x).
Lemma wc_eta_eq x : wc_eta x = x.
Proof. destruct x; reflexivity. Qed.

(* the block InitGenesis stores for an exported block *)
Definition blk_of (b : go_WrkChainBlockGenesisExport) : go_WrkChainBlock :=
  mk_go_WrkChainBlock (WrkChainBlockGenesisExport_He b) (WrkChainBlockGenesisExport_Bh b) (WrkChainBlockGenesisExport_Ph b)
    (WrkChainBlockGenesisExport_H1 b) (WrkChainBlockGenesisExport_H2 b) (WrkChainBlockGenesisExport_H3 b)
    (WrkChainBlockGenesisExport_St b).

(* one iteration of the inner / outer loop, on bytes *)
Definition s_imp_rec (id : Z) (b : go_WrkChainBlockGenesisExport) (s : store) : store :=
  okv_set s (kRec id (WrkChainBlockGenesisExport_He b)) (WV_WrkChainBlock (blk_of b)).
Definition s_imp_entry (e : go_WrkChainExport) (s : store) : store :=
  let id := WrkChain_WrkchainId (WrkChainExport_Wrkchain e) in
  fold_left (fun s b => s_imp_rec id b s) (WrkChainExport_Blocks e)
    (okv_set (okv_set s (kReg id) (WV_WrkChain (wc_eta (WrkChainExport_Wrkchain e))))
       (kLim id) (v_lim id (WrkChainExport_InStateLimit e))).
(* the whole of InitGenesis on any store: the Params cell is written only when Params.Validate accepts *)
Definition s_import_onto (valid : bool) (d : go_GenesisState) (s : store) : store :=
  fold_left (fun s e => s_imp_entry e s) (GenesisState_RegisteredWrkchains d)
    (okv_set (if valid then okv_set s kparams (WV_Params (GenesisState_Params d)) else s) khighest
       (WV_bytes (be64 (Z.to_N (GenesisState_StartingWrkchainId d))))).

#[local] Arguments s_imp_rec : simpl never.
#[local] Arguments s_imp_entry : simpl never.

(* the writing adapters: what they return *)
Lemma os_SetParams_eq ws p :
  os_reg_SetParams ws p = do _ <- K.go_Params_Validate p; Ok (with_wstore ws (okv_set (wsw_store ws) kparams (WV_Params p)), tt).
Proof.
  unfold os_reg_SetParams. rewrite SetParams_spec. destruct (K.go_Params_Validate p) as [[]|e|c]; reflexivity.
Qed.
Lemma os_SetHighestID_eq ws v :
  os_reg_SetHighestID ws v = Ok (with_wstore ws (okv_set (wsw_store ws) khighest (WV_bytes (be64 (Z.to_N v)))), tt).
Proof. unfold os_reg_SetHighestID. rewrite SetHighest_spec. reflexivity. Qed.
Lemma os_SetEntity_eq ws g :
  os_reg_SetEntity ws g = Ok (with_wstore ws (okv_set (wsw_store ws) (kReg (WrkChain_WrkchainId g)) (WV_WrkChain g)), tt).
Proof. unfold os_reg_SetEntity. rewrite SetWrkChain_spec. reflexivity. Qed.
Lemma os_SetStorageLimit_eq ws id l :
  os_reg_SetStorageLimit ws id l = Ok (with_wstore ws (okv_set (wsw_store ws) (kLim id) (v_lim id l)), tt).
Proof. unfold os_reg_SetStorageLimit. rewrite SetLimit_spec. reflexivity. Qed.
Lemma os_SetRecord_eq ws id b :
  os_reg_SetRecord ws id b =
    Ok (with_wstore ws (okv_set (wsw_store ws) (kRec id (WrkChainBlock_Height b)) (WV_WrkChainBlock b)), tt).
Proof. unfold os_reg_SetRecord. rewrite SetBlock_spec. reflexivity. Qed.

Lemma with_wstore_same ws : with_wstore ws (wsw_store ws) = ws.
Proof. destruct ws; reflexivity. Qed.

(* every iteration continues with a world that differs from the previous one by a function of the byte store *)
Lemma go_range_wstore {A R} (body : A -> wsworld -> outcome (loop_res wsworld R)) (f : A -> store -> store) :
  (forall x ws, body x ws = Ok (LCont (with_wstore ws (f x (wsw_store ws))))) ->
  forall l ws, go_range body l ws = Ok (LCont (with_wstore ws (fold_left (fun s y => f y s) l (wsw_store ws)))).
Proof.
  intros E l. induction l as [|x l IH]; intros ws.
  - rewrite go_range_nil. cbn [fold_left]. rewrite with_wstore_same. reflexivity.
  - rewrite go_range_cons, E. cbn [obind fold_left]. rewrite IH. reflexivity.
Qed.

(* the loops of InitGenesis, whatever their bodies are called *)
Ltac jprims :=
  first [ rewrite os_SetHighestID_eq | rewrite os_SetEntity_eq | rewrite os_SetStorageLimit_eq | rewrite os_SetRecord_eq ].
Ltac jloop := fail.
Ltac jstep := first [ jprims | progress cbv beta zeta | progress cbn [obind panic_on_err ignore_err] | jloop ].
Ltac jwalk := repeat jstep.
Ltac jloop ::=
  match goal with
  | e : go_WrkChainExport |- context [go_range ?b (WrkChainExport_Blocks ?e') ?w0] =>
      rewrite (go_range_wstore b (s_imp_rec (WrkChain_WrkchainId (WrkChainExport_Wrkchain e'))))
        by (let blk := fresh "blk" in let w' := fresh "w" in intros blk w'; jwalk; reflexivity)
  | |- context [go_range ?b (GenesisState_RegisteredWrkchains ?g) ?w0] =>
      rewrite (go_range_wstore b s_imp_entry)
        by (let e := fresh "e" in let w' := fresh "w" in intros e w'; jwalk; reflexivity)
  end.

(* on every store and every document: never an error; a panic only if Params.Validate panics (it never does) *)
Theorem os_InitGenesis_run_gen ws d :
  S.go_InitGenesis ws d =
    match K.go_Params_Validate (GenesisState_Params d) with
    | Ok _ => Ok (with_wstore ws (s_import_onto true d (wsw_store ws)), tt)
    | Err _ => Ok (with_wstore ws (s_import_onto false d (wsw_store ws)), tt)
    | Panic c => Panic c
    end.
Proof.
  unfold S.go_InitGenesis, s_import_onto. rewrite os_SetParams_eq.
  destruct (K.go_Params_Validate (GenesisState_Params d)) as [[]|e|p]; cbn [obind ignore_err]; [| |reflexivity];
    jwalk; reflexivity.
Qed.

Definition validates (p : go_Params) : bool := match K.go_Params_Validate p with Ok _ => true | _ => false end.

Theorem os_InitGenesis_run ws d :
  S.go_InitGenesis ws d = Ok (with_wstore ws (s_import_onto (validates (GenesisState_Params d)) d (wsw_store ws)), tt).
Proof.
  rewrite os_InitGenesis_run_gen. unfold validates.
  destruct (gen_wrk_Params_Validate_no_panic (GenesisState_Params d) _ eq_refl) as [E|[c E]]; rewrite E; reflexivity.
Qed.

(* ---- the documents covered: the counter, the ids and the heights are what Go's uint64 fields can hold ---- *)
Definition entry_ok (e : go_WrkChainExport) : Prop :=
  u64 (WrkChain_WrkchainId (WrkChainExport_Wrkchain e)) /\
  Forall (fun b => u64 (WrkChainBlockGenesisExport_He b)) (WrkChainExport_Blocks e).
Definition doc_ok (d : go_GenesisState) : Prop :=
  u64 (GenesisState_StartingWrkchainId d) /\ Forall entry_ok (GenesisState_RegisteredWrkchains d).

(* ---- the folds keep the representation relation ---- *)
Lemma imp_recs_sim id l : u64 id -> Forall (fun b => u64 (WrkChainBlockGenesisExport_He b)) l ->
  forall s st, Rreg s st ->
  Rreg (fold_left (fun s b => s_imp_rec id b s) l s)
       (fold_left (fun st kr => imp_rec id kr st) (map WrkchainGenesisGenSpec.rec_of_go l) st).
Proof.
  intros Hi HF. induction HF as [|b l Hb _ IH]; intros s st R; cbn [fold_left map]; [exact R|].
  apply IH. exact (R_set_record s st id (blk_of b) R Hi Hb).
Qed.

Lemma imp_entry_sim e s st : Rreg s st -> entry_ok e -> Rreg (s_imp_entry e s) (imp_entry (entry_of_go e) st).
Proof.
  intros R [Hi HF]. unfold s_imp_entry, imp_entry. cbv zeta. rewrite wc_eta_eq.
  apply (imp_recs_sim _ _ Hi HF).
  exact (R_set_limit _ _ _ (WrkChainExport_InStateLimit e) (R_set_entity s st (WrkChainExport_Wrkchain e) R Hi) Hi).
Qed.

Lemma imp_entries_sim l : Forall entry_ok l -> forall s st, Rreg s st ->
  Rreg (fold_left (fun s e => s_imp_entry e s) l s) (fold_left (fun st e => imp_entry e st) (map entry_of_go l) st).
Proof.
  intros HF. induction HF as [|e l He _ IH]; intros s st R; cbn [fold_left map]; [exact R|].
  apply IH. exact (imp_entry_sim e s st R He).
Qed.

(* the whole import, from related states; [valid] is the verdict of Params.Validate on both sides *)
Lemma import_onto_sim d s st : Rreg s st -> doc_ok d ->
  Rreg (s_import_onto (reg_params_valid (params_of_go (GenesisState_Params d))) d s) (import_onto (gen_of_go d) st).
Proof.
  intros R [Hs HF]. unfold s_import_onto, import_onto, gen_of_go. cbn [gr_params gr_start gr_regs].
  apply (imp_entries_sim _ HF).
  destruct (reg_params_valid (params_of_go (GenesisState_Params d))).
  - exact (R_set_highest _ _ _ (R_set_params s st (GenesisState_Params d) R) Hs).
  - destruct st as [p n rg li rc]. exact (R_set_highest s _ _ R Hs).
Qed.

Lemma validates_eq p : wrk_params_nonneg p -> validates p = reg_params_valid (params_of_go p).
Proof. intros H. unfold validates. rewrite (gen_wrk_Params_Validate_eq p H). destruct (reg_params_valid (params_of_go p)); reflexivity. Qed.

(* ---- simulation from related worlds: both renderings answer Ok, the worlds stay related.  A parameter set that does
   not validate is dropped on both sides (so the code of its error plays no role) ---- *)
Theorem os_InitGenesis_sim0 w ws d : Rw w ws -> doc_ok d -> wrk_params_nonneg (GenesisState_Params d) ->
  sim0 (K.go_InitGenesis w d) (S.go_InitGenesis ws d).
Proof.
  intros (Hn & Hl & R) Hd Hp. rewrite gen_wrk_InitGenesis_run, os_InitGenesis_run, (validates_eq _ Hp).
  split; [|reflexivity]. split; [exact Hn | split; [exact Hl|]].
  exact (import_onto_sim d _ _ R Hd).
Qed.

(* with the invariant the message server needs afterwards (Rwi): the document's heights are >= 1 and its LowestHeights uint64 *)
Definition entry_winv (e : go_WrkChainExport) : Prop :=
  u64 (WrkChain_LowestHeight (WrkChainExport_Wrkchain e)) /\
  Forall (fun b => 1 <= WrkChainBlockGenesisExport_He b) (WrkChainExport_Blocks e).

Lemma imp_recs_winv id l : Forall (fun b => 1 <= WrkChainBlockGenesisExport_He b) l -> forall st, winv st ->
  winv (fold_left (fun st kr => imp_rec id kr st) (map WrkchainGenesisGenSpec.rec_of_go l) st).
Proof.
  intros HF. induction HF as [|b l Hb _ IH]; intros st I; cbn [fold_left map]; [exact I|].
  apply IH. destruct I as [I1 I2]. split; [|exact I2]. unfold imp_rec. cbn [with_regs r_recs].
  intros i h rc Hin. apply aset_In in Hin. destruct Hin as [[E _]|Hin]; [|exact (I1 _ _ _ Hin)].
  injection E as _ ->. exact Hb.
Qed.

Lemma imp_entries_winv l : Forall entry_winv l -> forall st, winv st ->
  winv (fold_left (fun st e => imp_entry e st) (map entry_of_go l) st).
Proof.
  intros HF. induction HF as [|e l [Hl Hb] _ IH]; intros st I; cbn [fold_left map]; [exact I|].
  apply IH. unfold imp_entry. cbv zeta. apply imp_recs_winv; [exact Hb|].
  destruct I as [I1 I2]. split; [exact I1|]. cbn [with_regs r_regs].
  intros id rg Hin. apply aset_In in Hin. destruct Hin as [[_ ->]|Hin]; [exact Hl | exact (I2 _ _ Hin)].
Qed.

Theorem os_InitGenesis_sim w ws d : Rwi w ws -> doc_ok d -> wrk_params_nonneg (GenesisState_Params d) ->
  Forall entry_winv (GenesisState_RegisteredWrkchains d) ->
  sim (K.go_InitGenesis w d) (S.go_InitGenesis ws d).
Proof.
  intros [HR I] Hd Hp Hw. apply sim_of_sim0; [exact (os_InitGenesis_sim0 w ws d HR Hd Hp)|].
  intros w' [] E. rewrite gen_wrk_InitGenesis_run in E. injection E as <-. cbn [rw_reg with_reg].
  unfold import_onto, gen_of_go. cbn [gr_params gr_start gr_regs]. apply (imp_entries_winv _ Hw).
  destruct I as [I1 I2]. split; [exact I1 | exact I2].
Qed.

(* ---- the EMPTY byte store against a fresh abstract state ---- *)

(* both renderings answer Ok on every document; when the parameters validate the resulting byte store represents the
   resulting abstract state, which is the model's import of the document *)
Theorem os_InitGenesis_empty now wall p0 d : doc_ok d -> wrk_params_nonneg (GenesisState_Params d) ->
  reg_params_valid (params_of_go (GenesisState_Params d)) = true ->
  exists s' st',
    S.go_InitGenesis (mk_wsworld now wall []) d = Ok (mk_wsworld now wall s', tt) /\
    K.go_InitGenesis (fresh_world now wall p0) d = Ok (mk_rworld now wall st', tt) /\
    import_reg (gen_of_go d) = Some st' /\
    Rreg s' st'.
Proof.
  intros [Hs HF] Hp V.
  exists (s_import_onto true d []), (import_onto (gen_of_go d) (rw_reg (fresh_world now wall p0))).
  split; [|split; [|split]].
  - rewrite os_InitGenesis_run, (validates_eq _ Hp), V. reflexivity.
  - rewrite gen_wrk_InitGenesis_run. reflexivity.
  - apply (import_onto_fresh (gen_of_go d) p0). exact V.
  - unfold s_import_onto, import_onto, gen_of_go. cbn [gr_params gr_start gr_regs fresh_world rw_reg r_params r_next r_regs r_limits r_recs].
    rewrite V. apply (imp_entries_sim _ HF).
    exact (init_refines (GenesisState_Params d) (GenesisState_StartingWrkchainId d) _ _
             ltac:(rewrite SetParams_spec, (proj2 (gen_wrk_Params_Validate_ok_iff _ Hp) V); reflexivity)
             (SetHighest_spec _ _) Hs).
Qed.

(* every document, valid or not, covered or not: both renderings answer Ok (never Err, never Panic), clocks untouched *)
Theorem os_InitGenesis_total ws w d :
  (exists s', S.go_InitGenesis ws d = Ok (mk_wsworld (wsw_now ws) (wsw_wall ws) s', tt)) /\
  (exists st', K.go_InitGenesis w d = Ok (mk_rworld (rw_now w) (rw_wall w) st', tt)).
Proof.
  split; [rewrite os_InitGenesis_run | rewrite gen_wrk_InitGenesis_run]; eexists; reflexivity.
Qed.

(* parameters that do not validate: both renderings drop them, and the byte store started from [] is left WITHOUT a
   Params cell - it represents no abstract state (GetParams would read the zero parameters); ValidateGenesis refuses
   such a document before InitGenesis runs *)
Example os_InitGenesis_empty_invalid_refuted :
  let d := mk_go_GenesisState (params_to_go exg_bad_params) 4 [] in
  doc_ok d /\ wrk_params_nonneg (GenesisState_Params d) /\
  reg_params_valid (params_of_go (GenesisState_Params d)) = false /\
  exists s', S.go_InitGenesis (mk_wsworld 0 0 []) d = Ok (mk_wsworld 0 0 s', tt) /\
             okv_get s' kparams = None /\ (forall st, ~ Rreg s' st) /\
             go_st_GetParams s' = Ok zero_go_Params.
Proof.
  cbv zeta. split; [split; [unfold u64; cbn; lia | constructor]|].
  split; [unfold wrk_params_nonneg; cbn; lia|]. split; [reflexivity|].
  eexists. split; [vm_compute; reflexivity|]. split; [reflexivity|]. split; [|reflexivity].
  intros st R. pose proof (R_params _ _ R) as E. discriminate E.
Qed.

(* ================================================================== *)
(* part 4: export, then import into the empty byte store                *)
(* ================================================================== *)

(* ---- the abstract state determines the byte store ---- *)
Lemma Rreg_get_determined s1 s2 st : Rreg s1 st -> Rreg s2 st -> forall k, key_ok k -> okv_get s1 k = okv_get s2 k.
Proof.
  intros R1 R2 k [->|[->|[[id [Hid ->]]|[[id [Hid ->]]|[id [t [Hid [Ht ->]]]]]]]].
  - rewrite (R_params _ _ R1), (R_params _ _ R2). reflexivity.
  - rewrite (R_next _ _ R1), (R_next _ _ R2). reflexivity.
  - rewrite (R_regs _ _ R1 id Hid), (R_regs _ _ R2 id Hid). reflexivity.
  - rewrite (R_limits _ _ R1 id Hid), (R_limits _ _ R2 id Hid). reflexivity.
  - rewrite (R_recs _ _ R1 id t Hid Ht), (R_recs _ _ R2 id t Hid Ht). reflexivity.
Qed.

Theorem Rreg_store_unique s1 s2 st : Rreg s1 st -> Rreg s2 st -> s1 = s2.
Proof.
  intros R1 R2. apply okv_ext; [exact (R_sorted _ _ R1) | exact (R_sorted _ _ R2)|]. intros k.
  destruct (okv_get s1 k) as [v|] eqn:E1.
  - rewrite <- E1. apply (Rreg_get_determined s1 s2 st R1 R2). exact (R_complete _ _ R1 _ _ (get_in _ _ _ E1)).
  - destruct (okv_get s2 k) as [v|] eqn:E2; [|reflexivity].
    rewrite <- E1, <- E2. apply (Rreg_get_determined s1 s2 st R1 R2). exact (R_complete _ _ R2 _ _ (get_in _ _ _ E2)).
Qed.

(* two abstract states with the same parameters, counter and lookups are represented by the same stores *)
Lemma Rreg_equiv s st1 st2 : Rreg s st1 -> reg_equiv st1 st2 ->
  regs_wf (r_regs st2) -> limits_wf (r_limits st2) -> recs_wf (r_recs st2) -> Rreg s st2.
Proof.
  intros R (Ep & En & Er & El & _ & Ec) W1 W2 W3. constructor.
  - exact (R_sorted _ _ R).
  - rewrite <- Ep. exact (R_params _ _ R).
  - rewrite <- En. exact (R_next_range _ _ R).
  - rewrite <- En. exact (R_next _ _ R).
  - exact W1.
  - intros id Hid. rewrite <- Er. exact (R_regs _ _ R id Hid).
  - exact W2.
  - intros id Hid. rewrite <- El. exact (R_limits _ _ R id Hid).
  - exact W3.
  - intros id t Hid Ht. rewrite <- Ec. exact (R_recs _ _ R id t Hid Ht).
  - exact (R_complete _ _ R).
Qed.

(* ---- the exported document is a covered one ---- *)
Lemma valid_nonneg p : reg_params_valid (params_of_go p) = true -> wrk_params_nonneg p.
Proof.
  unfold reg_params_valid, params_of_go, wrk_params_nonneg.
  cbn [rp_fee_register rp_fee_record rp_fee_purchase rp_denom rp_default_limit rp_max_limit]. lia.
Qed.

Lemma export_blocks_u64 s w id : Rreg s (rw_reg w) ->
  Forall (fun b => u64 (WrkChainBlockGenesisExport_He b)) (reg_GetRecordsForExport w id).
Proof.
  intros R. unfold reg_GetRecordsForExport. apply Forall_forall. intros b Hin. apply in_map_iff in Hin.
  destruct Hin as [[t rc] [<- Hin]]. cbn [WrkChainBlockGenesisExport_He fst].
  apply newest_incl in Hin. apply (proj1 (sort_In _ _)) in Hin. apply records_of_In in Hin.
  destruct (R_recs_wf _ _ R) as [_ W]. destruct (W _ _ _ Hin) as (_ & Ht & _). exact Ht.
Qed.

Lemma export_doc_ok w ws : Rw w ws ->
  doc_ok (mk_go_GenesisState (params_to_go (r_params (rw_reg w))) (r_next (rw_reg w))
            (map (go_export_entry w) (reg_GetAllEntities w))).
Proof.
  intros HR. pose proof HR as (_ & _ & R). split; [exact (R_next_range _ _ R)|].
  cbn [GenesisState_RegisteredWrkchains]. apply Forall_forall. intros e Hin. apply in_map_iff in Hin.
  destruct Hin as [wc [<- Hin]]. unfold go_export_entry, entry_ok. cbv zeta.
  cbn [WrkChainExport_Wrkchain WrkChainExport_Blocks WrkChain_WrkchainId].
  split; [exact (entities_u64 w ws wc HR Hin) | exact (export_blocks_u64 _ w _ R)].
Qed.

Lemma Rreg_five_hashes s st : Rreg s st -> wrk_five_hashes st.
Proof.
  intros R [id k] rc Hin. destruct (R_recs_wf _ _ R) as [_ W].
  destruct (W _ _ _ Hin) as (_ & _ & _ & a & b & c & d & e & E5). rewrite E5. reflexivity.
Qed.

Lemma rworld_eta' w : mk_rworld (rw_now w) (rw_wall w) (rw_reg w) = w.
Proof. destruct w; reflexivity. Qed.

(* what Rreg asks of the three maps holds of the re-imported state's *)
Lemma reimported_regs_ascending st : regs_ascending st -> regs_ascending (reg_reimported st).
Proof.
  unfold regs_ascending. cbn [reg_reimported r_regs]. unfold akeys. rewrite map_map. cbn [fst]. intros H. exact H.
Qed.

(* THE BYTE-LEVEL ROUND TRIP.  [ws] represents a reachable abstract state [rw_reg w]; the on-store ExportGenesis gives a
   document d (the one rendering (1) and the model give); the on-store InitGenesis of d on the EMPTY byte store answers
   Ok with a store s' that represents the model's re-imported state - and, when no registration holds more records
   than the export cap, the original abstract state: then s' is the exported byte store itself *)
Theorem os_export_import_roundtrip w ws g0 now wall :
  Rw w ws -> reg_inv true (rw_reg w) g0 -> regs_ascending (rw_reg w) ->
  exists d s',
    S.go_ExportGenesis ws = Ok d /\
    gen_of_go d = export_reg (rw_reg w) /\
    S.go_InitGenesis (mk_wsworld now wall []) d = Ok (mk_wsworld now wall s', tt) /\
    Rreg s' (reg_reimported (rw_reg w)) /\
    (under_cap (rw_reg w) -> Rreg s' (rw_reg w) /\ s' = wsw_store ws).
Proof.
  intros HR I HS. pose proof HR as (_ & _ & R).
  destruct (gen_wrk_export_import_roundtrip w g0 now wall (r_params (rw_reg w)) I (Rreg_five_hashes _ _ R))
    as (d & Ed & Md & Imp & _).
  pose proof Ed as Ed'. rewrite gen_wrk_ExportGenesis_run in Ed'. injection Ed' as Ed'.
  assert (Hok : doc_ok d) by (rewrite <- Ed'; exact (export_doc_ok w ws HR)).
  assert (V : reg_params_valid (params_of_go (GenesisState_Params d)) = true).
  { rewrite <- Ed'. cbn [GenesisState_Params]. rewrite GeneratedWrkchainGenesisEq.params_of_to_go. exact (inv_params _ _ _ I). }
  destruct (os_InitGenesis_empty now wall (r_params (rw_reg w)) d Hok (valid_nonneg _ V) V) as (s' & st' & ES & _ & Imp' & R').
  rewrite Imp in Imp'. injection Imp' as <-.
  exists d, s'. split; [rewrite (os_ExportGenesis_eq w ws HR HS); exact Ed|].
  split; [exact Md|]. split; [exact ES|]. split; [exact R'|].
  intros C.
  assert (R'' : Rreg s' (rw_reg w)).
  { apply (Rreg_equiv s' _ _ R' (reg_equiv_reimported true _ g0 I C));
      [exact (R_regs_wf _ _ R) | exact (R_limits_wf _ _ R) | exact (R_recs_wf _ _ R)]. }
  split; [exact R'' | exact (Rreg_store_unique _ _ _ R'' R)].
Qed.

(* the cap is needed for the equality: when some registration holds more than EXPORT_CAP records the re-imported byte
   store differs from the exported one (it holds the newest EXPORT_CAP records of that registration only) *)
Lemma records_of_nodup_list id (recs : amap (Z * Z) record) : NoDup (akeys recs) -> NoDup (records_of id recs).
Proof. intros ND. exact (NoDup_map_inv fst _ (records_of_nodup id recs ND)). Qed.

Theorem os_roundtrip_over_cap_differs w ws g0 s' id :
  Rw w ws -> reg_inv true (rw_reg w) g0 -> Rreg s' (reg_reimported (rw_reg w)) ->
  EXPORT_CAP < Z.of_nat (List.length (records_of id (r_recs (rw_reg w)))) ->
  s' <> wsw_store ws.
Proof.
  intros (_ & _ & R) I R' Hlen E. subst s'.
  destruct (Rreg_functional _ _ _ R R') as (_ & _ & _ & _ & Ec).
  pose proof (inv_nd_recs _ _ _ I) as ND. pose proof (reimported_recs_nodup true _ g0 I) as ND'.
  assert (P : Permutation (records_of id (r_recs (rw_reg w))) (records_of id (r_recs (reg_reimported (rw_reg w))))).
  { apply NoDup_Permutation; [apply records_of_nodup_list; exact ND | apply records_of_nodup_list; exact ND'|].
    intros [t rc]. rewrite !records_of_In. split; intros Hin.
    - apply aget_In. rewrite <- Ec. apply aget_of_In; assumption.
    - apply aget_In. rewrite Ec. apply aget_of_In; assumption. }
  apply Permutation_length in P. rewrite (records_of_reimported true _ g0 id I) in P.
  pose proof (blocks_cap (rw_reg w) id). lia.
Qed.

(* ================================================================== *)
(* part 5: export -> import -> export                                   *)
(* ================================================================== *)

(* the byte store InitGenesis builds from the exported document exports to the very same document (no cap hypothesis) *)
Theorem os_export_import_export w ws g0 now wall :
  Rw w ws -> reg_inv true (rw_reg w) g0 -> regs_ascending (rw_reg w) ->
  exists d s',
    S.go_ExportGenesis ws = Ok d /\
    S.go_InitGenesis (mk_wsworld now wall []) d = Ok (mk_wsworld now wall s', tt) /\
    S.go_ExportGenesis (mk_wsworld now wall s') = Ok d.
Proof.
  intros HR I HS. destruct (os_export_import_roundtrip w ws g0 now wall HR I HS) as (d & s' & Ed & _ & Ei & R' & _).
  exists d, s'. split; [exact Ed|]. split; [exact Ei|].
  assert (HR' : Rw (mk_rworld now wall (reg_reimported (rw_reg w))) (mk_wsworld now wall s'))
    by (split; [reflexivity | split; [reflexivity | exact R']]).
  rewrite (os_ExportGenesis_eq _ _ HR' (reimported_regs_ascending _ HS)).
  rewrite (gen_wrk_export_reimported true (rw_reg w) g0 (rw_now w) (rw_wall w) now wall I), rworld_eta'.
  rewrite <- (os_ExportGenesis_eq w ws HR HS). exact Ed.
Qed.

(* ================================================================== *)
(* part 6: reachable states list their registrations in ascending id    *)
(* ================================================================== *)

(* [regs_ascending] is a fact about every state the module reaches: a registration is appended under the id r_next,
   above every id in use (reg_inv: registered ids are below r_next); a record / a purchase leaves the ids alone *)
Lemma record_new_regs heighted t s rg key hashes s' k pr :
  record_new heighted t s rg key hashes = (s', k, pr) -> exists rg', r_regs s' = aset (rg_id rg) rg' (r_regs s).
Proof.
  unfold record_new.
  destruct (limit_of s (rg_id rg) <? rg_num rg + 1);
    [destruct heighted; [destruct (0 <? rg_lowest rg)|]|];
    intros [= <- _ _]; eexists; reflexivity.
Qed.

Lemma sorted_app_last (l : list Z) x : StronglySorted Z.lt l -> (forall y, In y l -> y < x) -> StronglySorted Z.lt (l ++ [x]).
Proof.
  induction 1 as [|a l HS IH HF]; intros Hx; cbn [List.app].
  - constructor; constructor.
  - constructor; [apply IH; intros y Hy; apply Hx; right; exact Hy|].
    apply Forall_forall. intros y Hy. apply in_app_or in Hy. destruct Hy as [Hy|[<-|[]]].
    + rewrite Forall_forall in HF. exact (HF y Hy).
    + apply Hx. left. reflexivity.
Qed.

Lemma regs_ascending_step heighted s g t m s1 g1 :
  reg_inv heighted s g -> reg_msg_wf m -> reg_step heighted (s, g) (t, m) = (s1, g1) ->
  regs_ascending s -> regs_ascending s1.
Proof.
  intros I Hwf ES HS. unfold regs_ascending in *.
  destruct (reg_step_cases _ _ _ _ _ _ _ I Hwf ES)
    as [-> _ _ | o moniker name genesis type -> E _ | o id key hashes rg -> G _ E _ _ | o id n c -> _ E _].
  - exact HS.
  - destruct (reg_exec_register_inv _ _ _ _ _ _ _ _ _ _ E) as [_ ->]. cbn [r_regs].
    assert (Hlt : forall y, In y (akeys (r_regs s)) -> y < r_next s).
    { intros y Hy. apply In_akeys_aget in Hy as [rg Gy]. destruct (inv_regs _ _ _ I _ _ Gy) as [Hr _]. lia. }
    rewrite akeys_aset_notin by (intros Hin; specialize (Hlt _ Hin); lia).
    apply sorted_app_last; assumption.
  - destruct (reg_exec_record_inv _ _ _ _ _ _ _ _ _ E) as (rg0 & k & pr & G0 & _ & _ & _ & EN & _).
    destruct (record_new_regs _ _ _ _ _ _ _ _ _ EN) as [rg' ->].
    rewrite akeys_aset_in; [exact HS|].
    pose proof (regs_ids heighted s g (id, rg0) I (aget_In _ _ _ G0)) as Eid. cbn [fst snd] in Eid. rewrite Eid.
    change id with (fst (id, rg0)). apply in_map. exact (aget_In _ _ _ G0).
  - destruct (reg_exec_purchase_inv _ _ _ _ _ _ _ _ E) as (rg0 & _ & _ & _ & _ & _ & -> & _). exact HS.
Qed.

Theorem regs_ascending_run heighted h s g :
  reg_inv heighted s g -> hist_wf h -> regs_ascending s -> regs_ascending (fst (reg_run heighted (s, g) h)).
Proof.
  intros I Hh HS. destruct (reg_run heighted (s, g) h) as [s' g'] eqn:ER. cbn [fst].
  revert HS. apply (reg_run_ind heighted (fun s g s' g' => regs_ascending s -> regs_ascending s')) with (h := h) (g := g) (g' := g');
    [intros; assumption | | exact I | exact Hh | exact ER].
  intros s0 g0' t m s1 g1 s2 g2 I0 Hm _ ES _ IH H0. apply IH. exact (regs_ascending_step _ _ _ _ _ _ _ I0 Hm ES H0).
Qed.

Lemma regs_ascending_init p start : regs_ascending (reg_init p start).
Proof. unfold regs_ascending, reg_init. cbn. constructor. Qed.

(* ... and a genesis import of a document whose entries come in ascending id order (as every exported document) keeps
   it: the re-imported state of an ascending state is ascending (reimported_regs_ascending) *)

(* ---- the round trip along the on-store message server: whatever history of the three message kinds the on-store
   rendering has run from a related, reachable, ascending start, its byte store exports, and the document imports into
   the empty store to - under the cap - the very same byte store ---- *)
Theorem os_run_roundtrip wall h w ws g B now' wall' :
  Rw w ws -> reg_inv true (rw_reg w) g -> wrk_bounded B (rw_reg w) -> B + Z.of_nat (List.length h) < two64 ->
  wrk_hist_ok h -> regs_ascending (rw_reg w) ->
  let ws' := snd (s_run wall ws (lift_hist h)) in
  let st' := fst (reg_run true (rw_reg w, g) h) in
  exists d s',
    S.go_ExportGenesis ws' = Ok d /\
    gen_of_go d = export_reg st' /\
    S.go_InitGenesis (mk_wsworld now' wall' []) d = Ok (mk_wsworld now' wall' s', tt) /\
    Rreg s' (reg_reimported st') /\
    S.go_ExportGenesis (mk_wsworld now' wall' s') = Ok d /\
    (under_cap st' -> s' = wsw_store ws').
Proof.
  intros HR I HB Hlen Hh HS. cbv zeta.
  destruct (os_run_is_model wall h w ws g B HR I HB Hlen Hh) as (_ & w' & HR' & Es & I').
  pose proof (regs_ascending_run true h _ _ I (wrk_hist_ok_wf _ Hh) HS) as HS'.
  rewrite <- Es in *. pose proof (Rwi_Rw _ _ HR') as HR0.
  destruct (os_export_import_roundtrip w' _ _ now' wall' HR0 I' HS') as (d & s' & Ed & Md & Ei & R' & Hc).
  destruct (os_export_import_export w' _ _ now' wall' HR0 I' HS') as (d2 & s2 & Ed2 & Ei2 & Ee2).
  rewrite Ed in Ed2. injection Ed2 as <-. rewrite Ei in Ei2. injection Ei2 as <-.
  exists d, s'. split; [exact Ed|]. split; [exact Md|]. split; [exact Ei|]. split; [exact R'|]. split; [exact Ee2|].
  intros C. exact (proj2 (Hc C)).
Qed.

(* ================================================================== *)
(* part 7: a concrete run                                               *)
(* ================================================================== *)
Local Open Scope string_scope.

(* the byte store the on-store message server builds in proofs/GeneratedWrkchainOnStoreEq.v (os_ex_khist: account 7
   registers WRKChain 1 and records heights 10, 20, 30 - the third prunes 10 -, buys 3 slots, the parameters are updated
   by governance, account 9 registers WRKChain 2, height 40 is recorded): nine cells.  Exported by the on-store
   ExportGenesis, imported by the on-store InitGenesis into the EMPTY store of another node (other clocks): the same nine
   cells, byte for byte; exported again: the same document *)
Example os_genesis_ex :
  let ws := snd (s_run 0 os_ex_sw0 os_ex_khist) in
  match S.go_ExportGenesis ws with
  | Ok d =>
      GenesisState_Params d = os_ex_params2 /\ GenesisState_StartingWrkchainId d = 3 /\
      map WrkChainExport_Wrkchain (GenesisState_RegisteredWrkchains d) =
        [mk_go_WrkChain 1 "m" "n" "0xabc" "geth" 40 3 20 1700000000 7; mk_go_WrkChain 2 "x" "y" "0xdef" "cosmos" 0 0 0 1700000100 9] /\
      map WrkChainExport_InStateLimit (GenesisState_RegisteredWrkchains d) = [5; 3] /\
      map (fun e => map WrkChainBlockGenesisExport_He (WrkChainExport_Blocks e)) (GenesisState_RegisteredWrkchains d) = [[20; 30; 40]; []] /\
      match S.go_InitGenesis (mk_wsworld 77 78 []) d with
      | Ok (ws', _) =>
          wsw_store ws' = wsw_store ws /\ List.length (wsw_store ws') = 9%nat /\
          wsw_now ws' = 77 /\ wsw_wall ws' = 78 /\
          S.go_ExportGenesis ws' = Ok d
      | _ => False
      end
  | _ => False
  end.
Proof. vm_compute. repeat split; reflexivity. Qed.

(* the same by the theorems, not by computation, for the history of proofs/GeneratedWrkchainEq.v (register; record 10, 20,
   30 under limit 2) run by the on-store message server from the genesis store *)
Lemma records_of_length_le id (recs : amap (Z * Z) record) : (List.length (records_of id recs) <= List.length recs)%nat.
Proof.
  unfold records_of. rewrite map_length. induction recs as [|x r IH]; cbn [filter List.length]; [lia|].
  destruct (fst (fst x) =? id)%Z; cbn [List.length]; lia.
Qed.

Lemma under_cap_small st : Z.of_nat (List.length (r_recs st)) <= EXPORT_CAP -> under_cap st.
Proof. intros H id. pose proof (records_of_length_le id (r_recs st)). lia. Qed.

Example os_genesis_ex_by_theorem :
  let ws := snd (s_run 0 os_ex_sw0 (lift_hist ex_history)) in
  exists d s',
    S.go_ExportGenesis ws = Ok d /\
    S.go_InitGenesis (mk_wsworld 77 78 []) d = Ok (mk_wsworld 77 78 s', tt) /\
    S.go_ExportGenesis (mk_wsworld 77 78 s') = Ok d /\
    s' = wsw_store ws.
Proof.
  cbv zeta.
  assert (Hlen : 1 + Z.of_nat (List.length ex_history) < two64) by (cbn; unfold two64; lia).
  destruct (os_run_roundtrip 0 ex_history os_ex_kw0 os_ex_sw0 ghost_init 1 77 78
              os_ex_Rw0 os_ex_inv0 os_ex_bounded0 Hlen os_ex_history_ok (regs_ascending_init _ _))
    as (d & s' & Ed & _ & Ei & _ & Ee & Hc).
  exists d, s'. split; [exact Ed|]. split; [exact Ei|]. split; [exact Ee|].
  apply Hc. apply under_cap_small. vm_compute. discriminate.
Qed.

(* ================================================================== *)
(* the definitions, spelled out (for props/C15onstorewrkchain.v)        *)
(* ================================================================== *)
Lemma doc_ok_spelled d :
  doc_ok d <->
  (0 <= GenesisState_StartingWrkchainId d < 2 ^ 64 /\
   Forall (fun e => 0 <= WrkChain_WrkchainId (WrkChainExport_Wrkchain e) < 2 ^ 64 /\
                    Forall (fun b => 0 <= WrkChainBlockGenesisExport_He b < 2 ^ 64) (WrkChainExport_Blocks e))
          (GenesisState_RegisteredWrkchains d)).
Proof. reflexivity. Qed.

Lemma regs_ascending_spelled st : regs_ascending st <-> StronglySorted Z.lt (map fst (r_regs st)).
Proof. reflexivity. Qed.

Lemma under_cap_spelled st :
  under_cap st <-> forall id, Z.of_nat (List.length (records_of id (r_recs st))) <= 20000.
Proof. reflexivity. Qed.

(* the byte store InitGenesis builds, equation by equation *)
Lemma s_import_spelled :
  (forall valid d s,
     s_import_onto valid d s =
       fold_left (fun s e => s_imp_entry e s) (GenesisState_RegisteredWrkchains d)
         (okv_set (if valid then okv_set s kparams (WV_Params (GenesisState_Params d)) else s) khighest
            (WV_bytes (be64 (Z.to_N (GenesisState_StartingWrkchainId d)))))) /\
  (forall e s,
     s_imp_entry e s =
       fold_left (fun s b => s_imp_rec (WrkChain_WrkchainId (WrkChainExport_Wrkchain e)) b s) (WrkChainExport_Blocks e)
         (okv_set (okv_set s (kReg (WrkChain_WrkchainId (WrkChainExport_Wrkchain e))) (WV_WrkChain (WrkChainExport_Wrkchain e)))
            (kLim (WrkChain_WrkchainId (WrkChainExport_Wrkchain e)))
            (WV_WrkChainStorageLimit (mk_go_WrkChainStorageLimit (WrkChain_WrkchainId (WrkChainExport_Wrkchain e))
                                        (WrkChainExport_InStateLimit e))))) /\
  (forall id b s,
     s_imp_rec id b s =
       okv_set s (kRec id (WrkChainBlockGenesisExport_He b))
         (WV_WrkChainBlock (mk_go_WrkChainBlock (WrkChainBlockGenesisExport_He b) (WrkChainBlockGenesisExport_Bh b)
                              (WrkChainBlockGenesisExport_Ph b) (WrkChainBlockGenesisExport_H1 b) (WrkChainBlockGenesisExport_H2 b)
                              (WrkChainBlockGenesisExport_H3 b) (WrkChainBlockGenesisExport_St b)))) /\
  (forall p, validates p = match K.go_Params_Validate p with Ok _ => true | _ => false end).
Proof.
  split; [reflexivity|]. split; [|split; reflexivity].
  intros e s. unfold s_imp_entry. cbv zeta. rewrite wc_eta_eq. reflexivity.
Qed.

Lemma sim0_spelled' (a : outcome (rworld * unit)) (c : outcome (wsworld * unit)) :
  sim0 a c <->
  match a, c with
  | Ok (w, x), Ok (ws, y) => Rw w ws /\ x = y
  | Err e, Err e' => e = e'
  | Panic p, Panic p' => p = p'
  | _, _ => False
  end.
Proof. reflexivity. Qed.
