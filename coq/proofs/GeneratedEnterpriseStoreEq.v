(* The store accessors of x/enterprise (GeneratedEnterpriseStore.v, translated from
   keeper/{params.go,purchase.go,whitelist.go,locked.go}) implement finite maps on the ordered byte-keyed store of
   model/KVStore.v:
     (a) KEY   : the key every accessor builds is the byte model's encoding (model/Keys.v) and is never empty;
     (b) SPEC  : every writer is ONE okv_set / okv_del at that key (or an error in its guard case); every point reader
                 is a function of ONE okv_get (plus the params cell, for the readers that answer a zero coin of the
                 parameter denomination); every Iterate* / GetAll* is okv_iterate / the decoded listing of ONE
                 okv_prefix;
     (c) MAP   : read-your-write, Has/Is after Set / Delete, defaults, non-interference between different logical
                 keys of one kind (injectivity of the key encodings, proofs/KeysProofs.v);
     (d) ISO   : a write of one kind changes no read of another kind (first byte of the key encodings);
     (e) LIST  : on a sorted, well-formed store the listings are complete, duplicate free, ascending (queues and
                 purchase orders: ascending NUMERIC id) and agree with the point queries;
     (f) examples run with the generated writers from the empty store.
   Ids are Go uint64: the range hypothesis [0 <= x < 2^64] appears exactly where two DIFFERENT numbers must have
   different keys, where a number must read back, or where byte order must be numeric order; the *_refuted examples
   show it is needed there.  The accessors are parameterised by the two address conversions
   (bech32 : go_addr -> outcome (list N), addr_string : list N -> go_addr); no property of them is needed for the
   byte-level laws, see the Section at the end for what the owner-level statements need. *)
From Coq Require Import ZArith NArith List Bool Lia Sorted.
From MC Require Import lib.Prelude lib.GoSdk model.Keys model.KeyPrims model.KVStore model.StoreCodecPrims.
From MC Require Import GeneratedKeys GeneratedEnterpriseTypes GeneratedEnterpriseKeeper GeneratedEnterpriseStore.
From MC Require Import proofs.KeysProofs proofs.GeneratedKeysEq proofs.KVStoreFacts proofs.KVStoreFacts2Enterprise.
Import ListNotations.
Open Scope Z_scope.

Notation store := (okv enterprise_val).

(* the logical keys, spelled as the byte model spells them (notations: the props file reads the same terms) *)
Notation kparams := (ent_encode EkParams).
Notation khighest := (ent_encode EkHighestPO).
Notation ktotlocked := (ent_encode EkTotalLocked).
Notation ktotspent := (ent_encode EkTotalSpent).
Notation kpo id := (ent_encode (EkPO (Z.to_N id))).
Notation kraised id := (ent_encode (EkRaised (Z.to_N id))).
Notation kaccepted id := (ent_encode (EkAccepted (Z.to_N id))).
Notation kwl a := (ent_encode (EkWhitelist a)).
Notation klocked a := (ent_encode (EkLocked a)).
Notation kspent a := (ent_encode (EkSpent a)).

(* ================================================================== *)
(* (a) KEY lemmas                                                       *)
(* ================================================================== *)

Lemma ent_encode_nonempty k : ent_encode k <> [].
Proof. destruct k; cbn [ent_encode]; discriminate. Qed.

Lemma ParamsKey_eq : enterprise_ParamsKey = kparams. Proof. reflexivity. Qed.
Lemma HighestKey_eq : enterprise_HighestPurchaseOrderIDKey = khighest. Proof. reflexivity. Qed.
Lemma TotalLockedKey_eq : enterprise_TotalLockedUndKey = ktotlocked. Proof. reflexivity. Qed.
Lemma TotalSpentKey_eq : enterprise_TotalSpentEFUNDKey = ktotspent. Proof. reflexivity. Qed.
Lemma PoPrefix_eq : enterprise_PurchaseOrderIDKeyPrefix = ent_prefix_po. Proof. reflexivity. Qed.
Lemma LockedPrefix_eq : enterprise_LockedUndAddressKeyPrefix = ent_prefix_locked. Proof. reflexivity. Qed.
Lemma WhitelistPrefix_eq : enterprise_WhitelistKeyPrefix = ent_prefix_whitelist. Proof. reflexivity. Qed.
Lemma RaisedPrefix_eq : enterprise_RaisedPoPrefix = ent_prefix_raised. Proof. reflexivity. Qed.
Lemma AcceptedPrefix_eq : enterprise_AcceptedPoPrefix = ent_prefix_accepted. Proof. reflexivity. Qed.
Lemma SpentPrefix_eq : enterprise_SpentEFUNDAddressKeyPrefix = ent_prefix_spent. Proof. reflexivity. Qed.

(* no range hypothesis: the builders truncate like a Go uint64 conversion, the model's be64 does the same *)
Lemma key_PurchaseOrderKey id : go_enterprise_PurchaseOrderKey (Z.to_N id) = Ok (kpo id) /\ kpo id <> [].
Proof. split; [apply gen_ent_PurchaseOrderKey_eq | apply ent_encode_nonempty]. Qed.
Lemma key_RaisedQueueStoreKey id : go_enterprise_RaisedQueueStoreKey (Z.to_N id) = Ok (kraised id) /\ kraised id <> [].
Proof. split; [apply gen_ent_RaisedQueueStoreKey_eq | apply ent_encode_nonempty]. Qed.
Lemma key_AcceptedQueueStoreKey id : go_enterprise_AcceptedQueueStoreKey (Z.to_N id) = Ok (kaccepted id) /\ kaccepted id <> [].
Proof. split; [apply gen_ent_AcceptedQueueStoreKey_eq | apply ent_encode_nonempty]. Qed.
(* no hypothesis on the address: the three address keys are prefix byte ++ raw address, never empty *)
Lemma key_WhitelistAddressStoreKey a : go_enterprise_WhitelistAddressStoreKey a = Ok (kwl a) /\ kwl a <> [].
Proof. split; [apply gen_ent_WhitelistAddressStoreKey_eq | apply ent_encode_nonempty]. Qed.
Lemma key_LockedUndAddressStoreKey a : go_enterprise_LockedUndAddressStoreKey a = Ok (klocked a) /\ klocked a <> [].
Proof. split; [apply gen_ent_LockedUndAddressStoreKey_eq | apply ent_encode_nonempty]. Qed.
Lemma key_SpentEFUNDAddressStoreKey a : go_enterprise_SpentEFUNDAddressStoreKey a = Ok (kspent a) /\ kspent a <> [].
Proof. split; [apply gen_ent_SpentEFUNDAddressStoreKey_eq | apply ent_encode_nonempty]. Qed.
Lemma key_singletons :
  (enterprise_ParamsKey = kparams /\ kparams <> []) /\
  (enterprise_HighestPurchaseOrderIDKey = khighest /\ khighest <> []) /\
  (enterprise_TotalLockedUndKey = ktotlocked /\ ktotlocked <> []) /\
  (enterprise_TotalSpentEFUNDKey = ktotspent /\ ktotspent <> []).
Proof. repeat split; discriminate. Qed.

(* Z <-> N on the uint64 range *)
Lemma u64_wf x : 0 <= x < 2 ^ 64 -> wf_id (Z.to_N x) = true.
Proof. intros H. apply wf_id_lt. change (2 ^ 64)%N with (Z.to_N (2 ^ 64)). apply Z2N.inj_lt; lia. Qed.
Lemma u64_lt x : 0 <= x < 2 ^ 64 -> (Z.to_N x < 2 ^ 64)%N.
Proof. intros H. apply wf_id_lt, u64_wf, H. Qed.
Lemma u64_to_N_inj x y : 0 <= x -> 0 <= y -> Z.to_N x = Z.to_N y -> x = y.
Proof. intros Hx Hy E. apply Z2N.inj; assumption. Qed.
Lemma u64_to_N_lt x y : 0 <= x -> 0 <= y -> ((Z.to_N x < Z.to_N y)%N <-> x < y).
Proof. intros Hx Hy. symmetry. apply Z2N.inj_lt; assumption. Qed.

(* the counter / queue value: the 8 id bytes, and they read back *)
Lemma id_bytes id : go_enterprise_GetPurchaseOrderIDBytes (Z.to_N id) = Ok (be64 (Z.to_N id)).
Proof. apply gen_ent_GetPurchaseOrderIDBytes_eq. Qed.
Lemma id_from_bytes id : 0 <= id < 2 ^ 64 ->
  (do n <- go_enterprise_GetPurchaseOrderIDFromBytes (be64 (Z.to_N id)); Ok (Z.of_N n)) = Ok id.
Proof.
  intros H. rewrite gen_ent_GetPurchaseOrderIDFromBytes_eq, de64_checked_be64 by (apply u64_lt; exact H).
  cbn [lift_opt obind]. rewrite Z2N.id by lia. reflexivity.
Qed.

(* different numbers of the uint64 range have different keys *)
Lemma kpo_inj a b : 0 <= a < 2 ^ 64 -> 0 <= b < 2 ^ 64 -> kpo a = kpo b -> a = b.
Proof.
  intros Ha Hb E. apply ent_injective in E; [|cbn; apply u64_wf; assumption ..].
  injection E as E. apply u64_to_N_inj; lia.
Qed.
Lemma kraised_inj a b : 0 <= a < 2 ^ 64 -> 0 <= b < 2 ^ 64 -> kraised a = kraised b -> a = b.
Proof.
  intros Ha Hb E. apply ent_injective in E; [|cbn; apply u64_wf; assumption ..].
  injection E as E. apply u64_to_N_inj; lia.
Qed.
Lemma kaccepted_inj a b : 0 <= a < 2 ^ 64 -> 0 <= b < 2 ^ 64 -> kaccepted a = kaccepted b -> a = b.
Proof.
  intros Ha Hb E. apply ent_injective in E; [|cbn; apply u64_wf; assumption ..].
  injection E as E. apply u64_to_N_inj; lia.
Qed.
(* the address keys are injective without any hypothesis (raw address behind one prefix byte) *)
Lemma kwl_inj a b : kwl a = kwl b -> a = b. Proof. intros E; injection E as E; exact E. Qed.
Lemma klocked_inj a b : klocked a = klocked b -> a = b. Proof. intros E; injection E as E; exact E. Qed.
Lemma kspent_inj a b : kspent a = kspent b -> a = b. Proof. intros E; injection E as E; exact E. Qed.

(* byte order of the id keys is numeric order *)
Lemma kpo_order a b : 0 <= a < 2 ^ 64 -> 0 <= b < 2 ^ 64 -> (lex_lt (kpo a) (kpo b) = true <-> a < b).
Proof. intros Ha Hb. rewrite ent_order_po by (apply u64_wf; assumption). apply u64_to_N_lt; lia. Qed.
Lemma kraised_order a b : 0 <= a < 2 ^ 64 -> 0 <= b < 2 ^ 64 -> (lex_lt (kraised a) (kraised b) = true <-> a < b).
Proof. intros Ha Hb. rewrite ent_order_raised by (apply u64_wf; assumption). apply u64_to_N_lt; lia. Qed.
Lemma kaccepted_order a b : 0 <= a < 2 ^ 64 -> 0 <= b < 2 ^ 64 -> (lex_lt (kaccepted a) (kaccepted b) = true <-> a < b).
Proof. intros Ha Hb. rewrite ent_order_accepted by (apply u64_wf; assumption). apply u64_to_N_lt; lia. Qed.

(* ================================================================== *)
(* (b) SPEC lemmas                                                      *)
(* ================================================================== *)

(* what a point reader makes of the store cell(s) it looks at *)
Definition rd_has (o : option enterprise_val) : bool := match o with Some _ => true | None => false end.
Definition rd_params (o : option enterprise_val) : outcome go_Params :=
  match o with
  | None => Ok zero_go_Params
  | Some (EV_Params p) => Ok p
  | Some _ => Panic OKV_PANIC_UNMARSHAL
  end.
Definition rd_highest (o : option enterprise_val) : outcome Z :=
  match o with
  | None => Err STORE_ERR
  | Some (EV_bytes b) => do n <- go_enterprise_GetPurchaseOrderIDFromBytes b; Ok (Z.of_N n)
  | Some _ => Panic OKV_PANIC_UNMARSHAL
  end.
Definition rd_po (o : option enterprise_val) : outcome (go_EnterpriseUndPurchaseOrder * bool) :=
  match o with
  | None => Ok (zero_go_EnterpriseUndPurchaseOrder, false)
  | Some (EV_EnterpriseUndPurchaseOrder x) => Ok (x, true)
  | Some _ => Panic OKV_PANIC_UNMARSHAL
  end.
(* the zero coin of the parameter denomination: what the four "amount" readers answer when nothing is stored *)
Definition rd_zero_coin (oparams : option enterprise_val) : outcome go_coin :=
  do p <- rd_params oparams; Ok (Params_Denom p, 0).
Definition rd_total (oparams o : option enterprise_val) : outcome go_coin :=
  match o with
  | None => rd_zero_coin oparams
  | Some (EV_Coin c) => Ok c
  | Some _ => Panic OKV_PANIC_UNMARSHAL
  end.
Definition rd_locked (owner : go_addr) (oparams o : option enterprise_val) : outcome go_LockedUnd :=
  match o with
  | None => do c <- rd_zero_coin oparams; Ok (mk_go_LockedUnd owner c)
  | Some (EV_LockedUnd x) => Ok x
  | Some _ => Panic OKV_PANIC_UNMARSHAL
  end.
Definition rd_spent (owner : go_addr) (oparams o : option enterprise_val) : outcome go_SpentEFUND :=
  match o with
  | None => do c <- rd_zero_coin oparams; Ok (mk_go_SpentEFUND owner c)
  | Some (EV_SpentEFUND x) => Ok x
  | Some _ => Panic OKV_PANIC_UNMARSHAL
  end.

(* the decoders of the iterations (they look at the value only, never at the key) *)
Definition dec_queue (_ : list N) (v : enterprise_val) : outcome Z :=
  do b <- enterprise_unmarshal_bytes (Some v); do n <- go_enterprise_GetPurchaseOrderIDFromBytes b; Ok (Z.of_N n).
Definition dec_po (_ : list N) (v : enterprise_val) : outcome go_EnterpriseUndPurchaseOrder :=
  enterprise_unmarshal_EnterpriseUndPurchaseOrder (Some v).
Definition dec_wl (_ : list N) (v : enterprise_val) : outcome (list N) := enterprise_unmarshal_bytes (Some v).
Definition dec_locked (_ : list N) (v : enterprise_val) : outcome go_LockedUnd := enterprise_unmarshal_LockedUnd (Some v).
Definition dec_spent (_ : list N) (v : enterprise_val) : outcome go_SpentEFUND := enterprise_unmarshal_SpentEFUND (Some v).

(* ValidPurchaseOrderStatus as a boolean *)
Definition po_status_ok (st : Z) : bool := match go_ValidPurchaseOrderStatus st with Ok b => b | _ => false end.
Lemma ValidPurchaseOrderStatus_eq st : go_ValidPurchaseOrderStatus st = Ok (po_status_ok st).
Proof. unfold po_status_ok, go_ValidPurchaseOrderStatus. destruct (_ || _); reflexivity. Qed.
Lemma po_status_ok_spec st : po_status_ok st = true <-> 1 <= st <= 4.
Proof.
  unfold po_status_ok, go_ValidPurchaseOrderStatus, enterprise_StatusRaised, enterprise_StatusAccepted,
    enterprise_StatusRejected, enterprise_StatusCompleted.
  destruct (st =? 1) eqn:E1; destruct (st =? 2) eqn:E2; destruct (st =? 3) eqn:E3; destruct (st =? 4) eqn:E4;
    cbn [orb]; split; intros H; try reflexivity; try discriminate H; lia.
Qed.

Ltac keys :=
  rewrite ?ParamsKey_eq, ?HighestKey_eq, ?TotalLockedKey_eq, ?TotalSpentKey_eq, ?PoPrefix_eq, ?LockedPrefix_eq,
    ?WhitelistPrefix_eq, ?RaisedPrefix_eq, ?AcceptedPrefix_eq, ?SpentPrefix_eq,
    ?gen_ent_PurchaseOrderKey_eq, ?gen_ent_RaisedQueueStoreKey_eq, ?gen_ent_AcceptedQueueStoreKey_eq,
    ?gen_ent_WhitelistAddressStoreKey_eq, ?gen_ent_LockedUndAddressStoreKey_eq, ?gen_ent_SpentEFUNDAddressStoreKey_eq,
    ?gen_ent_GetPurchaseOrderIDBytes_eq.
Ltac ops := rewrite ?Get_ok, ?Has_ok, ?Set_ok, ?Delete_ok by apply ent_encode_nonempty.
Ltac walk := cbv beta zeta; repeat progress (cbn [obind]; keys; ops).

(* ---- params ---- *)
Lemma spec_GetParams s : go_st_GetParams s = rd_params (okv_get s kparams).
Proof. unfold go_st_GetParams. walk. destruct (okv_get s kparams) as [[]|]; reflexivity. Qed.

Lemma spec_SetParams s p :
  go_st_SetParams s p = do _ <- go_Params_Validate p; Ok (okv_set s kparams (EV_Params p), tt).
Proof. unfold go_st_SetParams, enterprise_marshal_Params. destruct (go_Params_Validate p); walk; reflexivity. Qed.

Lemma spec_GetParamDenom s : go_st_GetParamDenom s = do p <- rd_params (okv_get s kparams); Ok (Params_Denom p).
Proof. unfold go_st_GetParamDenom. rewrite spec_GetParams. reflexivity. Qed.
Lemma spec_GetParamMinAccepts s : go_st_GetParamMinAccepts s = do p <- rd_params (okv_get s kparams); Ok (Params_MinAccepts p).
Proof. unfold go_st_GetParamMinAccepts. rewrite spec_GetParams. reflexivity. Qed.
Lemma spec_GetParamDecisionLimit s :
  go_st_GetParamDecisionLimit s = do p <- rd_params (okv_get s kparams); Ok (Params_DecisionTimeLimit p).
Proof. unfold go_st_GetParamDecisionLimit. rewrite spec_GetParams. reflexivity. Qed.
Lemma spec_GetParamEntSigners s : go_st_GetParamEntSigners s = do p <- rd_params (okv_get s kparams); Ok (Params_EntSigners p).
Proof. unfold go_st_GetParamEntSigners. rewrite spec_GetParams. reflexivity. Qed.

(* the zero coin the amount readers fall back to *)
Lemma zero_coin_eq s : (do d <- go_st_GetParamDenom s; do c <- sdk_NewCoin d 0; Ok c) = rd_zero_coin (okv_get s kparams).
Proof.
  rewrite spec_GetParamDenom. unfold rd_zero_coin. destruct (rd_params (okv_get s kparams)); reflexivity.
Qed.

(* ---- highest purchase order id ---- *)
Lemma spec_GetHighestPurchaseOrderID s : go_st_GetHighestPurchaseOrderID s = rd_highest (okv_get s khighest).
Proof.
  unfold go_st_GetHighestPurchaseOrderID. walk. destruct (okv_get s khighest) as [[]|]; reflexivity.
Qed.

Lemma spec_SetHighestPurchaseOrderID s id :
  go_st_SetHighestPurchaseOrderID s id = Ok (okv_set s khighest (EV_bytes (be64 (Z.to_N id))), tt).
Proof. unfold go_st_SetHighestPurchaseOrderID, enterprise_marshal_bytes. walk. reflexivity. Qed.

(* ---- raised queue ---- *)
Lemma spec_AddPoToRaisedQueue s id :
  go_st_AddPoToRaisedQueue s id = Ok (okv_set s (kraised id) (EV_bytes (be64 (Z.to_N id))), tt).
Proof. unfold go_st_AddPoToRaisedQueue, enterprise_marshal_bytes. walk. reflexivity. Qed.

Lemma spec_PurchaseOrderIsInRaisedQueue s id :
  go_st_PurchaseOrderIsInRaisedQueue s id = Ok (rd_has (okv_get s (kraised id))).
Proof. unfold go_st_PurchaseOrderIsInRaisedQueue. walk. reflexivity. Qed.

(* the guarded delete is a plain delete: deleting an absent key is the identity *)
Lemma spec_RemovePurchaseOrderFromRaisedQueue s id :
  go_st_RemovePurchaseOrderFromRaisedQueue s id = Ok (okv_del s (kraised id), tt).
Proof.
  unfold go_st_RemovePurchaseOrderFromRaisedQueue. rewrite spec_PurchaseOrderIsInRaisedQueue. walk.
  destruct (okv_get s (kraised id)) eqn:E; cbn [rd_has]; walk; [reflexivity|].
  rewrite del_absent by exact E. reflexivity.
Qed.

Lemma spec_IterateRaisedQueue {St} s (cb : St -> Z -> outcome (St * bool)) st :
  go_st_IterateRaisedQueue s cb st = okv_iterate dec_queue cb (okv_prefix s ent_prefix_raised) st.
Proof. unfold go_st_IterateRaisedQueue, okv_iter_prefix. walk. rewrite obind_ret. reflexivity. Qed.

Lemma spec_GetAllRaisedPurchaseOrders s :
  go_st_GetAllRaisedPurchaseOrders s = decode_all dec_queue (okv_prefix s ent_prefix_raised).
Proof.
  unfold go_st_GetAllRaisedPurchaseOrders. cbv zeta. rewrite spec_IterateRaisedQueue, obind_ret.
  rewrite (iterate_append_total dec_queue). cbn [app]. apply obind_ret.
Qed.

(* ---- accepted queue ---- *)
Lemma spec_AddPoToAcceptedQueue s id :
  go_st_AddPoToAcceptedQueue s id = Ok (okv_set s (kaccepted id) (EV_bytes (be64 (Z.to_N id))), tt).
Proof. unfold go_st_AddPoToAcceptedQueue, enterprise_marshal_bytes. walk. reflexivity. Qed.

Lemma spec_PurchaseOrderIsInAcceptedQueue s id :
  go_st_PurchaseOrderIsInAcceptedQueue s id = Ok (rd_has (okv_get s (kaccepted id))).
Proof. unfold go_st_PurchaseOrderIsInAcceptedQueue. walk. reflexivity. Qed.

Lemma spec_RemovePurchaseOrderFromAcceptedQueue s id :
  go_st_RemovePurchaseOrderFromAcceptedQueue s id = Ok (okv_del s (kaccepted id), tt).
Proof.
  unfold go_st_RemovePurchaseOrderFromAcceptedQueue. rewrite spec_PurchaseOrderIsInAcceptedQueue. walk.
  destruct (okv_get s (kaccepted id)) eqn:E; cbn [rd_has]; walk; [reflexivity|].
  rewrite del_absent by exact E. reflexivity.
Qed.

Lemma spec_IterateAcceptedQueue {St} s (cb : St -> Z -> outcome (St * bool)) st :
  go_st_IterateAcceptedQueue s cb st = okv_iterate dec_queue cb (okv_prefix s ent_prefix_accepted) st.
Proof. unfold go_st_IterateAcceptedQueue, okv_iter_prefix. walk. rewrite obind_ret. reflexivity. Qed.

Lemma spec_GetAllAcceptedPurchaseOrders s :
  go_st_GetAllAcceptedPurchaseOrders s = decode_all dec_queue (okv_prefix s ent_prefix_accepted).
Proof.
  unfold go_st_GetAllAcceptedPurchaseOrders. cbv zeta. rewrite spec_IterateAcceptedQueue, obind_ret.
  rewrite (iterate_append_total dec_queue). cbn [app]. apply obind_ret.
Qed.

(* ---- purchase orders ---- *)
Lemma spec_PurchaseOrderExists s id : go_st_PurchaseOrderExists s id = Ok (rd_has (okv_get s (kpo id))).
Proof. unfold go_st_PurchaseOrderExists. walk. reflexivity. Qed.

Lemma spec_GetPurchaseOrder s id : go_st_GetPurchaseOrder s id = rd_po (okv_get s (kpo id)).
Proof.
  unfold go_st_GetPurchaseOrder. rewrite spec_PurchaseOrderExists. walk.
  destruct (okv_get s (kpo id)) as [[]|]; reflexivity.
Qed.

Lemma spec_IteratePurchaseOrders {St} s (cb : St -> go_EnterpriseUndPurchaseOrder -> outcome (St * bool)) st :
  go_st_IteratePurchaseOrders s cb st = okv_iterate dec_po cb (okv_prefix s ent_prefix_po) st.
Proof.
  unfold go_st_IteratePurchaseOrders, okv_iter_prefix. walk. rewrite obind_ret.
  apply iterate_ext_dec. intros k v. apply obind_ret.
Qed.

Lemma spec_GetAllPurchaseOrders s :
  go_st_GetAllPurchaseOrders s = decode_all dec_po (okv_prefix s ent_prefix_po).
Proof.
  unfold go_st_GetAllPurchaseOrders. cbv zeta. rewrite spec_IteratePurchaseOrders, obind_ret.
  rewrite (iterate_append_total dec_po). cbn [app]. apply obind_ret.
Qed.

Lemma spec_SetPurchaseOrder s po :
  go_st_SetPurchaseOrder s po =
  if po_status_ok (EnterpriseUndPurchaseOrder_Status po)
  then Ok (okv_set s (kpo (EnterpriseUndPurchaseOrder_Id po)) (EV_EnterpriseUndPurchaseOrder po), tt)
  else Err STORE_ERR.
Proof.
  unfold go_st_SetPurchaseOrder, enterprise_marshal_EnterpriseUndPurchaseOrder. rewrite ValidPurchaseOrderStatus_eq. walk.
  destruct (po_status_ok _); cbn [negb]; walk; reflexivity.
Qed.

(* ---- whitelist ---- *)
Lemma spec_AddressIsWhitelisted s a :
  go_st_AddressIsWhitelisted s a = Ok (match a with [] => false | _ => rd_has (okv_get s (kwl a)) end).
Proof. unfold go_st_AddressIsWhitelisted. destruct a; cbn [Addr_bytes_Empty]; walk; reflexivity. Qed.

Lemma spec_AddAddressToWhitelist s a :
  go_st_AddAddressToWhitelist s a =
  match a with [] => Err STORE_ERR_SDK | _ => Ok (okv_set s (kwl a) (EV_bytes a), tt) end.
Proof. unfold go_st_AddAddressToWhitelist, enterprise_marshal_bytes. destruct a; cbn [Addr_bytes_Empty]; walk; reflexivity. Qed.

Lemma spec_RemoveAddressFromWhitelist s a :
  go_st_RemoveAddressFromWhitelist s a =
  match a with [] => Err STORE_ERR_SDK | _ => Ok (okv_del s (kwl a), tt) end.
Proof.
  unfold go_st_RemoveAddressFromWhitelist. rewrite spec_AddressIsWhitelisted.
  destruct a as [|x a]; cbn [Addr_bytes_Empty]; [reflexivity|]. walk.
  destruct (okv_get s (kwl (x :: a))) eqn:E; cbn [rd_has]; walk; [reflexivity|].
  rewrite del_absent by exact E. reflexivity.
Qed.

Lemma spec_IterateWhitelist {St} s (cb : St -> list N -> outcome (St * bool)) st :
  go_st_IterateWhitelist s cb st = okv_iterate dec_wl cb (okv_prefix s ent_prefix_whitelist) st.
Proof.
  unfold go_st_IterateWhitelist, okv_iter_prefix. walk. rewrite obind_ret.
  apply iterate_ext_dec. intros k v. apply obind_ret.
Qed.

Lemma spec_GetAllWhitelistedAddresses (addr_string : list N -> go_addr) s :
  go_st_GetAllWhitelistedAddresses addr_string s =
  do l <- decode_all dec_wl (okv_prefix s ent_prefix_whitelist); Ok (map addr_string l).
Proof.
  unfold go_st_GetAllWhitelistedAddresses. cbv zeta. rewrite spec_IterateWhitelist, obind_ret.
  rewrite (iterate_append_map dec_wl addr_string). reflexivity.
Qed.

(* ---- totals ---- *)
Lemma spec_GetTotalLockedUnd s : go_st_GetTotalLockedUnd s = rd_total (okv_get s kparams) (okv_get s ktotlocked).
Proof.
  unfold go_st_GetTotalLockedUnd. walk. destruct (okv_get s ktotlocked) as [[]|]; try reflexivity.
  cbn [rd_total]. apply zero_coin_eq.
Qed.
Lemma spec_SetTotalLockedUnd s c : go_st_SetTotalLockedUnd s c = Ok (okv_set s ktotlocked (EV_Coin c), tt).
Proof. unfold go_st_SetTotalLockedUnd, enterprise_marshal_Coin. walk. reflexivity. Qed.
Lemma spec_GetTotalSpentEFUND s : go_st_GetTotalSpentEFUND s = rd_total (okv_get s kparams) (okv_get s ktotspent).
Proof.
  unfold go_st_GetTotalSpentEFUND. walk. destruct (okv_get s ktotspent) as [[]|]; try reflexivity.
  cbn [rd_total]. apply zero_coin_eq.
Qed.
Lemma spec_SetTotalSpentEFUND s c : go_st_SetTotalSpentEFUND s c = Ok (okv_set s ktotspent (EV_Coin c), tt).
Proof. unfold go_st_SetTotalSpentEFUND, enterprise_marshal_Coin. walk. reflexivity. Qed.

(* ---- spent eFUND per account ---- *)
Lemma spec_AccountHasSpentEFUND s a : go_st_AccountHasSpentEFUND s a = Ok (rd_has (okv_get s (kspent a))).
Proof. unfold go_st_AccountHasSpentEFUND. walk. reflexivity. Qed.

Lemma spec_GetSpentEFUNDForAccount (addr_string : list N -> go_addr) s a :
  go_st_GetSpentEFUNDForAccount addr_string s a = rd_spent (addr_string a) (okv_get s kparams) (okv_get s (kspent a)).
Proof.
  unfold go_st_GetSpentEFUNDForAccount. rewrite spec_AccountHasSpentEFUND. walk.
  destruct (okv_get s (kspent a)) as [[]|]; try reflexivity.
  cbn [rd_has negb rd_spent]. rewrite <- zero_coin_eq.
  destruct (go_st_GetParamDenom s); cbn [obind]; [|reflexivity|reflexivity]. destruct (sdk_NewCoin _ 0); reflexivity.
Qed.

Lemma spec_SetSpentEFUNDForAccount (bech32 : go_addr -> outcome (list N)) s x :
  go_st_SetSpentEFUNDForAccount bech32 s x =
  do owner <- bech32 (SpentEFUND_Owner x); Ok (okv_set s (kspent owner) (EV_SpentEFUND x), tt).
Proof.
  unfold go_st_SetSpentEFUNDForAccount, enterprise_marshal_SpentEFUND.
  destruct (bech32 (SpentEFUND_Owner x)); walk; reflexivity.
Qed.

Lemma spec_GetSpentEFUNDAmountForAccount (addr_string : list N -> go_addr) s a :
  go_st_GetSpentEFUNDAmountForAccount addr_string s a =
  do x <- rd_spent (addr_string a) (okv_get s kparams) (okv_get s (kspent a)); Ok (SpentEFUND_Amount x).
Proof. unfold go_st_GetSpentEFUNDAmountForAccount. rewrite spec_GetSpentEFUNDForAccount. reflexivity. Qed.

Lemma spec_GetAllSpentEFUNDAccountsIterator s :
  go_st_GetAllSpentEFUNDAccountsIterator s = Ok (okv_prefix s ent_prefix_spent).
Proof. unfold go_st_GetAllSpentEFUNDAccountsIterator, okv_iter_prefix. walk. reflexivity. Qed.

Lemma spec_GetAllSpentEFUNDs s : go_st_GetAllSpentEFUNDs s = decode_all dec_spent (okv_prefix s ent_prefix_spent).
Proof.
  unfold go_st_GetAllSpentEFUNDs. cbv zeta. rewrite spec_GetAllSpentEFUNDAccountsIterator. cbn [obind].
  rewrite obind_ret.
  rewrite (iterate_ext_dec _ dec_spent) by (intros k v; apply obind_ret).
  rewrite (iterate_append_total dec_spent). cbn [app]. apply obind_ret.
Qed.

(* ---- locked FUND per account ---- *)
Lemma spec_AccountHasLockedUnd s a : go_st_AccountHasLockedUnd s a = Ok (rd_has (okv_get s (klocked a))).
Proof. unfold go_st_AccountHasLockedUnd. walk. reflexivity. Qed.

Lemma spec_GetLockedUndForAccount (addr_string : list N -> go_addr) s a :
  go_st_GetLockedUndForAccount addr_string s a = rd_locked (addr_string a) (okv_get s kparams) (okv_get s (klocked a)).
Proof.
  unfold go_st_GetLockedUndForAccount. rewrite spec_AccountHasLockedUnd. walk.
  destruct (okv_get s (klocked a)) as [[]|]; try reflexivity.
  cbn [rd_has negb rd_locked]. rewrite <- zero_coin_eq.
  destruct (go_st_GetParamDenom s); cbn [obind]; [|reflexivity|reflexivity]. destruct (sdk_NewCoin _ 0); reflexivity.
Qed.

Lemma spec_IsLocked (addr_string : list N -> go_addr) s a :
  go_st_IsLocked addr_string s a =
  do x <- rd_locked (addr_string a) (okv_get s kparams) (okv_get s (klocked a)); Ok (Coin_IsPositive (LockedUnd_Amount x)).
Proof. unfold go_st_IsLocked. rewrite spec_GetLockedUndForAccount. reflexivity. Qed.

(* the owner string is decoded BEFORE the amount is checked: a bad owner wins over a negative amount *)
Lemma spec_SetLockedUndForAccount (bech32 : go_addr -> outcome (list N)) s x :
  go_st_SetLockedUndForAccount bech32 s x =
  do owner <- bech32 (LockedUnd_Owner x);
  if Coin_IsNegative (LockedUnd_Amount x) then Err STORE_ERR
  else Ok (okv_set s (klocked owner) (EV_LockedUnd x), tt).
Proof.
  unfold go_st_SetLockedUndForAccount, enterprise_marshal_LockedUnd.
  destruct (bech32 (LockedUnd_Owner x)); walk; try reflexivity; destruct (Coin_IsNegative _); walk; reflexivity.
Qed.

Lemma spec_GetLockedUndAmountForAccount (addr_string : list N -> go_addr) s a :
  go_st_GetLockedUndAmountForAccount addr_string s a =
  do x <- rd_locked (addr_string a) (okv_get s kparams) (okv_get s (klocked a)); Ok (LockedUnd_Amount x).
Proof. unfold go_st_GetLockedUndAmountForAccount. rewrite spec_GetLockedUndForAccount. reflexivity. Qed.

Lemma spec_GetAllLockedUndAccountsIterator s :
  go_st_GetAllLockedUndAccountsIterator s = Ok (okv_prefix s ent_prefix_locked).
Proof. unfold go_st_GetAllLockedUndAccountsIterator, okv_iter_prefix. walk. reflexivity. Qed.

Lemma spec_GetAllLockedUnds s : go_st_GetAllLockedUnds s = decode_all dec_locked (okv_prefix s ent_prefix_locked).
Proof.
  unfold go_st_GetAllLockedUnds. cbv zeta. rewrite spec_GetAllLockedUndAccountsIterator. cbn [obind].
  rewrite obind_ret.
  rewrite (iterate_ext_dec _ dec_locked) by (intros k v; apply obind_ret).
  rewrite (iterate_append_total dec_locked). cbn [app]. apply obind_ret.
Qed.

(* ================================================================== *)
(* every writer is ONE cell                                             *)
(* ================================================================== *)

(* [s'] is [s] with the one cell at the key of [k] set or deleted *)
Definition touches (k : ent_key) (s s' : store) : Prop :=
  (exists v, s' = okv_set s (ent_encode k) v) \/ s' = okv_del s (ent_encode k).

Lemma touches_sorted k s s' : touches k s s' -> okv_sorted s = true -> okv_sorted s' = true.
Proof. intros [[v ->]| ->] Hs; [apply set_sorted | apply del_sorted]; exact Hs. Qed.
Lemma touches_get k s s' k' : touches k s s' -> k' <> ent_encode k -> okv_get s' k' = okv_get s k'.
Proof. intros [[v ->]| ->] Hne; [apply get_set_other | apply get_del_other]; exact Hne. Qed.
Lemma touches_prefix k s s' p : touches k s s' -> is_prefix p (ent_encode k) = false -> okv_prefix s' p = okv_prefix s p.
Proof. intros [[v ->]| ->] Hp; [apply prefix_set_other | apply prefix_del_other]; exact Hp. Qed.

Ltac ok_inv E := injection E as E; try (symmetry in E).

Section WithAddr.
Variable bech32 : go_addr -> outcome (list N).
Variable addr_string : list N -> go_addr.
(* a lemma depends on a conversion only if its statement does *)
Set Default Proof Using "Type".

(* the exact effect of a successful writer (and what its success tells about the arguments) *)
Lemma eff_SetParams s p s' : go_st_SetParams s p = Ok (s', tt) ->
  go_Params_Validate p = Ok tt /\ s' = okv_set s kparams (EV_Params p).
Proof.
  rewrite spec_SetParams. destruct (go_Params_Validate p) as [[]|c|c]; cbn [obind]; intros E; try discriminate E.
  ok_inv E. split; [reflexivity | exact E].
Qed.
Lemma eff_SetHighestPurchaseOrderID s id s' : go_st_SetHighestPurchaseOrderID s id = Ok (s', tt) ->
  s' = okv_set s khighest (EV_bytes (be64 (Z.to_N id))).
Proof. rewrite spec_SetHighestPurchaseOrderID. intros E. ok_inv E. exact E. Qed.
Lemma eff_AddPoToRaisedQueue s id s' : go_st_AddPoToRaisedQueue s id = Ok (s', tt) ->
  s' = okv_set s (kraised id) (EV_bytes (be64 (Z.to_N id))).
Proof. rewrite spec_AddPoToRaisedQueue. intros E. ok_inv E. exact E. Qed.
Lemma eff_RemovePurchaseOrderFromRaisedQueue s id s' : go_st_RemovePurchaseOrderFromRaisedQueue s id = Ok (s', tt) ->
  s' = okv_del s (kraised id).
Proof. rewrite spec_RemovePurchaseOrderFromRaisedQueue. intros E. ok_inv E. exact E. Qed.
Lemma eff_AddPoToAcceptedQueue s id s' : go_st_AddPoToAcceptedQueue s id = Ok (s', tt) ->
  s' = okv_set s (kaccepted id) (EV_bytes (be64 (Z.to_N id))).
Proof. rewrite spec_AddPoToAcceptedQueue. intros E. ok_inv E. exact E. Qed.
Lemma eff_RemovePurchaseOrderFromAcceptedQueue s id s' : go_st_RemovePurchaseOrderFromAcceptedQueue s id = Ok (s', tt) ->
  s' = okv_del s (kaccepted id).
Proof. rewrite spec_RemovePurchaseOrderFromAcceptedQueue. intros E. ok_inv E. exact E. Qed.
Lemma eff_SetPurchaseOrder s po s' : go_st_SetPurchaseOrder s po = Ok (s', tt) ->
  po_status_ok (EnterpriseUndPurchaseOrder_Status po) = true /\
  s' = okv_set s (kpo (EnterpriseUndPurchaseOrder_Id po)) (EV_EnterpriseUndPurchaseOrder po).
Proof.
  rewrite spec_SetPurchaseOrder. destruct (po_status_ok _); intros E; [|discriminate E].
  ok_inv E. split; [reflexivity | exact E].
Qed.
Lemma eff_AddAddressToWhitelist s a s' : go_st_AddAddressToWhitelist s a = Ok (s', tt) ->
  a <> [] /\ s' = okv_set s (kwl a) (EV_bytes a).
Proof.
  rewrite spec_AddAddressToWhitelist. destruct a; intros E; [discriminate E|]. ok_inv E. split; [discriminate | exact E].
Qed.
Lemma eff_RemoveAddressFromWhitelist s a s' : go_st_RemoveAddressFromWhitelist s a = Ok (s', tt) ->
  a <> [] /\ s' = okv_del s (kwl a).
Proof.
  rewrite spec_RemoveAddressFromWhitelist. destruct a; intros E; [discriminate E|]. ok_inv E. split; [discriminate | exact E].
Qed.
Lemma eff_SetTotalLockedUnd s c s' : go_st_SetTotalLockedUnd s c = Ok (s', tt) -> s' = okv_set s ktotlocked (EV_Coin c).
Proof. rewrite spec_SetTotalLockedUnd. intros E. ok_inv E. exact E. Qed.
Lemma eff_SetTotalSpentEFUND s c s' : go_st_SetTotalSpentEFUND s c = Ok (s', tt) -> s' = okv_set s ktotspent (EV_Coin c).
Proof. rewrite spec_SetTotalSpentEFUND. intros E. ok_inv E. exact E. Qed.
Lemma eff_SetSpentEFUNDForAccount s x s' : go_st_SetSpentEFUNDForAccount bech32 s x = Ok (s', tt) ->
  exists b, bech32 (SpentEFUND_Owner x) = Ok b /\ s' = okv_set s (kspent b) (EV_SpentEFUND x).
Proof.
  rewrite spec_SetSpentEFUNDForAccount. destruct (bech32 (SpentEFUND_Owner x)) as [b|c|c]; cbn [obind]; intros E;
    try discriminate E. ok_inv E. exists b. split; [reflexivity | exact E].
Qed.
Lemma eff_SetLockedUndForAccount s x s' : go_st_SetLockedUndForAccount bech32 s x = Ok (s', tt) ->
  exists b, bech32 (LockedUnd_Owner x) = Ok b /\ Coin_IsNegative (LockedUnd_Amount x) = false /\
            s' = okv_set s (klocked b) (EV_LockedUnd x).
Proof.
  rewrite spec_SetLockedUndForAccount. destruct (bech32 (LockedUnd_Owner x)) as [b|c|c]; cbn [obind]; intros E;
    try discriminate E. destruct (Coin_IsNegative _); [discriminate E|]. ok_inv E. exists b. repeat split. exact E.
Qed.

(* each writer touches one cell, of its own constructor *)
Lemma W_params s s' : (exists p, go_st_SetParams s p = Ok (s', tt)) -> touches EkParams s s'.
Proof. intros [p E]. apply eff_SetParams in E. destruct E as [_ ->]. left. eauto. Qed.
Lemma W_highest s s' : (exists id, go_st_SetHighestPurchaseOrderID s id = Ok (s', tt)) -> touches EkHighestPO s s'.
Proof. intros [p E]. apply eff_SetHighestPurchaseOrderID in E. subst s'. left. eauto. Qed.
Lemma W_raised s s' :
  (exists id, go_st_AddPoToRaisedQueue s id = Ok (s', tt)) \/
  (exists id, go_st_RemovePurchaseOrderFromRaisedQueue s id = Ok (s', tt)) -> exists n, touches (EkRaised n) s s'.
Proof.
  intros [[id E]|[id E]].
  - apply eff_AddPoToRaisedQueue in E. subst s'. eexists. left. eauto.
  - apply eff_RemovePurchaseOrderFromRaisedQueue in E. subst s'. eexists. right. reflexivity.
Qed.
Lemma W_accepted s s' :
  (exists id, go_st_AddPoToAcceptedQueue s id = Ok (s', tt)) \/
  (exists id, go_st_RemovePurchaseOrderFromAcceptedQueue s id = Ok (s', tt)) -> exists n, touches (EkAccepted n) s s'.
Proof.
  intros [[id E]|[id E]].
  - apply eff_AddPoToAcceptedQueue in E. subst s'. eexists. left. eauto.
  - apply eff_RemovePurchaseOrderFromAcceptedQueue in E. subst s'. eexists. right. reflexivity.
Qed.
Lemma W_po s s' : (exists po, go_st_SetPurchaseOrder s po = Ok (s', tt)) -> exists n, touches (EkPO n) s s'.
Proof. intros [po E]. apply eff_SetPurchaseOrder in E. destruct E as [_ ->]. eexists. left. eauto. Qed.
Lemma W_wl s s' :
  (exists a, go_st_AddAddressToWhitelist s a = Ok (s', tt)) \/
  (exists a, go_st_RemoveAddressFromWhitelist s a = Ok (s', tt)) -> exists a, touches (EkWhitelist a) s s'.
Proof.
  intros [[a E]|[a E]].
  - apply eff_AddAddressToWhitelist in E. destruct E as [_ ->]. eexists. left. eauto.
  - apply eff_RemoveAddressFromWhitelist in E. destruct E as [_ ->]. eexists. right. reflexivity.
Qed.
Lemma W_totlocked s s' : (exists c, go_st_SetTotalLockedUnd s c = Ok (s', tt)) -> touches EkTotalLocked s s'.
Proof. intros [c E]. apply eff_SetTotalLockedUnd in E. subst s'. left. eauto. Qed.
Lemma W_totspent s s' : (exists c, go_st_SetTotalSpentEFUND s c = Ok (s', tt)) -> touches EkTotalSpent s s'.
Proof. intros [c E]. apply eff_SetTotalSpentEFUND in E. subst s'. left. eauto. Qed.
Lemma W_spent s s' : (exists x, go_st_SetSpentEFUNDForAccount bech32 s x = Ok (s', tt)) -> exists a, touches (EkSpent a) s s'.
Proof. intros [x E]. apply eff_SetSpentEFUNDForAccount in E. destruct E as [b [_ ->]]. eexists. left. eauto. Qed.
Lemma W_locked s s' : (exists x, go_st_SetLockedUndForAccount bech32 s x = Ok (s', tt)) -> exists a, touches (EkLocked a) s s'.
Proof. intros [x E]. apply eff_SetLockedUndForAccount in E. destruct E as [b [_ [_ ->]]]. eexists. left. eauto. Qed.

Theorem writers_touch_one_cell s s' :
  ((exists p, go_st_SetParams s p = Ok (s', tt)) -> touches EkParams s s') /\
  ((exists id, go_st_SetHighestPurchaseOrderID s id = Ok (s', tt)) -> touches EkHighestPO s s') /\
  ((exists id, go_st_AddPoToRaisedQueue s id = Ok (s', tt)) \/
   (exists id, go_st_RemovePurchaseOrderFromRaisedQueue s id = Ok (s', tt)) -> exists n, touches (EkRaised n) s s') /\
  ((exists id, go_st_AddPoToAcceptedQueue s id = Ok (s', tt)) \/
   (exists id, go_st_RemovePurchaseOrderFromAcceptedQueue s id = Ok (s', tt)) -> exists n, touches (EkAccepted n) s s') /\
  ((exists po, go_st_SetPurchaseOrder s po = Ok (s', tt)) -> exists n, touches (EkPO n) s s') /\
  ((exists a, go_st_AddAddressToWhitelist s a = Ok (s', tt)) \/
   (exists a, go_st_RemoveAddressFromWhitelist s a = Ok (s', tt)) -> exists a, touches (EkWhitelist a) s s') /\
  ((exists c, go_st_SetTotalLockedUnd s c = Ok (s', tt)) -> touches EkTotalLocked s s') /\
  ((exists c, go_st_SetTotalSpentEFUND s c = Ok (s', tt)) -> touches EkTotalSpent s s') /\
  ((exists x, go_st_SetSpentEFUNDForAccount bech32 s x = Ok (s', tt)) -> exists a, touches (EkSpent a) s s') /\
  ((exists x, go_st_SetLockedUndForAccount bech32 s x = Ok (s', tt)) -> exists a, touches (EkLocked a) s s').
Proof.
  repeat split; [apply W_params | apply W_highest | apply W_raised | apply W_accepted | apply W_po | apply W_wl
                | apply W_totlocked | apply W_totspent | apply W_spent | apply W_locked].
Qed.

(* any successful writer call (the 13 writers of the module) *)
Definition ent_write (s s' : store) : Prop :=
  (exists p, go_st_SetParams s p = Ok (s', tt)) \/
  (exists id, go_st_SetHighestPurchaseOrderID s id = Ok (s', tt)) \/
  (exists id, go_st_AddPoToRaisedQueue s id = Ok (s', tt)) \/
  (exists id, go_st_RemovePurchaseOrderFromRaisedQueue s id = Ok (s', tt)) \/
  (exists id, go_st_AddPoToAcceptedQueue s id = Ok (s', tt)) \/
  (exists id, go_st_RemovePurchaseOrderFromAcceptedQueue s id = Ok (s', tt)) \/
  (exists po, go_st_SetPurchaseOrder s po = Ok (s', tt)) \/
  (exists a, go_st_AddAddressToWhitelist s a = Ok (s', tt)) \/
  (exists a, go_st_RemoveAddressFromWhitelist s a = Ok (s', tt)) \/
  (exists c, go_st_SetTotalLockedUnd s c = Ok (s', tt)) \/
  (exists c, go_st_SetTotalSpentEFUND s c = Ok (s', tt)) \/
  (exists x, go_st_SetSpentEFUNDForAccount bech32 s x = Ok (s', tt)) \/
  (exists x, go_st_SetLockedUndForAccount bech32 s x = Ok (s', tt)).

Lemma ent_write_touches s s' : ent_write s s' -> exists k, touches k s s'.
Proof.
  intros H. repeat (destruct H as [H|H]).
  - apply W_params in H. eauto.
  - apply W_highest in H. eauto.
  - destruct (W_raised s s' (or_introl H)). eauto.
  - destruct (W_raised s s' (or_intror H)). eauto.
  - destruct (W_accepted s s' (or_introl H)). eauto.
  - destruct (W_accepted s s' (or_intror H)). eauto.
  - destruct (W_po s s' H). eauto.
  - destruct (W_wl s s' (or_introl H)). eauto.
  - destruct (W_wl s s' (or_intror H)). eauto.
  - apply W_totlocked in H. eauto.
  - apply W_totspent in H. eauto.
  - destruct (W_spent s s' H). eauto.
  - destruct (W_locked s s' H). eauto.
Qed.

Theorem writers_preserve_sorted s s' : okv_sorted s = true -> ent_write s s' -> okv_sorted s' = true.
Proof. intros Hs H. destruct (ent_write_touches _ _ H) as [k T]. eapply touches_sorted; eassumption. Qed.

(* ================================================================== *)
(* (c) MAP LAWS                                                         *)
(* ================================================================== *)

(* ---- params ---- *)
Theorem ryw_params s p s' : go_st_SetParams s p = Ok (s', tt) ->
  go_st_GetParams s' = Ok p /\
  go_st_GetParamDenom s' = Ok (Params_Denom p) /\
  go_st_GetParamMinAccepts s' = Ok (Params_MinAccepts p) /\
  go_st_GetParamDecisionLimit s' = Ok (Params_DecisionTimeLimit p) /\
  go_st_GetParamEntSigners s' = Ok (Params_EntSigners p).
Proof.
  intros E. apply eff_SetParams in E. destruct E as [_ ->].
  rewrite spec_GetParamDenom, spec_GetParamMinAccepts, spec_GetParamDecisionLimit, spec_GetParamEntSigners, spec_GetParams.
  rewrite get_set_same. repeat split.
Qed.
(* SetParams validates first: invalid parameters are refused with the validation's outcome, nothing is written *)
Theorem SetParams_guard s p : go_Params_Validate p <> Ok tt -> forall s', go_st_SetParams s p <> Ok (s', tt).
Proof. intros H s' E. apply eff_SetParams in E. destruct E as [E _]. contradiction. Qed.
(* nothing stored: the zero Params *)
Theorem params_default s : okv_get s kparams = None -> go_st_GetParams s = Ok zero_go_Params.
Proof. intros E. rewrite spec_GetParams, E. reflexivity. Qed.

(* ---- highest purchase order id ---- *)
Theorem ryw_highest s id s' : 0 <= id < 2 ^ 64 ->
  go_st_SetHighestPurchaseOrderID s id = Ok (s', tt) -> go_st_GetHighestPurchaseOrderID s' = Ok id.
Proof.
  intros Hid E. apply eff_SetHighestPurchaseOrderID in E. subst s'.
  rewrite spec_GetHighestPurchaseOrderID, get_set_same. cbn [rd_highest]. apply id_from_bytes, Hid.
Qed.
Theorem highest_default s : okv_get s khighest = None -> go_st_GetHighestPurchaseOrderID s = Err STORE_ERR.
Proof. intros E. rewrite spec_GetHighestPurchaseOrderID, E. reflexivity. Qed.
(* the range hypothesis is what a Go uint64 guarantees; without it the counter does not read back *)
Example ryw_highest_refuted :
  (do r <- go_st_SetHighestPurchaseOrderID [] (2 ^ 64); go_st_GetHighestPurchaseOrderID (fst r)) = Ok 0 /\
  (do r <- go_st_SetHighestPurchaseOrderID [] (-1); go_st_GetHighestPurchaseOrderID (fst r)) = Ok 0.
Proof. vm_compute. split; reflexivity. Qed.

(* ---- purchase orders ---- *)
Theorem ryw_purchase_order s po s' : go_st_SetPurchaseOrder s po = Ok (s', tt) ->
  go_st_GetPurchaseOrder s' (EnterpriseUndPurchaseOrder_Id po) = Ok (po, true) /\
  go_st_PurchaseOrderExists s' (EnterpriseUndPurchaseOrder_Id po) = Ok true.
Proof.
  intros E. apply eff_SetPurchaseOrder in E. destruct E as [_ ->].
  rewrite spec_GetPurchaseOrder, spec_PurchaseOrderExists, get_set_same. split; reflexivity.
Qed.
Theorem purchase_order_other s po s' id : go_st_SetPurchaseOrder s po = Ok (s', tt) ->
  0 <= EnterpriseUndPurchaseOrder_Id po < 2 ^ 64 -> 0 <= id < 2 ^ 64 -> id <> EnterpriseUndPurchaseOrder_Id po ->
  go_st_GetPurchaseOrder s' id = go_st_GetPurchaseOrder s id /\
  go_st_PurchaseOrderExists s' id = go_st_PurchaseOrderExists s id.
Proof.
  intros E H1 H2 Hne. apply eff_SetPurchaseOrder in E. destruct E as [_ ->].
  rewrite !spec_GetPurchaseOrder, !spec_PurchaseOrderExists.
  rewrite get_set_other by (intros X; apply kpo_inj in X; [contradiction | assumption | assumption]).
  split; reflexivity.
Qed.
Theorem purchase_order_default s id :
  go_st_PurchaseOrderExists s id = Ok false -> go_st_GetPurchaseOrder s id = Ok (zero_go_EnterpriseUndPurchaseOrder, false).
Proof.
  rewrite spec_PurchaseOrderExists, spec_GetPurchaseOrder. destruct (okv_get s (kpo id)); cbn [rd_has]; intros E;
    [discriminate E | reflexivity].
Qed.
Theorem SetPurchaseOrder_guard s po :
  ~ (1 <= EnterpriseUndPurchaseOrder_Status po <= 4) -> go_st_SetPurchaseOrder s po = Err STORE_ERR.
Proof.
  intros H. rewrite spec_SetPurchaseOrder. destruct (po_status_ok _) eqn:E; [|reflexivity].
  apply po_status_ok_spec in E. contradiction.
Qed.
Theorem SetPurchaseOrder_ok s po : 1 <= EnterpriseUndPurchaseOrder_Status po <= 4 ->
  go_st_SetPurchaseOrder s po =
  Ok (okv_set s (kpo (EnterpriseUndPurchaseOrder_Id po)) (EV_EnterpriseUndPurchaseOrder po), tt).
Proof. intros H. rewrite spec_SetPurchaseOrder. apply po_status_ok_spec in H. rewrite H. reflexivity. Qed.
(* two ids that differ by 2^64 share a key: outside the uint64 range a write does reach "another" id *)
Example purchase_order_other_refuted :
  let po := mk_go_EnterpriseUndPurchaseOrder (2 ^ 64) 5 (1, 7) 1 0 0 [] in
  go_st_PurchaseOrderExists [] 0 = Ok false /\
  (do r <- go_st_SetPurchaseOrder [] po; go_st_PurchaseOrderExists (fst r) 0) = Ok true.
Proof. vm_compute. split; reflexivity. Qed.

(* ---- the two queues ---- *)
Theorem ryw_raised_add s id s' : go_st_AddPoToRaisedQueue s id = Ok (s', tt) ->
  go_st_PurchaseOrderIsInRaisedQueue s' id = Ok true.
Proof.
  intros E. apply eff_AddPoToRaisedQueue in E. subst s'. rewrite spec_PurchaseOrderIsInRaisedQueue, get_set_same. reflexivity.
Qed.
Theorem ryw_raised_remove s id s' : okv_sorted s = true -> go_st_RemovePurchaseOrderFromRaisedQueue s id = Ok (s', tt) ->
  go_st_PurchaseOrderIsInRaisedQueue s' id = Ok false.
Proof.
  intros Hs E. apply eff_RemovePurchaseOrderFromRaisedQueue in E. subst s'.
  rewrite spec_PurchaseOrderIsInRaisedQueue, get_del_same by exact Hs. reflexivity.
Qed.
Theorem raised_other s id s' id' :
  go_st_AddPoToRaisedQueue s id = Ok (s', tt) \/ go_st_RemovePurchaseOrderFromRaisedQueue s id = Ok (s', tt) ->
  0 <= id < 2 ^ 64 -> 0 <= id' < 2 ^ 64 -> id' <> id ->
  go_st_PurchaseOrderIsInRaisedQueue s' id' = go_st_PurchaseOrderIsInRaisedQueue s id'.
Proof.
  intros E H1 H2 Hne. rewrite !spec_PurchaseOrderIsInRaisedQueue.
  assert (K : kraised id' <> kraised id) by (intros X; apply kraised_inj in X; [contradiction | assumption | assumption]).
  destruct E as [E|E].
  - apply eff_AddPoToRaisedQueue in E. subst s'. rewrite get_set_other by exact K. reflexivity.
  - apply eff_RemovePurchaseOrderFromRaisedQueue in E. subst s'. rewrite get_del_other by exact K. reflexivity.
Qed.
(* removing an id that is not queued changes nothing *)
Theorem raised_remove_absent s id : go_st_PurchaseOrderIsInRaisedQueue s id = Ok false ->
  go_st_RemovePurchaseOrderFromRaisedQueue s id = Ok (s, tt).
Proof.
  rewrite spec_PurchaseOrderIsInRaisedQueue, spec_RemovePurchaseOrderFromRaisedQueue.
  destruct (okv_get s (kraised id)) eqn:E; cbn [rd_has]; intros X; [discriminate X|]. rewrite del_absent by exact E. reflexivity.
Qed.

Theorem ryw_accepted_add s id s' : go_st_AddPoToAcceptedQueue s id = Ok (s', tt) ->
  go_st_PurchaseOrderIsInAcceptedQueue s' id = Ok true.
Proof.
  intros E. apply eff_AddPoToAcceptedQueue in E. subst s'. rewrite spec_PurchaseOrderIsInAcceptedQueue, get_set_same. reflexivity.
Qed.
Theorem ryw_accepted_remove s id s' : okv_sorted s = true -> go_st_RemovePurchaseOrderFromAcceptedQueue s id = Ok (s', tt) ->
  go_st_PurchaseOrderIsInAcceptedQueue s' id = Ok false.
Proof.
  intros Hs E. apply eff_RemovePurchaseOrderFromAcceptedQueue in E. subst s'.
  rewrite spec_PurchaseOrderIsInAcceptedQueue, get_del_same by exact Hs. reflexivity.
Qed.
Theorem accepted_other s id s' id' :
  go_st_AddPoToAcceptedQueue s id = Ok (s', tt) \/ go_st_RemovePurchaseOrderFromAcceptedQueue s id = Ok (s', tt) ->
  0 <= id < 2 ^ 64 -> 0 <= id' < 2 ^ 64 -> id' <> id ->
  go_st_PurchaseOrderIsInAcceptedQueue s' id' = go_st_PurchaseOrderIsInAcceptedQueue s id'.
Proof.
  intros E H1 H2 Hne. rewrite !spec_PurchaseOrderIsInAcceptedQueue.
  assert (K : kaccepted id' <> kaccepted id) by (intros X; apply kaccepted_inj in X; [contradiction | assumption | assumption]).
  destruct E as [E|E].
  - apply eff_AddPoToAcceptedQueue in E. subst s'. rewrite get_set_other by exact K. reflexivity.
  - apply eff_RemovePurchaseOrderFromAcceptedQueue in E. subst s'. rewrite get_del_other by exact K. reflexivity.
Qed.
Theorem accepted_remove_absent s id : go_st_PurchaseOrderIsInAcceptedQueue s id = Ok false ->
  go_st_RemovePurchaseOrderFromAcceptedQueue s id = Ok (s, tt).
Proof.
  rewrite spec_PurchaseOrderIsInAcceptedQueue, spec_RemovePurchaseOrderFromAcceptedQueue.
  destruct (okv_get s (kaccepted id)) eqn:E; cbn [rd_has]; intros X; [discriminate X|]. rewrite del_absent by exact E. reflexivity.
Qed.
(* the sortedness hypothesis of the delete laws: on an unsorted list (not a store) a duplicate key survives a delete *)
Example ryw_raised_remove_refuted :
  let s := [(kraised 1, EV_bytes (be64 1)); (kraised 1, EV_bytes (be64 1))] in
  okv_sorted s = false /\
  (do r <- go_st_RemovePurchaseOrderFromRaisedQueue s 1; go_st_PurchaseOrderIsInRaisedQueue (fst r) 1) = Ok true.
Proof. vm_compute. split; reflexivity. Qed.
Example raised_other_refuted :
  go_st_PurchaseOrderIsInRaisedQueue [] 0 = Ok false /\
  (do r <- go_st_AddPoToRaisedQueue [] (2 ^ 64); go_st_PurchaseOrderIsInRaisedQueue (fst r) 0) = Ok true.
Proof. vm_compute. split; reflexivity. Qed.

(* ---- whitelist ---- *)
Theorem ryw_whitelist_add s a s' : go_st_AddAddressToWhitelist s a = Ok (s', tt) ->
  go_st_AddressIsWhitelisted s' a = Ok true.
Proof.
  intros E. apply eff_AddAddressToWhitelist in E. destruct E as [Ha ->].
  rewrite spec_AddressIsWhitelisted, get_set_same. destruct a; [congruence | reflexivity].
Qed.
Theorem ryw_whitelist_remove s a s' : okv_sorted s = true -> go_st_RemoveAddressFromWhitelist s a = Ok (s', tt) ->
  go_st_AddressIsWhitelisted s' a = Ok false.
Proof.
  intros Hs E. apply eff_RemoveAddressFromWhitelist in E. destruct E as [Ha ->].
  rewrite spec_AddressIsWhitelisted, get_del_same by exact Hs. destruct a; reflexivity.
Qed.
(* no hypothesis on the addresses: the whitelist key is injective on all byte strings *)
Theorem whitelist_other s a s' a' :
  go_st_AddAddressToWhitelist s a = Ok (s', tt) \/ go_st_RemoveAddressFromWhitelist s a = Ok (s', tt) ->
  a' <> a -> go_st_AddressIsWhitelisted s' a' = go_st_AddressIsWhitelisted s a'.
Proof.
  intros E Hne. rewrite !spec_AddressIsWhitelisted.
  assert (K : kwl a' <> kwl a) by (intros X; apply kwl_inj in X; contradiction).
  destruct E as [E|E].
  - apply eff_AddAddressToWhitelist in E. destruct E as [_ ->]. rewrite get_set_other by exact K. reflexivity.
  - apply eff_RemoveAddressFromWhitelist in E. destruct E as [_ ->]. rewrite get_del_other by exact K. reflexivity.
Qed.
Theorem whitelist_remove_absent s a : a <> [] -> go_st_AddressIsWhitelisted s a = Ok false ->
  go_st_RemoveAddressFromWhitelist s a = Ok (s, tt).
Proof.
  intros Ha. rewrite spec_AddressIsWhitelisted, spec_RemoveAddressFromWhitelist. destruct a as [|x a]; [congruence|].
  destruct (okv_get s (kwl (x :: a))) eqn:E; cbn [rd_has]; intros X; [discriminate X|]. rewrite del_absent by exact E. reflexivity.
Qed.
(* the EMPTY address: never whitelisted, refused by Add and Remove, whatever the store holds *)
Theorem whitelist_empty_address s :
  go_st_AddressIsWhitelisted s [] = Ok false /\
  go_st_AddAddressToWhitelist s [] = Err STORE_ERR_SDK /\
  go_st_RemoveAddressFromWhitelist s [] = Err STORE_ERR_SDK.
Proof. rewrite spec_AddressIsWhitelisted, spec_AddAddressToWhitelist, spec_RemoveAddressFromWhitelist. repeat split. Qed.

(* ---- totals ---- *)
Theorem ryw_total_locked s c s' : go_st_SetTotalLockedUnd s c = Ok (s', tt) -> go_st_GetTotalLockedUnd s' = Ok c.
Proof. intros E. apply eff_SetTotalLockedUnd in E. subst s'. rewrite spec_GetTotalLockedUnd, get_set_same. reflexivity. Qed.
Theorem ryw_total_spent s c s' : go_st_SetTotalSpentEFUND s c = Ok (s', tt) -> go_st_GetTotalSpentEFUND s' = Ok c.
Proof. intros E. apply eff_SetTotalSpentEFUND in E. subst s'. rewrite spec_GetTotalSpentEFUND, get_set_same. reflexivity. Qed.
(* nothing stored: the zero coin of the PARAMETER denomination *)
Theorem totals_default s p : go_st_GetParams s = Ok p ->
  (okv_get s ktotlocked = None -> go_st_GetTotalLockedUnd s = Ok (Params_Denom p, 0)) /\
  (okv_get s ktotspent = None -> go_st_GetTotalSpentEFUND s = Ok (Params_Denom p, 0)).
Proof.
  rewrite spec_GetParams, spec_GetTotalLockedUnd, spec_GetTotalSpentEFUND. intros Hp.
  split; intros E; rewrite E; cbn [rd_total]; unfold rd_zero_coin; rewrite Hp; reflexivity.
Qed.

(* ---- locked FUND per account ---- *)
Theorem ryw_locked s x s' b : go_st_SetLockedUndForAccount bech32 s x = Ok (s', tt) -> bech32 (LockedUnd_Owner x) = Ok b ->
  go_st_AccountHasLockedUnd s' b = Ok true /\
  go_st_GetLockedUndForAccount addr_string s' b = Ok x /\
  go_st_GetLockedUndAmountForAccount addr_string s' b = Ok (LockedUnd_Amount x) /\
  go_st_IsLocked addr_string s' b = Ok (Coin_IsPositive (LockedUnd_Amount x)).
Proof.
  intros E Hb. apply eff_SetLockedUndForAccount in E. destruct E as [b' [Hb' [_ ->]]].
  assert (b' = b) by congruence. subst b'.
  rewrite spec_AccountHasLockedUnd, spec_GetLockedUndForAccount, spec_GetLockedUndAmountForAccount, spec_IsLocked.
  rewrite get_set_same. repeat split.
Qed.
(* a successful SetLockedUndForAccount decoded the owner and saw a non-negative amount *)
Theorem SetLockedUndForAccount_ok s x s' : go_st_SetLockedUndForAccount bech32 s x = Ok (s', tt) ->
  exists b, bech32 (LockedUnd_Owner x) = Ok b /\ 0 <= snd (LockedUnd_Amount x).
Proof.
  intros E. apply eff_SetLockedUndForAccount in E. destruct E as [b [Hb [Hn _]]]. exists b. split; [exact Hb|].
  unfold Coin_IsNegative in Hn. apply Z.ltb_ge in Hn. exact Hn.
Qed.
Theorem SetLockedUndForAccount_guard s x b : bech32 (LockedUnd_Owner x) = Ok b -> snd (LockedUnd_Amount x) < 0 ->
  go_st_SetLockedUndForAccount bech32 s x = Err STORE_ERR.
Proof.
  intros Hb Hn. rewrite spec_SetLockedUndForAccount, Hb. cbn [obind]. unfold Coin_IsNegative.
  apply Z.ltb_lt in Hn. rewrite Hn. reflexivity.
Qed.
Theorem locked_other s x s' b b' : go_st_SetLockedUndForAccount bech32 s x = Ok (s', tt) -> bech32 (LockedUnd_Owner x) = Ok b ->
  b' <> b ->
  go_st_AccountHasLockedUnd s' b' = go_st_AccountHasLockedUnd s b' /\
  go_st_GetLockedUndForAccount addr_string s' b' = go_st_GetLockedUndForAccount addr_string s b' /\
  go_st_GetLockedUndAmountForAccount addr_string s' b' = go_st_GetLockedUndAmountForAccount addr_string s b' /\
  go_st_IsLocked addr_string s' b' = go_st_IsLocked addr_string s b'.
Proof.
  intros E Hb Hne. apply eff_SetLockedUndForAccount in E. destruct E as [b0 [Hb0 [_ ->]]].
  assert (b0 = b) by congruence. subst b0.
  rewrite !spec_AccountHasLockedUnd, !spec_GetLockedUndForAccount, !spec_GetLockedUndAmountForAccount, !spec_IsLocked.
  rewrite (get_set_other _ _ _ (klocked b')) by (intros X; apply klocked_inj in X; contradiction).
  rewrite (get_set_other _ _ _ kparams) by discriminate. repeat split.
Qed.
Theorem locked_default s a p : go_st_GetParams s = Ok p -> go_st_AccountHasLockedUnd s a = Ok false ->
  go_st_GetLockedUndForAccount addr_string s a = Ok (mk_go_LockedUnd (addr_string a) (Params_Denom p, 0)) /\
  go_st_GetLockedUndAmountForAccount addr_string s a = Ok (Params_Denom p, 0) /\
  go_st_IsLocked addr_string s a = Ok false.
Proof.
  rewrite spec_GetParams, spec_AccountHasLockedUnd, spec_GetLockedUndForAccount, spec_GetLockedUndAmountForAccount, spec_IsLocked.
  intros Hp. destruct (okv_get s (klocked a)); cbn [rd_has]; intros X; [discriminate X|].
  cbn [rd_locked]. unfold rd_zero_coin. rewrite Hp. repeat split.
Qed.

(* ---- spent eFUND per account ---- *)
Theorem ryw_spent s x s' b : go_st_SetSpentEFUNDForAccount bech32 s x = Ok (s', tt) -> bech32 (SpentEFUND_Owner x) = Ok b ->
  go_st_AccountHasSpentEFUND s' b = Ok true /\
  go_st_GetSpentEFUNDForAccount addr_string s' b = Ok x /\
  go_st_GetSpentEFUNDAmountForAccount addr_string s' b = Ok (SpentEFUND_Amount x).
Proof.
  intros E Hb. apply eff_SetSpentEFUNDForAccount in E. destruct E as [b' [Hb' ->]].
  assert (b' = b) by congruence. subst b'.
  rewrite spec_AccountHasSpentEFUND, spec_GetSpentEFUNDForAccount, spec_GetSpentEFUNDAmountForAccount.
  rewrite get_set_same. repeat split.
Qed.
Theorem spent_other s x s' b b' : go_st_SetSpentEFUNDForAccount bech32 s x = Ok (s', tt) -> bech32 (SpentEFUND_Owner x) = Ok b ->
  b' <> b ->
  go_st_AccountHasSpentEFUND s' b' = go_st_AccountHasSpentEFUND s b' /\
  go_st_GetSpentEFUNDForAccount addr_string s' b' = go_st_GetSpentEFUNDForAccount addr_string s b' /\
  go_st_GetSpentEFUNDAmountForAccount addr_string s' b' = go_st_GetSpentEFUNDAmountForAccount addr_string s b'.
Proof.
  intros E Hb Hne. apply eff_SetSpentEFUNDForAccount in E. destruct E as [b0 [Hb0 ->]].
  assert (b0 = b) by congruence. subst b0.
  rewrite !spec_AccountHasSpentEFUND, !spec_GetSpentEFUNDForAccount, !spec_GetSpentEFUNDAmountForAccount.
  rewrite (get_set_other _ _ _ (kspent b')) by (intros X; apply kspent_inj in X; contradiction).
  rewrite (get_set_other _ _ _ kparams) by discriminate. repeat split.
Qed.
Theorem spent_default s a p : go_st_GetParams s = Ok p -> go_st_AccountHasSpentEFUND s a = Ok false ->
  go_st_GetSpentEFUNDForAccount addr_string s a = Ok (mk_go_SpentEFUND (addr_string a) (Params_Denom p, 0)) /\
  go_st_GetSpentEFUNDAmountForAccount addr_string s a = Ok (Params_Denom p, 0).
Proof.
  rewrite spec_GetParams, spec_AccountHasSpentEFUND, spec_GetSpentEFUNDForAccount, spec_GetSpentEFUNDAmountForAccount.
  intros Hp. destruct (okv_get s (kspent a)); cbn [rd_has]; intros X; [discriminate X|].
  cbn [rd_spent]. unfold rd_zero_coin. rewrite Hp. repeat split.
Qed.

(* ================================================================== *)
(* (d) ISOLATION across kinds                                           *)
(* ================================================================== *)
(* Generic step: a writer touches ONE cell, at the key of [k]; a reader kind depends only on the cells of one
   constructor / on the listing under that constructor's prefix byte (and, for the four "amount" readers, on the
   params cell); keys of different constructors differ and lie under different prefix bytes. *)

Ltac other_key Hk :=
  match goal with
  | |- _ <> ent_encode ?k => destruct k; cbn [ent_encode]; try discriminate; try congruence;
                              exfalso; eapply Hk; reflexivity
  end.
Ltac other_prefix Hk :=
  match goal with
  | |- is_prefix _ (ent_encode ?k) = false => destruct k; try reflexivity; exfalso; eapply Hk; reflexivity
  end.
Lemma iso_params k s s' : touches k s s' -> k <> EkParams ->
  go_st_GetParams s' = go_st_GetParams s /\
  go_st_GetParamDenom s' = go_st_GetParamDenom s /\
  go_st_GetParamMinAccepts s' = go_st_GetParamMinAccepts s /\
  go_st_GetParamDecisionLimit s' = go_st_GetParamDecisionLimit s /\
  go_st_GetParamEntSigners s' = go_st_GetParamEntSigners s.
Proof.
  intros T Hk. assert (G : okv_get s' kparams = okv_get s kparams) by (apply (touches_get _ _ _ _ T); other_key Hk).
  rewrite !spec_GetParamDenom, !spec_GetParamMinAccepts, !spec_GetParamDecisionLimit, !spec_GetParamEntSigners, !spec_GetParams, G.
  repeat split.
Qed.

Lemma iso_highest k s s' : touches k s s' -> k <> EkHighestPO ->
  go_st_GetHighestPurchaseOrderID s' = go_st_GetHighestPurchaseOrderID s.
Proof.
  intros T Hk. rewrite !spec_GetHighestPurchaseOrderID. rewrite (touches_get _ _ _ _ T) by other_key Hk. reflexivity.
Qed.

Lemma iso_po k s s' : touches k s s' -> (forall id, k <> EkPO id) ->
  (forall id, go_st_PurchaseOrderExists s' id = go_st_PurchaseOrderExists s id) /\
  (forall id, go_st_GetPurchaseOrder s' id = go_st_GetPurchaseOrder s id) /\
  (forall (St : Type) (cb : St -> go_EnterpriseUndPurchaseOrder -> outcome (St * bool)) (st : St),
     go_st_IteratePurchaseOrders s' cb st = go_st_IteratePurchaseOrders s cb st) /\
  go_st_GetAllPurchaseOrders s' = go_st_GetAllPurchaseOrders s.
Proof.
  intros T Hk.
  assert (G : forall id, okv_get s' (kpo id) = okv_get s (kpo id)) by (intros id; apply (touches_get _ _ _ _ T); other_key Hk).
  assert (P : okv_prefix s' ent_prefix_po = okv_prefix s ent_prefix_po) by (apply (touches_prefix _ _ _ _ T); other_prefix Hk).
  repeat split; intros.
  - rewrite !spec_PurchaseOrderExists, G. reflexivity.
  - rewrite !spec_GetPurchaseOrder, G. reflexivity.
  - rewrite !spec_IteratePurchaseOrders, P. reflexivity.
  - rewrite !spec_GetAllPurchaseOrders, P. reflexivity.
Qed.

Lemma iso_raised k s s' : touches k s s' -> (forall id, k <> EkRaised id) ->
  (forall id, go_st_PurchaseOrderIsInRaisedQueue s' id = go_st_PurchaseOrderIsInRaisedQueue s id) /\
  (forall (St : Type) (cb : St -> Z -> outcome (St * bool)) (st : St),
     go_st_IterateRaisedQueue s' cb st = go_st_IterateRaisedQueue s cb st) /\
  go_st_GetAllRaisedPurchaseOrders s' = go_st_GetAllRaisedPurchaseOrders s.
Proof.
  intros T Hk.
  assert (G : forall id, okv_get s' (kraised id) = okv_get s (kraised id)) by (intros id; apply (touches_get _ _ _ _ T); other_key Hk).
  assert (P : okv_prefix s' ent_prefix_raised = okv_prefix s ent_prefix_raised) by (apply (touches_prefix _ _ _ _ T); other_prefix Hk).
  repeat split; intros.
  - rewrite !spec_PurchaseOrderIsInRaisedQueue, G. reflexivity.
  - rewrite !spec_IterateRaisedQueue, P. reflexivity.
  - rewrite !spec_GetAllRaisedPurchaseOrders, P. reflexivity.
Qed.

Lemma iso_accepted k s s' : touches k s s' -> (forall id, k <> EkAccepted id) ->
  (forall id, go_st_PurchaseOrderIsInAcceptedQueue s' id = go_st_PurchaseOrderIsInAcceptedQueue s id) /\
  (forall (St : Type) (cb : St -> Z -> outcome (St * bool)) (st : St),
     go_st_IterateAcceptedQueue s' cb st = go_st_IterateAcceptedQueue s cb st) /\
  go_st_GetAllAcceptedPurchaseOrders s' = go_st_GetAllAcceptedPurchaseOrders s.
Proof.
  intros T Hk.
  assert (G : forall id, okv_get s' (kaccepted id) = okv_get s (kaccepted id)) by (intros id; apply (touches_get _ _ _ _ T); other_key Hk).
  assert (P : okv_prefix s' ent_prefix_accepted = okv_prefix s ent_prefix_accepted) by (apply (touches_prefix _ _ _ _ T); other_prefix Hk).
  repeat split; intros.
  - rewrite !spec_PurchaseOrderIsInAcceptedQueue, G. reflexivity.
  - rewrite !spec_IterateAcceptedQueue, P. reflexivity.
  - rewrite !spec_GetAllAcceptedPurchaseOrders, P. reflexivity.
Qed.

Lemma iso_wl k s s' : touches k s s' -> (forall a, k <> EkWhitelist a) ->
  (forall a, go_st_AddressIsWhitelisted s' a = go_st_AddressIsWhitelisted s a) /\
  (forall (St : Type) (cb : St -> list N -> outcome (St * bool)) (st : St),
     go_st_IterateWhitelist s' cb st = go_st_IterateWhitelist s cb st) /\
  go_st_GetAllWhitelistedAddresses addr_string s' = go_st_GetAllWhitelistedAddresses addr_string s.
Proof.
  intros T Hk.
  assert (G : forall a, okv_get s' (kwl a) = okv_get s (kwl a)) by (intros a; apply (touches_get _ _ _ _ T); other_key Hk).
  assert (P : okv_prefix s' ent_prefix_whitelist = okv_prefix s ent_prefix_whitelist) by (apply (touches_prefix _ _ _ _ T); other_prefix Hk).
  repeat split; intros.
  - rewrite !spec_AddressIsWhitelisted, G. reflexivity.
  - rewrite !spec_IterateWhitelist, P. reflexivity.
  - rewrite !spec_GetAllWhitelistedAddresses, P. reflexivity.
Qed.

Lemma iso_locked_entries k s s' : touches k s s' -> (forall a, k <> EkLocked a) ->
  (forall a, go_st_AccountHasLockedUnd s' a = go_st_AccountHasLockedUnd s a) /\
  go_st_GetAllLockedUndAccountsIterator s' = go_st_GetAllLockedUndAccountsIterator s /\
  go_st_GetAllLockedUnds s' = go_st_GetAllLockedUnds s.
Proof.
  intros T Hk.
  assert (G : forall a, okv_get s' (klocked a) = okv_get s (klocked a)) by (intros a; apply (touches_get _ _ _ _ T); other_key Hk).
  assert (P : okv_prefix s' ent_prefix_locked = okv_prefix s ent_prefix_locked) by (apply (touches_prefix _ _ _ _ T); other_prefix Hk).
  repeat split; intros.
  - rewrite !spec_AccountHasLockedUnd, G. reflexivity.
  - rewrite !spec_GetAllLockedUndAccountsIterator, P. reflexivity.
  - rewrite !spec_GetAllLockedUnds, P. reflexivity.
Qed.

Lemma iso_locked_values k s s' : touches k s s' -> (forall a, k <> EkLocked a) -> k <> EkParams ->
  (forall a, go_st_GetLockedUndForAccount addr_string s' a = go_st_GetLockedUndForAccount addr_string s a) /\
  (forall a, go_st_GetLockedUndAmountForAccount addr_string s' a = go_st_GetLockedUndAmountForAccount addr_string s a) /\
  (forall a, go_st_IsLocked addr_string s' a = go_st_IsLocked addr_string s a).
Proof.
  intros T Hk Hp.
  assert (G : forall a, okv_get s' (klocked a) = okv_get s (klocked a)) by (intros a; apply (touches_get _ _ _ _ T); other_key Hk).
  assert (G' : okv_get s' kparams = okv_get s kparams) by (apply (touches_get _ _ _ _ T); other_key Hp).
  repeat split; intros.
  - rewrite !spec_GetLockedUndForAccount, G, G'. reflexivity.
  - rewrite !spec_GetLockedUndAmountForAccount, G, G'. reflexivity.
  - rewrite !spec_IsLocked, G, G'. reflexivity.
Qed.

Lemma iso_spent_entries k s s' : touches k s s' -> (forall a, k <> EkSpent a) ->
  (forall a, go_st_AccountHasSpentEFUND s' a = go_st_AccountHasSpentEFUND s a) /\
  go_st_GetAllSpentEFUNDAccountsIterator s' = go_st_GetAllSpentEFUNDAccountsIterator s /\
  go_st_GetAllSpentEFUNDs s' = go_st_GetAllSpentEFUNDs s.
Proof.
  intros T Hk.
  assert (G : forall a, okv_get s' (kspent a) = okv_get s (kspent a)) by (intros a; apply (touches_get _ _ _ _ T); other_key Hk).
  assert (P : okv_prefix s' ent_prefix_spent = okv_prefix s ent_prefix_spent) by (apply (touches_prefix _ _ _ _ T); other_prefix Hk).
  repeat split; intros.
  - rewrite !spec_AccountHasSpentEFUND, G. reflexivity.
  - rewrite !spec_GetAllSpentEFUNDAccountsIterator, P. reflexivity.
  - rewrite !spec_GetAllSpentEFUNDs, P. reflexivity.
Qed.

Lemma iso_spent_values k s s' : touches k s s' -> (forall a, k <> EkSpent a) -> k <> EkParams ->
  (forall a, go_st_GetSpentEFUNDForAccount addr_string s' a = go_st_GetSpentEFUNDForAccount addr_string s a) /\
  (forall a, go_st_GetSpentEFUNDAmountForAccount addr_string s' a = go_st_GetSpentEFUNDAmountForAccount addr_string s a).
Proof.
  intros T Hk Hp.
  assert (G : forall a, okv_get s' (kspent a) = okv_get s (kspent a)) by (intros a; apply (touches_get _ _ _ _ T); other_key Hk).
  assert (G' : okv_get s' kparams = okv_get s kparams) by (apply (touches_get _ _ _ _ T); other_key Hp).
  repeat split; intros.
  - rewrite !spec_GetSpentEFUNDForAccount, G, G'. reflexivity.
  - rewrite !spec_GetSpentEFUNDAmountForAccount, G, G'. reflexivity.
Qed.

Lemma iso_totlocked k s s' : touches k s s' -> k <> EkTotalLocked -> k <> EkParams ->
  go_st_GetTotalLockedUnd s' = go_st_GetTotalLockedUnd s.
Proof.
  intros T Hk Hp. rewrite !spec_GetTotalLockedUnd.
  rewrite (touches_get _ _ _ ktotlocked T) by other_key Hk. rewrite (touches_get _ _ _ kparams T) by other_key Hp. reflexivity.
Qed.

Lemma iso_totspent k s s' : touches k s s' -> k <> EkTotalSpent -> k <> EkParams ->
  go_st_GetTotalSpentEFUND s' = go_st_GetTotalSpentEFUND s.
Proof.
  intros T Hk Hp. rewrite !spec_GetTotalSpentEFUND.
  rewrite (touches_get _ _ _ ktotspent T) by other_key Hk. rewrite (touches_get _ _ _ kparams T) by other_key Hp. reflexivity.
Qed.

(* ---- composed: no writer of another kind changes any reader of a kind (13 writers, 12 reader groups) ---- *)
Theorem isolation_params_reads s s' :
  (exists id, go_st_SetHighestPurchaseOrderID s id = Ok (s', tt)) \/
  (exists id, go_st_AddPoToRaisedQueue s id = Ok (s', tt)) \/
  (exists id, go_st_RemovePurchaseOrderFromRaisedQueue s id = Ok (s', tt)) \/
  (exists id, go_st_AddPoToAcceptedQueue s id = Ok (s', tt)) \/
  (exists id, go_st_RemovePurchaseOrderFromAcceptedQueue s id = Ok (s', tt)) \/
  (exists po, go_st_SetPurchaseOrder s po = Ok (s', tt)) \/
  (exists a, go_st_AddAddressToWhitelist s a = Ok (s', tt)) \/
  (exists a, go_st_RemoveAddressFromWhitelist s a = Ok (s', tt)) \/
  (exists c, go_st_SetTotalLockedUnd s c = Ok (s', tt)) \/
  (exists c, go_st_SetTotalSpentEFUND s c = Ok (s', tt)) \/
  (exists x, go_st_SetSpentEFUNDForAccount bech32 s x = Ok (s', tt)) \/
  (exists x, go_st_SetLockedUndForAccount bech32 s x = Ok (s', tt)) ->
  go_st_GetParams s' = go_st_GetParams s /\
  go_st_GetParamDenom s' = go_st_GetParamDenom s /\
  go_st_GetParamMinAccepts s' = go_st_GetParamMinAccepts s /\
  go_st_GetParamDecisionLimit s' = go_st_GetParamDecisionLimit s /\
  go_st_GetParamEntSigners s' = go_st_GetParamEntSigners s.
Proof.
  intros H. repeat (destruct H as [H|H]).
  - apply W_highest in H. eapply iso_params; [exact H | intros; discriminate ..].
  - apply (fun X => W_raised s s' (or_introl X)) in H; destruct H as [n H]. eapply iso_params; [exact H | intros; discriminate ..].
  - apply (fun X => W_raised s s' (or_intror X)) in H; destruct H as [n H]. eapply iso_params; [exact H | intros; discriminate ..].
  - apply (fun X => W_accepted s s' (or_introl X)) in H; destruct H as [n H]. eapply iso_params; [exact H | intros; discriminate ..].
  - apply (fun X => W_accepted s s' (or_intror X)) in H; destruct H as [n H]. eapply iso_params; [exact H | intros; discriminate ..].
  - apply W_po in H; destruct H as [n H]. eapply iso_params; [exact H | intros; discriminate ..].
  - apply (fun X => W_wl s s' (or_introl X)) in H; destruct H as [n H]. eapply iso_params; [exact H | intros; discriminate ..].
  - apply (fun X => W_wl s s' (or_intror X)) in H; destruct H as [n H]. eapply iso_params; [exact H | intros; discriminate ..].
  - apply W_totlocked in H. eapply iso_params; [exact H | intros; discriminate ..].
  - apply W_totspent in H. eapply iso_params; [exact H | intros; discriminate ..].
  - apply W_spent in H; destruct H as [n H]. eapply iso_params; [exact H | intros; discriminate ..].
  - apply W_locked in H; destruct H as [n H]. eapply iso_params; [exact H | intros; discriminate ..].
Qed.

Theorem isolation_highest_reads s s' :
  (exists p, go_st_SetParams s p = Ok (s', tt)) \/
  (exists id, go_st_AddPoToRaisedQueue s id = Ok (s', tt)) \/
  (exists id, go_st_RemovePurchaseOrderFromRaisedQueue s id = Ok (s', tt)) \/
  (exists id, go_st_AddPoToAcceptedQueue s id = Ok (s', tt)) \/
  (exists id, go_st_RemovePurchaseOrderFromAcceptedQueue s id = Ok (s', tt)) \/
  (exists po, go_st_SetPurchaseOrder s po = Ok (s', tt)) \/
  (exists a, go_st_AddAddressToWhitelist s a = Ok (s', tt)) \/
  (exists a, go_st_RemoveAddressFromWhitelist s a = Ok (s', tt)) \/
  (exists c, go_st_SetTotalLockedUnd s c = Ok (s', tt)) \/
  (exists c, go_st_SetTotalSpentEFUND s c = Ok (s', tt)) \/
  (exists x, go_st_SetSpentEFUNDForAccount bech32 s x = Ok (s', tt)) \/
  (exists x, go_st_SetLockedUndForAccount bech32 s x = Ok (s', tt)) ->
  go_st_GetHighestPurchaseOrderID s' = go_st_GetHighestPurchaseOrderID s.
Proof.
  intros H. repeat (destruct H as [H|H]).
  - apply W_params in H. eapply iso_highest; [exact H | intros; discriminate ..].
  - apply (fun X => W_raised s s' (or_introl X)) in H; destruct H as [n H]. eapply iso_highest; [exact H | intros; discriminate ..].
  - apply (fun X => W_raised s s' (or_intror X)) in H; destruct H as [n H]. eapply iso_highest; [exact H | intros; discriminate ..].
  - apply (fun X => W_accepted s s' (or_introl X)) in H; destruct H as [n H]. eapply iso_highest; [exact H | intros; discriminate ..].
  - apply (fun X => W_accepted s s' (or_intror X)) in H; destruct H as [n H]. eapply iso_highest; [exact H | intros; discriminate ..].
  - apply W_po in H; destruct H as [n H]. eapply iso_highest; [exact H | intros; discriminate ..].
  - apply (fun X => W_wl s s' (or_introl X)) in H; destruct H as [n H]. eapply iso_highest; [exact H | intros; discriminate ..].
  - apply (fun X => W_wl s s' (or_intror X)) in H; destruct H as [n H]. eapply iso_highest; [exact H | intros; discriminate ..].
  - apply W_totlocked in H. eapply iso_highest; [exact H | intros; discriminate ..].
  - apply W_totspent in H. eapply iso_highest; [exact H | intros; discriminate ..].
  - apply W_spent in H; destruct H as [n H]. eapply iso_highest; [exact H | intros; discriminate ..].
  - apply W_locked in H; destruct H as [n H]. eapply iso_highest; [exact H | intros; discriminate ..].
Qed.

Theorem isolation_po_reads s s' :
  (exists p, go_st_SetParams s p = Ok (s', tt)) \/
  (exists id, go_st_SetHighestPurchaseOrderID s id = Ok (s', tt)) \/
  (exists id, go_st_AddPoToRaisedQueue s id = Ok (s', tt)) \/
  (exists id, go_st_RemovePurchaseOrderFromRaisedQueue s id = Ok (s', tt)) \/
  (exists id, go_st_AddPoToAcceptedQueue s id = Ok (s', tt)) \/
  (exists id, go_st_RemovePurchaseOrderFromAcceptedQueue s id = Ok (s', tt)) \/
  (exists a, go_st_AddAddressToWhitelist s a = Ok (s', tt)) \/
  (exists a, go_st_RemoveAddressFromWhitelist s a = Ok (s', tt)) \/
  (exists c, go_st_SetTotalLockedUnd s c = Ok (s', tt)) \/
  (exists c, go_st_SetTotalSpentEFUND s c = Ok (s', tt)) \/
  (exists x, go_st_SetSpentEFUNDForAccount bech32 s x = Ok (s', tt)) \/
  (exists x, go_st_SetLockedUndForAccount bech32 s x = Ok (s', tt)) ->
  (forall id, go_st_PurchaseOrderExists s' id = go_st_PurchaseOrderExists s id) /\
  (forall id, go_st_GetPurchaseOrder s' id = go_st_GetPurchaseOrder s id) /\
  (forall (St : Type) (cb : St -> go_EnterpriseUndPurchaseOrder -> outcome (St * bool)) (st : St),
     go_st_IteratePurchaseOrders s' cb st = go_st_IteratePurchaseOrders s cb st) /\
  go_st_GetAllPurchaseOrders s' = go_st_GetAllPurchaseOrders s.
Proof.
  intros H. repeat (destruct H as [H|H]).
  - apply W_params in H. eapply iso_po; [exact H | intros; discriminate ..].
  - apply W_highest in H. eapply iso_po; [exact H | intros; discriminate ..].
  - apply (fun X => W_raised s s' (or_introl X)) in H; destruct H as [n H]. eapply iso_po; [exact H | intros; discriminate ..].
  - apply (fun X => W_raised s s' (or_intror X)) in H; destruct H as [n H]. eapply iso_po; [exact H | intros; discriminate ..].
  - apply (fun X => W_accepted s s' (or_introl X)) in H; destruct H as [n H]. eapply iso_po; [exact H | intros; discriminate ..].
  - apply (fun X => W_accepted s s' (or_intror X)) in H; destruct H as [n H]. eapply iso_po; [exact H | intros; discriminate ..].
  - apply (fun X => W_wl s s' (or_introl X)) in H; destruct H as [n H]. eapply iso_po; [exact H | intros; discriminate ..].
  - apply (fun X => W_wl s s' (or_intror X)) in H; destruct H as [n H]. eapply iso_po; [exact H | intros; discriminate ..].
  - apply W_totlocked in H. eapply iso_po; [exact H | intros; discriminate ..].
  - apply W_totspent in H. eapply iso_po; [exact H | intros; discriminate ..].
  - apply W_spent in H; destruct H as [n H]. eapply iso_po; [exact H | intros; discriminate ..].
  - apply W_locked in H; destruct H as [n H]. eapply iso_po; [exact H | intros; discriminate ..].
Qed.

Theorem isolation_raised_reads s s' :
  (exists p, go_st_SetParams s p = Ok (s', tt)) \/
  (exists id, go_st_SetHighestPurchaseOrderID s id = Ok (s', tt)) \/
  (exists id, go_st_AddPoToAcceptedQueue s id = Ok (s', tt)) \/
  (exists id, go_st_RemovePurchaseOrderFromAcceptedQueue s id = Ok (s', tt)) \/
  (exists po, go_st_SetPurchaseOrder s po = Ok (s', tt)) \/
  (exists a, go_st_AddAddressToWhitelist s a = Ok (s', tt)) \/
  (exists a, go_st_RemoveAddressFromWhitelist s a = Ok (s', tt)) \/
  (exists c, go_st_SetTotalLockedUnd s c = Ok (s', tt)) \/
  (exists c, go_st_SetTotalSpentEFUND s c = Ok (s', tt)) \/
  (exists x, go_st_SetSpentEFUNDForAccount bech32 s x = Ok (s', tt)) \/
  (exists x, go_st_SetLockedUndForAccount bech32 s x = Ok (s', tt)) ->
  (forall id, go_st_PurchaseOrderIsInRaisedQueue s' id = go_st_PurchaseOrderIsInRaisedQueue s id) /\
  (forall (St : Type) (cb : St -> Z -> outcome (St * bool)) (st : St),
     go_st_IterateRaisedQueue s' cb st = go_st_IterateRaisedQueue s cb st) /\
  go_st_GetAllRaisedPurchaseOrders s' = go_st_GetAllRaisedPurchaseOrders s.
Proof.
  intros H. repeat (destruct H as [H|H]).
  - apply W_params in H. eapply iso_raised; [exact H | intros; discriminate ..].
  - apply W_highest in H. eapply iso_raised; [exact H | intros; discriminate ..].
  - apply (fun X => W_accepted s s' (or_introl X)) in H; destruct H as [n H]. eapply iso_raised; [exact H | intros; discriminate ..].
  - apply (fun X => W_accepted s s' (or_intror X)) in H; destruct H as [n H]. eapply iso_raised; [exact H | intros; discriminate ..].
  - apply W_po in H; destruct H as [n H]. eapply iso_raised; [exact H | intros; discriminate ..].
  - apply (fun X => W_wl s s' (or_introl X)) in H; destruct H as [n H]. eapply iso_raised; [exact H | intros; discriminate ..].
  - apply (fun X => W_wl s s' (or_intror X)) in H; destruct H as [n H]. eapply iso_raised; [exact H | intros; discriminate ..].
  - apply W_totlocked in H. eapply iso_raised; [exact H | intros; discriminate ..].
  - apply W_totspent in H. eapply iso_raised; [exact H | intros; discriminate ..].
  - apply W_spent in H; destruct H as [n H]. eapply iso_raised; [exact H | intros; discriminate ..].
  - apply W_locked in H; destruct H as [n H]. eapply iso_raised; [exact H | intros; discriminate ..].
Qed.

Theorem isolation_accepted_reads s s' :
  (exists p, go_st_SetParams s p = Ok (s', tt)) \/
  (exists id, go_st_SetHighestPurchaseOrderID s id = Ok (s', tt)) \/
  (exists id, go_st_AddPoToRaisedQueue s id = Ok (s', tt)) \/
  (exists id, go_st_RemovePurchaseOrderFromRaisedQueue s id = Ok (s', tt)) \/
  (exists po, go_st_SetPurchaseOrder s po = Ok (s', tt)) \/
  (exists a, go_st_AddAddressToWhitelist s a = Ok (s', tt)) \/
  (exists a, go_st_RemoveAddressFromWhitelist s a = Ok (s', tt)) \/
  (exists c, go_st_SetTotalLockedUnd s c = Ok (s', tt)) \/
  (exists c, go_st_SetTotalSpentEFUND s c = Ok (s', tt)) \/
  (exists x, go_st_SetSpentEFUNDForAccount bech32 s x = Ok (s', tt)) \/
  (exists x, go_st_SetLockedUndForAccount bech32 s x = Ok (s', tt)) ->
  (forall id, go_st_PurchaseOrderIsInAcceptedQueue s' id = go_st_PurchaseOrderIsInAcceptedQueue s id) /\
  (forall (St : Type) (cb : St -> Z -> outcome (St * bool)) (st : St),
     go_st_IterateAcceptedQueue s' cb st = go_st_IterateAcceptedQueue s cb st) /\
  go_st_GetAllAcceptedPurchaseOrders s' = go_st_GetAllAcceptedPurchaseOrders s.
Proof.
  intros H. repeat (destruct H as [H|H]).
  - apply W_params in H. eapply iso_accepted; [exact H | intros; discriminate ..].
  - apply W_highest in H. eapply iso_accepted; [exact H | intros; discriminate ..].
  - apply (fun X => W_raised s s' (or_introl X)) in H; destruct H as [n H]. eapply iso_accepted; [exact H | intros; discriminate ..].
  - apply (fun X => W_raised s s' (or_intror X)) in H; destruct H as [n H]. eapply iso_accepted; [exact H | intros; discriminate ..].
  - apply W_po in H; destruct H as [n H]. eapply iso_accepted; [exact H | intros; discriminate ..].
  - apply (fun X => W_wl s s' (or_introl X)) in H; destruct H as [n H]. eapply iso_accepted; [exact H | intros; discriminate ..].
  - apply (fun X => W_wl s s' (or_intror X)) in H; destruct H as [n H]. eapply iso_accepted; [exact H | intros; discriminate ..].
  - apply W_totlocked in H. eapply iso_accepted; [exact H | intros; discriminate ..].
  - apply W_totspent in H. eapply iso_accepted; [exact H | intros; discriminate ..].
  - apply W_spent in H; destruct H as [n H]. eapply iso_accepted; [exact H | intros; discriminate ..].
  - apply W_locked in H; destruct H as [n H]. eapply iso_accepted; [exact H | intros; discriminate ..].
Qed.

Theorem isolation_wl_reads s s' :
  (exists p, go_st_SetParams s p = Ok (s', tt)) \/
  (exists id, go_st_SetHighestPurchaseOrderID s id = Ok (s', tt)) \/
  (exists id, go_st_AddPoToRaisedQueue s id = Ok (s', tt)) \/
  (exists id, go_st_RemovePurchaseOrderFromRaisedQueue s id = Ok (s', tt)) \/
  (exists id, go_st_AddPoToAcceptedQueue s id = Ok (s', tt)) \/
  (exists id, go_st_RemovePurchaseOrderFromAcceptedQueue s id = Ok (s', tt)) \/
  (exists po, go_st_SetPurchaseOrder s po = Ok (s', tt)) \/
  (exists c, go_st_SetTotalLockedUnd s c = Ok (s', tt)) \/
  (exists c, go_st_SetTotalSpentEFUND s c = Ok (s', tt)) \/
  (exists x, go_st_SetSpentEFUNDForAccount bech32 s x = Ok (s', tt)) \/
  (exists x, go_st_SetLockedUndForAccount bech32 s x = Ok (s', tt)) ->
  (forall a, go_st_AddressIsWhitelisted s' a = go_st_AddressIsWhitelisted s a) /\
  (forall (St : Type) (cb : St -> list N -> outcome (St * bool)) (st : St),
     go_st_IterateWhitelist s' cb st = go_st_IterateWhitelist s cb st) /\
  go_st_GetAllWhitelistedAddresses addr_string s' = go_st_GetAllWhitelistedAddresses addr_string s.
Proof.
  intros H. repeat (destruct H as [H|H]).
  - apply W_params in H. eapply iso_wl; [exact H | intros; discriminate ..].
  - apply W_highest in H. eapply iso_wl; [exact H | intros; discriminate ..].
  - apply (fun X => W_raised s s' (or_introl X)) in H; destruct H as [n H]. eapply iso_wl; [exact H | intros; discriminate ..].
  - apply (fun X => W_raised s s' (or_intror X)) in H; destruct H as [n H]. eapply iso_wl; [exact H | intros; discriminate ..].
  - apply (fun X => W_accepted s s' (or_introl X)) in H; destruct H as [n H]. eapply iso_wl; [exact H | intros; discriminate ..].
  - apply (fun X => W_accepted s s' (or_intror X)) in H; destruct H as [n H]. eapply iso_wl; [exact H | intros; discriminate ..].
  - apply W_po in H; destruct H as [n H]. eapply iso_wl; [exact H | intros; discriminate ..].
  - apply W_totlocked in H. eapply iso_wl; [exact H | intros; discriminate ..].
  - apply W_totspent in H. eapply iso_wl; [exact H | intros; discriminate ..].
  - apply W_spent in H; destruct H as [n H]. eapply iso_wl; [exact H | intros; discriminate ..].
  - apply W_locked in H; destruct H as [n H]. eapply iso_wl; [exact H | intros; discriminate ..].
Qed.

Theorem isolation_locked_entries_reads s s' :
  (exists p, go_st_SetParams s p = Ok (s', tt)) \/
  (exists id, go_st_SetHighestPurchaseOrderID s id = Ok (s', tt)) \/
  (exists id, go_st_AddPoToRaisedQueue s id = Ok (s', tt)) \/
  (exists id, go_st_RemovePurchaseOrderFromRaisedQueue s id = Ok (s', tt)) \/
  (exists id, go_st_AddPoToAcceptedQueue s id = Ok (s', tt)) \/
  (exists id, go_st_RemovePurchaseOrderFromAcceptedQueue s id = Ok (s', tt)) \/
  (exists po, go_st_SetPurchaseOrder s po = Ok (s', tt)) \/
  (exists a, go_st_AddAddressToWhitelist s a = Ok (s', tt)) \/
  (exists a, go_st_RemoveAddressFromWhitelist s a = Ok (s', tt)) \/
  (exists c, go_st_SetTotalLockedUnd s c = Ok (s', tt)) \/
  (exists c, go_st_SetTotalSpentEFUND s c = Ok (s', tt)) \/
  (exists x, go_st_SetSpentEFUNDForAccount bech32 s x = Ok (s', tt)) ->
  (forall a, go_st_AccountHasLockedUnd s' a = go_st_AccountHasLockedUnd s a) /\
  go_st_GetAllLockedUndAccountsIterator s' = go_st_GetAllLockedUndAccountsIterator s /\
  go_st_GetAllLockedUnds s' = go_st_GetAllLockedUnds s.
Proof.
  intros H. repeat (destruct H as [H|H]).
  - apply W_params in H. eapply iso_locked_entries; [exact H | intros; discriminate ..].
  - apply W_highest in H. eapply iso_locked_entries; [exact H | intros; discriminate ..].
  - apply (fun X => W_raised s s' (or_introl X)) in H; destruct H as [n H]. eapply iso_locked_entries; [exact H | intros; discriminate ..].
  - apply (fun X => W_raised s s' (or_intror X)) in H; destruct H as [n H]. eapply iso_locked_entries; [exact H | intros; discriminate ..].
  - apply (fun X => W_accepted s s' (or_introl X)) in H; destruct H as [n H]. eapply iso_locked_entries; [exact H | intros; discriminate ..].
  - apply (fun X => W_accepted s s' (or_intror X)) in H; destruct H as [n H]. eapply iso_locked_entries; [exact H | intros; discriminate ..].
  - apply W_po in H; destruct H as [n H]. eapply iso_locked_entries; [exact H | intros; discriminate ..].
  - apply (fun X => W_wl s s' (or_introl X)) in H; destruct H as [n H]. eapply iso_locked_entries; [exact H | intros; discriminate ..].
  - apply (fun X => W_wl s s' (or_intror X)) in H; destruct H as [n H]. eapply iso_locked_entries; [exact H | intros; discriminate ..].
  - apply W_totlocked in H. eapply iso_locked_entries; [exact H | intros; discriminate ..].
  - apply W_totspent in H. eapply iso_locked_entries; [exact H | intros; discriminate ..].
  - apply W_spent in H; destruct H as [n H]. eapply iso_locked_entries; [exact H | intros; discriminate ..].
Qed.

Theorem isolation_locked_values_reads s s' :
  (exists id, go_st_SetHighestPurchaseOrderID s id = Ok (s', tt)) \/
  (exists id, go_st_AddPoToRaisedQueue s id = Ok (s', tt)) \/
  (exists id, go_st_RemovePurchaseOrderFromRaisedQueue s id = Ok (s', tt)) \/
  (exists id, go_st_AddPoToAcceptedQueue s id = Ok (s', tt)) \/
  (exists id, go_st_RemovePurchaseOrderFromAcceptedQueue s id = Ok (s', tt)) \/
  (exists po, go_st_SetPurchaseOrder s po = Ok (s', tt)) \/
  (exists a, go_st_AddAddressToWhitelist s a = Ok (s', tt)) \/
  (exists a, go_st_RemoveAddressFromWhitelist s a = Ok (s', tt)) \/
  (exists c, go_st_SetTotalLockedUnd s c = Ok (s', tt)) \/
  (exists c, go_st_SetTotalSpentEFUND s c = Ok (s', tt)) \/
  (exists x, go_st_SetSpentEFUNDForAccount bech32 s x = Ok (s', tt)) ->
  (forall a, go_st_GetLockedUndForAccount addr_string s' a = go_st_GetLockedUndForAccount addr_string s a) /\
  (forall a, go_st_GetLockedUndAmountForAccount addr_string s' a = go_st_GetLockedUndAmountForAccount addr_string s a) /\
  (forall a, go_st_IsLocked addr_string s' a = go_st_IsLocked addr_string s a).
Proof.
  intros H. repeat (destruct H as [H|H]).
  - apply W_highest in H. eapply iso_locked_values; [exact H | intros; discriminate ..].
  - apply (fun X => W_raised s s' (or_introl X)) in H; destruct H as [n H]. eapply iso_locked_values; [exact H | intros; discriminate ..].
  - apply (fun X => W_raised s s' (or_intror X)) in H; destruct H as [n H]. eapply iso_locked_values; [exact H | intros; discriminate ..].
  - apply (fun X => W_accepted s s' (or_introl X)) in H; destruct H as [n H]. eapply iso_locked_values; [exact H | intros; discriminate ..].
  - apply (fun X => W_accepted s s' (or_intror X)) in H; destruct H as [n H]. eapply iso_locked_values; [exact H | intros; discriminate ..].
  - apply W_po in H; destruct H as [n H]. eapply iso_locked_values; [exact H | intros; discriminate ..].
  - apply (fun X => W_wl s s' (or_introl X)) in H; destruct H as [n H]. eapply iso_locked_values; [exact H | intros; discriminate ..].
  - apply (fun X => W_wl s s' (or_intror X)) in H; destruct H as [n H]. eapply iso_locked_values; [exact H | intros; discriminate ..].
  - apply W_totlocked in H. eapply iso_locked_values; [exact H | intros; discriminate ..].
  - apply W_totspent in H. eapply iso_locked_values; [exact H | intros; discriminate ..].
  - apply W_spent in H; destruct H as [n H]. eapply iso_locked_values; [exact H | intros; discriminate ..].
Qed.

Theorem isolation_spent_entries_reads s s' :
  (exists p, go_st_SetParams s p = Ok (s', tt)) \/
  (exists id, go_st_SetHighestPurchaseOrderID s id = Ok (s', tt)) \/
  (exists id, go_st_AddPoToRaisedQueue s id = Ok (s', tt)) \/
  (exists id, go_st_RemovePurchaseOrderFromRaisedQueue s id = Ok (s', tt)) \/
  (exists id, go_st_AddPoToAcceptedQueue s id = Ok (s', tt)) \/
  (exists id, go_st_RemovePurchaseOrderFromAcceptedQueue s id = Ok (s', tt)) \/
  (exists po, go_st_SetPurchaseOrder s po = Ok (s', tt)) \/
  (exists a, go_st_AddAddressToWhitelist s a = Ok (s', tt)) \/
  (exists a, go_st_RemoveAddressFromWhitelist s a = Ok (s', tt)) \/
  (exists c, go_st_SetTotalLockedUnd s c = Ok (s', tt)) \/
  (exists c, go_st_SetTotalSpentEFUND s c = Ok (s', tt)) \/
  (exists x, go_st_SetLockedUndForAccount bech32 s x = Ok (s', tt)) ->
  (forall a, go_st_AccountHasSpentEFUND s' a = go_st_AccountHasSpentEFUND s a) /\
  go_st_GetAllSpentEFUNDAccountsIterator s' = go_st_GetAllSpentEFUNDAccountsIterator s /\
  go_st_GetAllSpentEFUNDs s' = go_st_GetAllSpentEFUNDs s.
Proof.
  intros H. repeat (destruct H as [H|H]).
  - apply W_params in H. eapply iso_spent_entries; [exact H | intros; discriminate ..].
  - apply W_highest in H. eapply iso_spent_entries; [exact H | intros; discriminate ..].
  - apply (fun X => W_raised s s' (or_introl X)) in H; destruct H as [n H]. eapply iso_spent_entries; [exact H | intros; discriminate ..].
  - apply (fun X => W_raised s s' (or_intror X)) in H; destruct H as [n H]. eapply iso_spent_entries; [exact H | intros; discriminate ..].
  - apply (fun X => W_accepted s s' (or_introl X)) in H; destruct H as [n H]. eapply iso_spent_entries; [exact H | intros; discriminate ..].
  - apply (fun X => W_accepted s s' (or_intror X)) in H; destruct H as [n H]. eapply iso_spent_entries; [exact H | intros; discriminate ..].
  - apply W_po in H; destruct H as [n H]. eapply iso_spent_entries; [exact H | intros; discriminate ..].
  - apply (fun X => W_wl s s' (or_introl X)) in H; destruct H as [n H]. eapply iso_spent_entries; [exact H | intros; discriminate ..].
  - apply (fun X => W_wl s s' (or_intror X)) in H; destruct H as [n H]. eapply iso_spent_entries; [exact H | intros; discriminate ..].
  - apply W_totlocked in H. eapply iso_spent_entries; [exact H | intros; discriminate ..].
  - apply W_totspent in H. eapply iso_spent_entries; [exact H | intros; discriminate ..].
  - apply W_locked in H; destruct H as [n H]. eapply iso_spent_entries; [exact H | intros; discriminate ..].
Qed.

Theorem isolation_spent_values_reads s s' :
  (exists id, go_st_SetHighestPurchaseOrderID s id = Ok (s', tt)) \/
  (exists id, go_st_AddPoToRaisedQueue s id = Ok (s', tt)) \/
  (exists id, go_st_RemovePurchaseOrderFromRaisedQueue s id = Ok (s', tt)) \/
  (exists id, go_st_AddPoToAcceptedQueue s id = Ok (s', tt)) \/
  (exists id, go_st_RemovePurchaseOrderFromAcceptedQueue s id = Ok (s', tt)) \/
  (exists po, go_st_SetPurchaseOrder s po = Ok (s', tt)) \/
  (exists a, go_st_AddAddressToWhitelist s a = Ok (s', tt)) \/
  (exists a, go_st_RemoveAddressFromWhitelist s a = Ok (s', tt)) \/
  (exists c, go_st_SetTotalLockedUnd s c = Ok (s', tt)) \/
  (exists c, go_st_SetTotalSpentEFUND s c = Ok (s', tt)) \/
  (exists x, go_st_SetLockedUndForAccount bech32 s x = Ok (s', tt)) ->
  (forall a, go_st_GetSpentEFUNDForAccount addr_string s' a = go_st_GetSpentEFUNDForAccount addr_string s a) /\
  (forall a, go_st_GetSpentEFUNDAmountForAccount addr_string s' a = go_st_GetSpentEFUNDAmountForAccount addr_string s a).
Proof.
  intros H. repeat (destruct H as [H|H]).
  - apply W_highest in H. eapply iso_spent_values; [exact H | intros; discriminate ..].
  - apply (fun X => W_raised s s' (or_introl X)) in H; destruct H as [n H]. eapply iso_spent_values; [exact H | intros; discriminate ..].
  - apply (fun X => W_raised s s' (or_intror X)) in H; destruct H as [n H]. eapply iso_spent_values; [exact H | intros; discriminate ..].
  - apply (fun X => W_accepted s s' (or_introl X)) in H; destruct H as [n H]. eapply iso_spent_values; [exact H | intros; discriminate ..].
  - apply (fun X => W_accepted s s' (or_intror X)) in H; destruct H as [n H]. eapply iso_spent_values; [exact H | intros; discriminate ..].
  - apply W_po in H; destruct H as [n H]. eapply iso_spent_values; [exact H | intros; discriminate ..].
  - apply (fun X => W_wl s s' (or_introl X)) in H; destruct H as [n H]. eapply iso_spent_values; [exact H | intros; discriminate ..].
  - apply (fun X => W_wl s s' (or_intror X)) in H; destruct H as [n H]. eapply iso_spent_values; [exact H | intros; discriminate ..].
  - apply W_totlocked in H. eapply iso_spent_values; [exact H | intros; discriminate ..].
  - apply W_totspent in H. eapply iso_spent_values; [exact H | intros; discriminate ..].
  - apply W_locked in H; destruct H as [n H]. eapply iso_spent_values; [exact H | intros; discriminate ..].
Qed.

Theorem isolation_totlocked_reads s s' :
  (exists id, go_st_SetHighestPurchaseOrderID s id = Ok (s', tt)) \/
  (exists id, go_st_AddPoToRaisedQueue s id = Ok (s', tt)) \/
  (exists id, go_st_RemovePurchaseOrderFromRaisedQueue s id = Ok (s', tt)) \/
  (exists id, go_st_AddPoToAcceptedQueue s id = Ok (s', tt)) \/
  (exists id, go_st_RemovePurchaseOrderFromAcceptedQueue s id = Ok (s', tt)) \/
  (exists po, go_st_SetPurchaseOrder s po = Ok (s', tt)) \/
  (exists a, go_st_AddAddressToWhitelist s a = Ok (s', tt)) \/
  (exists a, go_st_RemoveAddressFromWhitelist s a = Ok (s', tt)) \/
  (exists c, go_st_SetTotalSpentEFUND s c = Ok (s', tt)) \/
  (exists x, go_st_SetSpentEFUNDForAccount bech32 s x = Ok (s', tt)) \/
  (exists x, go_st_SetLockedUndForAccount bech32 s x = Ok (s', tt)) ->
  go_st_GetTotalLockedUnd s' = go_st_GetTotalLockedUnd s.
Proof.
  intros H. repeat (destruct H as [H|H]).
  - apply W_highest in H. eapply iso_totlocked; [exact H | intros; discriminate ..].
  - apply (fun X => W_raised s s' (or_introl X)) in H; destruct H as [n H]. eapply iso_totlocked; [exact H | intros; discriminate ..].
  - apply (fun X => W_raised s s' (or_intror X)) in H; destruct H as [n H]. eapply iso_totlocked; [exact H | intros; discriminate ..].
  - apply (fun X => W_accepted s s' (or_introl X)) in H; destruct H as [n H]. eapply iso_totlocked; [exact H | intros; discriminate ..].
  - apply (fun X => W_accepted s s' (or_intror X)) in H; destruct H as [n H]. eapply iso_totlocked; [exact H | intros; discriminate ..].
  - apply W_po in H; destruct H as [n H]. eapply iso_totlocked; [exact H | intros; discriminate ..].
  - apply (fun X => W_wl s s' (or_introl X)) in H; destruct H as [n H]. eapply iso_totlocked; [exact H | intros; discriminate ..].
  - apply (fun X => W_wl s s' (or_intror X)) in H; destruct H as [n H]. eapply iso_totlocked; [exact H | intros; discriminate ..].
  - apply W_totspent in H. eapply iso_totlocked; [exact H | intros; discriminate ..].
  - apply W_spent in H; destruct H as [n H]. eapply iso_totlocked; [exact H | intros; discriminate ..].
  - apply W_locked in H; destruct H as [n H]. eapply iso_totlocked; [exact H | intros; discriminate ..].
Qed.

Theorem isolation_totspent_reads s s' :
  (exists id, go_st_SetHighestPurchaseOrderID s id = Ok (s', tt)) \/
  (exists id, go_st_AddPoToRaisedQueue s id = Ok (s', tt)) \/
  (exists id, go_st_RemovePurchaseOrderFromRaisedQueue s id = Ok (s', tt)) \/
  (exists id, go_st_AddPoToAcceptedQueue s id = Ok (s', tt)) \/
  (exists id, go_st_RemovePurchaseOrderFromAcceptedQueue s id = Ok (s', tt)) \/
  (exists po, go_st_SetPurchaseOrder s po = Ok (s', tt)) \/
  (exists a, go_st_AddAddressToWhitelist s a = Ok (s', tt)) \/
  (exists a, go_st_RemoveAddressFromWhitelist s a = Ok (s', tt)) \/
  (exists c, go_st_SetTotalLockedUnd s c = Ok (s', tt)) \/
  (exists x, go_st_SetSpentEFUNDForAccount bech32 s x = Ok (s', tt)) \/
  (exists x, go_st_SetLockedUndForAccount bech32 s x = Ok (s', tt)) ->
  go_st_GetTotalSpentEFUND s' = go_st_GetTotalSpentEFUND s.
Proof.
  intros H. repeat (destruct H as [H|H]).
  - apply W_highest in H. eapply iso_totspent; [exact H | intros; discriminate ..].
  - apply (fun X => W_raised s s' (or_introl X)) in H; destruct H as [n H]. eapply iso_totspent; [exact H | intros; discriminate ..].
  - apply (fun X => W_raised s s' (or_intror X)) in H; destruct H as [n H]. eapply iso_totspent; [exact H | intros; discriminate ..].
  - apply (fun X => W_accepted s s' (or_introl X)) in H; destruct H as [n H]. eapply iso_totspent; [exact H | intros; discriminate ..].
  - apply (fun X => W_accepted s s' (or_intror X)) in H; destruct H as [n H]. eapply iso_totspent; [exact H | intros; discriminate ..].
  - apply W_po in H; destruct H as [n H]. eapply iso_totspent; [exact H | intros; discriminate ..].
  - apply (fun X => W_wl s s' (or_introl X)) in H; destruct H as [n H]. eapply iso_totspent; [exact H | intros; discriminate ..].
  - apply (fun X => W_wl s s' (or_intror X)) in H; destruct H as [n H]. eapply iso_totspent; [exact H | intros; discriminate ..].
  - apply W_totlocked in H. eapply iso_totspent; [exact H | intros; discriminate ..].
  - apply W_spent in H; destruct H as [n H]. eapply iso_totspent; [exact H | intros; discriminate ..].
  - apply W_locked in H; destruct H as [n H]. eapply iso_totspent; [exact H | intros; discriminate ..].
Qed.

(* the dependence of the four "amount" readers on the params cell is real: a new denomination changes the default *)
Example isolation_params_refuted :
  let p1 := mk_go_Params [5] 1 1 10 in
  let p2 := mk_go_Params [5] 2 1 10 in
  (do r <- go_st_SetParams [] p1; go_st_GetTotalLockedUnd (fst r)) = Ok (1, 0) /\
  (do r <- go_st_SetParams [] p2; go_st_GetTotalLockedUnd (fst r)) = Ok (2, 0) /\
  (do r <- go_st_SetParams [] p2; go_st_GetLockedUndAmountForAccount addr_string (fst r) [9%N]) = Ok (2, 0).
Proof. vm_compute. repeat split. Qed.

(* ================================================================== *)
(* (e) WELL-FORMED STORES AND LISTINGS                                  *)
(* ================================================================== *)

Notation u64 x := (0 <= x < 2 ^ 64).

(* what an entry must look like, by the section its key lies in: the right constructor, and the key is the one the
   writer derives from the value (id of the purchase order / queued id / address / decoded owner) *)
Definition ent_fits (k : list N) (v : enterprise_val) : Prop :=
  (is_prefix ent_prefix_po k = true ->
     exists po, v = EV_EnterpriseUndPurchaseOrder po /\ u64 (EnterpriseUndPurchaseOrder_Id po) /\
                k = kpo (EnterpriseUndPurchaseOrder_Id po)) /\
  (is_prefix ent_prefix_raised k = true -> exists id, u64 id /\ k = kraised id /\ v = EV_bytes (be64 (Z.to_N id))) /\
  (is_prefix ent_prefix_accepted k = true -> exists id, u64 id /\ k = kaccepted id /\ v = EV_bytes (be64 (Z.to_N id))) /\
  (is_prefix ent_prefix_whitelist k = true -> exists a, a <> [] /\ k = kwl a /\ v = EV_bytes a) /\
  (is_prefix ent_prefix_locked k = true ->
     exists x b, v = EV_LockedUnd x /\ bech32 (LockedUnd_Owner x) = Ok b /\ k = klocked b) /\
  (is_prefix ent_prefix_spent k = true ->
     exists x b, v = EV_SpentEFUND x /\ bech32 (SpentEFUND_Owner x) = Ok b /\ k = kspent b) /\
  (k = kparams -> exists p, v = EV_Params p) /\
  (k = khighest -> exists id, u64 id /\ v = EV_bytes (be64 (Z.to_N id))) /\
  (k = ktotlocked -> exists c, v = EV_Coin c) /\
  (k = ktotspent -> exists c, v = EV_Coin c).

Definition ent_wf (s : store) : Prop := forall k v, In (k, v) s -> ent_fits k v.

Lemma wf_nil : ent_wf [].
Proof. intros k v []. Qed.
Lemma wf_set s k v : ent_wf s -> ent_fits k v -> ent_wf (okv_set s k v).
Proof. intros Hw Hf k' v' Hin. apply set_in in Hin. destruct Hin as [[-> ->]|Hin]; [exact Hf | apply Hw; exact Hin]. Qed.
Lemma wf_del s k : ent_wf s -> ent_wf (okv_del s k).
Proof. intros Hw k' v' Hin. apply Hw. eapply del_in; exact Hin. Qed.

(* the clause of another section / another singleton key never applies *)
Ltac fits_tac :=
  repeat match goal with R : _ <= _ < _ |- _ => destruct R end;
  unfold ent_fits; repeat split; intros Hfit; try discriminate Hfit;
  repeat eexists; eauto.

Lemma fits_params p : ent_fits kparams (EV_Params p). Proof. fits_tac. Qed.
Lemma fits_highest id : u64 id -> ent_fits khighest (EV_bytes (be64 (Z.to_N id))). Proof. intros H. fits_tac. Qed.
Lemma fits_raised id : u64 id -> ent_fits (kraised id) (EV_bytes (be64 (Z.to_N id))). Proof. intros H. fits_tac. Qed.
Lemma fits_accepted id : u64 id -> ent_fits (kaccepted id) (EV_bytes (be64 (Z.to_N id))). Proof. intros H. fits_tac. Qed.
Lemma fits_po po : u64 (EnterpriseUndPurchaseOrder_Id po) ->
  ent_fits (kpo (EnterpriseUndPurchaseOrder_Id po)) (EV_EnterpriseUndPurchaseOrder po).
Proof. intros H. fits_tac. Qed.
Lemma fits_wl a : a <> [] -> ent_fits (kwl a) (EV_bytes a). Proof. intros H. fits_tac. Qed.
Lemma fits_totlocked c : ent_fits ktotlocked (EV_Coin c). Proof. fits_tac. Qed.
Lemma fits_totspent c : ent_fits ktotspent (EV_Coin c). Proof. fits_tac. Qed.
Lemma fits_locked x b : bech32 (LockedUnd_Owner x) = Ok b -> ent_fits (klocked b) (EV_LockedUnd x).
Proof. intros H. fits_tac. Qed.
Lemma fits_spent x b : bech32 (SpentEFUND_Owner x) = Ok b -> ent_fits (kspent b) (EV_SpentEFUND x).
Proof. intros H. fits_tac. Qed.

(* every writer preserves well-formedness; ids in the uint64 range (what the Go type holds) *)
Theorem writers_preserve_wf s s' : ent_wf s ->
  (exists p, go_st_SetParams s p = Ok (s', tt)) \/
  (exists id, u64 id /\ go_st_SetHighestPurchaseOrderID s id = Ok (s', tt)) \/
  (exists id, u64 id /\ go_st_AddPoToRaisedQueue s id = Ok (s', tt)) \/
  (exists id, go_st_RemovePurchaseOrderFromRaisedQueue s id = Ok (s', tt)) \/
  (exists id, u64 id /\ go_st_AddPoToAcceptedQueue s id = Ok (s', tt)) \/
  (exists id, go_st_RemovePurchaseOrderFromAcceptedQueue s id = Ok (s', tt)) \/
  (exists po, u64 (EnterpriseUndPurchaseOrder_Id po) /\ go_st_SetPurchaseOrder s po = Ok (s', tt)) \/
  (exists a, go_st_AddAddressToWhitelist s a = Ok (s', tt)) \/
  (exists a, go_st_RemoveAddressFromWhitelist s a = Ok (s', tt)) \/
  (exists c, go_st_SetTotalLockedUnd s c = Ok (s', tt)) \/
  (exists c, go_st_SetTotalSpentEFUND s c = Ok (s', tt)) \/
  (exists x, go_st_SetSpentEFUNDForAccount bech32 s x = Ok (s', tt)) \/
  (exists x, go_st_SetLockedUndForAccount bech32 s x = Ok (s', tt)) ->
  ent_wf s'.
Proof.
  intros Hw H. repeat (destruct H as [H|H]).
  - destruct H as [p E]. apply eff_SetParams in E. destruct E as [_ ->]. apply wf_set; [exact Hw | apply fits_params].
  - destruct H as [id [R E]]. apply eff_SetHighestPurchaseOrderID in E. subst s'. apply wf_set; [exact Hw | apply fits_highest, R].
  - destruct H as [id [R E]]. apply eff_AddPoToRaisedQueue in E. subst s'. apply wf_set; [exact Hw | apply fits_raised, R].
  - destruct H as [id E]. apply eff_RemovePurchaseOrderFromRaisedQueue in E. subst s'. apply wf_del, Hw.
  - destruct H as [id [R E]]. apply eff_AddPoToAcceptedQueue in E. subst s'. apply wf_set; [exact Hw | apply fits_accepted, R].
  - destruct H as [id E]. apply eff_RemovePurchaseOrderFromAcceptedQueue in E. subst s'. apply wf_del, Hw.
  - destruct H as [po [R E]]. apply eff_SetPurchaseOrder in E. destruct E as [_ ->]. apply wf_set; [exact Hw | apply fits_po, R].
  - destruct H as [a E]. apply eff_AddAddressToWhitelist in E. destruct E as [Ha ->]. apply wf_set; [exact Hw | apply fits_wl, Ha].
  - destruct H as [a E]. apply eff_RemoveAddressFromWhitelist in E. destruct E as [_ ->]. apply wf_del, Hw.
  - destruct H as [c E]. apply eff_SetTotalLockedUnd in E. subst s'. apply wf_set; [exact Hw | apply fits_totlocked].
  - destruct H as [c E]. apply eff_SetTotalSpentEFUND in E. subst s'. apply wf_set; [exact Hw | apply fits_totspent].
  - destruct H as [x E]. apply eff_SetSpentEFUNDForAccount in E. destruct E as [b [Hb ->]].
    apply wf_set; [exact Hw | apply fits_spent, Hb].
  - destruct H as [x E]. apply eff_SetLockedUndForAccount in E. destruct E as [b [Hb [_ ->]]].
    apply wf_set; [exact Hw | apply fits_locked, Hb].
Qed.

(* what well-formedness says about one stored cell *)
Lemma wf_get s k v : ent_wf s -> okv_get s k = Some v -> ent_fits k v.
Proof. intros Hw E. apply Hw. apply get_in. exact E. Qed.

(* on a well-formed store no point reader meets a value of the wrong type (no OKV_PANIC_UNMARSHAL) and the counter
   reads back as a uint64 *)
Theorem wf_point_reads_typed s : ent_wf s ->
  (exists p, go_st_GetParams s = Ok p) /\
  (go_st_GetHighestPurchaseOrderID s = Err STORE_ERR \/ exists id, u64 id /\ go_st_GetHighestPurchaseOrderID s = Ok id) /\
  (forall id, exists r, go_st_GetPurchaseOrder s id = Ok r) /\
  (exists c, go_st_GetTotalLockedUnd s = Ok c) /\
  (exists c, go_st_GetTotalSpentEFUND s = Ok c) /\
  (forall a, exists x, go_st_GetLockedUndForAccount addr_string s a = Ok x) /\
  (forall a, exists x, go_st_GetSpentEFUNDForAccount addr_string s a = Ok x).
Proof.
  intros Hw.
  assert (HP : exists p, rd_params (okv_get s kparams) = Ok p).
  { destruct (okv_get s kparams) as [v|] eqn:E; [|eexists; reflexivity].
    apply (wf_get _ _ _ Hw) in E. destruct E as (_ & _ & _ & _ & _ & _ & F & _). destruct (F eq_refl) as [p ->].
    eexists; reflexivity. }
  destruct HP as [p HP].
  repeat split.
  - exists p. rewrite spec_GetParams. exact HP.
  - rewrite spec_GetHighestPurchaseOrderID. destruct (okv_get s khighest) as [v|] eqn:E; [|left; reflexivity].
    apply (wf_get _ _ _ Hw) in E. destruct E as (_ & _ & _ & _ & _ & _ & _ & F & _). destruct (F eq_refl) as [id [R ->]].
    right. exists id. split; [exact R|]. cbn [rd_highest]. apply id_from_bytes, R.
  - intros id. rewrite spec_GetPurchaseOrder. destruct (okv_get s (kpo id)) as [v|] eqn:E; [|eexists; reflexivity].
    apply (wf_get _ _ _ Hw) in E. destruct E as (F & _). destruct (F eq_refl) as [po [-> _]]. eexists; reflexivity.
  - rewrite spec_GetTotalLockedUnd. destruct (okv_get s ktotlocked) as [v|] eqn:E.
    + apply (wf_get _ _ _ Hw) in E. destruct E as (_ & _ & _ & _ & _ & _ & _ & _ & F & _). destruct (F eq_refl) as [c ->].
      eexists; reflexivity.
    + cbn [rd_total]. unfold rd_zero_coin. rewrite HP. eexists; reflexivity.
  - rewrite spec_GetTotalSpentEFUND. destruct (okv_get s ktotspent) as [v|] eqn:E.
    + apply (wf_get _ _ _ Hw) in E. destruct E as (_ & _ & _ & _ & _ & _ & _ & _ & _ & F). destruct (F eq_refl) as [c ->].
      eexists; reflexivity.
    + cbn [rd_total]. unfold rd_zero_coin. rewrite HP. eexists; reflexivity.
  - intros a. rewrite spec_GetLockedUndForAccount. destruct (okv_get s (klocked a)) as [v|] eqn:E.
    + apply (wf_get _ _ _ Hw) in E. destruct E as (_ & _ & _ & _ & F & _). destruct (F eq_refl) as [x [b [-> _]]].
      eexists; reflexivity.
    + cbn [rd_locked]. unfold rd_zero_coin. rewrite HP. eexists; reflexivity.
  - intros a. rewrite spec_GetSpentEFUNDForAccount. destruct (okv_get s (kspent a)) as [v|] eqn:E.
    + apply (wf_get _ _ _ Hw) in E. destruct E as (_ & _ & _ & _ & _ & F & _). destruct (F eq_refl) as [x [b [-> _]]].
      eexists; reflexivity.
    + cbn [rd_spent]. unfold rd_zero_coin. rewrite HP. eexists; reflexivity.
Qed.

(* ---- the two queues: the queued ids, each once, in ascending NUMERIC order ---- *)
Lemma queue_listing (p : list N) (key : Z -> list N) s :
  (forall id, tl (key id) = be64 (Z.to_N id)) ->
  (forall id, is_prefix p (key id) = true) ->
  (forall a b, u64 a -> u64 b -> (lex_lt (key a) (key b) = true <-> a < b)) ->
  okv_sorted s = true ->
  (forall k v, In (k, v) s -> is_prefix p k = true -> exists id, u64 id /\ k = key id /\ v = EV_bytes (be64 (Z.to_N id))) ->
  exists ids, decode_all dec_queue (okv_prefix s p) = Ok ids /\
    StronglySorted Z.lt ids /\
    (forall id, In id ids -> u64 id) /\
    (forall id, u64 id -> (In id ids <-> rd_has (okv_get s (key id)) = true)).
Proof.
  intros Htl Hpre Hord Hs Hw.
  set (f := fun kv : list N * enterprise_val => Z.of_N (de64 (tl (fst kv)))).
  assert (Hf : forall id v, u64 id -> f (key id, v) = id).
  { intros id v R. unfold f. cbn [fst]. rewrite Htl, de64_be64 by (apply u64_lt, R). apply Z2N.id. exact (proj1 R). }
  assert (Hes : forall k v, In (k, v) (okv_prefix s p) -> exists id, u64 id /\ k = key id /\ v = EV_bytes (be64 (Z.to_N id))).
  { intros k v Hin. apply prefix_in in Hin. destruct Hin as [Hin Hp]. apply (Hw k v Hin Hp). }
  exists (map f (okv_prefix s p)). refine (conj _ (conj _ (conj _ _))); [| | |intros id H; split].
  - apply decode_all_map. intros k v Hin. destruct (Hes k v Hin) as [id [R [-> ->]]].
    rewrite Hf by exact R. unfold dec_queue. cbn [enterprise_unmarshal_bytes obind]. apply id_from_bytes, R.
  - apply (StronglySorted_map_in key_lt); [|apply sorted_strongly, prefix_sorted, Hs].
    intros [ka va] [kb vb] Ha Hb Hlt. destruct (Hes _ _ Ha) as [ia [Ra [-> ->]]]. destruct (Hes _ _ Hb) as [ib [Rb [-> ->]]].
    rewrite !Hf by assumption. apply Hord; assumption.
  - intros id H. apply in_map_iff in H. destruct H as [[k v] [<- Hin]]. destruct (Hes k v Hin) as [id' [R [-> ->]]].
    rewrite Hf by exact R. exact R.
  - intros Hin. apply in_map_iff in Hin. destruct Hin as [[k v] [E Hin]]. destruct (Hes k v Hin) as [id' [R [-> ->]]].
    rewrite Hf in E by exact R. subst id'. apply prefix_in in Hin. destruct Hin as [Hin _].
    rewrite (in_get _ _ _ Hs Hin). reflexivity.
  - intros Hh. destruct (okv_get s (key id)) as [v|] eqn:E; [|discriminate Hh].
    apply in_map_iff. exists (key id, v). split; [apply Hf, H|].
    apply prefix_in. split; [apply get_in, E | apply Hpre].
Qed.

Theorem listing_raised s : okv_sorted s = true -> ent_wf s ->
  exists ids, go_st_GetAllRaisedPurchaseOrders s = Ok ids /\
    StronglySorted Z.lt ids /\
    (forall id, In id ids -> u64 id) /\
    (forall id, u64 id -> (In id ids <-> go_st_PurchaseOrderIsInRaisedQueue s id = Ok true)).
Proof.
  intros Hs Hw.
  destruct (queue_listing ent_prefix_raised (fun id => kraised id) s) as [ids (H1 & H2 & H3 & H4)].
  - intros id. reflexivity.
  - intros id. reflexivity.
  - apply kraised_order.
  - exact Hs.
  - intros k v Hin Hp. destruct (Hw k v Hin) as (_ & F & _). exact (F Hp).
  - exists ids. rewrite spec_GetAllRaisedPurchaseOrders.
    refine (conj H1 (conj H2 (conj H3 _))). intros id H. split.
    + intros Hin. rewrite spec_PurchaseOrderIsInRaisedQueue. f_equal. apply (H4 id H). exact Hin.
    + rewrite spec_PurchaseOrderIsInRaisedQueue. intros E. apply (H4 id H). injection E as E. exact E.
Qed.

Theorem listing_accepted s : okv_sorted s = true -> ent_wf s ->
  exists ids, go_st_GetAllAcceptedPurchaseOrders s = Ok ids /\
    StronglySorted Z.lt ids /\
    (forall id, In id ids -> u64 id) /\
    (forall id, u64 id -> (In id ids <-> go_st_PurchaseOrderIsInAcceptedQueue s id = Ok true)).
Proof.
  intros Hs Hw.
  destruct (queue_listing ent_prefix_accepted (fun id => kaccepted id) s) as [ids (H1 & H2 & H3 & H4)].
  - intros id. reflexivity.
  - intros id. reflexivity.
  - apply kaccepted_order.
  - exact Hs.
  - intros k v Hin Hp. destruct (Hw k v Hin) as (_ & _ & F & _). exact (F Hp).
  - exists ids. rewrite spec_GetAllAcceptedPurchaseOrders.
    refine (conj H1 (conj H2 (conj H3 _))). intros id H. split.
    + intros Hin. rewrite spec_PurchaseOrderIsInAcceptedQueue. f_equal. apply (H4 id H). exact Hin.
    + rewrite spec_PurchaseOrderIsInAcceptedQueue. intros E. apply (H4 id H). injection E as E. exact E.
Qed.

(* a strictly ascending list has no duplicates *)
Lemma ascending_NoDup (l : list Z) : StronglySorted Z.lt l -> NoDup l.
Proof. apply StronglySorted_irrefl_NoDup. intros a. apply Z.lt_irrefl. Qed.

(* ---- purchase orders: every stored order, once, ascending by id; listed iff the point query finds it ---- *)
Theorem listing_purchase_orders s : okv_sorted s = true -> ent_wf s ->
  exists l, go_st_GetAllPurchaseOrders s = Ok l /\
    StronglySorted (fun a b => EnterpriseUndPurchaseOrder_Id a < EnterpriseUndPurchaseOrder_Id b) l /\
    (forall po, In po l -> u64 (EnterpriseUndPurchaseOrder_Id po)) /\
    (forall po, In po l <-> go_st_GetPurchaseOrder s (EnterpriseUndPurchaseOrder_Id po) = Ok (po, true)).
Proof.
  intros Hs Hw.
  set (f := fun kv : list N * enterprise_val =>
              match snd kv with EV_EnterpriseUndPurchaseOrder x => x | _ => zero_go_EnterpriseUndPurchaseOrder end).
  assert (Hes : forall k v, In (k, v) (okv_prefix s ent_prefix_po) ->
            exists po, v = EV_EnterpriseUndPurchaseOrder po /\ u64 (EnterpriseUndPurchaseOrder_Id po) /\
                       k = kpo (EnterpriseUndPurchaseOrder_Id po)).
  { intros k v Hin. apply prefix_in in Hin. destruct Hin as [Hin Hp]. destruct (Hw k v Hin) as (F & _). exact (F Hp). }
  exists (map f (okv_prefix s ent_prefix_po)). rewrite spec_GetAllPurchaseOrders.
  refine (conj _ (conj _ (conj _ _))); [| | |intros po; split].
  - apply decode_all_map. intros k v Hin. destruct (Hes k v Hin) as [po [-> _]]. reflexivity.
  - apply (StronglySorted_map_in key_lt); [|apply sorted_strongly, prefix_sorted, Hs].
    intros [ka va] [kb vb] Ha Hb Hlt. destruct (Hes _ _ Ha) as [pa [-> [Ra ->]]]. destruct (Hes _ _ Hb) as [pb [-> [Rb ->]]].
    unfold f; cbn [snd]. apply kpo_order; assumption.
  - intros po H. apply in_map_iff in H. destruct H as [[k v] [<- Hin]]. destruct (Hes k v Hin) as [po' [-> [R _]]]. exact R.
  - intros Hin. apply in_map_iff in Hin. destruct Hin as [[k v] [E Hin]]. destruct (Hes k v Hin) as [po' [-> [R ->]]].
    unfold f in E; cbn [snd] in E. subst po'. apply prefix_in in Hin. destruct Hin as [Hin _].
    rewrite spec_GetPurchaseOrder, (in_get _ _ _ Hs Hin). reflexivity.
  - rewrite spec_GetPurchaseOrder. intros E.
    destruct (okv_get s (kpo (EnterpriseUndPurchaseOrder_Id po))) as [[]|] eqn:G; cbn [rd_po] in E; try discriminate E.
    injection E as E. subst x. apply in_map_iff. exists (kpo (EnterpriseUndPurchaseOrder_Id po), EV_EnterpriseUndPurchaseOrder po).
    split; [reflexivity|]. apply prefix_in. split; [apply get_in, G | reflexivity].
Qed.

(* a purchase order is stored under its own id *)
Theorem purchase_order_id s id po : ent_wf s -> u64 id ->
  go_st_GetPurchaseOrder s id = Ok (po, true) -> EnterpriseUndPurchaseOrder_Id po = id.
Proof.
  intros Hw R. rewrite spec_GetPurchaseOrder. intros E.
  destruct (okv_get s (kpo id)) as [[]|] eqn:G; cbn [rd_po] in E; try discriminate E. injection E as E. subst x.
  apply (wf_get _ _ _ Hw) in G. destruct G as (F & _). destruct (F eq_refl) as [po' [E1 [R' E2]]].
  injection E1 as E1. subst po'. symmetry. apply kpo_inj; assumption.
Qed.

(* ---- whitelist: every whitelisted address, once, ascending in byte order ---- *)
Theorem listing_whitelist s : okv_sorted s = true -> ent_wf s ->
  exists l, go_st_GetAllWhitelistedAddresses addr_string s = Ok (map addr_string l) /\
    StronglySorted (fun a b => lex_lt a b = true) l /\
    NoDup l /\
    (forall a, In a l <-> go_st_AddressIsWhitelisted s a = Ok true).
Proof.
  intros Hs Hw.
  set (f := fun kv : list N * enterprise_val => tl (fst kv)).
  assert (Hes : forall k v, In (k, v) (okv_prefix s ent_prefix_whitelist) -> exists a, a <> [] /\ k = kwl a /\ v = EV_bytes a).
  { intros k v Hin. apply prefix_in in Hin. destruct Hin as [Hin Hp]. destruct (Hw k v Hin) as (_ & _ & _ & F & _). exact (F Hp). }
  assert (Hss : StronglySorted (fun a b => lex_lt a b = true) (map f (okv_prefix s ent_prefix_whitelist))).
  { apply (StronglySorted_map_in key_lt); [|apply sorted_strongly, prefix_sorted, Hs].
    intros [ka va] [kb vb] Ha Hb Hlt. destruct (Hes _ _ Ha) as [a [_ [-> ->]]]. destruct (Hes _ _ Hb) as [b [_ [-> ->]]].
    unfold key_lt in Hlt. cbn [fst ent_encode] in Hlt. rewrite lex_lt_cons_same in Hlt. exact Hlt. }
  exists (map f (okv_prefix s ent_prefix_whitelist)). rewrite spec_GetAllWhitelistedAddresses.
  refine (conj _ (conj _ (conj _ _))); [| | |intros a; split].
  - rewrite (decode_all_map dec_wl f); [reflexivity|]. intros k v Hin. destruct (Hes k v Hin) as [a [_ [-> ->]]]. reflexivity.
  - exact Hss.
  - eapply StronglySorted_irrefl_NoDup; [|exact Hss]. intros a X. cbv beta in X. rewrite lex_lt_irrefl in X. discriminate X.
  - intros Hin. apply in_map_iff in Hin. destruct Hin as [[k v] [E Hin]]. destruct (Hes k v Hin) as [a' [Ha [-> ->]]].
    unfold f in E; cbn [fst tl ent_encode] in E. subst a'. apply prefix_in in Hin. destruct Hin as [Hin _].
    rewrite spec_AddressIsWhitelisted, (in_get _ _ _ Hs Hin). destruct a; [congruence | reflexivity].
  - rewrite spec_AddressIsWhitelisted. intros E. injection E as E. destruct a as [|x a]; [discriminate E|].
    change (rd_has (okv_get s (kwl (x :: a))) = true) in E.
    destruct (okv_get s (kwl (x :: a))) as [v|] eqn:G; cbn [rd_has] in E; [|discriminate E].
    apply in_map_iff. exists (kwl (x :: a), v). split; [reflexivity|]. apply prefix_in. split; [apply get_in, G | reflexivity].
Qed.

(* the strings of the listing are distinct as soon as the conversion does not identify two listed addresses *)
Theorem listing_whitelist_strings s l : okv_sorted s = true -> ent_wf s ->
  go_st_GetAllWhitelistedAddresses addr_string s = Ok l ->
  (forall a b, go_st_AddressIsWhitelisted s a = Ok true -> go_st_AddressIsWhitelisted s b = Ok true ->
               addr_string a = addr_string b -> a = b) ->
  NoDup l.
Proof.
  intros Hs Hw E Hinj. destruct (listing_whitelist s Hs Hw) as [l0 (E0 & _ & Hnd & Hin)].
  rewrite E in E0. injection E0 as ->. clear E.
  assert (Hinj' : forall a b, In a l0 -> In b l0 -> addr_string a = addr_string b -> a = b).
  { intros a b Ha Hb. apply Hinj; apply Hin; assumption. }
  clear Hin. induction Hnd as [|a l0 Hni Hnd IH]; cbn [map]; constructor.
  - intros X. apply in_map_iff in X. destruct X as [b [Eb Hb]].
    assert (b = a) by (apply Hinj'; [right; exact Hb | left; reflexivity | exact Eb]). subst b. contradiction.
  - apply IH. intros x y Hx Hy. apply Hinj'; right; assumption.
Qed.

(* ---- locked / spent: one generic listing lemma over the record type ---- *)
Lemma account_listing {A} (p1 : N) (owner : A -> go_addr) (inj : A -> enterprise_val) (proj : enterprise_val -> A)
    (dec : list N -> enterprise_val -> outcome A) s :
  (forall x, proj (inj x) = x) ->
  (forall k x, dec k (inj x) = Ok x) ->
  okv_sorted s = true ->
  (forall k v, In (k, v) s -> is_prefix [p1] k = true -> exists x b, v = inj x /\ bech32 (owner x) = Ok b /\ k = p1 :: b) ->
  exists l, decode_all dec (okv_prefix s [p1]) = Ok l /\
    StronglySorted (fun x y => exists bx bb, bech32 (owner x) = Ok bx /\ bech32 (owner y) = Ok bb /\ lex_lt bx bb = true) l /\
    (forall x, In x l <-> exists b, bech32 (owner x) = Ok b /\ okv_get s (p1 :: b) = Some (inj x)).
Proof.
  intros Hproj Hdec Hs Hw.
  set (f := fun kv : list N * enterprise_val => proj (snd kv)).
  assert (Hes : forall k v, In (k, v) (okv_prefix s [p1]) -> exists x b, v = inj x /\ bech32 (owner x) = Ok b /\ k = p1 :: b).
  { intros k v Hin. apply prefix_in in Hin. destruct Hin as [Hin Hp]. exact (Hw k v Hin Hp). }
  exists (map f (okv_prefix s [p1])). refine (conj _ (conj _ _)); [| |intros x; split].
  - apply decode_all_map. intros k v Hin. destruct (Hes k v Hin) as [x [b [-> _]]]. unfold f; cbn [snd]. rewrite Hproj. apply Hdec.
  - apply (StronglySorted_map_in key_lt); [|apply sorted_strongly, prefix_sorted, Hs].
    intros [ka va] [kb vb] Ha Hb Hlt. destruct (Hes _ _ Ha) as [x [bx [-> [Ex ->]]]]. destruct (Hes _ _ Hb) as [y [bb [-> [Ey ->]]]].
    unfold f; cbn [snd]. rewrite !Hproj. exists bx, bb. split; [exact Ex|]. split; [exact Ey|].
    unfold key_lt in Hlt. cbn [fst] in Hlt. rewrite lex_lt_cons_same in Hlt. exact Hlt.
  - intros Hin. apply in_map_iff in Hin. destruct Hin as [[k v] [E Hin]]. destruct (Hes k v Hin) as [x' [b [-> [Eb ->]]]].
    unfold f in E; cbn [snd] in E. rewrite Hproj in E. subst x'. exists b. split; [exact Eb|].
    apply prefix_in in Hin. destruct Hin as [Hin _]. apply (in_get _ _ _ Hs Hin).
  - intros [b [Eb G]]. apply in_map_iff. exists (p1 :: b, inj x). split; [unfold f; cbn [snd]; apply Hproj|].
    apply prefix_in. split; [apply get_in, G|]. cbn [is_prefix]. rewrite N.eqb_refl. reflexivity.
Qed.

Definition proj_locked (v : enterprise_val) : go_LockedUnd := match v with EV_LockedUnd x => x | _ => zero_go_LockedUnd end.
Definition proj_spent (v : enterprise_val) : go_SpentEFUND := match v with EV_SpentEFUND x => x | _ => zero_go_SpentEFUND end.

(* the order of the account listings: ascending byte order of the decoded owners *)
Definition owner_lt (o1 o2 : go_addr) : Prop :=
  exists b1 b2, bech32 o1 = Ok b1 /\ bech32 o2 = Ok b2 /\ lex_lt b1 b2 = true.
Lemma owner_lt_irrefl o : ~ owner_lt o o.
Proof. intros [b1 [b2 [E1 [E2 H]]]]. rewrite E1 in E2. injection E2 as <-. rewrite lex_lt_irrefl in H. discriminate. Qed.

Theorem listing_locked s : okv_sorted s = true -> ent_wf s ->
  exists l, go_st_GetAllLockedUnds s = Ok l /\
    StronglySorted (fun x y => owner_lt (LockedUnd_Owner x) (LockedUnd_Owner y)) l /\
    NoDup (map LockedUnd_Owner l) /\
    (forall x, In x l <-> exists b, bech32 (LockedUnd_Owner x) = Ok b /\ go_st_AccountHasLockedUnd s b = Ok true /\
                                    go_st_GetLockedUndForAccount addr_string s b = Ok x).
Proof.
  intros Hs Hw.
  destruct (account_listing 2%N LockedUnd_Owner EV_LockedUnd proj_locked dec_locked s) as [l (H1 & H2 & H3)].
  - reflexivity.
  - reflexivity.
  - exact Hs.
  - intros k v Hin Hp. destruct (Hw k v Hin) as (_ & _ & _ & _ & F & _). exact (F Hp).
  - exists l. rewrite spec_GetAllLockedUnds. refine (conj _ (conj _ (conj _ _))); [| | |intros x; split].
    + exact H1.
    + exact H2.
    + apply (StronglySorted_irrefl_NoDup owner_lt); [apply owner_lt_irrefl|].
      apply (StronglySorted_map_in _ owner_lt LockedUnd_Owner l (fun a b _ _ H => H) H2).
    + intros Hin. apply H3 in Hin. destruct Hin as [b [Eb G]]. exists b. split; [exact Eb|].
      rewrite spec_AccountHasLockedUnd, spec_GetLockedUndForAccount.
      change (klocked b) with (2%N :: b). rewrite G. split; reflexivity.
    + intros [b [Eb [Hh Hg]]]. apply H3. exists b. split; [exact Eb|].
      rewrite spec_GetLockedUndForAccount in Hg. rewrite spec_AccountHasLockedUnd in Hh.
      change (klocked b) with (2%N :: b) in Hg, Hh.
      destruct (okv_get s (2%N :: b)) as [[]|]; cbn [rd_locked rd_has] in Hg, Hh; try discriminate Hg; try discriminate Hh.
      injection Hg as ->. reflexivity.
Qed.

Theorem listing_spent s : okv_sorted s = true -> ent_wf s ->
  exists l, go_st_GetAllSpentEFUNDs s = Ok l /\
    StronglySorted (fun x y => owner_lt (SpentEFUND_Owner x) (SpentEFUND_Owner y)) l /\
    NoDup (map SpentEFUND_Owner l) /\
    (forall x, In x l <-> exists b, bech32 (SpentEFUND_Owner x) = Ok b /\ go_st_AccountHasSpentEFUND s b = Ok true /\
                                    go_st_GetSpentEFUNDForAccount addr_string s b = Ok x).
Proof.
  intros Hs Hw.
  destruct (account_listing 6%N SpentEFUND_Owner EV_SpentEFUND proj_spent dec_spent s) as [l (H1 & H2 & H3)].
  - reflexivity.
  - reflexivity.
  - exact Hs.
  - intros k v Hin Hp. destruct (Hw k v Hin) as (_ & _ & _ & _ & _ & F & _). exact (F Hp).
  - exists l. rewrite spec_GetAllSpentEFUNDs. refine (conj _ (conj _ (conj _ _))); [| | |intros x; split].
    + exact H1.
    + exact H2.
    + apply (StronglySorted_irrefl_NoDup owner_lt); [apply owner_lt_irrefl|].
      apply (StronglySorted_map_in _ owner_lt SpentEFUND_Owner l (fun a b _ _ H => H) H2).
    + intros Hin. apply H3 in Hin. destruct Hin as [b [Eb G]]. exists b. split; [exact Eb|].
      rewrite spec_AccountHasSpentEFUND, spec_GetSpentEFUNDForAccount.
      change (kspent b) with (6%N :: b). rewrite G. split; reflexivity.
    + intros [b [Eb [Hh Hg]]]. apply H3. exists b. split; [exact Eb|].
      rewrite spec_GetSpentEFUNDForAccount in Hg. rewrite spec_AccountHasSpentEFUND in Hh.
      change (kspent b) with (6%N :: b) in Hg, Hh.
      destruct (okv_get s (6%N :: b)) as [[]|]; cbn [rd_spent rd_has] in Hg, Hh; try discriminate Hg; try discriminate Hh.
      injection Hg as ->. reflexivity.
Qed.

(* point query -> listing: an account that has an entry is listed, with the record the point query returns *)
Theorem locked_point_listed s b l : okv_sorted s = true -> ent_wf s ->
  go_st_GetAllLockedUnds s = Ok l -> go_st_AccountHasLockedUnd s b = Ok true ->
  exists x, go_st_GetLockedUndForAccount addr_string s b = Ok x /\ bech32 (LockedUnd_Owner x) = Ok b /\ In x l.
Proof.
  intros Hs Hw El Hh. destruct (listing_locked s Hs Hw) as [l0 (E0 & _ & _ & Hin)]. rewrite El in E0. injection E0 as <-.
  rewrite spec_AccountHasLockedUnd in Hh. destruct (okv_get s (klocked b)) as [v|] eqn:G; [|discriminate Hh].
  pose proof (wf_get _ _ _ Hw G) as (_ & _ & _ & _ & F & _). destruct (F eq_refl) as [x [b' [-> [Eb Ek]]]].
  apply klocked_inj in Ek. subst b'. exists x.
  assert (Hg : go_st_GetLockedUndForAccount addr_string s b = Ok x) by (rewrite spec_GetLockedUndForAccount, G; reflexivity).
  split; [exact Hg|]. split; [exact Eb|]. apply Hin. exists b. split; [exact Eb|]. split; [|exact Hg].
  rewrite spec_AccountHasLockedUnd, G. reflexivity.
Qed.
Theorem spent_point_listed s b l : okv_sorted s = true -> ent_wf s ->
  go_st_GetAllSpentEFUNDs s = Ok l -> go_st_AccountHasSpentEFUND s b = Ok true ->
  exists x, go_st_GetSpentEFUNDForAccount addr_string s b = Ok x /\ bech32 (SpentEFUND_Owner x) = Ok b /\ In x l.
Proof.
  intros Hs Hw El Hh. destruct (listing_spent s Hs Hw) as [l0 (E0 & _ & _ & Hin)]. rewrite El in E0. injection E0 as <-.
  rewrite spec_AccountHasSpentEFUND in Hh. destruct (okv_get s (kspent b)) as [v|] eqn:G; [|discriminate Hh].
  pose proof (wf_get _ _ _ Hw G) as (_ & _ & _ & _ & _ & F & _). destruct (F eq_refl) as [x [b' [-> [Eb Ek]]]].
  apply kspent_inj in Ek. subst b'. exists x.
  assert (Hg : go_st_GetSpentEFUNDForAccount addr_string s b = Ok x) by (rewrite spec_GetSpentEFUNDForAccount, G; reflexivity).
  split; [exact Hg|]. split; [exact Eb|]. apply Hin. exists b. split; [exact Eb|]. split; [|exact Hg].
  rewrite spec_AccountHasSpentEFUND, G. reflexivity.
Qed.

(* ================================================================== *)
(* owner-level statements: what they need of the address conversions    *)
(* ================================================================== *)
(* The byte-level laws above need NOTHING of [bech32] / [addr_string] (in particular no length bound on the address
   bytes: the three address keys are prefix byte ++ raw address, injective on all byte strings).  Two statements at
   the level of owner strings do need something, and exactly this: *)

(* (1) different OWNERS do not interfere -- needs bech32 injective on its Ok domain (two spellings of one address, e.g.
       upper / lower case bech32, DO share one cell) *)
Theorem locked_other_owner s x s' o' b' :
  (forall a a' b, bech32 a = Ok b -> bech32 a' = Ok b -> a = a') ->
  go_st_SetLockedUndForAccount bech32 s x = Ok (s', tt) -> bech32 o' = Ok b' -> o' <> LockedUnd_Owner x ->
  go_st_AccountHasLockedUnd s' b' = go_st_AccountHasLockedUnd s b' /\
  go_st_GetLockedUndForAccount addr_string s' b' = go_st_GetLockedUndForAccount addr_string s b' /\
  go_st_GetLockedUndAmountForAccount addr_string s' b' = go_st_GetLockedUndAmountForAccount addr_string s b' /\
  go_st_IsLocked addr_string s' b' = go_st_IsLocked addr_string s b'.
Proof.
  intros Hinj E Hb' Hne. destruct (eff_SetLockedUndForAccount _ _ _ E) as [b [Hb _]].
  apply (locked_other s x s' b b' E Hb). intros ->. apply Hne. eapply Hinj; eassumption.
Qed.
Theorem spent_other_owner s x s' o' b' :
  (forall a a' b, bech32 a = Ok b -> bech32 a' = Ok b -> a = a') ->
  go_st_SetSpentEFUNDForAccount bech32 s x = Ok (s', tt) -> bech32 o' = Ok b' -> o' <> SpentEFUND_Owner x ->
  go_st_AccountHasSpentEFUND s' b' = go_st_AccountHasSpentEFUND s b' /\
  go_st_GetSpentEFUNDForAccount addr_string s' b' = go_st_GetSpentEFUNDForAccount addr_string s b' /\
  go_st_GetSpentEFUNDAmountForAccount addr_string s' b' = go_st_GetSpentEFUNDAmountForAccount addr_string s b'.
Proof.
  intros Hinj E Hb' Hne. destruct (eff_SetSpentEFUNDForAccount _ _ _ E) as [b [Hb _]].
  apply (spent_other s x s' b b' E Hb). intros ->. apply Hne. eapply Hinj; eassumption.
Qed.

(* (2) the record read for address [b] is owned by [b] (so writing it back goes to the same cell) -- needs the round
       trip bech32 (addr_string b) = Ok b for THIS b (it is the default record that carries addr_string b) *)
Theorem locked_record_owner s b x : ent_wf s -> bech32 (addr_string b) = Ok b ->
  go_st_GetLockedUndForAccount addr_string s b = Ok x -> bech32 (LockedUnd_Owner x) = Ok b.
Proof.
  intros Hw Hrt. rewrite spec_GetLockedUndForAccount. destruct (okv_get s (klocked b)) as [v|] eqn:G.
  - pose proof (wf_get _ _ _ Hw G) as (_ & _ & _ & _ & F & _). destruct (F eq_refl) as [x' [b' [-> [Eb Ek]]]].
    apply klocked_inj in Ek. subst b'. cbn [rd_locked]. intros E. injection E as <-. exact Eb.
  - cbn [rd_locked]. destruct (rd_zero_coin (okv_get s kparams)); cbn [obind]; intros E; try discriminate E.
    injection E as <-. exact Hrt.
Qed.
Theorem spent_record_owner s b x : ent_wf s -> bech32 (addr_string b) = Ok b ->
  go_st_GetSpentEFUNDForAccount addr_string s b = Ok x -> bech32 (SpentEFUND_Owner x) = Ok b.
Proof.
  intros Hw Hrt. rewrite spec_GetSpentEFUNDForAccount. destruct (okv_get s (kspent b)) as [v|] eqn:G.
  - pose proof (wf_get _ _ _ Hw G) as (_ & _ & _ & _ & _ & F & _). destruct (F eq_refl) as [x' [b' [-> [Eb Ek]]]].
    apply kspent_inj in Ek. subst b'. cbn [rd_spent]. intros E. injection E as <-. exact Eb.
  - cbn [rd_spent]. destruct (rd_zero_coin (okv_get s kparams)); cbn [obind]; intros E; try discriminate E.
    injection E as <-. exact Hrt.
Qed.

(* read - modify - write of one account's locked amount lands in the cell it was read from *)
Theorem locked_read_modify_write s b x c : ent_wf s -> bech32 (addr_string b) = Ok b ->
  go_st_GetLockedUndForAccount addr_string s b = Ok x -> 0 <= snd c ->
  exists s', go_st_SetLockedUndForAccount bech32 s (mk_go_LockedUnd (LockedUnd_Owner x) c) = Ok (s', tt) /\
             go_st_GetLockedUndForAccount addr_string s' b = Ok (mk_go_LockedUnd (LockedUnd_Owner x) c) /\
             go_st_GetLockedUndAmountForAccount addr_string s' b = Ok c.
Proof.
  intros Hw Hrt Hg Hc. pose proof (locked_record_owner s b x Hw Hrt Hg) as Hb.
  eexists. split.
  - rewrite spec_SetLockedUndForAccount. cbn [LockedUnd_Owner LockedUnd_Amount]. rewrite Hb. cbn [obind].
    unfold Coin_IsNegative. apply Z.ltb_ge in Hc. rewrite Hc. reflexivity.
  - rewrite spec_GetLockedUndForAccount, spec_GetLockedUndAmountForAccount, get_set_same. split; reflexivity.
Qed.

(* ================================================================== *)
(* the headline statements, as the props file spells them               *)
(* ================================================================== *)

(* SetParams then the five parameter readers: exactly what was written *)
Theorem hl_ryw_params :
  forall (s s' : okv enterprise_val) (p : go_Params), go_st_SetParams s p = Ok (s', tt) ->
  go_st_GetParams s' = Ok p /\
  go_st_GetParamDenom s' = Ok (Params_Denom p) /\
  go_st_GetParamMinAccepts s' = Ok (Params_MinAccepts p) /\
  go_st_GetParamDecisionLimit s' = Ok (Params_DecisionTimeLimit p) /\
  go_st_GetParamEntSigners s' = Ok (Params_EntSigners p).
Proof.
  intros s s' p. apply ryw_params.
Qed.

(* the purchase-order counter reads back (a Go uint64), and is an error while nothing is stored *)
Theorem hl_ryw_highest :
  forall (s s' : okv enterprise_val) (id : Z), 0 <= id < 2 ^ 64 ->
  go_st_SetHighestPurchaseOrderID s id = Ok (s', tt) ->
  go_st_GetHighestPurchaseOrderID s' = Ok id /\
  go_st_GetHighestPurchaseOrderID [] = Err STORE_ERR.
Proof.
  intros s s' id Hr E. split; [eapply ryw_highest; eassumption | exact (highest_default [] eq_refl)].
Qed.

(* SetPurchaseOrder then GetPurchaseOrder / PurchaseOrderExists at the order's id; an invalid status is refused *)
Theorem hl_ryw_purchase_order :
  forall (s : okv enterprise_val) (po : go_EnterpriseUndPurchaseOrder),
  (forall s', go_st_SetPurchaseOrder s po = Ok (s', tt) ->
     1 <= EnterpriseUndPurchaseOrder_Status po <= 4 /\
     go_st_GetPurchaseOrder s' (EnterpriseUndPurchaseOrder_Id po) = Ok (po, true) /\
     go_st_PurchaseOrderExists s' (EnterpriseUndPurchaseOrder_Id po) = Ok true) /\
  (~ (1 <= EnterpriseUndPurchaseOrder_Status po <= 4) -> go_st_SetPurchaseOrder s po = Err STORE_ERR) /\
  (forall id, go_st_PurchaseOrderExists s id = Ok false ->
     go_st_GetPurchaseOrder s id = Ok (zero_go_EnterpriseUndPurchaseOrder, false)).
Proof.
  intros s po. refine (conj _ (conj _ _)).
  - intros s' E. split; [apply po_status_ok_spec; apply (eff_SetPurchaseOrder _ _ _ E) | apply (ryw_purchase_order s po s' E)].
  - apply SetPurchaseOrder_guard.
  - intros id. apply purchase_order_default.
Qed.

(* raised / accepted queue: in after Add, out after Remove (sorted store); removing an absent id changes nothing *)
Theorem hl_ryw_queues :
  forall (s s' : okv enterprise_val) (id : Z),
  (go_st_AddPoToRaisedQueue s id = Ok (s', tt) -> go_st_PurchaseOrderIsInRaisedQueue s' id = Ok true) /\
  (okv_sorted s = true -> go_st_RemovePurchaseOrderFromRaisedQueue s id = Ok (s', tt) ->
     go_st_PurchaseOrderIsInRaisedQueue s' id = Ok false) /\
  (go_st_PurchaseOrderIsInRaisedQueue s id = Ok false -> go_st_RemovePurchaseOrderFromRaisedQueue s id = Ok (s, tt)) /\
  (go_st_AddPoToAcceptedQueue s id = Ok (s', tt) -> go_st_PurchaseOrderIsInAcceptedQueue s' id = Ok true) /\
  (okv_sorted s = true -> go_st_RemovePurchaseOrderFromAcceptedQueue s id = Ok (s', tt) ->
     go_st_PurchaseOrderIsInAcceptedQueue s' id = Ok false) /\
  (go_st_PurchaseOrderIsInAcceptedQueue s id = Ok false -> go_st_RemovePurchaseOrderFromAcceptedQueue s id = Ok (s, tt)).
Proof.
  intros s s' id. refine (conj _ (conj _ (conj _ (conj _ (conj _ _))))).
  - apply ryw_raised_add.
  - apply ryw_raised_remove.
  - apply raised_remove_absent.
  - apply ryw_accepted_add.
  - apply ryw_accepted_remove.
  - apply accepted_remove_absent.
Qed.

(* whitelist: in after Add, out after Remove (sorted store); the EMPTY address is never whitelisted and refused by Add / Remove *)
Theorem hl_ryw_whitelist :
  forall (s s' : okv enterprise_val) (a : list N),
  (go_st_AddAddressToWhitelist s a = Ok (s', tt) -> a <> [] /\ go_st_AddressIsWhitelisted s' a = Ok true) /\
  (okv_sorted s = true -> go_st_RemoveAddressFromWhitelist s a = Ok (s', tt) ->
     a <> [] /\ go_st_AddressIsWhitelisted s' a = Ok false) /\
  (a <> [] -> go_st_AddressIsWhitelisted s a = Ok false -> go_st_RemoveAddressFromWhitelist s a = Ok (s, tt)) /\
  go_st_AddressIsWhitelisted s [] = Ok false /\
  go_st_AddAddressToWhitelist s [] = Err STORE_ERR_SDK /\
  go_st_RemoveAddressFromWhitelist s [] = Err STORE_ERR_SDK.
Proof.
  intros s s' a. refine (conj _ (conj _ (conj _ _))).
  - intros E. split; [apply (eff_AddAddressToWhitelist _ _ _ E) | apply (ryw_whitelist_add s a s' E)].
  - intros Hs E. split; [apply (eff_RemoveAddressFromWhitelist _ _ _ E) | apply (ryw_whitelist_remove s a s' Hs E)].
  - apply whitelist_remove_absent.
  - apply whitelist_empty_address.
Qed.

(* SetLockedUndForAccount then the four readers at the decoded owner: exactly the record written; a negative amount is refused *)
Theorem hl_ryw_locked :
  forall (s : okv enterprise_val) (x : go_LockedUnd) (b : list N), bech32 (LockedUnd_Owner x) = Ok b ->
  (forall s', go_st_SetLockedUndForAccount bech32 s x = Ok (s', tt) ->
     0 <= snd (LockedUnd_Amount x) /\
     go_st_AccountHasLockedUnd s' b = Ok true /\
     go_st_GetLockedUndForAccount addr_string s' b = Ok x /\
     go_st_GetLockedUndAmountForAccount addr_string s' b = Ok (LockedUnd_Amount x) /\
     go_st_IsLocked addr_string s' b = Ok (Coin_IsPositive (LockedUnd_Amount x))) /\
  (snd (LockedUnd_Amount x) < 0 -> go_st_SetLockedUndForAccount bech32 s x = Err STORE_ERR).
Proof.
  intros s x b Hb. split.
  - intros s' E. split; [|apply (ryw_locked s x s' b E Hb)].
    destruct (SetLockedUndForAccount_ok _ _ _ E) as [b' [_ H]]. exact H.
  - apply (SetLockedUndForAccount_guard s x b Hb).
Qed.

(* SetSpentEFUNDForAccount then the three readers at the decoded owner *)
Theorem hl_ryw_spent :
  forall (s s' : okv enterprise_val) (x : go_SpentEFUND) (b : list N),
  go_st_SetSpentEFUNDForAccount bech32 s x = Ok (s', tt) -> bech32 (SpentEFUND_Owner x) = Ok b ->
  go_st_AccountHasSpentEFUND s' b = Ok true /\
  go_st_GetSpentEFUNDForAccount addr_string s' b = Ok x /\
  go_st_GetSpentEFUNDAmountForAccount addr_string s' b = Ok (SpentEFUND_Amount x).
Proof.
  intros s s' x b. apply ryw_spent.
Qed.

(* the two totals read back *)
Theorem hl_ryw_totals :
  forall (s s' : okv enterprise_val) (c : go_coin),
  (go_st_SetTotalLockedUnd s c = Ok (s', tt) -> go_st_GetTotalLockedUnd s' = Ok c) /\
  (go_st_SetTotalSpentEFUND s c = Ok (s', tt) -> go_st_GetTotalSpentEFUND s' = Ok c).
Proof.
  intros s s' c. split; [apply ryw_total_locked | apply ryw_total_spent].
Qed.

(* nothing stored: the zero coin of the PARAMETER denomination (these readers also read the params cell) *)
Theorem hl_defaults :
  forall (s : okv enterprise_val) (p : go_Params) (a : list N), go_st_GetParams s = Ok p ->
  (okv_get s (ent_encode EkTotalLocked) = None -> go_st_GetTotalLockedUnd s = Ok (Params_Denom p, 0)) /\
  (okv_get s (ent_encode EkTotalSpent) = None -> go_st_GetTotalSpentEFUND s = Ok (Params_Denom p, 0)) /\
  (go_st_AccountHasLockedUnd s a = Ok false ->
     go_st_GetLockedUndForAccount addr_string s a = Ok (mk_go_LockedUnd (addr_string a) (Params_Denom p, 0)) /\
     go_st_GetLockedUndAmountForAccount addr_string s a = Ok (Params_Denom p, 0) /\
     go_st_IsLocked addr_string s a = Ok false) /\
  (go_st_AccountHasSpentEFUND s a = Ok false ->
     go_st_GetSpentEFUNDForAccount addr_string s a = Ok (mk_go_SpentEFUND (addr_string a) (Params_Denom p, 0)) /\
     go_st_GetSpentEFUNDAmountForAccount addr_string s a = Ok (Params_Denom p, 0)).
Proof.
  intros s p a Hp. destruct (totals_default s p Hp) as [T1 T2]. refine (conj T1 (conj T2 (conj _ _))).
  - apply locked_default; exact Hp.
  - apply spent_default; exact Hp.
Qed.

(* a write / delete at one id changes no read at ANOTHER id of the same kind (ids of the uint64 range) *)
Theorem hl_other_ids :
  forall (s s' : okv enterprise_val) (id id' : Z), 0 <= id < 2 ^ 64 -> 0 <= id' < 2 ^ 64 -> id' <> id ->
  (forall po, EnterpriseUndPurchaseOrder_Id po = id -> go_st_SetPurchaseOrder s po = Ok (s', tt) ->
     go_st_GetPurchaseOrder s' id' = go_st_GetPurchaseOrder s id' /\
     go_st_PurchaseOrderExists s' id' = go_st_PurchaseOrderExists s id') /\
  (go_st_AddPoToRaisedQueue s id = Ok (s', tt) \/ go_st_RemovePurchaseOrderFromRaisedQueue s id = Ok (s', tt) ->
     go_st_PurchaseOrderIsInRaisedQueue s' id' = go_st_PurchaseOrderIsInRaisedQueue s id') /\
  (go_st_AddPoToAcceptedQueue s id = Ok (s', tt) \/ go_st_RemovePurchaseOrderFromAcceptedQueue s id = Ok (s', tt) ->
     go_st_PurchaseOrderIsInAcceptedQueue s' id' = go_st_PurchaseOrderIsInAcceptedQueue s id').
Proof.
  intros s s' id id' H1 H2 Hne. refine (conj _ (conj _ _)).
  - intros po <- E. apply (purchase_order_other s po s' id' E H1 H2 Hne).
  - intros E. apply (raised_other s id s' id' E H1 H2 Hne).
  - intros E. apply (accepted_other s id s' id' E H1 H2 Hne).
Qed.

(* a write / delete at one address changes no read at ANOTHER address of the same kind (no hypothesis on the addresses) *)
Theorem hl_other_addresses :
  forall (s s' : okv enterprise_val) (b b' : list N), b' <> b ->
  (go_st_AddAddressToWhitelist s b = Ok (s', tt) \/ go_st_RemoveAddressFromWhitelist s b = Ok (s', tt) ->
     go_st_AddressIsWhitelisted s' b' = go_st_AddressIsWhitelisted s b') /\
  (forall x, go_st_SetLockedUndForAccount bech32 s x = Ok (s', tt) -> bech32 (LockedUnd_Owner x) = Ok b ->
     go_st_AccountHasLockedUnd s' b' = go_st_AccountHasLockedUnd s b' /\
     go_st_GetLockedUndForAccount addr_string s' b' = go_st_GetLockedUndForAccount addr_string s b' /\
     go_st_GetLockedUndAmountForAccount addr_string s' b' = go_st_GetLockedUndAmountForAccount addr_string s b' /\
     go_st_IsLocked addr_string s' b' = go_st_IsLocked addr_string s b') /\
  (forall x, go_st_SetSpentEFUNDForAccount bech32 s x = Ok (s', tt) -> bech32 (SpentEFUND_Owner x) = Ok b ->
     go_st_AccountHasSpentEFUND s' b' = go_st_AccountHasSpentEFUND s b' /\
     go_st_GetSpentEFUNDForAccount addr_string s' b' = go_st_GetSpentEFUNDForAccount addr_string s b' /\
     go_st_GetSpentEFUNDAmountForAccount addr_string s' b' = go_st_GetSpentEFUNDAmountForAccount addr_string s b').
Proof.
  intros s s' b b' Hne. refine (conj _ (conj _ _)).
  - intros E. apply (whitelist_other s b s' b' E Hne).
  - intros x E Hb. apply (locked_other s x s' b b' E Hb Hne).
  - intros x E Hb. apply (spent_other s x s' b b' E Hb Hne).
Qed.

(* with bech32 injective on its Ok domain, different OWNER STRINGS do not interfere *)
Theorem hl_other_owners :
  (forall a a' b, bech32 a = Ok b -> bech32 a' = Ok b -> a = a') ->
  forall (s s' : okv enterprise_val) (o' : go_addr) (b' : list N), bech32 o' = Ok b' ->
  (forall x, go_st_SetLockedUndForAccount bech32 s x = Ok (s', tt) -> o' <> LockedUnd_Owner x ->
     go_st_AccountHasLockedUnd s' b' = go_st_AccountHasLockedUnd s b' /\
     go_st_GetLockedUndForAccount addr_string s' b' = go_st_GetLockedUndForAccount addr_string s b' /\
     go_st_GetLockedUndAmountForAccount addr_string s' b' = go_st_GetLockedUndAmountForAccount addr_string s b' /\
     go_st_IsLocked addr_string s' b' = go_st_IsLocked addr_string s b') /\
  (forall x, go_st_SetSpentEFUNDForAccount bech32 s x = Ok (s', tt) -> o' <> SpentEFUND_Owner x ->
     go_st_AccountHasSpentEFUND s' b' = go_st_AccountHasSpentEFUND s b' /\
     go_st_GetSpentEFUNDForAccount addr_string s' b' = go_st_GetSpentEFUNDForAccount addr_string s b' /\
     go_st_GetSpentEFUNDAmountForAccount addr_string s' b' = go_st_GetSpentEFUNDAmountForAccount addr_string s b').
Proof.
  intros Hinj s s' o' b' Hb'. split.
  - intros x E Hne. apply (locked_other_owner s x s' o' b' Hinj E Hb' Hne).
  - intros x E Hne. apply (spent_other_owner s x s' o' b' Hinj E Hb' Hne).
Qed.

(* every successful writer is ONE okv_set / okv_del, at a key of its own constructor (touches: set or delete at that key) *)
Theorem hl_writers_touch_one_cell :
  forall (s s' : okv enterprise_val),
  ((exists p, go_st_SetParams s p = Ok (s', tt)) -> touches EkParams s s') /\
  ((exists id, go_st_SetHighestPurchaseOrderID s id = Ok (s', tt)) -> touches EkHighestPO s s') /\
  ((exists id, go_st_AddPoToRaisedQueue s id = Ok (s', tt)) \/
   (exists id, go_st_RemovePurchaseOrderFromRaisedQueue s id = Ok (s', tt)) -> exists n, touches (EkRaised n) s s') /\
  ((exists id, go_st_AddPoToAcceptedQueue s id = Ok (s', tt)) \/
   (exists id, go_st_RemovePurchaseOrderFromAcceptedQueue s id = Ok (s', tt)) -> exists n, touches (EkAccepted n) s s') /\
  ((exists po, go_st_SetPurchaseOrder s po = Ok (s', tt)) -> exists n, touches (EkPO n) s s') /\
  ((exists a, go_st_AddAddressToWhitelist s a = Ok (s', tt)) \/
   (exists a, go_st_RemoveAddressFromWhitelist s a = Ok (s', tt)) -> exists a, touches (EkWhitelist a) s s') /\
  ((exists c, go_st_SetTotalLockedUnd s c = Ok (s', tt)) -> touches EkTotalLocked s s') /\
  ((exists c, go_st_SetTotalSpentEFUND s c = Ok (s', tt)) -> touches EkTotalSpent s s') /\
  ((exists x, go_st_SetSpentEFUNDForAccount bech32 s x = Ok (s', tt)) -> exists a, touches (EkSpent a) s s') /\
  ((exists x, go_st_SetLockedUndForAccount bech32 s x = Ok (s', tt)) -> exists a, touches (EkLocked a) s s').
Proof.
  exact writers_touch_one_cell.
Qed.

(* every writer preserves the store's representation invariant *)
Theorem hl_writers_preserve_sorted :
  forall (s s' : okv enterprise_val), okv_sorted s = true ->
  (exists p, go_st_SetParams s p = Ok (s', tt)) \/
  (exists id, go_st_SetHighestPurchaseOrderID s id = Ok (s', tt)) \/
  (exists id, go_st_AddPoToRaisedQueue s id = Ok (s', tt)) \/
  (exists id, go_st_RemovePurchaseOrderFromRaisedQueue s id = Ok (s', tt)) \/
  (exists id, go_st_AddPoToAcceptedQueue s id = Ok (s', tt)) \/
  (exists id, go_st_RemovePurchaseOrderFromAcceptedQueue s id = Ok (s', tt)) \/
  (exists po, go_st_SetPurchaseOrder s po = Ok (s', tt)) \/
  (exists a, go_st_AddAddressToWhitelist s a = Ok (s', tt)) \/
  (exists a, go_st_RemoveAddressFromWhitelist s a = Ok (s', tt)) \/
  (exists c, go_st_SetTotalLockedUnd s c = Ok (s', tt)) \/
  (exists c, go_st_SetTotalSpentEFUND s c = Ok (s', tt)) \/
  (exists x, go_st_SetSpentEFUNDForAccount bech32 s x = Ok (s', tt)) \/
  (exists x, go_st_SetLockedUndForAccount bech32 s x = Ok (s', tt)) ->
  okv_sorted s' = true.
Proof.
  intros s s' Hs H. apply (writers_preserve_sorted s s' Hs).
  unfold ent_write. repeat (destruct H as [H|H]); tauto.
Qed.

(* the empty store is well-formed and every writer preserves well-formedness (ids of the uint64 range) *)
Theorem hl_writers_preserve_wf :
  ent_wf [] /\
  forall (s s' : okv enterprise_val), ent_wf s ->
  (exists p, go_st_SetParams s p = Ok (s', tt)) \/
  (exists id, 0 <= id < 2 ^ 64 /\ go_st_SetHighestPurchaseOrderID s id = Ok (s', tt)) \/
  (exists id, 0 <= id < 2 ^ 64 /\ go_st_AddPoToRaisedQueue s id = Ok (s', tt)) \/
  (exists id, go_st_RemovePurchaseOrderFromRaisedQueue s id = Ok (s', tt)) \/
  (exists id, 0 <= id < 2 ^ 64 /\ go_st_AddPoToAcceptedQueue s id = Ok (s', tt)) \/
  (exists id, go_st_RemovePurchaseOrderFromAcceptedQueue s id = Ok (s', tt)) \/
  (exists po, 0 <= (EnterpriseUndPurchaseOrder_Id po) < 2 ^ 64 /\ go_st_SetPurchaseOrder s po = Ok (s', tt)) \/
  (exists a, go_st_AddAddressToWhitelist s a = Ok (s', tt)) \/
  (exists a, go_st_RemoveAddressFromWhitelist s a = Ok (s', tt)) \/
  (exists c, go_st_SetTotalLockedUnd s c = Ok (s', tt)) \/
  (exists c, go_st_SetTotalSpentEFUND s c = Ok (s', tt)) \/
  (exists x, go_st_SetSpentEFUNDForAccount bech32 s x = Ok (s', tt)) \/
  (exists x, go_st_SetLockedUndForAccount bech32 s x = Ok (s', tt)) ->
  ent_wf s'.
Proof.
  split; [exact wf_nil | exact writers_preserve_wf].
Qed.

(* on a well-formed store no point reader meets a value of the wrong type; the counter is a uint64 or absent *)
Theorem hl_wf_reads_typed :
  forall (s : okv enterprise_val), ent_wf s ->
  (exists p, go_st_GetParams s = Ok p) /\
  (go_st_GetHighestPurchaseOrderID s = Err STORE_ERR \/ exists id, 0 <= id < 2 ^ 64 /\ go_st_GetHighestPurchaseOrderID s = Ok id) /\
  (forall id, exists r, go_st_GetPurchaseOrder s id = Ok r) /\
  (exists c, go_st_GetTotalLockedUnd s = Ok c) /\
  (exists c, go_st_GetTotalSpentEFUND s = Ok c) /\
  (forall a, exists x, go_st_GetLockedUndForAccount addr_string s a = Ok x) /\
  (forall a, exists x, go_st_GetSpentEFUNDForAccount addr_string s a = Ok x).
Proof.
  exact wf_point_reads_typed.
Qed.

(* no writer of another kind changes a parameter reader / the counter reader *)
Theorem hl_isolation_params_counter :
  forall (s s' : okv enterprise_val),
  ((exists id, go_st_SetHighestPurchaseOrderID s id = Ok (s', tt)) \/
   (exists id, go_st_AddPoToRaisedQueue s id = Ok (s', tt)) \/
   (exists id, go_st_RemovePurchaseOrderFromRaisedQueue s id = Ok (s', tt)) \/
   (exists id, go_st_AddPoToAcceptedQueue s id = Ok (s', tt)) \/
   (exists id, go_st_RemovePurchaseOrderFromAcceptedQueue s id = Ok (s', tt)) \/
   (exists po, go_st_SetPurchaseOrder s po = Ok (s', tt)) \/
   (exists a, go_st_AddAddressToWhitelist s a = Ok (s', tt)) \/
   (exists a, go_st_RemoveAddressFromWhitelist s a = Ok (s', tt)) \/
   (exists c, go_st_SetTotalLockedUnd s c = Ok (s', tt)) \/
   (exists c, go_st_SetTotalSpentEFUND s c = Ok (s', tt)) \/
   (exists x, go_st_SetSpentEFUNDForAccount bech32 s x = Ok (s', tt)) \/
   (exists x, go_st_SetLockedUndForAccount bech32 s x = Ok (s', tt)) ->
   go_st_GetParams s' = go_st_GetParams s /\
   go_st_GetParamDenom s' = go_st_GetParamDenom s /\
   go_st_GetParamMinAccepts s' = go_st_GetParamMinAccepts s /\
   go_st_GetParamDecisionLimit s' = go_st_GetParamDecisionLimit s /\
   go_st_GetParamEntSigners s' = go_st_GetParamEntSigners s) /\
  ((exists p, go_st_SetParams s p = Ok (s', tt)) \/
   (exists id, go_st_AddPoToRaisedQueue s id = Ok (s', tt)) \/
   (exists id, go_st_RemovePurchaseOrderFromRaisedQueue s id = Ok (s', tt)) \/
   (exists id, go_st_AddPoToAcceptedQueue s id = Ok (s', tt)) \/
   (exists id, go_st_RemovePurchaseOrderFromAcceptedQueue s id = Ok (s', tt)) \/
   (exists po, go_st_SetPurchaseOrder s po = Ok (s', tt)) \/
   (exists a, go_st_AddAddressToWhitelist s a = Ok (s', tt)) \/
   (exists a, go_st_RemoveAddressFromWhitelist s a = Ok (s', tt)) \/
   (exists c, go_st_SetTotalLockedUnd s c = Ok (s', tt)) \/
   (exists c, go_st_SetTotalSpentEFUND s c = Ok (s', tt)) \/
   (exists x, go_st_SetSpentEFUNDForAccount bech32 s x = Ok (s', tt)) \/
   (exists x, go_st_SetLockedUndForAccount bech32 s x = Ok (s', tt)) ->
   go_st_GetHighestPurchaseOrderID s' = go_st_GetHighestPurchaseOrderID s).
Proof.
  intros s s'. exact (conj (isolation_params_reads s s') (isolation_highest_reads s s')).
Qed.

(* no writer of another kind changes a purchase-order reader (point, iteration, listing) *)
Theorem hl_isolation_purchase_orders :
  forall (s s' : okv enterprise_val),
  ((exists p, go_st_SetParams s p = Ok (s', tt)) \/
   (exists id, go_st_SetHighestPurchaseOrderID s id = Ok (s', tt)) \/
   (exists id, go_st_AddPoToRaisedQueue s id = Ok (s', tt)) \/
   (exists id, go_st_RemovePurchaseOrderFromRaisedQueue s id = Ok (s', tt)) \/
   (exists id, go_st_AddPoToAcceptedQueue s id = Ok (s', tt)) \/
   (exists id, go_st_RemovePurchaseOrderFromAcceptedQueue s id = Ok (s', tt)) \/
   (exists a, go_st_AddAddressToWhitelist s a = Ok (s', tt)) \/
   (exists a, go_st_RemoveAddressFromWhitelist s a = Ok (s', tt)) \/
   (exists c, go_st_SetTotalLockedUnd s c = Ok (s', tt)) \/
   (exists c, go_st_SetTotalSpentEFUND s c = Ok (s', tt)) \/
   (exists x, go_st_SetSpentEFUNDForAccount bech32 s x = Ok (s', tt)) \/
   (exists x, go_st_SetLockedUndForAccount bech32 s x = Ok (s', tt)) ->
   (forall id, go_st_PurchaseOrderExists s' id = go_st_PurchaseOrderExists s id) /\
   (forall id, go_st_GetPurchaseOrder s' id = go_st_GetPurchaseOrder s id) /\
   (forall (St : Type) (cb : St -> go_EnterpriseUndPurchaseOrder -> outcome (St * bool)) (st : St),
      go_st_IteratePurchaseOrders s' cb st = go_st_IteratePurchaseOrders s cb st) /\
   go_st_GetAllPurchaseOrders s' = go_st_GetAllPurchaseOrders s).
Proof.
  exact isolation_po_reads.
Qed.

(* no writer of another kind changes a reader of the raised / of the accepted queue (point, iteration, listing) *)
Theorem hl_isolation_queues :
  forall (s s' : okv enterprise_val),
  ((exists p, go_st_SetParams s p = Ok (s', tt)) \/
   (exists id, go_st_SetHighestPurchaseOrderID s id = Ok (s', tt)) \/
   (exists id, go_st_AddPoToAcceptedQueue s id = Ok (s', tt)) \/
   (exists id, go_st_RemovePurchaseOrderFromAcceptedQueue s id = Ok (s', tt)) \/
   (exists po, go_st_SetPurchaseOrder s po = Ok (s', tt)) \/
   (exists a, go_st_AddAddressToWhitelist s a = Ok (s', tt)) \/
   (exists a, go_st_RemoveAddressFromWhitelist s a = Ok (s', tt)) \/
   (exists c, go_st_SetTotalLockedUnd s c = Ok (s', tt)) \/
   (exists c, go_st_SetTotalSpentEFUND s c = Ok (s', tt)) \/
   (exists x, go_st_SetSpentEFUNDForAccount bech32 s x = Ok (s', tt)) \/
   (exists x, go_st_SetLockedUndForAccount bech32 s x = Ok (s', tt)) ->
   (forall id, go_st_PurchaseOrderIsInRaisedQueue s' id = go_st_PurchaseOrderIsInRaisedQueue s id) /\
   (forall (St : Type) (cb : St -> Z -> outcome (St * bool)) (st : St),
      go_st_IterateRaisedQueue s' cb st = go_st_IterateRaisedQueue s cb st) /\
   go_st_GetAllRaisedPurchaseOrders s' = go_st_GetAllRaisedPurchaseOrders s) /\
  ((exists p, go_st_SetParams s p = Ok (s', tt)) \/
   (exists id, go_st_SetHighestPurchaseOrderID s id = Ok (s', tt)) \/
   (exists id, go_st_AddPoToRaisedQueue s id = Ok (s', tt)) \/
   (exists id, go_st_RemovePurchaseOrderFromRaisedQueue s id = Ok (s', tt)) \/
   (exists po, go_st_SetPurchaseOrder s po = Ok (s', tt)) \/
   (exists a, go_st_AddAddressToWhitelist s a = Ok (s', tt)) \/
   (exists a, go_st_RemoveAddressFromWhitelist s a = Ok (s', tt)) \/
   (exists c, go_st_SetTotalLockedUnd s c = Ok (s', tt)) \/
   (exists c, go_st_SetTotalSpentEFUND s c = Ok (s', tt)) \/
   (exists x, go_st_SetSpentEFUNDForAccount bech32 s x = Ok (s', tt)) \/
   (exists x, go_st_SetLockedUndForAccount bech32 s x = Ok (s', tt)) ->
   (forall id, go_st_PurchaseOrderIsInAcceptedQueue s' id = go_st_PurchaseOrderIsInAcceptedQueue s id) /\
   (forall (St : Type) (cb : St -> Z -> outcome (St * bool)) (st : St),
      go_st_IterateAcceptedQueue s' cb st = go_st_IterateAcceptedQueue s cb st) /\
   go_st_GetAllAcceptedPurchaseOrders s' = go_st_GetAllAcceptedPurchaseOrders s).
Proof.
  intros s s'. exact (conj (isolation_raised_reads s s') (isolation_accepted_reads s s')).
Qed.

(* no writer of another kind changes a whitelist reader *)
Theorem hl_isolation_whitelist :
  forall (s s' : okv enterprise_val),
  ((exists p, go_st_SetParams s p = Ok (s', tt)) \/
   (exists id, go_st_SetHighestPurchaseOrderID s id = Ok (s', tt)) \/
   (exists id, go_st_AddPoToRaisedQueue s id = Ok (s', tt)) \/
   (exists id, go_st_RemovePurchaseOrderFromRaisedQueue s id = Ok (s', tt)) \/
   (exists id, go_st_AddPoToAcceptedQueue s id = Ok (s', tt)) \/
   (exists id, go_st_RemovePurchaseOrderFromAcceptedQueue s id = Ok (s', tt)) \/
   (exists po, go_st_SetPurchaseOrder s po = Ok (s', tt)) \/
   (exists c, go_st_SetTotalLockedUnd s c = Ok (s', tt)) \/
   (exists c, go_st_SetTotalSpentEFUND s c = Ok (s', tt)) \/
   (exists x, go_st_SetSpentEFUNDForAccount bech32 s x = Ok (s', tt)) \/
   (exists x, go_st_SetLockedUndForAccount bech32 s x = Ok (s', tt)) ->
   (forall a, go_st_AddressIsWhitelisted s' a = go_st_AddressIsWhitelisted s a) /\
   (forall (St : Type) (cb : St -> list N -> outcome (St * bool)) (st : St),
      go_st_IterateWhitelist s' cb st = go_st_IterateWhitelist s cb st) /\
   go_st_GetAllWhitelistedAddresses addr_string s' = go_st_GetAllWhitelistedAddresses addr_string s).
Proof.
  exact isolation_wl_reads.
Qed.

(* locked FUND: entries / listing depend on the locked cells only; the value readers also on the params cell *)
Theorem hl_isolation_locked :
  forall (s s' : okv enterprise_val),
  ((exists p, go_st_SetParams s p = Ok (s', tt)) \/
   (exists id, go_st_SetHighestPurchaseOrderID s id = Ok (s', tt)) \/
   (exists id, go_st_AddPoToRaisedQueue s id = Ok (s', tt)) \/
   (exists id, go_st_RemovePurchaseOrderFromRaisedQueue s id = Ok (s', tt)) \/
   (exists id, go_st_AddPoToAcceptedQueue s id = Ok (s', tt)) \/
   (exists id, go_st_RemovePurchaseOrderFromAcceptedQueue s id = Ok (s', tt)) \/
   (exists po, go_st_SetPurchaseOrder s po = Ok (s', tt)) \/
   (exists a, go_st_AddAddressToWhitelist s a = Ok (s', tt)) \/
   (exists a, go_st_RemoveAddressFromWhitelist s a = Ok (s', tt)) \/
   (exists c, go_st_SetTotalLockedUnd s c = Ok (s', tt)) \/
   (exists c, go_st_SetTotalSpentEFUND s c = Ok (s', tt)) \/
   (exists x, go_st_SetSpentEFUNDForAccount bech32 s x = Ok (s', tt)) ->
   (forall a, go_st_AccountHasLockedUnd s' a = go_st_AccountHasLockedUnd s a) /\
   go_st_GetAllLockedUndAccountsIterator s' = go_st_GetAllLockedUndAccountsIterator s /\
   go_st_GetAllLockedUnds s' = go_st_GetAllLockedUnds s) /\
  ((exists id, go_st_SetHighestPurchaseOrderID s id = Ok (s', tt)) \/
   (exists id, go_st_AddPoToRaisedQueue s id = Ok (s', tt)) \/
   (exists id, go_st_RemovePurchaseOrderFromRaisedQueue s id = Ok (s', tt)) \/
   (exists id, go_st_AddPoToAcceptedQueue s id = Ok (s', tt)) \/
   (exists id, go_st_RemovePurchaseOrderFromAcceptedQueue s id = Ok (s', tt)) \/
   (exists po, go_st_SetPurchaseOrder s po = Ok (s', tt)) \/
   (exists a, go_st_AddAddressToWhitelist s a = Ok (s', tt)) \/
   (exists a, go_st_RemoveAddressFromWhitelist s a = Ok (s', tt)) \/
   (exists c, go_st_SetTotalLockedUnd s c = Ok (s', tt)) \/
   (exists c, go_st_SetTotalSpentEFUND s c = Ok (s', tt)) \/
   (exists x, go_st_SetSpentEFUNDForAccount bech32 s x = Ok (s', tt)) ->
   (forall a, go_st_GetLockedUndForAccount addr_string s' a = go_st_GetLockedUndForAccount addr_string s a) /\
   (forall a, go_st_GetLockedUndAmountForAccount addr_string s' a = go_st_GetLockedUndAmountForAccount addr_string s a) /\
   (forall a, go_st_IsLocked addr_string s' a = go_st_IsLocked addr_string s a)).
Proof.
  intros s s'. exact (conj (isolation_locked_entries_reads s s') (isolation_locked_values_reads s s')).
Qed.

(* spent eFUND: entries / listing depend on the spent cells only; the value readers also on the params cell *)
Theorem hl_isolation_spent :
  forall (s s' : okv enterprise_val),
  ((exists p, go_st_SetParams s p = Ok (s', tt)) \/
   (exists id, go_st_SetHighestPurchaseOrderID s id = Ok (s', tt)) \/
   (exists id, go_st_AddPoToRaisedQueue s id = Ok (s', tt)) \/
   (exists id, go_st_RemovePurchaseOrderFromRaisedQueue s id = Ok (s', tt)) \/
   (exists id, go_st_AddPoToAcceptedQueue s id = Ok (s', tt)) \/
   (exists id, go_st_RemovePurchaseOrderFromAcceptedQueue s id = Ok (s', tt)) \/
   (exists po, go_st_SetPurchaseOrder s po = Ok (s', tt)) \/
   (exists a, go_st_AddAddressToWhitelist s a = Ok (s', tt)) \/
   (exists a, go_st_RemoveAddressFromWhitelist s a = Ok (s', tt)) \/
   (exists c, go_st_SetTotalLockedUnd s c = Ok (s', tt)) \/
   (exists c, go_st_SetTotalSpentEFUND s c = Ok (s', tt)) \/
   (exists x, go_st_SetLockedUndForAccount bech32 s x = Ok (s', tt)) ->
   (forall a, go_st_AccountHasSpentEFUND s' a = go_st_AccountHasSpentEFUND s a) /\
   go_st_GetAllSpentEFUNDAccountsIterator s' = go_st_GetAllSpentEFUNDAccountsIterator s /\
   go_st_GetAllSpentEFUNDs s' = go_st_GetAllSpentEFUNDs s) /\
  ((exists id, go_st_SetHighestPurchaseOrderID s id = Ok (s', tt)) \/
   (exists id, go_st_AddPoToRaisedQueue s id = Ok (s', tt)) \/
   (exists id, go_st_RemovePurchaseOrderFromRaisedQueue s id = Ok (s', tt)) \/
   (exists id, go_st_AddPoToAcceptedQueue s id = Ok (s', tt)) \/
   (exists id, go_st_RemovePurchaseOrderFromAcceptedQueue s id = Ok (s', tt)) \/
   (exists po, go_st_SetPurchaseOrder s po = Ok (s', tt)) \/
   (exists a, go_st_AddAddressToWhitelist s a = Ok (s', tt)) \/
   (exists a, go_st_RemoveAddressFromWhitelist s a = Ok (s', tt)) \/
   (exists c, go_st_SetTotalLockedUnd s c = Ok (s', tt)) \/
   (exists c, go_st_SetTotalSpentEFUND s c = Ok (s', tt)) \/
   (exists x, go_st_SetLockedUndForAccount bech32 s x = Ok (s', tt)) ->
   (forall a, go_st_GetSpentEFUNDForAccount addr_string s' a = go_st_GetSpentEFUNDForAccount addr_string s a) /\
   (forall a, go_st_GetSpentEFUNDAmountForAccount addr_string s' a = go_st_GetSpentEFUNDAmountForAccount addr_string s a)).
Proof.
  intros s s'. exact (conj (isolation_spent_entries_reads s s') (isolation_spent_values_reads s s')).
Qed.

(* the two totals depend on their own cell and the params cell only *)
Theorem hl_isolation_totals :
  forall (s s' : okv enterprise_val),
  ((exists id, go_st_SetHighestPurchaseOrderID s id = Ok (s', tt)) \/
   (exists id, go_st_AddPoToRaisedQueue s id = Ok (s', tt)) \/
   (exists id, go_st_RemovePurchaseOrderFromRaisedQueue s id = Ok (s', tt)) \/
   (exists id, go_st_AddPoToAcceptedQueue s id = Ok (s', tt)) \/
   (exists id, go_st_RemovePurchaseOrderFromAcceptedQueue s id = Ok (s', tt)) \/
   (exists po, go_st_SetPurchaseOrder s po = Ok (s', tt)) \/
   (exists a, go_st_AddAddressToWhitelist s a = Ok (s', tt)) \/
   (exists a, go_st_RemoveAddressFromWhitelist s a = Ok (s', tt)) \/
   (exists c, go_st_SetTotalSpentEFUND s c = Ok (s', tt)) \/
   (exists x, go_st_SetSpentEFUNDForAccount bech32 s x = Ok (s', tt)) \/
   (exists x, go_st_SetLockedUndForAccount bech32 s x = Ok (s', tt)) ->
   go_st_GetTotalLockedUnd s' = go_st_GetTotalLockedUnd s) /\
  ((exists id, go_st_SetHighestPurchaseOrderID s id = Ok (s', tt)) \/
   (exists id, go_st_AddPoToRaisedQueue s id = Ok (s', tt)) \/
   (exists id, go_st_RemovePurchaseOrderFromRaisedQueue s id = Ok (s', tt)) \/
   (exists id, go_st_AddPoToAcceptedQueue s id = Ok (s', tt)) \/
   (exists id, go_st_RemovePurchaseOrderFromAcceptedQueue s id = Ok (s', tt)) \/
   (exists po, go_st_SetPurchaseOrder s po = Ok (s', tt)) \/
   (exists a, go_st_AddAddressToWhitelist s a = Ok (s', tt)) \/
   (exists a, go_st_RemoveAddressFromWhitelist s a = Ok (s', tt)) \/
   (exists c, go_st_SetTotalLockedUnd s c = Ok (s', tt)) \/
   (exists x, go_st_SetSpentEFUNDForAccount bech32 s x = Ok (s', tt)) \/
   (exists x, go_st_SetLockedUndForAccount bech32 s x = Ok (s', tt)) ->
   go_st_GetTotalSpentEFUND s' = go_st_GetTotalSpentEFUND s).
Proof.
  intros s s'. exact (conj (isolation_totlocked_reads s s') (isolation_totspent_reads s s')).
Qed.

(* the queue listings: the queued ids, each once, in ascending NUMERIC order (BeginBlock's processing order); listed iff the point query says so *)
Theorem hl_listing_queues :
  forall (s : okv enterprise_val), okv_sorted s = true -> ent_wf s ->
  (exists ids, go_st_GetAllRaisedPurchaseOrders s = Ok ids /\
     StronglySorted Z.lt ids /\ NoDup ids /\
     (forall id, In id ids -> 0 <= id < 2 ^ 64) /\
     (forall id, 0 <= id < 2 ^ 64 -> (In id ids <-> go_st_PurchaseOrderIsInRaisedQueue s id = Ok true))) /\
  (exists ids, go_st_GetAllAcceptedPurchaseOrders s = Ok ids /\
     StronglySorted Z.lt ids /\ NoDup ids /\
     (forall id, In id ids -> 0 <= id < 2 ^ 64) /\
     (forall id, 0 <= id < 2 ^ 64 -> (In id ids <-> go_st_PurchaseOrderIsInAcceptedQueue s id = Ok true))).
Proof.
  intros s Hs Hw. split.
  - destruct (listing_raised s Hs Hw) as [ids (H1 & H2 & H3 & H4)]. exists ids.
    refine (conj H1 (conj H2 (conj (ascending_NoDup ids H2) (conj H3 H4)))).
  - destruct (listing_accepted s Hs Hw) as [ids (H1 & H2 & H3 & H4)]. exists ids.
    refine (conj H1 (conj H2 (conj (ascending_NoDup ids H2) (conj H3 H4)))).
Qed.

(* GetAllPurchaseOrders: every stored order, ascending by id; listed iff GetPurchaseOrder finds it; an order is stored under its own id *)
Theorem hl_listing_purchase_orders :
  forall (s : okv enterprise_val), okv_sorted s = true -> ent_wf s ->
  (exists l, go_st_GetAllPurchaseOrders s = Ok l /\
     StronglySorted (fun a b => EnterpriseUndPurchaseOrder_Id a < EnterpriseUndPurchaseOrder_Id b) l /\
     (forall po, In po l -> 0 <= EnterpriseUndPurchaseOrder_Id po < 2 ^ 64) /\
     (forall po, In po l <-> go_st_GetPurchaseOrder s (EnterpriseUndPurchaseOrder_Id po) = Ok (po, true))) /\
  (forall id po, 0 <= id < 2 ^ 64 -> go_st_GetPurchaseOrder s id = Ok (po, true) -> EnterpriseUndPurchaseOrder_Id po = id).
Proof.
  intros s Hs Hw. split; [exact (listing_purchase_orders s Hs Hw)|].
  intros id po Hr. apply (purchase_order_id s id po Hw Hr).
Qed.

(* GetAllWhitelistedAddresses: the strings of the whitelisted addresses, each address once, ascending byte order; listed iff AddressIsWhitelisted *)
Theorem hl_listing_whitelist :
  forall (s : okv enterprise_val), okv_sorted s = true -> ent_wf s ->
  exists l, go_st_GetAllWhitelistedAddresses addr_string s = Ok (map addr_string l) /\
    StronglySorted (fun a b => lex_lt a b = true) l /\
    NoDup l /\
    (forall a, In a l <-> go_st_AddressIsWhitelisted s a = Ok true) /\
    ((forall a b, In a l -> In b l -> addr_string a = addr_string b -> a = b) -> NoDup (map addr_string l)).
Proof.
  intros s Hs Hw. destruct (listing_whitelist s Hs Hw) as [l (H1 & H2 & H3 & H4)]. exists l.
  refine (conj H1 (conj H2 (conj H3 (conj H4 _)))). intros Hinj.
  apply (listing_whitelist_strings s (map addr_string l) Hs Hw H1).
  intros a b Ha Hb. apply Hinj; apply H4; assumption.
Qed.

(* GetAllLockedUnds / GetAllSpentEFUNDs: every stored record, each owner once, ascending byte order of the decoded owners; listed iff the point queries find it *)
Theorem hl_listing_accounts :
  forall (s : okv enterprise_val), okv_sorted s = true -> ent_wf s ->
  (exists l, go_st_GetAllLockedUnds s = Ok l /\
     StronglySorted (fun x y => owner_lt (LockedUnd_Owner x) (LockedUnd_Owner y)) l /\
     NoDup (map LockedUnd_Owner l) /\
     (forall x, In x l <-> exists b, bech32 (LockedUnd_Owner x) = Ok b /\ go_st_AccountHasLockedUnd s b = Ok true /\
                                     go_st_GetLockedUndForAccount addr_string s b = Ok x) /\
     (forall b, go_st_AccountHasLockedUnd s b = Ok true ->
        exists x, go_st_GetLockedUndForAccount addr_string s b = Ok x /\ bech32 (LockedUnd_Owner x) = Ok b /\ In x l)) /\
  (exists l, go_st_GetAllSpentEFUNDs s = Ok l /\
     StronglySorted (fun x y => owner_lt (SpentEFUND_Owner x) (SpentEFUND_Owner y)) l /\
     NoDup (map SpentEFUND_Owner l) /\
     (forall x, In x l <-> exists b, bech32 (SpentEFUND_Owner x) = Ok b /\ go_st_AccountHasSpentEFUND s b = Ok true /\
                                     go_st_GetSpentEFUNDForAccount addr_string s b = Ok x) /\
     (forall b, go_st_AccountHasSpentEFUND s b = Ok true ->
        exists x, go_st_GetSpentEFUNDForAccount addr_string s b = Ok x /\ bech32 (SpentEFUND_Owner x) = Ok b /\ In x l)).
Proof.
  intros s Hs Hw. split.
  - destruct (listing_locked s Hs Hw) as [l (H1 & H2 & H3 & H4)]. exists l.
    refine (conj H1 (conj H2 (conj H3 (conj H4 _)))). intros b Hb. apply (locked_point_listed s b l Hs Hw H1 Hb).
  - destruct (listing_spent s Hs Hw) as [l (H1 & H2 & H3 & H4)]. exists l.
    refine (conj H1 (conj H2 (conj H3 (conj H4 _)))). intros b Hb. apply (spent_point_listed s b l Hs Hw H1 Hb).
Qed.

(* with the round trip bech32 (addr_string b) = Ok b, the record read for b is owned by b, and read-modify-write lands in the cell it was read from *)
Theorem hl_record_owner :
  forall (s : okv enterprise_val) (b : list N), ent_wf s -> bech32 (addr_string b) = Ok b ->
  (forall x, go_st_GetLockedUndForAccount addr_string s b = Ok x -> bech32 (LockedUnd_Owner x) = Ok b) /\
  (forall x, go_st_GetSpentEFUNDForAccount addr_string s b = Ok x -> bech32 (SpentEFUND_Owner x) = Ok b) /\
  (forall x c, go_st_GetLockedUndForAccount addr_string s b = Ok x -> 0 <= snd c ->
     exists s', go_st_SetLockedUndForAccount bech32 s (mk_go_LockedUnd (LockedUnd_Owner x) c) = Ok (s', tt) /\
                go_st_GetLockedUndForAccount addr_string s' b = Ok (mk_go_LockedUnd (LockedUnd_Owner x) c) /\
                go_st_GetLockedUndAmountForAccount addr_string s' b = Ok c).
Proof.
  intros s b Hw Hrt. refine (conj _ (conj _ _)).
  - intros x. apply (locked_record_owner s b x Hw Hrt).
  - intros x. apply (spent_record_owner s b x Hw Hrt).
  - intros x c. apply (locked_read_modify_write s b x c Hw Hrt).
Qed.

End WithAddr.

(* ================================================================== *)
(* (f) the hypotheses are satisfiable / necessary; a concrete run        *)
(* ================================================================== *)

(* addresses as the numbers 1..200, spelled by one byte *)
Definition ex_bech32 (a : go_addr) : outcome (list N) :=
  if (1 <=? a) && (a <=? 200) then Ok [Z.to_N a] else Err STORE_ERR_SDK.
Definition ex_addr_string (b : list N) : go_addr := match b with [x] => Z.of_N x | _ => go_zero_addr end.

Example ex_conversions :
  (forall a b, ex_bech32 a = Ok b -> (1 <= List.length b <= 255)%nat) /\
  (forall a a' b, ex_bech32 a = Ok b -> ex_bech32 a' = Ok b -> a = a') /\
  (forall a b, ex_bech32 a = Ok b -> ex_addr_string b = a) /\
  (forall a b, ex_bech32 a = Ok b -> ex_bech32 (ex_addr_string b) = Ok b).
Proof.
  assert (H3 : forall a b, ex_bech32 a = Ok b -> ex_addr_string b = a).
  { unfold ex_bech32. intros a b. destruct ((1 <=? a) && (a <=? 200)) eqn:R; intros E; [|discriminate E].
    injection E as <-. cbn [ex_addr_string]. apply Z2N.id. lia. }
  refine (conj _ (conj _ (conj H3 _))).
  - unfold ex_bech32. intros a b. destruct ((1 <=? a) && (a <=? 200)); intros E; [|discriminate E].
    injection E as <-. cbn [List.length]. lia.
  - intros a a' b E E'. rewrite <- (H3 _ _ E), <- (H3 _ _ E'). reflexivity.
  - intros a b E. rewrite (H3 _ _ E). exact E.
Qed.

(* without injectivity of bech32 two owner strings share a cell: a write for owner 1 changes what owner 2 reads *)
Example locked_other_owner_refuted :
  let bad := fun _ : go_addr => Ok [1%N] in
  go_st_AccountHasLockedUnd [] [1%N] = Ok false /\
  (do r <- go_st_SetLockedUndForAccount bad [] (mk_go_LockedUnd 1 (1, 50));
   do b2 <- bad 2; go_st_AccountHasLockedUnd (fst r) b2) = Ok true.
Proof. vm_compute. split; reflexivity. Qed.

(* without the round trip the default record's owner does not decode to the address it was asked for *)
Example locked_record_owner_refuted :
  let str := fun _ : list N => 0 in
  (do x <- go_st_GetLockedUndForAccount str [] [5%N]; ex_bech32 (LockedUnd_Owner x)) = Err STORE_ERR_SDK.
Proof. vm_compute. reflexivity. Qed.

(* with a conversion that identifies two addresses the whitelist listing repeats a string *)
Example listing_whitelist_strings_refuted :
  let str := fun _ : list N => 0 in
  (do r <- go_st_AddAddressToWhitelist [] [4%N]; do r <- go_st_AddAddressToWhitelist (fst r) [9%N];
   go_st_GetAllWhitelistedAddresses str (fst r)) = Ok [0; 0].
Proof. vm_compute. reflexivity. Qed.

(* the guard cases *)
Example guards_run :
  go_st_SetPurchaseOrder [] (mk_go_EnterpriseUndPurchaseOrder 1 5 (1, 7) 0 0 0 []) = Err STORE_ERR /\
  go_st_SetPurchaseOrder [] (mk_go_EnterpriseUndPurchaseOrder 1 5 (1, 7) 5 0 0 []) = Err STORE_ERR /\
  go_st_SetLockedUndForAccount ex_bech32 [] (mk_go_LockedUnd 3 (1, -1)) = Err STORE_ERR /\
  go_st_SetLockedUndForAccount ex_bech32 [] (mk_go_LockedUnd 0 (1, -1)) = Err STORE_ERR_SDK /\
  go_st_AddAddressToWhitelist [] [] = Err STORE_ERR_SDK /\
  go_st_GetHighestPurchaseOrderID [] = Err STORE_ERR.
Proof. vm_compute. repeat split. Qed.

(* a store built by the generated writers from the empty store *)
Definition ex_params : go_Params := mk_go_Params [5] 1 1 10.
Definition ex_po (id : Z) : go_EnterpriseUndPurchaseOrder := mk_go_EnterpriseUndPurchaseOrder id 5 (1, 100) 1 0 0 [].
Definition ex_store : outcome store :=
  do r <- go_st_SetParams [] ex_params;
  do r <- go_st_SetHighestPurchaseOrderID (fst r) 301;
  do r <- go_st_SetPurchaseOrder (fst r) (ex_po 300);
  do r <- go_st_SetPurchaseOrder (fst r) (ex_po 2);
  do r <- go_st_AddPoToRaisedQueue (fst r) 300;
  do r <- go_st_AddPoToRaisedQueue (fst r) 2;
  do r <- go_st_AddPoToRaisedQueue (fst r) 7;
  do r <- go_st_RemovePurchaseOrderFromRaisedQueue (fst r) 7;
  do r <- go_st_AddPoToAcceptedQueue (fst r) 256;
  do r <- go_st_AddPoToAcceptedQueue (fst r) 255;
  do r <- go_st_AddAddressToWhitelist (fst r) [9%N];
  do r <- go_st_AddAddressToWhitelist (fst r) [4%N];
  do r <- go_st_SetLockedUndForAccount ex_bech32 (fst r) (mk_go_LockedUnd 12 (1, 50));
  do r <- go_st_SetLockedUndForAccount ex_bech32 (fst r) (mk_go_LockedUnd 3 (1, 20));
  do r <- go_st_SetSpentEFUNDForAccount ex_bech32 (fst r) (mk_go_SpentEFUND 3 (1, 5));
  do r <- go_st_SetTotalLockedUnd (fst r) (1, 70);
  Ok (fst r).

Example ex_run :
  exists s, ex_store = Ok s /\ okv_sorted s = true /\ List.length s = 14%nat /\
    (* read-back *)
    go_st_GetParams s = Ok ex_params /\
    go_st_GetHighestPurchaseOrderID s = Ok 301 /\
    go_st_GetPurchaseOrder s 300 = Ok (ex_po 300, true) /\
    go_st_GetPurchaseOrder s 3 = Ok (zero_go_EnterpriseUndPurchaseOrder, false) /\
    go_st_PurchaseOrderIsInRaisedQueue s 2 = Ok true /\
    go_st_PurchaseOrderIsInRaisedQueue s 7 = Ok false /\
    go_st_AddressIsWhitelisted s [9%N] = Ok true /\
    go_st_AddressIsWhitelisted s [5%N] = Ok false /\
    go_st_GetLockedUndForAccount ex_addr_string s [12%N] = Ok (mk_go_LockedUnd 12 (1, 50)) /\
    go_st_GetTotalLockedUnd s = Ok (1, 70) /\
    (* defaults: the zero coin of the parameter denomination (1) *)
    go_st_GetLockedUndForAccount ex_addr_string s [77%N] = Ok (mk_go_LockedUnd 77 (1, 0)) /\
    go_st_GetSpentEFUNDAmountForAccount ex_addr_string s [12%N] = Ok (1, 0) /\
    go_st_GetTotalSpentEFUND s = Ok (1, 0) /\
    (* listings: ascending NUMERIC order whatever the insertion order (300 before 2; 256 before 255) *)
    go_st_GetAllRaisedPurchaseOrders s = Ok [2; 300] /\
    go_st_GetAllAcceptedPurchaseOrders s = Ok [255; 256] /\
    go_st_GetAllPurchaseOrders s = Ok [ex_po 2; ex_po 300] /\
    go_st_GetAllWhitelistedAddresses ex_addr_string s = Ok [4; 9] /\
    go_st_GetAllLockedUnds s = Ok [mk_go_LockedUnd 3 (1, 20); mk_go_LockedUnd 12 (1, 50)] /\
    go_st_GetAllSpentEFUNDs s = Ok [mk_go_SpentEFUND 3 (1, 5)] /\
    (* an early break sees the lowest id only *)
    go_st_IterateRaisedQueue s (fun (_ : Z) id => Ok (id, true)) (-1) = Ok 2 /\
    (* isolation instances: a whitelist write / a purchase-order write leave the queue listings and the books alone *)
    (do r <- go_st_AddAddressToWhitelist s [1%N]; go_st_GetAllRaisedPurchaseOrders (fst r)) = Ok [2; 300] /\
    (do r <- go_st_SetPurchaseOrder s (ex_po 4); go_st_GetAllAcceptedPurchaseOrders (fst r)) = Ok [255; 256] /\
    (do r <- go_st_AddPoToRaisedQueue s 1; go_st_GetAllLockedUnds (fst r)) =
      Ok [mk_go_LockedUnd 3 (1, 20); mk_go_LockedUnd 12 (1, 50)] /\
    (do r <- go_st_AddPoToRaisedQueue s 1; go_st_GetAllRaisedPurchaseOrders (fst r)) = Ok [1; 2; 300].
Proof. eexists. split; [vm_compute; reflexivity|]. vm_compute. repeat split. Qed.

(* the example store is well-formed (so the listing theorems apply to it) *)
Example ex_wf : forall s, ex_store = Ok s -> ent_wf ex_bech32 s.
Proof.
  intros s E.
  unfold ex_store in E.
  repeat match type of E with
  | obind ?o _ = Ok _ => let r := fresh "r" in let Er := fresh "Er" in
      destruct o as [r| |] eqn:Er; cbn [obind] in E; [|discriminate E|discriminate E]; destruct r as [? []]; cbn [fst] in E
  end.
  injection E as <-.
  repeat match goal with
  | Er : _ = Ok (?s', tt) |- ent_wf _ ?s' =>
      eapply writers_preserve_wf;
      [ | first [ left; eexists; exact Er
              | right; left; eexists; split; [|exact Er]; lia
              | right; right; left; eexists; split; [|exact Er]; lia
              | right; right; right; left; eexists; exact Er
              | right; right; right; right; left; eexists; split; [|exact Er]; lia
              | right; right; right; right; right; left; eexists; exact Er
              | right; right; right; right; right; right; left; eexists; split; [|exact Er]; cbn; lia
              | right; right; right; right; right; right; right; left; eexists; exact Er
              | right; right; right; right; right; right; right; right; left; eexists; exact Er
              | right; right; right; right; right; right; right; right; right; left; eexists; exact Er
              | right; right; right; right; right; right; right; right; right; right; left; eexists; exact Er
              | right; right; right; right; right; right; right; right; right; right; right; left; eexists; exact Er
              | right; right; right; right; right; right; right; right; right; right; right; right; eexists; exact Er ] ];
      clear Er
  end.
  apply wf_nil.
Qed.
