(* Proofs about the x/wrkchain + x/beacon registry model (model/Registry.v) against the
   vocabulary of model/RegistrySpec.v: list / store lemmas, the inductive invariant [reg_inv],
   its preservation by [reg_step] / [reg_set_params] / [reg_run], and the statements behind
   C07, C08 and C09 (restated with their final names in props/C07.v, C08.v, C09.v). *)
From MC Require Import lib.Prelude lib.AMap model.Bank model.Registry model.RegistrySpec.
From Coq Require Import ZifyBool.
Ltac Zify.zify_post_hook ::= Z.div_mod_to_equations.

Local Open Scope Z_scope.

(* ================================================================== *)
(* 1. Lists: skipn / lastn / last / seq                                *)
(* ================================================================== *)

Lemma skipn_S_tl {A} n (l : list A) : skipn (S n) l = tl (skipn n l).
Proof.
  revert l; induction n as [|n IH]; intros l.
  - destruct l; reflexivity.
  - destruct l as [|a l]; [reflexivity|]. exact (IH l).
Qed.

Lemma lastn_length {A} n (l : list A) : (n <= List.length l)%nat -> List.length (lastn n l) = n.
Proof. intros Hn. unfold lastn. rewrite skipn_length. lia. Qed.

Lemma lastn_map {A B} (f : A -> B) n l : map f (lastn n l) = lastn n (map f l).
Proof. unfold lastn. rewrite map_length, skipn_map. reflexivity. Qed.

Lemma lastn_incl {A} n (l : list A) x : In x (lastn n l) -> In x l.
Proof.
  unfold lastn. intros Hin. rewrite <- (firstn_skipn (List.length l - n) l).
  apply in_or_app; right; exact Hin.
Qed.

Lemma lastn_0 {A} (l : list A) : lastn 0 l = [].
Proof. unfold lastn. rewrite Nat.sub_0_r. apply skipn_all. Qed.

Lemma lastn_snoc {A} n (l : list A) x :
  (n <= List.length l)%nat -> lastn (S n) (l ++ [x]) = lastn n l ++ [x].
Proof.
  intros Hn. unfold lastn. rewrite app_length; cbn [List.length].
  replace (List.length l + 1 - S n)%nat with (List.length l - n)%nat by lia.
  rewrite skipn_app. replace (List.length l - n - List.length l)%nat with 0%nat by lia. reflexivity.
Qed.

Lemma lastn_snoc_full {A} n (l : list A) x :
  (1 <= n <= List.length l)%nat -> lastn n (l ++ [x]) = tl (lastn n l) ++ [x].
Proof.
  intros Hn. unfold lastn. rewrite app_length; cbn [List.length].
  replace (List.length l + 1 - n)%nat with (S (List.length l - n)) by lia.
  rewrite skipn_app. replace (S (List.length l - n) - List.length l)%nat with 0%nat by lia.
  rewrite skipn_S_tl. reflexivity.
Qed.

(* the log splits into a pruned prefix and the retained suffix *)
Lemma lastn_split {A} n (l : list A) : exists pre, l = pre ++ lastn n l.
Proof. exists (firstn (List.length l - n) l). unfold lastn. symmetry; apply firstn_skipn. Qed.

Lemma skipn_last {A} n (l : list A) d : (n < List.length l)%nat -> last (skipn n l) d = last l d.
Proof.
  revert l; induction n as [|n IH]; intros l Hn; [reflexivity|].
  destruct l as [|a l]; [cbn in Hn; lia|]. cbn [skipn List.length] in *.
  rewrite IH by lia. destruct l; [cbn in Hn; lia | reflexivity].
Qed.

Lemma lastn_last {A} n (l : list A) d : (1 <= n)%nat -> l <> [] -> last (lastn n l) d = last l d.
Proof.
  intros Hn Hl. unfold lastn. apply skipn_last.
  destruct l; [contradiction | cbn [List.length]; lia].
Qed.

Lemma last_In {A} (l : list A) d : l <> [] -> In (last l d) l.
Proof.
  intros Hl. rewrite (app_removelast_last d Hl) at 2. apply in_or_app; right; left; reflexivity.
Qed.

Lemma last_map {A B} (f : A -> B) l d : last (map f l) (f d) = f (last l d).
Proof.
  induction l as [|a l IH]; [reflexivity|]. destruct l; [reflexivity|]. exact IH.
Qed.

Lemma skipn_seq n start len : skipn n (seq start len) = seq (start + n) (len - n).
Proof.
  revert start len; induction n as [|n IH]; intros start len.
  - rewrite Nat.add_0_r, Nat.sub_0_r. reflexivity.
  - destruct len as [|len]; [reflexivity|]. cbn [seq skipn]. rewrite IH.
    replace (S start + n)%nat with (start + S n)%nat by lia. reflexivity.
Qed.

Definition zseq (n : nat) : list Z := map Z.of_nat (seq 1 n).

Lemma zseq_S n : zseq (S n) = zseq n ++ [Z.of_nat n + 1].
Proof.
  unfold zseq. rewrite seq_S, map_app. cbn [map]. f_equal. f_equal. lia.
Qed.

Lemma zseq_length n : List.length (zseq n) = n.
Proof. unfold zseq. rewrite map_length, seq_length. reflexivity. Qed.

Lemma zseq_last n : last (zseq n) 0 = Z.of_nat n.
Proof.
  destruct n as [|n]; [reflexivity|]. rewrite zseq_S, last_last. lia.
Qed.

Lemma zseq_lastn_hd n N : (1 <= n <= N)%nat -> hd 0 (lastn n (zseq N)) = Z.of_nat N - Z.of_nat n + 1.
Proof.
  intros Hn. unfold lastn, zseq. rewrite map_length, seq_length, skipn_map, skipn_seq.
  replace (N - (N - n))%nat with (S (n - 1)) by lia. cbn [seq map hd]. lia.
Qed.

(* ================================================================== *)
(* 2. strictly_increasing                                              *)
(* ================================================================== *)

Lemma si_cons x l :
  strictly_increasing (x :: l) <-> (forall y, In y l -> x < y) /\ strictly_increasing l.
Proof.
  revert x; induction l as [|y r IH]; intros x.
  - cbn. split; [intros _; split; [intros ? []|exact I] | intros _; exact I].
  - change (strictly_increasing (x :: y :: r)) with (x < y /\ strictly_increasing (y :: r)).
    split.
    + intros [Hxy Hs]. split; [|exact Hs].
      intros z [<-|Hz]; [exact Hxy|]. apply IH in Hs. destruct Hs as [Hall _].
      specialize (Hall z Hz). lia.
    + intros [Hall Hs]. split; [apply Hall; left; reflexivity | exact Hs].
Qed.

Lemma si_app l1 l2 :
  strictly_increasing (l1 ++ l2) <->
  strictly_increasing l1 /\ strictly_increasing l2 /\ (forall a b, In a l1 -> In b l2 -> a < b).
Proof.
  induction l1 as [|x l1 IH].
  - cbn [app]. split; [intros Hs; split; [exact I|split; [exact Hs|intros ? ? []]] | tauto].
  - cbn [app]. rewrite !si_cons, IH. split.
    + intros [Hall [H1 [H2 H12]]]. split; [split; [|exact H1]|split; [exact H2|]].
      * intros y Hy. apply Hall. apply in_or_app; left; exact Hy.
      * intros a b [<-|Ha] Hb; [apply Hall; apply in_or_app; right; exact Hb | apply H12; assumption].
    + intros [[Hall H1] [H2 H12]]. split; [|split; [exact H1|split; [exact H2|]]].
      * intros y Hy. apply in_app_or in Hy. destruct Hy as [Hy|Hy]; [apply Hall; exact Hy|].
        apply H12; [left; reflexivity | exact Hy].
      * intros a b Ha Hb. apply H12; [right; exact Ha | exact Hb].
Qed.

Lemma si_NoDup l : strictly_increasing l -> NoDup l.
Proof.
  induction l as [|x l IH]; [constructor|].
  rewrite si_cons. intros [Hall Hs]. constructor; [|apply IH; exact Hs].
  intros Hin. specialize (Hall x Hin). lia.
Qed.

Lemma si_le_last l d y : strictly_increasing l -> In y l -> y <= last l d.
Proof.
  intros Hs Hy. assert (Hl : l <> []) by (intros ->; destruct Hy).
  rewrite (app_removelast_last d Hl) in Hs, Hy. apply si_app in Hs. destruct Hs as [_ [_ H12]].
  apply in_app_or in Hy. destruct Hy as [Hy|[<-|[]]]; [|lia].
  specialize (H12 y (last l d) Hy (or_introl eq_refl)). lia.
Qed.

Lemma si_snoc l x : strictly_increasing l -> (forall y, In y l -> y < x) -> strictly_increasing (l ++ [x]).
Proof.
  intros Hs Hall. apply si_app. split; [exact Hs|split; [exact I|]].
  intros a b Ha [<-|[]]. apply Hall; exact Ha.
Qed.

Lemma si_lastn n l : strictly_increasing l -> strictly_increasing (lastn n l).
Proof.
  intros Hs. destruct (lastn_split n l) as [pre Hpre]. rewrite Hpre in Hs.
  apply si_app in Hs. tauto.
Qed.

Lemma si_zseq n : strictly_increasing (zseq n).
Proof.
  induction n as [|n IH]; [exact I|]. rewrite zseq_S. apply si_snoc; [exact IH|].
  intros y Hy. pose proof (si_le_last _ 0 y IH Hy) as Hle. rewrite zseq_last in Hle. lia.
Qed.

(* ================================================================== *)
(* 3. Store lemmas: aget / recs_of / keys_of / lowest_key              *)
(* ================================================================== *)

Lemma In_aget_nodup {K V} `{EqKey K} (m : amap K V) k v :
  NoDup (akeys m) -> In (k, v) m -> aget k m = Some v.
Proof.
  induction m as [|[k' v'] r IH]; cbn [In aget akeys map fst]; [tauto|].
  intros ND Hin; inversion ND as [|? ? NI ND']; subst. destruct Hin as [X|X].
  - injection X as -> ->. rewrite keqb_refl. reflexivity.
  - rewrite keqb_neq; [apply IH; assumption|].
    intros ->. apply NI. change k' with (fst (k', v)). apply in_map; exact X.
Qed.

Lemma aget_Some_In_akeys {K V} `{EqKey K} (m : amap K V) k v : aget k m = Some v -> In k (akeys m).
Proof. intros G. apply aget_In in G. change k with (fst (k, v)). apply in_map; exact G. Qed.

Lemma akeys_aset_eq {K V W} `{EqKey K} (m1 : amap K V) (m2 : amap K W) k v w :
  akeys m1 = akeys m2 -> akeys (aset k v m1) = akeys (aset k w m2).
Proof.
  revert m2; induction m1 as [|[k1 v1] r1 IH]; intros [|[k2 v2] r2]; cbn; try discriminate; [reflexivity|].
  intros [= -> E]. destruct (keqb k k2); cbn; [f_equal; exact E | f_equal; apply IH; exact E].
Qed.

Lemma pair_key_neq (a b c d : Z) : a <> c \/ b <> d -> (a, b) <> (c, d).
Proof. intros [N|N] [= -> ->]; apply N; reflexivity. Qed.

Lemma recs_of_cons id i h v r :
  recs_of id (((i, h), v) :: r) = if i =? id then (h, v) :: recs_of id r else recs_of id r.
Proof. unfold recs_of; cbn. destruct (i =? id); reflexivity. Qed.

Lemma recs_of_nil id : recs_of id [] = [].
Proof. reflexivity. Qed.

Lemma In_recs_of id k rc recs : In (k, rc) (recs_of id recs) <-> In ((id, k), rc) recs.
Proof.
  induction recs as [|[[i h] v] r IH]; [cbn; tauto|].
  rewrite recs_of_cons. destruct (i =? id) eqn:E.
  - apply Z.eqb_eq in E; subst i. cbn [In]. rewrite IH. split.
    + intros [[= -> ->]|X]; [left; reflexivity | right; exact X].
    + intros [[= -> ->]|X]; [left; reflexivity | right; exact X].
  - cbn [In]. rewrite IH. split; [intros X; right; exact X|].
    intros [[= -> -> ->]|X]; [rewrite Z.eqb_refl in E; discriminate | exact X].
Qed.

Lemma aget_recs_of id k rc recs :
  NoDup (akeys recs) -> (aget (id, k) recs = Some rc <-> In (k, rc) (recs_of id recs)).
Proof.
  intros ND. rewrite In_recs_of. split; [apply aget_In | apply In_aget_nodup; exact ND].
Qed.

Lemma aget_None_keys_of id k recs : aget (id, k) recs = None <-> ~ In k (keys_of id recs).
Proof.
  unfold keys_of. induction recs as [|[[i h] v] r IH]; [cbn; tauto|].
  rewrite recs_of_cons. cbn [aget]. change (keqb (id, k) (i, h)) with ((id =? i) && (k =? h)).
  destruct (i =? id) eqn:E.
  - apply Z.eqb_eq in E; subst i. rewrite Z.eqb_refl. cbn [andb map fst In].
    destruct (k =? h) eqn:E2.
    + apply Z.eqb_eq in E2; subst h. split; [discriminate | intros N; exfalso; apply N; left; reflexivity].
    + apply Z.eqb_neq in E2. rewrite IH. split; [intros N [X|X]; [congruence|tauto] | tauto].
  - rewrite Z.eqb_sym, E. cbn [andb]. exact IH.
Qed.

Lemma recs_of_aset_new id k rc recs :
  aget (id, k) recs = None -> recs_of id (aset (id, k) rc recs) = recs_of id recs ++ [(k, rc)].
Proof.
  induction recs as [|[[i h] v] r IH]; cbn [aget aset].
  - intros _. rewrite recs_of_cons, Z.eqb_refl. reflexivity.
  - destruct (keqb (id, k) (i, h)) eqn:E; [discriminate|]. intros G.
    rewrite !recs_of_cons. destruct (i =? id); [cbn [app]; f_equal|]; apply IH; exact G.
Qed.

Lemma recs_of_aset_other id id' k rc recs :
  id' <> id -> recs_of id' (aset (id, k) rc recs) = recs_of id' recs.
Proof.
  intros N. induction recs as [|[[i h] v] r IH]; cbn [aset].
  - rewrite recs_of_cons. destruct (id =? id') eqn:E; [apply Z.eqb_eq in E; congruence | reflexivity].
  - destruct (keqb (id, k) (i, h)) eqn:E.
    + apply keqb_spec in E. injection E as <- <-. rewrite !recs_of_cons.
      destruct (id =? id') eqn:E; [apply Z.eqb_eq in E; congruence | reflexivity].
    + rewrite !recs_of_cons, IH. reflexivity.
Qed.

Lemma recs_of_adel_hd id d v rest recs :
  recs_of id recs = (d, v) :: rest -> recs_of id (adel (id, d) recs) = rest.
Proof.
  induction recs as [|[[i h] w] r IH]; [discriminate|].
  rewrite recs_of_cons. cbn [adel]. destruct (i =? id) eqn:E.
  - apply Z.eqb_eq in E; subst i. intros [= -> -> Hr]. rewrite keqb_refl. exact Hr.
  - intros Hr. rewrite keqb_neq.
    + rewrite recs_of_cons, E. apply IH; exact Hr.
    + apply Z.eqb_neq in E. apply pair_key_neq; left; congruence.
Qed.

Lemma recs_of_adel_other id id' d recs :
  id' <> id -> recs_of id' (adel (id, d) recs) = recs_of id' recs.
Proof.
  intros N. induction recs as [|[[i h] v] r IH]; [reflexivity|]. cbn [adel].
  destruct (keqb (id, d) (i, h)) eqn:E.
  - apply keqb_spec in E. injection E as <- <-. rewrite recs_of_cons.
    destruct (id =? id') eqn:E; [apply Z.eqb_eq in E; congruence | reflexivity].
  - rewrite !recs_of_cons, IH. reflexivity.
Qed.

Lemma lowest_key_hd id recs :
  Forall (fun k => 1 <= k) (keys_of id recs) -> strictly_increasing (keys_of id recs) ->
  lowest_key id recs = hd 0 (keys_of id recs).
Proof.
  unfold keys_of. induction recs as [|[[i h] v] r IH]; [reflexivity|].
  rewrite recs_of_cons. cbn [lowest_key]. destruct (i =? id) eqn:E.
  - cbn [map fst hd]. intros Hpos Hs. inversion Hpos as [|? ? Hh Hpos']; subst.
    apply si_cons in Hs. destruct Hs as [Hall Hs]. rewrite (IH Hpos' Hs).
    destruct (map fst (recs_of id r)) as [|y ys] eqn:Ek; cbn [hd]; [reflexivity|].
    specialize (Hall y (or_introl eq_refl)).
    destruct ((y =? 0) || (h <? y)) eqn:E2; [reflexivity | lia].
  - exact IH.
Qed.

Lemma last_nonneg l : Forall (fun k => 1 <= k) l -> 0 <= last l 0.
Proof.
  intros Hpos. destruct l as [|x l]; [cbn; lia|].
  assert (Hin : In (last (x :: l) 0) (x :: l)) by (apply last_In; discriminate).
  rewrite Forall_forall in Hpos. specialize (Hpos _ Hin). lia.
Qed.

(* ================================================================== *)
(* 4. The invariant                                                    *)
(* ================================================================== *)

(* the stored registration carries exactly what the accepted registration message said *)
Definition meta_ok (heighted : bool) (m : reg_msg) (t : Z) (rg : registration) : Prop :=
  match m with
  | RRegister o moniker name genesis type =>
      rg_owner rg = o /\ rg_moniker rg = moniker /\ rg_name rg = name /\ rg_regtime rg = t /\
      (heighted = true -> rg_genesis rg = genesis /\ rg_type rg = type)
  | _ => False
  end.

(* one registration [rg] with id [id], its stored limit [lim], the records [rs] held in state
   for it (store order) and the ghost log [log] of everything it ever had accepted *)
Record reg_ok (heighted : bool) (id : Z) (rg : registration) (lim : option Z)
              (rs log : list (Z * record)) : Prop := {
  ok_id : rg_id rg = id;
  ok_lim : exists L, lim = Some L /\ 1 <= L /\ rg_num rg <= L;
  ok_num0 : 0 <= rg_num rg;
  ok_num1 : log <> [] -> 1 <= rg_num rg;
  ok_numlen : rg_num rg <= Z.of_nat (List.length log);
  ok_recs : rs = lastn (Z.to_nat (rg_num rg)) log;
  ok_si : strictly_increasing (map fst log);
  ok_pos : Forall (fun k => 1 <= k) (map fst log);
  ok_u64 : heighted = true -> Forall u64 (map fst log);
  ok_rckey : Forall (fun kr => rc_key (snd kr) = fst kr) log;
  ok_last : rg_last rg = last (map fst log) 0;
  ok_lowest : rg_lowest rg = hd 0 (map fst rs);
  ok_consec : heighted = false -> map fst log = zseq (List.length log)
}.

Record reg_inv (heighted : bool) (s : reg_state) (g : ghost) : Prop := {
  inv_nd_regs : NoDup (akeys (r_regs s));
  inv_nd_limits : NoDup (akeys (r_limits s));
  inv_nd_recs : NoDup (akeys (r_recs s));
  inv_params : reg_params_valid (r_params s) = true;
  inv_next : 1 <= r_next s;
  inv_regs : forall id rg, aget id (r_regs s) = Some rg ->
      1 <= id < r_next s /\
      reg_ok heighted id rg (aget id (r_limits s)) (recs_of id (r_recs s)) (log_of g id);
  inv_recs_reg : forall id k rc, aget (id, k) (r_recs s) = Some rc -> aget id (r_regs s) <> None;
  inv_limit_keys : akeys (r_limits s) = akeys (r_regs s);
  inv_log_reg : forall id, aget id (r_regs s) = None -> log_of g id = [];
  inv_meta : forall id m t, In (id, m, t) (g_reg g) ->
      exists rg, aget id (r_regs s) = Some rg /\ meta_ok heighted m t rg
}.

Lemma reg_inv_init heighted p start :
  reg_params_valid p = true -> 1 <= start -> reg_inv heighted (reg_init p start) ghost_init.
Proof.
  intros Hp Hs. constructor; cbn; try (constructor; fail); try assumption; try discriminate; try reflexivity.
  intros ? ? ? [].
Qed.

Lemma reg_inv_set_params heighted s g p :
  reg_inv heighted s g -> reg_inv heighted (reg_set_params s p) g.
Proof.
  intros I. unfold reg_set_params. destruct (reg_params_valid p) eqn:Hp; [|exact I].
  destruct I. constructor; cbn; assumption.
Qed.

(* ---- consequences used everywhere ---- *)

Lemma inv_next_unreg heighted s g : reg_inv heighted s g -> aget (r_next s) (r_regs s) = None.
Proof.
  intros I. destruct (aget (r_next s) (r_regs s)) as [rg|] eqn:G; [|reflexivity].
  apply (inv_regs _ _ _ I) in G. lia.
Qed.

Lemma inv_recs_unreg heighted s g id :
  reg_inv heighted s g -> aget id (r_regs s) = None -> recs_of id (r_recs s) = [].
Proof.
  intros I G. destruct (recs_of id (r_recs s)) as [|[k rc] l] eqn:E; [reflexivity|].
  assert (Hin : In (k, rc) (recs_of id (r_recs s))) by (rewrite E; left; reflexivity).
  apply (aget_recs_of _ _ _ _ (inv_nd_recs _ _ _ I)) in Hin.
  apply (inv_recs_reg _ _ _ I) in Hin. contradiction.
Qed.

Lemma inv_limit heighted s g id rg :
  reg_inv heighted s g -> aget id (r_regs s) = Some rg ->
  aget id (r_limits s) = Some (limit_of s id) /\ 1 <= limit_of s id /\ rg_num rg <= limit_of s id.
Proof.
  intros I G. destruct (inv_regs _ _ _ I _ _ G) as [_ Hok].
  destruct (ok_lim _ _ _ _ _ _ Hok) as [L [HL [H1 H2]]]. unfold limit_of. rewrite HL. auto.
Qed.

Lemma log_of_aset g id l r id' :
  log_of {| g_log := aset id l (g_log g); g_reg := r |} id' = if id' =? id then l else log_of g id'.
Proof.
  unfold log_of. cbn [g_log]. destruct (id' =? id) eqn:E.
  - apply Z.eqb_eq in E; subst. rewrite aget_aset_eq. reflexivity.
  - apply Z.eqb_neq in E. rewrite aget_aset_neq by congruence. reflexivity.
Qed.

Lemma reg_ok_lim_mono heighted id rg L L' rs log :
  reg_ok heighted id rg (Some L) rs log -> L <= L' -> reg_ok heighted id rg (Some L') rs log.
Proof.
  intros [] HL. constructor; try assumption.
  destruct ok_lim0 as [L0 [[= <-] [H1 H2]]]. exists L'. split; [reflexivity|lia].
Qed.

(* ---- registration ---- *)

Lemma reg_exec_register_inv heighted t s o moniker name genesis type s' r :
  reg_exec heighted t s (RRegister o moniker name genesis type) = Ok (s', r) ->
  r = RespRegistered (r_next s) /\
  s' = {| r_params := r_params s; r_next := r_next s + 1;
          r_regs := aset (r_next s)
                      {| rg_id := r_next s; rg_owner := o; rg_moniker := moniker; rg_name := name;
                         rg_genesis := if heighted then genesis else EmptyString;
                         rg_type := if heighted then type else EmptyString;
                         rg_last := 0; rg_num := 0; rg_lowest := 0; rg_regtime := t |} (r_regs s);
          r_limits := aset (r_next s) (rp_default_limit (r_params s)) (r_limits s);
          r_recs := r_recs s |}.
Proof.
  cbn [reg_exec]. destruct (too_long 128 name); [discriminate|].
  destruct (too_long 64 moniker); [discriminate|]. destruct (is_empty moniker); [discriminate|].
  intros [= <- <-]. split; reflexivity.
Qed.

Lemma reg_inv_register heighted t s g o moniker name genesis type s' r :
  reg_inv heighted s g ->
  reg_exec heighted t s (RRegister o moniker name genesis type) = Ok (s', r) ->
  reg_inv heighted s' {| g_log := g_log g;
                         g_reg := g_reg g ++ [(r_next s, RRegister o moniker name genesis type, t)] |}.
Proof.
  intros I E. apply reg_exec_register_inv in E. destruct E as [_ ->].
  pose proof (inv_next_unreg _ _ _ I) as Hun.
  pose proof (inv_params _ _ _ I) as Hp. unfold reg_params_valid in Hp.
  constructor; cbn [r_params r_next r_regs r_limits r_recs g_log g_reg].
  - apply NoDup_akeys_aset, (inv_nd_regs _ _ _ I).
  - apply NoDup_akeys_aset, (inv_nd_limits _ _ _ I).
  - apply (inv_nd_recs _ _ _ I).
  - apply (inv_params _ _ _ I).
  - pose proof (inv_next _ _ _ I). lia.
  - intros id rg G. destruct (Z.eq_dec id (r_next s)) as [->|N].
    + rewrite aget_aset_eq in G. injection G as <-. rewrite aget_aset_eq.
      rewrite (inv_recs_unreg _ _ _ _ I Hun).
      change (log_of _ (r_next s)) with (log_of g (r_next s)). rewrite (inv_log_reg _ _ _ I _ Hun).
      pose proof (inv_next _ _ _ I). split; [lia|].
      constructor; cbn; try reflexivity; try (constructor; fail); try lia;
        try (intros H0; exfalso; apply H0; reflexivity).
      eexists; split; [reflexivity|]. lia.
    + rewrite aget_aset_neq in G by congruence. rewrite aget_aset_neq by congruence.
      destruct (inv_regs _ _ _ I _ _ G) as [Hr Hok]. split; [lia | exact Hok].
  - intros id k rc G. apply (inv_recs_reg _ _ _ I) in G.
    destruct (Z.eq_dec id (r_next s)) as [->|N]; [rewrite aget_aset_eq; discriminate|].
    rewrite aget_aset_neq by congruence. exact G.
  - apply akeys_aset_eq, (inv_limit_keys _ _ _ I).
  - intros id G. destruct (Z.eq_dec id (r_next s)) as [->|N]; [rewrite aget_aset_eq in G; discriminate|].
    rewrite aget_aset_neq in G by congruence. apply (inv_log_reg _ _ _ I _ G).
  - intros id m t' Hin. apply in_app_or in Hin. destruct Hin as [Hin|[[= -> <- <-]|[]]].
    + destruct (inv_meta _ _ _ I _ _ _ Hin) as [rg [G M]]. exists rg. split; [|exact M].
      rewrite aget_aset_neq; [exact G|]. apply (inv_regs _ _ _ I) in G. lia.
    + eexists. split; [apply aget_aset_eq|]. cbn. repeat split; destruct heighted; congruence.
Qed.

(* ---- purchase ---- *)

Lemma reg_exec_purchase_inv heighted t s o id n s' r :
  reg_exec heighted t s (RPurchase o id n) = Ok (s', r) ->
  exists rg, aget id (r_regs s) = Some rg /\ o = rg_owner rg /\ n <> 0 /\
    n <= rp_max_limit (r_params s) /\ limit_of s id + n <= rp_max_limit (r_params s) /\
    s' = with_regs s (r_regs s) (aset id (limit_of s id + n) (r_limits s)) (r_recs s) /\
    r = RespPurchased id n (max_purchasable s' id).
Proof.
  cbn [reg_exec]. destruct (n =? 0) eqn:En; [discriminate|].
  destruct (aget id (r_regs s)) as [rg|]; [|discriminate].
  destruct (negb (o =? rg_owner rg)) eqn:Eo; [discriminate|].
  destruct ((rp_max_limit (r_params s) <? n) || (rp_max_limit (r_params s) - n <? limit_of s id)) eqn:Em;
    [discriminate|].
  intros [= <- <-]. exists rg. repeat split; lia.
Qed.

Lemma reg_inv_purchase heighted t s g o id n s' r :
  reg_inv heighted s g -> 0 <= n ->
  reg_exec heighted t s (RPurchase o id n) = Ok (s', r) -> reg_inv heighted s' g.
Proof.
  intros I Hn E. apply reg_exec_purchase_inv in E.
  destruct E as [rg [G [_ [_ [_ [_ [-> _]]]]]]].
  destruct (inv_limit _ _ _ _ _ I G) as [HL [HL1 HL2]].
  destruct I. constructor; cbn [with_regs r_params r_next r_regs r_limits r_recs]; try assumption.
  - apply NoDup_akeys_aset; assumption.
  - intros id' rg' G'. destruct (inv_regs0 _ _ G') as [Hr Hok]. split; [exact Hr|].
    destruct (Z.eq_dec id' id) as [->|N].
    + rewrite aget_aset_eq. rewrite HL in Hok. eapply reg_ok_lim_mono; [exact Hok|lia].
    + rewrite aget_aset_neq by congruence. exact Hok.
  - rewrite akeys_aset_in; [assumption|]. eapply aget_Some_In_akeys; exact HL.
Qed.

(* ---- record: the list-level update of one registration ---- *)

Lemma reg_ok_keys_le_last heighted id rg lim rs log y :
  reg_ok heighted id rg lim rs log -> In y (map fst log) -> y <= rg_last rg.
Proof.
  intros Hok Hy. rewrite (ok_last _ _ _ _ _ _ Hok). apply si_le_last; [apply (ok_si _ _ _ _ _ _ Hok) | exact Hy].
Qed.

Lemma reg_ok_rs_keys heighted id rg lim rs log y :
  reg_ok heighted id rg lim rs log -> In y (map fst rs) -> In y (map fst log).
Proof.
  intros Hok Hy. rewrite (ok_recs _ _ _ _ _ _ Hok), lastn_map in Hy. eapply lastn_incl; exact Hy.
Qed.

Lemma reg_ok_rs_length heighted id rg lim rs log :
  reg_ok heighted id rg lim rs log -> Z.of_nat (List.length rs) = rg_num rg.
Proof.
  intros Hok. rewrite (ok_recs _ _ _ _ _ _ Hok), lastn_length.
  - pose proof (ok_num0 _ _ _ _ _ _ Hok). lia.
  - pose proof (ok_num0 _ _ _ _ _ _ Hok). pose proof (ok_numlen _ _ _ _ _ _ Hok). lia.
Qed.

Lemma reg_ok_last_nonneg heighted id rg lim rs log :
  reg_ok heighted id rg lim rs log -> 0 <= rg_last rg.
Proof.
  intros Hok. rewrite (ok_last _ _ _ _ _ _ Hok). apply last_nonneg, (ok_pos _ _ _ _ _ _ Hok).
Qed.

Lemma reg_ok_record heighted id rg rg' L rs log k rc :
  reg_ok heighted id rg (Some L) rs log ->
  rg_last rg < k -> (heighted = true -> u64 k) -> (heighted = false -> k = rg_last rg + 1) ->
  rc_key rc = k ->
  let rs' := (if L <? rg_num rg + 1 then tl rs else rs) ++ [(k, rc)] in
  rg_id rg' = id -> rg_last rg' = k ->
  rg_num rg' = (if L <? rg_num rg + 1 then rg_num rg else rg_num rg + 1) ->
  rg_lowest rg' = hd 0 (map fst rs') ->
  reg_ok heighted id rg' (Some L) rs' (log ++ [(k, rc)]).
Proof.
  intros Hok Hk Hu Hb Hrc rs' Hid' Hlast' Hnum' Hlow'.
  pose proof (reg_ok_last_nonneg _ _ _ _ _ _ Hok) as Hl0.
  pose proof Hok as Hok0. destruct Hok.
  destruct ok_lim0 as [L0 [[= <-] [HL1 HL2]]].
  assert (Hlt : forall y, In y (map fst log) -> y < k).
  { intros y Hy. pose proof (reg_ok_keys_le_last _ _ _ _ _ _ _ Hok0 Hy). lia. }
  constructor.
  - exact Hid'.
  - exists L. split; [reflexivity|]. split; [exact HL1|]. rewrite Hnum'.
    destruct (L <? rg_num rg + 1) eqn:Ep; lia.
  - rewrite Hnum'. destruct (L <? rg_num rg + 1); lia.
  - intros _. rewrite Hnum'. destruct (L <? rg_num rg + 1) eqn:Ep; lia.
  - rewrite Hnum', app_length. cbn [List.length]. destruct (L <? rg_num rg + 1); lia.
  - subst rs'. rewrite Hnum'. destruct (L <? rg_num rg + 1) eqn:Ep.
    + rewrite lastn_snoc_full by lia. rewrite <- ok_recs0. reflexivity.
    + replace (Z.to_nat (rg_num rg + 1)) with (S (Z.to_nat (rg_num rg))) by lia.
      rewrite lastn_snoc by lia. rewrite <- ok_recs0. reflexivity.
  - rewrite map_app. cbn [map fst]. apply si_snoc; assumption.
  - rewrite map_app. cbn [map fst]. apply Forall_app. split; [assumption|].
    constructor; [lia|constructor].
  - intros Hh. rewrite map_app. cbn [map fst]. apply Forall_app. split; [auto|].
    constructor; [auto|constructor].
  - apply Forall_app. split; [assumption|]. constructor; [exact Hrc|constructor].
  - rewrite map_app. cbn [map fst]. rewrite last_last. exact Hlast'.
  - exact Hlow'.
  - intros Hh. rewrite map_app, app_length. cbn [map fst List.length].
    rewrite (ok_consec0 Hh). replace (List.length log + 1)%nat with (S (List.length log)) by lia.
    rewrite zseq_S. f_equal. f_equal. rewrite (Hb Hh), ok_last0, (ok_consec0 Hh), zseq_last. reflexivity.
Qed.

Lemma reg_ok_rs_sorted heighted id rg lim rs log :
  reg_ok heighted id rg lim rs log ->
  strictly_increasing (map fst rs) /\ Forall (fun y => 1 <= y) (map fst rs).
Proof.
  intros Hok. split.
  - rewrite (ok_recs _ _ _ _ _ _ Hok), lastn_map. apply si_lastn, (ok_si _ _ _ _ _ _ Hok).
  - apply Forall_forall. intros y Hy. apply (reg_ok_rs_keys _ _ _ _ _ _ _ Hok) in Hy.
    pose proof (ok_pos _ _ _ _ _ _ Hok) as Hp. rewrite Forall_forall in Hp. auto.
Qed.

Lemma reg_ok_beacon_hd id rg lim rs log :
  reg_ok false id rg lim rs log -> 1 <= rg_num rg ->
  hd 0 (map fst rs) = Z.of_nat (List.length log) - rg_num rg + 1.
Proof.
  intros Hok Hn. pose proof (ok_numlen _ _ _ _ _ _ Hok) as Hnl.
  rewrite (ok_recs _ _ _ _ _ _ Hok), lastn_map, (ok_consec _ _ _ _ _ _ Hok eq_refl).
  rewrite zseq_lastn_hd by lia. lia.
Qed.

(* ---- record: what record_new does to the store, under the invariant ---- *)

Lemma record_new_shape heighted t s g id rg key hashes :
  reg_inv heighted s g -> aget id (r_regs s) = Some rg ->
  let k := if heighted then key else rg_last rg + 1 in
  let rc := {| rc_key := k; rc_hashes := hashes; rc_time := if heighted then t else key |} in
  let rs := recs_of id (r_recs s) in
  rg_last rg < k -> (heighted = true -> u64 key) ->
  exists recs' rg' pr,
    record_new heighted t s rg key hashes
      = (with_regs s (aset id rg' (r_regs s)) (r_limits s) recs', k, pr) /\
    recs_of id recs' = (if limit_of s id <? rg_num rg + 1 then tl rs else rs) ++ [(k, rc)] /\
    (forall id', id' <> id -> recs_of id' recs' = recs_of id' (r_recs s)) /\
    (forall id' k', id' <> id -> aget (id', k') recs' = aget (id', k') (r_recs s)) /\
    NoDup (akeys recs') /\
    pr = (if limit_of s id <? rg_num rg + 1 then hd 0 (map fst rs) else 0) /\
    rg_id rg' = id /\ rg_last rg' = k /\
    rg_num rg' = (if limit_of s id <? rg_num rg + 1 then rg_num rg else rg_num rg + 1) /\
    rg_lowest rg' = hd 0 (map fst (recs_of id recs')) /\
    rg_owner rg' = rg_owner rg /\ rg_moniker rg' = rg_moniker rg /\ rg_name rg' = rg_name rg /\
    rg_genesis rg' = rg_genesis rg /\ rg_type rg' = rg_type rg /\ rg_regtime rg' = rg_regtime rg.
Proof.
  intros I G k rc rs Hk Hu.
  destruct (inv_regs _ _ _ I _ _ G) as [Hr Hok].
  destruct (inv_limit _ _ _ _ _ I G) as [HL [HL1 HL2]]. rewrite HL in Hok.
  pose proof (inv_nd_recs _ _ _ I) as ND.
  assert (Hnew : aget (id, k) (r_recs s) = None).
  { apply aget_None_keys_of. unfold keys_of. intros Hin.
    apply (reg_ok_rs_keys _ _ _ _ _ _ _ Hok) in Hin.
    apply (reg_ok_keys_le_last _ _ _ _ _ _ _ Hok) in Hin. lia. }
  assert (Hrs1 : recs_of id (aset (id, k) rc (r_recs s)) = rs ++ [(k, rc)])
    by (apply recs_of_aset_new; exact Hnew).
  pose proof (reg_ok_rs_length _ _ _ _ _ _ Hok) as Hlen.
  pose proof (ok_lowest _ _ _ _ _ _ Hok) as Hlow.
  pose proof (ok_id _ _ _ _ _ _ Hok) as Hid.
  assert (Hpos : Forall (fun y => 1 <= y) (map fst rs)).
  { apply Forall_forall. intros y Hy. apply (reg_ok_rs_keys _ _ _ _ _ _ _ Hok) in Hy.
    pose proof (ok_pos _ _ _ _ _ _ Hok) as Hp. rewrite Forall_forall in Hp. auto. }
  pose proof (reg_ok_last_nonneg _ _ _ _ _ _ Hok) as Hl0.
  assert (ND1 : NoDup (akeys (aset (id, k) rc (r_recs s)))) by (apply NoDup_akeys_aset; exact ND).
  (* the list-level successor, used to learn that the new retained keys are increasing *)
  assert (Hok' : forall rg', rg_id rg' = id -> rg_last rg' = k ->
      rg_num rg' = (if limit_of s id <? rg_num rg + 1 then rg_num rg else rg_num rg + 1) ->
      rg_lowest rg' = hd 0 (map fst ((if limit_of s id <? rg_num rg + 1 then tl rs else rs) ++ [(k, rc)])) ->
      reg_ok heighted id rg' (Some (limit_of s id))
        ((if limit_of s id <? rg_num rg + 1 then tl rs else rs) ++ [(k, rc)]) (log_of g id ++ [(k, rc)])).
  { intros rg' H1 H2 H3 H4. eapply reg_ok_record; try eassumption; try reflexivity.
    - intros Hh. subst k. rewrite Hh. auto.
    - intros Hh. subst k. rewrite Hh. reflexivity. }
  unfold record_new. rewrite Hid. fold k. fold rc.
  assert (Ers : rs = recs_of id (r_recs s)) by reflexivity. clearbody rs.
  rewrite <- Ers in Hlen, Hlow, Hok.
  assert (Hlast : (if heighted then k else if rg_last rg <? k then k else rg_last rg) = k).
  { destruct heighted; [reflexivity|]. destruct (rg_last rg <? k) eqn:E; [reflexivity|lia]. }
  rewrite Hlast.
  destruct (limit_of s id <? rg_num rg + 1) eqn:Ep.
  - (* the limit is reached: the oldest retained record is pruned *)
    destruct rs as [|[d v] rest]; [cbn in Hlen; lia|]. cbn [map fst hd tl] in Hlow, Hok' |- *.
    assert (Hd : 1 <= d) by (cbn [map fst] in Hpos; exact (Forall_inv Hpos)).
    set (recs2 := adel (id, d) (aset (id, k) rc (r_recs s))).
    assert (Hrs2 : recs_of id recs2 = rest ++ [(k, rc)]).
    { subst recs2. eapply recs_of_adel_hd. rewrite Hrs1. reflexivity. }
    assert (Hoth : forall id', id' <> id -> recs_of id' recs2 = recs_of id' (r_recs s)).
    { intros id' N. subst recs2. rewrite recs_of_adel_other, recs_of_aset_other by exact N. reflexivity. }
    assert (Hget : forall id' k', id' <> id -> aget (id', k') recs2 = aget (id', k') (r_recs s)).
    { intros id' k' N. subst recs2.
      rewrite aget_adel_neq, aget_aset_neq; [reflexivity| |]; apply pair_key_neq; left; congruence. }
    assert (ND2 : NoDup (akeys recs2)) by (apply NoDup_akeys_adel; exact ND1).
    assert (Hsorted : strictly_increasing (map fst (rest ++ [(k, rc)])) /\
                      Forall (fun y => 1 <= y) (map fst (rest ++ [(k, rc)]))).
    { eapply reg_ok_rs_sorted.
      apply (Hok' {| rg_id := id; rg_owner := 0; rg_moniker := EmptyString; rg_name := EmptyString;
                     rg_genesis := EmptyString; rg_type := EmptyString; rg_last := k;
                     rg_num := rg_num rg; rg_lowest := hd 0 (map fst (rest ++ [(k, rc)]));
                     rg_regtime := 0 |}); reflexivity. }
    assert (Hlow2 : (if heighted then lowest_key id recs2 else d + 1) = hd 0 (map fst (recs_of id recs2))).
    { destruct heighted eqn:Hh.
      - rewrite <- Hrs2 in Hsorted. destruct Hsorted as [Hs Hp]. apply lowest_key_hd; assumption.
      - rewrite Hrs2.
        pose proof (reg_ok_beacon_hd _ _ _ _ _ Hok ltac:(lia)) as H1. cbn [map fst hd] in H1.
        assert (Hok2 := Hok' {| rg_id := id; rg_owner := 0; rg_moniker := EmptyString; rg_name := EmptyString;
                     rg_genesis := EmptyString; rg_type := EmptyString; rg_last := k;
                     rg_num := rg_num rg; rg_lowest := hd 0 (map fst (rest ++ [(k, rc)]));
                     rg_regtime := 0 |} eq_refl eq_refl eq_refl eq_refl).
        pose proof (reg_ok_beacon_hd _ _ _ _ _ Hok2 ltac:(cbn; lia)) as H2.
        rewrite app_length in H2. cbn [List.length rg_num] in H2. lia. }
    assert (E0 : (0 <? rg_lowest rg) = true) by lia.
    assert (E1 : (rg_lowest rg =? 0) = false) by lia.
    rewrite E0, E1, Hlow. fold recs2.
    destruct heighted; (exists recs2; eexists; exists d; split; [reflexivity|]);
      (split; [exact Hrs2|]; split; [exact Hoth|]; split; [exact Hget|]; split; [exact ND2|];
       split; [reflexivity|]);
      cbn [rg_id rg_last rg_num rg_lowest rg_owner rg_moniker rg_name rg_genesis rg_type rg_regtime];
      repeat split; try reflexivity; try lia; exact Hlow2.
  - (* room left: nothing is pruned *)
    assert (Hlow1 : (if rg_lowest rg =? 0 then k else rg_lowest rg) = hd 0 (map fst (rs ++ [(k, rc)]))).
    { destruct rs as [|[d v] rest]; cbn [map fst hd app] in Hlow |- *.
      - rewrite Hlow. reflexivity.
      - assert (Hd : 1 <= d) by (cbn [map fst] in Hpos; exact (Forall_inv Hpos)).
        destruct (rg_lowest rg =? 0) eqn:E; [lia | exact Hlow]. }
    exists (aset (id, k) rc (r_recs s)). eexists. exists 0.
    split; [reflexivity|].
    split; [exact Hrs1|].
    split; [intros id' N; apply recs_of_aset_other; exact N|].
    split; [intros id' k' N; apply aget_aset_neq, pair_key_neq; left; congruence|].
    split; [exact ND1|]. split; [reflexivity|].
    cbn [rg_id rg_last rg_num rg_lowest rg_owner rg_moniker rg_name rg_genesis rg_type rg_regtime].
    rewrite Hrs1. repeat split; try reflexivity. exact Hlow1.
Qed.

Lemma reg_exec_record_inv heighted t s o id key hashes s' r :
  reg_exec heighted t s (RRecord o id key hashes) = Ok (s', r) ->
  exists rg k pr, aget id (r_regs s) = Some rg /\ o = rg_owner rg /\
    (heighted = true -> key <> 0 /\ rg_last rg < key) /\
    existsb (too_long 66) hashes = false /\
    record_new heighted t s rg key hashes = (s', k, pr) /\ r = RespRecorded id k.
Proof.
  cbn [reg_exec]. destruct (heighted && (key =? 0)) eqn:E0; [discriminate|].
  destruct (existsb (too_long 66) hashes) eqn:E1; [discriminate|].
  destruct (aget id (r_regs s)) as [rg|]; [|discriminate].
  destruct (negb (o =? rg_owner rg)) eqn:Eo; [discriminate|].
  destruct (heighted && negb (rg_last rg <? key)) eqn:E2; [discriminate|].
  destruct (record_new heighted t s rg key hashes) as [[s1 k] pr] eqn:ER.
  intros [= <- <-]. exists rg, k, pr.
  split; [reflexivity|]. split; [lia|]. split; [intros ->; cbn in E0, E2; lia|].
  split; [reflexivity|]. split; [exact ER|reflexivity].
Qed.

Definition new_key (heighted : bool) (rg : registration) (key : Z) : Z :=
  if heighted then key else rg_last rg + 1.
Definition new_rec (heighted : bool) (t : Z) (rg : registration) (key : Z) (hashes : list string) : record :=
  {| rc_key := new_key heighted rg key; rc_hashes := hashes; rc_time := if heighted then t else key |}.

Lemma reg_inv_record heighted t s g o id key hashes s' r :
  reg_inv heighted s g -> u64 key ->
  reg_exec heighted t s (RRecord o id key hashes) = Ok (s', r) ->
  exists rg, aget id (r_regs s) = Some rg /\
    let k := new_key heighted rg key in
    let rc := new_rec heighted t rg key hashes in
    r = RespRecorded id k /\ aget (id, k) (r_recs s') = Some rc /\
    reg_inv heighted s' {| g_log := aset id (log_of g id ++ [(k, rc)]) (g_log g); g_reg := g_reg g |}.
Proof.
  intros I Hkey E. apply reg_exec_record_inv in E.
  destruct E as [rg [k0 [pr0 [G [Ho [Hh [_ [ER ->]]]]]]]].
  exists rg. split; [exact G|]. intros k rc.
  assert (Hk : rg_last rg < k).
  { subst k. unfold new_key. destruct heighted; [apply Hh; reflexivity | lia]. }
  destruct (record_new_shape heighted t s g id rg key hashes I G Hk (fun _ => Hkey))
    as [recs' [rg' [pr [ER' [Hrs [Hoth [Hget [ND' [_ [Hid' [Hlast' [Hnum' [Hlow' [Hown [Hmon [Hname [Hgen [Hty Hrt]]]]]]]]]]]]]]]]]].
  fold (new_key heighted rg key) in ER', Hrs, Hlast'. fold k in ER', Hrs, Hlast'.
  fold (new_rec heighted t rg key hashes) in Hrs. fold rc in Hrs.
  rewrite ER in ER'. injection ER' as -> -> ->.
  destruct (inv_regs _ _ _ I _ _ G) as [Hr Hok].
  destruct (inv_limit _ _ _ _ _ I G) as [HL [HL1 HL2]]. rewrite HL in Hok.
  cbn [with_regs r_recs]. split; [reflexivity|].
  split.
  { apply (aget_recs_of _ _ _ _ ND'). rewrite Hrs. apply in_or_app; right; left; reflexivity. }
  constructor; cbn [with_regs r_params r_next r_regs r_limits r_recs g_reg].
  - apply NoDup_akeys_aset, (inv_nd_regs _ _ _ I).
  - apply (inv_nd_limits _ _ _ I).
  - exact ND'.
  - apply (inv_params _ _ _ I).
  - apply (inv_next _ _ _ I).
  - intros id' rg'' G'. rewrite log_of_aset. destruct (Z.eq_dec id' id) as [->|N].
    + rewrite aget_aset_eq in G'. injection G' as <-. rewrite Z.eqb_refl, HL, Hrs.
      split; [exact Hr|].
      eapply reg_ok_record; try eassumption; try reflexivity.
      * intros Hh'. subst k. unfold new_key. rewrite Hh'. exact Hkey.
      * intros Hh'. subst k. unfold new_key. rewrite Hh'. reflexivity.
      * rewrite Hlow', Hrs. reflexivity.
    + rewrite aget_aset_neq in G' by congruence.
      apply Z.eqb_neq in N as N'. rewrite N', (Hoth _ N). apply (inv_regs _ _ _ I _ _ G').
  - intros id' k' rc' G'. destruct (Z.eq_dec id' id) as [->|N]; [rewrite aget_aset_eq; discriminate|].
    rewrite aget_aset_neq by congruence. rewrite (Hget _ _ N) in G'. apply (inv_recs_reg _ _ _ I _ _ _ G').
  - rewrite akeys_aset_in; [apply (inv_limit_keys _ _ _ I) | eapply aget_Some_In_akeys; exact G].
  - intros id' G'. rewrite log_of_aset.
    destruct (Z.eq_dec id' id) as [->|N]; [rewrite aget_aset_eq in G'; discriminate|].
    rewrite aget_aset_neq in G' by congruence. apply Z.eqb_neq in N. rewrite N.
    apply (inv_log_reg _ _ _ I _ G').
  - intros id' m t' Hin. destruct (inv_meta _ _ _ I _ _ _ Hin) as [rg0 [G0 M]].
    destruct (Z.eq_dec id' id) as [->|N].
    + exists rg'. split; [apply aget_aset_eq|]. rewrite G in G0. injection G0 as <-.
      destruct m; cbn [meta_ok] in *; try contradiction.
      rewrite Hown, Hmon, Hname, Hgen, Hty, Hrt. exact M.
    + exists rg0. split; [|exact M]. rewrite aget_aset_neq by congruence. exact G0.
Qed.

(* ---- one step, a run ---- *)

Lemma reg_inv_step heighted s g t m :
  reg_inv heighted s g -> reg_msg_wf m -> 0 <= t ->
  reg_inv heighted (fst (reg_step heighted (s, g) (t, m))) (snd (reg_step heighted (s, g) (t, m))).
Proof.
  intros I Hwf Ht. unfold reg_step.
  destruct (reg_validate_basic heighted m) as [[]| |]; [|exact I|exact I].
  destruct (reg_exec heighted t s m) as [[s' r]| |] eqn:E; [|exact I|exact I].
  destruct m as [o moniker name genesis type | o id key hashes | o id n].
  - pose proof (reg_exec_register_inv _ _ _ _ _ _ _ _ _ _ E) as [-> _].
    cbn [fst snd]. eapply reg_inv_register; eassumption.
  - destruct Hwf as [_ [_ Hkey]].
    destruct (reg_inv_record _ _ _ _ _ _ _ _ _ _ I Hkey E) as [rg [G [-> [Hget I']]]].
    rewrite Hget. cbn [fst snd]. exact I'.
  - destruct Hwf as [_ [_ [Hn _]]].
    pose proof (reg_exec_purchase_inv _ _ _ _ _ _ _ _ E) as [rg [_ [_ [_ [_ [_ [_ ->]]]]]]].
    cbn [fst snd]. exact (reg_inv_purchase _ _ _ _ _ _ _ _ _ I Hn E).
Qed.

Definition hist_wf (h : list (Z * reg_msg)) : Prop :=
  Forall (fun tm => reg_msg_wf (snd tm) /\ 0 <= fst tm) h.

Lemma reg_inv_run heighted h : forall s g,
  reg_inv heighted s g -> hist_wf h ->
  reg_inv heighted (fst (reg_run heighted (s, g) h)) (snd (reg_run heighted (s, g) h)).
Proof.
  induction h as [|[t m] h IH]; intros s g I Hh; [exact I|].
  inversion Hh as [|? ? [Hm Ht] Hh']; subst. cbn [fst snd] in Hm, Ht.
  unfold reg_run. cbn [fold_left]. fold (reg_run heighted).
  pose proof (reg_inv_step heighted s g t m I Hm Ht) as I'.
  destruct (reg_step heighted (s, g) (t, m)) as [s1 g1]. apply IH; assumption.
Qed.

(* ================================================================== *)
(* 5. What one step can be                                             *)
(* ================================================================== *)

(* record_new never touches parameters, the id counter or the limits (no invariant needed) *)
Lemma record_new_frame heighted t s rg key hashes s' k pr :
  record_new heighted t s rg key hashes = (s', k, pr) ->
  r_params s' = r_params s /\ r_next s' = r_next s /\ r_limits s' = r_limits s.
Proof.
  unfold record_new.
  destruct (limit_of s (rg_id rg) <? rg_num rg + 1);
    [destruct heighted; [destruct (0 <? rg_lowest rg)|]|];
    intros [= <- _ _]; repeat split; reflexivity.
Qed.

Inductive step_case (heighted : bool) (s : reg_state) (g : ghost) (t : Z) (m : reg_msg)
                    (s1 : reg_state) (g1 : ghost) : Prop :=
| SC_rejected :
    s1 = s -> g1 = g ->
    (is_ok (reg_validate_basic heighted m) = false \/ is_ok (reg_exec heighted t s m) = false) ->
    step_case heighted s g t m s1 g1
| SC_register o moniker name genesis type :
    m = RRegister o moniker name genesis type ->
    reg_exec heighted t s m = Ok (s1, RespRegistered (r_next s)) ->
    g1 = {| g_log := g_log g; g_reg := g_reg g ++ [(r_next s, m, t)] |} ->
    step_case heighted s g t m s1 g1
| SC_record o id key hashes rg :
    m = RRecord o id key hashes -> aget id (r_regs s) = Some rg -> u64 key ->
    reg_exec heighted t s m = Ok (s1, RespRecorded id (new_key heighted rg key)) ->
    aget (id, new_key heighted rg key) (r_recs s1) = Some (new_rec heighted t rg key hashes) ->
    g1 = {| g_log := aset id (log_of g id ++ [(new_key heighted rg key, new_rec heighted t rg key hashes)])
                          (g_log g);
            g_reg := g_reg g |} ->
    step_case heighted s g t m s1 g1
| SC_purchase o id n c :
    m = RPurchase o id n -> 0 <= n ->
    reg_exec heighted t s m = Ok (s1, RespPurchased id n c) -> g1 = g ->
    step_case heighted s g t m s1 g1.

Lemma reg_step_cases heighted s g t m s1 g1 :
  reg_inv heighted s g -> reg_msg_wf m ->
  reg_step heighted (s, g) (t, m) = (s1, g1) -> step_case heighted s g t m s1 g1.
Proof.
  intros I Hwf. unfold reg_step.
  destruct (reg_validate_basic heighted m) as [[]| |] eqn:EV;
    [| intros [= <- <-]; apply SC_rejected; auto; left; rewrite EV; reflexivity
     | intros [= <- <-]; apply SC_rejected; auto; left; rewrite EV; reflexivity].
  destruct (reg_exec heighted t s m) as [[s' r]| |] eqn:E;
    [| intros [= <- <-]; apply SC_rejected; auto; right; rewrite E; reflexivity
     | intros [= <- <-]; apply SC_rejected; auto; right; rewrite E; reflexivity].
  destruct m as [o moniker name genesis type | o id key hashes | o id n].
  - pose proof (reg_exec_register_inv _ _ _ _ _ _ _ _ _ _ E) as [-> _].
    intros [= <- <-]. eapply SC_register; [reflexivity | exact E | reflexivity].
  - destruct Hwf as [_ [_ Hkey]].
    destruct (reg_inv_record _ _ _ _ _ _ _ _ _ _ I Hkey E) as [rg [G [-> [Hget I']]]].
    rewrite Hget. intros [= <- <-]. eapply SC_record; try reflexivity; eassumption.
  - destruct Hwf as [_ [_ [Hn _]]].
    pose proof (reg_exec_purchase_inv _ _ _ _ _ _ _ _ E) as [rg [_ [_ [_ [_ [_ [_ ->]]]]]]].
    intros [= <- <-]. eapply SC_purchase; [reflexivity | exact Hn | exact E | reflexivity].
Qed.

(* a run, one step at a time, with the invariant carried along *)
Lemma reg_run_ind heighted (P : reg_state -> ghost -> reg_state -> ghost -> Prop) :
  (forall s g, reg_inv heighted s g -> P s g s g) ->
  (forall s g t m s1 g1 s2 g2,
     reg_inv heighted s g -> reg_msg_wf m -> 0 <= t ->
     reg_step heighted (s, g) (t, m) = (s1, g1) -> reg_inv heighted s1 g1 ->
     P s1 g1 s2 g2 -> P s g s2 g2) ->
  forall h s g s' g', reg_inv heighted s g -> hist_wf h ->
    reg_run heighted (s, g) h = (s', g') -> P s g s' g'.
Proof.
  intros Hrefl Hstep. induction h as [|[t m] h IH]; intros s g s' g' I Hh.
  - intros [= <- <-]. apply Hrefl; exact I.
  - inversion Hh as [|? ? [Hm Ht] Hh']; subst. cbn [fst snd] in Hm, Ht.
    unfold reg_run. cbn [fold_left]. fold (reg_run heighted).
    pose proof (reg_inv_step heighted s g t m I Hm Ht) as I'.
    destruct (reg_step heighted (s, g) (t, m)) as [s1 g1] eqn:ES. cbn [fst snd] in I'.
    intros ER. eapply Hstep; try eassumption. eapply IH; eassumption.
Qed.

Lemma reg_inv_run' heighted h s g s' g' :
  reg_inv heighted s g -> hist_wf h -> reg_run heighted (s, g) h = (s', g') -> reg_inv heighted s' g'.
Proof.
  intros I Hh ER. pose proof (reg_inv_run heighted h s g I Hh) as I'. rewrite ER in I'. exact I'.
Qed.

(* ---- the ghost only grows ---- *)

Lemma reg_step_ghost_grows heighted s g t m s1 g1 id :
  reg_inv heighted s g -> reg_msg_wf m -> reg_step heighted (s, g) (t, m) = (s1, g1) ->
  (exists l, log_of g1 id = log_of g id ++ l) /\ (exists l, g_reg g1 = g_reg g ++ l).
Proof.
  intros I Hwf ES. destruct (reg_step_cases _ _ _ _ _ _ _ I Hwf ES)
    as [-> -> _ | o mon name gen ty -> _ -> | o id0 key hashes rg -> _ _ _ _ -> | o id0 n c -> _ _ ->].
  - split; exists []; rewrite app_nil_r; reflexivity.
  - split; [exists []; rewrite app_nil_r; reflexivity | eexists; reflexivity].
  - split; [|exists []; rewrite app_nil_r; reflexivity]. rewrite log_of_aset.
    destruct (id =? id0) eqn:E; [apply Z.eqb_eq in E; subst; eexists; reflexivity|].
    exists []; rewrite app_nil_r; reflexivity.
  - split; exists []; rewrite app_nil_r; reflexivity.
Qed.

Lemma reg_run_ghost_grows heighted h s g s' g' id :
  reg_inv heighted s g -> hist_wf h -> reg_run heighted (s, g) h = (s', g') ->
  (exists l, log_of g' id = log_of g id ++ l) /\ (exists l, g_reg g' = g_reg g ++ l).
Proof.
  revert h s g s' g'.
  apply (reg_run_ind heighted (fun s g s' g' =>
    (exists l, log_of g' id = log_of g id ++ l) /\ (exists l, g_reg g' = g_reg g ++ l))).
  - intros s g _. split; exists []; rewrite app_nil_r; reflexivity.
  - intros s g t m s1 g1 s2 g2 I Hm Ht ES I1 [[l2 H2] [r2 R2]].
    destruct (reg_step_ghost_grows _ _ _ _ _ _ _ id I Hm ES) as [[l1 H1] [r1 R1]].
    split; [exists (l1 ++ l2); rewrite H2, H1, app_assoc; reflexivity
           | exists (r1 ++ r2); rewrite R2, R1, app_assoc; reflexivity].
Qed.

(* ================================================================== *)
(* 6. C07: accepted records are append-only and tamper-proof           *)
(* ================================================================== *)

(* everything that can be queried was accepted exactly so *)
Lemma inv_query_sound heighted s g id k rc :
  reg_inv heighted s g -> q_record s id k = Some rc -> In (k, rc) (log_of g id).
Proof.
  unfold q_record. intros I Q. pose proof Q as Q'.
  apply (inv_recs_reg _ _ _ I) in Q'. destruct (aget id (r_regs s)) as [rg|] eqn:G; [|contradiction].
  destruct (inv_regs _ _ _ I _ _ G) as [_ Hok].
  apply (aget_recs_of _ _ _ _ (inv_nd_recs _ _ _ I)) in Q.
  rewrite (ok_recs _ _ _ _ _ _ Hok) in Q. eapply lastn_incl; exact Q.
Qed.

(* every accepted record is either still returned bit-for-bit, or has been pruned: its key is
   below the lowest key held in state *)
Lemma inv_log_queryable heighted s g id k rc :
  reg_inv heighted s g -> In (k, rc) (log_of g id) ->
  q_record s id k = Some rc \/
  (q_record s id k = None /\ ~ In k (keys_of id (r_recs s)) /\
   exists rg, aget id (r_regs s) = Some rg /\ 1 <= rg_num rg /\ k < rg_lowest rg).
Proof.
  unfold q_record. intros I Hin.
  destruct (aget id (r_regs s)) as [rg|] eqn:G;
    [|rewrite (inv_log_reg _ _ _ I _ G) in Hin; destruct Hin].
  destruct (inv_regs _ _ _ I _ _ G) as [_ Hok].
  assert (Hne : log_of g id <> []) by (intros E; rewrite E in Hin; destruct Hin).
  pose proof (ok_num1 _ _ _ _ _ _ Hok Hne) as Hn1.
  pose proof (reg_ok_rs_length _ _ _ _ _ _ Hok) as Hlen.
  pose proof (ok_lowest _ _ _ _ _ _ Hok) as Hlow.
  pose proof (ok_si _ _ _ _ _ _ Hok) as Hsi.
  pose proof (ok_recs _ _ _ _ _ _ Hok) as Hrs.
  destruct (lastn_split (Z.to_nat (rg_num rg)) (log_of g id)) as [pre Hpre]. rewrite <- Hrs in Hpre.
  rewrite Hpre in Hin, Hsi. apply in_app_or in Hin. destruct Hin as [Hin|Hin].
  - right. rewrite map_app in Hsi. apply si_app in Hsi. destruct Hsi as [_ [_ Hlt]].
    assert (Hk : In k (map fst pre)) by (change k with (fst (k, rc)); apply in_map; exact Hin).
    assert (Hnot : ~ In k (keys_of id (r_recs s))).
    { unfold keys_of. intros Hk'. specialize (Hlt k k Hk Hk'). lia. }
    split; [apply aget_None_keys_of; exact Hnot|]. split; [exact Hnot|].
    exists rg. split; [reflexivity|]. split; [exact Hn1|].
    rewrite Hlow. apply Hlt; [exact Hk|].
    destruct (recs_of id (r_recs s)) as [|[d v] rest]; [cbn in Hlen; lia|]. left; reflexivity.
  - left. apply (aget_recs_of _ _ _ _ (inv_nd_recs _ _ _ I)). exact Hin.
Qed.

Lemma C07_immutable_run heighted s g h id s' g' :
  reg_inv heighted s g -> hist_wf h -> reg_run heighted (s, g) h = (s', g') ->
  (exists l, log_of g' id = log_of g id ++ l) /\
  (forall k rc, In (k, rc) (log_of g id) -> In (k, rc) (log_of g' id)) /\
  (forall k rc, In (k, rc) (log_of g' id) ->
     q_record s' id k = Some rc \/
     (q_record s' id k = None /\ ~ In k (keys_of id (r_recs s')) /\
      exists rg', aget id (r_regs s') = Some rg' /\ 1 <= rg_num rg' /\ k < rg_lowest rg')) /\
  (forall k rc, q_record s' id k = Some rc -> In (k, rc) (log_of g' id)).
Proof.
  intros I Hh ER. pose proof (reg_inv_run' _ _ _ _ _ _ I Hh ER) as I'.
  destruct (reg_run_ghost_grows _ _ _ _ _ _ id I Hh ER) as [[l Hl] _].
  split; [exists l; exact Hl|]. split.
  - intros k rc Hin. rewrite Hl. apply in_or_app; left; exact Hin.
  - split; intros k rc; [apply (inv_log_queryable heighted) | apply (inv_query_sound heighted)]; exact I'.
Qed.

Lemma C07_record_stores heighted s g t o id key hashes s' k :
  reg_inv heighted s g -> u64 key ->
  reg_exec heighted t s (RRecord o id key hashes) = Ok (s', RespRecorded id k) ->
  q_record s' id k
    = Some {| rc_key := k; rc_hashes := hashes; rc_time := if heighted then t else key |} /\
  (heighted = true -> k = key) /\
  (heighted = false -> exists rg, aget id (r_regs s) = Some rg /\ k = rg_last rg + 1).
Proof.
  intros I Hkey E. destruct (reg_inv_record _ _ _ _ _ _ _ _ _ _ I Hkey E) as [rg [G [Er [Hget _]]]].
  injection Er as ->. unfold q_record. rewrite Hget. unfold new_rec, new_key.
  split; [reflexivity|]. split; intros ->; [reflexivity|]. exists rg; split; [exact G|reflexivity].
Qed.

Lemma C07_height_increasing s g t o id key hashes s' r rg :
  reg_inv true s g -> u64 key ->
  reg_exec true t s (RRecord o id key hashes) = Ok (s', r) -> aget id (r_regs s) = Some rg ->
  rg_last rg < key /\ r = RespRecorded id key /\
  exists rg', aget id (r_regs s') = Some rg' /\ rg_last rg' = key.
Proof.
  intros I Hkey E G.
  destruct (reg_exec_record_inv _ _ _ _ _ _ _ _ _ E) as [rg0 [k0 [pr0 [G0 [_ [Hh _]]]]]].
  rewrite G in G0. injection G0 as <-. split; [apply Hh; reflexivity|].
  destruct (reg_inv_record _ _ _ _ _ _ _ _ _ _ I Hkey E) as [rg0 [G0 [Er [_ I']]]].
  rewrite G in G0. injection G0 as <-. cbn [new_key] in Er, I'. split; [exact Er|].
  destruct (aget id (r_regs s')) as [rg'|] eqn:G'.
  - exists rg'. split; [reflexivity|]. destruct (inv_regs _ _ _ I' _ _ G') as [_ Hok].
    rewrite (ok_last _ _ _ _ _ _ Hok), log_of_aset, Z.eqb_refl, map_app. cbn [map fst].
    rewrite last_last. reflexivity.
  - apply (inv_log_reg _ _ _ I') in G'. rewrite log_of_aset, Z.eqb_refl in G'.
    destruct (log_of g id); discriminate G'.
Qed.

Lemma C07_height_not_above_rejected t s o id key hashes rg :
  aget id (r_regs s) = Some rg -> o = rg_owner rg -> key <> 0 ->
  existsb (too_long 66) hashes = false -> key <= rg_last rg ->
  reg_exec true t s (RRecord o id key hashes) = Err ERR_REG_HEIGHT.
Proof.
  intros G -> Hk Hh Hle. cbn [reg_exec andb]. rewrite Hh, G.
  replace (key =? 0) with false by lia. rewrite Z.eqb_refl. cbn [negb].
  replace (rg_last rg <? key) with false by lia. reflexivity.
Qed.

Lemma C07_beacon_consecutive s g id :
  reg_inv false s g ->
  map fst (log_of g id) = map Z.of_nat (seq 1 (List.length (log_of g id))) /\
  (forall i, (i < List.length (log_of g id))%nat -> nth i (map fst (log_of g id)) 0 = Z.of_nat i + 1).
Proof.
  intros I.
  assert (H : map fst (log_of g id) = zseq (List.length (log_of g id))).
  { destruct (aget id (r_regs s)) as [rg|] eqn:G.
    - destruct (inv_regs _ _ _ I _ _ G) as [_ Hok]. apply (ok_consec _ _ _ _ _ _ Hok eq_refl).
    - rewrite (inv_log_reg _ _ _ I _ G). reflexivity. }
  split; [exact H|]. intros i Hi. rewrite H. unfold zseq.
  change 0 with (Z.of_nat 0). rewrite map_nth, seq_nth by exact Hi. lia.
Qed.

Lemma C07_rejected_nothing heighted s g t m :
  (is_ok (reg_validate_basic heighted m) = false \/ is_ok (reg_exec heighted t s m) = false) ->
  reg_step heighted (s, g) (t, m) = (s, g).
Proof.
  unfold reg_step.
  destruct (reg_validate_basic heighted m) as [[]| |]; [|reflexivity|reflexivity].
  destruct (reg_exec heighted t s m) as [[s' r]| |]; [|reflexivity|reflexivity].
  cbn. intros [H|H]; discriminate H.
Qed.

(* ================================================================== *)
(* 7. C08: retention and limits                                        *)
(* ================================================================== *)

Lemma C08_newest_suffix heighted s g id rg :
  reg_inv heighted s g -> aget id (r_regs s) = Some rg ->
  recs_of id (r_recs s) = lastn (Z.to_nat (rg_num rg)) (log_of g id) /\
  0 <= rg_num rg /\ rg_num rg <= limit_of s id /\
  rg_num rg <= Z.of_nat (List.length (log_of g id)).
Proof.
  intros I G. destruct (inv_regs _ _ _ I _ _ G) as [_ Hok].
  destruct (inv_limit _ _ _ _ _ I G) as [_ [_ HL]].
  split; [apply (ok_recs _ _ _ _ _ _ Hok)|]. split; [apply (ok_num0 _ _ _ _ _ _ Hok)|].
  split; [exact HL | apply (ok_numlen _ _ _ _ _ _ Hok)].
Qed.

Lemma C08_count_record heighted s g t o id key hashes s' r rg :
  reg_inv heighted s g -> u64 key ->
  reg_exec heighted t s (RRecord o id key hashes) = Ok (s', r) -> aget id (r_regs s) = Some rg ->
  exists rg',
    r_regs s' = aset id rg' (r_regs s) /\ r_limits s' = r_limits s /\
    r_params s' = r_params s /\ r_next s' = r_next s /\
    r = RespRecorded id (new_key heighted rg key) /\
    rg_num rg' = Z.min (rg_num rg + 1) (limit_of s id) /\
    recs_of id (r_recs s')
      = (if limit_of s id <? rg_num rg + 1 then tl (recs_of id (r_recs s)) else recs_of id (r_recs s))
        ++ [(new_key heighted rg key, new_rec heighted t rg key hashes)] /\
    (forall id', id' <> id -> recs_of id' (r_recs s') = recs_of id' (r_recs s)).
Proof.
  intros I Hkey E G.
  destruct (reg_exec_record_inv _ _ _ _ _ _ _ _ _ E) as [rg0 [k0 [pr0 [G0 [_ [Hh [_ [ER ->]]]]]]]].
  rewrite G in G0. injection G0 as <-.
  assert (Hk : rg_last rg < new_key heighted rg key).
  { unfold new_key. destruct heighted; [apply Hh; reflexivity | lia]. }
  destruct (record_new_shape heighted t s g id rg key hashes I G Hk (fun _ => Hkey))
    as [recs' [rg' [pr [ER' [Hrs [Hoth [_ [_ [_ [_ [_ [Hnum' _]]]]]]]]]]]].
  rewrite ER in ER'. injection ER' as -> -> ->.
  destruct (inv_limit _ _ _ _ _ I G) as [_ [HL1 HL2]].
  exists rg'. cbn [with_regs r_regs r_limits r_params r_next r_recs].
  repeat split; try reflexivity; try assumption.
  rewrite Hnum'. destruct (limit_of s id <? rg_num rg + 1) eqn:Ep; lia.
Qed.

Lemma C08_records_untouched heighted t s m s' r :
  reg_exec heighted t s m = Ok (s', r) ->
  match m with RRecord _ _ _ _ => True | _ => r_recs s' = r_recs s end.
Proof.
  intros E. destruct m as [o moniker name genesis type | o id key hashes | o id n]; [|exact I|].
  - apply reg_exec_register_inv in E. destruct E as [_ ->]. reflexivity.
  - apply reg_exec_purchase_inv in E. destruct E as [rg [_ [_ [_ [_ [_ [-> _]]]]]]]. reflexivity.
Qed.

Lemma C08_counters heighted s g id rg :
  reg_inv heighted s g -> aget id (r_regs s) = Some rg ->
  rg_num rg = Z.of_nat (List.length (recs_of id (r_recs s))) /\
  rg_lowest rg = hd 0 (keys_of id (r_recs s)) /\
  rg_last rg = last (map fst (log_of g id)) 0 /\
  (rg_num rg > 0 ->
     (exists rc, q_record s id (rg_last rg) = Some rc) /\
     (exists rc, q_record s id (rg_lowest rg) = Some rc)).
Proof.
  intros I G. destruct (inv_regs _ _ _ I _ _ G) as [_ Hok].
  pose proof (reg_ok_rs_length _ _ _ _ _ _ Hok) as Hlen.
  pose proof (ok_lowest _ _ _ _ _ _ Hok) as Hlow.
  pose proof (ok_last _ _ _ _ _ _ Hok) as Hlast.
  pose proof (ok_recs _ _ _ _ _ _ Hok) as Hrs.
  pose proof (ok_numlen _ _ _ _ _ _ Hok) as Hnl.
  pose proof (inv_nd_recs _ _ _ I) as ND.
  split; [lia|]. split; [exact Hlow|]. split; [exact Hlast|].
  intros Hn. unfold q_record. split.
  - destruct (exists_last (l := log_of g id)) as [l' [x Hx]].
    { intros E. rewrite E in Hnl. cbn in Hnl. lia. }
    rewrite Hx in Hlast, Hrs, Hnl. rewrite map_app in Hlast. cbn [map] in Hlast.
    rewrite last_last in Hlast. rewrite app_length in Hnl. cbn [List.length] in Hnl.
    replace (Z.to_nat (rg_num rg)) with (S (Z.to_nat (rg_num rg) - 1)) in Hrs by lia.
    rewrite lastn_snoc in Hrs by lia.
    exists (snd x). apply (aget_recs_of _ _ _ _ ND). rewrite Hrs, Hlast.
    apply in_or_app; right; left. destruct x; reflexivity.
  - destruct (recs_of id (r_recs s)) as [|[d v] rest] eqn:Ers; [cbn in Hlen; lia|].
    cbn [map fst hd] in Hlow. exists v. apply (aget_recs_of _ _ _ _ ND).
    rewrite Ers, Hlow. left; reflexivity.
Qed.

(* ---- limits ---- *)

Lemma C08_limit_register heighted t s o moniker name genesis type s' r :
  reg_exec heighted t s (RRegister o moniker name genesis type) = Ok (s', r) ->
  r = RespRegistered (r_next s) /\ limit_of s' (r_next s) = rp_default_limit (r_params s).
Proof.
  intros E. apply reg_exec_register_inv in E. destruct E as [-> ->]. split; [reflexivity|].
  unfold limit_of. cbn [r_limits]. rewrite aget_aset_eq. reflexivity.
Qed.

Lemma C08_limit_purchase heighted t s o id n s' r :
  reg_exec heighted t s (RPurchase o id n) = Ok (s', r) ->
  limit_of s' id = limit_of s id + n /\ limit_of s' id <= rp_max_limit (r_params s) /\
  r_params s' = r_params s /\
  r = RespPurchased id n (Z.max 0 (rp_max_limit (r_params s') - limit_of s' id)) /\
  exists rg, aget id (r_regs s) = Some rg /\ o = rg_owner rg.
Proof.
  intros E. apply reg_exec_purchase_inv in E.
  destruct E as [rg [G [Ho [_ [_ [Hmax [-> ->]]]]]]].
  assert (HL : limit_of (with_regs s (r_regs s) (aset id (limit_of s id + n) (r_limits s)) (r_recs s)) id
               = limit_of s id + n).
  { unfold limit_of at 1. cbn [with_regs r_limits]. rewrite aget_aset_eq. reflexivity. }
  rewrite HL. split; [reflexivity|]. split; [exact Hmax|]. split; [reflexivity|].
  split; [|exists rg; auto].
  f_equal. unfold max_purchasable. cbn [with_regs r_limits r_params]. rewrite aget_aset_eq.
  destruct (rp_max_limit (r_params s) <=? limit_of s id + n) eqn:Em; lia.
Qed.

(* what one step does to a registration that already exists *)
Lemma reg_step_registered heighted s g t m s1 g1 id rg :
  reg_inv heighted s g -> reg_msg_wf m -> reg_step heighted (s, g) (t, m) = (s1, g1) ->
  aget id (r_regs s) = Some rg ->
  (exists rg1, aget id (r_regs s1) = Some rg1) /\ r_params s1 = r_params s /\
  limit_of s id <= limit_of s1 id /\
  ((forall o n, m <> RPurchase o id n) -> limit_of s1 id = limit_of s id).
Proof.
  intros I Hwf ES G. destruct (reg_step_cases _ _ _ _ _ _ _ I Hwf ES)
    as [-> -> _ | o mon name gen ty -> E _ | o id0 key hashes rg0 -> G0 Hkey E _ _ | o id0 n c -> Hn E _].
  - split; [exists rg; exact G|]. split; [reflexivity|]. split; [lia|reflexivity].
  - apply reg_exec_register_inv in E. destruct E as [_ ->]. cbn [r_regs r_params].
    assert (N : id <> r_next s) by (apply (inv_regs _ _ _ I) in G; lia).
    assert (HL : forall X Y, limit_of {| r_params := r_params s; r_next := r_next s + 1; r_regs := X;
                                r_limits := aset (r_next s) Y (r_limits s); r_recs := r_recs s |} id
                             = limit_of s id).
    { intros X Y. unfold limit_of. cbn [r_limits]. rewrite aget_aset_neq by congruence. reflexivity. }
    rewrite HL. rewrite aget_aset_neq by congruence.
    split; [exists rg; exact G|]. split; [reflexivity|]. split; [lia|reflexivity].
  - destruct (C08_count_record _ _ _ _ _ _ _ _ _ _ _ I Hkey E G0) as [rg' [Hr [Hl [Hp _]]]].
    assert (HL : limit_of s1 id = limit_of s id) by (unfold limit_of; rewrite Hl; reflexivity).
    rewrite Hr, Hp, HL. split; [|split; [reflexivity|split; [lia|reflexivity]]].
    destruct (Z.eq_dec id id0) as [->|N]; [rewrite aget_aset_eq; eauto|].
    rewrite aget_aset_neq by congruence. eauto.
  - pose proof (C08_limit_purchase _ _ _ _ _ _ _ _ E) as [HL [_ [Hp _]]].
    apply reg_exec_purchase_inv in E. destruct E as [_ [_ [_ [_ [_ [_ [Es _]]]]]]].
    split; [subst s1; exists rg; exact G|]. split; [exact Hp|].
    destruct (Z.eq_dec id id0) as [->|N].
    + split; [lia|]. intros Hnp. exfalso. apply (Hnp o n). reflexivity.
    + assert (HL' : limit_of s1 id = limit_of s id).
      { subst s1. unfold limit_of. cbn [with_regs r_limits]. rewrite aget_aset_neq by congruence. reflexivity. }
      split; [lia|]. intros _. exact HL'.
Qed.

Lemma C08_limit_set_params s p id : limit_of (reg_set_params s p) id = limit_of s id.
Proof. unfold reg_set_params. destruct (reg_params_valid p); reflexivity. Qed.

Lemma C08_limit_monotone heighted h s g s' g' id rg :
  reg_inv heighted s g -> hist_wf h -> reg_run heighted (s, g) h = (s', g') ->
  aget id (r_regs s) = Some rg ->
  (exists rg', aget id (r_regs s') = Some rg') /\ limit_of s id <= limit_of s' id.
Proof.
  intros I Hh ER. revert rg.
  apply (reg_run_ind heighted (fun s g s' g' => forall rg, aget id (r_regs s) = Some rg ->
    (exists rg', aget id (r_regs s') = Some rg') /\ limit_of s id <= limit_of s' id)) with (h := h) (g := g) (g' := g');
    try assumption.
  - intros s0 g0 _ rg G. split; [eauto|lia].
  - intros s0 g0 t m s1 g1 s2 g2 I0 Hm Ht ES I1 IH rg G.
    destruct (reg_step_registered _ _ _ _ _ _ _ _ _ I0 Hm ES G) as [[rg1 G1] [_ [Hle _]]].
    destruct (IH _ G1) as [Hex Hle2]. split; [exact Hex|lia].
Qed.

Lemma C08_capacity heighted s g id si :
  reg_inv heighted s g -> q_storage s id = Some si ->
  si_limit si = limit_of s id /\ si_max si = rp_max_limit (r_params s) /\
  si_max_purchasable si = Z.max 0 (rp_max_limit (r_params s) - si_limit si) /\
  exists rg, aget id (r_regs s) = Some rg /\ si_owner si = rg_owner rg /\ si_used si = rg_num rg.
Proof.
  intros I. unfold q_storage. destruct (aget id (r_regs s)) as [rg|] eqn:G; [|discriminate].
  intros [= <-]. cbn [si_limit si_max si_max_purchasable si_owner si_used].
  destruct (inv_limit _ _ _ _ _ I G) as [HL _].
  split; [reflexivity|]. split; [reflexivity|]. split; [|exists rg; auto].
  unfold max_purchasable. rewrite HL.
  destruct (rp_max_limit (r_params s) <=? limit_of s id) eqn:Em; lia.
Qed.

(* ---- closed form of the retained count while nothing is purchased for [id] ---- *)

Definition no_purchase_for (id : Z) (m : reg_msg) : Prop := forall o n, m <> RPurchase o id n.

Definition closed_form (p : reg_params) (id : Z) (s : reg_state) (g : ghost) : Prop :=
  r_params s = p /\
  forall rg, aget id (r_regs s) = Some rg ->
    limit_of s id = rp_default_limit p /\
    rg_num rg = Z.min (Z.of_nat (List.length (log_of g id))) (rp_default_limit p).

Lemma closed_form_step heighted p id s g t m s1 g1 :
  reg_inv heighted s g -> reg_msg_wf m -> no_purchase_for id m ->
  reg_step heighted (s, g) (t, m) = (s1, g1) ->
  closed_form p id s g -> closed_form p id s1 g1.
Proof.
  intros I Hwf Hnp ES [Hp J]. destruct (reg_step_cases _ _ _ _ _ _ _ I Hwf ES)
    as [-> -> _ | o mon name gen ty -> E -> | o id0 key hashes rg0 -> G0 Hkey E _ -> | o id0 n c -> Hn E ->].
  - split; assumption.
  - pose proof (C08_limit_register _ _ _ _ _ _ _ _ _ _ E) as [_ HLnew].
    pose proof (inv_next_unreg _ _ _ I) as Hun.
    apply reg_exec_register_inv in E. destruct E as [_ Es].
    split; [subst s1; exact Hp|]. intros rg1 G1.
    change (log_of {| g_log := g_log g; g_reg := _ |} id) with (log_of g id).
    destruct (Z.eq_dec id (r_next s)) as [->|N].
    + rewrite HLnew, Hp. split; [reflexivity|].
      rewrite (inv_log_reg _ _ _ I _ Hun). subst s1. cbn [r_regs] in G1. rewrite aget_aset_eq in G1.
      injection G1 as <-. cbn [rg_num List.length].
      pose proof (inv_params _ _ _ I) as Hv. unfold reg_params_valid in Hv. rewrite Hp in Hv. lia.
    + subst s1. cbn [r_regs] in G1. rewrite aget_aset_neq in G1 by congruence.
      destruct (J _ G1) as [J1 J2]. split; [|exact J2].
      unfold limit_of in *. cbn [r_limits]. rewrite aget_aset_neq by congruence. exact J1.
  - destruct (C08_count_record _ _ _ _ _ _ _ _ _ _ _ I Hkey E G0)
      as [rg' [Hr [Hl [Hp' [_ [_ [Hnum _]]]]]]].
    split; [congruence|]. intros rg1 G1. rewrite Hr in G1. rewrite log_of_aset.
    assert (HL : limit_of s1 id = limit_of s id) by (unfold limit_of; rewrite Hl; reflexivity).
    rewrite HL. destruct (Z.eq_dec id id0) as [->|N].
    + rewrite aget_aset_eq in G1. injection G1 as <-. destruct (J _ G0) as [J1 J2].
      split; [exact J1|]. rewrite Z.eqb_refl, Hnum, J1, J2, app_length. cbn [List.length]. lia.
    + rewrite aget_aset_neq in G1 by congruence. apply Z.eqb_neq in N. rewrite N. exact (J _ G1).
  - assert (N : id <> id0) by (intros ->; apply (Hnp o n); reflexivity).
    apply reg_exec_purchase_inv in E. destruct E as [_ [_ [_ [_ [_ [_ [-> _]]]]]]].
    split; [exact Hp|]. cbn [with_regs r_regs]. intros rg1 G1. destruct (J _ G1) as [J1 J2].
    split; [|exact J2]. unfold limit_of in *. cbn [with_regs r_limits].
    rewrite aget_aset_neq by congruence. exact J1.
Qed.

Lemma closed_form_run heighted p id h : forall s g s' g',
  reg_inv heighted s g -> hist_wf h -> Forall (fun tm => no_purchase_for id (snd tm)) h ->
  reg_run heighted (s, g) h = (s', g') -> closed_form p id s g -> closed_form p id s' g'.
Proof.
  induction h as [|[t m] h IH]; intros s g s' g' I Hh Hnp.
  - intros [= <- <-] J; exact J.
  - inversion Hh as [|? ? [Hm Ht] Hh']; subst. inversion Hnp as [|? ? Hnp1 Hnp']; subst.
    cbn [fst snd] in Hm, Ht, Hnp1.
    unfold reg_run. cbn [fold_left]. fold (reg_run heighted).
    pose proof (reg_inv_step heighted s g t m I Hm Ht) as I'.
    destruct (reg_step heighted (s, g) (t, m)) as [s1 g1] eqn:ES. cbn [fst snd] in I'.
    intros ER J. apply (IH s1 g1 s' g' I' Hh' Hnp' ER).
    exact (closed_form_step _ _ _ _ _ _ _ _ _ I Hm Hnp1 ES J).
Qed.

Lemma C08_closed_form heighted p start h id s g rg :
  reg_params_valid p = true -> 1 <= start -> hist_wf h ->
  Forall (fun tm => no_purchase_for id (snd tm)) h ->
  reg_run heighted (reg_init p start, ghost_init) h = (s, g) ->
  aget id (r_regs s) = Some rg ->
  limit_of s id = rp_default_limit p /\
  rg_num rg = Z.min (Z.of_nat (List.length (log_of g id))) (rp_default_limit p).
Proof.
  intros Hp Hs Hh Hnp ER G.
  assert (J : closed_form p id s g).
  { eapply closed_form_run; try eassumption; [apply reg_inv_init; assumption|].
    split; [reflexivity|]. cbn. discriminate. }
  destruct J as [_ J]. exact (J _ G).
Qed.

(* ================================================================== *)
(* 8. C09: sequential ids, immutable metadata, sole-writer owner       *)
(* ================================================================== *)

Definition reg_ids (g : ghost) : list Z := map (fun x => fst (fst x)) (g_reg g).
Definition ids_from (start : Z) (n : nat) : list Z := map (fun i => start + Z.of_nat i) (seq 0 n).

Lemma ids_from_S start n : ids_from start (S n) = ids_from start n ++ [start + Z.of_nat n].
Proof. unfold ids_from. rewrite seq_S, map_app. reflexivity. Qed.

Lemma ids_from_si start n : strictly_increasing (ids_from start n).
Proof.
  induction n as [|n IH]; [exact I|]. rewrite ids_from_S. apply si_snoc; [exact IH|].
  intros y Hy. unfold ids_from in Hy. apply in_map_iff in Hy. destruct Hy as [i [<- Hi]].
  apply in_seq in Hi. lia.
Qed.

Definition seq_inv (start : Z) (s : reg_state) (g : ghost) : Prop :=
  r_next s = start + Z.of_nat (List.length (g_reg g)) /\
  reg_ids g = ids_from start (List.length (g_reg g)).

(* no invariant and no well-formedness needed: the id counter moves only on registration *)
Lemma seq_inv_step heighted start s g t m :
  seq_inv start s g ->
  seq_inv start (fst (reg_step heighted (s, g) (t, m))) (snd (reg_step heighted (s, g) (t, m))).
Proof.
  intros [Hn Hids]. unfold reg_step.
  destruct (reg_validate_basic heighted m) as [[]| |]; [|split; assumption|split; assumption].
  destruct (reg_exec heighted t s m) as [[s' r]| |] eqn:E; [|split; assumption|split; assumption].
  destruct m as [o moniker name genesis type | o id key hashes | o id n].
  - apply reg_exec_register_inv in E. destruct E as [-> ->]. cbn [fst snd]. unfold seq_inv, reg_ids.
    cbn [r_next g_reg]. rewrite app_length, map_app. cbn [List.length map fst].
    replace (List.length (g_reg g) + 1)%nat with (S (List.length (g_reg g))) by lia.
    rewrite ids_from_S. fold (reg_ids g). rewrite Hids, Hn. split; [lia|reflexivity].
  - apply reg_exec_record_inv in E. destruct E as [rg [k [pr [_ [_ [_ [_ [ER ->]]]]]]]].
    apply record_new_frame in ER. destruct ER as [_ [Hnext _]].
    destruct (aget (id, k) (r_recs s')); cbn [fst snd]; unfold seq_inv, reg_ids; cbn [g_reg];
      rewrite Hnext; split; assumption.
  - apply reg_exec_purchase_inv in E. destruct E as [rg [_ [_ [_ [_ [_ [-> ->]]]]]]].
    cbn [fst snd]. split; assumption.
Qed.

Lemma seq_inv_run heighted start h : forall s g,
  seq_inv start s g ->
  seq_inv start (fst (reg_run heighted (s, g) h)) (snd (reg_run heighted (s, g) h)).
Proof.
  induction h as [|[t m] h IH]; intros s g J; [exact J|].
  unfold reg_run. cbn [fold_left]. fold (reg_run heighted).
  pose proof (seq_inv_step heighted start s g t m J) as J'.
  destruct (reg_step heighted (s, g) (t, m)) as [s1 g1]. apply IH; exact J'.
Qed.

Lemma C09_sequential heighted p start h s g :
  reg_run heighted (reg_init p start, ghost_init) h = (s, g) ->
  map (fun x => fst (fst x)) (g_reg g)
    = map (fun i => start + Z.of_nat i) (seq 0 (List.length (g_reg g))) /\
  r_next s = start + Z.of_nat (List.length (g_reg g)) /\
  NoDup (map (fun x => fst (fst x)) (g_reg g)).
Proof.
  intros ER. assert (J0 : seq_inv start (reg_init p start) ghost_init).
  { split; cbn; [lia|reflexivity]. }
  pose proof (seq_inv_run heighted start h _ _ J0) as J. rewrite ER in J. cbn [fst snd] in J.
  destruct J as [Hn Hids]. split; [exact Hids|]. split; [exact Hn|].
  change (NoDup (reg_ids g)). rewrite Hids. apply si_NoDup, ids_from_si.
Qed.

Lemma C09_register_next heighted s g t o moniker name genesis type s' r :
  reg_inv heighted s g ->
  reg_exec heighted t s (RRegister o moniker name genesis type) = Ok (s', r) ->
  r = RespRegistered (r_next s) /\ r_next s' = r_next s + 1 /\
  q_registration s (r_next s) = None /\
  q_registration s' (r_next s)
    = Some {| rg_id := r_next s; rg_owner := o; rg_moniker := moniker; rg_name := name;
              rg_genesis := if heighted then genesis else EmptyString;
              rg_type := if heighted then type else EmptyString;
              rg_last := 0; rg_num := 0; rg_lowest := 0; rg_regtime := t |} /\
  (forall id, id <> r_next s -> q_registration s' id = q_registration s id).
Proof.
  intros I E. apply reg_exec_register_inv in E. destruct E as [-> ->].
  unfold q_registration. cbn [r_next r_regs]. rewrite aget_aset_eq.
  split; [reflexivity|]. split; [reflexivity|]. split; [apply (inv_next_unreg _ _ _ I)|].
  split; [reflexivity|]. intros id N. apply aget_aset_neq. congruence.
Qed.

Lemma C09_metadata heighted s g id o moniker name genesis type t :
  reg_inv heighted s g -> In (id, RRegister o moniker name genesis type, t) (g_reg g) ->
  exists rg, q_registration s id = Some rg /\ rg_id rg = id /\
    rg_owner rg = o /\ rg_moniker rg = moniker /\ rg_name rg = name /\ rg_regtime rg = t /\
    (heighted = true -> rg_genesis rg = genesis /\ rg_type rg = type).
Proof.
  intros I Hin. destruct (inv_meta _ _ _ I _ _ _ Hin) as [rg [G M]]. exists rg.
  split; [exact G|]. destruct (inv_regs _ _ _ I _ _ G) as [_ Hok].
  split; [apply (ok_id _ _ _ _ _ _ Hok) | exact M].
Qed.

Lemma C09_metadata_run heighted s g h s' g' id o moniker name genesis type t :
  reg_inv heighted s g -> hist_wf h -> reg_run heighted (s, g) h = (s', g') ->
  In (id, RRegister o moniker name genesis type, t) (g_reg g) ->
  exists rg, q_registration s' id = Some rg /\ rg_id rg = id /\
    rg_owner rg = o /\ rg_moniker rg = moniker /\ rg_name rg = name /\ rg_regtime rg = t /\
    (heighted = true -> rg_genesis rg = genesis /\ rg_type rg = type).
Proof.
  intros I Hh ER Hin. pose proof (reg_inv_run' _ _ _ _ _ _ I Hh ER) as I'.
  destruct (reg_run_ghost_grows _ _ _ _ _ _ id I Hh ER) as [_ [l Hl]].
  apply (C09_metadata _ _ _ _ _ _ _ _ _ _ I'). rewrite Hl. apply in_or_app; left; exact Hin.
Qed.

Lemma C09_only_owner heighted t s m s' r :
  reg_exec heighted t s m = Ok (s', r) ->
  match m with
  | RRegister _ _ _ _ _ => True
  | RRecord o id _ _ | RPurchase o id _ => exists rg, aget id (r_regs s) = Some rg /\ o = rg_owner rg
  end.
Proof.
  intros E. destruct m as [o moniker name genesis type | o id key hashes | o id n]; [exact I| |].
  - apply reg_exec_record_inv in E. destruct E as [rg [_ [_ [G [Ho _]]]]]. eauto.
  - apply reg_exec_purchase_inv in E. destruct E as [rg [G [Ho _]]]. eauto.
Qed.

Lemma C09_non_owner heighted t s o id rg :
  aget id (r_regs s) = Some rg -> o <> rg_owner rg ->
  (forall key hashes, exists c, reg_exec heighted t s (RRecord o id key hashes) = Err c) /\
  (forall n, exists c, reg_exec heighted t s (RPurchase o id n) = Err c).
Proof.
  intros G N. assert (Eo : negb (o =? rg_owner rg) = true) by lia. split.
  - intros key hashes. cbn [reg_exec]. rewrite G, Eo.
    destruct (heighted && (key =? 0)); [eauto|]. destruct (existsb (too_long 66) hashes); eauto.
  - intros n. cbn [reg_exec]. rewrite G, Eo. destruct (n =? 0); eauto.
Qed.

Lemma C09_unknown_id heighted t s o id :
  aget id (r_regs s) = None ->
  (forall key hashes, exists c, reg_exec heighted t s (RRecord o id key hashes) = Err c) /\
  (forall n, exists c, reg_exec heighted t s (RPurchase o id n) = Err c).
Proof.
  intros G. split.
  - intros key hashes. cbn [reg_exec]. rewrite G.
    destruct (heighted && (key =? 0)); [eauto|]. destruct (existsb (too_long 66) hashes); eauto.
  - intros n. cbn [reg_exec]. rewrite G. destruct (n =? 0); eauto.
Qed.

(* ================================================================== *)
(* 9. The statements in the form used by props/C07.v, C08.v, C09.v     *)
(* ================================================================== *)

Lemma C07_accepted_record_immutable_stmt :
  forall heighted s g h id,
    reg_inv heighted s g ->
    Forall (fun tm => reg_msg_wf (snd tm) /\ 0 <= fst tm) h ->
    let '(s', g') := reg_run heighted (s, g) h in
    (exists l, log_of g' id = log_of g id ++ l) /\
    (forall k rc, In (k, rc) (log_of g id) -> In (k, rc) (log_of g' id)) /\
    (forall k rc, In (k, rc) (log_of g' id) ->
       q_record s' id k = Some rc \/
       (q_record s' id k = None /\ ~ In k (keys_of id (r_recs s')) /\
        exists rg', q_registration s' id = Some rg' /\ 1 <= rg_num rg' /\ k < rg_lowest rg')) /\
    (forall k rc, q_record s' id k = Some rc -> In (k, rc) (log_of g' id)).
Proof.
  intros heighted s g h id I Hh. destruct (reg_run heighted (s, g) h) as [s' g'] eqn:ER.
  exact (C07_immutable_run _ _ _ _ _ _ _ I Hh ER).
Qed.

Lemma C08_count_evolution_stmt :
  forall heighted s g t o id key hashes s' r rg,
    reg_inv heighted s g -> u64 key ->
    reg_exec heighted t s (RRecord o id key hashes) = Ok (s', r) ->
    q_registration s id = Some rg ->
    exists rg' k rc,
      r = RespRecorded id k /\ q_registration s' id = Some rg' /\
      rg_num rg' = Z.min (rg_num rg + 1) (limit_of s id) /\
      recs_of id (r_recs s')
        = (if limit_of s id <? rg_num rg + 1 then tl (recs_of id (r_recs s)) else recs_of id (r_recs s))
          ++ [(k, rc)] /\
      (forall id', id' <> id ->
         recs_of id' (r_recs s') = recs_of id' (r_recs s) /\
         q_registration s' id' = q_registration s id') /\
      (forall id', limit_of s' id' = limit_of s id').
Proof.
  intros heighted s g t o id key hashes s' r rg I Hkey E G.
  destruct (C08_count_record _ _ _ _ _ _ _ _ _ _ _ I Hkey E G)
    as [rg' [Hr [Hl [_ [_ [Er [Hnum [Hrs Hoth]]]]]]]].
  exists rg', (new_key heighted rg key), (new_rec heighted t rg key hashes).
  unfold q_registration. rewrite Hr, aget_aset_eq.
  split; [exact Er|]. split; [reflexivity|]. split; [exact Hnum|]. split; [exact Hrs|].
  split; [|intros id'; unfold limit_of; rewrite Hl; reflexivity].
  intros id' N. split; [apply Hoth; exact N | apply aget_aset_neq; congruence].
Qed.

Lemma C08_limit_unchanged_stmt :
  forall heighted s g t m id rg,
    reg_inv heighted s g -> reg_msg_wf m -> q_registration s id = Some rg ->
    (forall o n, m <> RPurchase o id n) ->
    limit_of (fst (reg_step heighted (s, g) (t, m))) id = limit_of s id.
Proof.
  intros heighted s g t m id rg I Hwf G Hnp.
  destruct (reg_step heighted (s, g) (t, m)) as [s1 g1] eqn:ES.
  destruct (reg_step_registered _ _ _ _ _ _ _ _ _ I Hwf ES G) as [_ [_ [_ H]]]. exact (H Hnp).
Qed.

Lemma C08_limit_monotone_stmt :
  forall heighted s g h id rg,
    reg_inv heighted s g ->
    Forall (fun tm => reg_msg_wf (snd tm) /\ 0 <= fst tm) h ->
    q_registration s id = Some rg ->
    let '(s', g') := reg_run heighted (s, g) h in
    (exists rg', q_registration s' id = Some rg') /\ limit_of s id <= limit_of s' id.
Proof.
  intros heighted s g h id rg I Hh G. destruct (reg_run heighted (s, g) h) as [s' g'] eqn:ER.
  exact (C08_limit_monotone _ _ _ _ _ _ _ _ I Hh ER G).
Qed.

Lemma C08_closed_form_stmt :
  forall heighted p start h id,
    reg_params_valid p = true -> 1 <= start ->
    Forall (fun tm => reg_msg_wf (snd tm) /\ 0 <= fst tm) h ->
    Forall (fun tm => forall o n, snd tm <> RPurchase o id n) h ->
    let '(s, g) := reg_run heighted (reg_init p start, ghost_init) h in
    forall rg, q_registration s id = Some rg ->
      limit_of s id = rp_default_limit p /\
      rg_num rg = Z.min (Z.of_nat (List.length (log_of g id))) (rp_default_limit p).
Proof.
  intros heighted p start h id Hp Hs Hh Hnp.
  destruct (reg_run heighted (reg_init p start, ghost_init) h) as [s g] eqn:ER.
  intros rg G. exact (C08_closed_form _ _ _ _ _ _ _ _ Hp Hs Hh Hnp ER G).
Qed.

Lemma C09_ids_sequential_stmt :
  forall heighted p start h,
    let '(s, g) := reg_run heighted (reg_init p start, ghost_init) h in
    map (fun x => fst (fst x)) (g_reg g)
      = map (fun i => start + Z.of_nat i) (seq 0 (List.length (g_reg g))) /\
    r_next s = start + Z.of_nat (List.length (g_reg g)) /\
    NoDup (map (fun x => fst (fst x)) (g_reg g)).
Proof.
  intros heighted p start h.
  destruct (reg_run heighted (reg_init p start, ghost_init) h) as [s g] eqn:ER.
  exact (C09_sequential _ _ _ _ _ _ ER).
Qed.

Lemma C09_metadata_immutable_stmt :
  forall heighted s g h id o moniker name genesis type t,
    reg_inv heighted s g ->
    Forall (fun tm => reg_msg_wf (snd tm) /\ 0 <= fst tm) h ->
    In (id, RRegister o moniker name genesis type, t) (g_reg g) ->
    let '(s', g') := reg_run heighted (s, g) h in
    In (id, RRegister o moniker name genesis type, t) (g_reg g') /\
    exists rg, q_registration s' id = Some rg /\ rg_id rg = id /\
      rg_owner rg = o /\ rg_moniker rg = moniker /\ rg_name rg = name /\ rg_regtime rg = t /\
      (heighted = true -> rg_genesis rg = genesis /\ rg_type rg = type).
Proof.
  intros heighted s g h id o moniker name genesis type t I Hh Hin.
  destruct (reg_run heighted (s, g) h) as [s' g'] eqn:ER. split.
  - destruct (reg_run_ghost_grows _ _ _ _ _ _ id I Hh ER) as [_ [l Hl]].
    rewrite Hl. apply in_or_app; left; exact Hin.
  - exact (C09_metadata_run _ _ _ _ _ _ _ _ _ _ _ _ _ I Hh ER Hin).
Qed.
