(* Enterprise module (model/Enterprise.v): the inductive invariant [ent_inv], its preservation by
   every well-formed step, and the lemmas behind props/C03.v and props/C04.v.
   Self-contained w.r.t. the bank: the few bank facts needed are proved here. *)
From MC Require Import lib.Prelude lib.AMap model.Bank model.Enterprise model.EnterpriseSpec.
From Coq Require Import ZifyBool.
Ltac Zify.zify_post_hook ::= Z.div_mod_to_equations.
Local Open Scope Z_scope.

Ltac stu := unfold ST_NIL, ST_RAISED, ST_ACCEPTED, ST_REJECTED, ST_COMPLETED in *.
Ltac sproj :=
  cbn [e_params e_next e_pos e_raisedq e_acceptedq e_wl e_locked e_spent e_totlocked e_totspent
       with_pos with_books w_bank w_ent w_now] in *.

(* ================================================================= *)
(* bank facts                                                         *)
(* ================================================================= *)

Lemma balance_set_balance b a d v a' d' :
  balance (set_balance b a d v) a' d' = if (a' =? a) && (d' =? d) then v else balance b a' d'.
Proof.
  unfold balance, set_balance; cbn [bal].
  destruct ((a' =? a) && (d' =? d)) eqn:E.
  - assert (a' = a /\ d' = d) as [-> ->] by lia. rewrite aget_aset_eq. reflexivity.
  - rewrite aget_aset_neq; [reflexivity|]. intros [= -> ->]. rewrite !Z.eqb_refl in E. discriminate.
Qed.

Lemma balance_set_supply b d v a d' : balance (set_supply b d v) a d' = balance b a d'.
Proof. reflexivity. Qed.

Lemma supply_of_set_balance b a d v d' : supply_of (set_balance b a d v) d' = supply_of b d'.
Proof. reflexivity. Qed.

Lemma supply_of_set_supply b d v d' :
  supply_of (set_supply b d v) d' = if d' =? d then v else supply_of b d'.
Proof.
  unfold supply_of, set_supply; cbn [supply].
  destruct (d' =? d) eqn:E.
  - assert (d' = d) as -> by lia. rewrite aget_aset_eq. reflexivity.
  - rewrite aget_aset_neq; [reflexivity|lia].
Qed.

Lemma bank_send_spec b from to d amt b' :
  bank_send b from to d amt = Ok b' ->
  0 <= amt /\ amt <= balance b from d /\
  (forall a d', balance b' a d' =
     balance b a d' - (if (a =? from) && (d' =? d) then amt else 0)
                    + (if (a =? to) && (d' =? d) then amt else 0)) /\
  (forall d', supply_of b' d' = supply_of b d').
Proof.
  unfold bank_send. destruct (amt <? 0) eqn:E1; [discriminate|].
  destruct (balance b from d <? amt) eqn:E2; [discriminate|].
  intros [= <-]. split; [lia|]. split; [lia|]. split.
  - intros a d'. rewrite !balance_set_balance. rewrite (Z.eqb_refl d), andb_true_r.
    destruct (Z.eqb_spec d' d) as [->|Nd]; rewrite ?andb_true_r, ?andb_false_r; [|lia].
    destruct (Z.eqb_spec a from) as [Ea|Na]; destruct (Z.eqb_spec a to) as [Eb|Nb];
      destruct (Z.eqb_spec to from) as [Ec|Nc]; subst; try congruence; lia.
  - intros d'. reflexivity.
Qed.

Lemma bank_send_ok b from to d amt :
  0 <= amt -> amt <= balance b from d -> exists b', bank_send b from to d amt = Ok b'.
Proof.
  intros H1 H2. unfold bank_send. destruct (amt <? 0) eqn:E1; [lia|].
  destruct (balance b from d <? amt) eqn:E2; [lia|]. eauto.
Qed.

Lemma bank_send_zero b from to d b' :
  bank_send b from to d 0 = Ok b' ->
  (forall a d', balance b' a d' = balance b a d') /\ (forall d', supply_of b' d' = supply_of b d').
Proof.
  intros H. apply bank_send_spec in H as (_ & _ & Hb & Hs). split; [|exact Hs].
  intros a d'. rewrite Hb. destruct (_ && _); destruct (_ && _); lia.
Qed.

Lemma bank_mint_spec b macc d amt b' :
  bank_mint b macc d amt = Ok b' ->
  0 <= amt /\
  (forall a d', balance b' a d' = balance b a d' + (if (a =? macc) && (d' =? d) then amt else 0)) /\
  (forall d', supply_of b' d' = supply_of b d' + (if d' =? d then amt else 0)).
Proof.
  unfold bank_mint. destruct (amt <? 0) eqn:E; [discriminate|]. intros [= <-].
  split; [lia|]. split.
  - intros a d'. rewrite balance_set_supply, balance_set_balance.
    destruct ((a =? macc) && (d' =? d)) eqn:E2; [|lia].
    assert (a = macc /\ d' = d) as [-> ->] by lia. lia.
  - intros d'. rewrite supply_of_set_supply, !supply_of_set_balance.
    destruct (d' =? d) eqn:E2; [|lia]. assert (d' = d) as -> by lia. lia.
Qed.

Lemma bank_mint_ok b macc d amt : 0 <= amt -> exists b', bank_mint b macc d amt = Ok b'.
Proof. intros H. unfold bank_mint. destruct (amt <? 0) eqn:E; [lia|]. eauto. Qed.

Definition bank_nonneg (b : bank) : Prop := forall a d, 0 <= balance b a d.

Lemma bank_send_nonneg b from to d amt b' :
  bank_send b from to d amt = Ok b' -> bank_nonneg b -> bank_nonneg b'.
Proof.
  intros H N a d'. apply bank_send_spec in H as (H0 & H1 & Hb & _). rewrite Hb.
  specialize (N a d').
  destruct (Z.eqb_spec a from) as [Ea|]; destruct (Z.eqb_spec d' d) as [Ed|];
    destruct (a =? to); cbn [andb]; subst; try lia.
Qed.

Lemma bank_mint_nonneg b macc d amt b' :
  bank_mint b macc d amt = Ok b' -> bank_nonneg b -> bank_nonneg b'.
Proof.
  intros H N a d'. apply bank_mint_spec in H as (H0 & Hb & _). rewrite Hb.
  specialize (N a d'). destruct (_ && _); lia.
Qed.

Lemma blocked_neg a : blocked a = true -> a < 0.
Proof. unfold blocked. lia. Qed.

Lemma blocked_nonneg a : 0 <= a -> blocked a = false.
Proof. unfold blocked. intros H. destruct (a <? 0) eqn:E; [lia|reflexivity]. Qed.

Lemma blocked_ENT_MACC : blocked ENT_MACC = true.
Proof. reflexivity. Qed.

Lemma bank_send_m2a_to_escrow b x d amt : bank_send_m2a b x ENT_MACC d amt = Err ERR_UNAUTHORIZED.
Proof. reflexivity. Qed.

(* ================================================================= *)
(* small list / map facts                                             *)
(* ================================================================= *)

Lemma mem_addr_In a l : mem_addr a l = true <-> In a l.
Proof.
  unfold mem_addr. rewrite existsb_exists. split.
  - intros (x & I & E). assert (a = x) as -> by lia. exact I.
  - intros I. exists a. split; [exact I|lia].
Qed.

Lemma In_remove_z x y l : In x (remove_z y l) <-> In x l /\ x <> y.
Proof.
  unfold remove_z. rewrite filter_In. split; intros [A B]; split; auto; lia.
Qed.

Lemma NoDup_remove_z y l : NoDup l -> NoDup (remove_z y l).
Proof. unfold remove_z. apply NoDup_filter. Qed.

Lemma NoDup_snoc {A} (x : A) l : NoDup l -> ~ In x l -> NoDup (l ++ [x]).
Proof.
  intros ND NI. induction l as [|y l IH]; cbn.
  - constructor; [intros []|constructor].
  - inversion ND as [|? ? NI' ND']; subst. constructor.
    + rewrite in_app_iff; cbn. intros [X|[X|[]]]; [tauto|]. subst. apply NI. left; reflexivity.
    + apply IH; auto. intros X; apply NI; right; exact X.
Qed.

Lemma aget_Some_In_keys {V} (k : Z) (v : V) (m : amap Z V) : aget k m = Some v -> In k (akeys m).
Proof.
  intros G. apply aget_In in G. change k with (fst (k, v)). apply in_map. exact G.
Qed.

Lemma In_aget_NoDup {V} (k : Z) (v : V) (m : amap Z V) :
  NoDup (akeys m) -> In (k, v) m -> aget k m = Some v.
Proof.
  induction m as [|[k' v'] r IH]; cbn; [tauto|].
  intros ND. inversion ND as [|? ? NI ND']; subst.
  intros [E|I].
  - inversion E; subst. rewrite Z.eqb_refl. reflexivity.
  - destruct (Z.eqb_spec k k') as [->|N].
    + exfalso. apply NI. change k' with (fst (k', v)). apply in_map. exact I.
    + auto.
Qed.

Lemma asum_zero {V} (f : V -> Z) (m : amap Z V) :
  (forall k v, In (k, v) m -> f v = 0) -> asum f m = 0.
Proof.
  unfold asum. induction m as [|[k v] r IH]; cbn; [reflexivity|].
  intros H. rewrite IH; [|intros; eapply H; right; eauto].
  rewrite (H k v); [reflexivity|left; reflexivity].
Qed.

Lemma asum_nonneg_ge {V} (f : V -> Z) (m : amap Z V) k v :
  (forall k v, In (k, v) m -> 0 <= f v) -> aget k m = Some v -> f v <= asum f m.
Proof.
  unfold asum. induction m as [|[k' v'] r IH]; cbn; [discriminate|].
  intros H. assert (0 <= sumZ (map (fun kv => f (snd kv)) r)) as P.
  { clear -H. induction r as [|[k2 v2] r IH]; cbn; [lia|].
    assert (0 <= f v2) by (eapply H; right; left; reflexivity).
    assert (0 <= sumZ (map (fun kv => f (snd kv)) r)); [|lia].
    apply IH. intros k0 v0 [E|I]; eapply H; [left; exact E|right; right; exact I]. }
  destruct (k =? k') eqn:E.
  - intros [= ->]. lia.
  - intros G. assert (0 <= f v') by (eapply H; left; reflexivity).
    specialize (IH (fun k0 v0 I => H k0 v0 (or_intror I)) G). lia.
Qed.

(* ================================================================= *)
(* the invariant                                                      *)
(* ================================================================= *)

Definition dn (s : ent_state) : denom := ep_denom (e_params s).

Definition st_valid (st : Z) : Prop :=
  st = ST_RAISED \/ st = ST_ACCEPTED \/ st = ST_REJECTED \/ st = ST_COMPLETED.
Definition dec_valid (d : decision) : Prop :=
  d_decision d = ST_ACCEPTED \/ d_decision d = ST_REJECTED.

Record po_ok (nx d now id : Z) (o : po) : Prop := {
  pk_id : po_id o = id;
  pk_range : 1 <= id < nx;
  pk_amt : 0 < po_amount o;
  pk_denom : po_denom o = d;
  pk_purch : 0 <= po_purchaser o;
  pk_status : st_valid (po_status o);
  pk_time : 0 <= po_raise_time o <= now;
  pk_nodup : NoDup (map d_signer (po_decisions o));
  pk_decs : Forall dec_valid (po_decisions o)
}.

Definition coin_ok (d : denom) (c : coin) : Prop := fst c = d /\ 0 <= snd c.

(* the part that only talks about the module state ([now] = current block time) *)
Record sinv (now : Z) (s : ent_state) : Prop := {
  si_nd_pos : NoDup (akeys (e_pos s));
  si_nd_locked : NoDup (akeys (e_locked s));
  si_nd_spent : NoDup (akeys (e_spent s));
  si_nd_rq : NoDup (e_raisedq s);
  si_nd_aq : NoDup (e_acceptedq s);
  si_params : ent_params_valid (e_params s) = true;
  si_next : 1 <= e_next s;
  si_po : forall id o, aget id (e_pos s) = Some o -> po_ok (e_next s) (dn s) now id o;
  si_rq : forall id, In id (e_raisedq s) <-> status_of s id = ST_RAISED;
  si_aq : forall id, In id (e_acceptedq s) <-> status_of s id = ST_ACCEPTED;
  si_locked : forall a c, aget a (e_locked s) = Some c -> coin_ok (dn s) c;
  si_spent : forall a c, aget a (e_spent s) = Some c -> coin_ok (dn s) c;
  si_tl : coin_ok (dn s) (total_locked s);
  si_ts : coin_ok (dn s) (total_spent s);
  si_sum_l : snd (total_locked s) = asum snd (e_locked s);
  si_sum_s : snd (total_spent s) = asum snd (e_spent s);
  si_acct : forall a, amount_coin s a (e_locked s) + amount_coin s a (e_spent s) = completed_sum s a
}.

Record ent_inv (w : ent_world) : Prop := {
  inv_s : sinv (w_now w) (w_ent w);
  inv_now : 0 <= w_now w < two63;
  inv_escrow : balance (w_bank w) ENT_MACC (dn (w_ent w)) = snd (total_locked (w_ent w));
  inv_escrow0 : forall d, d <> dn (w_ent w) -> balance (w_bank w) ENT_MACC d = 0
}.

Lemma po_ok_mono nx d now now' id o : now <= now' -> po_ok nx d now id o -> po_ok nx d now' id o.
Proof. intros L []. constructor; auto. lia. Qed.

Lemma po_ok_next nx nx' d now id o : nx <= nx' -> po_ok nx d now id o -> po_ok nx' d now id o.
Proof. intros L []. constructor; auto. lia. Qed.

Lemma sinv_mono now now' s : now <= now' -> sinv now s -> sinv now' s.
Proof.
  intros L []. constructor; auto. intros id o G. eapply po_ok_mono; eauto.
Qed.

(* ---------- genesis ---------- *)

Lemma sinv_genesis p start wl t0 :
  ent_params_valid p = true -> 1 <= start -> sinv t0 (ent_genesis p start wl).
Proof.
  intros V S. unfold ent_genesis. constructor; sproj; cbn; try constructor; try lia; auto;
    try discriminate; try reflexivity.
Qed.

Lemma ent_inv_genesis b0 p start wl t0 :
  ent_params_valid p = true -> 1 <= start -> 0 <= t0 < two63 ->
  (forall d, balance b0 ENT_MACC d = 0) ->
  ent_inv {| w_bank := b0; w_ent := ent_genesis p start wl; w_now := t0 |}.
Proof.
  intros V S T B. constructor; sproj.
  - apply sinv_genesis; auto.
  - exact T.
  - rewrite B. reflexivity.
  - intros d _. apply B.
Qed.

(* ================================================================= *)
(* reading the order table after one write                            *)
(* ================================================================= *)

Lemma aget_aset_Z {V} (k k' : Z) (v : V) (m : amap Z V) :
  aget k' (aset k v m) = if k' =? k then Some v else aget k' m.
Proof.
  destruct (Z.eqb_spec k' k) as [->|N]; [apply aget_aset_eq | apply aget_aset_neq; congruence].
Qed.

Lemma status_of_aset s s' id o id' :
  e_pos s' = aset id o (e_pos s) ->
  status_of s' id' = if id' =? id then po_status o else status_of s id'.
Proof.
  intros E. unfold status_of. rewrite E, aget_aset_Z. destruct (id' =? id); reflexivity.
Qed.

Definition csum_f (a : addr) (o : po) : Z :=
  if (po_status o =? ST_COMPLETED) && (po_purchaser o =? a) then po_amount o else 0.

Lemma completed_sum_aset s s' id o a :
  e_pos s' = aset id o (e_pos s) ->
  completed_sum s' a =
  completed_sum s a - match aget id (e_pos s) with Some o0 => csum_f a o0 | None => 0 end + csum_f a o.
Proof.
  intros E. unfold completed_sum. rewrite E, asum_aset. reflexivity.
Qed.

Lemma completed_sum_same_pos s s' a : e_pos s' = e_pos s -> completed_sum s' a = completed_sum s a.
Proof. intros E. unfold completed_sum. rewrite E. reflexivity. Qed.

Lemma status_of_same_pos s s' id : e_pos s' = e_pos s -> status_of s' id = status_of s id.
Proof. intros E. unfold status_of. rewrite E. reflexivity. Qed.

Lemma fresh_next now s : sinv now s -> aget (e_next s) (e_pos s) = None.
Proof.
  intros I. destruct (aget (e_next s) (e_pos s)) as [o|] eqn:G; [|reflexivity].
  apply (si_po _ _ I) in G. destruct G. lia.
Qed.

Lemma status_raised_Some s id : status_of s id = ST_RAISED ->
  exists o, aget id (e_pos s) = Some o /\ po_status o = ST_RAISED.
Proof.
  unfold status_of. destruct (aget id (e_pos s)) as [o|]; [eauto|]. stu. discriminate.
Qed.

Lemma status_accepted_Some s id : status_of s id = ST_ACCEPTED ->
  exists o, aget id (e_pos s) = Some o /\ po_status o = ST_ACCEPTED.
Proof.
  unfold status_of. destruct (aget id (e_pos s)) as [o|]; [eauto|]. stu. discriminate.
Qed.

(* ================================================================= *)
(* messages                                                           *)
(* ================================================================= *)

Lemma exec_raise_inv now s p d amt s' r :
  ent_exec now s (ERaise p d amt) = Ok (s', r) ->
  d = dn s /\ 0 < amt /\ mem_addr p (e_wl s) = true /\ r = e_next s /\
  s' = {| e_params := e_params s; e_next := e_next s + 1;
          e_pos := aset (e_next s)
                     {| po_id := e_next s; po_purchaser := p; po_denom := d; po_amount := amt;
                        po_status := ST_RAISED; po_raise_time := now; po_completion_time := 0;
                        po_decisions := [] |} (e_pos s);
          e_raisedq := e_raisedq s ++ [e_next s]; e_acceptedq := e_acceptedq s; e_wl := e_wl s;
          e_locked := e_locked s; e_spent := e_spent s;
          e_totlocked := e_totlocked s; e_totspent := e_totspent s |}.
Proof.
  cbn [ent_exec]. unfold dn.
  destruct (d =? ep_denom (e_params s)) eqn:E1; cbn [negb]; [|discriminate].
  destruct (amt <=? 0) eqn:E2; [discriminate|].
  destruct (mem_addr p (e_wl s)) eqn:E3; cbn [negb]; [|discriminate].
  intros [= <- <-]. repeat split; try lia.
Qed.

Lemma sinv_raise now s p d amt s' r :
  sinv now s -> 0 <= p -> 0 <= now ->
  ent_exec now s (ERaise p d amt) = Ok (s', r) -> sinv now s'.
Proof.
  intros I Hp Hn H. apply exec_raise_inv in H as (Ed & Ha & Hw & -> & ->).
  pose proof (fresh_next _ _ I) as F.
  assert (SN : status_of s (e_next s) = ST_NIL) by (unfold status_of; rewrite F; reflexivity).
  destruct I. constructor; sproj; auto.
  - apply NoDup_akeys_aset; auto.
  - apply NoDup_snoc; auto. rewrite si_rq0, SN. stu. discriminate.
  - lia.
  - intros id o. rewrite aget_aset_Z. destruct (Z.eqb_spec id (e_next s)) as [->|N].
    + intros [= <-]. constructor; cbn; try lia; auto.
      * unfold st_valid; auto.
      * constructor.
    + intros G. eapply po_ok_next; [|apply si_po0; exact G]. lia.
  - intros id. rewrite in_app_iff. erewrite status_of_aset by reflexivity. cbn [po_status In].
    destruct (Z.eqb_spec id (e_next s)) as [->|N].
    + tauto.
    + rewrite si_rq0. split; [intros [X|[X|[]]]; [exact X|congruence] | auto].
  - intros id. erewrite status_of_aset by reflexivity. cbn [po_status].
    destruct (Z.eqb_spec id (e_next s)) as [->|N].
    + rewrite si_aq0, SN. stu. split; discriminate.
    + apply si_aq0.
  - intros a. erewrite completed_sum_aset by reflexivity. sproj. rewrite F.
    unfold csum_f; cbn. specialize (si_acct0 a). unfold amount_coin in *. lia.
Qed.

Definition add_decision (o : po) (sg dec now : Z) : po :=
  {| po_id := po_id o; po_purchaser := po_purchaser o; po_denom := po_denom o;
     po_amount := po_amount o; po_status := po_status o; po_raise_time := po_raise_time o;
     po_completion_time := po_completion_time o;
     po_decisions := po_decisions o ++ [{| d_signer := sg; d_decision := dec; d_time := now |}] |}.

Lemma existsb_signer_false sg ds :
  existsb (fun d => d_signer d =? sg) ds = false -> ~ In sg (map d_signer ds).
Proof.
  intros E I. apply in_map_iff in I as (d & Ed & Id).
  assert (existsb (fun d => d_signer d =? sg) ds = true); [|congruence].
  apply existsb_exists. exists d. split; [exact Id|lia].
Qed.

Lemma exec_decide_inv now s sg poid dec s' r :
  ent_exec now s (EDecide sg poid dec) = Ok (s', r) ->
  is_signer s sg = true /\ (dec = ST_ACCEPTED \/ dec = ST_REJECTED) /\ r = 0 /\
  exists o, aget poid (e_pos s) = Some o /\ po_status o = ST_RAISED /\
            ~ In sg (map d_signer (po_decisions o)) /\
            s' = with_pos s (aset poid (add_decision o sg dec now) (e_pos s)) (e_raisedq s) (e_acceptedq s).
Proof.
  cbn [ent_exec].
  destruct (is_signer s sg) eqn:E1; cbn [negb]; [|discriminate].
  destruct (aget poid (e_pos s)) as [o|] eqn:G; [|discriminate].
  destruct ((dec =? ST_ACCEPTED) || (dec =? ST_REJECTED)) eqn:E2; cbn [negb]; [|discriminate].
  destruct (po_status o =? ST_NIL) eqn:E3; [discriminate|].
  destruct (po_status o =? ST_RAISED) eqn:E4; cbn [negb]; [|discriminate].
  destruct (existsb (fun d => d_signer d =? sg) (po_decisions o)) eqn:E5; [discriminate|].
  intros [= <- <-]. split; [reflexivity|]. split; [lia|]. split; [reflexivity|].
  exists o. split; [reflexivity|]. split; [lia|]. split; [apply existsb_signer_false; exact E5|].
  reflexivity.
Qed.

(* replacing an order by one with the same status / purchaser / amount *)
Lemma sinv_replace_same now s id o o' :
  sinv now s -> aget id (e_pos s) = Some o ->
  po_ok (e_next s) (dn s) now id o' ->
  po_status o' = po_status o -> po_purchaser o' = po_purchaser o -> po_amount o' = po_amount o ->
  sinv now (with_pos s (aset id o' (e_pos s)) (e_raisedq s) (e_acceptedq s)).
Proof.
  intros I G K Es Ep Ea.
  assert (SS : forall id', status_of (with_pos s (aset id o' (e_pos s)) (e_raisedq s) (e_acceptedq s)) id'
                           = status_of s id').
  { intros id'. erewrite status_of_aset by reflexivity.
    destruct (Z.eqb_spec id' id) as [->|N]; [|reflexivity].
    unfold status_of. rewrite G. exact Es. }
  destruct I. constructor; sproj; auto.
  - apply NoDup_akeys_aset; auto.
  - intros id' o2. rewrite aget_aset_Z. destruct (Z.eqb_spec id' id) as [->|N].
    + intros [= <-]. exact K.
    + apply si_po0.
  - intros id'. rewrite SS. apply si_rq0.
  - intros id'. rewrite SS. apply si_aq0.
  - intros a. erewrite completed_sum_aset by reflexivity. sproj. rewrite G.
    unfold csum_f. rewrite Es, Ep, Ea. specialize (si_acct0 a). unfold amount_coin in *. lia.
Qed.

Lemma sinv_decide now s sg poid dec s' r :
  sinv now s -> ent_exec now s (EDecide sg poid dec) = Ok (s', r) -> sinv now s'.
Proof.
  intros I H. apply exec_decide_inv in H as (_ & Hd & _ & o & G & St & NI & ->).
  eapply sinv_replace_same; eauto; try reflexivity.
  pose proof (si_po _ _ I _ _ G) as []. constructor; cbn; auto.
  - rewrite map_app. cbn. apply NoDup_snoc; auto.
  - apply Forall_app. split; [auto|]. constructor; [exact Hd|constructor].
Qed.

Lemma exec_whitelist_inv now s sg t act s' r :
  ent_exec now s (EWhitelist sg t act) = Ok (s', r) ->
  is_signer s sg = true /\ r = 0 /\
  exists wl', s' = {| e_params := e_params s; e_next := e_next s; e_pos := e_pos s;
                      e_raisedq := e_raisedq s; e_acceptedq := e_acceptedq s; e_wl := wl';
                      e_locked := e_locked s; e_spent := e_spent s;
                      e_totlocked := e_totlocked s; e_totspent := e_totspent s |}.
Proof.
  cbn [ent_exec].
  destruct (is_signer s sg) eqn:E1; cbn [negb]; [|discriminate].
  destruct ((act =? 1) || (act =? 2)) eqn:E2; cbn [negb]; [|discriminate].
  destruct (act =? 1) eqn:E3; destruct (mem_addr t (e_wl s)) eqn:E4; try discriminate;
    intros [= <- <-]; (split; [reflexivity|]); (split; [reflexivity|]); eauto.
Qed.

(* changing only the whitelist (or nothing the invariant reads) *)
Lemma sinv_same_but_wl now s wl' :
  sinv now s ->
  sinv now {| e_params := e_params s; e_next := e_next s; e_pos := e_pos s;
              e_raisedq := e_raisedq s; e_acceptedq := e_acceptedq s; e_wl := wl';
              e_locked := e_locked s; e_spent := e_spent s;
              e_totlocked := e_totlocked s; e_totspent := e_totspent s |}.
Proof. intros []. constructor; sproj; auto. Qed.

Lemma sinv_exec now s m s' r :
  sinv now s -> 0 <= ent_signer m -> 0 <= now -> ent_exec now s m = Ok (s', r) -> sinv now s'.
Proof.
  intros I Hs Hn H. destruct m as [p d amt|sg poid dec|sg t act]; cbn [ent_signer] in Hs.
  - exact (sinv_raise _ _ _ _ _ _ _ I Hs Hn H).
  - eapply sinv_decide; eauto.
  - apply exec_whitelist_inv in H as (_ & _ & wl' & ->). apply sinv_same_but_wl; auto.
Qed.

(* what a message can change outside the order table *)
Lemma exec_frame now s m s' r :
  ent_exec now s m = Ok (s', r) ->
  e_params s' = e_params s /\ e_locked s' = e_locked s /\ e_spent s' = e_spent s /\
  e_totlocked s' = e_totlocked s /\ e_totspent s' = e_totspent s /\ e_acceptedq s' = e_acceptedq s.
Proof.
  intros H. destruct m as [p d amt|sg poid dec|sg t act].
  - apply exec_raise_inv in H as (_ & _ & _ & _ & ->). cbn. repeat split.
  - apply exec_decide_inv in H as (_ & _ & _ & o & _ & _ & _ & ->). cbn. repeat split.
  - apply exec_whitelist_inv in H as (_ & _ & wl' & ->). cbn. repeat split.
Qed.

Lemma total_locked_frame s s' :
  e_params s' = e_params s -> e_totlocked s' = e_totlocked s -> total_locked s' = total_locked s.
Proof. intros E1 E2. unfold total_locked. rewrite E1, E2. reflexivity. Qed.

Lemma ent_inv_msg w m w' :
  ent_inv w -> ent_op_wf w (OMsg m) -> ent_step w (OMsg m) = Some w' -> ent_inv w'.
Proof.
  intros I [Hs _] H. cbn [ent_step] in H.
  destruct (ent_validate_basic m); [|injection H as <-; exact I..].
  destruct (ent_exec (w_now w) (w_ent w) m) as [[s' r]| |] eqn:E; injection H as <-; try exact I.
  pose proof (exec_frame _ _ _ _ _ E) as (Ep & _ & _ & Etl & _).
  destruct I as [Is In Ie Ie0]. constructor; sproj; auto.
  - eapply sinv_exec; eauto. lia.
  - unfold dn. rewrite Ep, (total_locked_frame _ _ Ep Etl). exact Ie.
  - unfold dn. rewrite Ep. exact Ie0.
Qed.

(* ================================================================= *)
(* parameter change                                                   *)
(* ================================================================= *)

Definition set_params_state (s : ent_state) (p : ent_params) : ent_state :=
  {| e_params := p; e_next := e_next s; e_pos := e_pos s; e_raisedq := e_raisedq s;
     e_acceptedq := e_acceptedq s; e_wl := e_wl s; e_locked := e_locked s; e_spent := e_spent s;
     e_totlocked := e_totlocked s; e_totspent := e_totspent s |}.

Lemma set_params_inv s p s' :
  ent_set_params s p = Ok s' -> ent_params_valid p = true /\ s' = set_params_state s p.
Proof.
  unfold ent_set_params. destruct (ent_params_valid p); [|discriminate].
  intros [= <-]. split; reflexivity.
Qed.

Lemma sinv_set_params now s p :
  sinv now s -> ent_params_valid p = true -> ep_denom p = dn s -> sinv now (set_params_state s p).
Proof.
  intros I V D.
  assert (Dn : dn (set_params_state s p) = dn s) by exact D.
  assert (TL : total_locked (set_params_state s p) = total_locked s).
  { unfold total_locked; cbn. rewrite D. reflexivity. }
  assert (TS : total_spent (set_params_state s p) = total_spent s).
  { unfold total_spent; cbn. rewrite D. reflexivity. }
  destruct I. constructor; rewrite ?Dn, ?TL, ?TS; sproj; auto.
Qed.

Lemma ent_inv_set_params w p w' :
  ent_inv w -> ent_op_wf w (OSetParams p) -> ent_step w (OSetParams p) = Some w' -> ent_inv w'.
Proof.
  intros I D H. cbn [ent_step ent_op_wf] in *.
  destruct (ent_set_params (w_ent w) p) as [s'| |] eqn:E; injection H as <-; try exact I.
  apply set_params_inv in E as (V & ->).
  destruct I as [Is In Ie Ie0]. constructor; sproj; auto.
  - apply sinv_set_params; auto.
  - replace (dn (set_params_state (w_ent w) p)) with (dn (w_ent w)) by (symmetry; exact D).
    replace (total_locked (set_params_state (w_ent w) p)) with (total_locked (w_ent w)); [exact Ie|].
    unfold total_locked; cbn. rewrite D. reflexivity.
  - intros d. replace (dn (set_params_state (w_ent w) p)) with (dn (w_ent w)) by (symmetry; exact D).
    apply Ie0.
Qed.

(* ================================================================= *)
(* the locked / spent books                                           *)
(* ================================================================= *)

Lemma locked_coin_ok now s a : sinv now s -> coin_ok (dn s) (locked_coin s a).
Proof.
  intros I. unfold locked_coin. destruct (aget a (e_locked s)) as [c|] eqn:G.
  - eapply si_locked; eauto.
  - split; cbn; [reflexivity|lia].
Qed.

Lemma spent_coin_ok now s a : sinv now s -> coin_ok (dn s) (spent_coin s a).
Proof.
  intros I. unfold spent_coin. destruct (aget a (e_spent s)) as [c|] eqn:G.
  - eapply si_spent; eauto.
  - split; cbn; [reflexivity|lia].
Qed.

Lemma snd_locked_coin s a : snd (locked_coin s a) = amount_coin s a (e_locked s).
Proof. unfold locked_coin, amount_coin. destruct (aget a (e_locked s)); reflexivity. Qed.

Lemma snd_spent_coin s a : snd (spent_coin s a) = amount_coin s a (e_spent s).
Proof. unfold spent_coin, amount_coin. destruct (aget a (e_spent s)); reflexivity. Qed.

Lemma locked_le_total now s a : sinv now s -> snd (locked_coin s a) <= snd (total_locked s).
Proof.
  intros I. rewrite (si_sum_l _ _ I). unfold locked_coin.
  destruct (aget a (e_locked s)) as [c|] eqn:G.
  - apply (asum_nonneg_ge snd (e_locked s) a c); [|exact G].
    intros k v In. apply (In_aget_NoDup _ _ _ (si_nd_locked _ _ I)) in In.
    apply (si_locked _ _ I) in In. apply In.
  - cbn. rewrite <- (si_sum_l _ _ I). apply (si_tl _ _ I).
Qed.

Lemma increment_locked_spec s a u :
  fst (locked_coin s a) = dn s -> fst (total_locked s) = dn s -> 0 <= snd (locked_coin s a) + u ->
  increment_locked s a (dn s, u) =
  Ok (with_books s (aset a (dn s, snd (locked_coin s a) + u) (e_locked s)) (e_spent s)
                   (Some (dn s, snd (total_locked s) + u)) (e_totspent s)).
Proof.
  intros E1 E2 P. unfold increment_locked, coin_add. cbn [fst snd].
  rewrite E1, E2, Z.eqb_refl. cbn [obind snd].
  destruct (snd (locked_coin s a) + u <? 0) eqn:E; [lia|]. reflexivity.
Qed.

Lemma decrement_locked_spec s a u :
  fst (locked_coin s a) = dn s -> fst (total_locked s) = dn s ->
  u <= snd (locked_coin s a) -> u <= snd (total_locked s) ->
  decrement_locked s a (dn s, u) =
  Ok (with_books s (aset a (dn s, snd (locked_coin s a) - u) (e_locked s)) (e_spent s)
                   (Some (dn s, snd (total_locked s) - u)) (e_totspent s)).
Proof.
  intros E1 E2 P1 P2. unfold decrement_locked, safesub_neg. cbn [fst snd].
  rewrite E1, E2, Z.eqb_refl.
  destruct (snd (locked_coin s a) <? u) eqn:X1; [lia|].
  destruct (snd (total_locked s) <? u) eqn:X2; [lia|]. reflexivity.
Qed.

Lemma increment_spent_spec s a u :
  fst (spent_coin s a) = dn s -> fst (total_spent s) = dn s ->
  increment_spent s a (dn s, u) =
  Ok (with_books s (e_locked s) (aset a (dn s, snd (spent_coin s a) + u) (e_spent s))
                   (e_totlocked s) (Some (dn s, snd (total_spent s) + u))).
Proof.
  intros E1 E2. unfold increment_spent, coin_add. cbn [fst snd].
  rewrite E1, E2, Z.eqb_refl. reflexivity.
Qed.

Lemma asum_snd_aset s (m : amap addr coin) a c :
  asum snd (aset a c m) = asum snd m - amount_coin s a m + snd c.
Proof. unfold amount_coin. rewrite asum_aset. reflexivity. Qed.

Lemma amount_coin_aset s s' a' a c (m : amap addr coin) :
  amount_coin s' a' (aset a c m) = if a' =? a then snd c else amount_coin s a' m.
Proof. unfold amount_coin. rewrite aget_aset_Z. destruct (a' =? a); reflexivity. Qed.

(* the state after unlocking [u] for [a] *)
Definition unlock_state (s : ent_state) (a : addr) (u : Z) : ent_state :=
  {| e_params := e_params s; e_next := e_next s; e_pos := e_pos s; e_raisedq := e_raisedq s;
     e_acceptedq := e_acceptedq s; e_wl := e_wl s;
     e_locked := aset a (dn s, snd (locked_coin s a) - u) (e_locked s);
     e_spent := aset a (dn s, snd (spent_coin s a) + u) (e_spent s);
     e_totlocked := Some (dn s, snd (total_locked s) - u);
     e_totspent := Some (dn s, snd (total_spent s) + u) |}.

Lemma dec_inc_spec now s a u :
  sinv now s -> u <= snd (locked_coin s a) ->
  (do s1 <- decrement_locked s a (dn s, u); increment_spent s1 a (dn s, u)) = Ok (unlock_state s a u).
Proof.
  intros I P.
  pose proof (locked_coin_ok _ _ a I) as [L1 L2]. pose proof (spent_coin_ok _ _ a I) as [S1 S2].
  pose proof (si_tl _ _ I) as [T1 T2]. pose proof (si_ts _ _ I) as [U1 U2].
  pose proof (locked_le_total _ _ a I) as LT.
  rewrite decrement_locked_spec by (auto; lia). cbn [obind].
  match goal with |- increment_spent ?s1 _ _ = _ => exact (increment_spent_spec s1 a u S1 U1) end.
Qed.

Lemma sinv_unlock_state now s a u :
  sinv now s -> 0 <= u <= snd (locked_coin s a) -> sinv now (unlock_state s a u).
Proof.
  intros I P.
  pose proof (locked_coin_ok _ _ a I) as [L1 L2]. pose proof (spent_coin_ok _ _ a I) as [S1 S2].
  pose proof (si_tl _ _ I) as [T1 T2]. pose proof (si_ts _ _ I) as [U1 U2].
  pose proof (locked_le_total _ _ a I) as LT.
  pose proof (snd_locked_coin s a) as SL. pose proof (snd_spent_coin s a) as SS.
  assert (Dn : dn (unlock_state s a u) = dn s) by reflexivity.
  destruct I. constructor; rewrite ?Dn; unfold unlock_state; sproj; auto.
  - apply NoDup_akeys_aset; auto.
  - apply NoDup_akeys_aset; auto.
  - intros a' c. rewrite aget_aset_Z. destruct (a' =? a).
    + intros [= <-]. split; cbn; [reflexivity|lia].
    + apply si_locked0.
  - intros a' c. rewrite aget_aset_Z. destruct (a' =? a).
    + intros [= <-]. split; cbn; [reflexivity|lia].
    + apply si_spent0.
  - split; cbn; [reflexivity|lia].
  - split; cbn; [reflexivity|lia].
  - unfold total_locked at 1; cbn [e_totlocked snd]. rewrite (asum_snd_aset s). cbn [snd]. lia.
  - unfold total_spent at 1; cbn [e_totspent snd]. rewrite (asum_snd_aset s). cbn [snd]. lia.
  - intros a'. unfold completed_sum; sproj. fold (completed_sum s a').
    rewrite <- si_acct0. unfold amount_coin in *. rewrite !aget_aset_Z.
    destruct (a' =? a) eqn:E; [|reflexivity]. assert (a' = a) as -> by lia. cbn [snd]. lia.
Qed.

Definition dec_state (s : ent_state) (a : addr) (u : Z) : ent_state :=
  with_books s (aset a (dn s, snd (locked_coin s a) - u) (e_locked s)) (e_spent s)
             (Some (dn s, snd (total_locked s) - u)) (e_totspent s).

Lemma dec_spec now s a u :
  sinv now s -> u <= snd (locked_coin s a) ->
  decrement_locked s a (dn s, u) = Ok (dec_state s a u).
Proof.
  intros I P.
  pose proof (locked_coin_ok _ _ a I) as [L1 L2]. pose proof (si_tl _ _ I) as [T1 T2].
  pose proof (locked_le_total _ _ a I) as LT.
  apply decrement_locked_spec; auto; lia.
Qed.

Lemma inc_spec now s a u :
  sinv now s -> increment_spent (dec_state s a u) a (dn s, u) = Ok (unlock_state s a u).
Proof.
  intros I.
  pose proof (spent_coin_ok _ _ a I) as [S1 S2]. pose proof (si_ts _ _ I) as [U1 U2].
  exact (increment_spent_spec (dec_state s a u) a u S1 U1).
Qed.

(* ================================================================= *)
(* fee unlocking                                                      *)
(* ================================================================= *)

Lemma fee_amount_notin fee d : ~ In d (map fst fee) -> fee_amount_of fee d = 0.
Proof.
  unfold fee_amount_of. induction fee as [|c r IH]; cbn; [reflexivity|].
  intros N. destruct (_ =? d) eqn:E.
  - exfalso. apply N. left. apply Z.eqb_eq in E. exact E.
  - rewrite IH; [reflexivity|tauto].
Qed.

Lemma fee_find_amount fee d c :
  NoDup (map fst fee) -> fee_find fee d = Some c ->
  fst c = d /\ fee_amount_of fee d = snd c /\ In c fee.
Proof.
  unfold fee_find. induction fee as [|c0 r IH]; cbn; [discriminate|].
  intros ND. inversion ND as [|? ? NI ND']; subst.
  unfold fee_amount_of; cbn. fold (fee_amount_of r d).
  destruct (_ =? d) eqn:E.
  - apply Z.eqb_eq in E. intros [= <-].
    rewrite fee_amount_notin by (rewrite <- E; exact NI). split; [exact E|]. split; [apply Z.add_0_r|]. left; reflexivity.
  - intros F. destruct (IH ND' F) as (A & B & C). repeat split; auto.
Qed.

Lemma fee_find_none_amount fee d : fee_find fee d = None -> fee_amount_of fee d = 0.
Proof.
  unfold fee_find, fee_amount_of, coin, denom in *. induction fee as [|c0 r IH]; cbn; [reflexivity|].
  destruct (fst c0 =? d); [discriminate|]. intros F. rewrite IH; auto.
Qed.

Lemma undelegate_all_only_d b a cs d b1 :
  (forall d', d' <> d -> balance b ENT_MACC d' = 0) -> Forall (fun c => 0 < snd c) cs ->
  undelegate_all b a cs = Ok b1 -> Forall (fun c => fst c = d) cs.
Proof.
  revert b. induction cs as [|c r IH]; intros b Z0 P U; [constructor|].
  inversion P as [|? ? Pc Pr]; subst. cbn [undelegate_all] in U.
  destruct (bank_send b ENT_MACC a (fst c) (snd c)) as [b2| |] eqn:S; cbn [obind] in U; try discriminate.
  apply bank_send_spec in S as (S0 & S1 & Sb & _).
  assert (E : fst c = d).
  { destruct (Z.eq_dec (fst c) d) as [E|N]; [exact E|]. rewrite (Z0 _ N) in S1. lia. }
  constructor; [exact E|]. apply (IH b2); auto.
  intros d' N. rewrite Sb, (Z0 _ N). rewrite E.
  destruct (Z.eqb_spec d' d); [contradiction|]. rewrite !andb_false_r. lia.
Qed.

Lemma single_denom_fee fee d c :
  Forall (fun c => fst c = d) fee -> NoDup (map fst fee) -> fee_find fee d = Some c -> fee = [c].
Proof.
  intros F ND Fi. destruct fee as [|c0 [|c1 r]]; cbn in *.
  - discriminate.
  - inversion F; subst. unfold fee_find in Fi; cbn in Fi. rewrite Z.eqb_refl in Fi. injection Fi as ->. reflexivity.
  - exfalso. inversion F as [|? ? E0 F']; subst. inversion F' as [|? ? E1 _]; subst.
    inversion ND as [|? ? NI _]; subst. apply NI. left. congruence.
Qed.

Lemma pair_eta {A B} (p : A * B) a : fst p = a -> p = (a, snd p).
Proof. destruct p; cbn; congruence. Qed.

Lemma unlock_ok_inv now b s payer fee b' s' :
  sinv now s ->
  (forall d, d <> dn s -> balance b ENT_MACC d = 0) ->
  Forall (fun c => 0 < snd c) fee -> NoDup (map fst fee) ->
  unlock_for_fees b s payer fee = Ok (b', s') ->
  let L := snd (locked_coin s payer) in
  let f := fee_amount_of fee (dn s) in
  fee_find fee (dn s) <> None /\
  ( (f <= L /\ fee = [(dn s, f)] /\
     bank_send b ENT_MACC payer (dn s) f = Ok b' /\ s' = unlock_state s payer f)
  \/ (L < f <= balance b payer (dn s) + L /\
     bank_send b ENT_MACC payer (dn s) L = Ok b' /\ s' = unlock_state s payer L)
  \/ (L < f /\ balance b payer (dn s) + L < f /\ b' = b /\ s' = s)).
Proof.
  intros I Z0 P ND H. cbv zeta.
  unfold unlock_for_fees in H. cbv zeta in H. change (ep_denom (e_params s)) with (dn s) in H.
  destruct (fee_find fee (dn s)) as [c|] eqn:Fi; [|discriminate].
  split; [discriminate|].
  destruct (fee_find_amount _ _ _ ND Fi) as (Ec & Ef & Ic).
  pose proof (locked_coin_ok _ _ payer I) as [L1 L2].
  unfold safesub_neg in H. rewrite L1, Ec, Z.eqb_refl in H.
  rewrite (pair_eta _ _ L1) in H. cbn [fst snd] in H.
  set (L := snd (locked_coin s payer)) in *. rewrite <- Ef in H.
  set (f := fee_amount_of fee (dn s)) in *.
  destruct (L <? f) eqn:C1; cbn [negb] in H.
  - (* second branch *)
    destruct (balance b payer (dn s) + L <? f) eqn:C2; cbn [negb] in H.
    + injection H as <- <-. right; right. repeat split; lia.
    + destruct (bank_send b ENT_MACC payer (dn s) L) as [b1| |] eqn:S; cbn [obind] in H; try discriminate.
      unfold L in H at 1. rewrite (dec_spec now) in H by (auto; lia). cbn [obind] in H.
      rewrite (inc_spec now) in H by auto. cbn [obind] in H. injection H as <- <-.
      right; left. repeat split; auto; lia.
  - (* first branch *)
    destruct (undelegate_all b payer fee) as [b1| |] eqn:U; cbn [obind] in H; try discriminate.
    rewrite (dec_spec now) in H by (auto; lia). cbn [obind] in H.
    rewrite (inc_spec now) in H by auto. cbn [obind] in H. injection H as <- <-.
    pose proof (undelegate_all_only_d _ _ _ _ _ Z0 P U) as F.
    pose proof (single_denom_fee _ _ _ F ND Fi) as Efee.
    left. split; [lia|]. split; [rewrite Efee, (pair_eta _ _ Ec), Ef; reflexivity|].
    split; [|reflexivity].
    rewrite Efee in U. cbn [undelegate_all] in U. rewrite Ec, <- Ef in U.
    destruct (bank_send b ENT_MACC payer (dn s) f); cbn [obind] in U; congruence.
Qed.

Lemma ent_inv_unlock_u w payer u b' :
  ent_inv w -> 0 <= payer -> u <= snd (locked_coin (w_ent w) payer) ->
  bank_send (w_bank w) ENT_MACC payer (dn (w_ent w)) u = Ok b' ->
  ent_inv {| w_bank := b'; w_ent := unlock_state (w_ent w) payer u; w_now := w_now w |}.
Proof.
  intros [Is In Ie Ie0] Hp Hu S. apply bank_send_spec in S as (S0 & S1 & Sb & _).
  constructor; sproj; auto.
  - apply sinv_unlock_state; auto.
  - change (dn (unlock_state (w_ent w) payer u)) with (dn (w_ent w)).
    unfold total_locked at 1; cbn [unlock_state e_totlocked snd].
    rewrite Sb, Ie. unfold ENT_MACC in *. rewrite !Z.eqb_refl.
    destruct (Z.eqb_spec (-1) payer); [lia|]. cbn [andb]. lia.
  - intros d N. change (dn (unlock_state (w_ent w) payer u)) with (dn (w_ent w)) in N.
    rewrite Sb, (Ie0 _ N). destruct (Z.eqb_spec d (dn (w_ent w))); [contradiction|].
    rewrite !andb_false_r. lia.
Qed.

Lemma ent_inv_unlock w payer fee w' :
  ent_inv w -> ent_op_wf w (OUnlock payer fee) -> ent_step w (OUnlock payer fee) = Some w' -> ent_inv w'.
Proof.
  intros I (Hp & P & ND) H. cbn [ent_step] in H.
  destruct (unlock_for_fees (w_bank w) (w_ent w) payer fee) as [[b' s']| |] eqn:E;
    injection H as <-; try exact I.
  eapply unlock_ok_inv in E; eauto using inv_s, inv_escrow0.
  destruct E as (_ & [(C1 & _ & S & ->)|[(C1 & S & ->)|(_ & _ & -> & ->)]]).
  - apply ent_inv_unlock_u; auto.
  - apply ent_inv_unlock_u; auto. lia.
  - destruct w; exact I.
Qed.

(* ================================================================= *)
(* BeginBlock, part 1: completing accepted orders                     *)
(* ================================================================= *)

Definition binv (b : bank) (s : ent_state) : Prop :=
  balance b ENT_MACC (dn s) = snd (total_locked s) /\
  (forall d, d <> dn s -> balance b ENT_MACC d = 0).

Definition minted (b b' : bank) (d : denom) (amt : Z) : Prop :=
  (forall a d', balance b' a d' = balance b a d' + (if (a =? ENT_MACC) && (d' =? d) then amt else 0)) /\
  (forall d', supply_of b' d' = supply_of b d' + (if d' =? d then amt else 0)).

Definition lock_state (s : ent_state) (a : addr) (amt : Z) : ent_state :=
  with_books s (aset a (dn s, snd (locked_coin s a) + amt) (e_locked s)) (e_spent s)
             (Some (dn s, snd (total_locked s) + amt)) (e_totspent s).

Lemma mint_and_lock_inv b s a amt b' s' :
  0 < amt -> 0 <= a -> coin_ok (dn s) (locked_coin s a) -> coin_ok (dn s) (total_locked s) ->
  mint_and_lock b s a (dn s, amt) = Ok (b', s') ->
  s' = lock_state s a amt /\ minted b b' (dn s) amt.
Proof.
  intros Pa Ha [L1 L2] [T1 T2]. unfold mint_and_lock. cbn [fst snd].
  destruct (amt =? 0) eqn:E0; [lia|].
  destruct (bank_mint b ENT_MACC (dn s) amt) as [b1| |] eqn:M; cbn [obind]; try discriminate.
  unfold bank_send_m2a. rewrite (blocked_nonneg a Ha).
  destruct (bank_send b1 ENT_MACC a (dn s) amt) as [b2| |] eqn:S1; cbn [obind]; try discriminate.
  destruct (bank_send b2 a ENT_MACC (dn s) amt) as [b3| |] eqn:S2; cbn [obind]; try discriminate.
  rewrite increment_locked_spec by (auto; lia). cbn [obind]. intros [= <- <-].
  split; [reflexivity|].
  apply bank_mint_spec in M as (_ & Mb & Ms).
  apply bank_send_spec in S1 as (_ & _ & Sb1 & Ss1).
  apply bank_send_spec in S2 as (_ & _ & Sb2 & Ss2).
  split.
  - intros a' d'. rewrite Sb2, Sb1, Mb.
    destruct ((a' =? a) && (d' =? dn s)); destruct ((a' =? ENT_MACC) && (d' =? dn s)); lia.
  - intros d'. rewrite Ss2, Ss1, Ms. reflexivity.
Qed.

Lemma mint_and_lock_ok b s a amt :
  0 < amt -> 0 <= a -> coin_ok (dn s) (locked_coin s a) -> coin_ok (dn s) (total_locked s) ->
  0 <= balance b a (dn s) -> 0 <= balance b ENT_MACC (dn s) ->
  exists b', mint_and_lock b s a (dn s, amt) = Ok (b', lock_state s a amt).
Proof.
  intros Pa Ha [L1 L2] [T1 T2] Nn Ne. unfold mint_and_lock. cbn [fst snd].
  destruct (amt =? 0) eqn:E0; [lia|].
  destruct (bank_mint_ok b ENT_MACC (dn s) amt) as (b1 & M); [lia|]. rewrite M. cbn [obind].
  pose proof (bank_mint_spec _ _ _ _ _ M) as (_ & Mb & _).
  unfold bank_send_m2a. rewrite (blocked_nonneg a Ha).
  assert (a <> ENT_MACC) as Na by (unfold ENT_MACC; lia).
  destruct (bank_send_ok b1 ENT_MACC a (dn s) amt) as (b2 & S1); [lia| |].
  { rewrite Mb, !Z.eqb_refl. cbn [andb]. lia. }
  rewrite S1. cbn [obind].
  pose proof (bank_send_spec _ _ _ _ _ _ S1) as (_ & _ & Sb1 & _).
  destruct (bank_send_ok b2 a ENT_MACC (dn s) amt) as (b3 & S2); [lia| |].
  { rewrite Sb1, Mb, !Z.eqb_refl.
    destruct (Z.eqb_spec a ENT_MACC); [contradiction|]. cbn [andb]. lia. }
  rewrite S2. cbn [obind].
  rewrite increment_locked_spec by (auto; lia). cbn [obind]. eauto.
Qed.

Definition complete_one (id : Z) (b : bank) (s : ent_state) : outcome (bank * ent_state) :=
  match aget id (e_pos s) with
  | None => Panic PANIC_BLOCKER
  | Some o =>
      if negb (po_status o =? ST_ACCEPTED) then Panic PANIC_BLOCKER else
      let s1 := with_pos s (aset id (set_po_status o ST_COMPLETED 0 false) (e_pos s))
                         (e_raisedq s) (e_acceptedq s) in
      if negb (addr_parses (po_purchaser o)) then Panic PANIC_BLOCKER else
      match mint_and_lock b s1 (po_purchaser o) (po_denom o, po_amount o) with
      | Ok (b2, s2) => Ok (b2, with_pos s2 (e_pos s2) (e_raisedq s2) (remove_z id (e_acceptedq s2)))
      | Err _ => Panic PANIC_BLOCKER
      | Panic c => Panic c
      end
  end.

Lemma process_accepted_cons id rest b s :
  process_accepted (id :: rest) b s =
  match complete_one id b s with
  | Ok (b2, s2) => process_accepted rest b2 s2
  | Err c => Err c
  | Panic c => Panic c
  end.
Proof.
  unfold complete_one. cbn [process_accepted].
  destruct (aget id (e_pos s)) as [o|]; [|reflexivity].
  destruct (negb (po_status o =? ST_ACCEPTED)); [reflexivity|]. cbv zeta.
  destruct (negb (addr_parses (po_purchaser o))); [reflexivity|].
  destruct (mint_and_lock _ _ _ _) as [[b2 s2]| |]; reflexivity.
Qed.

Definition complete_state (s : ent_state) (id : Z) (o : po) : ent_state :=
  {| e_params := e_params s; e_next := e_next s;
     e_pos := aset id (set_po_status o ST_COMPLETED 0 false) (e_pos s);
     e_raisedq := e_raisedq s; e_acceptedq := remove_z id (e_acceptedq s); e_wl := e_wl s;
     e_locked := aset (po_purchaser o)
                      (dn s, snd (locked_coin s (po_purchaser o)) + po_amount o) (e_locked s);
     e_spent := e_spent s;
     e_totlocked := Some (dn s, snd (total_locked s) + po_amount o);
     e_totspent := e_totspent s |}.

Lemma complete_one_inv now id b s b' s' :
  sinv now s -> complete_one id b s = Ok (b', s') ->
  exists o, aget id (e_pos s) = Some o /\ po_status o = ST_ACCEPTED /\
            s' = complete_state s id o /\ minted b b' (dn s) (po_amount o).
Proof.
  intros I. unfold complete_one.
  destruct (aget id (e_pos s)) as [o|] eqn:G; [|discriminate].
  destruct (po_status o =? ST_ACCEPTED) eqn:St; cbn [negb]; [|discriminate]. cbv zeta.
  destruct (negb (addr_parses (po_purchaser o))) eqn:Eb; [discriminate|].
  pose proof (si_po _ _ I _ _ G) as K. rewrite (pk_denom _ _ _ _ _ K).
  set (s1 := with_pos s _ _ _).
  destruct (mint_and_lock b s1 (po_purchaser o) (dn s, po_amount o)) as [[b2 s2]| |] eqn:M;
    try discriminate.
  intros [= <- <-].
  change (dn s) with (dn s1) in M.
  apply mint_and_lock_inv in M as (-> & Mi).
  - exists o. split; [reflexivity|]. split; [lia|]. split; [reflexivity|exact Mi].
  - apply K.
  - apply K.
  - exact (locked_coin_ok _ _ (po_purchaser o) I).
  - exact (si_tl _ _ I).
Qed.

Lemma complete_one_ok now id b s o :
  sinv now s -> binv b s -> bank_nonneg b ->
  aget id (e_pos s) = Some o -> po_status o = ST_ACCEPTED ->
  exists b', complete_one id b s = Ok (b', complete_state s id o).
Proof.
  intros I [B1 B2] Nn G St. unfold complete_one. rewrite G.
  destruct (po_status o =? ST_ACCEPTED) eqn:St'; [|lia]. cbn [negb]. cbv zeta.
  pose proof (si_po _ _ I _ _ G) as K.
  destruct (negb (addr_parses (po_purchaser o))) eqn:Eb.
  { pose proof (pk_purch _ _ _ _ _ K). unfold addr_parses, BAD_ADDR, EMPTY_ADDR in Eb. lia. }
  rewrite (pk_denom _ _ _ _ _ K).
  set (s1 := with_pos s _ _ _).
  destruct (mint_and_lock_ok b s1 (po_purchaser o) (po_amount o)) as (b2 & M).
  - apply K.
  - apply K.
  - exact (locked_coin_ok _ _ (po_purchaser o) I).
  - exact (si_tl _ _ I).
  - apply Nn.
  - apply Nn.
  - change (dn s1) with (dn s) in M. rewrite M. exists b2. reflexivity.
Qed.

Lemma set_status_ok nx d now id o st now' fl :
  po_ok nx d now id o -> st_valid st -> po_ok nx d now id (set_po_status o st now' fl).
Proof. intros [] V. constructor; cbn; auto. Qed.

Lemma sinv_complete_state now s id o :
  sinv now s -> aget id (e_pos s) = Some o -> po_status o = ST_ACCEPTED ->
  sinv now (complete_state s id o).
Proof.
  intros I G St.
  pose proof (si_po _ _ I _ _ G) as K.
  pose proof (locked_coin_ok _ _ (po_purchaser o) I) as [L1 L2].
  pose proof (si_tl _ _ I) as [T1 T2].
  pose proof (snd_locked_coin s (po_purchaser o)) as SL.
  pose proof (pk_amt _ _ _ _ _ K) as Pa.
  assert (So : status_of s id = ST_ACCEPTED) by (unfold status_of; rewrite G; exact St).
  assert (Dn : dn (complete_state s id o) = dn s) by reflexivity.
  assert (SS : forall id', status_of (complete_state s id o) id'
                           = if id' =? id then ST_COMPLETED else status_of s id').
  { intros id'. erewrite status_of_aset by reflexivity. reflexivity. }
  destruct I. constructor; rewrite ?Dn; try (unfold complete_state; sproj; auto; fail).
  - unfold complete_state; sproj. apply NoDup_akeys_aset; auto.
  - unfold complete_state; sproj. apply NoDup_akeys_aset; auto.
  - unfold complete_state; sproj. apply NoDup_remove_z; auto.
  - unfold complete_state; sproj. intros id' o'. rewrite aget_aset_Z.
    destruct (Z.eqb_spec id' id) as [->|N].
    + intros [= <-]. apply set_status_ok; auto. unfold st_valid; auto.
    + apply si_po0.
  - intros id'. rewrite SS. unfold complete_state; sproj.
    destruct (Z.eqb_spec id' id) as [->|N]; [|apply si_rq0].
    rewrite si_rq0, So. stu. split; discriminate.
  - intros id'. rewrite SS. unfold complete_state; sproj. rewrite In_remove_z.
    destruct (Z.eqb_spec id' id) as [->|N].
    + stu. split; [tauto|discriminate].
    + rewrite si_aq0. tauto.
  - unfold complete_state; sproj. intros a' c. rewrite aget_aset_Z. destruct (a' =? po_purchaser o).
    + intros [= <-]. split; cbn; [reflexivity|lia].
    + apply si_locked0.
  - split; cbn; [reflexivity|lia].
  - unfold total_locked at 1. unfold complete_state; sproj. cbn [snd].
    rewrite (asum_snd_aset s). cbn [snd]. lia.
  - intros a'. erewrite completed_sum_aset by reflexivity. rewrite G.
    change (amount_coin (complete_state s id o) a') with (amount_coin s a').
    unfold complete_state; sproj. rewrite <- si_acct0.
    unfold csum_f; cbn [set_po_status po_status po_purchaser po_amount]. rewrite St.
    rewrite (amount_coin_aset s).
    change (ST_ACCEPTED =? ST_COMPLETED) with false. change (ST_COMPLETED =? ST_COMPLETED) with true.
    cbn [andb]. rewrite (Z.eqb_sym (po_purchaser o) a').
    destruct (a' =? po_purchaser o) eqn:E; [|lia]. assert (a' = po_purchaser o) as -> by lia.
    cbn [snd]. lia.
Qed.

Lemma binv_complete b b' s id o :
  binv b s -> minted b b' (dn s) (po_amount o) -> binv b' (complete_state s id o).
Proof.
  intros [B1 B2] [Mb _]. split.
  - change (dn (complete_state s id o)) with (dn s). rewrite Mb, !Z.eqb_refl. cbn [andb].
    unfold total_locked at 1. cbn [complete_state e_totlocked snd]. lia.
  - intros d N. change (dn (complete_state s id o)) with (dn s) in N.
    rewrite Mb, (B2 _ N). destruct (Z.eqb_spec d (dn s)); [contradiction|].
    rewrite andb_false_r. lia.
Qed.

Lemma minted_nonneg b b' d amt : minted b b' d amt -> 0 <= amt -> bank_nonneg b -> bank_nonneg b'.
Proof. intros [Mb _] P N a d'. rewrite Mb. specialize (N a d'). destruct (_ && _); lia. Qed.

(* the run of ProcessAcceptedPurchaseOrders as a chain of single completions, each from a
   state satisfying the invariant *)
Inductive completes (now : Z) : list Z -> bank -> ent_state -> bank -> ent_state -> Prop :=
| cm_nil b s : sinv now s -> binv b s -> completes now [] b s b s
| cm_cons id o rest b s b1 b' s' :
    sinv now s -> binv b s ->
    aget id (e_pos s) = Some o -> po_status o = ST_ACCEPTED ->
    minted b b1 (dn s) (po_amount o) ->
    completes now rest b1 (complete_state s id o) b' s' ->
    completes now (id :: rest) b s b' s'.

Lemma process_accepted_completes now ids : forall b s b' s',
  sinv now s -> binv b s ->
  process_accepted ids b s = Ok (b', s') -> completes now ids b s b' s'.
Proof.
  induction ids as [|id rest IH]; intros b s b' s' I B H.
  - cbn in H. injection H as <- <-. constructor; auto.
  - rewrite process_accepted_cons in H.
    destruct (complete_one id b s) as [[b1 s1]| |] eqn:C; try discriminate.
    destruct (complete_one_inv _ _ _ _ _ _ I C) as (o & G & St & -> & Mi).
    econstructor; eauto.
    apply IH; auto.
    + apply sinv_complete_state; auto.
    + eapply binv_complete; eauto.
Qed.

Lemma completes_end now ids b s b' s' :
  completes now ids b s b' s' -> sinv now s' /\ binv b' s'.
Proof. induction 1; auto. Qed.

Lemma completes_start now ids b s b' s' :
  completes now ids b s b' s' -> sinv now s /\ binv b s.
Proof. destruct 1; auto. Qed.

(* what does not change *)
Lemma completes_frame now ids b s b' s' :
  completes now ids b s b' s' ->
  e_params s' = e_params s /\ e_next s' = e_next s /\ e_raisedq s' = e_raisedq s /\
  e_wl s' = e_wl s /\ e_spent s' = e_spent s /\ e_totspent s' = e_totspent s.
Proof.
  induction 1 as [|id o rest b s b1 b' s' I B G St Mi C IH]; [repeat split|].
  destruct IH as (A1 & A2 & A3 & A4 & A5 & A6). cbn in *. repeat split; auto.
Qed.

Lemma completes_accq now ids b s b' s' :
  completes now ids b s b' s' ->
  forall x, In x (e_acceptedq s') <-> In x (e_acceptedq s) /\ ~ In x ids.
Proof.
  induction 1 as [|id o rest b s b1 b' s' I B G St Mi C IH]; intros x; [cbn; tauto|].
  rewrite IH. cbn [complete_state e_acceptedq In]. rewrite In_remove_z. intuition.
Qed.

Lemma completes_pos now ids b s b' s' :
  completes now ids b s b' s' ->
  forall x, (~ In x ids -> aget x (e_pos s') = aget x (e_pos s)) /\
            (In x ids -> exists o, aget x (e_pos s) = Some o /\ po_status o = ST_ACCEPTED /\
                                   aget x (e_pos s') = Some (set_po_status o ST_COMPLETED 0 false)).
Proof.
  induction 1 as [|id o rest b s b1 b' s' I B G St Mi C IH]; intros x; [cbn; tauto|].
  destruct (IH x) as [IH1 IH2]. cbn [complete_state e_pos] in IH1, IH2.
  rewrite aget_aset_Z in IH1, IH2. cbn [In]. split.
  - intros N. destruct (Z.eqb_spec x id) as [E|Nx]; [exfalso; apply N; left; congruence|].
    apply IH1. tauto.
  - intros [E|Ix]; [subst x|].
    + destruct (in_dec Z.eq_dec id rest) as [Ir|Nr].
      * (* a second occurrence would have to find the order accepted again: impossible *)
        destruct (IH2 Ir) as (o2 & E2 & St2 & _). rewrite Z.eqb_refl in E2.
        injection E2 as <-. cbn in St2. stu. discriminate.
      * exists o. rewrite IH1 by exact Nr. rewrite Z.eqb_refl. auto.
    + destruct (Z.eqb_spec x id) as [E|Nx].
      * destruct (IH2 Ix) as (o2 & E2 & St2 & _). injection E2 as <-. cbn in St2. stu. discriminate.
      * apply IH2; exact Ix.
Qed.

Lemma completes_ids_accepted now ids b s b' s' :
  completes now ids b s b' s' -> forall x, In x ids -> In x (e_acceptedq s).
Proof.
  intros C x Ix. pose proof (completes_start _ _ _ _ _ _ C) as [I _].
  destruct (proj2 (completes_pos _ _ _ _ _ _ C x) Ix) as (o & G & St & _).
  apply (si_aq _ _ I). unfold status_of. rewrite G. exact St.
Qed.

(* amounts waiting in the accepted queue *)
Definition acc_f (a : addr) (o : po) : Z :=
  if (po_status o =? ST_ACCEPTED) && (po_purchaser o =? a) then po_amount o else 0.
Definition acc_all (o : po) : Z := if po_status o =? ST_ACCEPTED then po_amount o else 0.

Lemma complete_state_potentials s id o :
  aget id (e_pos s) = Some o -> po_status o = ST_ACCEPTED ->
  (forall a, amount_coin s a (e_locked (complete_state s id o)) + asum (acc_f a) (e_pos (complete_state s id o))
             = amount_coin s a (e_locked s) + asum (acc_f a) (e_pos s)) /\
  snd (total_locked (complete_state s id o)) = snd (total_locked s) + po_amount o /\
  asum acc_all (e_pos (complete_state s id o)) = asum acc_all (e_pos s) - po_amount o.
Proof.
  intros G St. split; [|split; [reflexivity|]].
  - intros a. cbn [complete_state e_locked e_pos]. rewrite asum_aset, G, (amount_coin_aset s).
    unfold acc_f at 2 3. cbn [set_po_status po_status po_purchaser po_amount]. rewrite St.
    change (ST_ACCEPTED =? ST_ACCEPTED) with true. change (ST_COMPLETED =? ST_ACCEPTED) with false.
    cbn [andb snd]. rewrite (Z.eqb_sym (po_purchaser o) a).
    destruct (a =? po_purchaser o) eqn:E; [|lia]. assert (a = po_purchaser o) as -> by lia.
    rewrite snd_locked_coin. lia.
  - cbn [complete_state e_pos].
    rewrite asum_aset, G. unfold acc_all at 2 3. cbn [set_po_status po_status po_amount]. rewrite St.
    change (ST_ACCEPTED =? ST_ACCEPTED) with true. change (ST_COMPLETED =? ST_ACCEPTED) with false.
    cbv iota. lia.
Qed.

Lemma completes_potentials now ids b s b' s' :
  completes now ids b s b' s' ->
  (forall a, amount_coin s' a (e_locked s') + asum (acc_f a) (e_pos s')
             = amount_coin s a (e_locked s) + asum (acc_f a) (e_pos s)) /\
  snd (total_locked s') + asum acc_all (e_pos s') = snd (total_locked s) + asum acc_all (e_pos s) /\
  (forall d, supply_of b' d + (if d =? dn s then asum acc_all (e_pos s') else 0)
             = supply_of b d + (if d =? dn s then asum acc_all (e_pos s) else 0)) /\
  (forall a d, a <> ENT_MACC -> balance b' a d = balance b a d).
Proof.
  induction 1 as [|id o rest b s b1 b' s' I B G St Mi C IH]; [repeat split; auto|].
  destruct IH as (IH1 & IH2 & IH3 & IH4).
  destruct (complete_state_potentials s id o G St) as (P1 & P2 & P3).
  destruct Mi as [Mb Ms].
  split; [|split; [|split]].
  - intros a. rewrite IH1. exact (P1 a).
  - rewrite IH2. lia.
  - intros d. change (dn (complete_state s id o)) with (dn s) in IH3. rewrite IH3, Ms, P3.
    destruct (d =? dn s); lia.
  - intros a d N. rewrite IH4 by exact N. rewrite Mb.
    destruct (Z.eqb_spec a ENT_MACC); [contradiction|]. cbn [andb]. lia.
Qed.

Lemma no_accepted_sums now s :
  sinv now s -> e_acceptedq s = [] ->
  (forall a, asum (acc_f a) (e_pos s) = 0) /\ asum acc_all (e_pos s) = 0.
Proof.
  intros I E.
  assert (NA : forall k v, In (k, v) (e_pos s) -> po_status v <> ST_ACCEPTED).
  { intros k v Hin St. apply (In_aget_NoDup _ _ _ (si_nd_pos _ _ I)) in Hin.
    assert (X : In k (e_acceptedq s)).
    { apply (si_aq _ _ I). unfold status_of. rewrite Hin. exact St. }
    rewrite E in X. exact X. }
  split.
  - intros a. apply asum_zero. intros k v Hin. unfold acc_f.
    destruct (po_status v =? ST_ACCEPTED) eqn:X; [|reflexivity].
    exfalso. apply (NA _ _ Hin). lia.
  - apply asum_zero. intros k v Hin. unfold acc_all.
    destruct (po_status v =? ST_ACCEPTED) eqn:X; [|reflexivity].
    exfalso. apply (NA _ _ Hin). lia.
Qed.

Lemma completes_all_empty now b s b' s' :
  completes now (e_acceptedq s) b s b' s' -> e_acceptedq s' = [].
Proof.
  intros C. destruct (e_acceptedq s') as [|x r] eqn:E; [reflexivity|].
  exfalso. assert (X : In x (e_acceptedq s')) by (rewrite E; left; reflexivity).
  apply (completes_accq _ _ _ _ _ _ C) in X. tauto.
Qed.

(* never panics: every step of the loop succeeds *)
Lemma process_accepted_ok now ids : forall b s,
  sinv now s -> binv b s -> bank_nonneg b -> NoDup ids ->
  (forall x, In x ids -> In x (e_acceptedq s)) ->
  exists b' s', process_accepted ids b s = Ok (b', s') /\ bank_nonneg b'.
Proof.
  induction ids as [|id rest IH]; intros b s I B Nn ND Inc.
  - cbn. eauto.
  - rewrite process_accepted_cons.
    assert (In id (e_acceptedq s)) as Ia by (apply Inc; left; reflexivity).
    apply (si_aq _ _ I) in Ia. apply status_accepted_Some in Ia as (o & G & St).
    destruct (complete_one_ok _ _ _ _ _ I B Nn G St) as (b1 & C). rewrite C.
    destruct (complete_one_inv _ _ _ _ _ _ I C) as (o' & G' & _ & _ & Mi).
    rewrite G in G'. injection G' as <-.
    inversion ND as [|? ? NI ND']; subst.
    apply IH; auto.
    + apply sinv_complete_state; auto.
    + eapply binv_complete; eauto.
    + eapply minted_nonneg; eauto. pose proof (pk_amt _ _ _ _ _ (si_po _ _ I _ _ G)). lia.
    + intros x Ix. cbn [complete_state e_acceptedq]. rewrite In_remove_z. split.
      * apply Inc. right; exact Ix.
      * intros ->. contradiction.
Qed.

(* ================================================================= *)
(* BeginBlock, part 2: the tally                                      *)
(* ================================================================= *)

Definition tally_state (s : ent_state) (id : Z) (o : po) (st now : Z) : ent_state :=
  with_pos s (aset id (set_po_status o st now true) (e_pos s)) (remove_z id (e_raisedq s))
           (if st =? ST_ACCEPTED then e_acceptedq s ++ [id] else e_acceptedq s).

Lemma tally_one_cases p now o st :
  tally_one p now o = Some st -> st = ST_ACCEPTED \/ st = ST_REJECTED.
Proof.
  unfold tally_one. cbv zeta.
  destruct (_ && _); [intros [= <-]; auto|].
  destruct (_ <? _); [intros [= <-]; auto|].
  destruct (_ <=? _); [intros [= <-]; auto|discriminate].
Qed.

Lemma sinv_tally_state now s id o st :
  sinv now s -> aget id (e_pos s) = Some o -> po_status o = ST_RAISED ->
  st = ST_ACCEPTED \/ st = ST_REJECTED ->
  sinv now (tally_state s id o st now).
Proof.
  intros I G St Hst.
  pose proof (si_po _ _ I _ _ G) as K.
  assert (So : status_of s id = ST_RAISED) by (unfold status_of; rewrite G; exact St).
  assert (Dn : dn (tally_state s id o st now) = dn s) by reflexivity.
  assert (SS : forall id', status_of (tally_state s id o st now) id'
                           = if id' =? id then st else status_of s id').
  { intros id'. erewrite status_of_aset by reflexivity. reflexivity. }
  assert (NIa : ~ In id (e_acceptedq s)).
  { rewrite (si_aq _ _ I), So. stu. discriminate. }
  destruct I. constructor; rewrite ?Dn; try (unfold tally_state; sproj; auto; fail).
  - unfold tally_state; sproj. apply NoDup_akeys_aset; auto.
  - unfold tally_state; sproj. apply NoDup_remove_z; auto.
  - unfold tally_state; sproj. destruct (st =? ST_ACCEPTED); auto. apply NoDup_snoc; auto.
  - unfold tally_state; sproj. intros id' o'. rewrite aget_aset_Z.
    destruct (Z.eqb_spec id' id) as [->|N].
    + intros [= <-]. apply set_status_ok; auto. unfold st_valid; tauto.
    + apply si_po0.
  - intros id'. rewrite SS. unfold tally_state; sproj. rewrite In_remove_z.
    destruct (Z.eqb_spec id' id) as [->|N].
    + split; [tauto|]. stu. destruct Hst; subst; discriminate.
    + rewrite si_rq0. tauto.
  - intros id'. rewrite SS. unfold tally_state; sproj.
    destruct (Z.eqb_spec id' id) as [->|N].
    + destruct Hst as [-> | ->].
      * change (ST_ACCEPTED =? ST_ACCEPTED) with true. cbv iota. rewrite in_app_iff. cbn. tauto.
      * change (ST_REJECTED =? ST_ACCEPTED) with false. cbv iota. split; [tauto|]. stu. discriminate.
    + rewrite <- si_aq0. destruct (st =? ST_ACCEPTED); [|tauto].
      rewrite in_app_iff. cbn. split; [intros [X|[X|[]]]; [exact X|congruence]|tauto].
  - intros a'. erewrite completed_sum_aset by reflexivity. rewrite G.
    change (amount_coin (tally_state s id o st now) a') with (amount_coin s a').
    unfold tally_state; sproj. rewrite <- si_acct0.
    unfold csum_f; cbn [set_po_status po_status po_purchaser po_amount]. rewrite St.
    change (ST_RAISED =? ST_COMPLETED) with false.
    replace (st =? ST_COMPLETED) with false by (stu; destruct Hst; subst; reflexivity).
    cbn [andb]. lia.
Qed.

Inductive tallies (now : Z) : list Z -> ent_state -> ent_state -> Prop :=
| tl_nil s : sinv now s -> tallies now [] s s
| tl_skip id o rest s s' :
    sinv now s -> aget id (e_pos s) = Some o -> po_status o = ST_RAISED ->
    tally_one (e_params s) now o = None ->
    tallies now rest s s' -> tallies now (id :: rest) s s'
| tl_set id o st rest s s' :
    sinv now s -> aget id (e_pos s) = Some o -> po_status o = ST_RAISED ->
    tally_one (e_params s) now o = Some st ->
    tallies now rest (tally_state s id o st now) s' -> tallies now (id :: rest) s s'.

Lemma tally_tallies now ids : forall s s',
  sinv now s -> tally ids now s = Ok s' -> tallies now ids s s'.
Proof.
  induction ids as [|id rest IH]; intros s s' I H.
  - cbn in H. injection H as <-. constructor; auto.
  - cbn [tally] in H.
    destruct (aget id (e_pos s)) as [o|] eqn:G; [|discriminate].
    destruct (po_status o =? ST_RAISED) eqn:St; cbn [negb] in H; [|discriminate].
    assert (po_status o = ST_RAISED) as St' by lia.
    destruct (tally_one (e_params s) now o) as [st|] eqn:T.
    + eapply tl_set; eauto. apply IH; auto.
      apply sinv_tally_state; auto. eapply tally_one_cases; eauto.
    + eapply tl_skip; eauto.
Qed.

Lemma tally_ok now ids : forall s,
  sinv now s -> (forall x, In x ids -> In x (e_raisedq s)) -> NoDup ids ->
  exists s', tally ids now s = Ok s'.
Proof.
  induction ids as [|id rest IH]; intros s I Inc ND.
  - cbn. eauto.
  - cbn [tally].
    assert (In id (e_raisedq s)) as Ir by (apply Inc; left; reflexivity).
    apply (si_rq _ _ I) in Ir. apply status_raised_Some in Ir as (o & G & St).
    rewrite G. destruct (po_status o =? ST_RAISED) eqn:St'; [|lia]. cbn [negb].
    inversion ND as [|? ? NI ND']; subst.
    destruct (tally_one (e_params s) now o) as [st|] eqn:T.
    + apply IH; auto.
      * apply sinv_tally_state; auto. eapply tally_one_cases; eauto.
      * intros x Ix. cbn [tally_state with_pos e_raisedq]. rewrite In_remove_z. split.
        -- apply Inc. right; exact Ix.
        -- intros ->. contradiction.
    + apply IH; auto. intros x Ix. apply Inc. right; exact Ix.
Qed.

Lemma tallies_end now ids s s' : tallies now ids s s' -> sinv now s'.
Proof. induction 1; auto. Qed.

Lemma tallies_frame now ids s s' :
  tallies now ids s s' ->
  e_params s' = e_params s /\ e_next s' = e_next s /\ e_wl s' = e_wl s /\
  e_locked s' = e_locked s /\ e_spent s' = e_spent s /\
  e_totlocked s' = e_totlocked s /\ e_totspent s' = e_totspent s.
Proof.
  induction 1 as [| |id o st rest s s' I G St T C IH]; [repeat split|assumption|].
  destruct IH as (A1 & A2 & A3 & A4 & A5 & A6 & A7). cbn in *. repeat split; auto.
Qed.

(* each order is either untouched or was raised and got the tally's verdict *)
Lemma tallies_pos now ids s s' :
  tallies now ids s s' ->
  forall x, aget x (e_pos s') = aget x (e_pos s) \/
            (In x ids /\
             exists o st, aget x (e_pos s) = Some o /\ po_status o = ST_RAISED /\
                          tally_one (e_params s) now o = Some st /\
                          aget x (e_pos s') = Some (set_po_status o st now true)).
Proof.
  induction 1 as [s I|id o rest s s' I G St T C IH|id o st rest s s' I G St T C IH]; intros x.
  - left; reflexivity.
  - destruct (IH x) as [E|(Ix & o' & st' & A)]; [left; exact E|].
    right. split; [right; exact Ix|]. eauto.
  - destruct (IH x) as [E|(Ix & o' & st' & G' & St' & T' & E)].
    + cbn [tally_state with_pos e_pos] in E. rewrite aget_aset_Z in E.
      destruct (Z.eqb_spec x id) as [Ex|N]; [|left; exact E].
      subst x. right. split; [left; reflexivity|]. exists o, st. auto.
    + cbn [tally_state with_pos e_pos e_params] in G', T'. rewrite aget_aset_Z in G'.
      destruct (Z.eqb_spec x id) as [Ex|N].
      * exfalso. injection G' as <-. cbn in St'. apply tally_one_cases in T. stu.
        destruct T; subst; discriminate.
      * right. split; [right; exact Ix|]. exists o', st'. auto.
Qed.

(* ================================================================= *)
(* BeginBlock as a whole                                              *)
(* ================================================================= *)

Lemma ent_inv_binv w : ent_inv w -> binv (w_bank w) (w_ent w).
Proof. intros [_ _ A B]. split; assumption. Qed.

Lemma begin_block_decompose w now b' s' :
  ent_inv w -> w_now w <= now ->
  ent_begin_block now (w_bank w) (w_ent w) = Ok (b', s') ->
  exists s1, completes now (e_acceptedq (w_ent w)) (w_bank w) (w_ent w) b' s1 /\
             tallies now (e_raisedq s1) s1 s'.
Proof.
  intros I Hn H. unfold ent_begin_block in H.
  destruct (process_accepted (e_acceptedq (w_ent w)) (w_bank w) (w_ent w)) as [[b1 s1]| |] eqn:P;
    cbn [obind] in H; try discriminate.
  destruct (tally (e_raisedq s1) now s1) as [s2| |] eqn:T; cbn [obind] in H; try discriminate.
  injection H as <- <-.
  assert (C : completes now (e_acceptedq (w_ent w)) (w_bank w) (w_ent w) b1 s1).
  { apply process_accepted_completes; auto.
    - eapply sinv_mono; [exact Hn|]. apply inv_s; exact I.
    - apply ent_inv_binv; exact I. }
  exists s1. split; [exact C|].
  apply tally_tallies; auto. apply (completes_end _ _ _ _ _ _ C).
Qed.

Lemma ent_inv_begin w now w' :
  ent_inv w -> ent_op_wf w (OBegin now) -> ent_step w (OBegin now) = Some w' -> ent_inv w'.
Proof.
  intros I [Hn1 Hn2] H. cbn [ent_step] in H.
  destruct (ent_begin_block now (w_bank w) (w_ent w)) as [[b' s']| |] eqn:E; try discriminate.
  injection H as <-.
  destruct (begin_block_decompose _ _ _ _ I Hn1 E) as (s1 & C & T).
  pose proof (completes_end _ _ _ _ _ _ C) as [I1 [B1 B2]].
  pose proof (tallies_frame _ _ _ _ T) as (Ep & _ & _ & _ & _ & Etl & _).
  constructor; sproj.
  - eapply tallies_end; eauto.
  - pose proof (inv_now _ I). lia.
  - unfold dn. rewrite Ep, (total_locked_frame _ _ Ep Etl). exact B1.
  - unfold dn. rewrite Ep. exact B2.
Qed.

Theorem ent_inv_step w o w' :
  ent_inv w -> ent_op_wf w o -> ent_step w o = Some w' -> ent_inv w'.
Proof.
  intros I W H. destruct o.
  - eapply ent_inv_msg; eauto.
  - eapply ent_inv_begin; eauto.
  - eapply ent_inv_set_params; eauto.
  - eapply ent_inv_unlock; eauto.
Qed.

Theorem ent_inv_run h : forall w w',
  ent_inv w -> ent_hist_wf w h -> ent_run w h = Some w' -> ent_inv w'.
Proof.
  induction h as [|o r IH]; intros w w' I W H.
  - cbn in H. injection H as <-. exact I.
  - cbn [ent_run ent_hist_wf] in *. destruct W as [Wo Wr].
    destruct (ent_step w o) as [w1|] eqn:E; [|discriminate].
    apply (IH w1 w'); auto. eapply ent_inv_step; eauto.
Qed.

(* bank non-negativity is a second, independent invariant of the steps *)
Lemma completes_nonneg now ids b s b' s' :
  completes now ids b s b' s' -> bank_nonneg b -> bank_nonneg b'.
Proof.
  induction 1 as [|id o rest b s b1 b' s' I B G St Mi C IH]; auto.
  intros N. apply IH. eapply minted_nonneg; eauto.
  pose proof (pk_amt _ _ _ _ _ (si_po _ _ I _ _ G)). lia.
Qed.

Lemma ent_step_bank_nonneg w o w' :
  ent_inv w -> ent_op_wf w o -> ent_step w o = Some w' ->
  bank_nonneg (w_bank w) -> bank_nonneg (w_bank w').
Proof.
  intros I W H N. destruct o as [m|now|p|payer fee]; cbn [ent_step] in H.
  - destruct (ent_validate_basic m); [|injection H as <-; exact N..].
    destruct (ent_exec _ _ _) as [[s' r]| |]; injection H as <-; exact N.
  - destruct (ent_begin_block now (w_bank w) (w_ent w)) as [[b' s']| |] eqn:E; try discriminate.
    injection H as <-. destruct W as [Hn _].
    destruct (begin_block_decompose _ _ _ _ I Hn E) as (s1 & C & _).
    eapply completes_nonneg; eauto.
  - destruct (ent_set_params _ _); injection H as <-; exact N.
  - destruct W as (Hp & P & ND).
    destruct (unlock_for_fees (w_bank w) (w_ent w) payer fee) as [[b' s']| |] eqn:E;
      injection H as <-; try exact N.
    eapply unlock_ok_inv in E; eauto using inv_s, inv_escrow0.
    destruct E as (_ & [(_ & _ & S & _)|[(_ & S & _)|(_ & _ & -> & _)]]); cbn [w_bank]; auto;
      eapply bank_send_nonneg; eauto.
Qed.
