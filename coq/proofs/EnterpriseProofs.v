(* Enterprise module (model/Enterprise.v): the inductive invariant [ent_inv], its preservation by
   every well-formed step, and the lemmas behind props/C03.v and props/C04.v.
   Self-contained w.r.t. the bank: the few bank facts needed are proved here. *)
From MC Require Import lib.Prelude lib.AMap model.Bank model.Enterprise model.EnterpriseSpec.
From Coq Require Import ZifyBool.
Ltac Zify.zify_post_hook ::= Z.div_mod_to_equations.
Local Open Scope Z_scope.

Ltac stu := unfold ST_NIL, ST_RAISED, ST_ACCEPTED, ST_REJECTED, ST_COMPLETED in *.
Ltac sproj :=
  cbn [e_params e_next e_pos e_raisedq e_acceptedq e_wl e_locked e_spent e_totlocked e_totspent
       with_pos with_books w_bank w_ent w_now] in *.

(* ================================================================= *)
(* bank facts                                                         *)
(* ================================================================= *)

Lemma balance_set_balance b a d v a' d' :
  balance (set_balance b a d v) a' d' = if (a' =? a) && (d' =? d) then v else balance b a' d'.
Proof.
  unfold balance, set_balance; cbn [bal].
  destruct ((a' =? a) && (d' =? d)) eqn:E.
  - assert (a' = a /\ d' = d) as [-> ->] by lia. rewrite aget_aset_eq. reflexivity.
  - rewrite aget_aset_neq; [reflexivity|]. intros [= -> ->]. rewrite !Z.eqb_refl in E. discriminate.
Qed.

Lemma balance_set_supply b d v a d' : balance (set_supply b d v) a d' = balance b a d'.
Proof. reflexivity. Qed.

Lemma supply_of_set_balance b a d v d' : supply_of (set_balance b a d v) d' = supply_of b d'.
Proof. reflexivity. Qed.

Lemma supply_of_set_supply b d v d' :
  supply_of (set_supply b d v) d' = if d' =? d then v else supply_of b d'.
Proof.
  unfold supply_of, set_supply; cbn [supply].
  destruct (d' =? d) eqn:E.
  - assert (d' = d) as -> by lia. rewrite aget_aset_eq. reflexivity.
  - rewrite aget_aset_neq; [reflexivity|lia].
Qed.

Lemma bank_send_spec b from to d amt b' :
  bank_send b from to d amt = Ok b' ->
  0 <= amt /\ amt <= balance b from d /\
  (forall a d', balance b' a d' =
     balance b a d' - (if (a =? from) && (d' =? d) then amt else 0)
                    + (if (a =? to) && (d' =? d) then amt else 0)) /\
  (forall d', supply_of b' d' = supply_of b d').
Proof.
  unfold bank_send. destruct (amt <? 0) eqn:E1; [discriminate|].
  destruct (balance b from d <? amt) eqn:E2; [discriminate|].
  intros [= <-]. split; [lia|]. split; [lia|]. split.
  - intros a d'. rewrite !balance_set_balance. rewrite (Z.eqb_refl d), andb_true_r.
    destruct (Z.eqb_spec d' d) as [->|Nd]; rewrite ?andb_true_r, ?andb_false_r; [|lia].
    destruct (Z.eqb_spec a from) as [Ea|Na]; destruct (Z.eqb_spec a to) as [Eb|Nb];
      destruct (Z.eqb_spec to from) as [Ec|Nc]; subst; try congruence; lia.
  - intros d'. reflexivity.
Qed.

Lemma bank_send_ok b from to d amt :
  0 <= amt -> amt <= balance b from d -> exists b', bank_send b from to d amt = Ok b'.
Proof.
  intros H1 H2. unfold bank_send. destruct (amt <? 0) eqn:E1; [lia|].
  destruct (balance b from d <? amt) eqn:E2; [lia|]. eauto.
Qed.

Lemma bank_send_zero b from to d b' :
  bank_send b from to d 0 = Ok b' ->
  (forall a d', balance b' a d' = balance b a d') /\ (forall d', supply_of b' d' = supply_of b d').
Proof.
  intros H. apply bank_send_spec in H as (_ & _ & Hb & Hs). split; [|exact Hs].
  intros a d'. rewrite Hb. destruct (_ && _); destruct (_ && _); lia.
Qed.

Lemma bank_mint_spec b macc d amt b' :
  bank_mint b macc d amt = Ok b' ->
  0 <= amt /\
  (forall a d', balance b' a d' = balance b a d' + (if (a =? macc) && (d' =? d) then amt else 0)) /\
  (forall d', supply_of b' d' = supply_of b d' + (if d' =? d then amt else 0)).
Proof.
  unfold bank_mint. destruct (amt <? 0) eqn:E; [discriminate|]. intros [= <-].
  split; [lia|]. split.
  - intros a d'. rewrite balance_set_supply, balance_set_balance.
    destruct ((a =? macc) && (d' =? d)) eqn:E2; [|lia].
    assert (a = macc /\ d' = d) as [-> ->] by lia. lia.
  - intros d'. rewrite supply_of_set_supply, !supply_of_set_balance.
    destruct (d' =? d) eqn:E2; [|lia]. assert (d' = d) as -> by lia. lia.
Qed.

Lemma bank_mint_ok b macc d amt : 0 <= amt -> exists b', bank_mint b macc d amt = Ok b'.
Proof. intros H. unfold bank_mint. destruct (amt <? 0) eqn:E; [lia|]. eauto. Qed.

Definition bank_nonneg (b : bank) : Prop := forall a d, 0 <= balance b a d.

Lemma bank_send_nonneg b from to d amt b' :
  bank_send b from to d amt = Ok b' -> bank_nonneg b -> bank_nonneg b'.
Proof.
  intros H N a d'. apply bank_send_spec in H as (H0 & H1 & Hb & _). rewrite Hb.
  specialize (N a d').
  destruct (Z.eqb_spec a from) as [Ea|]; destruct (Z.eqb_spec d' d) as [Ed|];
    destruct (a =? to); cbn [andb]; subst; try lia.
Qed.

Lemma bank_mint_nonneg b macc d amt b' :
  bank_mint b macc d amt = Ok b' -> bank_nonneg b -> bank_nonneg b'.
Proof.
  intros H N a d'. apply bank_mint_spec in H as (H0 & Hb & _). rewrite Hb.
  specialize (N a d'). destruct (_ && _); lia.
Qed.

Lemma blocked_neg a : blocked a = true -> a < 0.
Proof. unfold blocked. lia. Qed.

Lemma blocked_nonneg a : 0 <= a -> blocked a = false.
Proof. unfold blocked. intros H. destruct (a <? 0) eqn:E; [lia|reflexivity]. Qed.

Lemma blocked_ENT_MACC : blocked ENT_MACC = true.
Proof. reflexivity. Qed.

Lemma bank_send_m2a_to_escrow b x d amt : bank_send_m2a b x ENT_MACC d amt = Err ERR_UNAUTHORIZED.
Proof. reflexivity. Qed.

(* ================================================================= *)
(* small list / map facts                                             *)
(* ================================================================= *)

Lemma mem_addr_In a l : mem_addr a l = true <-> In a l.
Proof.
  unfold mem_addr. rewrite existsb_exists. split.
  - intros (x & I & E). assert (a = x) as -> by lia. exact I.
  - intros I. exists a. split; [exact I|lia].
Qed.

Lemma In_remove_z x y l : In x (remove_z y l) <-> In x l /\ x <> y.
Proof.
  unfold remove_z. rewrite filter_In. split; intros [A B]; split; auto; lia.
Qed.

Lemma NoDup_remove_z y l : NoDup l -> NoDup (remove_z y l).
Proof. unfold remove_z. apply NoDup_filter. Qed.

Lemma NoDup_snoc {A} (x : A) l : NoDup l -> ~ In x l -> NoDup (l ++ [x]).
Proof.
  intros ND NI. induction l as [|y l IH]; cbn.
  - constructor; [intros []|constructor].
  - inversion ND as [|? ? NI' ND']; subst. constructor.
    + rewrite in_app_iff; cbn. intros [X|[X|[]]]; [tauto|]. subst. apply NI. left; reflexivity.
    + apply IH; auto. intros X; apply NI; right; exact X.
Qed.

Lemma aget_Some_In_keys {V} (k : Z) (v : V) (m : amap Z V) : aget k m = Some v -> In k (akeys m).
Proof.
  intros G. apply aget_In in G. change k with (fst (k, v)). apply in_map. exact G.
Qed.

Lemma In_aget_NoDup {V} (k : Z) (v : V) (m : amap Z V) :
  NoDup (akeys m) -> In (k, v) m -> aget k m = Some v.
Proof.
  induction m as [|[k' v'] r IH]; cbn; [tauto|].
  intros ND. inversion ND as [|? ? NI ND']; subst.
  intros [E|I].
  - inversion E; subst. rewrite Z.eqb_refl. reflexivity.
  - destruct (Z.eqb_spec k k') as [->|N].
    + exfalso. apply NI. change k' with (fst (k', v)). apply in_map. exact I.
    + auto.
Qed.

Lemma asum_zero {V} (f : V -> Z) (m : amap Z V) :
  (forall k v, In (k, v) m -> f v = 0) -> asum f m = 0.
Proof.
  unfold asum. induction m as [|[k v] r IH]; cbn; [reflexivity|].
  intros H. rewrite IH; [|intros; eapply H; right; eauto].
  rewrite (H k v); [reflexivity|left; reflexivity].
Qed.

Lemma asum_nonneg_ge {V} (f : V -> Z) (m : amap Z V) k v :
  (forall k v, In (k, v) m -> 0 <= f v) -> aget k m = Some v -> f v <= asum f m.
Proof.
  unfold asum. induction m as [|[k' v'] r IH]; cbn; [discriminate|].
  intros H. assert (0 <= sumZ (map (fun kv => f (snd kv)) r)) as P.
  { clear -H. induction r as [|[k2 v2] r IH]; cbn; [lia|].
    assert (0 <= f v2) by (eapply H; right; left; reflexivity).
    assert (0 <= sumZ (map (fun kv => f (snd kv)) r)); [|lia].
    apply IH. intros k0 v0 [E|I]; eapply H; [left; exact E|right; right; exact I]. }
  destruct (k =? k') eqn:E.
  - intros [= ->]. lia.
  - intros G. assert (0 <= f v') by (eapply H; left; reflexivity).
    specialize (IH (fun k0 v0 I => H k0 v0 (or_intror I)) G). lia.
Qed.

(* ================================================================= *)
(* the invariant                                                      *)
(* ================================================================= *)

Definition dn (s : ent_state) : denom := ep_denom (e_params s).

Definition st_valid (st : Z) : Prop :=
  st = ST_RAISED \/ st = ST_ACCEPTED \/ st = ST_REJECTED \/ st = ST_COMPLETED.
Definition dec_valid (d : decision) : Prop :=
  d_decision d = ST_ACCEPTED \/ d_decision d = ST_REJECTED.

Record po_ok (nx d now id : Z) (o : po) : Prop := {
  pk_id : po_id o = id;
  pk_range : 1 <= id < nx;
  pk_amt : 0 < po_amount o;
  pk_denom : po_denom o = d;
  pk_purch : 0 <= po_purchaser o;
  pk_status : st_valid (po_status o);
  pk_time : 0 <= po_raise_time o <= now;
  pk_nodup : NoDup (map d_signer (po_decisions o));
  pk_decs : Forall dec_valid (po_decisions o)
}.

Definition coin_ok (d : denom) (c : coin) : Prop := fst c = d /\ 0 <= snd c.

(* the part that only talks about the module state ([now] = current block time) *)
Record sinv (now : Z) (s : ent_state) : Prop := {
  si_nd_pos : NoDup (akeys (e_pos s));
  si_nd_locked : NoDup (akeys (e_locked s));
  si_nd_spent : NoDup (akeys (e_spent s));
  si_nd_rq : NoDup (e_raisedq s);
  si_nd_aq : NoDup (e_acceptedq s);
  si_params : ent_params_valid (e_params s) = true;
  si_next : 1 <= e_next s;
  si_po : forall id o, aget id (e_pos s) = Some o -> po_ok (e_next s) (dn s) now id o;
  si_rq : forall id, In id (e_raisedq s) <-> status_of s id = ST_RAISED;
  si_aq : forall id, In id (e_acceptedq s) <-> status_of s id = ST_ACCEPTED;
  si_locked : forall a c, aget a (e_locked s) = Some c -> coin_ok (dn s) c;
  si_spent : forall a c, aget a (e_spent s) = Some c -> coin_ok (dn s) c;
  si_tl : coin_ok (dn s) (total_locked s);
  si_ts : coin_ok (dn s) (total_spent s);
  si_sum_l : snd (total_locked s) = asum snd (e_locked s);
  si_sum_s : snd (total_spent s) = asum snd (e_spent s);
  si_acct : forall a, amount_coin s a (e_locked s) + amount_coin s a (e_spent s) = completed_sum s a
}.

Record ent_inv (w : ent_world) : Prop := {
  inv_s : sinv (w_now w) (w_ent w);
  inv_now : 0 <= w_now w < two63;
  inv_escrow : balance (w_bank w) ENT_MACC (dn (w_ent w)) = snd (total_locked (w_ent w));
  inv_escrow0 : forall d, d <> dn (w_ent w) -> balance (w_bank w) ENT_MACC d = 0
}.

Lemma po_ok_mono nx d now now' id o : now <= now' -> po_ok nx d now id o -> po_ok nx d now' id o.
Proof. intros L []. constructor; auto. lia. Qed.

Lemma po_ok_next nx nx' d now id o : nx <= nx' -> po_ok nx d now id o -> po_ok nx' d now id o.
Proof. intros L []. constructor; auto. lia. Qed.

Lemma sinv_mono now now' s : now <= now' -> sinv now s -> sinv now' s.
Proof.
  intros L []. constructor; auto. intros id o G. eapply po_ok_mono; eauto.
Qed.

(* ---------- genesis ---------- *)

Lemma sinv_genesis p start wl t0 :
  ent_params_valid p = true -> 1 <= start -> sinv t0 (ent_genesis p start wl).
Proof.
  intros V S. unfold ent_genesis. constructor; sproj; cbn; try constructor; try lia; auto;
    try discriminate; try reflexivity.
  - intros [].
  - unfold status_of; cbn. stu. discriminate.
  - intros [].
  - unfold status_of; cbn. stu. discriminate.
Qed.

Lemma ent_inv_genesis b0 p start wl t0 :
  ent_params_valid p = true -> 1 <= start -> 0 <= t0 < two63 ->
  (forall d, balance b0 ENT_MACC d = 0) ->
  ent_inv {| w_bank := b0; w_ent := ent_genesis p start wl; w_now := t0 |}.
Proof.
  intros V S T B. constructor; sproj.
  - apply sinv_genesis; auto.
  - exact T.
  - rewrite B. reflexivity.
  - intros d _. apply B.
Qed.
