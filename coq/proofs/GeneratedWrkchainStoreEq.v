(* The store accessors of x/wrkchain (GeneratedWrkchainStore.v, translated from keeper/{register.go,record.go,params.go})
   implement finite maps on the ordered byte-keyed store of model/KVStore.v:
     (a) KEY   : the key every accessor builds is the byte model's encoding (model/Keys.v) and is never empty;
     (b) SPEC  : every writer is ONE okv_set / okv_del at that key; every point reader is a function of ONE okv_get;
                 every Iterate* / GetAll* is okv_iterate / the decoded listing of ONE okv_prefix;
     (c) MAP   : read-your-write, Has/Is after Set / Delete, non-interference between different logical keys of a kind
                 (from the injectivity of the key encodings, proofs/KeysProofs.v);
     (d) ISO   : a write of one kind changes no read of another kind (section ranges of the key encodings);
     (e) LIST  : on a sorted, well-formed store the listings are complete, duplicate free and in ascending numeric
                 order, agree with the point queries; GetLastWrkChainHeightInState is the lowest stored height of that
                 WRKChain only;
     (f) examples run with the generated writers from the empty store.
   Ids and heights are Go uint64: the range hypothesis [0 <= x < 2^64] appears exactly where two DIFFERENT numbers must
   have different keys, or where byte order must be numeric order; the *_refuted examples show it is needed there. *)
From Coq Require Import ZArith NArith List Bool Lia Sorted.
From MC Require Import lib.Prelude lib.GoSdk model.Keys model.KeyPrims model.KVStore model.StoreCodecPrims.
From MC Require Import GeneratedKeys GeneratedWrkchainTypes GeneratedWrkchainKeeper GeneratedWrkchainStore.
From MC Require Import proofs.KeysProofs proofs.GeneratedKeysEq proofs.KVStoreFacts proofs.KVStoreFacts2Wrkchain.
From MC Require Import model.Registry proofs.GenesisBisim.
Import ListNotations.
Open Scope Z_scope.

Notation store := (okv wrkchain_val).

(* the logical keys, spelled as the byte model spells them (notations: the props file reads the same terms) *)
Notation kparams := (wrk_encode RkParams).
Notation khighest := (wrk_encode RkHighestId).
Notation kreg id := (wrk_encode (RkReg (Z.to_N id))).
Notation klimit id := (wrk_encode (RkLimit (Z.to_N id))).
Notation kblock id h := (wrk_encode (RkRecord (Z.to_N id) (Z.to_N h))).
Notation pblocks id := (wrk_prefix_records_of (Z.to_N id)).

(* ================================================================== *)
(* (a) KEY lemmas                                                       *)
(* ================================================================== *)

Lemma wrk_encode_nonempty k : wrk_encode k <> [].
Proof. destruct k; cbn [wrk_encode reg_encode]; discriminate. Qed.

Lemma ParamsKey_eq : wrkchain_ParamsKey = kparams.
Proof. destruct gen_wrk_constants as (_ & _ & _ & _ & H). exact H. Qed.
Lemma HighestKey_eq : wrkchain_HighestWrkChainIDKey = khighest.
Proof. destruct gen_wrk_constants as (H & _). exact H. Qed.
Lemma RegPrefix_eq : wrkchain_RegisteredWrkChainPrefix = wrk_prefix_regs.
Proof. destruct gen_wrk_constants as (_ & H & _). exact H. Qed.

(* no range hypothesis: the builders truncate like a Go uint64 conversion, the model's be64 does the same *)
Lemma key_WrkChainKey id : go_wrkchain_WrkChainKey (Z.to_N id) = Ok (kreg id) /\ kreg id <> [].
Proof. split; [apply gen_wrk_WrkChainKey_eq | apply wrk_encode_nonempty]. Qed.
Lemma key_WrkChainStorageLimitKey id : go_wrkchain_WrkChainStorageLimitKey (Z.to_N id) = Ok (klimit id) /\ klimit id <> [].
Proof. split; [apply gen_wrk_WrkChainStorageLimitKey_eq | apply wrk_encode_nonempty]. Qed.
Lemma key_WrkChainBlockKey id h : go_wrkchain_WrkChainBlockKey (Z.to_N id) (Z.to_N h) = Ok (kblock id h) /\ kblock id h <> [].
Proof. split; [apply gen_wrk_WrkChainBlockKey_eq | apply wrk_encode_nonempty]. Qed.
Lemma key_WrkChainAllBlocksKey id : go_wrkchain_WrkChainAllBlocksKey (Z.to_N id) = Ok (pblocks id) /\ pblocks id <> [].
Proof. split; [apply gen_wrk_WrkChainAllBlocksKey_eq | discriminate]. Qed.
Lemma key_ParamsKey : wrkchain_ParamsKey = kparams /\ kparams <> [].
Proof. split; [apply ParamsKey_eq | apply wrk_encode_nonempty]. Qed.
Lemma key_HighestKey : wrkchain_HighestWrkChainIDKey = khighest /\ khighest <> [].
Proof. split; [apply HighestKey_eq | apply wrk_encode_nonempty]. Qed.

(* Z <-> N on the uint64 range *)
Lemma u64_wf x : 0 <= x < 2 ^ 64 -> wf_id (Z.to_N x) = true.
Proof. intros H. apply wf_id_lt. change (2 ^ 64)%N with (Z.to_N (2 ^ 64)). apply Z2N.inj_lt; lia. Qed.
Lemma u64_to_N_inj x y : 0 <= x -> 0 <= y -> Z.to_N x = Z.to_N y -> x = y.
Proof. intros Hx Hy E. apply Z2N.inj; assumption. Qed.
Lemma u64_to_N_lt x y : 0 <= x -> 0 <= y -> ((Z.to_N x < Z.to_N y)%N <-> x < y).
Proof. intros Hx Hy. symmetry. apply Z2N.inj_lt; assumption. Qed.

(* different numbers of the uint64 range have different keys *)
Lemma kreg_inj a b : 0 <= a < 2 ^ 64 -> 0 <= b < 2 ^ 64 -> kreg a = kreg b -> a = b.
Proof.
  intros Ha Hb E. apply reg_injective in E; [|cbn; apply u64_wf; assumption ..].
  injection E as E. apply u64_to_N_inj; lia.
Qed.
Lemma klimit_inj a b : 0 <= a < 2 ^ 64 -> 0 <= b < 2 ^ 64 -> klimit a = klimit b -> a = b.
Proof.
  intros Ha Hb E. apply reg_injective in E; [|cbn; apply u64_wf; assumption ..].
  injection E as E. apply u64_to_N_inj; lia.
Qed.
Lemma kblock_inj a h b g : 0 <= a < 2 ^ 64 -> 0 <= h < 2 ^ 64 -> 0 <= b < 2 ^ 64 -> 0 <= g < 2 ^ 64 ->
  kblock a h = kblock b g -> a = b /\ h = g.
Proof.
  intros Ha Hh Hb Hg E.
  apply reg_injective in E; [|cbn [wf_reg_key]; rewrite !u64_wf by assumption; reflexivity ..].
  injection E as E1 E2. split; apply u64_to_N_inj; lia.
Qed.

(* which keys lie under the per-WRKChain block prefix: those of that WRKChain (no hypothesis on the height) *)
Lemma pblocks_kblock a b h : is_prefix (pblocks a) (kblock b h) = true <-> be64 (Z.to_N a) = be64 (Z.to_N b).
Proof.
  unfold wrk_prefix_records_of. cbn [wrk_encode reg_encode]. rewrite is_prefix_cons. cbn [N.eqb Pos.eqb andb].
  apply is_prefix_same_len_app. reflexivity.
Qed.
Lemma pblocks_kblock_same a h : is_prefix (pblocks a) (kblock a h) = true.
Proof. apply pblocks_kblock. reflexivity. Qed.
Lemma pblocks_kblock_other a b h : 0 <= a < 2 ^ 64 -> 0 <= b < 2 ^ 64 -> a <> b -> is_prefix (pblocks a) (kblock b h) = false.
Proof.
  intros Ha Hb Hne. destruct (is_prefix (pblocks a) (kblock b h)) eqn:E; [|reflexivity].
  apply pblocks_kblock in E. apply be64_inj in E; [|apply wf_id_lt, u64_wf; assumption ..].
  apply u64_to_N_inj in E; [contradiction | lia | lia].
Qed.
Lemma regs_kreg a : is_prefix wrk_prefix_regs (kreg a) = true.
Proof. reflexivity. Qed.

(* ================================================================== *)
(* (b) SPEC lemmas                                                      *)
(* ================================================================== *)

(* what a point reader makes of the one store cell it looks at *)
Definition rd_has (o : option wrkchain_val) : bool := match o with Some _ => true | None => false end.
Definition rd_highest (o : option wrkchain_val) : outcome Z :=
  match o with
  | None => Err STORE_ERR
  | Some (WV_bytes b) => do n <- go_wrkchain_GetWrkChainIDFromBytes b; Ok (Z.of_N n)
  | Some _ => Panic OKV_PANIC_UNMARSHAL
  end.
Definition rd_wrkchain (o : option wrkchain_val) : outcome (go_WrkChain * bool) :=
  match o with
  | None => Ok (zero_go_WrkChain, false)
  | Some (WV_WrkChain w) => Ok (w, true)
  | Some _ => Panic OKV_PANIC_UNMARSHAL
  end.
Definition rd_limit (id : Z) (o : option wrkchain_val) : outcome (go_WrkChainStorageLimit * bool) :=
  match o with
  | None => Ok (mk_go_WrkChainStorageLimit id store_const_DefaultStorageLimit, false)
  | Some (WV_WrkChainStorageLimit l) => Ok (l, true)
  | Some _ => Panic OKV_PANIC_UNMARSHAL
  end.
Definition rd_block (o : option wrkchain_val) : outcome (go_WrkChainBlock * bool) :=
  match o with
  | None => Ok (zero_go_WrkChainBlock, false)
  | Some (WV_WrkChainBlock b) => Ok (b, true)
  | Some _ => Panic OKV_PANIC_UNMARSHAL
  end.
(* the decoders of the two iterations *)
Definition dec_wrkchain (_ : list N) (v : wrkchain_val) : outcome go_WrkChain := wrkchain_unmarshal_WrkChain (Some v).
Definition dec_block (_ : list N) (v : wrkchain_val) : outcome go_WrkChainBlock := wrkchain_unmarshal_WrkChainBlock (Some v).

Ltac keys :=
  rewrite ?ParamsKey_eq, ?HighestKey_eq, ?RegPrefix_eq,
    ?gen_wrk_WrkChainKey_eq, ?gen_wrk_WrkChainStorageLimitKey_eq, ?gen_wrk_WrkChainBlockKey_eq,
    ?gen_wrk_WrkChainAllBlocksKey_eq, ?gen_wrk_GetWrkChainIDBytes_eq.
Ltac st_step :=
  cbv beta zeta; cbn [obind]; keys; cbn [obind];
  rewrite ?Set_ok, ?Get_ok, ?Has_ok, ?Delete_ok by apply wrk_encode_nonempty; cbn [obind].

(* ---- params ---- *)
Lemma spec_GetParams s : go_st_GetParams s = wrkchain_unmarshal_Params (okv_get s kparams).
Proof. unfold go_st_GetParams. st_step. destruct (okv_get s kparams) as [[]|]; reflexivity. Qed.

Lemma spec_SetParams s p :
  go_st_SetParams s p = do _ <- go_Params_Validate p; Ok (okv_set s kparams (WV_Params p), tt).
Proof.
  unfold go_st_SetParams. destruct (go_Params_Validate p); cbn [obind]; [|reflexivity|reflexivity].
  unfold wrkchain_marshal_Params. st_step. reflexivity.
Qed.

(* ---- highest id ---- *)
Lemma spec_GetHighestWrkChainID s : go_st_GetHighestWrkChainID s = rd_highest (okv_get s khighest).
Proof.
  unfold go_st_GetHighestWrkChainID, rd_highest. st_step.
  destruct (okv_get s khighest) as [[]|]; try reflexivity.
Qed.

Lemma spec_SetHighestWrkChainID s id :
  go_st_SetHighestWrkChainID s id = Ok (okv_set s khighest (WV_bytes (be64 (Z.to_N id))), tt).
Proof. unfold go_st_SetHighestWrkChainID, wrkchain_marshal_bytes. st_step. reflexivity. Qed.

(* ---- entities ---- *)
Lemma spec_SetWrkChain s wc :
  go_st_SetWrkChain s wc = Ok (okv_set s (kreg (WrkChain_WrkchainId wc)) (WV_WrkChain wc), tt).
Proof. unfold go_st_SetWrkChain, wrkchain_marshal_WrkChain. st_step. reflexivity. Qed.

Lemma spec_IsWrkChainRegistered s id : go_st_IsWrkChainRegistered s id = Ok (rd_has (okv_get s (kreg id))).
Proof. unfold go_st_IsWrkChainRegistered. st_step. reflexivity. Qed.

Lemma spec_GetWrkChain s id : go_st_GetWrkChain s id = rd_wrkchain (okv_get s (kreg id)).
Proof.
  unfold go_st_GetWrkChain. rewrite spec_IsWrkChainRegistered. st_step.
  destruct (okv_get s (kreg id)) as [[]|]; reflexivity.
Qed.

Lemma spec_IterateWrkChains {St} s (cb : St -> go_WrkChain -> outcome (St * bool)) st :
  go_st_IterateWrkChains s cb st = okv_iterate dec_wrkchain cb (okv_prefix s wrk_prefix_regs) st.
Proof.
  unfold go_st_IterateWrkChains, okv_iter_prefix. st_step. rewrite obind_ret.
  apply iterate_ext_dec. intros k v. cbv beta zeta. apply obind_ret.
Qed.

Lemma spec_GetAllWrkChains s :
  go_st_GetAllWrkChains s = decode_all dec_wrkchain (okv_prefix s wrk_prefix_regs).
Proof.
  unfold go_st_GetAllWrkChains. cbv zeta. rewrite spec_IterateWrkChains.
  rewrite obind_ret. rewrite (iterate_append_total dec_wrkchain). cbn [app]. apply obind_ret.
Qed.

(* ---- storage limits ---- *)
Lemma spec_HasWrkChainStorageLimit s id : go_st_HasWrkChainStorageLimit s id = Ok (rd_has (okv_get s (klimit id))).
Proof. unfold go_st_HasWrkChainStorageLimit. st_step. reflexivity. Qed.

Lemma spec_GetWrkChainStorageLimit s id : go_st_GetWrkChainStorageLimit s id = rd_limit id (okv_get s (klimit id)).
Proof.
  unfold go_st_GetWrkChainStorageLimit. rewrite spec_HasWrkChainStorageLimit. st_step.
  destruct (okv_get s (klimit id)) as [[]|]; reflexivity.
Qed.

Lemma spec_SetWrkChainStorageLimit s id limit :
  go_st_SetWrkChainStorageLimit s id limit =
  Ok (okv_set s (klimit id) (WV_WrkChainStorageLimit (mk_go_WrkChainStorageLimit id limit)), tt).
Proof. unfold go_st_SetWrkChainStorageLimit, wrkchain_marshal_WrkChainStorageLimit. st_step. reflexivity. Qed.

(* ---- blocks ---- *)
Lemma spec_SetWrkChainBlock s id b :
  go_st_SetWrkChainBlock s id b = Ok (okv_set s (kblock id (WrkChainBlock_Height b)) (WV_WrkChainBlock b), tt).
Proof. unfold go_st_SetWrkChainBlock, wrkchain_marshal_WrkChainBlock. st_step. reflexivity. Qed.

Lemma spec_IsWrkChainBlockRecorded s id h : go_st_IsWrkChainBlockRecorded s id h = Ok (rd_has (okv_get s (kblock id h))).
Proof. unfold go_st_IsWrkChainBlockRecorded. st_step. reflexivity. Qed.

Lemma spec_GetWrkChainBlock s id h : go_st_GetWrkChainBlock s id h = rd_block (okv_get s (kblock id h)).
Proof.
  unfold go_st_GetWrkChainBlock. rewrite spec_IsWrkChainBlockRecorded. st_step.
  destruct (okv_get s (kblock id h)) as [[]|]; reflexivity.
Qed.

(* the guard case (nothing recorded) leaves the store untouched, and so does okv_del of an absent key *)
Lemma spec_deleteWrkChainHash s id h : go_st_deleteWrkChainHash s id h = Ok (okv_del s (kblock id h), tt).
Proof.
  unfold go_st_deleteWrkChainHash. rewrite spec_IsWrkChainBlockRecorded. st_step.
  destruct (okv_get s (kblock id h)) eqn:E; cbn [rd_has negb]; [reflexivity|].
  rewrite del_absent by exact E. reflexivity.
Qed.
Lemma spec_deleteWrkChainHash_guard s id h :
  okv_get s (kblock id h) = None -> go_st_deleteWrkChainHash s id h = Ok (s, tt).
Proof. intros E. rewrite spec_deleteWrkChainHash, del_absent by exact E. reflexivity. Qed.

Lemma spec_IterateWrkChainBlockHashes {St} s id (cb : St -> go_WrkChainBlock -> outcome (St * bool)) st :
  go_st_IterateWrkChainBlockHashes s id cb st = okv_iterate dec_block cb (okv_prefix s (pblocks id)) st.
Proof.
  unfold go_st_IterateWrkChainBlockHashes, okv_iter_prefix. st_step. rewrite obind_ret.
  apply iterate_ext_dec. intros k v. cbv beta zeta. apply obind_ret.
Qed.

Lemma spec_IterateWrkChainBlockHashesReverse {St} s id (cb : St -> go_WrkChainBlock -> outcome (St * bool)) st :
  go_st_IterateWrkChainBlockHashesReverse s id cb st = okv_iterate dec_block cb (rev (okv_prefix s (pblocks id))) st.
Proof.
  unfold go_st_IterateWrkChainBlockHashesReverse, okv_iter_prefix_rev. st_step. rewrite obind_ret.
  apply iterate_ext_dec. intros k v. cbv beta zeta. apply obind_ret.
Qed.

Lemma spec_IterateWrkChainBlockHashesPaginated {St} s id page limit (cb : St -> go_WrkChainBlock -> outcome (St * bool)) st :
  go_st_IterateWrkChainBlockHashesPaginated s id page limit cb st =
  do es <- okv_iter_prefix_paginated s (pblocks id) (Z.to_N page) (Z.to_N limit); okv_iterate dec_block cb es st.
Proof.
  unfold go_st_IterateWrkChainBlockHashesPaginated. st_step.
  destruct (okv_iter_prefix_paginated s (pblocks id) (Z.to_N page) (Z.to_N limit)); cbn [obind]; try reflexivity.
  rewrite obind_ret. apply iterate_ext_dec. intros k v. cbv beta zeta. apply obind_ret.
Qed.

Lemma spec_GetAllWrkChainBlockHashes s id :
  go_st_GetAllWrkChainBlockHashes s id = decode_all dec_block (okv_prefix s (pblocks id)).
Proof.
  unfold go_st_GetAllWrkChainBlockHashes. cbv zeta. rewrite spec_IterateWrkChainBlockHashes.
  rewrite obind_ret. rewrite (iterate_append_total dec_block). cbn [app]. apply obind_ret.
Qed.

(* page 1, limit 1, stop at once: the first entry of the ascending listing only *)
Lemma spec_GetLastWrkChainHeightInState s id :
  go_st_GetLastWrkChainHeightInState s id =
  match okv_prefix s (pblocks id) with
  | [] => Ok 0
  | (_, v) :: _ => do b <- wrkchain_unmarshal_WrkChainBlock (Some v); Ok (WrkChainBlock_Height b)
  end.
Proof.
  unfold go_st_GetLastWrkChainHeightInState. cbv zeta. rewrite spec_IterateWrkChainBlockHashesPaginated.
  change (Z.to_N 1) with 1%N. rewrite paginated_1_1. cbn [obind]. rewrite obind_ret.
  rewrite (iterate_first dec_block (fun _ b => WrkChainBlock_Height b)).
  destruct (okv_prefix s (pblocks id)) as [|[k v] r]; reflexivity.
Qed.

(* ---- writers preserve the representation invariant ---- *)
Lemma SetParams_sorted s p s' : okv_sorted s = true -> go_st_SetParams s p = Ok (s', tt) -> okv_sorted s' = true.
Proof.
  intros Hs. rewrite spec_SetParams. destruct (go_Params_Validate p); cbn [obind]; [|discriminate|discriminate].
  intros E; injection E as <-. apply set_sorted; exact Hs.
Qed.
Lemma SetHighestWrkChainID_sorted s id s' : okv_sorted s = true -> go_st_SetHighestWrkChainID s id = Ok (s', tt) -> okv_sorted s' = true.
Proof. intros Hs. rewrite spec_SetHighestWrkChainID. intros E; injection E as <-. apply set_sorted; exact Hs. Qed.
Lemma SetWrkChain_sorted s wc s' : okv_sorted s = true -> go_st_SetWrkChain s wc = Ok (s', tt) -> okv_sorted s' = true.
Proof. intros Hs. rewrite spec_SetWrkChain. intros E; injection E as <-. apply set_sorted; exact Hs. Qed.
Lemma SetWrkChainStorageLimit_sorted s id l s' : okv_sorted s = true -> go_st_SetWrkChainStorageLimit s id l = Ok (s', tt) -> okv_sorted s' = true.
Proof. intros Hs. rewrite spec_SetWrkChainStorageLimit. intros E; injection E as <-. apply set_sorted; exact Hs. Qed.
Lemma SetWrkChainBlock_sorted s id b s' : okv_sorted s = true -> go_st_SetWrkChainBlock s id b = Ok (s', tt) -> okv_sorted s' = true.
Proof. intros Hs. rewrite spec_SetWrkChainBlock. intros E; injection E as <-. apply set_sorted; exact Hs. Qed.
Lemma deleteWrkChainHash_sorted s id h s' : okv_sorted s = true -> go_st_deleteWrkChainHash s id h = Ok (s', tt) -> okv_sorted s' = true.
Proof. intros Hs. rewrite spec_deleteWrkChainHash. intros E; injection E as <-. apply del_sorted; exact Hs. Qed.

(* every writer except SetParams (guarded by Params.Validate) always succeeds *)
Lemma writers_total s :
  (forall id, exists s', go_st_SetHighestWrkChainID s id = Ok (s', tt)) /\
  (forall wc, exists s', go_st_SetWrkChain s wc = Ok (s', tt)) /\
  (forall id l, exists s', go_st_SetWrkChainStorageLimit s id l = Ok (s', tt)) /\
  (forall id b, exists s', go_st_SetWrkChainBlock s id b = Ok (s', tt)) /\
  (forall id h, exists s', go_st_deleteWrkChainHash s id h = Ok (s', tt)) /\
  (forall p, go_Params_Validate p = Ok tt -> exists s', go_st_SetParams s p = Ok (s', tt)).
Proof.
  repeat split; intros.
  - rewrite spec_SetHighestWrkChainID. eauto.
  - rewrite spec_SetWrkChain. eauto.
  - rewrite spec_SetWrkChainStorageLimit. eauto.
  - rewrite spec_SetWrkChainBlock. eauto.
  - rewrite spec_deleteWrkChainHash. eauto.
  - rewrite spec_SetParams. rewrite H. cbn [obind]. eauto.
Qed.

(* ================================================================== *)
(* (c) MAP laws                                                         *)
(* ================================================================== *)

(* what a writer does to the store: one cell, at the key of one logical key *)
Definition touches (k : reg_key) (s s' : store) : Prop :=
  (exists v, s' = okv_set s (wrk_encode k) v) \/ s' = okv_del s (wrk_encode k).

Lemma touches_get k s s' K : touches k s s' -> K <> wrk_encode k -> okv_get s' K = okv_get s K.
Proof. intros [[v ->]| ->] Hne; [apply get_set_other | apply get_del_other]; exact Hne. Qed.
Lemma touches_prefix k s s' P : touches k s s' -> is_prefix P (wrk_encode k) = false -> okv_prefix s' P = okv_prefix s P.
Proof. intros [[v ->]| ->] Hp; [apply prefix_set_other | apply prefix_del_other]; exact Hp. Qed.
Lemma touches_sorted k s s' : touches k s s' -> okv_sorted s = true -> okv_sorted s' = true.
Proof. intros [[v ->]| ->] Hs; [apply set_sorted | apply del_sorted]; exact Hs. Qed.

Lemma SetParams_touches s p s' : go_st_SetParams s p = Ok (s', tt) -> s' = okv_set s kparams (WV_Params p).
Proof.
  rewrite spec_SetParams. destruct (go_Params_Validate p); cbn [obind]; [|discriminate|discriminate].
  intros E; injection E as <-. reflexivity.
Qed.
Lemma SetHighestWrkChainID_touches s id s' :
  go_st_SetHighestWrkChainID s id = Ok (s', tt) -> s' = okv_set s khighest (WV_bytes (be64 (Z.to_N id))).
Proof. rewrite spec_SetHighestWrkChainID. intros E; injection E as <-. reflexivity. Qed.
Lemma SetWrkChain_touches s wc s' :
  go_st_SetWrkChain s wc = Ok (s', tt) -> s' = okv_set s (kreg (WrkChain_WrkchainId wc)) (WV_WrkChain wc).
Proof. rewrite spec_SetWrkChain. intros E; injection E as <-. reflexivity. Qed.
Lemma SetWrkChainStorageLimit_touches s id l s' :
  go_st_SetWrkChainStorageLimit s id l = Ok (s', tt) ->
  s' = okv_set s (klimit id) (WV_WrkChainStorageLimit (mk_go_WrkChainStorageLimit id l)).
Proof. rewrite spec_SetWrkChainStorageLimit. intros E; injection E as <-. reflexivity. Qed.
Lemma SetWrkChainBlock_touches s id b s' :
  go_st_SetWrkChainBlock s id b = Ok (s', tt) -> s' = okv_set s (kblock id (WrkChainBlock_Height b)) (WV_WrkChainBlock b).
Proof. rewrite spec_SetWrkChainBlock. intros E; injection E as <-. reflexivity. Qed.
Lemma deleteWrkChainHash_touches s id h s' :
  go_st_deleteWrkChainHash s id h = Ok (s', tt) -> s' = okv_del s (kblock id h).
Proof. rewrite spec_deleteWrkChainHash. intros E; injection E as <-. reflexivity. Qed.

(* ---- read your write ---- *)
Lemma ryw_params s p s' : go_st_SetParams s p = Ok (s', tt) -> go_st_GetParams s' = Ok p.
Proof. intros E. apply SetParams_touches in E. subst s'. rewrite spec_GetParams, get_set_same. reflexivity. Qed.

Lemma ryw_params_fields s p s' : go_st_SetParams s p = Ok (s', tt) ->
  go_st_GetParamDenom s' = Ok (Params_Denom p) /\
  go_st_GetParamRegistrationFee s' = Ok (Params_FeeRegister p) /\
  go_st_GetParamRecordFee s' = Ok (Params_FeeRecord p) /\
  go_st_GetParamPurchaseStorageFee s' = Ok (Params_FeePurchaseStorage p) /\
  go_st_GetParamDefaultStorageLimit s' = Ok (Params_DefaultStorageLimit p) /\
  go_st_GetParamMaxStorageLimit s' = Ok (Params_MaxStorageLimit p).
Proof.
  intros E. apply ryw_params in E.
  unfold go_st_GetParamDenom, go_st_GetParamRegistrationFee, go_st_GetParamRecordFee, go_st_GetParamPurchaseStorageFee,
    go_st_GetParamDefaultStorageLimit, go_st_GetParamMaxStorageLimit. rewrite E. cbn [obind]. repeat split.
Qed.

(* nothing stored: the zero Params (the code's `bz == nil` branch) *)
Lemma GetParams_default s : okv_get s kparams = None -> go_st_GetParams s = Ok zero_go_Params.
Proof. intros E. rewrite spec_GetParams, E. reflexivity. Qed.

Lemma ryw_highest s id s' : 0 <= id < 2 ^ 64 ->
  go_st_SetHighestWrkChainID s id = Ok (s', tt) -> go_st_GetHighestWrkChainID s' = Ok id.
Proof.
  intros Hid E. apply SetHighestWrkChainID_touches in E. subst s'.
  rewrite spec_GetHighestWrkChainID, get_set_same. cbn [rd_highest].
  rewrite gen_wrk_GetWrkChainIDFromBytes_eq, de64_checked_be64 by (apply wf_id_lt, u64_wf; exact Hid).
  cbn [lift_opt obind]. rewrite Z2N.id by lia. reflexivity.
Qed.
(* without the range: uint64 truncation *)
Example ryw_highest_refuted :
  exists s', go_st_SetHighestWrkChainID [] (2 ^ 64 + 1) = Ok (s', tt) /\ go_st_GetHighestWrkChainID s' = Ok 1.
Proof. eexists. split; vm_compute; reflexivity. Qed.

Lemma GetHighestWrkChainID_unset s : okv_get s khighest = None -> go_st_GetHighestWrkChainID s = Err STORE_ERR.
Proof. intros E. rewrite spec_GetHighestWrkChainID, E. reflexivity. Qed.

Lemma ryw_wrkchain s wc s' : go_st_SetWrkChain s wc = Ok (s', tt) ->
  go_st_GetWrkChain s' (WrkChain_WrkchainId wc) = Ok (wc, true) /\
  go_st_IsWrkChainRegistered s' (WrkChain_WrkchainId wc) = Ok true.
Proof.
  intros E. apply SetWrkChain_touches in E. subst s'.
  rewrite spec_GetWrkChain, spec_IsWrkChainRegistered, get_set_same. split; reflexivity.
Qed.

Lemma GetWrkChain_absent s id : go_st_IsWrkChainRegistered s id = Ok false ->
  go_st_GetWrkChain s id = Ok (zero_go_WrkChain, false).
Proof.
  rewrite spec_IsWrkChainRegistered, spec_GetWrkChain. destruct (okv_get s (kreg id)); cbn; [discriminate | reflexivity].
Qed.

Lemma ryw_limit s id l s' : go_st_SetWrkChainStorageLimit s id l = Ok (s', tt) ->
  go_st_GetWrkChainStorageLimit s' id = Ok (mk_go_WrkChainStorageLimit id l, true) /\
  go_st_HasWrkChainStorageLimit s' id = Ok true.
Proof.
  intros E. apply SetWrkChainStorageLimit_touches in E. subst s'.
  rewrite spec_GetWrkChainStorageLimit, spec_HasWrkChainStorageLimit, get_set_same. split; reflexivity.
Qed.

(* nothing stored: the module default, and `false` *)
Lemma GetWrkChainStorageLimit_default s id : go_st_HasWrkChainStorageLimit s id = Ok false ->
  go_st_GetWrkChainStorageLimit s id = Ok (mk_go_WrkChainStorageLimit id store_const_DefaultStorageLimit, false).
Proof.
  rewrite spec_HasWrkChainStorageLimit, spec_GetWrkChainStorageLimit.
  destruct (okv_get s (klimit id)); cbn; [discriminate | reflexivity].
Qed.
Lemma GetWrkChainStorageLimit_empty id :
  go_st_GetWrkChainStorageLimit [] id = Ok (mk_go_WrkChainStorageLimit id store_const_DefaultStorageLimit, false).
Proof. rewrite spec_GetWrkChainStorageLimit. reflexivity. Qed.

Lemma ryw_block s id b s' : go_st_SetWrkChainBlock s id b = Ok (s', tt) ->
  go_st_GetWrkChainBlock s' id (WrkChainBlock_Height b) = Ok (b, true) /\
  go_st_IsWrkChainBlockRecorded s' id (WrkChainBlock_Height b) = Ok true.
Proof.
  intros E. apply SetWrkChainBlock_touches in E. subst s'.
  rewrite spec_GetWrkChainBlock, spec_IsWrkChainBlockRecorded, get_set_same. split; reflexivity.
Qed.

Lemma GetWrkChainBlock_absent s id h : go_st_IsWrkChainBlockRecorded s id h = Ok false ->
  go_st_GetWrkChainBlock s id h = Ok (zero_go_WrkChainBlock, false).
Proof.
  rewrite spec_IsWrkChainBlockRecorded, spec_GetWrkChainBlock. destruct (okv_get s (kblock id h)); cbn; [discriminate | reflexivity].
Qed.

Lemma read_after_delete s id h s' : okv_sorted s = true -> go_st_deleteWrkChainHash s id h = Ok (s', tt) ->
  go_st_IsWrkChainBlockRecorded s' id h = Ok false /\
  go_st_GetWrkChainBlock s' id h = Ok (zero_go_WrkChainBlock, false).
Proof.
  intros Hs E. apply deleteWrkChainHash_touches in E. subst s'.
  rewrite spec_GetWrkChainBlock, spec_IsWrkChainBlockRecorded, get_del_same by exact Hs. split; reflexivity.
Qed.
(* the representation invariant is needed: a list with two entries under one key is not a store *)
Example read_after_delete_refuted :
  let b := mk_go_WrkChainBlock 5 EmptyString EmptyString EmptyString EmptyString EmptyString 0 in
  let s := [(kblock 1 5, WV_WrkChainBlock b); (kblock 1 5, WV_WrkChainBlock b)] in
  okv_sorted s = false /\
  exists s', go_st_deleteWrkChainHash s 1 5 = Ok (s', tt) /\ go_st_IsWrkChainBlockRecorded s' 1 5 = Ok true.
Proof. split; [vm_compute; reflexivity|]. eexists. split; vm_compute; reflexivity. Qed.

(* ---- a write at one logical key does not change a read at another one of the same kind ---- *)
Lemma other_wrkchain s wc s' id : 0 <= WrkChain_WrkchainId wc < 2 ^ 64 -> 0 <= id < 2 ^ 64 -> id <> WrkChain_WrkchainId wc ->
  go_st_SetWrkChain s wc = Ok (s', tt) ->
  go_st_GetWrkChain s' id = go_st_GetWrkChain s id /\ go_st_IsWrkChainRegistered s' id = go_st_IsWrkChainRegistered s id.
Proof.
  intros H1 H2 Hne E. apply SetWrkChain_touches in E. subst s'.
  rewrite !spec_GetWrkChain, !spec_IsWrkChainRegistered.
  rewrite get_set_other by (intros X; apply kreg_inj in X; [contradiction | assumption | assumption]).
  split; reflexivity.
Qed.
(* without the range: ids 2^64 and 0 share a key *)
Example other_wrkchain_refuted :
  let w0 := mk_go_WrkChain 0 EmptyString EmptyString EmptyString EmptyString 0 0 0 0 7 in
  let w1 := mk_go_WrkChain (2 ^ 64) EmptyString EmptyString EmptyString EmptyString 0 0 0 0 8 in
  exists s1 s2, go_st_SetWrkChain [] w0 = Ok (s1, tt) /\ go_st_SetWrkChain s1 w1 = Ok (s2, tt) /\
    go_st_GetWrkChain s1 0 = Ok (w0, true) /\ go_st_GetWrkChain s2 0 = Ok (w1, true).
Proof. do 2 eexists. repeat split; vm_compute; reflexivity. Qed.

Lemma other_limit s id l s' id' : 0 <= id < 2 ^ 64 -> 0 <= id' < 2 ^ 64 -> id' <> id ->
  go_st_SetWrkChainStorageLimit s id l = Ok (s', tt) ->
  go_st_GetWrkChainStorageLimit s' id' = go_st_GetWrkChainStorageLimit s id' /\
  go_st_HasWrkChainStorageLimit s' id' = go_st_HasWrkChainStorageLimit s id'.
Proof.
  intros H1 H2 Hne E. apply SetWrkChainStorageLimit_touches in E. subst s'.
  rewrite !spec_GetWrkChainStorageLimit, !spec_HasWrkChainStorageLimit.
  rewrite get_set_other by (intros X; apply klimit_inj in X; [contradiction | assumption | assumption]).
  split; reflexivity.
Qed.

Lemma other_block_set s id b s' id' h' :
  0 <= id < 2 ^ 64 -> 0 <= WrkChainBlock_Height b < 2 ^ 64 -> 0 <= id' < 2 ^ 64 -> 0 <= h' < 2 ^ 64 ->
  (id', h') <> (id, WrkChainBlock_Height b) ->
  go_st_SetWrkChainBlock s id b = Ok (s', tt) ->
  go_st_GetWrkChainBlock s' id' h' = go_st_GetWrkChainBlock s id' h' /\
  go_st_IsWrkChainBlockRecorded s' id' h' = go_st_IsWrkChainBlockRecorded s id' h'.
Proof.
  intros H1 H2 H3 H4 Hne E. apply SetWrkChainBlock_touches in E. subst s'.
  rewrite !spec_GetWrkChainBlock, !spec_IsWrkChainBlockRecorded.
  rewrite get_set_other by (intros X; apply kblock_inj in X; [destruct X; subst; contradiction | assumption ..]).
  split; reflexivity.
Qed.

Lemma other_block_delete s id h s' id' h' :
  0 <= id < 2 ^ 64 -> 0 <= h < 2 ^ 64 -> 0 <= id' < 2 ^ 64 -> 0 <= h' < 2 ^ 64 ->
  (id', h') <> (id, h) ->
  go_st_deleteWrkChainHash s id h = Ok (s', tt) ->
  go_st_GetWrkChainBlock s' id' h' = go_st_GetWrkChainBlock s id' h' /\
  go_st_IsWrkChainBlockRecorded s' id' h' = go_st_IsWrkChainBlockRecorded s id' h'.
Proof.
  intros H1 H2 H3 H4 Hne E. apply deleteWrkChainHash_touches in E. subst s'.
  rewrite !spec_GetWrkChainBlock, !spec_IsWrkChainBlockRecorded.
  rewrite get_del_other by (intros X; apply kblock_inj in X; [destruct X; subst; contradiction | assumption ..]).
  split; reflexivity.
Qed.

(* every reader of the blocks of ONE WRKChain, as a function of the listing under its prefix *)
Definition same_blocks_of_reads (id : Z) (s s' : store) : Prop :=
  (forall (St : Type) (cb : St -> go_WrkChainBlock -> outcome (St * bool)) (st : St),
     go_st_IterateWrkChainBlockHashes s' id cb st = go_st_IterateWrkChainBlockHashes s id cb st) /\
  (forall (St : Type) page limit (cb : St -> go_WrkChainBlock -> outcome (St * bool)) (st : St),
     go_st_IterateWrkChainBlockHashesPaginated s' id page limit cb st = go_st_IterateWrkChainBlockHashesPaginated s id page limit cb st) /\
  (forall (St : Type) (cb : St -> go_WrkChainBlock -> outcome (St * bool)) (st : St),
     go_st_IterateWrkChainBlockHashesReverse s' id cb st = go_st_IterateWrkChainBlockHashesReverse s id cb st) /\
  go_st_GetAllWrkChainBlockHashes s' id = go_st_GetAllWrkChainBlockHashes s id /\
  go_st_GetLastWrkChainHeightInState s' id = go_st_GetLastWrkChainHeightInState s id.

Lemma same_blocks_of_prefix id s s' : okv_prefix s' (pblocks id) = okv_prefix s (pblocks id) -> same_blocks_of_reads id s s'.
Proof.
  intros E. unfold same_blocks_of_reads. repeat split; intros.
  - rewrite !spec_IterateWrkChainBlockHashes, E. reflexivity.
  - rewrite !spec_IterateWrkChainBlockHashesPaginated. unfold okv_iter_prefix_paginated. rewrite E. reflexivity.
  - rewrite !spec_IterateWrkChainBlockHashesReverse, E. reflexivity.
  - rewrite !spec_GetAllWrkChainBlockHashes, E. reflexivity.
  - rewrite !spec_GetLastWrkChainHeightInState, E. reflexivity.
Qed.

(* blocks of another WRKChain never influence the listings / the lowest height of this one *)
Lemma other_blocks_listing s s' id id' : 0 <= id < 2 ^ 64 -> 0 <= id' < 2 ^ 64 -> id' <> id ->
  (exists b, go_st_SetWrkChainBlock s id b = Ok (s', tt)) \/ (exists h, go_st_deleteWrkChainHash s id h = Ok (s', tt)) ->
  same_blocks_of_reads id' s s'.
Proof.
  intros H1 H2 Hne [[b E]|[h E]]; apply same_blocks_of_prefix.
  - apply SetWrkChainBlock_touches in E. subst s'. apply prefix_set_other. apply pblocks_kblock_other; assumption.
  - apply deleteWrkChainHash_touches in E. subst s'. apply prefix_del_other. apply pblocks_kblock_other; assumption.
Qed.

(* ================================================================== *)
(* (d) ISOLATION across kinds                                           *)
(* ================================================================== *)

(* all readers of one kind agree on two stores *)
Definition same_params_reads (s s' : store) : Prop :=
  go_st_GetParams s' = go_st_GetParams s /\
  go_st_GetParamDenom s' = go_st_GetParamDenom s /\
  go_st_GetParamRegistrationFee s' = go_st_GetParamRegistrationFee s /\
  go_st_GetParamRecordFee s' = go_st_GetParamRecordFee s /\
  go_st_GetParamPurchaseStorageFee s' = go_st_GetParamPurchaseStorageFee s /\
  go_st_GetParamDefaultStorageLimit s' = go_st_GetParamDefaultStorageLimit s /\
  go_st_GetParamMaxStorageLimit s' = go_st_GetParamMaxStorageLimit s.
Definition same_highest_reads (s s' : store) : Prop :=
  go_st_GetHighestWrkChainID s' = go_st_GetHighestWrkChainID s.
Definition same_entity_reads (s s' : store) : Prop :=
  (forall id, go_st_IsWrkChainRegistered s' id = go_st_IsWrkChainRegistered s id) /\
  (forall id, go_st_GetWrkChain s' id = go_st_GetWrkChain s id) /\
  (forall (St : Type) (cb : St -> go_WrkChain -> outcome (St * bool)) (st : St),
     go_st_IterateWrkChains s' cb st = go_st_IterateWrkChains s cb st) /\
  go_st_GetAllWrkChains s' = go_st_GetAllWrkChains s.
Definition same_limit_reads (s s' : store) : Prop :=
  (forall id, go_st_HasWrkChainStorageLimit s' id = go_st_HasWrkChainStorageLimit s id) /\
  (forall id, go_st_GetWrkChainStorageLimit s' id = go_st_GetWrkChainStorageLimit s id).
Definition same_block_reads (s s' : store) : Prop :=
  (forall id h, go_st_IsWrkChainBlockRecorded s' id h = go_st_IsWrkChainBlockRecorded s id h) /\
  (forall id h, go_st_GetWrkChainBlock s' id h = go_st_GetWrkChainBlock s id h) /\
  (forall id, same_blocks_of_reads id s s').

(* a reader kind depends only on its own cells / its own prefix *)
Lemma same_params_of s s' : okv_get s' kparams = okv_get s kparams -> same_params_reads s s'.
Proof.
  intros E. assert (G : go_st_GetParams s' = go_st_GetParams s) by (rewrite !spec_GetParams, E; reflexivity).
  unfold same_params_reads, go_st_GetParamDenom, go_st_GetParamRegistrationFee, go_st_GetParamRecordFee,
    go_st_GetParamPurchaseStorageFee, go_st_GetParamDefaultStorageLimit, go_st_GetParamMaxStorageLimit.
  rewrite G. repeat split.
Qed.
Lemma same_highest_of s s' : okv_get s' khighest = okv_get s khighest -> same_highest_reads s s'.
Proof. intros E. unfold same_highest_reads. rewrite !spec_GetHighestWrkChainID, E. reflexivity. Qed.
Lemma same_entity_of s s' :
  (forall id, okv_get s' (kreg id) = okv_get s (kreg id)) -> okv_prefix s' wrk_prefix_regs = okv_prefix s wrk_prefix_regs ->
  same_entity_reads s s'.
Proof.
  intros Eg Ep. unfold same_entity_reads. repeat split; intros.
  - rewrite !spec_IsWrkChainRegistered, Eg. reflexivity.
  - rewrite !spec_GetWrkChain, Eg. reflexivity.
  - rewrite !spec_IterateWrkChains, Ep. reflexivity.
  - rewrite !spec_GetAllWrkChains, Ep. reflexivity.
Qed.
Lemma same_limit_of s s' : (forall id, okv_get s' (klimit id) = okv_get s (klimit id)) -> same_limit_reads s s'.
Proof.
  intros Eg. unfold same_limit_reads. split; intros.
  - rewrite !spec_HasWrkChainStorageLimit, Eg. reflexivity.
  - rewrite !spec_GetWrkChainStorageLimit, Eg. reflexivity.
Qed.
Lemma same_block_of s s' :
  (forall id h, okv_get s' (kblock id h) = okv_get s (kblock id h)) ->
  (forall id, okv_prefix s' (pblocks id) = okv_prefix s (pblocks id)) -> same_block_reads s s'.
Proof.
  intros Eg Ep. unfold same_block_reads. repeat split; intros.
  - rewrite !spec_IsWrkChainBlockRecorded, Eg. reflexivity.
  - rewrite !spec_GetWrkChainBlock, Eg. reflexivity.
  - apply same_blocks_of_prefix, Ep.
  - apply same_blocks_of_prefix, Ep.
  - apply same_blocks_of_prefix, Ep.
  - apply same_blocks_of_prefix, Ep.
  - apply same_blocks_of_prefix, Ep.
Qed.

(* the generic step: writer = one cell at the key of [k]; reader kind = cells / prefix of another constructor *)
Lemma touches_iso_params k s s' : touches k s s' -> k <> RkParams -> same_params_reads s s'.
Proof.
  intros T Hk. apply same_params_of. apply (touches_get _ _ _ _ T).
  destruct k; cbn [wrk_encode reg_encode]; try discriminate. congruence.
Qed.
Lemma touches_iso_highest k s s' : touches k s s' -> k <> RkHighestId -> same_highest_reads s s'.
Proof.
  intros T Hk. apply same_highest_of. apply (touches_get _ _ _ _ T).
  destruct k; cbn [wrk_encode reg_encode]; try discriminate. congruence.
Qed.
Lemma touches_iso_entity k s s' : touches k s s' -> (forall id, k <> RkReg id) -> same_entity_reads s s'.
Proof.
  intros T Hk. apply same_entity_of.
  - intros id. apply (touches_get _ _ _ _ T).
    destruct k; cbn [wrk_encode reg_encode]; try discriminate. exfalso; eapply Hk; reflexivity.
  - apply (touches_prefix _ _ _ _ T). destruct k; try reflexivity. exfalso; eapply Hk; reflexivity.
Qed.
Lemma touches_iso_limit k s s' : touches k s s' -> (forall id, k <> RkLimit id) -> same_limit_reads s s'.
Proof.
  intros T Hk. apply same_limit_of. intros id. apply (touches_get _ _ _ _ T).
  destruct k; cbn [wrk_encode reg_encode]; try discriminate. exfalso; eapply Hk; reflexivity.
Qed.
Lemma touches_iso_block k s s' : touches k s s' -> (forall id h, k <> RkRecord id h) -> same_block_reads s s'.
Proof.
  intros T Hk. apply same_block_of.
  - intros id h. apply (touches_get _ _ _ _ T).
    destruct k; cbn [wrk_encode reg_encode]; try discriminate. exfalso; eapply Hk; reflexivity.
  - intros id. apply (touches_prefix _ _ _ _ T). destruct k; try reflexivity. exfalso; eapply Hk; reflexivity.
Qed.

(* each writer touches one cell *)
Lemma W_params s s' : (exists p, go_st_SetParams s p = Ok (s', tt)) -> touches RkParams s s'.
Proof. intros [p E]. apply SetParams_touches in E. left. eauto. Qed.
Lemma W_highest s s' : (exists id, go_st_SetHighestWrkChainID s id = Ok (s', tt)) -> touches RkHighestId s s'.
Proof. intros [p E]. apply SetHighestWrkChainID_touches in E. left. eauto. Qed.
Lemma W_entity s s' : (exists wc, go_st_SetWrkChain s wc = Ok (s', tt)) -> exists n, touches (RkReg n) s s'.
Proof. intros [p E]. apply SetWrkChain_touches in E. eexists. left. eauto. Qed.
Lemma W_limit s s' : (exists id l, go_st_SetWrkChainStorageLimit s id l = Ok (s', tt)) -> exists n, touches (RkLimit n) s s'.
Proof. intros [id [l E]]. apply SetWrkChainStorageLimit_touches in E. eexists. left. eauto. Qed.
Lemma W_block s s' :
  (exists id b, go_st_SetWrkChainBlock s id b = Ok (s', tt)) \/ (exists id h, go_st_deleteWrkChainHash s id h = Ok (s', tt)) ->
  exists n m, touches (RkRecord n m) s s'.
Proof.
  intros [[id [b E]]|[id [h E]]].
  - apply SetWrkChainBlock_touches in E. do 2 eexists. left. eauto.
  - apply deleteWrkChainHash_touches in E. do 2 eexists. right. eauto.
Qed.

Theorem iso_params_reads s s' :
  (exists id, go_st_SetHighestWrkChainID s id = Ok (s', tt)) \/
  (exists wc, go_st_SetWrkChain s wc = Ok (s', tt)) \/
  (exists id l, go_st_SetWrkChainStorageLimit s id l = Ok (s', tt)) \/
  (exists id b, go_st_SetWrkChainBlock s id b = Ok (s', tt)) \/
  (exists id h, go_st_deleteWrkChainHash s id h = Ok (s', tt)) ->
  same_params_reads s s'.
Proof.
  intros [H|[H|[H|H]]].
  - apply W_highest in H. eapply touches_iso_params; [exact H | discriminate].
  - apply W_entity in H. destruct H as [n H]. eapply touches_iso_params; [exact H | discriminate].
  - apply W_limit in H. destruct H as [n H]. eapply touches_iso_params; [exact H | discriminate].
  - apply W_block in H. destruct H as [n [m H]]. eapply touches_iso_params; [exact H | discriminate].
Qed.

Theorem iso_highest_reads s s' :
  (exists p, go_st_SetParams s p = Ok (s', tt)) \/
  (exists wc, go_st_SetWrkChain s wc = Ok (s', tt)) \/
  (exists id l, go_st_SetWrkChainStorageLimit s id l = Ok (s', tt)) \/
  (exists id b, go_st_SetWrkChainBlock s id b = Ok (s', tt)) \/
  (exists id h, go_st_deleteWrkChainHash s id h = Ok (s', tt)) ->
  same_highest_reads s s'.
Proof.
  intros [H|[H|[H|H]]].
  - apply W_params in H. eapply touches_iso_highest; [exact H | discriminate].
  - apply W_entity in H. destruct H as [n H]. eapply touches_iso_highest; [exact H | discriminate].
  - apply W_limit in H. destruct H as [n H]. eapply touches_iso_highest; [exact H | discriminate].
  - apply W_block in H. destruct H as [n [m H]]. eapply touches_iso_highest; [exact H | discriminate].
Qed.

Theorem iso_entity_reads s s' :
  (exists p, go_st_SetParams s p = Ok (s', tt)) \/
  (exists id, go_st_SetHighestWrkChainID s id = Ok (s', tt)) \/
  (exists id l, go_st_SetWrkChainStorageLimit s id l = Ok (s', tt)) \/
  (exists id b, go_st_SetWrkChainBlock s id b = Ok (s', tt)) \/
  (exists id h, go_st_deleteWrkChainHash s id h = Ok (s', tt)) ->
  same_entity_reads s s'.
Proof.
  intros [H|[H|[H|H]]].
  - apply W_params in H. eapply touches_iso_entity; [exact H | discriminate].
  - apply W_highest in H. eapply touches_iso_entity; [exact H | discriminate].
  - apply W_limit in H. destruct H as [n H]. eapply touches_iso_entity; [exact H | discriminate].
  - apply W_block in H. destruct H as [n [m H]]. eapply touches_iso_entity; [exact H | discriminate].
Qed.

Theorem iso_limit_reads s s' :
  (exists p, go_st_SetParams s p = Ok (s', tt)) \/
  (exists id, go_st_SetHighestWrkChainID s id = Ok (s', tt)) \/
  (exists wc, go_st_SetWrkChain s wc = Ok (s', tt)) \/
  (exists id b, go_st_SetWrkChainBlock s id b = Ok (s', tt)) \/
  (exists id h, go_st_deleteWrkChainHash s id h = Ok (s', tt)) ->
  same_limit_reads s s'.
Proof.
  intros [H|[H|[H|H]]].
  - apply W_params in H. eapply touches_iso_limit; [exact H | discriminate].
  - apply W_highest in H. eapply touches_iso_limit; [exact H | discriminate].
  - apply W_entity in H. destruct H as [n H]. eapply touches_iso_limit; [exact H | discriminate].
  - apply W_block in H. destruct H as [n [m H]]. eapply touches_iso_limit; [exact H | discriminate].
Qed.

Theorem iso_block_reads s s' :
  (exists p, go_st_SetParams s p = Ok (s', tt)) \/
  (exists id, go_st_SetHighestWrkChainID s id = Ok (s', tt)) \/
  (exists wc, go_st_SetWrkChain s wc = Ok (s', tt)) \/
  (exists id l, go_st_SetWrkChainStorageLimit s id l = Ok (s', tt)) ->
  same_block_reads s s'.
Proof.
  intros [H|[H|[H|H]]].
  - apply W_params in H. eapply touches_iso_block; [exact H | discriminate].
  - apply W_highest in H. eapply touches_iso_block; [exact H | discriminate].
  - apply W_entity in H. destruct H as [n H]. eapply touches_iso_block; [exact H | discriminate].
  - apply W_limit in H. destruct H as [n H]. eapply touches_iso_block; [exact H | discriminate].
Qed.

(* ================================================================== *)
(* (e) LISTINGS                                                         *)
(* ================================================================== *)

(* well-formedness: every entry sits under the key of its own content (type, id, height), ids / heights are uint64 *)
Definition wrk_entry_wf (k : list N) (v : wrkchain_val) : Prop :=
  match v with
  | WV_Params _ => k = kparams
  | WV_bytes _ => k = khighest
  | WV_WrkChain w => 0 <= WrkChain_WrkchainId w < 2 ^ 64 /\ k = kreg (WrkChain_WrkchainId w)
  | WV_WrkChainStorageLimit l => k = klimit (WrkChainStorageLimit_WrkchainId l)
  | WV_WrkChainBlock b =>
      0 <= WrkChainBlock_Height b < 2 ^ 64 /\ exists id, 0 <= id < 2 ^ 64 /\ k = kblock id (WrkChainBlock_Height b)
  end.
Definition wrk_store_wf (s : store) : Prop := forall k v, In (k, v) s -> wrk_entry_wf k v.

Lemma wf_empty : wrk_store_wf [].
Proof. intros k v []. Qed.
Lemma wf_set s k v : wrk_store_wf s -> wrk_entry_wf k v -> wrk_store_wf (okv_set s k v).
Proof. intros Hw He k' v' Hin. apply set_in in Hin. destruct Hin as [[-> ->]|Hin]; [exact He | apply Hw; exact Hin]. Qed.
Lemma wf_del s k : wrk_store_wf s -> wrk_store_wf (okv_del s k).
Proof. intros Hw k' v' Hin. apply del_in in Hin. apply Hw; exact Hin. Qed.

Lemma SetParams_wf s p s' : wrk_store_wf s -> go_st_SetParams s p = Ok (s', tt) -> wrk_store_wf s'.
Proof. intros Hw E. apply SetParams_touches in E. subst s'. apply wf_set; [exact Hw | reflexivity]. Qed.
Lemma SetHighestWrkChainID_wf s id s' : wrk_store_wf s -> go_st_SetHighestWrkChainID s id = Ok (s', tt) -> wrk_store_wf s'.
Proof. intros Hw E. apply SetHighestWrkChainID_touches in E. subst s'. apply wf_set; [exact Hw | reflexivity]. Qed.
Lemma SetWrkChain_wf s wc s' : 0 <= WrkChain_WrkchainId wc < 2 ^ 64 ->
  wrk_store_wf s -> go_st_SetWrkChain s wc = Ok (s', tt) -> wrk_store_wf s'.
Proof. intros Hr Hw E. apply SetWrkChain_touches in E. subst s'. apply wf_set; [exact Hw | split; [exact Hr | reflexivity]]. Qed.
Lemma SetWrkChainStorageLimit_wf s id l s' : wrk_store_wf s -> go_st_SetWrkChainStorageLimit s id l = Ok (s', tt) -> wrk_store_wf s'.
Proof. intros Hw E. apply SetWrkChainStorageLimit_touches in E. subst s'. apply wf_set; [exact Hw | reflexivity]. Qed.
Lemma SetWrkChainBlock_wf s id b s' : 0 <= id < 2 ^ 64 -> 0 <= WrkChainBlock_Height b < 2 ^ 64 ->
  wrk_store_wf s -> go_st_SetWrkChainBlock s id b = Ok (s', tt) -> wrk_store_wf s'.
Proof.
  intros Hi Hh Hw E. apply SetWrkChainBlock_touches in E. subst s'. apply wf_set; [exact Hw|].
  split; [exact Hh|]. exists id. split; [exact Hi | reflexivity].
Qed.
Lemma deleteWrkChainHash_wf s id h s' : wrk_store_wf s -> go_st_deleteWrkChainHash s id h = Ok (s', tt) -> wrk_store_wf s'.
Proof. intros Hw E. apply deleteWrkChainHash_touches in E. subst s'. apply wf_del; exact Hw. Qed.

(* what sits under the two iterated prefixes of a well-formed store *)
Lemma wf_under_regs k v : wrk_entry_wf k v -> is_prefix wrk_prefix_regs k = true ->
  exists w, v = WV_WrkChain w /\ 0 <= WrkChain_WrkchainId w < 2 ^ 64 /\ k = kreg (WrkChain_WrkchainId w).
Proof.
  intros He Hp. destruct v; cbn [wrk_entry_wf] in He.
  - subst k. discriminate Hp.
  - destruct He as [Hr ->]. eauto.
  - destruct He as [_ [id [_ ->]]]. discriminate Hp.
  - subst k. discriminate Hp.
  - subst k. discriminate Hp.
Qed.

Lemma wf_under_blocks id k v : 0 <= id < 2 ^ 64 -> wrk_entry_wf k v -> is_prefix (pblocks id) k = true ->
  exists b, v = WV_WrkChainBlock b /\ 0 <= WrkChainBlock_Height b < 2 ^ 64 /\ k = kblock id (WrkChainBlock_Height b).
Proof.
  intros Hid He Hp. destruct v; cbn [wrk_entry_wf] in He.
  - subst k. discriminate Hp.
  - destruct He as [_ ->]. discriminate Hp.
  - destruct He as [Hh [id' [Hid' ->]]]. exists x. split; [reflexivity|]. split; [exact Hh|].
    apply pblocks_kblock in Hp. apply be64_inj in Hp; [|apply wf_id_lt, u64_wf; assumption ..].
    rewrite Hp. reflexivity.
  - subst k. discriminate Hp.
  - subst k. discriminate Hp.
Qed.

Definition wc_of (kv : list N * wrkchain_val) : go_WrkChain :=
  match snd kv with WV_WrkChain w => w | _ => zero_go_WrkChain end.
Definition block_of (kv : list N * wrkchain_val) : go_WrkChainBlock :=
  match snd kv with WV_WrkChainBlock b => b | _ => zero_go_WrkChainBlock end.

(* ---- GetAllWrkChains ---- *)
Theorem GetAllWrkChains_listing s : okv_sorted s = true -> wrk_store_wf s ->
  exists l, go_st_GetAllWrkChains s = Ok l /\
    map WV_WrkChain l = map snd (okv_prefix s wrk_prefix_regs) /\
    (forall w, In w l <-> go_st_GetWrkChain s (WrkChain_WrkchainId w) = Ok (w, true)) /\
    StronglySorted (fun a b => WrkChain_WrkchainId a < WrkChain_WrkchainId b) l /\
    NoDup l.
Proof.
  intros Hs Hw. set (es := okv_prefix s wrk_prefix_regs).
  assert (Hes : forall k v, In (k, v) es ->
            exists w, v = WV_WrkChain w /\ 0 <= WrkChain_WrkchainId w < 2 ^ 64 /\ k = kreg (WrkChain_WrkchainId w)).
  { intros k v Hin. apply prefix_in in Hin. destruct Hin as [Hin Hp]. apply wf_under_regs; [apply Hw; exact Hin | exact Hp]. }
  assert (Hsorted : StronglySorted (fun a b => WrkChain_WrkchainId a < WrkChain_WrkchainId b) (map wc_of es)).
  { apply (StronglySorted_map_in key_lt); [|apply sorted_strongly, prefix_sorted; exact Hs].
    intros [ka va] [kb vb] Ha Hb Hlt. destruct (Hes _ _ Ha) as [wa [-> [Hra ->]]]. destruct (Hes _ _ Hb) as [wb [-> [Hrb ->]]].
    unfold key_lt in Hlt. cbn [fst] in Hlt. unfold wc_of; cbn [snd].
    apply reg_order_reg in Hlt; [|apply u64_wf; assumption ..]. apply u64_to_N_lt in Hlt; lia. }
  exists (map wc_of es). split; [|split; [|split; [|split]]].
  - rewrite spec_GetAllWrkChains. apply decode_all_map. intros k v Hin.
    destruct (Hes _ _ Hin) as [w [-> _]]. reflexivity.
  - rewrite map_map. apply map_ext_in. intros [k v] Hin. destruct (Hes _ _ Hin) as [w [-> _]]. reflexivity.
  - intros w. rewrite spec_GetWrkChain. split.
    + intros Hin. apply in_map_iff in Hin. destruct Hin as [[k v] [E Hin]].
      destruct (Hes _ _ Hin) as [w' [-> [_ ->]]]. unfold wc_of in E; cbn [snd] in E. subst w'.
      apply prefix_in in Hin. destruct Hin as [Hin _]. rewrite (in_get _ _ _ Hs Hin). reflexivity.
    + intros E. destruct (okv_get s (kreg (WrkChain_WrkchainId w))) as [[]|] eqn:G; try discriminate E.
      cbn [rd_wrkchain] in E. injection E as ->. apply get_in in G.
      apply in_map_iff. exists (kreg (WrkChain_WrkchainId w), WV_WrkChain w). split; [reflexivity|].
      apply prefix_in. split; [exact G | apply regs_kreg].
  - exact Hsorted.
  - eapply StronglySorted_irrefl_NoDup; [|exact Hsorted]. intros a. cbv beta. lia.
Qed.

(* ---- GetAllWrkChainBlockHashes ---- *)
Theorem GetAllWrkChainBlockHashes_listing s id : 0 <= id < 2 ^ 64 -> okv_sorted s = true -> wrk_store_wf s ->
  exists l, go_st_GetAllWrkChainBlockHashes s id = Ok l /\
    map WV_WrkChainBlock l = map snd (okv_prefix s (pblocks id)) /\
    (forall b, In b l <-> go_st_GetWrkChainBlock s id (WrkChainBlock_Height b) = Ok (b, true)) /\
    StronglySorted (fun a b => WrkChainBlock_Height a < WrkChainBlock_Height b) l /\
    NoDup l.
Proof.
  intros Hid Hs Hw. set (es := okv_prefix s (pblocks id)).
  assert (Hes : forall k v, In (k, v) es ->
            exists b, v = WV_WrkChainBlock b /\ 0 <= WrkChainBlock_Height b < 2 ^ 64 /\ k = kblock id (WrkChainBlock_Height b)).
  { intros k v Hin. apply prefix_in in Hin. destruct Hin as [Hin Hp]. apply wf_under_blocks; [exact Hid | apply Hw; exact Hin | exact Hp]. }
  assert (Hsorted : StronglySorted (fun a b => WrkChainBlock_Height a < WrkChainBlock_Height b) (map block_of es)).
  { apply (StronglySorted_map_in key_lt); [|apply sorted_strongly, prefix_sorted; exact Hs].
    intros [ka va] [kb vb] Ha Hb Hlt. destruct (Hes _ _ Ha) as [wa [-> [Hra ->]]]. destruct (Hes _ _ Hb) as [wb [-> [Hrb ->]]].
    unfold key_lt in Hlt. cbn [fst] in Hlt. unfold block_of; cbn [snd].
    apply reg_order_record_same_id in Hlt; [|apply u64_wf; assumption ..]. apply u64_to_N_lt in Hlt; lia. }
  exists (map block_of es). split; [|split; [|split; [|split]]].
  - rewrite spec_GetAllWrkChainBlockHashes. apply decode_all_map. intros k v Hin.
    destruct (Hes _ _ Hin) as [w [-> _]]. reflexivity.
  - rewrite map_map. apply map_ext_in. intros [k v] Hin. destruct (Hes _ _ Hin) as [w [-> _]]. reflexivity.
  - intros b. rewrite spec_GetWrkChainBlock. split.
    + intros Hin. apply in_map_iff in Hin. destruct Hin as [[k v] [E Hin]].
      destruct (Hes _ _ Hin) as [b' [-> [_ ->]]]. unfold block_of in E; cbn [snd] in E. subst b'.
      apply prefix_in in Hin. destruct Hin as [Hin _]. rewrite (in_get _ _ _ Hs Hin). reflexivity.
    + intros E. destruct (okv_get s (kblock id (WrkChainBlock_Height b))) as [[]|] eqn:G; try discriminate E.
      cbn [rd_block] in E. injection E as ->. apply get_in in G.
      apply in_map_iff. exists (kblock id (WrkChainBlock_Height b), WV_WrkChainBlock b). split; [reflexivity|].
      apply prefix_in. split; [exact G | apply pblocks_kblock_same].
  - exact Hsorted.
  - eapply StronglySorted_irrefl_NoDup; [|exact Hsorted]. intros a. cbv beta. lia.
Qed.

(* the reverse iteration walks the same entries, descending: with the appending callback, the reversed listing *)
Lemma IterateReverse_append s id : 0 <= id < 2 ^ 64 -> okv_sorted s = true -> wrk_store_wf s ->
  forall l, go_st_GetAllWrkChainBlockHashes s id = Ok l ->
  go_st_IterateWrkChainBlockHashesReverse s id (fun acc b => Ok (acc ++ [b], false)) [] = Ok (rev l).
Proof.
  intros Hid Hs Hw l E. rewrite spec_GetAllWrkChainBlockHashes in E.
  rewrite spec_IterateWrkChainBlockHashesReverse, (iterate_append_total dec_block). cbn [app].
  set (es := okv_prefix s (pblocks id)) in *.
  assert (Hes : forall k v, In (k, v) es -> dec_block k v = Ok (block_of (k, v))).
  { intros k v Hin. apply prefix_in in Hin. destruct Hin as [Hin Hp].
    destruct (wf_under_blocks id k v Hid (Hw _ _ Hin) Hp) as [b [-> _]]. reflexivity. }
  rewrite (decode_all_map dec_block block_of es Hes) in E. injection E as <-.
  rewrite (decode_all_map dec_block block_of (rev es)) by (intros k v Hin; apply Hes; apply in_rev; exact Hin).
  cbn [obind]. rewrite map_rev. reflexivity.
Qed.

(* ---- GetLastWrkChainHeightInState: the lowest stored height of that WRKChain ---- *)
Theorem GetLastWrkChainHeightInState_lowest s id : 0 <= id < 2 ^ 64 -> okv_sorted s = true -> wrk_store_wf s ->
  exists h0, go_st_GetLastWrkChainHeightInState s id = Ok h0 /\
    ((h0 = 0 /\ forall h, 0 <= h < 2 ^ 64 -> go_st_IsWrkChainBlockRecorded s id h = Ok false) \/
     (0 <= h0 < 2 ^ 64 /\ go_st_IsWrkChainBlockRecorded s id h0 = Ok true /\
      forall h, 0 <= h < 2 ^ 64 -> go_st_IsWrkChainBlockRecorded s id h = Ok true -> h0 <= h)).
Proof.
  intros Hid Hs Hw. rewrite spec_GetLastWrkChainHeightInState.
  destruct (okv_prefix s (pblocks id)) as [|[k v] r] eqn:E.
  - exists 0. split; [reflexivity|]. left. split; [reflexivity|]. intros h Hh.
    rewrite spec_IsWrkChainBlockRecorded. destruct (okv_get s (kblock id h)) eqn:G; [|reflexivity].
    apply get_in in G. pose proof (proj1 (prefix_nil_iff s (pblocks id)) E _ _ G) as X.
    rewrite pblocks_kblock_same in X. discriminate X.
  - assert (Hin : In (k, v) (okv_prefix s (pblocks id))) by (rewrite E; left; reflexivity).
    apply prefix_in in Hin. destruct Hin as [Hin Hp].
    destruct (wf_under_blocks id k v Hid (Hw _ _ Hin) Hp) as [b [-> [Hh ->]]].
    exists (WrkChainBlock_Height b). split; [reflexivity|]. right. split; [exact Hh|]. split.
    + rewrite spec_IsWrkChainBlockRecorded, (in_get _ _ _ Hs Hin). reflexivity.
    + intros h Hr. rewrite spec_IsWrkChainBlockRecorded. destruct (okv_get s (kblock id h)) eqn:G; [|discriminate].
      intros _. apply get_in in G.
      destruct (prefix_head_lowest s (pblocks id) _ _ _ Hs E _ _ G (pblocks_kblock_same id h)) as [X|X].
      * apply kblock_inj in X; try assumption. lia.
      * apply reg_order_record_same_id in X; [|apply u64_wf; assumption ..]. apply u64_to_N_lt in X; lia.
Qed.

Corollary GetLastWrkChainHeightInState_none s id : 0 <= id < 2 ^ 64 ->
  (forall h, 0 <= h < 2 ^ 64 -> go_st_IsWrkChainBlockRecorded s id h = Ok false) -> wrk_store_wf s ->
  go_st_GetLastWrkChainHeightInState s id = Ok 0.
Proof.
  intros Hid Hnone Hw. rewrite spec_GetLastWrkChainHeightInState.
  destruct (okv_prefix s (pblocks id)) as [|[k v] r] eqn:E; [reflexivity|].
  assert (Hin : In (k, v) (okv_prefix s (pblocks id))) by (rewrite E; left; reflexivity).
  apply prefix_in in Hin. destruct Hin as [Hin Hp].
  destruct (wf_under_blocks id k v Hid (Hw _ _ Hin) Hp) as [b [-> [Hh ->]]].
  specialize (Hnone _ Hh). rewrite spec_IsWrkChainBlockRecorded in Hnone.
  destruct (okv_get s (kblock id (WrkChainBlock_Height b))) eqn:G; [discriminate|].
  (* the entry is in the list, yet the first-match read misses it: impossible, whatever the order of the list *)
  exfalso. exact (in_get_not_none _ _ _ Hin G).
Qed.

(* it looks at the blocks of that WRKChain only: two stores with the same blocks of [id] give the same answer *)
Theorem GetLastWrkChainHeightInState_own_blocks_only s1 s2 id : 0 <= id < 2 ^ 64 ->
  okv_sorted s1 = true -> wrk_store_wf s1 -> okv_sorted s2 = true -> wrk_store_wf s2 ->
  (forall h, 0 <= h < 2 ^ 64 -> go_st_GetWrkChainBlock s1 id h = go_st_GetWrkChainBlock s2 id h) ->
  go_st_GetLastWrkChainHeightInState s1 id = go_st_GetLastWrkChainHeightInState s2 id /\
  go_st_GetAllWrkChainBlockHashes s1 id = go_st_GetAllWrkChainBlockHashes s2 id.
Proof.
  intros Hid Hs1 Hw1 Hs2 Hw2 Hsame.
  assert (Hget : forall sa sb, okv_sorted sa = true -> wrk_store_wf sa -> wrk_store_wf sb ->
            (forall h, 0 <= h < 2 ^ 64 -> go_st_GetWrkChainBlock sa id h = go_st_GetWrkChainBlock sb id h) ->
            forall k v, is_prefix (pblocks id) k = true -> okv_get sa k = Some v -> okv_get sb k = Some v).
  { intros sa sb Hsa Hwa Hwb Hab k v Hp G. pose proof (get_in _ _ _ G) as Hin.
    destruct (wf_under_blocks id k v Hid (Hwa _ _ Hin) Hp) as [b [-> [Hh ->]]].
    specialize (Hab _ Hh). rewrite !spec_GetWrkChainBlock, G in Hab. cbn [rd_block] in Hab.
    destruct (okv_get sb (kblock id (WrkChainBlock_Height b))) as [v'|] eqn:G'; [|discriminate Hab].
    pose proof (get_in _ _ _ G') as Hin'.
    destruct (wf_under_blocks id _ v' Hid (Hwb _ _ Hin') (pblocks_kblock_same _ _)) as [b' [-> _]].
    cbn [rd_block] in Hab. injection Hab as ->. reflexivity. }
  assert (E : okv_prefix s1 (pblocks id) = okv_prefix s2 (pblocks id)).
  { apply prefix_ext; [exact Hs1 | exact Hs2|]. intros k Hp.
    destruct (okv_get s1 k) as [v|] eqn:G1.
    - symmetry. eapply (Hget s1 s2); eassumption.
    - destruct (okv_get s2 k) as [v|] eqn:G2; [|reflexivity].
      assert (X : okv_get s1 k = Some v) by (eapply (Hget s2 s1); try eassumption; intros h Hh; symmetry; apply Hsame; exact Hh).
      congruence. }
  rewrite !spec_GetLastWrkChainHeightInState, !spec_GetAllWrkChainBlockHashes, E. split; reflexivity.
Qed.

(* ---- the hand-written primitive reg_LowestKeyInState (model/RegistryWorld.v) is [lowest_key] of model/Registry.v over
        the abstract record map: the generated accessor computes it, for ANY association list holding exactly the
        recorded heights of that WRKChain (positive heights, as [lowest_key] reads 0 as "none") ---- *)
Theorem GetLastWrkChainHeightInState_lowest_key s id (recs : list ((Z * Z) * record)) :
  0 <= id < 2 ^ 64 -> okv_sorted s = true -> wrk_store_wf s ->
  (forall h, (exists rc, In ((id, h), rc) recs) <-> (0 <= h < 2 ^ 64 /\ go_st_IsWrkChainBlockRecorded s id h = Ok true)) ->
  (forall h rc, In ((id, h), rc) recs -> 1 <= h) ->
  go_st_GetLastWrkChainHeightInState s id = Ok (lowest_key id recs).
Proof.
  intros Hid Hs Hw Hiff Hpos.
  destruct (GetLastWrkChainHeightInState_lowest s id Hid Hs Hw) as [h0 [E Hcase]]. rewrite E. f_equal.
  destruct (lowest_key_spec id recs Hpos) as [[E0 Hn]|[[rc0 Hin] Hmin]].
  - rewrite E0. destruct Hcase as [[-> _]|[Hr [Hrec _]]]; [reflexivity|].
    exfalso. destruct (proj2 (Hiff h0) (conj Hr Hrec)) as [rc X]. exact (Hn _ _ X).
  - destruct (proj1 (Hiff _) (ex_intro _ rc0 Hin)) as [Hr Hrec].
    destruct Hcase as [[_ Hnone]|[Hr0 [Hrec0 Hmin0]]].
    + rewrite (Hnone _ Hr) in Hrec. discriminate.
    + destruct (proj2 (Hiff h0) (conj Hr0 Hrec0)) as [rc X].
      pose proof (Hmin _ _ X). pose proof (Hmin0 _ Hr Hrec). lia.
Qed.

(* ================================================================== *)
(* (f) non-vacuity: the generated writers run from the empty store       *)
(* ================================================================== *)

Definition ex_params : go_Params := mk_go_Params 10 1 5 1 50000 600000.
Definition ex_wc (id : Z) (owner : go_addr) : go_WrkChain :=
  mk_go_WrkChain id EmptyString EmptyString EmptyString EmptyString 0 0 0 0 owner.
Definition ex_block (h : Z) : go_WrkChainBlock :=
  mk_go_WrkChainBlock h EmptyString EmptyString EmptyString EmptyString EmptyString h.

(* blocks written in DESCENDING height order, ids interleaved; height 300 needs two bytes *)
Definition ex_store : outcome store :=
  do r <- go_st_SetParams [] ex_params;
  do r <- go_st_SetWrkChainBlock (fst r) 1 (ex_block 300);
  do r <- go_st_SetWrkChain (fst r) (ex_wc 2 8);
  do r <- go_st_SetWrkChainBlock (fst r) 2 (ex_block 7);
  do r <- go_st_SetHighestWrkChainID (fst r) 3;
  do r <- go_st_SetWrkChainBlock (fst r) 1 (ex_block 20);
  do r <- go_st_SetWrkChain (fst r) (ex_wc 1 7);
  do r <- go_st_SetWrkChainStorageLimit (fst r) 1 100;
  do r <- go_st_SetWrkChainBlock (fst r) 1 (ex_block 5);
  Ok (fst r).

Example ex_run :
  exists s, ex_store = Ok s /\ okv_sorted s = true /\
    (* read back *)
    go_st_GetParams s = Ok ex_params /\
    go_st_GetParamMaxStorageLimit s = Ok 600000 /\
    go_st_GetHighestWrkChainID s = Ok 3 /\
    go_st_GetWrkChain s 2 = Ok (ex_wc 2 8, true) /\
    go_st_GetWrkChain s 3 = Ok (zero_go_WrkChain, false) /\
    go_st_GetWrkChainStorageLimit s 1 = Ok (mk_go_WrkChainStorageLimit 1 100, true) /\
    go_st_GetWrkChainStorageLimit s 2 = Ok (mk_go_WrkChainStorageLimit 2 50000, false) /\
    go_st_GetWrkChainBlock s 1 300 = Ok (ex_block 300, true) /\
    go_st_GetWrkChainBlock s 2 300 = Ok (zero_go_WrkChainBlock, false) /\
    (* listings: ascending numeric order, per WRKChain *)
    go_st_GetAllWrkChains s = Ok [ex_wc 1 7; ex_wc 2 8] /\
    go_st_GetAllWrkChainBlockHashes s 1 = Ok [ex_block 5; ex_block 20; ex_block 300] /\
    go_st_GetAllWrkChainBlockHashes s 2 = Ok [ex_block 7] /\
    go_st_IterateWrkChainBlockHashesReverse s 1 (fun acc b => Ok (acc ++ [b], false)) [] = Ok [ex_block 300; ex_block 20; ex_block 5] /\
    go_st_GetLastWrkChainHeightInState s 1 = Ok 5 /\
    go_st_GetLastWrkChainHeightInState s 2 = Ok 7 /\
    go_st_GetLastWrkChainHeightInState s 3 = Ok 0 /\
    (* delete the lowest block of WRKChain 1: its lowest height moves up, nothing else moves *)
    exists s', go_st_deleteWrkChainHash s 1 5 = Ok (s', tt) /\
      go_st_GetLastWrkChainHeightInState s' 1 = Ok 20 /\
      go_st_GetLastWrkChainHeightInState s' 2 = Ok 7 /\
      go_st_GetAllWrkChains s' = go_st_GetAllWrkChains s /\
      go_st_GetParams s' = go_st_GetParams s /\
      go_st_GetWrkChainBlock s' 1 5 = Ok (zero_go_WrkChainBlock, false) /\
      (* deleting what is not there leaves the store untouched *)
      go_st_deleteWrkChainHash s' 1 5 = Ok (s', tt).
Proof.
  eexists. split; [vm_compute; reflexivity|].
  repeat (split; [vm_compute; reflexivity|]).
  eexists. split; [vm_compute; reflexivity|].
  repeat split; vm_compute; reflexivity.
Qed.

(* SetParams refuses invalid parameters and writes nothing *)
Example ex_SetParams_invalid : is_ok (go_st_SetParams [] zero_go_Params) = false.
Proof. vm_compute. reflexivity. Qed.

(* the example store is well-formed (so the listing theorems apply to it) *)
Example ex_wf : forall s, ex_store = Ok s -> wrk_store_wf s.
Proof.
  intros s E. unfold ex_store in E.
  repeat match type of E with
  | obind ?w _ = Ok _ =>
      let s1 := fresh "s" in let E1 := fresh "E" in
      destruct w as [[s1 []]| |] eqn:E1; cbn [obind fst] in E; [|discriminate E ..]
  end.
  injection E as <-.
  assert (R : forall x, In x [1; 2; 5; 7; 20; 300] -> 0 <= x < 2 ^ 64) by (cbn [In]; intros x H; lia).
  eapply SetWrkChainBlock_wf; [| |clear E8|exact E8]; [apply R; cbn; tauto ..|].
  eapply SetWrkChainStorageLimit_wf; [clear E7|exact E7].
  eapply SetWrkChain_wf; [|clear E6|exact E6]; [apply R; cbn; tauto|].
  eapply SetWrkChainBlock_wf; [| |clear E5|exact E5]; [apply R; cbn; tauto ..|].
  eapply SetHighestWrkChainID_wf; [clear E4|exact E4].
  eapply SetWrkChainBlock_wf; [| |clear E3|exact E3]; [apply R; cbn; tauto ..|].
  eapply SetWrkChain_wf; [|clear E2|exact E2]; [apply R; cbn; tauto|].
  eapply SetWrkChainBlock_wf; [| |clear E1|exact E1]; [apply R; cbn; tauto ..|].
  eapply SetParams_wf; [|exact E0]. apply wf_empty.
Qed.

(* ================================================================== *)
(* summaries (the headline forms of props/C18storewrkchain.v)           *)
(* ================================================================== *)

(* every writer is ONE okv_set / okv_del at the byte model's key of its logical key *)
Theorem writers_single_cell s :
  (forall p, go_st_SetParams s p = do _ <- go_Params_Validate p; Ok (okv_set s (wrk_encode RkParams) (WV_Params p), tt)) /\
  (forall id, go_st_SetHighestWrkChainID s id = Ok (okv_set s (wrk_encode RkHighestId) (WV_bytes (be64 (Z.to_N id))), tt)) /\
  (forall wc, go_st_SetWrkChain s wc =
     Ok (okv_set s (wrk_encode (RkReg (Z.to_N (WrkChain_WrkchainId wc)))) (WV_WrkChain wc), tt)) /\
  (forall id l, go_st_SetWrkChainStorageLimit s id l =
     Ok (okv_set s (wrk_encode (RkLimit (Z.to_N id))) (WV_WrkChainStorageLimit (mk_go_WrkChainStorageLimit id l)), tt)) /\
  (forall id b, go_st_SetWrkChainBlock s id b =
     Ok (okv_set s (wrk_encode (RkRecord (Z.to_N id) (Z.to_N (WrkChainBlock_Height b)))) (WV_WrkChainBlock b), tt)) /\
  (forall id h, go_st_deleteWrkChainHash s id h = Ok (okv_del s (wrk_encode (RkRecord (Z.to_N id) (Z.to_N h))), tt)) /\
  (forall id h, go_st_IsWrkChainBlockRecorded s id h = Ok false -> go_st_deleteWrkChainHash s id h = Ok (s, tt)).
Proof.
  repeat match goal with |- _ /\ _ => split end; intros.
  - apply spec_SetParams.
  - apply spec_SetHighestWrkChainID.
  - apply spec_SetWrkChain.
  - apply spec_SetWrkChainStorageLimit.
  - apply spec_SetWrkChainBlock.
  - apply spec_deleteWrkChainHash.
  - apply spec_deleteWrkChainHash_guard. rewrite spec_IsWrkChainBlockRecorded in H.
    destruct (okv_get s (kblock id h)); [discriminate | reflexivity].
Qed.

(* every point reader looks at ONE cell; every iteration at ONE prefix listing *)
Theorem readers_footprint s1 s2 :
  (okv_get s1 (wrk_encode RkParams) = okv_get s2 (wrk_encode RkParams) -> go_st_GetParams s1 = go_st_GetParams s2) /\
  (okv_get s1 (wrk_encode RkHighestId) = okv_get s2 (wrk_encode RkHighestId) ->
     go_st_GetHighestWrkChainID s1 = go_st_GetHighestWrkChainID s2) /\
  (forall id, okv_get s1 (wrk_encode (RkReg (Z.to_N id))) = okv_get s2 (wrk_encode (RkReg (Z.to_N id))) ->
     go_st_IsWrkChainRegistered s1 id = go_st_IsWrkChainRegistered s2 id /\ go_st_GetWrkChain s1 id = go_st_GetWrkChain s2 id) /\
  (forall id, okv_get s1 (wrk_encode (RkLimit (Z.to_N id))) = okv_get s2 (wrk_encode (RkLimit (Z.to_N id))) ->
     go_st_HasWrkChainStorageLimit s1 id = go_st_HasWrkChainStorageLimit s2 id /\
     go_st_GetWrkChainStorageLimit s1 id = go_st_GetWrkChainStorageLimit s2 id) /\
  (forall id h, okv_get s1 (wrk_encode (RkRecord (Z.to_N id) (Z.to_N h))) = okv_get s2 (wrk_encode (RkRecord (Z.to_N id) (Z.to_N h))) ->
     go_st_IsWrkChainBlockRecorded s1 id h = go_st_IsWrkChainBlockRecorded s2 id h /\
     go_st_GetWrkChainBlock s1 id h = go_st_GetWrkChainBlock s2 id h) /\
  (okv_prefix s1 wrk_prefix_regs = okv_prefix s2 wrk_prefix_regs ->
     go_st_GetAllWrkChains s1 = go_st_GetAllWrkChains s2 /\
     forall (St : Type) (cb : St -> go_WrkChain -> outcome (St * bool)) (st : St),
       go_st_IterateWrkChains s1 cb st = go_st_IterateWrkChains s2 cb st) /\
  (forall id, okv_prefix s1 (wrk_prefix_records_of (Z.to_N id)) = okv_prefix s2 (wrk_prefix_records_of (Z.to_N id)) ->
     go_st_GetAllWrkChainBlockHashes s1 id = go_st_GetAllWrkChainBlockHashes s2 id /\
     go_st_GetLastWrkChainHeightInState s1 id = go_st_GetLastWrkChainHeightInState s2 id /\
     (forall (St : Type) (cb : St -> go_WrkChainBlock -> outcome (St * bool)) (st : St),
       go_st_IterateWrkChainBlockHashes s1 id cb st = go_st_IterateWrkChainBlockHashes s2 id cb st) /\
     (forall (St : Type) page limit (cb : St -> go_WrkChainBlock -> outcome (St * bool)) (st : St),
       go_st_IterateWrkChainBlockHashesPaginated s1 id page limit cb st = go_st_IterateWrkChainBlockHashesPaginated s2 id page limit cb st) /\
     (forall (St : Type) (cb : St -> go_WrkChainBlock -> outcome (St * bool)) (st : St),
       go_st_IterateWrkChainBlockHashesReverse s1 id cb st = go_st_IterateWrkChainBlockHashesReverse s2 id cb st)).
Proof.
  split; [|split; [|split; [|split; [|split; [|split]]]]].
  - intros E. rewrite !spec_GetParams, E. reflexivity.
  - intros E. rewrite !spec_GetHighestWrkChainID, E. reflexivity.
  - intros id E. rewrite !spec_IsWrkChainRegistered, !spec_GetWrkChain, E. split; reflexivity.
  - intros id E. rewrite !spec_HasWrkChainStorageLimit, !spec_GetWrkChainStorageLimit, E. split; reflexivity.
  - intros id h E. rewrite !spec_IsWrkChainBlockRecorded, !spec_GetWrkChainBlock, E. split; reflexivity.
  - intros E. split; [rewrite !spec_GetAllWrkChains, E; reflexivity|].
    intros. rewrite !spec_IterateWrkChains, E. reflexivity.
  - intros id E. destruct (same_blocks_of_prefix id s2 s1 E) as (H1 & H2 & H3 & H4 & H5). repeat split; auto.
Qed.

(* the iterations are the store model's loop over the prefix listing, ascending / descending / first entry *)
Theorem iterations_are_prefix_walks s :
  (forall (St : Type) (cb : St -> go_WrkChain -> outcome (St * bool)) (st : St),
     go_st_IterateWrkChains s cb st =
     okv_iterate (fun _ v => wrkchain_unmarshal_WrkChain (Some v)) cb (okv_prefix s wrk_prefix_regs) st) /\
  (forall id (St : Type) (cb : St -> go_WrkChainBlock -> outcome (St * bool)) (st : St),
     go_st_IterateWrkChainBlockHashes s id cb st =
     okv_iterate (fun _ v => wrkchain_unmarshal_WrkChainBlock (Some v)) cb (okv_prefix s (wrk_prefix_records_of (Z.to_N id))) st) /\
  (forall id (St : Type) (cb : St -> go_WrkChainBlock -> outcome (St * bool)) (st : St),
     go_st_IterateWrkChainBlockHashesReverse s id cb st =
     okv_iterate (fun _ v => wrkchain_unmarshal_WrkChainBlock (Some v)) cb (rev (okv_prefix s (wrk_prefix_records_of (Z.to_N id)))) st) /\
  (forall id, go_st_GetLastWrkChainHeightInState s id =
     match okv_prefix s (wrk_prefix_records_of (Z.to_N id)) with
     | [] => Ok 0
     | (_, v) :: _ => do b <- wrkchain_unmarshal_WrkChainBlock (Some v); Ok (WrkChainBlock_Height b)
     end).
Proof.
  repeat match goal with |- _ /\ _ => split end; intros.
  - apply spec_IterateWrkChains.
  - apply spec_IterateWrkChainBlockHashes.
  - apply spec_IterateWrkChainBlockHashesReverse.
  - apply spec_GetLastWrkChainHeightInState.
Qed.

Theorem writers_preserve_sorted s s' : okv_sorted s = true ->
  (exists p, go_st_SetParams s p = Ok (s', tt)) \/
  (exists id, go_st_SetHighestWrkChainID s id = Ok (s', tt)) \/
  (exists wc, go_st_SetWrkChain s wc = Ok (s', tt)) \/
  (exists id l, go_st_SetWrkChainStorageLimit s id l = Ok (s', tt)) \/
  (exists id b, go_st_SetWrkChainBlock s id b = Ok (s', tt)) \/
  (exists id h, go_st_deleteWrkChainHash s id h = Ok (s', tt)) ->
  okv_sorted s' = true.
Proof.
  intros Hs [[p E]|[[id E]|[[wc E]|[[id [l E]]|[[id [b E]]|[id [h E]]]]]]].
  - eapply SetParams_sorted; eassumption.
  - eapply SetHighestWrkChainID_sorted; eassumption.
  - eapply SetWrkChain_sorted; eassumption.
  - eapply SetWrkChainStorageLimit_sorted; eassumption.
  - eapply SetWrkChainBlock_sorted; eassumption.
  - eapply deleteWrkChainHash_sorted; eassumption.
Qed.

Theorem writers_preserve_wf s s' : wrk_store_wf s ->
  (exists p, go_st_SetParams s p = Ok (s', tt)) \/
  (exists id, go_st_SetHighestWrkChainID s id = Ok (s', tt)) \/
  (exists wc, 0 <= WrkChain_WrkchainId wc < 2 ^ 64 /\ go_st_SetWrkChain s wc = Ok (s', tt)) \/
  (exists id l, go_st_SetWrkChainStorageLimit s id l = Ok (s', tt)) \/
  (exists id b, 0 <= id < 2 ^ 64 /\ 0 <= WrkChainBlock_Height b < 2 ^ 64 /\ go_st_SetWrkChainBlock s id b = Ok (s', tt)) \/
  (exists id h, go_st_deleteWrkChainHash s id h = Ok (s', tt)) ->
  wrk_store_wf s'.
Proof.
  intros Hs [[p E]|[[id E]|[[wc [R E]]|[[id [l E]]|[[id [b [R1 [R2 E]]]]|[id [h E]]]]]]].
  - eapply SetParams_wf; eassumption.
  - eapply SetHighestWrkChainID_wf; eassumption.
  - eapply SetWrkChain_wf; eassumption.
  - eapply SetWrkChainStorageLimit_wf; eassumption.
  - exact (SetWrkChainBlock_wf _ _ _ _ R1 R2 Hs E).
  - eapply deleteWrkChainHash_wf; eassumption.
Qed.

Lemma empty_store_ok : okv_sorted (@nil (list N * wrkchain_val)) = true /\ wrk_store_wf [].
Proof. split; [reflexivity | apply wf_empty]. Qed.

(* the documented answers when nothing is stored *)
Theorem defaults s :
  (okv_get s (wrk_encode RkParams) = None -> go_st_GetParams s = Ok zero_go_Params) /\
  (okv_get s (wrk_encode RkHighestId) = None -> go_st_GetHighestWrkChainID s = Err STORE_ERR) /\
  (forall id, go_st_IsWrkChainRegistered s id = Ok false -> go_st_GetWrkChain s id = Ok (zero_go_WrkChain, false)) /\
  (forall id, go_st_HasWrkChainStorageLimit s id = Ok false ->
     go_st_GetWrkChainStorageLimit s id = Ok (mk_go_WrkChainStorageLimit id store_const_DefaultStorageLimit, false)) /\
  (forall id h, go_st_IsWrkChainBlockRecorded s id h = Ok false -> go_st_GetWrkChainBlock s id h = Ok (zero_go_WrkChainBlock, false)) /\
  (forall id, go_st_GetWrkChainStorageLimit [] id = Ok (mk_go_WrkChainStorageLimit id store_const_DefaultStorageLimit, false)).
Proof.
  repeat match goal with |- _ /\ _ => split end; intros.
  - apply GetParams_default; assumption.
  - apply GetHighestWrkChainID_unset; assumption.
  - apply GetWrkChain_absent; assumption.
  - apply GetWrkChainStorageLimit_default; assumption.
  - apply GetWrkChainBlock_absent; assumption.
  - apply GetWrkChainStorageLimit_empty.
Qed.

(* a well-formed store never makes a reader panic on a value of the wrong type *)
Theorem wf_point_reads_total s : wrk_store_wf s ->
  (exists p, go_st_GetParams s = Ok p) /\
  (forall id, exists r, go_st_GetWrkChain s id = Ok r) /\
  (forall id, exists r, go_st_GetWrkChainStorageLimit s id = Ok r) /\
  (forall id h, exists r, go_st_GetWrkChainBlock s id h = Ok r).
Proof.
  intros Hw. repeat match goal with |- _ /\ _ => split end; intros.
  - rewrite spec_GetParams. destruct (okv_get s kparams) as [v|] eqn:G; [|eexists; reflexivity].
    apply get_in in G. apply Hw in G. destruct v; cbn [wrk_entry_wf] in G; try (eexists; reflexivity).
    + destruct G as [_ G]. discriminate G.
    + destruct G as [_ [i [_ G]]]. discriminate G.
    + discriminate G.
    + discriminate G.
  - rewrite spec_GetWrkChain. destruct (okv_get s (kreg id)) as [v|] eqn:G; [|eexists; reflexivity].
    apply get_in in G. apply Hw in G. destruct v; cbn [wrk_entry_wf] in G; try (eexists; reflexivity).
    + discriminate G.
    + destruct G as [_ [i [_ G]]]. discriminate G.
    + discriminate G.
    + discriminate G.
  - rewrite spec_GetWrkChainStorageLimit. destruct (okv_get s (klimit id)) as [v|] eqn:G; [|eexists; reflexivity].
    apply get_in in G. apply Hw in G. destruct v; cbn [wrk_entry_wf] in G; try (eexists; reflexivity).
    + discriminate G.
    + destruct G as [_ G]. discriminate G.
    + destruct G as [_ [i [_ G]]]. discriminate G.
    + discriminate G.
  - rewrite spec_GetWrkChainBlock. destruct (okv_get s (kblock id h)) as [v|] eqn:G; [|eexists; reflexivity].
    apply get_in in G. apply Hw in G. destruct v; cbn [wrk_entry_wf] in G; try (eexists; reflexivity).
    + discriminate G.
    + destruct G as [_ G]. discriminate G.
    + discriminate G.
    + discriminate G.
Qed.

(* ---- the hypotheses of the listing theorems are needed ---- *)
(* a value of the wrong type under an entity key: the listing panics (MustUnmarshal) *)
Example listing_wf_refuted :
  let s : store := [(kreg 1, WV_Params zero_go_Params)] in
  okv_sorted s = true /\ go_st_GetAllWrkChains s = Panic OKV_PANIC_UNMARSHAL.
Proof. split; vm_compute; reflexivity. Qed.
(* a block stored under a key that is not the key of its own Height: the answer is a height that is not recorded *)
Example last_height_wf_refuted :
  let s : store := [(kblock 1 5, WV_WrkChainBlock (ex_block 9))] in
  okv_sorted s = true /\ go_st_GetLastWrkChainHeightInState s 1 = Ok 9 /\ go_st_IsWrkChainBlockRecorded s 1 9 = Ok false.
Proof. repeat split; vm_compute; reflexivity. Qed.
(* a list that is not sorted is not a store: the "listing" is not ascending and the lowest height is wrong *)
Example last_height_sorted_refuted :
  let s : store := [(kblock 1 9, WV_WrkChainBlock (ex_block 9)); (kblock 1 5, WV_WrkChainBlock (ex_block 5))] in
  okv_sorted s = false /\ wrk_store_wf s /\
  go_st_GetLastWrkChainHeightInState s 1 = Ok 9 /\ go_st_IsWrkChainBlockRecorded s 1 5 = Ok true.
Proof.
  split; [vm_compute; reflexivity|]. split; [|split; vm_compute; reflexivity].
  intros k v [X|[X|[]]]; injection X as <- <-; (split; [cbn; lia | exists 1; split; [lia | reflexivity]]).
Qed.
(* the lowest_key of model/Registry.v reads 0 as "none": with a height-0 record it depends on the order of the
   association list, the generated accessor does not -- hence the hypothesis [1 <= h] of
   GetLastWrkChainHeightInState_lowest_key *)
Example lowest_key_zero_height_order_dependent :
  let rc := {| rc_key := 0; rc_hashes := []; rc_time := 0 |} in
  lowest_key 1 [((1, 0), rc); ((1, 5), rc)] = 0 /\ lowest_key 1 [((1, 5), rc); ((1, 0), rc)] = 5.
Proof. split; reflexivity. Qed.
