(* x/wrkchain WrkChainsFiltered: the FilteredPaginate callback generated from the Go source
   (GeneratedWrkchainKeeper.go_WrkChainsFiltered_callback) is "append iff filter && accumulate, report
   filter" for the specification filter [wrk_list_flt] (model/QueryFilterSpec.v); hence the SDK loop
   driven by it is the hand-written pagination model with that filter, and C20 holds of its pages. *)
From MC Require Import lib.Prelude lib.GoSdk GeneratedWrkchainTypes model.WrkchainKeeperPrims GeneratedWrkchainKeeper.
From MC Require Import model.Paginate model.PaginateCallback model.QueryFilterSpec proofs.PaginateProofs proofs.PaginateCallbackEq.
From Coq Require Import NArith Sorted.
Local Open Scope Z_scope.

Lemma go_len_pos_iff : forall s, (0 <? go_len s) = negb (str_empty s).
Proof. destruct s; reflexivity. Qed.

(* Exact behaviour on every input, whatever the bech32 primitive answers: the callback first validates
   the request's owner (when it is not empty) - on EVERY call, i.e. once per visited item - and an
   error / panic of that check is the callback's; otherwise it is the filter-append law. *)
Lemma wrk_callback_cases : forall req wc acc xs,
  go_WrkChainsFiltered_callback req wc acc xs =
  do _ <- (if QueryWrkChainsFilteredRequest_Owner req =? go_zero_addr
           then Ok go_zero_addr else sdk_AccAddressFromBech32 (QueryWrkChainsFilteredRequest_Owner req));
  Ok (if wrk_list_flt req wc && acc then xs ++ [wc] else xs, wrk_list_flt req wc).
Proof.
  intros req wc acc xs. unfold go_WrkChainsFiltered_callback, wrk_list_flt, AddrStr_len, go_append.
  rewrite !go_len_pos_iff.
  destruct (QueryWrkChainsFilteredRequest_Owner req =? go_zero_addr) eqn:Eo; simpl;
    [| destruct (sdk_AccAddressFromBech32 (QueryWrkChainsFilteredRequest_Owner req)); simpl; try reflexivity ];
    destruct (str_empty (QueryWrkChainsFilteredRequest_Moniker req)); simpl;
    repeat match goal with |- context [if ?c then _ else _] => destruct c eqn:? end;
    simpl in *; try reflexivity; try discriminate.
Qed.

(* the filter-append law under the exact condition: the owner is empty or passes the bech32 check *)
Lemma wrk_callback_law_if : forall req wc acc xs,
  (QueryWrkChainsFilteredRequest_Owner req = go_zero_addr \/
   exists a, sdk_AccAddressFromBech32 (QueryWrkChainsFilteredRequest_Owner req) = Ok a) ->
  go_WrkChainsFiltered_callback req wc acc xs =
  Ok (if wrk_list_flt req wc && acc then xs ++ [wc] else xs, wrk_list_flt req wc).
Proof.
  intros req wc acc xs H. rewrite wrk_callback_cases.
  destruct (QueryWrkChainsFilteredRequest_Owner req =? go_zero_addr) eqn:Eo; [reflexivity|].
  destruct H as [H|[a H]].
  - apply Z.eqb_neq in Eo. contradiction.
  - rewrite H. reflexivity.
Qed.

(* ... and in the other case the callback fails with the error of the check, whatever the item *)
Lemma wrk_callback_err_if : forall req wc acc xs c,
  QueryWrkChainsFilteredRequest_Owner req <> go_zero_addr ->
  sdk_AccAddressFromBech32 (QueryWrkChainsFilteredRequest_Owner req) = Err c ->
  go_WrkChainsFiltered_callback req wc acc xs = Err c.
Proof.
  intros req wc acc xs c Hn H. rewrite wrk_callback_cases.
  apply Z.eqb_neq in Hn. rewrite Hn, H. reflexivity.
Qed.
Lemma wrk_callback_panic_if : forall req wc acc xs c,
  QueryWrkChainsFilteredRequest_Owner req <> go_zero_addr ->
  sdk_AccAddressFromBech32 (QueryWrkChainsFilteredRequest_Owner req) = Panic c ->
  go_WrkChainsFiltered_callback req wc acc xs = Panic c.
Proof.
  intros req wc acc xs c Hn H. rewrite wrk_callback_cases.
  apply Z.eqb_neq in Hn. rewrite Hn, H. reflexivity.
Qed.

(* In this development addresses are abstract (go_addr = Z, every value spells a well-formed address):
   the module's sdk_AccAddressFromBech32 primitive (model/RegistryWorld.v) accepts everything, so the
   error case is empty and the law holds on ALL inputs. *)
Lemma wrk_bech32_total : forall a, exists b, sdk_AccAddressFromBech32 a = Ok b.
Proof. intros a. unfold sdk_AccAddressFromBech32. eauto. Qed.

Theorem wrk_callback_law : forall req wc acc xs,
  go_WrkChainsFiltered_callback req wc acc xs =
  Ok (if wrk_list_flt req wc && acc then xs ++ [wc] else xs, wrk_list_flt req wc).
Proof. intros. apply wrk_callback_law_if. right. apply wrk_bech32_total. Qed.

Theorem wrk_callback_filter_append : forall req,
  filter_append_cb (go_WrkChainsFiltered_callback req) (wrk_list_flt req).
Proof. intros req v acc xs. apply wrk_callback_law. Qed.

(* ---- FilteredPaginate driven by the generated callback = the model with the spec filter ---- *)
Local Open Scope N_scope.
Local Notation length := List.length.

Theorem wrk_query_is_model : forall (items : list (N * go_WrkChain)) req preq,
  list_query_cb items (go_WrkChainsFiltered_callback req) preq =
  omap page_of_model (filtered_paginate items (fun _ wc => wrk_list_flt req wc) preq).
Proof. intros. apply (list_query_cb_eq _ _ (wrk_callback_filter_append req)). Qed.

Theorem wrk_query_from_is_model : forall (items : list (N * go_WrkChain)) req preq st0,
  filtered_paginate_cb items (go_WrkChainsFiltered_callback req) preq st0 =
  omap (fun r => {| cres_state := st0 ++ map snd (res_items r);
                    cres_next_key := res_next_key r; cres_total := res_total r |})
       (filtered_paginate items (fun _ wc => wrk_list_flt req wc) preq).
Proof. intros. apply (filtered_paginate_cb_eq_from _ _ (wrk_callback_filter_append req)). Qed.

(* ---- C20 for the pages the handler produces with the generated callback ---- *)
Theorem wrk_key_pages_partition : forall (items : list (N * go_WrkChain)) req (limit : N) (fuel : nat),
  Sorted N.lt (map fst items) ->
  1 <= limit -> limit + 1 < two64N -> N.of_nat (length items) < two64N ->
  (length items + 1 <= fuel)%nat ->
  all_pages_by_key_cb fuel items (go_WrkChainsFiltered_callback req) limit = filter (wrk_list_flt req) (map snd items).
Proof. intros items req. apply (cb_key_pages_partition _ _ (wrk_callback_filter_append req)). Qed.

Theorem wrk_offset_pages_partition : forall (items : list (N * go_WrkChain)) req (limit : N) (fuel : nat),
  1 <= limit -> N.of_nat (length items) + limit + 1 < two64N ->
  (length items + 1 <= fuel)%nat ->
  all_pages_by_offset_cb fuel items (go_WrkChainsFiltered_callback req) limit = filter (wrk_list_flt req) (map snd items).
Proof. intros items req. apply (cb_offset_pages_partition _ _ (wrk_callback_filter_append req)). Qed.

Theorem wrk_key_pages_partition_rev : forall (items : list (N * go_WrkChain)) req (limit : N) (fuel : nat),
  Sorted N.lt (map fst items) ->
  1 <= limit -> limit + 1 < two64N -> N.of_nat (length items) < two64N ->
  (length items + 1 <= fuel)%nat ->
  all_pages_by_key_rev_cb fuel items (go_WrkChainsFiltered_callback req) limit = rev (filter (wrk_list_flt req) (map snd items)).
Proof. intros items req. apply (cb_key_pages_partition_rev _ _ (wrk_callback_filter_append req)). Qed.

Theorem wrk_offset_pages_partition_rev : forall (items : list (N * go_WrkChain)) req (limit : N) (fuel : nat),
  1 <= limit -> N.of_nat (length items) + limit + 1 < two64N ->
  (length items + 1 <= fuel)%nat ->
  all_pages_by_offset_rev_cb fuel items (go_WrkChainsFiltered_callback req) limit = rev (filter (wrk_list_flt req) (map snd items)).
Proof. intros items req. apply (cb_offset_pages_partition_rev _ _ (wrk_callback_filter_append req)). Qed.

Theorem wrk_single_page_sound : forall (items : list (N * go_WrkChain)) req (preq : page_req) r,
  Sorted N.lt (map fst items) ->
  list_query_cb items (go_WrkChainsFiltered_callback req) preq = Ok r ->
  exists its : list (N * go_WrkChain),
    cres_state r = map snd its /\
    (forall x, In x its -> In x items /\ wrk_list_flt req (snd x) = true) /\
    NoDup its /\
    (pr_offset preq < two64N -> pr_limit preq < two64N -> N.of_nat (length items) < two64N ->
     (length (cres_state r) <= N.to_nat (eff_limit preq))%nat).
Proof. intros items req. apply (cb_single_page_sound _ _ (wrk_callback_filter_append req)). Qed.

Theorem wrk_total_count : forall (items : list (N * go_WrkChain)) req (preq : page_req) r,
  (match pr_key preq with KeyAt _ => False | _ => True end) ->
  (pr_count_total preq = true \/ pr_limit preq = 0) ->
  N.of_nat (length items) < two64N ->
  list_query_cb items (go_WrkChainsFiltered_callback req) preq = Ok r ->
  cres_total r = N.of_nat (length (filter (wrk_list_flt req) (map snd items))).
Proof. intros items req. apply (cb_total_count _ _ (wrk_callback_filter_append req)). Qed.
