(* x/wrkchain gRPC POINT queries (keeper/grpc_query.go: WrkChain, WrkChainBlock, WrkChainStorage) as generated from the Go
   source on every run (GeneratedWrkchainKeeper.v: go_WrkChain_handler, go_WrkChainBlock_handler, go_WrkChainStorage;
   a handler named like the record it returns carries the suffix _handler).

   part 1  exact behaviour of each handler on EVERY request and world: a complete case split with the gRPC status of
           every failure (no hypothesis); for WrkChainStorage also the reading in terms of the model
           ([limit_of], [rg_num], [max_purchasable], i.e. [q_storage]) under the two range hypotheses that
           gen_wrk_GetMaxPurchasableSlots_eq needs, and a refutation without them;
   part 2  the C20 clause "each returned item equals what the corresponding point query returns": an item of the store
           listing handed to the list query (and hence every item of every page the generated list-query callback
           produces) is exactly what the point query answers for its id;
   part 3  "queries never modify state".

   Proof robustness: each generated definition is unfolded once and then split by the shape of the goal
   ([pq_split]: the next test / the next store lookup); no temporary of the generated file is named. *)
From Coq Require Import ZifyBool NArith Sorted.
From MC Require Import lib.Prelude lib.AMap lib.GoSdk GeneratedWrkchainTypes model.Bank model.Registry model.RegistrySpec
  model.WrkchainKeeperPrims GeneratedWrkchainKeeper.
From MC Require Import model.Paginate model.PaginateCallback.
From MC Require Import proofs.RegistryProofs proofs.GeneratedWrkchainEq proofs.GeneratedWrkchainQueryEq.
From MC Require proofs.GeneratedWrkchainGenesisEq.
Local Open Scope Z_scope.

#[local] Arguments Z.sub : simpl never.
#[local] Arguments Z.ltb : simpl never.
#[local] Arguments Z.leb : simpl never.
#[local] Arguments Z.eqb : simpl never.
#[local] Arguments aget : simpl never.
#[local] Arguments u64_sub : simpl never.

(* split on the next test or store lookup of the goal, whatever side it is on *)
Ltac pq_split :=
  cbn;
  repeat (match goal with
          | |- context [if ?c then _ else _] => destruct c eqn:?
          | |- context [match aget ?k ?m with _ => _ end] => destruct (aget k m) eqn:?
          end; cbn).

(* the stored record as the protobuf block *)
Definition to_go_block (rc : record) : go_WrkChainBlock :=
  mk_go_WrkChainBlock (rc_key rc) (hash_n 0 rc) (hash_n 1 rc) (hash_n 2 rc) (hash_n 3 rc) (hash_n 4 rc) (rc_time rc).

(* ------------------------------------------------------------------------------------------ *)
(* part 1: the handlers, on every request and world                                           *)
(* ------------------------------------------------------------------------------------------ *)

(* WrkChain: id 0 -> InvalidArgument; unknown id -> NotFound; else the stored registration *)
Theorem wrk_point_WrkChain_cases : forall w req,
  go_WrkChain_handler w req =
    let id := QueryWrkChainRequest_WrkchainId req in
    if id =? 0 then Err grpc_codes_InvalidArgument else
    match aget id (r_regs (rw_reg w)) with
    | Some rg => Ok (mk_go_QueryWrkChainResponse (to_go_entity rg))
    | None => Err grpc_codes_NotFound
    end.
Proof.
  intros w req. unfold go_WrkChain_handler, reg_GetEntity. cbv zeta. pq_split; reflexivity.
Qed.

(* ... which is the model's query [q_registration] *)
Corollary wrk_point_WrkChain_model : forall w req,
  QueryWrkChainRequest_WrkchainId req <> 0 ->
  go_WrkChain_handler w req =
    match q_registration (rw_reg w) (QueryWrkChainRequest_WrkchainId req) with
    | Some rg => Ok (mk_go_QueryWrkChainResponse (to_go_entity rg))
    | None => Err grpc_codes_NotFound
    end.
Proof.
  intros w req Hn. rewrite wrk_point_WrkChain_cases. cbv zeta. apply Z.eqb_neq in Hn. rewrite Hn. reflexivity.
Qed.

(* WrkChainBlock: id 0 / height 0 -> InvalidArgument; unknown chain -> NotFound; no record stored under
   (id, height) -> NotFound; else that record with the id and the owner read from the stored chain *)
Theorem wrk_point_WrkChainBlock_cases : forall w req,
  go_WrkChainBlock_handler w req =
    let id := QueryWrkChainBlockRequest_WrkchainId req in
    let h := QueryWrkChainBlockRequest_Height req in
    if id =? 0 then Err grpc_codes_InvalidArgument else
    if h =? 0 then Err grpc_codes_InvalidArgument else
    match aget id (r_regs (rw_reg w)) with
    | None => Err grpc_codes_NotFound
    | Some rg =>
        match aget (id, h) (r_recs (rw_reg w)) with
        | None => Err grpc_codes_NotFound
        | Some rc => Ok (mk_go_QueryWrkChainBlockResponse (to_go_block rc) (rg_id rg) (rg_owner rg))
        end
    end.
Proof.
  intros w req. unfold go_WrkChainBlock_handler, reg_GetEntity, reg_GetRecord. cbv zeta. pq_split; reflexivity.
Qed.

(* under the registry invariant the answer carries the requested id and height *)
Corollary wrk_point_WrkChainBlock_inv : forall h w g req resp,
  reg_inv h (rw_reg w) g ->
  go_WrkChainBlock_handler w req = Ok resp ->
  QueryWrkChainBlockResponse_WrkchainId resp = QueryWrkChainBlockRequest_WrkchainId req /\
  WrkChainBlock_Height (QueryWrkChainBlockResponse_Block resp) = QueryWrkChainBlockRequest_Height req /\
  q_record (rw_reg w) (QueryWrkChainBlockRequest_WrkchainId req) (QueryWrkChainBlockRequest_Height req)
    <> None.
Proof.
  intros h w g req resp I. rewrite wrk_point_WrkChainBlock_cases. cbv zeta. unfold q_record.
  destruct (QueryWrkChainBlockRequest_WrkchainId req =? 0); [discriminate|].
  destruct (QueryWrkChainBlockRequest_Height req =? 0); [discriminate|].
  destruct (aget (QueryWrkChainBlockRequest_WrkchainId req) (r_regs (rw_reg w))) as [rg|] eqn:G; [|discriminate].
  destruct (aget (QueryWrkChainBlockRequest_WrkchainId req, QueryWrkChainBlockRequest_Height req) (r_recs (rw_reg w)))
    as [rc|] eqn:R; [|discriminate].
  intros [= <-]. cbn. split; [exact (reg_inv_regs_keyed _ _ _ I _ _ G)|]. split; [|discriminate].
  apply aget_In in R. exact (GeneratedWrkchainGenesisEq.reg_inv_rc_key _ _ _ _ _ _ I R).
Qed.

(* GetMaxPurchasableSlots never fails; without any hypothesis it is the model's [max_purchasable] with the uint64
   subtraction of the Go code *)
Definition max_purchasable_u64 (s : reg_state) (id : Z) : Z :=
  match aget id (r_limits s) with
  | None => 0
  | Some l => if rp_max_limit (r_params s) <=? l then 0 else u64_sub (rp_max_limit (r_params s)) l
  end.

Lemma wrk_GetMaxPurchasableSlots_total : forall w id,
  go_GetMaxPurchasableSlots w id = Ok (max_purchasable_u64 (rw_reg w) id).
Proof.
  intros w id. unfold go_GetMaxPurchasableSlots, max_purchasable_u64, reg_GetStorageLimit, reg_GetParamMaxStorageLimit.
  cbv zeta. pq_split; reflexivity.
Qed.

Lemma max_purchasable_u64_eq : forall s id,
  rp_max_limit (r_params s) < two64 ->
  (forall l, aget id (r_limits s) = Some l -> 0 <= l) ->
  max_purchasable_u64 s id = max_purchasable s id.
Proof.
  intros s id Hmax Hl. unfold max_purchasable_u64, max_purchasable.
  destruct (aget id (r_limits s)) as [l|]; [|reflexivity].
  pose proof (Hl l eq_refl). destruct (Z.leb_spec (rp_max_limit (r_params s)) l); [reflexivity|].
  unfold u64_sub. apply wrap64_small. lia.
Qed.

(* WrkChainStorage: id 0 -> InvalidArgument; unknown chain -> NotFound; else (id and owner of the stored chain, current
   limit, used, max, how many more can be bought) - no hypothesis *)
Theorem wrk_point_WrkChainStorage_cases : forall w req,
  go_WrkChainStorage w req =
    let id := QueryWrkChainStorageRequest_WrkchainId req in
    let s := rw_reg w in
    if id =? 0 then Err grpc_codes_InvalidArgument else
    match aget id (r_regs s) with
    | None => Err grpc_codes_NotFound
    | Some rg =>
        Ok (mk_go_QueryWrkChainStorageResponse (rg_id rg) (rg_owner rg) (limit_of s id) (rg_num rg)
              (rp_max_limit (r_params s)) (max_purchasable_u64 s id))
    end.
Proof.
  intros w req. unfold go_WrkChainStorage. rewrite wrk_GetMaxPurchasableSlots_total.
  unfold reg_GetEntity, reg_GetStorageLimit, reg_GetParamMaxStorageLimit, limit_of. cbv zeta.
  pq_split; reflexivity.
Qed.

(* the storage answer of the model's [q_storage], as the protobuf response *)
Definition storage_resp (rg : registration) (si : storage_info) : go_QueryWrkChainStorageResponse :=
  mk_go_QueryWrkChainStorageResponse (rg_id rg) (si_owner si) (si_limit si) (si_used si) (si_max si)
    (si_max_purchasable si).

(* ... under the hypotheses of gen_wrk_GetMaxPurchasableSlots_eq: the model's numbers *)
Theorem wrk_point_WrkChainStorage_model : forall w req,
  rp_max_limit (r_params (rw_reg w)) < two64 ->
  (forall l, aget (QueryWrkChainStorageRequest_WrkchainId req) (r_limits (rw_reg w)) = Some l -> 0 <= l) ->
  go_WrkChainStorage w req =
    let id := QueryWrkChainStorageRequest_WrkchainId req in
    let s := rw_reg w in
    if id =? 0 then Err grpc_codes_InvalidArgument else
    match aget id (r_regs s) with
    | None => Err grpc_codes_NotFound
    | Some rg =>
        Ok (mk_go_QueryWrkChainStorageResponse (rg_id rg) (rg_owner rg) (limit_of s id) (rg_num rg)
              (rp_max_limit (r_params s)) (max_purchasable s id))
    end.
Proof.
  intros w req Hmax Hl. rewrite wrk_point_WrkChainStorage_cases. cbv zeta.
  rewrite (max_purchasable_u64_eq _ _ Hmax Hl). reflexivity.
Qed.

Corollary wrk_point_WrkChainStorage_q_storage : forall w req,
  rp_max_limit (r_params (rw_reg w)) < two64 ->
  (forall l, aget (QueryWrkChainStorageRequest_WrkchainId req) (r_limits (rw_reg w)) = Some l -> 0 <= l) ->
  QueryWrkChainStorageRequest_WrkchainId req <> 0 ->
  go_WrkChainStorage w req =
    match aget (QueryWrkChainStorageRequest_WrkchainId req) (r_regs (rw_reg w)),
          q_storage (rw_reg w) (QueryWrkChainStorageRequest_WrkchainId req) with
    | Some rg, Some si => Ok (storage_resp rg si)
    | _, _ => Err grpc_codes_NotFound
    end.
Proof.
  intros w req Hmax Hl Hn. rewrite (wrk_point_WrkChainStorage_model _ _ Hmax Hl). cbv zeta.
  apply Z.eqb_neq in Hn. rewrite Hn. unfold q_storage, storage_resp.
  destruct (aget (QueryWrkChainStorageRequest_WrkchainId req) (r_regs (rw_reg w))); reflexivity.
Qed.

(* the range hypothesis on the stored limit cannot be dropped: a stored limit below zero (never written by the chain:
   limits are uint64) makes the uint64 subtraction wrap, the model's number does not *)
Definition refute_params : reg_params :=
  {| rp_fee_register := 1; rp_fee_record := 1; rp_fee_purchase := 1; rp_denom := 0; rp_default_limit := 10;
     rp_max_limit := two64 - 1 |}.
Definition refute_rg : registration :=
  {| rg_id := 1; rg_owner := 7; rg_moniker := "m"; rg_name := "n"; rg_genesis := "g"; rg_type := "t"; rg_last := 0;
     rg_num := 0; rg_lowest := 0; rg_regtime := 5 |}.
Definition refute_world : rworld :=
  mk_rworld 0 0 {| r_params := refute_params; r_next := 2; r_regs := [(1, refute_rg)]; r_limits := [(1, -1)]; r_recs := [] |}.

Theorem wrk_point_WrkChainStorage_model_without_range_refuted :
  rp_max_limit (r_params (rw_reg refute_world)) < two64 /\
  QueryWrkChainStorageResponse_MaxPurchasable
    (match go_WrkChainStorage refute_world (mk_go_QueryWrkChainStorageRequest 1) with
     | Ok r => r | _ => zero_go_QueryWrkChainStorageResponse end) = 0 /\
  max_purchasable (rw_reg refute_world) 1 = two64.
Proof. split; [reflexivity|]. split; vm_compute; reflexivity. Qed.

(* ------------------------------------------------------------------------------------------ *)
(* part 2: list <-> point                                                                     *)
(* ------------------------------------------------------------------------------------------ *)

(* The listing handed to the list query WrkChainsFiltered (props/C20generated.v: [items : list (N * go_WrkChain)]): the
   registration store in store order, every registration under the number of its store key, as the protobuf record. *)
Definition wrk_store_listing (s : reg_state) : list (N * go_WrkChain) :=
  map (fun kv => (Z.to_N (fst kv), to_go_entity (snd kv))) (r_regs s).

(* no registration is stored under id 0 (ids start at 1) *)
Definition ids_nonzero (s : reg_state) : Prop := forall id rg, aget id (r_regs s) = Some rg -> id <> 0.

Lemma reg_inv_ids_nonzero h s g : reg_inv h s g -> ids_nonzero s.
Proof. intros I id rg G. destruct (inv_regs _ _ _ I _ _ G) as [Hr _]. lia. Qed.

Theorem wrk_listed_is_point : forall w k v,
  NoDup (akeys (r_regs (rw_reg w))) -> regs_keyed (rw_reg w) -> ids_nonzero (rw_reg w) ->
  In (k, v) (wrk_store_listing (rw_reg w)) ->
  k = Z.to_N (WrkChain_WrkchainId v) /\
  go_WrkChain_handler w (mk_go_QueryWrkChainRequest (WrkChain_WrkchainId v)) = Ok (mk_go_QueryWrkChainResponse v).
Proof.
  intros w k v ND HK H0 Hin. unfold wrk_store_listing in Hin. apply in_map_iff in Hin.
  destruct Hin as [[id rg] [E Hin]]. cbn [fst snd] in E. injection E as <- <-.
  pose proof (In_aget_nodup _ _ _ ND Hin) as G. pose proof (HK _ _ G) as Hid. pose proof (H0 _ _ G) as Hnz.
  cbn [to_go_entity WrkChain_WrkchainId]. rewrite Hid. split; [reflexivity|].
  rewrite wrk_point_WrkChain_cases. cbn [QueryWrkChainRequest_WrkchainId]. cbv zeta.
  apply Z.eqb_neq in Hnz. rewrite Hnz, G. reflexivity.
Qed.

(* ... and nothing else is answered: an Ok answer of the point query is listed, under its id *)
Theorem wrk_point_is_listed : forall w req resp,
  go_WrkChain_handler w req = Ok resp ->
  In (Z.to_N (QueryWrkChainRequest_WrkchainId req), QueryWrkChainResponse_Wrkchain resp) (wrk_store_listing (rw_reg w)).
Proof.
  intros w req resp. rewrite wrk_point_WrkChain_cases. cbv zeta.
  destruct (QueryWrkChainRequest_WrkchainId req =? 0); [discriminate|].
  destruct (aget (QueryWrkChainRequest_WrkchainId req) (r_regs (rw_reg w))) as [rg|] eqn:G; [|discriminate].
  intros [= <-]. cbn [QueryWrkChainResponse_Wrkchain]. unfold wrk_store_listing. apply in_map_iff.
  exists (QueryWrkChainRequest_WrkchainId req, rg). split; [reflexivity|]. apply aget_In. exact G.
Qed.

Lemma Sorted_Nlt_NoDup (l : list N) : Sorted N.lt l -> NoDup l.
Proof.
  intros S. apply Sorted_StronglySorted in S; [|intros a b c; apply N.lt_trans].
  induction S as [|x l S IH F]; constructor; [|exact IH].
  intros Hin. rewrite Forall_forall in F. apply F in Hin. exact (N.lt_irrefl _ Hin).
Qed.

Lemma wrk_listing_sorted_NoDup s : Sorted N.lt (map fst (wrk_store_listing s)) -> NoDup (akeys (r_regs s)).
Proof.
  intros S. apply Sorted_Nlt_NoDup in S. unfold wrk_store_listing in S. rewrite map_map in S. cbn [fst] in S.
  unfold akeys. rewrite <- (map_map fst Z.to_N) in S. exact (NoDup_map_inv _ _ S).
Qed.

(* the C20 clause for the pages of the generated list query: every item of every page WrkChainsFiltered's generated
   callback produces over the store listing is exactly the point query's answer for its id *)
Theorem wrk_page_item_is_point : forall w req preq r v,
  Sorted N.lt (map fst (wrk_store_listing (rw_reg w))) -> regs_keyed (rw_reg w) -> ids_nonzero (rw_reg w) ->
  list_query_cb (wrk_store_listing (rw_reg w)) (go_WrkChainsFiltered_callback req) preq = Ok r ->
  In v (cres_state r) ->
  go_WrkChain_handler w (mk_go_QueryWrkChainRequest (WrkChain_WrkchainId v)) = Ok (mk_go_QueryWrkChainResponse v).
Proof.
  intros w req preq r v S HK H0 Hq Hin.
  destruct (wrk_single_page_sound _ _ _ _ S Hq) as [its [Est [Hits _]]].
  rewrite Est in Hin. apply in_map_iff in Hin. destruct Hin as [[k v'] [E Hx]]. cbn [snd] in E. subst v'.
  destruct (Hits _ Hx) as [Hl _].
  exact (proj2 (wrk_listed_is_point w k v (wrk_listing_sorted_NoDup _ S) HK H0 Hl)).
Qed.

Corollary wrk_page_item_is_point_inv : forall h w g req preq r v,
  reg_inv h (rw_reg w) g ->
  Sorted N.lt (map fst (wrk_store_listing (rw_reg w))) ->
  list_query_cb (wrk_store_listing (rw_reg w)) (go_WrkChainsFiltered_callback req) preq = Ok r ->
  In v (cres_state r) ->
  go_WrkChain_handler w (mk_go_QueryWrkChainRequest (WrkChain_WrkchainId v)) = Ok (mk_go_QueryWrkChainResponse v).
Proof.
  intros h w g req preq r v I S. apply wrk_page_item_is_point; [exact S| |].
  - exact (reg_inv_regs_keyed _ _ _ I).
  - exact (reg_inv_ids_nonzero _ _ _ I).
Qed.

Corollary wrk_listed_is_point_inv : forall h w g k v,
  reg_inv h (rw_reg w) g ->
  In (k, v) (wrk_store_listing (rw_reg w)) ->
  k = Z.to_N (WrkChain_WrkchainId v) /\
  go_WrkChain_handler w (mk_go_QueryWrkChainRequest (WrkChain_WrkchainId v)) = Ok (mk_go_QueryWrkChainResponse v).
Proof.
  intros h w g k v I. apply wrk_listed_is_point.
  - exact (inv_nd_regs _ _ _ I).
  - exact (reg_inv_regs_keyed _ _ _ I).
  - exact (reg_inv_ids_nonzero _ _ _ I).
Qed.

(* the keyed hypothesis cannot be dropped: a registration stored under another id than its own is listed, and the
   point query for the id it carries does not answer it *)
Definition unkeyed_world : rworld :=
  mk_rworld 0 0 {| r_params := refute_params; r_next := 3; r_regs := [(2, refute_rg)]; r_limits := [(2, 10)]; r_recs := [] |}.
Theorem wrk_listed_is_point_without_keyed_refuted :
  In (2%N, to_go_entity refute_rg) (wrk_store_listing (rw_reg unkeyed_world)) /\
  go_WrkChain_handler unkeyed_world (mk_go_QueryWrkChainRequest (WrkChain_WrkchainId (to_go_entity refute_rg)))
    = Err grpc_codes_NotFound.
Proof. split; [left; reflexivity | vm_compute; reflexivity]. Qed.

(* ------------------------------------------------------------------------------------------ *)
(* part 3: queries never modify state                                                         *)
(* ------------------------------------------------------------------------------------------ *)
(* By type: go_WrkChain_handler, go_WrkChainBlock_handler, go_WrkChainStorage (and go_GetMaxPurchasableSlots, and the
   list-query callback) were all rendered as READERS - [rworld -> request -> outcome response], no world is returned -
   so the caller's world is the one it had.  None of them was rendered state-passing. *)
Definition wrk_point_readers :
  (rworld -> go_QueryWrkChainRequest -> outcome go_QueryWrkChainResponse) *
  (rworld -> go_QueryWrkChainBlockRequest -> outcome go_QueryWrkChainBlockResponse) *
  (rworld -> go_QueryWrkChainStorageRequest -> outcome go_QueryWrkChainStorageResponse) :=
  (go_WrkChain_handler, go_WrkChainBlock_handler, go_WrkChainStorage).

(* ... and the answers depend on the registry state only: not on block time nor wall clock *)
Theorem wrk_point_state_only : forall w w',
  rw_reg w = rw_reg w' ->
  (forall req, go_WrkChain_handler w req = go_WrkChain_handler w' req) /\
  (forall req, go_WrkChainBlock_handler w req = go_WrkChainBlock_handler w' req) /\
  (forall req, go_WrkChainStorage w req = go_WrkChainStorage w' req).
Proof.
  intros w w' E. repeat split; intros req.
  - rewrite !wrk_point_WrkChain_cases, E. reflexivity.
  - rewrite !wrk_point_WrkChainBlock_cases, E. reflexivity.
  - rewrite !wrk_point_WrkChainStorage_cases, E. reflexivity.
Qed.

Print Assumptions wrk_point_WrkChain_cases.
Print Assumptions wrk_point_WrkChainBlock_cases.
Print Assumptions wrk_point_WrkChainBlock_inv.
Print Assumptions wrk_point_WrkChainStorage_cases.
Print Assumptions wrk_point_WrkChainStorage_model.
Print Assumptions wrk_point_WrkChainStorage_q_storage.
Print Assumptions wrk_point_WrkChainStorage_model_without_range_refuted.
Print Assumptions wrk_listed_is_point.
Print Assumptions wrk_point_is_listed.
Print Assumptions wrk_page_item_is_point.
Print Assumptions wrk_page_item_is_point_inv.
Print Assumptions wrk_listed_is_point_inv.
Print Assumptions wrk_listed_is_point_without_keyed_refuted.
Print Assumptions wrk_point_state_only.
