(* The supply queries generated from /repo/x/enterprise/keeper/locked.go and grpc_query.go (coq/GeneratedEnterpriseKeeper.v,
   re-generated on every run, written against model/EnterpriseKeeperPrims.v and lib/GoSdk.v) compute what the hand-written
   model of model/Enterprise.v computes ([q_supply_of], [q_ent_supply]), and the paginated total-supply listing - which
   the model does not have - is the bank's page with the locked amount taken off every entry of the enterprise
   denomination, for EVERY page request.

   Structure (so that the proofs survive a harmless re-generation):
     part 1  facts about the primitives (lib/GoSdk.v, model/EnterpriseKeeperPrims.v): sdk.Coin.Sub, xs[i], xs[i] = v, the
             indexed `for i, x := range xs` loop that rewrites the slice it ranges over in place ([go_range_i_pointwise]),
             the supply listing;
     part 2  a tactic [qwalk] that walks any body built from those primitives: it never mentions a temporary of the
             generated file, nor the nesting of its tests.  Loop bodies are picked from the goal;
     part 3  the keeper functions: SupplyOf, the three totals, EnterpriseSupply (the one place where a hypothesis is
             needed: see [gen_ent_EnterpriseSupply_full] for the statement without it and [.._refuted]);
     part 4  the paginated listing, for every page request; each denomination once; consistency with the point query;
     part 5  the gRPC handlers;
     part 6  the theorems of C17 (proofs/AppSupplyProofs.v) transported to the generated code under [app_inv];
     part 7  the hypotheses cannot be dropped (refutations by computation); a world with several denominations.

   Queries never change the state: by type - none of the functions below returns a world. *)
From Coq Require Import ZifyBool.
From MC Require Import lib.Prelude lib.AMap lib.GoSdk GeneratedEnterpriseTypes model.Bank model.Stream model.StreamSpec
  model.Registry model.Enterprise model.EnterpriseSpec model.App model.AppSpec model.EnterpriseKeeperPrims
  GeneratedEnterpriseKeeper.
From MC Require Import proofs.AppInv proofs.AppSupplyProofs.
Local Open Scope Z_scope.

(* the model's panic codes as the generated code's: "negative coin amount" is 23 in the model, 4 in lib/GoSdk.v; the two
   others coincide *)
Definition qpanic (c : Z) : Z :=
  if c =? PANIC_NEG then GO_PANIC_NEGCOIN
  else if c =? PANIC_DENOM then GO_PANIC_DENOM
  else if c =? PANIC_UINT64 then GO_PANIC_UINT64
  else c.
(* an amount answered by the model as the coin of denomination d answered by the generated code *)
Definition qlift (d : go_denom) (o : outcome Z) : outcome go_coin :=
  match o with Ok v => Ok (d, v) | Err c => Err c | Panic c => Panic (qpanic c) end.
(* (locked, unlocked, total) answered by the model as the UndSupply record *)
Definition qlift3 (d : go_denom) (o : outcome (Z * Z * Z)) : outcome go_UndSupply :=
  match o with
  | Ok (l, u, t) => Ok (mk_go_UndSupply d u l t)
  | Err c => Err c
  | Panic c => Panic (qpanic c)
  end.

Lemma qpanic_codes :
  qpanic PANIC_DENOM = GO_PANIC_DENOM /\ qpanic PANIC_NEG = GO_PANIC_NEGCOIN /\ qpanic PANIC_UINT64 = GO_PANIC_UINT64 /\
  PANIC_DENOM = GO_PANIC_DENOM /\ PANIC_UINT64 = GO_PANIC_UINT64 /\ PANIC_NEG <> GO_PANIC_NEGCOIN.
Proof. repeat split. discriminate. Qed.

(* the world of an application state *)
Definition qworld (a : app) : eworld := mk_eworld (a_now a) (a_bank a) (a_ent a).

(* ------------------------------------------------------------------------------------------ *)
(* part 1: the primitives                                                                     *)
(* ------------------------------------------------------------------------------------------ *)

Ltac tnorm := cbv delta [go_coin go_denom go_addr go_int coin denom addr] in *.

(* --- sdk.Coin.Sub, in the vocabulary of the model's tests --- *)
Lemma Coin_Sub_split (a b : go_coin) :
  Coin_Sub a b = if negb (fst b =? fst a) then Panic GO_PANIC_DENOM
                 else if snd a <? snd b then Panic GO_PANIC_NEGCOIN else Ok (fst a, snd a - snd b).
Proof.
  unfold Coin_Sub. tnorm. rewrite (Z.eqb_sym (fst b) (fst a)). destruct (fst a =? fst b); cbn [negb]; [|reflexivity].
  destruct (snd a - snd b <? 0) eqn:E1, (snd a <? snd b) eqn:E2; first [reflexivity | lia].
Qed.

Lemma Coin_Sub_ok (a b : go_coin) : fst b = fst a -> snd b <= snd a -> Coin_Sub a b = Ok (fst a, snd a - snd b).
Proof.
  intros Hd Ha. rewrite Coin_Sub_split. tnorm. rewrite Hd, Z.eqb_refl. cbn [negb].
  destruct (snd a <? snd b) eqn:E; [lia|reflexivity].
Qed.

(* the converse: a subtraction that answers says what it needed *)
Lemma Coin_Sub_Ok_inv (a b v : go_coin) :
  Coin_Sub a b = Ok v -> fst b = fst a /\ snd b <= snd a /\ v = (fst a, snd a - snd b).
Proof.
  rewrite Coin_Sub_split. tnorm. destruct (fst b =? fst a) eqn:E1; cbn [negb]; [|discriminate].
  destruct (snd a <? snd b) eqn:E2; [discriminate|]. intros [= <-]. repeat split; lia.
Qed.

Lemma Coin_Sub_not_Err (a b : go_coin) c : Coin_Sub a b <> Err c.
Proof. rewrite Coin_Sub_split. destruct (negb _); [discriminate|]. destruct (_ <? _); discriminate. Qed.

(* --- i.Uint64() --- *)
Lemma Int_Uint64_split (i : Z) :
  Int_Uint64 i = if i <? 0 then Panic GO_PANIC_UINT64 else if two64 <=? i then Panic GO_PANIC_UINT64 else Ok i.
Proof.
  unfold Int_Uint64, two64.
  destruct (i <? 0) eqn:E1, (18446744073709551616 <=? i) eqn:E2, (0 <=? i) eqn:E3, (i <? 18446744073709551616) eqn:E4;
    cbn [andb]; first [reflexivity | lia].
Qed.

(* --- xs[i] and xs[i] = v at the position that follows a prefix --- *)
Lemma go_index_app {A} (pre : list A) x rest : go_index (pre ++ x :: rest) (Z.of_nat (List.length pre)) = Ok x.
Proof.
  unfold go_index. destruct (Z.of_nat (List.length pre) <? 0) eqn:E; [lia|]. rewrite Nat2Z.id.
  rewrite nth_error_app2 by lia. rewrite Nat.sub_diag. reflexivity.
Qed.

Lemma list_set_app {A} (pre : list A) x rest v : list_set (pre ++ x :: rest) (List.length pre) v = pre ++ v :: rest.
Proof. induction pre as [|p pre IH]; cbn [List.app List.length list_set]; [reflexivity | rewrite IH; reflexivity]. Qed.

Lemma go_set_index_app {A} (pre : list A) x rest v :
  go_set_index (pre ++ x :: rest) (Z.of_nat (List.length pre)) v = Ok (pre ++ v :: rest).
Proof.
  unfold go_set_index, go_len_list. rewrite app_length. cbn [List.length].
  destruct ((Z.of_nat (List.length pre) <? 0) || (Z.of_nat (List.length pre + S (List.length rest)) <=? Z.of_nat (List.length pre))) eqn:E; [lia|].
  rewrite Nat2Z.id, list_set_app. reflexivity.
Qed.

(* --- the elements of a list run through a function that may fail, first failure wins --- *)
Fixpoint omap {A B} (f : A -> outcome B) (l : list A) : outcome (list B) :=
  match l with
  | [] => Ok []
  | x :: r => do v <- f x; do vs <- omap f r; Ok (v :: vs)
  end.

Lemma omap_ok {A B} (f : A -> outcome B) (g : A -> B) l :
  (forall x, In x l -> f x = Ok (g x)) -> omap f l = Ok (map g l).
Proof.
  induction l as [|x r IH]; intros H; cbn [omap map]; [reflexivity|].
  rewrite (H x (or_introl eq_refl)). cbn [obind]. rewrite IH by (intros y Hy; apply H; right; exact Hy). reflexivity.
Qed.

Lemma omap_Ok_inv {A B} (f : A -> outcome B) l vs :
  omap f l = Ok vs -> List.length vs = List.length l /\ forall x, In x l -> exists v, f x = Ok v /\ In v vs.
Proof.
  revert vs. induction l as [|x r IH]; intros vs; cbn [omap].
  - intros [= <-]. split; [reflexivity | intros x []].
  - destruct (f x) as [v| |] eqn:Ex; cbn [obind]; try discriminate.
    destruct (omap f r) as [vs'| |]; cbn [obind]; try discriminate. intros [= <-].
    destruct (IH vs' eq_refl) as [L I]. split; [cbn [List.length]; congruence|].
    intros y [<-|Hy]; [exists v; split; [exact Ex | left; reflexivity]|].
    destruct (I y Hy) as (v' & E' & I'). exists v'. split; [exact E' | right; exact I'].
Qed.

(* --- `for i, x := range xs { .. xs[i] .. xs[i] = v .. }`: a body that reads position i of the loop state and writes f of
   it back there turns the list into its image under f, element by element, from the left; the x handed to the body (a
   copy taken from the list the loop STARTED with) does not matter --- *)
Lemma go_range_from_pointwise {A R} (body : Z -> A -> list A -> outcome (loop_res (list A) R)) (f : A -> outcome A) :
  (forall pre x rest y, body (Z.of_nat (List.length pre)) y (pre ++ x :: rest) = do v <- f x; Ok (LCont (pre ++ v :: rest))) ->
  forall ys rest pre, List.length ys = List.length rest ->
  go_range_from body (Z.of_nat (List.length pre)) ys (pre ++ rest) = do vs <- omap f rest; Ok (LCont (pre ++ vs)).
Proof.
  intros Hb. induction ys as [|y ys IH]; intros [|x rest] pre L; cbn [List.length] in L; try discriminate L.
  - cbn [go_range_from omap obind]. reflexivity.
  - cbn [go_range_from omap]. rewrite Hb. destruct (f x) as [v| |]; cbn [obind]; [|reflexivity..].
    replace (Z.of_nat (List.length pre) + 1) with (Z.of_nat (List.length (pre ++ [v]))) by (rewrite app_length; cbn [List.length]; lia).
    replace (pre ++ v :: rest) with ((pre ++ [v]) ++ rest) by (rewrite <- app_assoc; reflexivity).
    rewrite IH by congruence. destruct (omap f rest) as [vs| |]; cbn [obind]; [|reflexivity..].
    rewrite <- app_assoc. reflexivity.
Qed.

Lemma go_range_i_pointwise {A R} (body : Z -> A -> list A -> outcome (loop_res (list A) R)) (f : A -> outcome A) :
  (forall pre x rest y, body (Z.of_nat (List.length pre)) y (pre ++ x :: rest) = do v <- f x; Ok (LCont (pre ++ v :: rest))) ->
  forall l, go_range_i body l l = do vs <- omap f l; Ok (LCont vs).
Proof. intros Hb l. unfold go_range_i. exact (go_range_from_pointwise body f Hb l l [] eq_refl). Qed.

#[local] Arguments go_range_i : simpl never.

(* --- the supply listing: one entry per denomination, the recorded (non-zero) supply --- *)
Lemma NoDup_map_fst_filter {A B} (p : A * B -> bool) (l : list (A * B)) :
  NoDup (map fst l) -> NoDup (map fst (filter p l)).
Proof.
  induction l as [|x r IH]; cbn [map filter]; [auto|]. intros N. inversion N as [|? ? Nx Nr]; subst.
  destruct (p x); cbn [map]; [|auto]. constructor; [|auto].
  intros I. apply Nx. apply in_map_iff in I. destruct I as (y & Ey & Iy). apply filter_In in Iy.
  apply in_map_iff. exists y. tauto.
Qed.

Lemma supply_listing_NoDup (b : bank) : NoDup (map fst (supply_listing b)).
Proof.
  unfold supply_listing. apply NoDup_map_fst_filter. rewrite map_map. cbn [fst]. rewrite map_id. apply NoDup_nodup.
Qed.

(* exactly the denominations with a non-zero recorded supply, each with that supply *)
Lemma supply_listing_In (b : bank) (c : go_coin) :
  In c (supply_listing b) <-> snd c = supply_of b (fst c) /\ snd c <> 0.
Proof.
  unfold supply_listing. rewrite filter_In, in_map_iff. split.
  - intros [(d & <- & Hd) Hn]. cbn [fst snd] in *. split; [reflexivity | lia].
  - intros [E N]. tnorm. split; [|apply negb_true_iff, Z.eqb_neq; exact N]. exists (fst c). split; [rewrite <- E; destruct c; reflexivity|].
    apply nodup_In. unfold supply_of in E. tnorm. destruct (aget (fst c) (supply b)) as [v|] eqn:G; [|congruence].
    apply aget_In in G. apply in_map_iff. exists (fst c, v). split; [reflexivity | exact G].
Qed.

Lemma supply_listing_true (b : bank) cs :
  incl cs (supply_listing b) -> forall c, In c cs -> snd c = supply_of b (fst c).
Proof. intros H c Hc. apply supply_listing_In. apply H, Hc. Qed.

(* ------------------------------------------------------------------------------------------ *)
(* part 2: the walker                                                                         *)
(* ------------------------------------------------------------------------------------------ *)

(* the names the walker may unfold: plumbing only *)
Ltac qnorm :=
  cbn [obind fst snd negb andb orb is_ok ew_bank ew_ent ew_now qlift qlift3 catch_err ret_err map_err
       Coin_Denom Coin_Amount bank_GetSupply bank_GetBalance ent_GetParamDenom ent_GetTotalLockedUnd
       bank_GetPaginatedTotalSupply
       QuerySupplyOfRequest_Denom QueryTotalSupplyRequest_Pagination LockedUnd_Amount SpentEFUND_Amount
       ent_GetLockedUndForAccount ent_GetSpentEFUNDForAccount] in *.

Ltac qunfold :=
  progress unfold Coin_Denom, Coin_Amount, bank_GetSupply, bank_GetBalance, ent_GetParamDenom, ent_GetTotalLockedUnd,
    bank_GetPaginatedTotalSupply, ent_GetLockedUndForAccount, ent_GetSpentEFUNDForAccount.

Ltac qprim :=
  match goal with
  | |- context [go_index (?pre ++ ?x :: ?rest) (Z.of_nat (List.length ?pre))] => rewrite (go_index_app pre x rest)
  | |- context [go_set_index (?pre ++ ?x :: ?rest) (Z.of_nat (List.length ?pre)) ?v] => rewrite (go_set_index_app pre x rest v)
  | |- context [Coin_Sub ?a ?b] => rewrite (Coin_Sub_split a b)
  | |- context [Int_Uint64 ?i] => rewrite (Int_Uint64_split i)
  | |- context [Coin_Add ?a ?b] => unfold Coin_Add
  end.

(* facts recorded in the context are used to rewrite the goal *)
Ltac qknown :=
  match goal with
  | H : ?x = Ok _ |- context [?x] => rewrite H
  | H : ?x = Err _ |- context [?x] => rewrite H
  | H : ?x = Panic _ |- context [?x] => rewrite H
  | H : ?x = true |- context [?x] => rewrite H
  | H : ?x = false |- context [?x] => rewrite H
  end.

Ltac prop_tests :=
  repeat match goal with
         | H : (_ <? _) = true |- _ => apply Z.ltb_lt in H
         | H : (_ <? _) = false |- _ => apply Z.ltb_ge in H
         | H : (_ <=? _) = true |- _ => apply Z.leb_le in H
         | H : (_ <=? _) = false |- _ => apply Z.leb_gt in H
         | H : (_ =? _) = true |- _ => apply Z.eqb_eq in H
         | H : (_ =? _) = false |- _ => apply Z.eqb_neq in H
         | H : negb _ = true |- _ => apply negb_true_iff in H
         | H : negb _ = false |- _ => apply negb_false_iff in H
         | H : _ || _ = true |- _ => apply orb_true_iff in H
         | H : _ || _ = false |- _ => apply orb_false_iff in H; destruct H
         | H : _ && _ = true |- _ => apply andb_true_iff in H; destruct H
         | H : _ && _ = false |- _ => apply andb_false_iff in H
         end.

(* split on the leftmost innermost atom of a test *)
Ltac split_on c :=
  lazymatch c with
  | negb ?x => split_on x
  | andb ?x _ => split_on x
  | orb ?x _ => split_on x
  | context [if ?y then _ else _] => split_on y
  | _ => destruct c eqn:?
  end.

Ltac qsplit :=
  match goal with
  | |- context [if ?c then _ else _] => split_on c
  | |- context [match ?o with Ok _ => _ | Err _ => _ | Panic _ => _ end] =>
      lazymatch o with
      | Ok _ => fail | Err _ => fail | Panic _ => fail
      | context [if _ then _ else _] => fail
      | _ => destruct o as [?|?|?] eqn:?
      end
  | |- context [let (_, _) := ?p in _] => destruct p eqn:?
  end.

Ltac qdone :=
  solve [ reflexivity
        | exfalso; tnorm; prop_tests; unfold two64 in *; first [ lia | congruence | intuition lia ]
        | tnorm; prop_tests; unfold two64 in *; repeat f_equal; first [ lia | congruence ] ].

Ltac qwalk := repeat first [ progress qnorm | qdone | qknown | qprim | qunfold | qsplit ].

(* ------------------------------------------------------------------------------------------ *)
(* part 3: the keeper functions                                                               *)
(* ------------------------------------------------------------------------------------------ *)

(* SupplyOf(denom): the model's, on every world and every denomination *)
Theorem gen_ent_GetSupplyOf_eq : forall w (d : go_denom),
  go_GetSupplyOfWithLockedNundRemoved w d = qlift d (q_supply_of (ew_bank w) (ew_ent w) d).
Proof.
  intros w d. unfold go_GetSupplyOfWithLockedNundRemoved, q_supply_of. cbv zeta. qwalk.
Qed.

(* TotalUnlocked is SupplyOf of the enterprise denomination; TotalSupply (of und) is the bank's figure *)
Theorem gen_ent_GetTotalUnLockedUnd_eq : forall w,
  go_GetTotalUnLockedUnd w = go_GetSupplyOfWithLockedNundRemoved w (ent_GetParamDenom w).
Proof.
  intros w. unfold go_GetTotalUnLockedUnd, go_GetSupplyOfWithLockedNundRemoved. cbv zeta. qwalk.
Qed.

Theorem gen_ent_GetTotalUnLockedUnd_model : forall w,
  go_GetTotalUnLockedUnd w =
    qlift (ep_denom (e_params (ew_ent w))) (q_supply_of (ew_bank w) (ew_ent w) (ep_denom (e_params (ew_ent w)))).
Proof. intros w. rewrite gen_ent_GetTotalUnLockedUnd_eq. apply gen_ent_GetSupplyOf_eq. Qed.

Theorem gen_ent_GetTotalUndSupply_eq : forall w,
  go_GetTotalUndSupply w = Ok (ep_denom (e_params (ew_ent w)), supply_of (ew_bank w) (ep_denom (e_params (ew_ent w)))).
Proof. intros w. reflexivity. Qed.

(* EnterpriseSupply.  Go converts locked, unlocked and total with Uint64(), which panics outside [0, 2^64); the model
   tests only 2^64 <= total || 2^64 <= locked.  The two differ exactly when the stored total locked is NEGATIVE and the
   model answers: the generated code panics (Uint64 of the locked amount).  Without hypothesis: *)
Theorem gen_ent_EnterpriseSupply_full : forall w,
  go_GetEnterpriseSupplyIncludingLockedUnd w =
    let o := q_ent_supply (ew_bank w) (ew_ent w) in
    if is_ok o && (snd (total_locked (ew_ent w)) <? 0) then Panic GO_PANIC_UINT64
    else qlift3 (ep_denom (e_params (ew_ent w))) o.
Proof.
  intros w. unfold go_GetEnterpriseSupplyIncludingLockedUnd, q_ent_supply. cbv zeta. qwalk.
Qed.

(* ... hence equal to the model, panic codes included (24 on both sides), when the stored total locked is not negative *)
Theorem gen_ent_EnterpriseSupply_eq : forall w,
  0 <= snd (total_locked (ew_ent w)) ->
  go_GetEnterpriseSupplyIncludingLockedUnd w =
    qlift3 (ep_denom (e_params (ew_ent w))) (q_ent_supply (ew_bank w) (ew_ent w)).
Proof.
  intros w H. rewrite gen_ent_EnterpriseSupply_full. cbv zeta.
  destruct (snd (total_locked (ew_ent w)) <? 0) eqn:E; [lia|]. rewrite andb_false_r. reflexivity.
Qed.

(* the account view (not part of C17): bank balance, locked and spent eFUND, spendable = balance + locked; Coin.Add
   panics when the stored locked entry is of another denomination *)
Theorem gen_ent_GetEnterpriseUserAccount_eq : forall w (a : go_addr),
  go_GetEnterpriseUserAccount w a =
    let d := ep_denom (e_params (ew_ent w)) in
    let l := locked_coin (ew_ent w) a in
    if d =? fst l
    then Ok (mk_go_EnterpriseUserAccount a l (d, balance (ew_bank w) a d) (spent_coin (ew_ent w) a)
               (d, balance (ew_bank w) a d + snd l))
    else Panic GO_PANIC_DENOM.
Proof.
  intros w a. unfold go_GetEnterpriseUserAccount, Addr_String. cbv zeta. qwalk.
Qed.

(* ------------------------------------------------------------------------------------------ *)
(* part 4: the paginated listing                                                              *)
(* ------------------------------------------------------------------------------------------ *)

(* what the loop does to one listed coin: sdk.Coin.Sub of the total locked for the enterprise denomination *)
Definition adjust_o (w : eworld) (c : go_coin) : outcome go_coin :=
  if fst c =? ep_denom (e_params (ew_ent w)) then Coin_Sub c (total_locked (ew_ent w)) else Ok c.
(* ... when the subtraction goes through *)
Definition adjust (w : eworld) (c : go_coin) : go_coin :=
  if fst c =? ep_denom (e_params (ew_ent w)) then (fst c, snd c - snd (total_locked (ew_ent w))) else c.
(* the subtraction goes through for the entries of the enterprise denomination on the page *)
Definition page_subtractable (w : eworld) (cs : list go_coin) : Prop :=
  forall c, In c cs -> fst c = ep_denom (e_params (ew_ent w)) ->
    fst (total_locked (ew_ent w)) = ep_denom (e_params (ew_ent w)) /\ snd (total_locked (ew_ent w)) <= snd c.

(* for EVERY page request and every world, no hypothesis: the bank's page, every coin through [adjust_o], the first
   failing subtraction (in page order) panics; an error of the pagination is returned as it is, with no page *)
Theorem gen_ent_TotalSupply_full : forall w (pg : go_PageRequest),
  go_GetTotalSupplyWithLockedNundRemoved w pg =
    do (cs, pr) <- pg (supply_listing (ew_bank w));
    do vs <- omap (adjust_o w) cs;
    Ok (vs, pr).
Proof.
  intros w pg. unfold go_GetTotalSupplyWithLockedNundRemoved. cbv zeta.
  match goal with |- context [go_range_i ?b _ _] =>
    assert (forall l, go_range_i b l l = do vs <- omap (adjust_o w) l; Ok (LCont vs)) as Hloop
  end.
  { apply go_range_i_pointwise. intros pre x rest y. unfold adjust_o. cbv beta. qwalk. }
  unfold bank_GetPaginatedTotalSupply. destruct (pg (supply_listing (ew_bank w))) as [[cs pr]|c|c]; qnorm; [| |reflexivity].
  - rewrite Hloop. destruct (omap (adjust_o w) cs) as [vs| |]; reflexivity.
  - rewrite Hloop. reflexivity.
Qed.

Lemma adjust_o_ok w c :
  (fst c = ep_denom (e_params (ew_ent w)) ->
   fst (total_locked (ew_ent w)) = ep_denom (e_params (ew_ent w)) /\ snd (total_locked (ew_ent w)) <= snd c) ->
  adjust_o w c = Ok (adjust w c).
Proof.
  intros H. unfold adjust_o, adjust. tnorm. destruct (fst c =? ep_denom (e_params (ew_ent w))) eqn:E; [|reflexivity].
  apply Z.eqb_eq in E. destruct (H E) as [Hd Ha]. apply Coin_Sub_ok; [tnorm; congruence | exact Ha].
Qed.

Lemma adjust_o_Ok_inv w c v :
  adjust_o w c = Ok v ->
  v = adjust w c /\
  (fst c = ep_denom (e_params (ew_ent w)) ->
   fst (total_locked (ew_ent w)) = ep_denom (e_params (ew_ent w)) /\ snd (total_locked (ew_ent w)) <= snd c).
Proof.
  unfold adjust_o, adjust. tnorm. destruct (fst c =? ep_denom (e_params (ew_ent w))) eqn:E.
  - intros H. apply Coin_Sub_Ok_inv in H. destruct H as (Hd & Ha & ->). apply Z.eqb_eq in E.
    split; [reflexivity|]. intros _. tnorm. split; [congruence | exact Ha].
  - intros [= <-]. apply Z.eqb_neq in E. split; [reflexivity | intros X; contradiction].
Qed.

(* on a page: Ok (cs, pr) *)
Theorem gen_ent_TotalSupply_page : forall w (pg : go_PageRequest) cs pr,
  pg (supply_listing (ew_bank w)) = Ok (cs, pr) ->
  page_subtractable w cs ->
  go_GetTotalSupplyWithLockedNundRemoved w pg = Ok (map (adjust w) cs, pr).
Proof.
  intros w pg cs pr Hp Hs. rewrite gen_ent_TotalSupply_full, Hp. cbn [obind].
  rewrite (omap_ok (adjust_o w) (adjust w)); [reflexivity|].
  intros c Hc. apply adjust_o_ok. apply Hs, Hc.
Qed.

(* [page_subtractable] is exactly what an answer needs *)
Theorem gen_ent_TotalSupply_page_inv : forall w (pg : go_PageRequest) r,
  go_GetTotalSupplyWithLockedNundRemoved w pg = Ok r ->
  exists cs pr, pg (supply_listing (ew_bank w)) = Ok (cs, pr) /\ page_subtractable w cs /\ r = (map (adjust w) cs, pr).
Proof.
  intros w pg r. rewrite gen_ent_TotalSupply_full.
  destruct (pg (supply_listing (ew_bank w))) as [[cs pr]|c|c]; cbn [obind]; try discriminate.
  destruct (omap (adjust_o w) cs) as [vs| |] eqn:Eo; cbn [obind]; try discriminate. intros [= <-].
  exists cs, pr. split; [reflexivity|].
  assert (page_subtractable w cs) as Hs.
  { intros c Hc. destruct (omap_Ok_inv _ _ _ Eo) as [_ I]. destruct (I c Hc) as (v & Ev & _).
    apply (adjust_o_Ok_inv w c v Ev). }
  split; [exact Hs|]. f_equal.
  rewrite (omap_ok (adjust_o w) (adjust w)) in Eo by (intros c Hc; apply adjust_o_ok; apply Hs, Hc).
  congruence.
Qed.

Theorem gen_ent_TotalSupply_page_err : forall w (pg : go_PageRequest) c,
  pg (supply_listing (ew_bank w)) = Err c -> go_GetTotalSupplyWithLockedNundRemoved w pg = Err c.
Proof. intros w pg c Hp. rewrite gen_ent_TotalSupply_full, Hp. reflexivity. Qed.

Theorem gen_ent_TotalSupply_page_panic : forall w (pg : go_PageRequest) c,
  pg (supply_listing (ew_bank w)) = Panic c -> go_GetTotalSupplyWithLockedNundRemoved w pg = Panic c.
Proof. intros w pg c Hp. rewrite gen_ent_TotalSupply_full, Hp. reflexivity. Qed.

(* (a) the denominations of the page, in its order: each denomination once on a page that lists each once - and the
   bank's listing does ([supply_listing_NoDup]) *)
Lemma adjust_fst w c : fst (adjust w c) = fst c.
Proof. unfold adjust. destruct (fst c =? _); reflexivity. Qed.

Theorem adjust_page_denoms : forall w cs, map fst (map (adjust w) cs) = map fst cs.
Proof. intros w cs. rewrite map_map. apply map_ext. intros c. apply adjust_fst. Qed.

Theorem adjust_page_NoDup : forall w cs, NoDup (map fst cs) -> NoDup (map fst (map (adjust w) cs)).
Proof. intros w cs H. rewrite adjust_page_denoms. exact H. Qed.

(* (b) a page of true supply entries agrees, entry by entry, with the point query *)
Theorem adjust_page_point_query : forall w cs,
  (forall c, In c cs -> snd c = supply_of (ew_bank w) (fst c)) ->
  page_subtractable w cs ->
  forall c, In c (map (adjust w) cs) -> go_GetSupplyOfWithLockedNundRemoved w (fst c) = Ok c.
Proof.
  intros w cs Ht Hs c Hc. apply in_map_iff in Hc. destruct Hc as (c0 & <- & Hc0).
  rewrite adjust_fst. unfold go_GetSupplyOfWithLockedNundRemoved, adjust. cbv zeta.
  unfold ent_GetParamDenom, bank_GetSupply, ent_GetTotalLockedUnd.
  pose proof (Ht c0 Hc0) as E. pose proof (Hs c0 Hc0) as S. tnorm.
  destruct (fst c0 =? ep_denom (e_params (ew_ent w))) eqn:Ed.
  - apply Z.eqb_eq in Ed. destruct (S Ed) as [Sd Sa].
    rewrite Coin_Sub_ok; cbn [fst snd obind]; [rewrite <- E; reflexivity | tnorm; congruence | tnorm; lia].
  - rewrite <- E. destruct c0; reflexivity.
Qed.

(* under the invariant the subtraction is safe for true supply entries: total locked is part of the supply *)
Lemma page_subtractable_inv a cs :
  app_inv a -> (forall c, In c cs -> snd c = supply_of (a_bank a) (fst c)) -> page_subtractable (qworld a) cs.
Proof.
  intros I Ht c Hc Hd. destruct (locked_le_supply a I) as (Ef & _ & El). cbn [qworld ew_ent ew_bank] in *.
  split; [exact Ef|]. tnorm. rewrite (Ht c Hc), Hd. exact El.
Qed.

(* ------------------------------------------------------------------------------------------ *)
(* part 5: the gRPC handlers                                                                  *)
(* ------------------------------------------------------------------------------------------ *)

Theorem gen_ent_SupplyOf_eq : forall w (req : go_QuerySupplyOfRequest),
  go_SupplyOf w req =
    if QuerySupplyOfRequest_Denom req =? go_zero_denom then Err grpc_codes_InvalidArgument
    else do c <- go_GetSupplyOfWithLockedNundRemoved w (QuerySupplyOfRequest_Denom req);
         Ok (mk_go_QuerySupplyOfResponse c).
Proof. intros w req. unfold go_SupplyOf. cbv zeta. reflexivity. Qed.

(* the point query never returns an error, so: the handler fails with an error exactly for the empty denomination *)
Lemma gen_ent_GetSupplyOf_not_Err w d c : go_GetSupplyOfWithLockedNundRemoved w d <> Err c.
Proof.
  unfold go_GetSupplyOfWithLockedNundRemoved. cbv zeta. destruct (d =? _); [|discriminate].
  destruct (Coin_Sub _ _) eqn:E; cbn [obind]; try discriminate. exfalso. exact (Coin_Sub_not_Err _ _ _ E).
Qed.

Theorem gen_ent_SupplyOf_err_iff : forall w (req : go_QuerySupplyOfRequest) c,
  go_SupplyOf w req = Err c <-> QuerySupplyOfRequest_Denom req = go_zero_denom /\ c = grpc_codes_InvalidArgument.
Proof.
  intros w req c. rewrite gen_ent_SupplyOf_eq.
  destruct (QuerySupplyOfRequest_Denom req =? go_zero_denom) eqn:E.
  - apply Z.eqb_eq in E. split; [intros [= <-]; auto | intros [_ ->]; reflexivity].
  - apply Z.eqb_neq in E. split; [|intros [X _]; contradiction].
    destruct (go_GetSupplyOfWithLockedNundRemoved w _) eqn:Eq; cbn [obind]; try discriminate.
    exfalso. exact (gen_ent_GetSupplyOf_not_Err _ _ _ Eq).
Qed.

Theorem gen_ent_TotalLocked_eq : forall w req,
  go_TotalLocked w req = Ok (mk_go_QueryTotalLockedResponse (total_locked (ew_ent w))).
Proof. intros w req. reflexivity. Qed.

Theorem gen_ent_TotalUnlocked_eq : forall w req,
  go_TotalUnlocked w req =
    do c <- go_GetSupplyOfWithLockedNundRemoved w (ep_denom (e_params (ew_ent w)));
    Ok (mk_go_QueryTotalUnlockedResponse c).
Proof. intros w req. unfold go_TotalUnlocked. rewrite gen_ent_GetTotalUnLockedUnd_eq. reflexivity. Qed.

Theorem gen_ent_EnterpriseSupplyHandler_eq : forall w req,
  go_EnterpriseSupply w req =
    do s <- go_GetEnterpriseSupplyIncludingLockedUnd w; Ok (mk_go_QueryEnterpriseSupplyResponse s).
Proof. intros w req. reflexivity. Qed.

(* TotalSupply: an error of the pagination is answered as codes.Internal *)
Theorem gen_ent_TotalSupplyHandler_eq : forall w (req : go_QueryTotalSupplyRequest),
  go_TotalSupply w req =
    match go_GetTotalSupplyWithLockedNundRemoved w (QueryTotalSupplyRequest_Pagination req) with
    | Ok (cs, pr) => Ok (mk_go_QueryTotalSupplyResponse cs pr)
    | Err _ => Err grpc_codes_Internal
    | Panic c => Panic c
    end.
Proof.
  intros w req. unfold go_TotalSupply.
  destruct (go_GetTotalSupplyWithLockedNundRemoved w _) as [[cs pr]| |]; reflexivity.
Qed.

Theorem gen_ent_TotalSupplyOverwrite_eq : forall w req, go_TotalSupplyOverwrite w req = go_TotalSupply w req.
Proof. intros w req. reflexivity. Qed.

Theorem gen_ent_SupplyOfOverwrite_eq : forall w req, go_SupplyOfOverwrite w req = go_SupplyOf w req.
Proof. intros w req. reflexivity. Qed.

(* ------------------------------------------------------------------------------------------ *)
(* part 6: C17 for the generated code                                                         *)
(* ------------------------------------------------------------------------------------------ *)

(* SupplyOf: supply minus total locked, not negative, for the enterprise denomination; the bank's figure otherwise; the
   empty denomination is refused *)
Theorem gen_supply_of_spec : forall a (d : go_denom),
  app_inv a ->
  let v := if d =? ep_denom (e_params (a_ent a))
           then supply_of (a_bank a) d - snd (total_locked (a_ent a)) else supply_of (a_bank a) d in
  go_SupplyOf (qworld a) (mk_go_QuerySupplyOfRequest d) =
    (if d =? go_zero_denom then Err grpc_codes_InvalidArgument else Ok (mk_go_QuerySupplyOfResponse (d, v))) /\
  go_GetSupplyOfWithLockedNundRemoved (qworld a) d = Ok (d, v) /\
  0 <= v.
Proof.
  intros a d I v. destruct (q_supply_of_spec a d I) as [E P]. fold v in E, P.
  assert (go_GetSupplyOfWithLockedNundRemoved (qworld a) d = Ok (d, v)) as G.
  { rewrite gen_ent_GetSupplyOf_eq. cbn [qworld ew_bank ew_ent]. rewrite E. reflexivity. }
  split; [|split; [exact G | exact P]].
  rewrite gen_ent_SupplyOf_eq. cbn [QuerySupplyOfRequest_Denom]. rewrite G. reflexivity.
Qed.

(* EnterpriseSupply, TotalLocked, TotalUnlocked: locked + unlocked = total, none negative *)
Theorem gen_ent_supply_spec : forall a,
  app_inv a -> supply_of (a_bank a) (ep_denom (e_params (a_ent a))) < two64 ->
  let d := ep_denom (e_params (a_ent a)) in
  exists l u t,
    go_EnterpriseSupply (qworld a) mk_go_QueryEnterpriseSupplyRequest =
      Ok (mk_go_QueryEnterpriseSupplyResponse (mk_go_UndSupply d u l t)) /\
    go_TotalLocked (qworld a) mk_go_QueryTotalLockedRequest = Ok (mk_go_QueryTotalLockedResponse (d, l)) /\
    go_TotalUnlocked (qworld a) mk_go_QueryTotalUnlockedRequest = Ok (mk_go_QueryTotalUnlockedResponse (d, u)) /\
    go_GetTotalUndSupply (qworld a) = Ok (d, t) /\
    l + u = t /\ 0 <= l /\ 0 <= u /\
    l = snd (total_locked (a_ent a)) /\ t = supply_of (a_bank a) d.
Proof.
  intros a I Hs d. destruct (q_ent_supply_spec a I Hs) as (l & u & t & E & Hsum & Hl & Hu & El & Et).
  destruct (locked_le_supply a I) as (Ef & E0 & _). fold d in Ef.
  exists l, u, t. repeat split; try assumption.
  - rewrite gen_ent_EnterpriseSupplyHandler_eq, gen_ent_EnterpriseSupply_eq by exact E0.
    cbn [qworld ew_bank ew_ent]. rewrite E. reflexivity.
  - rewrite gen_ent_TotalLocked_eq. cbn [qworld ew_ent]. f_equal. f_equal.
    destruct (total_locked (a_ent a)) as [x y]. cbn [fst snd] in *. congruence.
  - rewrite gen_ent_TotalUnlocked_eq. cbn [qworld ew_ent]. fold d.
    destruct (gen_supply_of_spec a d I) as (_ & G & _). cbv zeta in G. rewrite G. cbn [obind].
    unfold d at 2. rewrite Z.eqb_refl. do 3 f_equal. unfold d. lia.
  - rewrite gen_ent_GetTotalUndSupply_eq. cbn [qworld ew_bank ew_ent]. unfold d. congruence.
Qed.

(* the paginated listing, for every page request whose page is made of entries of the bank's listing *)
Theorem gen_total_supply_page_spec : forall a (pg : go_PageRequest) cs pr,
  app_inv a ->
  pg (supply_listing (a_bank a)) = Ok (cs, pr) -> incl cs (supply_listing (a_bank a)) ->
  let w := qworld a in
  let d := ep_denom (e_params (a_ent a)) in
  let res := map (fun c => if fst c =? d then (fst c, supply_of (a_bank a) d - snd (total_locked (a_ent a))) else c) cs in
  go_TotalSupply w (mk_go_QueryTotalSupplyRequest pg) = Ok (mk_go_QueryTotalSupplyResponse res pr) /\
  map fst res = map fst cs /\
  (NoDup (map fst cs) -> NoDup (map fst res)) /\
  (forall c, In c res -> go_GetSupplyOfWithLockedNundRemoved w (fst c) = Ok c /\ 0 <= snd c).
Proof.
  intros a pg cs pr I Hp Hi w d res.
  pose proof (supply_listing_true _ _ Hi) as Ht.
  pose proof (page_subtractable_inv a cs I Ht) as Hs. fold w in Hs.
  assert (res = map (adjust w) cs) as ->.
  { unfold res. apply map_ext_in. intros c Hc. unfold adjust, w. cbn [qworld ew_ent]. fold d. pose proof (Ht c Hc) as Hv. tnorm.
    destruct (fst c =? d) eqn:E; [|reflexivity]. apply Z.eqb_eq in E. rewrite Hv, E. reflexivity. }
  split; [|split; [apply adjust_page_denoms | split; [apply adjust_page_NoDup|]]].
  - rewrite gen_ent_TotalSupplyHandler_eq. cbn [QueryTotalSupplyRequest_Pagination].
    rewrite (gen_ent_TotalSupply_page w pg cs pr Hp Hs). reflexivity.
  - intros c Hc. pose proof (adjust_page_point_query w cs Ht Hs c Hc) as G. split; [exact G|].
    destruct (gen_supply_of_spec a (fst c) I) as (_ & G' & P). cbv zeta in G', P. unfold w in G. tnorm.
    rewrite G in G'. injection G' as G'. destruct c as [x y]. cbn [fst snd] in *. injection G' as G'. rewrite G'. exact P.
Qed.

(* an error of the pagination: codes.Internal, no page; a panic of it: that panic *)
Theorem gen_total_supply_page_err : forall w (pg : go_PageRequest) c,
  pg (supply_listing (ew_bank w)) = Err c ->
  go_TotalSupply w (mk_go_QueryTotalSupplyRequest pg) = Err grpc_codes_Internal.
Proof.
  intros w pg c Hp. rewrite gen_ent_TotalSupplyHandler_eq. cbn [QueryTotalSupplyRequest_Pagination].
  rewrite (gen_ent_TotalSupply_page_err w pg c Hp). reflexivity.
Qed.

(* the default request (nil pagination: the first 100 entries): a page of the bank's own entries, each denomination once *)
Lemma firstn_In {A} n (l : list A) : incl (firstn n l) l.
Proof.
  revert l. induction n as [|n IH]; intros [|x l] y; cbn [firstn]; try (intros H; exact H); try (intros H; destruct H; fail).
  intros [<-|H]; [left; reflexivity | right; exact (IH l y H)].
Qed.

Lemma NoDup_firstn {A} n (l : list A) : NoDup l -> NoDup (firstn n l).
Proof.
  revert l. induction n as [|n IH]; intros [|x l] N; cbn [firstn]; try constructor.
  - inversion N as [|? ? Nx Nl]; subst. intros I. apply Nx. exact (firstn_In n l x I).
  - inversion N; subst. apply IH. assumption.
Qed.

Theorem gen_total_supply_default_page : forall a,
  app_inv a ->
  let w := qworld a in
  exists res pr,
    go_TotalSupply w zero_go_QueryTotalSupplyRequest = Ok (mk_go_QueryTotalSupplyResponse res pr) /\
    map fst res = map fst (firstn 100 (supply_listing (a_bank a))) /\
    NoDup (map fst res) /\
    (forall c, In c res -> go_GetSupplyOfWithLockedNundRemoved w (fst c) = Ok c /\ 0 <= snd c).
Proof.
  intros a I w.
  destruct (gen_total_supply_page_spec a go_zero_PageRequest _ _ I eq_refl (firstn_In _ _)) as (E & F & N & P).
  eexists. eexists. split; [exact E|]. split; [exact F|]. split; [|exact P].
  apply N. rewrite <- firstn_map. apply NoDup_firstn, supply_listing_NoDup.
Qed.

(* the queries agree on the circulating amount *)
Theorem gen_supplies_agree : forall a r,
  app_inv a ->
  go_GetEnterpriseSupplyIncludingLockedUnd (qworld a) = Ok r ->
  let d := ep_denom (e_params (a_ent a)) in
  go_GetSupplyOfWithLockedNundRemoved (qworld a) d = Ok (d, UndSupply_Amount r) /\
  go_GetTotalUnLockedUnd (qworld a) = Ok (d, UndSupply_Amount r) /\
  go_GetTotalUndSupply (qworld a) = Ok (d, UndSupply_Total r) /\
  total_locked (a_ent a) = (d, UndSupply_Locked r) /\
  UndSupply_Denom r = d.
Proof.
  intros a r I H d. destruct (locked_le_supply a I) as (Ef & E0 & _). fold d in Ef.
  rewrite gen_ent_EnterpriseSupply_eq in H by exact E0. cbn [qworld ew_bank ew_ent] in H.
  destruct (q_ent_supply (a_bank a) (a_ent a)) as [[[l u] t]| |] eqn:E; cbn [qlift3] in H; try discriminate.
  injection H as <-. cbn [UndSupply_Amount UndSupply_Total UndSupply_Locked UndSupply_Denom].
  pose proof (q_supplies_agree a l u t I E) as A. fold d in A.
  assert (go_GetSupplyOfWithLockedNundRemoved (qworld a) d = Ok (d, u)) as G.
  { rewrite gen_ent_GetSupplyOf_eq. cbn [qworld ew_bank ew_ent]. rewrite A. reflexivity. }
  unfold q_ent_supply in E. fold d in E.
  destruct (negb (fst (total_locked (a_ent a)) =? d)); [discriminate|].
  destruct (supply_of (a_bank a) d <? snd (total_locked (a_ent a))); [discriminate|].
  destruct ((two64 <=? supply_of (a_bank a) d) || (two64 <=? snd (total_locked (a_ent a)))); [discriminate|].
  injection E as El Eu Et.
  repeat split.
  - exact G.
  - rewrite gen_ent_GetTotalUnLockedUnd_eq. exact G.
  - rewrite gen_ent_GetTotalUndSupply_eq. cbn [qworld ew_bank ew_ent]. fold d. congruence.
  - destruct (total_locked (a_ent a)) as [x y]. cbn [fst snd] in *. congruence.
Qed.

Theorem gen_overwrite_same : forall w,
  (forall req, go_TotalSupplyOverwrite w req = go_TotalSupply w req) /\
  (forall req, go_SupplyOfOverwrite w req = go_SupplyOf w req).
Proof. intros w. split; intros req; reflexivity. Qed.

(* ------------------------------------------------------------------------------------------ *)
(* part 7: the hypotheses cannot be dropped; a world with several denominations              *)
(* ------------------------------------------------------------------------------------------ *)

(* a negative stored total locked (-5 nund, supply 100): the model answers (-5, 105, 100), Go panics in Uint64() *)
Definition neg_world : eworld :=
  mk_eworld 0 {| bal := []; supply := [(NUND, 100)] |}
    (with_books (a_ent ex_g) [] [] (Some (NUND, -5)) None).

Example gen_ent_EnterpriseSupply_refuted :
  q_ent_supply (ew_bank neg_world) (ew_ent neg_world) = Ok (-5, 105, 100) /\
  go_GetEnterpriseSupplyIncludingLockedUnd neg_world = Panic GO_PANIC_UINT64 /\
  go_GetEnterpriseSupplyIncludingLockedUnd neg_world
    <> qlift3 (ep_denom (e_params (ew_ent neg_world))) (q_ent_supply (ew_bank neg_world) (ew_ent neg_world)).
Proof. vm_compute. repeat split. discriminate. Qed.

(* more locked than supply (150 locked, supply 100): the listing panics where the entry is on the page, answers where
   it is not; a page whose entries are not the bank's is adjusted all the same *)
Definition over_world : eworld :=
  mk_eworld 0 {| bal := []; supply := [(7, 30); (NUND, 100)] |}
    (with_books (a_ent ex_g) [] [] (Some (NUND, 150)) None).

Example gen_ent_TotalSupply_page_refuted :
  go_GetTotalSupplyWithLockedNundRemoved over_world go_zero_PageRequest = Panic GO_PANIC_NEGCOIN /\
  go_GetTotalSupplyWithLockedNundRemoved over_world (fun cs => Ok (firstn 1 cs, ([], 0))) = Ok ([(7, 30)], ([], 0)) /\
  go_GetTotalSupplyWithLockedNundRemoved over_world (fun cs => Ok ([(NUND, 500)], ([], 0))) = Ok ([(NUND, 350)], ([], 0)) /\
  go_GetTotalSupplyWithLockedNundRemoved over_world (fun cs => Err 7) = Err 7 /\
  go_TotalSupply over_world (mk_go_QueryTotalSupplyRequest (fun cs => Err 7)) = Err grpc_codes_Internal.
Proof. vm_compute. repeat split. Qed.

(* three recorded denominations (a zero entry is not listed), 40 of the 100 nund locked: the second entry of the listing,
   the default page, the point queries *)
Definition page_world : eworld :=
  mk_eworld 0 {| bal := []; supply := [(7, 30); (NUND, 100); (9, 0); (5, 12)] |}
    (with_books (a_ent ex_g) [] [] (Some (NUND, 40)) None).

Example gen_ent_TotalSupply_page_example :
  supply_listing (ew_bank page_world) = [(7, 30); (NUND, 100); (5, 12)] /\
  go_GetTotalSupplyWithLockedNundRemoved page_world (fun cs => Ok (firstn 1 (skipn 1 cs), ([], 0))) = Ok ([(NUND, 60)], ([], 0)) /\
  go_GetTotalSupplyWithLockedNundRemoved page_world go_zero_PageRequest = Ok ([(7, 30); (NUND, 60); (5, 12)], ([], 3)) /\
  map (go_GetSupplyOfWithLockedNundRemoved page_world) [7; NUND; 5; 9] = [Ok (7, 30); Ok (NUND, 60); Ok (5, 12); Ok (9, 0)] /\
  go_GetEnterpriseSupplyIncludingLockedUnd page_world = Ok (mk_go_UndSupply NUND 60 40 100).
Proof. vm_compute. repeat split. Qed.
