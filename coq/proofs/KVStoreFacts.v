(* Facts about the ordered byte-keyed store of model/KVStore.v: the representation invariant is preserved, the
   store is a finite map (get-after-set / get-after-delete), two sorted stores with the same content are equal,
   and a prefix listing is exactly the entries under the prefix, ascending; what a write does to a listing. *)
From Coq Require Import NArith List Bool Lia.
From MC Require Import lib.Prelude model.Keys model.KVStore proofs.KeysProofs.
Import ListNotations.

Section Facts.
Context {V : Type}.
Notation okv := (okv V).

Lemma key_eqb_refl k : key_eqb k k = true.
Proof. apply key_eqb_spec; reflexivity. Qed.

Lemma key_eqb_false a b : key_eqb a b = false <-> a <> b.
Proof.
  split.
  - intros H E. apply key_eqb_spec in E. congruence.
  - intros H. destruct (key_eqb a b) eqn:E; [apply key_eqb_spec in E; contradiction | reflexivity].
Qed.

Lemma key_eqb_sym a b : key_eqb a b = key_eqb b a.
Proof.
  destruct (key_eqb a b) eqn:E.
  - apply key_eqb_spec in E; subst. symmetry; apply key_eqb_refl.
  - symmetry. apply key_eqb_false. apply key_eqb_false in E. congruence.
Qed.

Lemma lex_lt_neq a b : lex_lt a b = true -> a <> b.
Proof. intros H E; subst. rewrite lex_lt_irrefl in H; discriminate. Qed.

Lemma lex_lt_asym a b : lex_lt a b = true -> lex_lt b a = false.
Proof.
  intros H. destruct (lex_lt b a) eqn:E; [|reflexivity].
  pose proof (lex_lt_trans _ _ _ H E) as T. rewrite lex_lt_irrefl in T; discriminate.
Qed.

(* every key of [s] is above [k] *)
Definition above (k : list N) (s : okv) : Prop := forall k' (v' : V), In (k', v') s -> lex_lt k k' = true.

Lemma sorted_cons k v (s : okv) : okv_sorted ((k, v) :: s) = true <-> okv_sorted s = true /\ above k s.
Proof.
  revert k v. induction s as [|[k1 v1] s IH]; intros k v.
  - cbn. split; [intros _; split; [reflexivity | intros ? ? []] | reflexivity].
  - change (okv_sorted ((k, v) :: (k1, v1) :: s)) with (lex_lt k k1 && okv_sorted ((k1, v1) :: s)).
    rewrite andb_true_iff. split.
    + intros [H1 H2]. split; [exact H2|]. intros k' v' [E|Hin].
      * inversion E; subst; exact H1.
      * apply (IH k1 v1) in H2. destruct H2 as [_ Hab]. eapply lex_lt_trans; [exact H1 | eapply Hab; exact Hin].
    + intros [H1 H2]. split; [apply (H2 k1 v1); left; reflexivity | exact H1].
Qed.

Lemma above_get_none k (s : okv) : above k s -> okv_get s k = None.
Proof.
  induction s as [|[k1 v1] s IH]; intros H; [reflexivity|].
  cbn. destruct (key_eqb k k1) eqn:E.
  - apply key_eqb_spec in E; subst. specialize (H k1 v1 (or_introl eq_refl)). rewrite lex_lt_irrefl in H; discriminate.
  - apply IH. intros k' v' Hin. apply (H k' v'). right; exact Hin.
Qed.

Lemma get_in (s : okv) k v : okv_get s k = Some v -> In (k, v) s.
Proof.
  induction s as [|[k1 v1] s IH]; cbn; [discriminate|].
  destruct (key_eqb k k1) eqn:E.
  - apply key_eqb_spec in E; subst. intros H; inversion H; subst. left; reflexivity.
  - intros H; right; apply IH; exact H.
Qed.

Lemma in_get (s : okv) k v : okv_sorted s = true -> In (k, v) s -> okv_get s k = Some v.
Proof.
  induction s as [|[k1 v1] s IH]; intros Hs Hin; [destruct Hin|].
  apply sorted_cons in Hs. destruct Hs as [Hs Hab]. cbn. destruct Hin as [E|Hin].
  - inversion E; subst. rewrite key_eqb_refl. reflexivity.
  - destruct (key_eqb k k1) eqn:E.
    + apply key_eqb_spec in E; subst. specialize (Hab _ _ Hin). rewrite lex_lt_irrefl in Hab; discriminate.
    + apply IH; assumption.
Qed.

(* ---- set ---- *)
Lemma set_in (s : okv) k v k' v' : In (k', v') (okv_set s k v) -> (k' = k /\ v' = v) \/ In (k', v') s.
Proof.
  induction s as [|[k1 v1] s IH]; cbn.
  - intros [E|[]]; inversion E; left; split; reflexivity.
  - destruct (key_eqb k k1) eqn:E1.
    + intros [E|Hin]; [inversion E; left; split; reflexivity | right; right; exact Hin].
    + destruct (lex_lt k k1) eqn:E2.
      * intros [E|Hin]; [inversion E; left; split; reflexivity | right; exact Hin].
      * intros [E|Hin]; [right; left; exact E|]. destruct (IH Hin) as [H|H]; [left; exact H | right; right; exact H].
Qed.

Lemma set_sorted (s : okv) k v : okv_sorted s = true -> okv_sorted (okv_set s k v) = true.
Proof.
  induction s as [|[k1 v1] s IH]; intros Hs; [reflexivity|].
  pose proof Hs as Hs0. apply sorted_cons in Hs. destruct Hs as [Hs Hab]. cbn.
  destruct (key_eqb k k1) eqn:E1.
  - apply key_eqb_spec in E1; subst. apply sorted_cons. split; assumption.
  - destruct (lex_lt k k1) eqn:E2.
    + apply sorted_cons. split; [exact Hs0|]. intros k' v' [E|Hin].
      * inversion E; subst; exact E2.
      * eapply lex_lt_trans; [exact E2 | eapply Hab; exact Hin].
    + apply sorted_cons. split; [apply IH; exact Hs|]. intros k' v' Hin.
      destruct (set_in _ _ _ _ _ Hin) as [[-> ->]|Hin'].
      * destruct (lex_lt_total k1 k) as [H|[H|H]]; [exact H | subst; rewrite key_eqb_refl in E1; discriminate | congruence].
      * eapply Hab; exact Hin'.
Qed.

Lemma get_set_same (s : okv) k v : okv_get (okv_set s k v) k = Some v.
Proof.
  induction s as [|[k1 v1] s IH]; cbn.
  - rewrite key_eqb_refl; reflexivity.
  - destruct (key_eqb k k1) eqn:E1; cbn.
    + rewrite key_eqb_refl; reflexivity.
    + destruct (lex_lt k k1); cbn; [rewrite key_eqb_refl; reflexivity | rewrite E1; exact IH].
Qed.

Lemma get_set_other (s : okv) k v k' : k' <> k -> okv_get (okv_set s k v) k' = okv_get s k'.
Proof.
  intros Hne. induction s as [|[k1 v1] s IH]; cbn.
  - apply key_eqb_false in Hne. rewrite Hne. reflexivity.
  - destruct (key_eqb k k1) eqn:E1; cbn.
    + apply key_eqb_spec in E1; subst. apply key_eqb_false in Hne. rewrite Hne. reflexivity.
    + destruct (lex_lt k k1); cbn.
      * pose proof Hne as Hne'. apply key_eqb_false in Hne'. rewrite Hne'. reflexivity.
      * rewrite IH. reflexivity.
Qed.

(* ---- delete ---- *)
Lemma del_in (s : okv) k k' v' : In (k', v') (okv_del s k) -> In (k', v') s.
Proof.
  induction s as [|[k1 v1] s IH]; cbn; [intros []|].
  destruct (key_eqb k k1); [intros H; right; exact H | intros [E|H]; [left; exact E | right; apply IH; exact H]].
Qed.

Lemma del_sorted (s : okv) k : okv_sorted s = true -> okv_sorted (okv_del s k) = true.
Proof.
  induction s as [|[k1 v1] s IH]; intros Hs; [reflexivity|].
  apply sorted_cons in Hs. destruct Hs as [Hs Hab]. cbn. destruct (key_eqb k k1); [exact Hs|].
  apply sorted_cons. split; [apply IH; exact Hs|]. intros k' v' Hin. eapply Hab. eapply del_in; exact Hin.
Qed.

Lemma get_del_same (s : okv) k : okv_sorted s = true -> okv_get (okv_del s k) k = None.
Proof.
  induction s as [|[k1 v1] s IH]; intros Hs; [reflexivity|].
  apply sorted_cons in Hs. destruct Hs as [Hs Hab]. cbn. destruct (key_eqb k k1) eqn:E1.
  - apply key_eqb_spec in E1; subst. apply above_get_none; exact Hab.
  - cbn. rewrite E1. apply IH; exact Hs.
Qed.

Lemma get_del_other (s : okv) k k' : k' <> k -> okv_get (okv_del s k) k' = okv_get s k'.
Proof.
  intros Hne. induction s as [|[k1 v1] s IH]; [reflexivity|]. cbn.
  destruct (key_eqb k k1) eqn:E1.
  - apply key_eqb_spec in E1; subst. apply key_eqb_false in Hne. rewrite Hne. reflexivity.
  - cbn. rewrite IH. reflexivity.
Qed.

Lemma del_absent (s : okv) k : okv_get s k = None -> okv_del s k = s.
Proof.
  induction s as [|[k1 v1] s IH]; [reflexivity|]. cbn.
  destruct (key_eqb k k1); [discriminate|]. intros H. rewrite IH; [reflexivity | exact H].
Qed.

(* ---- extensionality: a sorted store is determined by its content ---- *)
Lemma okv_ext (s1 s2 : okv) :
  okv_sorted s1 = true -> okv_sorted s2 = true -> (forall k, okv_get s1 k = okv_get s2 k) -> s1 = s2.
Proof.
  revert s2. induction s1 as [|[k1 v1] s1 IH]; intros s2 H1 H2 Hext.
  - destruct s2 as [|[k2 v2] s2]; [reflexivity|]. specialize (Hext k2). cbn in Hext. rewrite key_eqb_refl in Hext. discriminate.
  - destruct s2 as [|[k2 v2] s2].
    + specialize (Hext k1). cbn in Hext. rewrite key_eqb_refl in Hext. discriminate.
    + apply sorted_cons in H1. destruct H1 as [H1 A1]. apply sorted_cons in H2. destruct H2 as [H2 A2].
      assert (Ek : k1 = k2).
      { destruct (lex_lt_total k1 k2) as [H|[H|H]]; [|exact H|].
        - pose proof (Hext k1) as E. cbn in E. rewrite key_eqb_refl in E.
          assert (key_eqb k1 k2 = false) as N by (apply key_eqb_false; apply lex_lt_neq; exact H). rewrite N in E.
          symmetry in E. apply get_in in E. specialize (A2 _ _ E).
          pose proof (lex_lt_trans _ _ _ H A2) as T. rewrite lex_lt_irrefl in T; discriminate.
        - pose proof (Hext k2) as E. cbn in E. rewrite key_eqb_refl in E.
          assert (key_eqb k2 k1 = false) as N by (apply key_eqb_false; apply lex_lt_neq; exact H). rewrite N in E.
          apply get_in in E. specialize (A1 _ _ E).
          pose proof (lex_lt_trans _ _ _ H A1) as T. rewrite lex_lt_irrefl in T; discriminate. }
      subst k2.
      assert (Ev : v1 = v2).
      { pose proof (Hext k1) as E. cbn in E. rewrite key_eqb_refl in E. inversion E; reflexivity. }
      subst v2. f_equal. apply IH; [exact H1 | exact H2|].
      intros k. pose proof (Hext k) as E. cbn in E. destruct (key_eqb k k1) eqn:Ek.
      * apply key_eqb_spec in Ek; subst. rewrite (above_get_none _ _ A1), (above_get_none _ _ A2). reflexivity.
      * exact E.
Qed.

(* writes at different keys commute; a write is idempotent; delete after set *)
Lemma set_set_comm (s : okv) k1 v1 k2 v2 : okv_sorted s = true -> k1 <> k2 ->
  okv_set (okv_set s k1 v1) k2 v2 = okv_set (okv_set s k2 v2) k1 v1.
Proof.
  intros Hs Hne. apply okv_ext; [repeat apply set_sorted; exact Hs | repeat apply set_sorted; exact Hs|].
  intros k. destruct (key_eqb k k1) eqn:E1.
  - apply key_eqb_spec in E1. rewrite E1. rewrite (get_set_other _ k2 v2 k1) by exact Hne.
    rewrite !get_set_same. reflexivity.
  - apply key_eqb_false in E1. destruct (key_eqb k k2) eqn:E2.
    + apply key_eqb_spec in E2. rewrite E2. rewrite get_set_same.
      rewrite (get_set_other _ k1 v1 k2) by congruence. rewrite get_set_same. reflexivity.
    + apply key_eqb_false in E2. rewrite !get_set_other by assumption. reflexivity.
Qed.

Lemma set_set_same (s : okv) k v1 v2 : okv_sorted s = true -> okv_set (okv_set s k v1) k v2 = okv_set s k v2.
Proof.
  intros Hs. apply okv_ext; [repeat apply set_sorted; exact Hs | apply set_sorted; exact Hs|].
  intros k'. destruct (key_eqb k' k) eqn:E; [apply key_eqb_spec in E; subst; rewrite !get_set_same; reflexivity|].
  apply key_eqb_false in E. rewrite !get_set_other by exact E. reflexivity.
Qed.

Lemma del_set_same (s : okv) k v : okv_sorted s = true -> okv_get s k = None -> okv_del (okv_set s k v) k = s.
Proof.
  intros Hs Hn. apply okv_ext; [apply del_sorted, set_sorted; exact Hs | exact Hs|].
  intros k'. destruct (key_eqb k' k) eqn:E.
  - apply key_eqb_spec in E; subst. rewrite get_del_same by (apply set_sorted; exact Hs). symmetry; exact Hn.
  - apply key_eqb_false in E. rewrite get_del_other by exact E. rewrite get_set_other by exact E. reflexivity.
Qed.

(* ---- prefix listings ---- *)
Lemma prefix_sorted (s : okv) p : okv_sorted s = true -> okv_sorted (okv_prefix s p) = true.
Proof.
  induction s as [|[k1 v1] s IH]; intros Hs; [reflexivity|].
  apply sorted_cons in Hs. destruct Hs as [Hs Hab]. cbn. destruct (is_prefix p k1).
  - apply sorted_cons. split; [apply IH; exact Hs|]. intros k' v' Hin. apply filter_In in Hin. eapply Hab; apply Hin.
  - apply IH; exact Hs.
Qed.

Lemma prefix_in (s : okv) p k v : In (k, v) (okv_prefix s p) <-> In (k, v) s /\ is_prefix p k = true.
Proof. unfold okv_prefix. rewrite filter_In. reflexivity. Qed.

Lemma get_prefix (s : okv) p k : okv_get (okv_prefix s p) k = if is_prefix p k then okv_get s k else None.
Proof.
  induction s as [|[k1 v1] s IH]; cbn; [destruct (is_prefix p k); reflexivity|].
  destruct (key_eqb k k1) eqn:E.
  - apply key_eqb_spec in E. subst k1. destruct (is_prefix p k) eqn:P1; cbn.
    + rewrite key_eqb_refl. reflexivity.
    + exact IH.
  - destruct (is_prefix p k1) eqn:P1; cbn.
    + rewrite E. exact IH.
    + exact IH.
Qed.

Lemma prefix_set (s : okv) p k v : okv_sorted s = true ->
  okv_prefix (okv_set s k v) p = if is_prefix p k then okv_set (okv_prefix s p) k v else okv_prefix s p.
Proof.
  intros Hs. apply okv_ext.
  - apply prefix_sorted, set_sorted; exact Hs.
  - destruct (is_prefix p k); [apply set_sorted|]; apply prefix_sorted; exact Hs.
  - intros k'. rewrite get_prefix. destruct (is_prefix p k) eqn:Pk.
    + destruct (key_eqb k' k) eqn:E.
      * apply key_eqb_spec in E; subst. rewrite Pk, !get_set_same. reflexivity.
      * apply key_eqb_false in E. rewrite !get_set_other by exact E. rewrite get_prefix. reflexivity.
    + rewrite get_prefix. destruct (is_prefix p k') eqn:Pk'; [|reflexivity].
      rewrite get_set_other; [reflexivity | intros ->; congruence].
Qed.

Lemma prefix_del (s : okv) p k : okv_sorted s = true ->
  okv_prefix (okv_del s k) p = if is_prefix p k then okv_del (okv_prefix s p) k else okv_prefix s p.
Proof.
  intros Hs. apply okv_ext.
  - apply prefix_sorted, del_sorted; exact Hs.
  - destruct (is_prefix p k); [apply del_sorted|]; apply prefix_sorted; exact Hs.
  - intros k'. rewrite get_prefix. destruct (is_prefix p k) eqn:Pk.
    + destruct (key_eqb k' k) eqn:E.
      * apply key_eqb_spec in E; subst. rewrite Pk. rewrite !get_del_same; [reflexivity | apply prefix_sorted; exact Hs | exact Hs].
      * apply key_eqb_false in E. rewrite !get_del_other by exact E. rewrite get_prefix. reflexivity.
    + rewrite get_prefix. destruct (is_prefix p k') eqn:Pk'; [|reflexivity].
      rewrite get_del_other; [reflexivity | intros ->; congruence].
Qed.

(* the first entry of an ascending listing is its lowest key *)
Lemma prefix_head_lowest (s : okv) p k v r : okv_sorted s = true -> okv_prefix s p = (k, v) :: r ->
  forall k' v', In (k', v') s -> is_prefix p k' = true -> k' = k \/ lex_lt k k' = true.
Proof.
  intros Hs E k' v' Hin Pk'.
  assert (Hs' : okv_sorted (okv_prefix s p) = true) by (apply prefix_sorted; exact Hs).
  assert (Hin' : In (k', v') (okv_prefix s p)) by (apply prefix_in; split; assumption).
  rewrite E in Hs', Hin'. apply sorted_cons in Hs'. destruct Hs' as [_ Hab].
  destruct Hin' as [X|X]; [inversion X; left; reflexivity | right; eapply Hab; exact X].
Qed.

(* ---- the point operations never fail on a non-empty key ---- *)
Lemma Get_ok (s : okv) k : k <> [] -> okv_Get s k = Ok (okv_get s k).
Proof. destruct k; [congruence | reflexivity]. Qed.
Lemma Has_ok (s : okv) k : k <> [] -> okv_Has s k = Ok (match okv_get s k with Some _ => true | None => false end).
Proof. destruct k; [congruence | reflexivity]. Qed.
Lemma Set_ok (s : okv) k v : k <> [] -> okv_Set s k v = Ok (okv_set s k v).
Proof. destruct k; [congruence | reflexivity]. Qed.
Lemma Delete_ok (s : okv) k : k <> [] -> okv_Delete s k = Ok (okv_del s k).
Proof. destruct k; [congruence | reflexivity]. Qed.

(* ---- iteration ---- *)
(* with a callback that never stops and appends, the loop collects the decoded entries in order *)
Fixpoint decode_all {A} (dec : list N -> V -> outcome A) (es : okv) : outcome (list A) :=
  match es with
  | [] => Ok []
  | (k, v) :: r => do a <- dec k v; do l <- decode_all dec r; Ok (a :: l)
  end.

Lemma iterate_append {A} (dec : list N -> V -> outcome A) (es : okv) acc :
  (forall k v, In (k, v) es -> exists a, dec k v = Ok a) ->
  okv_iterate dec (fun acc_ a_ => Ok (acc_ ++ [a_], false)) es acc =
  do l <- decode_all dec es; Ok (acc ++ l).
Proof.
  revert acc. induction es as [|[k v] r IH]; intros acc Hd; cbn.
  - rewrite app_nil_r. reflexivity.
  - destruct (Hd k v (or_introl eq_refl)) as [a Ea]. rewrite Ea. cbn.
    rewrite IH by (intros k' v' Hin; apply Hd; right; exact Hin).
    destruct (decode_all dec r); cbn; [rewrite <- app_assoc; reflexivity | reflexivity | reflexivity].
Qed.

(* a callback that stops at once sees only the first entry *)
Lemma iterate_first {A St} (dec : list N -> V -> outcome A) (f : St -> A -> St) (es : okv) st :
  okv_iterate dec (fun st_ a_ => Ok (f st_ a_, true)) es st =
  match es with [] => Ok st | (k, v) :: _ => do a <- dec k v; Ok (f st a) end.
Proof. destruct es as [|[k v] r]; cbn; [reflexivity|]. destruct (dec k v); reflexivity. Qed.

End Facts.
