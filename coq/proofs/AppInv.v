(* The global invariant of the application model and its preservation by every transition of the
   node (DeliverTx, CheckTx, BeginBlock, EndBlock, Commit, crash), for well-formed histories.
   The module-level invariants (ent_inv, str_inv, params_ok) are reused; what is proved here is
   that the modules do not disturb each other: every bank movement of the application is a chain of
   bank_send steps between known parties ([xfer]), so it conserves supply and totals, keeps balances
   non-negative and leaves every account that is not a party alone. *)
From MC Require Import lib.Prelude lib.AMap model.Bank model.Stream model.StreamSpec model.Registry
  model.RegistrySpec model.Enterprise model.EnterpriseSpec model.App model.AppSpec.
From MC Require Import proofs.BankProofs proofs.StreamProofs proofs.EnterpriseProofs proofs.EnterpriseC03
  proofs.EnterpriseC04 proofs.AppFrame proofs.AppAuthProofs proofs.AppFeeProofs proofs.AppParamsProofs.
From Coq Require Import ZifyBool.
Ltac Zify.zify_post_hook ::= Z.div_mod_to_equations.
Local Open Scope Z_scope.

(* ================================================================= *)
(* 1. chains of transfers                                            *)
(* ================================================================= *)

(* [xfer Q b b']: b' results from b by bank_send steps whose (sender, recipient) satisfy Q *)
Inductive xfer (Q : addr -> addr -> Prop) : bank -> bank -> Prop :=
| xf_refl b : xfer Q b b
| xf_step b from to d amt b1 b' :
    bank_send b from to d amt = Ok b1 -> Q from to -> xfer Q b1 b' -> xfer Q b b'.

Lemma xfer_one (Q : addr -> addr -> Prop) b from to d amt b' : bank_send b from to d amt = Ok b' -> Q from to -> xfer Q b b'.
Proof. intros H q. eapply xf_step; eauto. apply xf_refl. Qed.

Lemma xfer_trans (Q : addr -> addr -> Prop) b1 b2 b3 : xfer Q b1 b2 -> xfer Q b2 b3 -> xfer Q b1 b3.
Proof. induction 1; auto. intros X. eapply xf_step; eauto. Qed.

Lemma xfer_mono (Q Q' : addr -> addr -> Prop) b b' :
  (forall f t, Q f t -> Q' f t) -> xfer Q b b' -> xfer Q' b b'.
Proof. intros M. induction 1; [apply xf_refl | eapply xf_step; eauto]. Qed.

Lemma xfer_m2a (Q : addr -> addr -> Prop) b macc to d amt b' :
  bank_send_m2a b macc to d amt = Ok b' -> (blocked to = false -> Q macc to) -> xfer Q b b'.
Proof.
  unfold bank_send_m2a. destruct (blocked to) eqn:B; [discriminate|]. intros H q.
  eapply xfer_one; eauto.
Qed.

Lemma xfer_nonneg (Q : addr -> addr -> Prop) b b' : xfer Q b b' -> bank_nonneg b -> bank_nonneg b'.
Proof. induction 1; auto. intros N. apply IHxfer. eapply bank_send_nonneg; eauto. Qed.

Lemma xfer_wf (Q : addr -> addr -> Prop) b b' : xfer Q b b' -> bank_wf b -> bank_wf b'.
Proof. induction 1; auto. intros N. apply IHxfer. eapply bank_send_wf; eauto. Qed.

Lemma xfer_conserves (Q : addr -> addr -> Prop) b b' : xfer Q b b' ->
  forall d, total_balance b' d = total_balance b d /\ supply_of b' d = supply_of b d.
Proof.
  induction 1; intros d'; [auto|].
  destruct (IHxfer d') as [-> ->]. eapply bank_send_conserves; eauto.
Qed.

Lemma xfer_supply (Q : addr -> addr -> Prop) b b' d : xfer Q b b' -> supply_of b' d = supply_of b d.
Proof. intros X. apply (xfer_conserves Q b b' X d). Qed.

Lemma xfer_total (Q : addr -> addr -> Prop) b b' d : xfer Q b b' -> total_balance b' d = total_balance b d.
Proof. intros X. apply (xfer_conserves Q b b' X d). Qed.

(* an account that is never a party keeps every balance *)
Lemma xfer_other (Q : addr -> addr -> Prop) b b' x :
  xfer Q b b' -> (forall f t, Q f t -> x <> f /\ x <> t) -> forall d, balance b' x d = balance b x d.
Proof.
  induction 1; intros NP d'; [reflexivity|].
  rewrite (IHxfer NP d'). destruct (NP _ _ H0) as [Nf Nt].
  apply bank_send_inv in H as (_ & _ & M). eapply moved_other; eauto.
Qed.

(* an account that is never a sender is never debited *)
Lemma xfer_not_sender (Q : addr -> addr -> Prop) b b' x :
  xfer Q b b' -> (forall f t, Q f t -> x <> f) -> forall d, balance b x d <= balance b' x d.
Proof.
  induction 1; intros NP d'; [lia|].
  specialize (IHxfer NP d'). pose proof (NP _ _ H0) as Nf.
  apply bank_send_inv in H as (A0 & _ & (M & _)). rewrite M in IHxfer.
  destruct ((x =? from) && (d' =? d)) eqn:C1; [lia|].
  destruct ((x =? to) && (d' =? d)); lia.
Qed.

(* an account that is never a recipient is never credited *)
Lemma xfer_not_recipient (Q : addr -> addr -> Prop) b b' x :
  xfer Q b b' -> (forall f t, Q f t -> x <> t) -> forall d, balance b' x d <= balance b x d.
Proof.
  induction 1; intros NP d'; [lia|].
  specialize (IHxfer NP d'). pose proof (NP _ _ H0) as Nt.
  apply bank_send_inv in H as (A0 & _ & (M & _)). rewrite M in IHxfer.
  destruct ((x =? to) && (d' =? d)) eqn:C1; [lia|].
  destruct ((x =? from) && (d' =? d)); lia.
Qed.

Lemma send_coins_xfer (Q : addr -> addr -> Prop) from to cs : Q from to ->
  forall b b', send_coins b from to cs = Ok b' -> xfer Q b b'.
Proof.
  intros q. induction cs as [|c r IH]; intros b b' H; cbn in H.
  - injection H as <-. apply xf_refl.
  - destruct (bank_send b from to (fst c) (snd c)) as [b1|?|?] eqn:E; cbn in H; try discriminate.
    eapply xf_step; eauto.
Qed.

Lemma undelegate_all_xfer (Q : addr -> addr -> Prop) a cs : Q ENT_MACC a ->
  forall b b', undelegate_all b a cs = Ok b' -> xfer Q b b'.
Proof.
  intros q. induction cs as [|c r IH]; intros b b' H; cbn in H.
  - injection H as <-. apply xf_refl.
  - destruct (bank_send b ENT_MACC a (fst c) (snd c)) as [b1|?|?] eqn:E; cbn in H; try discriminate.
    eapply xf_step; eauto.
Qed.

(* ================================================================= *)
(* 2. the bank movements of each module                              *)
(* ================================================================= *)

(* ---- stream ---- *)

(* payouts leave the stream escrow for the fee collector or an unblocked account;
   deposits reach the escrow from the named sender *)
Definition q_payout (from to : addr) : Prop :=
  from = STREAM_MACC /\ (to = FEE_COLLECTOR \/ blocked to = false).
Definition q_stream (sn : addr) (from to : addr) : Prop :=
  q_payout from to \/ (from = sn /\ to = STREAM_MACC).

Lemma claim_xfer now b s r sn b' s' c :
  claim_from_stream now b s r sn = Ok (b', s', c) -> xfer q_payout b b'.
Proof.
  unfold claim_from_stream. intros H. repeat step H. injection H as <- _ _.
  apply xfer_trans with a.
  - step E2; [|injection E2 as <-; apply xf_refl].
    eapply xfer_one; eauto. split; auto.
  - step E3; [|injection E3 as <-; apply xf_refl].
    eapply xfer_m2a; eauto. intros B. split; auto.
Qed.

Lemma add_deposit_xfer now b s r sn d amt b' s' :
  add_deposit now b s r sn d amt = Ok (b', s') -> xfer (q_stream sn) b b'.
Proof.
  unfold add_deposit. intros H. step H. step H. stepas H ext. stepas H [[[b1 s1] st1] dzt].
  stepas H b2. stepas H s2. injection H as <- _.
  apply xfer_trans with b1; [|eapply xfer_one; eauto; right; auto].
  clear E2 E3. step E1.
  - stepas E1 [b1' s1']. step E1. injection E1 as <- _ _ _.
    step E2.
    + stepas E2 [[b4 s4] c4]. injection E2 as <- _.
      eapply xfer_mono; [|eapply claim_xfer; eauto]. intros f t q; left; exact q.
    + injection E2 as <- _. apply xf_refl.
  - injection E1 as <- _ _ _. apply xf_refl.
Qed.

Lemma set_new_flow_rate_xfer now b s r sn rate b' s' :
  set_new_flow_rate now b s r sn rate = Ok (b', s') -> xfer q_payout b b'.
Proof.
  unfold set_new_flow_rate. intros H. step H. stepas H [[[b1 s1] st1] dzt].
  stepas H s2. injection H as <- _. clear E1.
  step E0.
  - stepas E0 [[b3 s3] c3]. step E0. stepas E0 dur. injection E0 as <- _ _ _.
    eapply claim_xfer; eauto.
  - injection E0 as <- _ _ _. apply xf_refl.
Qed.

Lemma cancel_stream_xfer now b s r sn b' s' :
  cancel_stream now b s r sn = Ok (b', s') -> xfer q_payout b b'.
Proof.
  unfold cancel_stream. intros H. step H. step H. stepas H [b1 s1].
  step H. stepas H b2. injection H as <- _.
  apply xfer_trans with b1.
  - step E0.
    + stepas E0 [[b3 s3] c3]. injection E0 as <- _. eapply claim_xfer; eauto.
    + injection E0 as <- _. apply xf_refl.
  - step E2; [|injection E2 as <-; apply xf_refl].
    eapply xfer_m2a; eauto. intros B. split; auto.
Qed.

Lemma str_exec_xfer now b s m b' s' resp :
  str_exec now b s m = Ok (b', s', resp) -> xfer (q_stream (str_signer m)) b b'.
Proof.
  assert (forall sn b b', xfer q_payout b b' -> xfer (q_stream sn) b b') as PO.
  { intros sn0 x y. apply xfer_mono. intros f t q; left; exact q. }
  unfold str_exec. destruct m as [sn rc d amt rate|sn rc|sn rc d amt|sn rc rate|sn rc]; intros H;
    cbn [str_signer]; repeat step H; split_pairs; injection H as ? ? ?; subst.
  - eapply add_deposit_xfer; eauto.
  - apply PO. eapply claim_xfer; eauto.
  - eapply add_deposit_xfer; eauto.
  - eapply add_deposit_xfer; eauto.
  - apply PO. eapply set_new_flow_rate_xfer; eauto.
  - apply PO. eapply cancel_stream_xfer; eauto.
Qed.

(* ---- enterprise: fee unlocking is escrow -> payer ---- *)

Definition q_unlock (payer : addr) (from to : addr) : Prop := from = ENT_MACC /\ to = payer.

Lemma unlock_for_fees_xfer b s payer fee b' s' :
  unlock_for_fees b s payer fee = Ok (b', s') -> xfer (q_unlock payer) b b'.
Proof.
  unfold unlock_for_fees. destruct (fee_find fee (ep_denom (e_params s))) as [ftp|]; [|discriminate].
  destruct (negb (safesub_neg (locked_coin s payer) ftp)).
  - intros H. dobind H. dobind H. dobind H. injection H as <- _.
    eapply undelegate_all_xfer; eauto. split; auto.
  - match goal with |- (if ?c then _ else _) = _ -> _ => destruct c end.
    + intros H. dobind H. dobind H. dobind H. injection H as <- _.
      eapply xfer_one; eauto. split; auto.
    + intros [= <- _]. apply xf_refl.
Qed.

(* ---- distribution: the sweep is fee collector -> distribution ---- *)

Definition q_sweep (from to : addr) : Prop := from = FEE_COLLECTOR /\ to = DISTR_MACC.

Lemma sweep_fees_xfer b : xfer q_sweep b (sweep_fees b).
Proof.
  unfold sweep_fees. generalize (bal b) as l. generalize b as acc.
  intros acc l. revert acc. induction l as [|[[x d] v] r IH]; intros acc; cbn [fold_left].
  - apply xf_refl.
  - destruct (x =? FEE_COLLECTOR).
    + destruct (bank_send acc FEE_COLLECTOR DISTR_MACC d (balance acc FEE_COLLECTOR d)) as [b1|?|?] eqn:E.
      * eapply xf_step; [exact E | split; auto | apply IH].
      * apply IH.
      * apply IH.
    + apply IH.
Qed.

(* ================================================================= *)
(* 3. induction over nested messages                                 *)
(* ================================================================= *)

(* a reflexive-transitive relation that holds for every leaf message holds for every message,
   whatever the nesting; [W] is any side condition inherited by inner messages *)
Lemma exec_msg_rel (P : app -> app -> Prop) (W : msg -> Prop) :
  (forall a, P a a) -> (forall a b c, P a b -> P b c -> P a c) ->
  (forall f a m a', is_exec m = false -> W m -> exec_msg f a m = Ok a' -> P a a') ->
  (forall g inner i, W (MExec g inner) -> In i inner -> W i) ->
  forall f a m a', W m -> exec_msg f a m = Ok a' -> P a a'.
Proof.
  intros Prefl Ptrans Pleaf Winner.
  induction f as [|f IH]; intros a m a' Wm H; [discriminate|].
  destruct (is_exec m) eqn:X; [|eapply Pleaf; eauto].
  destruct m as [| | | | | | |ge inner|]; try discriminate. clear X.
  rewrite exec_msg_exec in H.
  assert (forall i, In i inner -> W i) as Wi by (intros i Hi; eapply Winner; eauto).
  clear Wm. revert a H. induction inner as [|i rest IHl]; intros a H.
  - rewrite ofold_nil in H. injection H as <-. apply Prefl.
  - apply ofold_ok_inv in H as (a1 & St & R).
    destruct ((msg_signer i =? ge) || has_grant a (msg_signer i) ge (msg_type i)); [|discriminate].
    apply Ptrans with a1.
    + apply (IH a i a1); [apply Wi; left; reflexivity | exact St].
    + apply IHl; [intros j Hj; apply Wi; right; exact Hj | exact R].
Qed.

Lemma ofold_rel {B} (g : app -> B -> outcome app) (P : app -> app -> Prop) (W : B -> Prop) :
  (forall a, P a a) -> (forall a b c, P a b -> P b c -> P a c) ->
  (forall a m a', W m -> g a m = Ok a' -> P a a') ->
  forall l a a', (forall m, In m l -> W m) -> ofold g l (Ok a) = Ok a' -> P a a'.
Proof.
  intros Prefl Ptrans Pstep. induction l as [|m l IH]; intros a a' Wl H.
  - rewrite ofold_nil in H. injection H as <-. apply Prefl.
  - apply ofold_ok_inv in H as (a1 & St & R). apply Ptrans with a1.
    + eapply Pstep; eauto. apply Wl; left; reflexivity.
    + apply IH; auto. intros j Hj; apply Wl; right; exact Hj.
Qed.

Lemma exec_all_rel (P : app -> app -> Prop) (W : msg -> Prop) :
  (forall a, P a a) -> (forall a b c, P a b -> P b c -> P a c) ->
  (forall f a m a', is_exec m = false -> W m -> exec_msg f a m = Ok a' -> P a a') ->
  (forall g inner i, W (MExec g inner) -> In i inner -> W i) ->
  forall a t a', (forall m, In m (tx_msgs t) -> W m) -> exec_all a t = Ok a' -> P a a'.
Proof.
  intros Prefl Ptrans Pleaf Winner a t a' Wt H. rewrite exec_all_ofold in H.
  eapply (ofold_rel (exec_msg (tx_fuel t)) P W); eauto.
  intros a0 m a1 Wm E. eapply exec_msg_rel; eauto.
Qed.

(* ================================================================= *)
(* 4. well-formedness of messages, transactions and node operations  *)
(* ================================================================= *)

Definition ent_msg_wf (m : ent_msg) : Prop :=
  match m with
  | ERaise _ _ _ => True
  | EDecide _ poid _ => 0 <= poid < two64
  | EWhitelist _ t _ => 0 <= t
  end.

(* what the wire format and signature verification guarantee, at every nesting depth: the signer is
   an ordinary account, message integers are in their Go ranges *)
Fixpoint msg_wf (m : msg) : Prop :=
  0 <= msg_signer m /\
  match m with
  | MEnt e => ent_msg_wf e
  | MWrk r => reg_msg_wf r
  | MBcn r => reg_msg_wf r
  | MStr s => str_msg_wf s
  | MExec _ inner => fold_right (fun i acc => msg_wf i /\ acc) True inner
  | _ => True
  end.

Lemma fold_right_and_Forall {A} (P : A -> Prop) l :
  fold_right (fun i acc => P i /\ acc) True l <-> Forall P l.
Proof.
  induction l as [|x l IH]; cbn; split; intros H; auto.
  - destruct H as [H1 H2]. constructor; tauto.
  - inversion H; subst. tauto.
Qed.

Lemma msg_wf_exec g inner : msg_wf (MExec g inner) <-> 0 <= g /\ Forall msg_wf inner.
Proof. cbn [msg_wf msg_signer]. rewrite fold_right_and_Forall. tauto. Qed.

Lemma msg_wf_signer m : msg_wf m -> 0 <= msg_signer m.
Proof. destruct m; cbn; tauto. Qed.

Lemma msg_wf_inner g inner i : msg_wf (MExec g inner) -> In i inner -> msg_wf i.
Proof. rewrite msg_wf_exec. intros [_ F] Hi. rewrite Forall_forall in F. auto. Qed.

(* no stream message at any depth *)
Fixpoint no_str (m : msg) : bool :=
  match m with
  | MStr _ => false
  | MExec _ inner => forallb no_str inner
  | _ => true
  end.

Lemma no_str_inner g inner i : no_str (MExec g inner) = true -> In i inner -> no_str i = true.
Proof. cbn. rewrite forallb_forall. auto. Qed.

Record tx_wf (t : tx) : Prop := {
  tw_msgs : Forall msg_wf (tx_msgs t);
  tw_granter : forall g, tx_granter t = Some g -> 0 <= g;
  tw_fee : NoDup (map fst (tx_fee t))         (* sdk.Coins: sorted, one coin per denomination *)
}.

(* the proposals the harness submits: parameter updates by the governance account that keep the
   enterprise denomination (changing it while an order waits is the listed C14 class) *)
Definition gov_msg_wf (d : denom) (m : msg) : Prop :=
  exists u, m = MUpdParams GOV_MACC u /\ match u with UEnt p => ep_denom p = d | _ => True end.

Definition op_wf (n : node) (o : op) : Prop :=
  match o with
  | OpBegin now =>
      a_now (n_committed n) <= now /\ time_storable now = true /\ 0 <= now /\ unix now < two63
  | OpDeliver t => tx_wf t
  | OpCheck t => tx_wf t
  | OpEnd props =>
      match n_deliver n with
      | Some a => forall ms m, In ms props -> In m ms -> gov_msg_wf (ep_denom (e_params (a_ent a))) m
      | None => True
      end
  | OpCommit => True
  | OpCrash => True
  end.

Fixpoint hist_wf (n : node) (h : list op) : Prop :=
  match h with
  | [] => True
  | o :: r => op_wf n o /\ match node_step n o with Some (n', _) => hist_wf n' r | None => True end
  end.

(* ================================================================= *)
(* 5. what one leaf message does to the bank and to the books        *)
(* ================================================================= *)

(* transfers a user message can cause: stream payouts, and payments by the signer into the stream
   escrow or to an unblocked account *)
Definition q_leaf (sg : addr) (from to : addr) : Prop :=
  q_payout from to \/ (from = sg /\ (to = STREAM_MACC \/ blocked to = false)).
Definition q_user (from to : addr) : Prop :=
  q_payout from to \/ (0 <= from /\ (to = STREAM_MACC \/ blocked to = false)).
(* without stream messages only MsgSend moves coins *)
Definition q_send (from to : addr) : Prop := 0 <= from /\ blocked to = false.

Lemma exec_leaf_bank f a m a' :
  is_exec m = false -> exec_msg f a m = Ok a' ->
  match m with
  | MStr s => xfer (q_stream (str_signer s)) (a_bank a) (a_bank a')
  | MSend from to _ => blocked to = false /\ xfer (fun x y => x = from /\ y = to) (a_bank a) (a_bank a')
  | _ => a_bank a' = a_bank a
  end.
Proof.
  intros X H. destruct f as [|f]; [discriminate|].
  destruct m as [e|r|r|s|from to cs|gr ge ty|gr ge|ge inner|au u]; try discriminate X; cbn in H.
  - step H. destruct a0 as [e' z]. injection H as <-. reflexivity.
  - step H. destruct a0 as [r' z]. injection H as <-. reflexivity.
  - step H. destruct a0 as [r' z]. injection H as <-. reflexivity.
  - step H. destruct a0 as [[b' s'] z]. injection H as <-. cbn. eapply str_exec_xfer; eauto.
  - step H. step H. step H. injection H as <-. cbn. split; [reflexivity|].
    eapply send_coins_xfer; eauto.
  - injection H as <-. reflexivity.
  - step H. injection H as <-. reflexivity.
  - step H. destruct u; repeat step H; injection H as <-; reflexivity.
Qed.

Lemma exec_leaf_xfer f a m a' :
  is_exec m = false -> exec_msg f a m = Ok a' -> xfer (q_leaf (msg_signer m)) (a_bank a) (a_bank a').
Proof.
  intros X H. pose proof (exec_leaf_bank f a m a' X H) as B.
  destruct m; try (rewrite B; apply xf_refl).
  - cbn [msg_signer]. eapply xfer_mono; [|exact B]. unfold q_stream, q_leaf. intros x y [q|[-> ->]]; auto.
  - destruct B as [Bl B]. cbn [msg_signer]. eapply xfer_mono; [|exact B].
    intros x y [-> ->]. right. auto.
Qed.

(* every message, nested or not, moves coins only by bank_send: nothing is minted or burned *)
Lemma exec_msg_xfer_any f a m a' :
  exec_msg f a m = Ok a' -> xfer (fun _ _ => True) (a_bank a) (a_bank a').
Proof.
  apply (exec_msg_rel (fun a a' => xfer (fun _ _ => True) (a_bank a) (a_bank a')) (fun _ => True)); auto.
  - intros; apply xf_refl.
  - intros; eapply xfer_trans; eauto.
  - intros f0 a0 m0 a1 X _ H. eapply xfer_mono; [|eapply exec_leaf_xfer; eauto]. auto.
Qed.

Lemma q_leaf_user sg x y : 0 <= sg -> q_leaf sg x y -> q_user x y.
Proof. unfold q_leaf, q_user. intros S [q|[-> q]]; auto. Qed.

Lemma exec_msg_xfer_user f a m a' :
  msg_wf m -> exec_msg f a m = Ok a' -> xfer q_user (a_bank a) (a_bank a').
Proof.
  apply (exec_msg_rel (fun a a' => xfer q_user (a_bank a) (a_bank a')) msg_wf).
  - intros; apply xf_refl.
  - intros; eapply xfer_trans; eauto.
  - intros f0 a0 m0 a1 X Wm H. eapply xfer_mono; [|eapply exec_leaf_xfer; eauto].
    intros x y. apply q_leaf_user. apply msg_wf_signer; exact Wm.
  - intros; eapply msg_wf_inner; eauto.
Qed.

Lemma exec_msg_xfer_send f a m a' :
  msg_wf m /\ no_str m = true -> exec_msg f a m = Ok a' -> xfer q_send (a_bank a) (a_bank a').
Proof.
  apply (exec_msg_rel (fun a a' => xfer q_send (a_bank a) (a_bank a')) (fun m => msg_wf m /\ no_str m = true)).
  - intros; apply xf_refl.
  - intros; eapply xfer_trans; eauto.
  - intros f0 a0 m0 a1 X [Wm Ns] H. pose proof (exec_leaf_bank f0 a0 m0 a1 X H) as B.
    apply msg_wf_signer in Wm.
    destruct m0; try discriminate Ns; try (rewrite B; apply xf_refl).
    destruct B as [Bl B]. eapply xfer_mono; [|exact B]. cbn [msg_signer] in Wm.
    intros x y [-> ->]. split; auto.
  - intros g inner i [Wm Ns] Hi. split; [eapply msg_wf_inner; eauto | eapply no_str_inner; eauto].
Qed.

(* parties of the user transfers *)
Lemma q_user_not_ent x y : q_user x y -> ENT_MACC <> x /\ ENT_MACC <> y.
Proof.
  unfold q_user, q_payout, ENT_MACC, STREAM_MACC, FEE_COLLECTOR.
  intros [[-> [->|B]]|[S [->|B]]]; split; try lia; intros <-; discriminate B.
Qed.

Lemma q_send_not_stream x y : q_send x y -> STREAM_MACC <> x /\ STREAM_MACC <> y.
Proof. unfold q_send, STREAM_MACC. intros [S B]. split; [lia | intros <-; discriminate B]. Qed.

Lemma q_send_not_ent x y : q_send x y -> ENT_MACC <> x /\ ENT_MACC <> y.
Proof. unfold q_send, ENT_MACC. intros [S B]. split; [lia | intros <-; discriminate B]. Qed.

(* the locked / spent books *)
Definition books (e : ent_state) := (e_locked e, e_spent e, e_totlocked e, e_totspent e).

Lemma exec_leaf_books f a m a' :
  is_exec m = false -> exec_msg f a m = Ok a' -> books (a_ent a') = books (a_ent a).
Proof.
  intros X H. destruct f as [|f]; [discriminate|].
  destruct m as [e|r|r|s|from to cs|gr ge ty|gr ge|ge inner|au u]; try discriminate X; cbn in H.
  - step H. destruct a0 as [e' z]. injection H as <-. cbn.
    unfold books. apply exec_frame in E as (_ & -> & -> & -> & -> & _). reflexivity.
  - step H. destruct a0 as [r' z]. injection H as <-. reflexivity.
  - step H. destruct a0 as [r' z]. injection H as <-. reflexivity.
  - step H. destruct a0 as [[b' s'] z]. injection H as <-. reflexivity.
  - step H. step H. step H. injection H as <-. reflexivity.
  - injection H as <-. reflexivity.
  - step H. injection H as <-. reflexivity.
  - step H. destruct u; repeat step H; injection H as <-; try reflexivity.
    unfold books; cbn. unfold ent_set_params in E. step E. injection E as <-. reflexivity.
Qed.

Lemma exec_msg_books f a m a' : exec_msg f a m = Ok a' -> books (a_ent a') = books (a_ent a).
Proof.
  apply (exec_msg_rel (fun a a' => books (a_ent a') = books (a_ent a)) (fun _ => True)); auto.
  - intros; congruence.
  - intros f0 a0 m0 a1 X _ H. eapply exec_leaf_books; eauto.
Qed.

(* ================================================================= *)
(* 6. the global invariant                                           *)
(* ================================================================= *)

(* the enterprise module's view of the application (BeginBlock hands it unix seconds) *)
Definition ew (a : app) : ent_world :=
  {| w_bank := a_bank a; w_ent := a_ent a; w_now := unix (a_now a) |}.

Record app_inv (a : app) : Prop := {
  ai_ent : ent_inv (ew a);
  ai_nonneg : bank_nonneg (a_bank a);
  ai_wf : bank_wf (a_bank a);                      (* one table entry per (account, denomination) *)
  ai_str : str_inv (a_now a) (a_bank a) (a_str a);
  ai_params : params_ok a;
  ai_supply : forall d, total_balance (a_bank a) d = supply_of (a_bank a) d;
  ai_grants : forall g, In g (a_grants a) -> 0 <= fst (fst g)     (* no grant issued by a module account *)
}.

Lemma ent_inv_bank_frame b b' e t :
  ent_inv {| w_bank := b; w_ent := e; w_now := t |} ->
  (forall d, balance b' ENT_MACC d = balance b ENT_MACC d) ->
  ent_inv {| w_bank := b'; w_ent := e; w_now := t |}.
Proof.
  intros [S N E E0] F. constructor; cbn [w_bank w_ent w_now] in *; auto.
  - rewrite F. exact E.
  - intros d Hd. rewrite F. auto.
Qed.

Lemma str_inv_bank_frame now b b' s :
  str_inv now b s -> (forall d, balance b' STREAM_MACC d = balance b STREAM_MACC d) -> str_inv now b' s.
Proof.
  intros [K S B V R N] F. constructor; auto. intros d. rewrite F. apply B.
Qed.

(* the invariant after a step that moved coins by transfers only *)
Lemma app_inv_intro (Q : addr -> addr -> Prop) a a' :
  app_inv a -> xfer Q (a_bank a) (a_bank a') ->
  ent_inv (ew a') -> str_inv (a_now a') (a_bank a') (a_str a') ->
  params_ok a' -> (forall g, In g (a_grants a') -> 0 <= fst (fst g)) -> app_inv a'.
Proof.
  intros I X E S P G. constructor; auto.
  - eapply xfer_nonneg; eauto. apply I.
  - eapply xfer_wf; eauto. apply I.
  - intros d. destruct (xfer_conserves Q _ _ X d) as [-> ->]. apply I.
Qed.

Lemma ent_exec_inv b e now m e' z :
  ent_inv {| w_bank := b; w_ent := e; w_now := now |} -> 0 <= ent_signer m ->
  ent_exec now e m = Ok (e', z) ->
  ent_inv {| w_bank := b; w_ent := e'; w_now := now |}.
Proof.
  intros I Hs E.
  pose proof (exec_frame _ _ _ _ _ E) as (Ep & _ & _ & Etl & _).
  destruct I as [Is In Ie Ie0]. constructor; cbn [w_bank w_ent w_now] in *; auto.
  - eapply sinv_exec; eauto. lia.
  - unfold dn. rewrite Ep, (total_locked_frame _ _ Ep Etl). exact Ie.
  - unfold dn. rewrite Ep. exact Ie0.
Qed.

Lemma q_stream_not_ent sg x y : 0 <= sg -> q_stream sg x y -> ENT_MACC <> x /\ ENT_MACC <> y.
Proof.
  unfold q_stream, q_payout, ENT_MACC, STREAM_MACC, FEE_COLLECTOR.
  intros S [[-> [->|B]]|[-> ->]]; split; try lia. intros <-; discriminate B.
Qed.

(* ---- leaf messages ---- *)

Lemma exec_leaf_inv f a m a' :
  is_exec m = false -> msg_wf m -> exec_msg f a m = Ok a' -> app_inv a -> app_inv a'.
Proof.
  intros X W H I.
  pose proof (msg_wf_signer m W) as Sg.
  assert (params_ok a') as P' by (eapply exec_msg_params_ok; eauto; apply I).
  assert (forall g, In g (a_grants a') -> 0 <= fst (fst g)) as G'.
  { apply (user_msg_frame f a m a' H Sg). exact (ai_grants a I). }
  pose proof (exec_leaf_xfer f a m a' X H) as XF.
  apply (app_inv_intro _ a a' I XF); auto.
  - (* enterprise *)
    destruct f as [|f]; [discriminate|].
    destruct m as [e|r|r|s|from to cs|gr ge ty|gr ge|ge inner|au u]; try discriminate X; cbn in H.
    + step H. destruct a0 as [e' z]. injection H as <-. unfold ew; cbn.
      eapply ent_exec_inv; eauto. apply I.
    + step H. destruct a0 as [r' z]. injection H as <-. apply I.
    + step H. destruct a0 as [r' z]. injection H as <-. apply I.
    + step H. destruct a0 as [[b' s'] z]. injection H as <-. unfold ew; cbn.
      apply ent_inv_bank_frame with (a_bank a); [apply I|].
      apply xfer_other with (Q := q_stream (str_signer s)); [eapply str_exec_xfer; eauto|].
      intros x y. apply q_stream_not_ent. exact Sg.
    + step H. step H. step H. injection H as <-. unfold ew; cbn.
      apply ent_inv_bank_frame with (a_bank a); [apply I|].
      apply xfer_other with (Q := fun x y => x = from /\ y = to); [eapply send_coins_xfer; eauto|].
      cbn [msg_signer] in Sg. unfold ENT_MACC. intros x y [-> ->]. split; [lia|].
      intros <-. discriminate C.
    + injection H as <-. apply I.
    + step H. injection H as <-. apply I.
    + step H. cbn [msg_signer] in Sg. apply negb_false_iff, Z.eqb_eq in C. subst au.
      unfold GOV_MACC in Sg. lia.
  - (* stream *)
    destruct f as [|f]; [discriminate|].
    destruct m as [e|r|r|s|from to cs|gr ge ty|gr ge|ge inner|au u]; try discriminate X; cbn in H.
    + step H. destruct a0 as [e' z]. injection H as <-. apply I.
    + step H. destruct a0 as [r' z]. injection H as <-. apply I.
    + step H. destruct a0 as [r' z]. injection H as <-. apply I.
    + step H. destruct a0 as [[b' s'] z]. injection H as <-. cbn.
      eapply str_exec_preserves_inv; eauto; [apply I | apply W].
    + step H. step H. step H. injection H as <-. cbn.
      apply str_inv_bank_frame with (a_bank a); [apply I|].
      apply xfer_other with (Q := fun x y => x = from /\ y = to); [eapply send_coins_xfer; eauto|].
      cbn [msg_signer] in Sg. unfold STREAM_MACC. intros x y [-> ->]. split; [lia|].
      intros <-. discriminate C.
    + injection H as <-. apply I.
    + step H. injection H as <-. apply I.
    + step H. cbn [msg_signer] in Sg. apply negb_false_iff, Z.eqb_eq in C. subst au.
      unfold GOV_MACC in Sg. lia.
Qed.

Lemma exec_msg_inv f a m a' : msg_wf m -> exec_msg f a m = Ok a' -> app_inv a -> app_inv a'.
Proof.
  apply (exec_msg_rel (fun a a' => app_inv a -> app_inv a') msg_wf); auto.
  - intros f0 a0 m0 a1 X W H. eapply exec_leaf_inv; eauto.
  - intros; eapply msg_wf_inner; eauto.
Qed.

Lemma exec_all_inv a t a' : Forall msg_wf (tx_msgs t) -> exec_all a t = Ok a' -> app_inv a -> app_inv a'.
Proof.
  intros F. rewrite Forall_forall in F.
  apply (exec_all_rel (fun a a' => app_inv a -> app_inv a') msg_wf); auto.
  - intros f0 a0 m0 a1 X W H. eapply exec_leaf_inv; eauto.
  - intros; eapply msg_wf_inner; eauto.
Qed.

(* ---- the ante chain ---- *)

Lemma coins_valid_pos cs : coins_valid cs = true -> Forall (fun c => 0 < snd c) cs.
Proof.
  unfold coins_valid. rewrite forallb_forall, Forall_forall. intros H c Hc.
  specialize (H c Hc). apply andb_true_iff in H as [H _]. apply Z.ltb_lt in H. exact H.
Qed.

Lemma unlock_ante_inv a t au :
  unlock_ante a t = Ok au -> 0 <= tx_payer t -> coins_valid (tx_fee t) = true ->
  NoDup (map fst (tx_fee t)) -> app_inv a ->
  app_inv au /\ xfer (q_unlock (tx_payer t)) (a_bank a) (a_bank au).
Proof.
  unfold unlock_ante. intros H Hp Cv Nd I.
  destruct (is_registry_tx t && (0 <? snd (locked_coin (a_ent a) (tx_payer t)))).
  2:{ injection H as <-. split; [exact I | apply xf_refl]. }
  dobind H. destruct a0 as [b' e']. injection H as <-.
  pose proof (unlock_for_fees_xfer _ _ _ _ _ _ E) as XF. split; [|exact XF].
  apply (app_inv_intro _ a (with_ent a b' e') I XF); cbn; try apply I.
  - apply (ent_inv_unlock (ew a) (tx_payer t) (tx_fee t)); [apply I | |].
    + cbn. repeat split; auto. apply coins_valid_pos; exact Cv.
    + cbn. rewrite E. reflexivity.
  - apply str_inv_bank_frame with (a_bank a); [apply I|].
    apply xfer_other with (Q := q_unlock (tx_payer t)); [exact XF|].
    unfold q_unlock, STREAM_MACC, ENT_MACC. intros x y [-> ->]. split; lia.
  - apply params_ok_of with a; [|apply I]. unfold params_of; cbn.
    apply unlock_for_fees_core in E. unfold ent_core in E. congruence.
Qed.

Definition q_fee (t : tx) (from to : addr) : Prop := from = fee_payer_of t /\ to = FEE_COLLECTOR.

Lemma deduct_fee_xfer a t a1 :
  deduct_fee a t = Ok a1 ->
  xfer (q_fee t) (a_bank a) (a_bank a1) /\ a_ent a1 = a_ent a /\ a_str a1 = a_str a /\
  a_now a1 = a_now a /\ a_grants a1 = a_grants a /\ params_of a1 = params_of a.
Proof.
  unfold deduct_fee. intros H. dobind H. rename a0 into payer.
  assert (P : payer = fee_payer_of t).
  { unfold fee_payer_of. destruct (tx_granter t) as [g|].
    - destruct (g =? tx_payer t); [congruence|].
      match type of E with (if ?c then _ else _) = _ => destruct c end; [congruence|discriminate].
    - congruence. }
  destruct (tx_fee t) as [|c fee] eqn:F.
  - injection H as <-. repeat split; auto. apply xf_refl.
  - destruct (negb (can_afford (a_bank a) payer (c :: fee))); [discriminate|].
    dobind H. injection H as <-. cbn. repeat split; auto.
    eapply send_coins_xfer; eauto. split; auto.
Qed.

Lemma fee_payer_nonneg t : 0 <= tx_payer t -> (forall g, tx_granter t = Some g -> 0 <= g) -> 0 <= fee_payer_of t.
Proof. unfold fee_payer_of. intros Hp Hg. destruct (tx_granter t); auto. Qed.

Lemma deduct_fee_inv a t a1 :
  deduct_fee a t = Ok a1 -> 0 <= fee_payer_of t -> app_inv a -> app_inv a1.
Proof.
  intros H Hp I. destruct (deduct_fee_xfer a t a1 H) as (XF & Ee & Es & En & Eg & Ep).
  assert (forall x y, q_fee t x y -> x <> ENT_MACC /\ y <> ENT_MACC /\ x <> STREAM_MACC /\ y <> STREAM_MACC) as NP.
  { unfold q_fee, ENT_MACC, STREAM_MACC, FEE_COLLECTOR. intros x y [-> ->]. lia. }
  apply (app_inv_intro _ a a1 I XF).
  - unfold ew. rewrite Ee, En. apply ent_inv_bank_frame with (a_bank a); [apply I|].
    apply xfer_other with (Q := q_fee t); auto. intros x y q. destruct (NP x y q) as (? & ? & _). split; congruence.
  - rewrite Es, En. apply str_inv_bank_frame with (a_bank a); [apply I|].
    apply xfer_other with (Q := q_fee t); auto. intros x y q. destruct (NP x y q) as (_ & _ & ? & ?). split; congruence.
  - eapply params_ok_of; eauto. apply I.
  - rewrite Eg. apply I.
Qed.

Definition q_ante (t : tx) (from to : addr) : Prop := q_unlock (tx_payer t) from to \/ q_fee t from to.

Lemma ante_inv check a t a1 :
  ante check a t = Ok a1 -> 0 <= tx_payer t -> tx_wf t -> app_inv a ->
  app_inv a1 /\ xfer (q_ante t) (a_bank a) (a_bank a1).
Proof.
  intros H Hp W I.
  destruct (ante_stages check a t a1 H) as (Cv & _ & _ & _ & au & U & D).
  destruct (unlock_ante_inv a t au U Hp Cv (tw_fee t W) I) as [Iu Xu].
  split.
  - eapply deduct_fee_inv; eauto. apply fee_payer_nonneg; auto. apply W.
  - apply xfer_trans with (a_bank au).
    + eapply xfer_mono; [|exact Xu]. intros x y q; left; exact q.
    + eapply xfer_mono; [|apply (deduct_fee_xfer au t a1 D)]. intros x y q; right; exact q.
Qed.

Lemma validate_all_payer t : validate_all t = Ok tt -> Forall msg_wf (tx_msgs t) -> 0 <= tx_payer t.
Proof.
  unfold validate_all, tx_payer. destruct (tx_msgs t) as [|m ms]; [discriminate|].
  intros _ F. inversion F; subst. apply msg_wf_signer; auto.
Qed.

Lemma validate_all_unit t u : validate_all t = Ok u -> validate_all t = Ok tt.
Proof. destruct u. auto. Qed.

(* ---- DeliverTx / CheckTx ---- *)

Theorem app_inv_deliver a t a' r :
  deliver_tx a t = (a', r) -> tx_wf t -> app_inv a -> app_inv a'.
Proof.
  unfold deliver_tx. intros H W I.
  destruct (validate_all t) as [u|c|c] eqn:V; try (injection H as <- _; exact I).
  apply validate_all_unit in V. pose proof (validate_all_payer t V (tw_msgs t W)) as Hp.
  destruct (ante false a t) as [a1|c|c] eqn:A; try (injection H as <- _; exact I).
  destruct (ante_inv false a t a1 A Hp W I) as [I1 _].
  destruct (exec_all a1 t) as [a2|c|c] eqn:E; injection H as <- _; auto.
  eapply exec_all_inv; eauto. apply W.
Qed.

Theorem app_inv_check a t a' r :
  check_tx a t = (a', r) -> tx_wf t -> app_inv a -> app_inv a'.
Proof.
  unfold check_tx. intros H W I.
  destruct (validate_all t) as [u|c|c] eqn:V; try (injection H as <- _; exact I).
  apply validate_all_unit in V. pose proof (validate_all_payer t V (tw_msgs t W)) as Hp.
  destruct (ante true a t) as [a1|c|c] eqn:A; injection H as <- _; auto.
  apply (ante_inv true a t a1 A Hp W I).
Qed.

(* ---- BeginBlock ---- *)

Lemma mint_and_lock_gap b s x c b' s' :
  mint_and_lock b s x c = Ok (b', s') ->
  forall d, total_balance b' d - supply_of b' d = total_balance b d - supply_of b d.
Proof.
  unfold mint_and_lock. intros H d. step H; [injection H as <- _; reflexivity|].
  stepas H b1. stepas H b2. stepas H b3. stepas H s1. injection H as <- _.
  destruct (bank_send_conserves _ _ _ _ _ _ d E1) as [-> ->].
  destruct (bank_send_m2a_conserves _ _ _ _ _ _ d E0) as [-> ->].
  destruct (bank_mint_effect _ _ _ _ _ d E) as [-> ->]. lia.
Qed.

Lemma mint_and_lock_wf b s x c b' s' : mint_and_lock b s x c = Ok (b', s') -> bank_wf b -> bank_wf b'.
Proof.
  unfold mint_and_lock. intros H Wf. step H; [injection H as <- _; exact Wf|].
  stepas H b1. stepas H b2. stepas H b3. stepas H s1. injection H as <- _.
  eapply bank_send_wf; eauto. eapply bank_send_m2a_wf; eauto. eapply bank_mint_wf; eauto.
Qed.

Lemma process_accepted_wf ids : forall b s b' s',
  process_accepted ids b s = Ok (b', s') -> bank_wf b -> bank_wf b'.
Proof.
  induction ids as [|id rest IH]; intros b s b' s' H Wf; cbn [process_accepted] in H.
  - injection H as <- _. exact Wf.
  - destruct (aget id (e_pos s)) as [o|]; [|discriminate].
    destruct (negb (po_status o =? ST_ACCEPTED)); [discriminate|].
    destruct (negb (addr_parses (po_purchaser o))); [discriminate|].
    match type of H with match ?e with _ => _ end = _ => destruct e as [[b2 s2]|?|?] eqn:M end; try discriminate.
    apply (IH _ _ _ _ H). eapply mint_and_lock_wf; eauto.
Qed.

Lemma ent_begin_block_wf now b s b' s' : ent_begin_block now b s = Ok (b', s') -> bank_wf b -> bank_wf b'.
Proof.
  unfold ent_begin_block. intros H. stepas H [b1 s1]. stepas H s2. injection H as <- _.
  eapply process_accepted_wf; eauto.
Qed.

Lemma process_accepted_gap ids : forall b s b' s',
  process_accepted ids b s = Ok (b', s') ->
  forall d, total_balance b' d - supply_of b' d = total_balance b d - supply_of b d.
Proof.
  induction ids as [|id rest IH]; intros b s b' s' H d; cbn [process_accepted] in H.
  - injection H as <- _. reflexivity.
  - destruct (aget id (e_pos s)) as [o|]; [|discriminate].
    destruct (negb (po_status o =? ST_ACCEPTED)); [discriminate|].
    destruct (negb (addr_parses (po_purchaser o))); [discriminate|].
    match type of H with match ?e with _ => _ end = _ => destruct e as [[b2 s2]|?|?] eqn:M end; try discriminate.
    rewrite (IH _ _ _ _ H d). eapply mint_and_lock_gap; eauto.
Qed.

Lemma ent_begin_block_gap now b s b' s' :
  ent_begin_block now b s = Ok (b', s') ->
  forall d, total_balance b' d - supply_of b' d = total_balance b d - supply_of b d.
Proof.
  unfold ent_begin_block. intros H. stepas H [b1 s1]. stepas H s2. injection H as <- _.
  eapply process_accepted_gap; eauto.
Qed.

Lemma unix_mono t t' : t <= t' -> unix t <= unix t'.
Proof. unfold unix, NS. intros H. apply Z.div_le_mono; lia. Qed.

Definition begin_wf (a : app) (now : Z) : Prop :=
  a_now a <= now /\ time_storable now = true /\ 0 <= now /\ unix now < two63.

Lemma q_sweep_parties x y : q_sweep x y ->
  x <> ENT_MACC /\ y <> ENT_MACC /\ x <> STREAM_MACC /\ y <> STREAM_MACC /\ x < 0 /\ y < 0.
Proof. unfold q_sweep, ENT_MACC, STREAM_MACC, FEE_COLLECTOR, DISTR_MACC. intros [-> ->]. lia. Qed.

(* the decomposition of BeginBlock every later proof uses *)
Lemma begin_block_inv a now a' :
  begin_block a now = Some a' ->
  exists b1 e1,
    ent_begin_block (unix now) (a_bank a) (a_ent a) = Ok (b1, e1) /\
    ent_step (ew a) (OBegin (unix now)) = Some {| w_bank := b1; w_ent := e1; w_now := unix now |} /\
    a' = with_ent (with_time a now) (sweep_fees b1) e1.
Proof.
  unfold begin_block. cbn [a_bank a_ent with_time].
  destruct (ent_begin_block (unix now) (a_bank a) (a_ent a)) as [[b1 e1]|?|?] eqn:E; try discriminate.
  intros [= <-]. exists b1, e1. repeat split. cbn. rewrite E. reflexivity.
Qed.

Lemma begin_op_wf a now : begin_wf a now -> ent_op_wf (ew a) (OBegin (unix now)).
Proof. intros (Hm & _ & _ & Hu). cbn. split; [apply unix_mono; exact Hm | exact Hu]. Qed.

Theorem app_inv_begin a now a' :
  begin_block a now = Some a' -> begin_wf a now -> app_inv a -> app_inv a'.
Proof.
  intros H W I. destruct (begin_block_inv a now a' H) as (b1 & e1 & E & St & ->).
  pose proof (begin_op_wf a now W) as Wo. destruct W as (Hm & Hs & H0 & Hu).
  pose proof (ent_inv_begin _ _ _ (ai_ent a I) Wo St) as I1.
  pose proof (ent_step_bank_nonneg _ _ _ (ai_ent a I) Wo St (ai_nonneg a I)) as N1. cbn [w_bank] in N1.
  destruct (begin_completes_accepted _ _ _ (ai_ent a I) Wo St) as (_ & _ & _ & _ & Bo). cbn [w_bank ew] in Bo.
  pose proof (sweep_fees_xfer b1) as XS.
  constructor; cbn.
  - unfold ew; cbn. apply ent_inv_bank_frame with b1; [exact I1|].
    apply xfer_other with (Q := q_sweep); [exact XS|].
    intros x y q. destruct (q_sweep_parties x y q) as (? & ? & _). split; congruence.
  - eapply xfer_nonneg; eauto.
  - eapply xfer_wf; eauto. eapply ent_begin_block_wf; eauto. apply I.
  - apply str_inv_bank_frame with (a_bank a).
    + apply inv_time_mono with (a_now a); auto. apply I.
    + intros d. rewrite (xfer_other q_sweep b1 (sweep_fees b1) STREAM_MACC XS).
      * apply Bo. discriminate.
      * intros x y q. destruct (q_sweep_parties x y q) as (_ & _ & ? & ? & _). split; congruence.
  - eapply begin_block_params_ok; eauto. apply I.
  - intros d. destruct (xfer_conserves _ _ _ XS d) as [-> ->].
    pose proof (ent_begin_block_gap _ _ _ _ _ E d). pose proof (ai_supply a I d). lia.
  - apply I.
Qed.

(* ---- EndBlock: governance parameter updates ---- *)

Lemma gov_msg_inv d f a m a' :
  gov_msg_wf d m -> exec_msg f a m = Ok a' ->
  app_inv a /\ ep_denom (e_params (a_ent a)) = d -> app_inv a' /\ ep_denom (e_params (a_ent a')) = d.
Proof.
  intros (u & -> & Hu) H [I D].
  assert (params_ok a') as P' by (eapply exec_msg_params_ok; eauto; apply I).
  destruct f as [|f]; [discriminate|]. cbn in H.
  destruct u as [p|p|p|v].
  - stepas H e'. injection H as <-. cbn.
    pose proof (set_params_inv _ _ _ E) as (V & ->). split; [|exact Hu].
    apply (app_inv_intro (fun _ _ => True) a); cbn; auto; try apply I; [apply xf_refl|].
    apply (ent_inv_set_params (ew a) p); [apply I | cbn; congruence |].
    cbn. unfold ent_set_params. rewrite V. reflexivity.
  - step H. injection H as <-. cbn. split; [|exact D].
    apply (app_inv_intro (fun _ _ => True) a); cbn; auto; try apply I. apply xf_refl.
  - step H. injection H as <-. cbn. split; [|exact D].
    apply (app_inv_intro (fun _ _ => True) a); cbn; auto; try apply I. apply xf_refl.
  - step H. injection H as <-. cbn. split; [|exact D].
    apply (app_inv_intro (fun _ _ => True) a); cbn; auto; try apply I; [apply xf_refl|].
    destruct (ai_str a I) as [K S B V R N]. constructor; cbn; auto.
    apply str_params_valid_spec in C. exact C.
Qed.

Lemma exec_proposal_inv d a ms :
  (forall m, In m ms -> gov_msg_wf d m) ->
  app_inv a /\ ep_denom (e_params (a_ent a)) = d ->
  app_inv (exec_proposal a ms) /\ ep_denom (e_params (a_ent (exec_proposal a ms))) = d.
Proof.
  intros W I. rewrite exec_proposal_ofold.
  destruct (ofold (fun a1 m => exec_msg (S (S (msg_depth m))) a1 m) ms (Ok a)) as [a'|?|?] eqn:E; auto.
  revert I. apply (ofold_rel (fun a1 m => exec_msg (S (S (msg_depth m))) a1 m)
    (fun a a' => app_inv a /\ ep_denom (e_params (a_ent a)) = d ->
                 app_inv a' /\ ep_denom (e_params (a_ent a')) = d) (gov_msg_wf d)) with (l := ms); auto.
  intros a0 m a1 Wm H. eapply gov_msg_inv; eauto.
Qed.

Definition end_wf (a : app) (props : list (list msg)) : Prop :=
  forall ms m, In ms props -> In m ms -> gov_msg_wf (ep_denom (e_params (a_ent a))) m.

Theorem app_inv_end a props : end_wf a props -> app_inv a -> app_inv (end_block a props).
Proof.
  unfold end_wf, end_block. set (d := ep_denom (e_params (a_ent a))). intros W I.
  assert (app_inv a /\ ep_denom (e_params (a_ent a)) = d) as X by (split; auto).
  clearbody d. clear I. revert a X. induction props as [|ms rest IH]; intros a X; cbn [fold_left].
  - apply X.
  - apply IH.
    + intros ms' m H1 H2. apply (W ms' m); [right; exact H1 | exact H2].
    + apply exec_proposal_inv; auto. intros m Hm. apply (W ms m); [left; reflexivity | exact Hm].
Qed.

(* ---- the node: committed, deliver and check states ---- *)

Definition node_inv (n : node) : Prop :=
  app_inv (n_committed n) /\ app_inv (n_check n) /\
  match n_deliver n with Some a => app_inv a | None => True end.

Theorem node_step_inv n o n' r :
  node_step n o = Some (n', r) -> op_wf n o -> node_inv n -> node_inv n'.
Proof.
  intros H W (Ic & Ik & Id). destruct o as [now|t|t|ps| |]; cbn in H, W.
  - destruct (begin_block (n_committed n) now) as [a|] eqn:E; [|discriminate]. injection H as <- _.
    (split; [|split]; cbn; auto). eapply app_inv_begin; eauto.
  - destruct (n_deliver n) as [a|]; [|discriminate]. destruct (deliver_tx a t) as [a' r'] eqn:E.
    injection H as <- _. (split; [|split]; cbn; auto). eapply app_inv_deliver; eauto.
  - destruct (check_tx (n_check n) t) as [c' r'] eqn:E. injection H as <- _.
    (split; [|split]; cbn; auto). eapply app_inv_check; eauto.
  - destruct (n_deliver n) as [a|]; [|discriminate]. injection H as <- _.
    (split; [|split]; cbn; auto). apply app_inv_end; auto.
  - destruct (n_deliver n) as [a|]; [|discriminate]. injection H as <- _.
    (split; [|split]; cbn; auto).
  - injection H as <- _. (split; [|split]; cbn; auto).
Qed.

Theorem node_run_inv h : forall n n',
  node_run n h = Some n' -> hist_wf n h -> node_inv n -> node_inv n'.
Proof.
  induction h as [|o r IH]; intros n n' H W I; cbn in H.
  - injection H as <-. exact I.
  - destruct W as [Wo Wr]. destruct (node_step n o) as [[n1 x]|] eqn:E; [|discriminate].
    apply (IH n1 n' H Wr). eapply node_step_inv; eauto.
Qed.

Lemma node_init_inv g : app_inv g -> node_inv (node_init g).
Proof. intros I. (split; [|split]; cbn; auto). Qed.

Theorem app_inv_node_run g h n :
  app_inv g -> hist_wf (node_init g) h -> node_run (node_init g) h = Some n ->
  app_inv (n_committed n) /\ app_inv (n_check n) /\
  match n_deliver n with Some a => app_inv a | None => True end.
Proof. intros I W H. exact (node_run_inv h _ _ H W (node_init_inv g I)). Qed.

(* ================================================================= *)
(* 7. a concrete genesis and history (the hypotheses are satisfiable) *)
(* ================================================================= *)

Definition ex_ep : ent_params :=
  {| ep_denom := NUND; ep_min_accepts := 1; ep_time_limit := 100; ep_signers := [7] |}.
Definition ex_rp : reg_params :=
  {| rp_fee_register := 1000; rp_fee_record := 1; rp_fee_purchase := 5; rp_denom := NUND;
     rp_default_limit := 100; rp_max_limit := 1000 |}.
Definition ex_reg : reg_state :=
  {| r_params := ex_rp; r_next := 1; r_regs := []; r_limits := []; r_recs := [] |}.
Definition ex_now : Z := 1700000000 * NS.

(* accounts 1 (whitelisted purchaser, 10000 nund), 2 (50 nund), 7 (enterprise signer, 100 nund) *)
Definition ex_g_of (x : Z) : app :=
  {| a_bank := {| bal := [((1, NUND), x); ((2, NUND), 50); ((7, NUND), 100)]; supply := [(NUND, x + 150)] |};
     a_ent := ent_genesis ex_ep 1 [1];
     a_wrk := ex_reg; a_bcn := ex_reg;
     a_str := {| s_valfee := 10000000000000000; s_streams := [] |};
     a_grants := []; a_allow := []; a_now := ex_now |}.

Definition ex_g : app := ex_g_of 10000.

Lemma ex_g_of_inv x0 : 0 <= x0 -> app_inv (ex_g_of x0).
Proof.
  intros Hx. constructor.
  - unfold ew, ex_g_of; cbn [a_bank a_ent a_now]. apply ent_inv_genesis; try reflexivity; try lia.
    vm_compute. split; [discriminate | reflexivity].
  - intros x d. unfold ex_g_of, balance; cbn.
    destruct ((x =? 1) && (d =? NUND)); [lia|]. destruct ((x =? 2) && (d =? NUND)); [lia|].
    destruct ((x =? 7) && (d =? NUND)); lia.
  - unfold bank_wf, ex_g_of; cbn. repeat constructor; cbn; intuition congruence.
  - unfold ex_g_of; cbn [a_bank a_str a_now]. apply str_inv_init; try reflexivity.
    + unfold DEC_ONE. lia.
    + vm_compute. discriminate.
  - unfold params_ok, ex_g_of; cbn [a_ent a_wrk a_bcn a_str ent_genesis e_params r_params ex_reg s_valfee].
    assert (S7 : forall s : Z, In s [7] -> s <> BAD_ADDR /\ s <> EMPTY_ADDR)
      by (intros s [<-|[]]; split; discriminate).
    repeat split; try (vm_compute; first [reflexivity | discriminate]); match goal with I : In _ _ |- _ => apply (S7 _ I) end.
  - intros d. unfold ex_g_of, total_balance, supply_of. destruct d; cbn; lia.
  - intros g [].
Qed.

Lemma ex_g_inv : app_inv ex_g.
Proof. apply ex_g_of_inv. lia. Qed.

Definition ex_tx (ms : list msg) (fee : list coin) : tx :=
  {| tx_msgs := ms; tx_fee := fee; tx_granter := None; tx_sig_ok := true |}.

Definition ex_t (secs : Z) : Z := ex_now + secs * NS.

(* block 1: raise + accept an order of 3000; block 2: tally; block 3: completion (mint + lock), then a
   WRKChain registration paying 1000 from locked eFUND and a stream 1 -> 2; block 4: a claim by 2 *)
Definition ex_tx_raise := ex_tx [MEnt (ERaise 1 NUND 3000)] [].
Definition ex_tx_accept := ex_tx [MEnt (EDecide 7 1 ST_ACCEPTED)] [].
Definition ex_tx_register := ex_tx [MWrk (RRegister 1 "m"%string "n"%string "g"%string "t"%string)] [(NUND, 1000)].
Definition ex_tx_stream := ex_tx [MStr (SCreate 1 2 NUND 6000 100)] [(NUND, 2)].
Definition ex_tx_claim := ex_tx [MExec 2 [MStr (SClaim 1 2)]] [].

Definition ex_hist : list op :=
  [OpBegin (ex_t 5); OpDeliver ex_tx_raise; OpDeliver ex_tx_accept; OpEnd []; OpCommit;
   OpBegin (ex_t 10); OpEnd []; OpCommit;
   OpBegin (ex_t 15); OpCheck ex_tx_register; OpDeliver ex_tx_register; OpDeliver ex_tx_stream;
   OpEnd [[MUpdParams GOV_MACC (UStr 20000000000000000)]]; OpCommit;
   OpBegin (ex_t 25); OpDeliver ex_tx_claim; OpEnd []; OpCommit].

Ltac ex_op_wf :=
  cbn [op_wf n_deliver n_committed];
  lazymatch goal with
  | |- tx_wf _ =>
      constructor; cbn;
      [ repeat constructor; cbn; unfold two63, two64; try lia
      | intros ? [=] | repeat constructor; cbn; tauto ]
  | |- True => exact I
  | |- _ /\ _ => vm_compute; repeat split; first [reflexivity | discriminate]
  | |- _ =>
      cbn; intros ? ? Hin1 Hin2; cbn [In] in Hin1;
      repeat match goal with H : _ \/ _ |- _ => destruct H | H : False |- _ => destruct H end;
      subst; cbn [In] in Hin2;
      repeat match goal with H : _ \/ _ |- _ => destruct H | H : False |- _ => destruct H end;
      subst; try (eexists; split; [reflexivity | exact I])
  end.

Ltac ex_hist_wf :=
  lazymatch goal with
  | |- hist_wf _ [] => exact I
  | |- hist_wf ?n (?o :: ?r) =>
      let st := eval vm_compute in (node_step n o) in
      change (op_wf n o /\ match node_step n o with Some (n', _) => hist_wf n' r | None => True end);
      split; [ ex_op_wf
             | replace (node_step n o) with st by (vm_compute; reflexivity); cbv iota beta; ex_hist_wf ]
  | |- True => exact I
  end.

Lemma ex_hist_wf_ok : hist_wf (node_init ex_g) ex_hist.
Proof.
  let n := eval vm_compute in (node_init ex_g) in change (node_init ex_g) with n.
  let h := eval vm_compute in ex_hist in change ex_hist with h.
  ex_hist_wf.
Qed.

