(* The store accessors of x/stream (keeper/stream.go, keeper/params.go) as generated on every run
   (GeneratedStreamStore.v, against the ordered byte-keyed store of model/KVStore.v and the generated key builders of
   GeneratedKeys.v) implement a finite map  (receiver, sender) -> Stream  plus one Params cell:
     (a) KEY   : the key expressions evaluate to the byte model's encodings, never empty;
     (b) SPEC  : every writer is one okv_set / okv_del at that key, every point reader a function of okv_get at that
                 key, IterateAllStreams is okv_iterate over okv_prefix s StreamKeyPrefix;
     (c) MAP   : read-your-write, Is/Get after Delete, non-interference between different (receiver, sender) pairs;
     (d) ISOL  : params and streams do not see each other's writes (generic: point_reader / prefix_reader);
     (e) LIST  : on a well-formed store IterateAllStreams hands the callback exactly the stored streams, each once,
                 ascending in key order, each with the (receiver, sender) pair it was stored under;
     (f) a concrete run.
   Hypotheses that turned out necessary are shown so by the *_refuted examples. *)
From MC Require Import lib.Prelude lib.GoSdk model.Keys model.KeyPrims model.KVStore model.StoreCodecPrims
  GeneratedKeys GeneratedStreamTypes GeneratedStreamKeeper GeneratedStreamStore
  proofs.KeysProofs proofs.GeneratedKeysEq proofs.KVStoreFacts proofs.KVStoreFacts2Stream.
From Coq Require Import NArith ZArith List Bool Lia.
Import ListNotations.

Notation sstore := (okv stream_val).

(* an address a Go caller can hand to the accessors and get back from the listing: 1..255 bytes *)
Definition addr_ok (a : list N) : Prop := (1 <= length a <= 255)%nat.
(* the store key of the stream (receiver, sender), in the byte model of model/Keys.v *)
Definition skey (r s : list N) : list N := str_encode (SkStream r s).

Definition is_some {A} (o : option A) : bool := match o with Some _ => true | None => false end.

Lemma addr_ok_nonempty a : addr_ok a -> a <> [].
Proof. intros [H _] ->. cbn in H. lia. Qed.

Lemma addr_ok_of a : a <> [] -> (length a <= 255)%nat -> addr_ok a.
Proof. intros Hn Hl. unfold addr_ok. destruct a; [congruence | cbn [length] in *; lia]. Qed.

(* ================================================================== *)
(* (a) KEY lemmas                                                       *)
(* ================================================================== *)

Lemma params_key_eq : stream_ParamsKey = str_encode SkParams.
Proof. reflexivity. Qed.

Lemma params_key_nonempty : stream_ParamsKey <> [].
Proof. discriminate. Qed.

Lemma skey_nonempty r s : skey r s <> [].
Proof. unfold skey. cbn [str_encode]. discriminate. Qed.

Lemma stream_key_ok r s : (length r <= 255)%nat -> (length s <= 255)%nat ->
  go_stream_GetStreamKey r s = Ok (skey r s) /\ skey r s <> [].
Proof. intros Hr Hs. split; [apply gen_str_GetStreamKey_ok; assumption | apply skey_nonempty]. Qed.

Lemma stream_key_inv r s k : go_stream_GetStreamKey r s = Ok k ->
  k = skey r s /\ (length r <= 255)%nat /\ (length s <= 255)%nat.
Proof. intros E. apply gen_str_GetStreamKey_inv in E. unfold skey. tauto. Qed.

(* different (receiver, sender) pairs have different keys; the addresses must be non-empty ([skey_inj_empty_refuted]) *)
Lemma skey_inj r1 s1 r2 s2 : r1 <> [] -> s1 <> [] -> r2 <> [] -> s2 <> [] ->
  skey r1 s1 = skey r2 s2 -> r1 = r2 /\ s1 = s2.
Proof.
  intros Nr1 Ns1 Nr2 Ns2 E. unfold skey in E. cbn [str_encode] in E.
  apply cons_eq_inv in E as [_ E].
  apply length_prefix_inj_app in E as [-> E]; try assumption.
  rewrite <- (app_nil_r (length_prefix s1)), <- (app_nil_r (length_prefix s2)) in E.
  apply length_prefix_inj_app in E as [-> _]; try assumption.
  split; reflexivity.
Qed.

Example skey_inj_empty_refuted : skey [] [7%N] = skey [7%N] [] /\ ([] : list N, [7%N]) <> ([7%N], []).
Proof. split; [reflexivity | discriminate]. Qed.

Lemma skey_neq r1 s1 r2 s2 : r1 <> [] -> s1 <> [] -> r2 <> [] -> s2 <> [] ->
  (r1, s1) <> (r2, s2) -> skey r1 s1 <> skey r2 s2.
Proof.
  intros Nr1 Ns1 Nr2 Ns2 Hne E. apply Hne. apply skey_inj in E as [-> ->]; try assumption. reflexivity.
Qed.

(* sections: every stream key is under StreamKeyPrefix, the params key is not, the two never coincide *)
Lemma skey_prefix r s : is_prefix stream_StreamKeyPrefix (skey r s) = true.
Proof. unfold skey, stream_StreamKeyPrefix. cbn [str_encode]. rewrite is_prefix1. reflexivity. Qed.

Lemma params_not_prefix : is_prefix stream_StreamKeyPrefix stream_ParamsKey = false.
Proof. reflexivity. Qed.

Lemma skey_not_params r s : skey r s <> stream_ParamsKey.
Proof. unfold skey, stream_ParamsKey. cbn [str_encode]. intros E. injection E as E _. discriminate E. Qed.

(* ================================================================== *)
(* (b) SPEC lemmas: what each accessor does to the store                *)
(* ================================================================== *)

(* ---- params ---- *)
Lemma GetParams_spec (st : sstore) : go_st_GetParams st = stream_unmarshal_Params (okv_get st stream_ParamsKey).
Proof.
  unfold go_st_GetParams. rewrite Get_ok by exact params_key_nonempty. cbn [obind].
  destruct (okv_get st stream_ParamsKey) as [v|]; [|reflexivity].
  destruct (stream_unmarshal_Params (Some v)); reflexivity.
Qed.

Lemma SetParams_spec (st : sstore) p :
  go_st_SetParams st p = do _ <- go_Params_Validate p; Ok (okv_set st stream_ParamsKey (SV_Params p), tt).
Proof.
  unfold go_st_SetParams, stream_marshal_Params.
  destruct (go_Params_Validate p); cbn [obind]; try reflexivity;
    rewrite ?Set_ok by exact params_key_nonempty; reflexivity.
Qed.

Lemma SetParams_inv (st st' : sstore) p u : go_st_SetParams st p = Ok (st', u) ->
  go_Params_Validate p = Ok tt /\ st' = okv_set st stream_ParamsKey (SV_Params p).
Proof.
  rewrite SetParams_spec. destruct (go_Params_Validate p) as [[]| |]; cbn [obind]; intros H; try discriminate H.
  injection H as <- _. split; reflexivity.
Qed.

(* ---- one stream ---- *)
Lemma SetStream_spec (st : sstore) r s x :
  go_st_SetStream st r s x =
  do k <- go_stream_GetStreamKey r s; do _ <- marshal_check_Stream x; Ok (okv_set st k (SV_Stream x), tt).
Proof.
  unfold go_st_SetStream. destruct (go_stream_GetStreamKey r s) as [k| |] eqn:E; cbn [obind]; try reflexivity.
  apply stream_key_inv in E as (-> & _). unfold stream_marshal_Stream.
  destruct (marshal_check_Stream x) as [[]| |]; cbn [obind]; try reflexivity;
    rewrite ?Set_ok by apply skey_nonempty; reflexivity.
Qed.

Lemma SetStream_ok (st : sstore) r s x : (length r <= 255)%nat -> (length s <= 255)%nat ->
  marshal_check_Stream x = Ok tt ->
  go_st_SetStream st r s x = Ok (okv_set st (skey r s) (SV_Stream x), tt).
Proof.
  intros Hr Hs Hm. rewrite SetStream_spec. destruct (stream_key_ok r s Hr Hs) as [-> _]. cbn [obind].
  rewrite Hm. reflexivity.
Qed.

Lemma SetStream_inv (st st' : sstore) r s x u : go_st_SetStream st r s x = Ok (st', u) ->
  st' = okv_set st (skey r s) (SV_Stream x) /\ (length r <= 255)%nat /\ (length s <= 255)%nat /\
  marshal_check_Stream x = Ok tt.
Proof.
  rewrite SetStream_spec. destruct (go_stream_GetStreamKey r s) as [k| |] eqn:E; cbn [obind]; intros H; try discriminate H.
  apply stream_key_inv in E as (-> & Hr & Hs).
  destruct (marshal_check_Stream x) as [[]| |]; cbn [obind] in H; try discriminate H.
  injection H as <- _. repeat split; assumption.
Qed.

Lemma IsStream_spec (st : sstore) r s :
  go_st_IsStream st r s = do k <- go_stream_GetStreamKey r s; Ok (is_some (okv_get st k)).
Proof.
  unfold go_st_IsStream. destruct (go_stream_GetStreamKey r s) as [k| |] eqn:E; cbn [obind]; try reflexivity.
  apply stream_key_inv in E as (-> & _). rewrite Has_ok by apply skey_nonempty. reflexivity.
Qed.

(* what GetStream answers from the entry under the key *)
Definition stream_found (o : option stream_val) : outcome (go_Stream * bool) :=
  match o with
  | None => Ok (zero_go_Stream, false)
  | Some (SV_Stream x) => Ok (x, true)
  | Some _ => Panic OKV_PANIC_UNMARSHAL
  end.

Lemma GetStream_spec (st : sstore) r s :
  go_st_GetStream st r s = do k <- go_stream_GetStreamKey r s; stream_found (okv_get st k).
Proof.
  unfold go_st_GetStream. destruct (go_stream_GetStreamKey r s) as [k| |] eqn:E; cbn [obind]; try reflexivity.
  apply stream_key_inv in E as (-> & _). rewrite Get_ok by apply skey_nonempty. cbn [obind].
  destruct (okv_get st (skey r s)) as [[p|x|b]|]; reflexivity.
Qed.

(* DeleteStream: its IsStream guard changes nothing - deleting an absent key leaves the store as it is *)
Lemma DeleteStream_spec (st : sstore) r s :
  go_st_DeleteStream st r s = do k <- go_stream_GetStreamKey r s; Ok (okv_del st k, tt).
Proof.
  unfold go_st_DeleteStream. rewrite IsStream_spec.
  destruct (go_stream_GetStreamKey r s) as [k| |] eqn:E; cbn [obind]; try reflexivity.
  apply stream_key_inv in E as (-> & _).
  destruct (okv_get st (skey r s)) as [v|] eqn:G; cbn [is_some negb].
  - rewrite Delete_ok by apply skey_nonempty. reflexivity.
  - rewrite del_absent by exact G. reflexivity.
Qed.

Lemma DeleteStream_ok (st : sstore) r s : (length r <= 255)%nat -> (length s <= 255)%nat ->
  go_st_DeleteStream st r s = Ok (okv_del st (skey r s), tt).
Proof. intros Hr Hs. rewrite DeleteStream_spec. destruct (stream_key_ok r s Hr Hs) as [-> _]. reflexivity. Qed.

Lemma DeleteStream_absent (st : sstore) r s : (length r <= 255)%nat -> (length s <= 255)%nat ->
  okv_get st (skey r s) = None -> go_st_DeleteStream st r s = Ok (st, tt).
Proof. intros Hr Hs G. rewrite DeleteStream_ok by assumption. rewrite del_absent by exact G. reflexivity. Qed.

Lemma DeleteStream_inv (st st' : sstore) r s u : go_st_DeleteStream st r s = Ok (st', u) ->
  st' = okv_del st (skey r s) /\ (length r <= 255)%nat /\ (length s <= 255)%nat.
Proof.
  rewrite DeleteStream_spec. destruct (go_stream_GetStreamKey r s) as [k| |] eqn:E; cbn [obind]; intros H; try discriminate H.
  apply stream_key_inv in E as (-> & Hr & Hs). injection H as <- _. repeat split; assumption.
Qed.

(* ---- the listing ---- *)
(* what the loop body of IterateAllStreams computes from one entry before it calls the callback *)
Definition stream_dec (k : list N) (v : stream_val) : outcome (list N * list N * go_Stream) :=
  do rs <- go_stream_AddressesFromStreamKey k;
  do x <- stream_unmarshal_Stream (Some v);
  Ok (fst rs, snd rs, x).

Lemma IterateAllStreams_spec {St} (st : sstore) (cb : St -> list N * list N * go_Stream -> outcome (St * bool)) st0 :
  go_st_IterateAllStreams st cb st0 = okv_iterate stream_dec cb (okv_prefix st stream_StreamKeyPrefix) st0.
Proof.
  unfold go_st_IterateAllStreams, okv_iter_prefix. cbn [obind]. rewrite obind_ret.
  apply iterate_ext. intros k v. reflexivity.
Qed.

(* ---- writers preserve the representation invariant ---- *)
Lemma SetParams_sorted (st st' : sstore) p u : okv_sorted st = true -> go_st_SetParams st p = Ok (st', u) -> okv_sorted st' = true.
Proof. intros Hs H. apply SetParams_inv in H as [_ ->]. apply set_sorted; exact Hs. Qed.
Lemma SetStream_sorted (st st' : sstore) r s x u : okv_sorted st = true -> go_st_SetStream st r s x = Ok (st', u) -> okv_sorted st' = true.
Proof. intros Hs H. apply SetStream_inv in H as [-> _]. apply set_sorted; exact Hs. Qed.
Lemma DeleteStream_sorted (st st' : sstore) r s u : okv_sorted st = true -> go_st_DeleteStream st r s = Ok (st', u) -> okv_sorted st' = true.
Proof. intros Hs H. apply DeleteStream_inv in H as [-> _]. apply del_sorted; exact Hs. Qed.

(* ================================================================== *)
(* (c) MAP LAWS                                                         *)
(* ================================================================== *)

(* ---- read-your-write ---- *)
Theorem stream_get_after_set (st st' : sstore) r s x u :
  go_st_SetStream st r s x = Ok (st', u) -> go_st_GetStream st' r s = Ok (x, true).
Proof.
  intros H. apply SetStream_inv in H as (-> & Hr & Hs & _).
  rewrite GetStream_spec. destruct (stream_key_ok r s Hr Hs) as [-> _]. cbn [obind].
  rewrite get_set_same. reflexivity.
Qed.

Theorem stream_is_after_set (st st' : sstore) r s x u :
  go_st_SetStream st r s x = Ok (st', u) -> go_st_IsStream st' r s = Ok true.
Proof.
  intros H. apply SetStream_inv in H as (-> & Hr & Hs & _).
  rewrite IsStream_spec. destruct (stream_key_ok r s Hr Hs) as [-> _]. cbn [obind].
  rewrite get_set_same. reflexivity.
Qed.

Theorem params_get_after_set (st st' : sstore) p u :
  go_st_SetParams st p = Ok (st', u) -> go_st_GetParams st' = Ok p.
Proof.
  intros H. apply SetParams_inv in H as [_ ->]. rewrite GetParams_spec, get_set_same. reflexivity.
Qed.

Theorem params_get_unset (st : sstore) : okv_get st stream_ParamsKey = None -> go_st_GetParams st = Ok zero_go_Params.
Proof. intros H. rewrite GetParams_spec, H. reflexivity. Qed.

(* the writers succeed exactly on the inputs Go accepts *)
Theorem stream_set_succeeds (st : sstore) r s x :
  (exists st', go_st_SetStream st r s x = Ok (st', tt)) <->
  (length r <= 255)%nat /\ (length s <= 255)%nat /\ marshal_check_Stream x = Ok tt.
Proof.
  split.
  - intros [st' H]. apply SetStream_inv in H. tauto.
  - intros (Hr & Hs & Hm). eexists. apply SetStream_ok; assumption.
Qed.

Theorem stream_delete_succeeds (st : sstore) r s :
  (exists st', go_st_DeleteStream st r s = Ok (st', tt)) <-> (length r <= 255)%nat /\ (length s <= 255)%nat.
Proof.
  split.
  - intros [st' H]. apply DeleteStream_inv in H. tauto.
  - intros (Hr & Hs). eexists. apply DeleteStream_ok; assumption.
Qed.

(* ---- after Delete: Is answers false, Get the zero stream and false ---- *)
Theorem stream_after_delete (st st' : sstore) r s u : okv_sorted st = true ->
  go_st_DeleteStream st r s = Ok (st', u) ->
  go_st_IsStream st' r s = Ok false /\ go_st_GetStream st' r s = Ok (zero_go_Stream, false).
Proof.
  intros Hsd H. apply DeleteStream_inv in H as (-> & Hr & Hs).
  rewrite IsStream_spec, GetStream_spec. destruct (stream_key_ok r s Hr Hs) as [-> _]. cbn [obind].
  rewrite get_del_same by exact Hsd. split; reflexivity.
Qed.

(* Is and Get agree *)
Theorem stream_get_is (st : sstore) r s x b : go_st_GetStream st r s = Ok (x, b) -> go_st_IsStream st r s = Ok b.
Proof.
  rewrite GetStream_spec, IsStream_spec. destruct (go_stream_GetStreamKey r s) as [k| |]; cbn [obind]; try discriminate.
  destruct (okv_get st k) as [[p|y|bs]|]; cbn [stream_found is_some]; intros H; try discriminate H;
    injection H as _ <-; reflexivity.
Qed.

(* ---- a write / delete at one (receiver, sender) does not change a read at another ---- *)
Theorem stream_set_other (st st' : sstore) r s x u r' s' :
  r <> [] -> s <> [] -> r' <> [] -> s' <> [] -> (r', s') <> (r, s) ->
  go_st_SetStream st r s x = Ok (st', u) ->
  go_st_GetStream st' r' s' = go_st_GetStream st r' s' /\ go_st_IsStream st' r' s' = go_st_IsStream st r' s'.
Proof.
  intros Nr Ns Nr' Ns' Hne H. apply SetStream_inv in H as (-> & _).
  rewrite !GetStream_spec, !IsStream_spec.
  destruct (go_stream_GetStreamKey r' s') as [k| |] eqn:E; cbn [obind]; [|split; reflexivity..].
  apply stream_key_inv in E as (-> & _).
  rewrite get_set_other by (apply skey_neq; assumption). split; reflexivity.
Qed.

Theorem stream_delete_other (st st' : sstore) r s u r' s' :
  r <> [] -> s <> [] -> r' <> [] -> s' <> [] -> (r', s') <> (r, s) ->
  go_st_DeleteStream st r s = Ok (st', u) ->
  go_st_GetStream st' r' s' = go_st_GetStream st r' s' /\ go_st_IsStream st' r' s' = go_st_IsStream st r' s'.
Proof.
  intros Nr Ns Nr' Ns' Hne H. apply DeleteStream_inv in H as (-> & _).
  rewrite !GetStream_spec, !IsStream_spec.
  destruct (go_stream_GetStreamKey r' s') as [k| |] eqn:E; cbn [obind]; [|split; reflexivity..].
  apply stream_key_inv in E as (-> & _).
  rewrite get_del_other by (apply skey_neq; assumption). split; reflexivity.
Qed.

(* ================================================================== *)
(* (d) ISOLATION ACROSS KINDS, generically                              *)
(* ================================================================== *)

(* what a writer did: one set or one delete at [k] *)
Definition writes_at (st st' : sstore) (k : list N) : Prop :=
  (exists v, st' = okv_set st k v) \/ st' = okv_del st k.

Lemma SetParams_writes (st st' : sstore) p u : go_st_SetParams st p = Ok (st', u) -> writes_at st st' stream_ParamsKey.
Proof. intros H. apply SetParams_inv in H as [_ ->]. left. eexists; reflexivity. Qed.
Lemma SetStream_writes (st st' : sstore) r s x u : go_st_SetStream st r s x = Ok (st', u) -> writes_at st st' (skey r s).
Proof. intros H. apply SetStream_inv in H as [-> _]. left. eexists; reflexivity. Qed.
Lemma DeleteStream_writes (st st' : sstore) r s u : go_st_DeleteStream st r s = Ok (st', u) -> writes_at st st' (skey r s).
Proof. intros H. apply DeleteStream_inv in H as [-> _]. right. reflexivity. Qed.

Theorem point_reader_isolated {A} (f : sstore -> A) k' st st' k :
  writes_at st st' k -> point_reader f k' -> k' <> k -> f st' = f st.
Proof.
  intros [[v ->]| ->] Hf Hne; [apply (point_reader_set f k'); assumption | apply (point_reader_del f k'); assumption].
Qed.

Theorem prefix_reader_isolated {A} (f : sstore -> A) p st st' k :
  writes_at st st' k -> prefix_reader f p -> is_prefix p k = false -> f st' = f st.
Proof.
  intros [[v ->]| ->] Hf Hp; [apply (prefix_reader_set f p); assumption | apply (prefix_reader_del f p); assumption].
Qed.

(* the readers, classified *)
Lemma GetParams_reader : point_reader go_st_GetParams stream_ParamsKey.
Proof. intros s1 s2 H. rewrite !GetParams_spec, H. reflexivity. Qed.

Lemma GetStream_reader r s : point_reader (fun st => go_st_GetStream st r s) (skey r s).
Proof.
  intros s1 s2 H. cbv beta. rewrite !GetStream_spec.
  destruct (go_stream_GetStreamKey r s) as [k| |] eqn:E; cbn [obind]; try reflexivity.
  apply stream_key_inv in E as (-> & _). rewrite H. reflexivity.
Qed.

Lemma IsStream_reader r s : point_reader (fun st => go_st_IsStream st r s) (skey r s).
Proof.
  intros s1 s2 H. cbv beta. rewrite !IsStream_spec.
  destruct (go_stream_GetStreamKey r s) as [k| |] eqn:E; cbn [obind]; try reflexivity.
  apply stream_key_inv in E as (-> & _). rewrite H. reflexivity.
Qed.

Lemma IterateAllStreams_reader {St} (cb : St -> list N * list N * go_Stream -> outcome (St * bool)) st0 :
  prefix_reader (fun st => go_st_IterateAllStreams st cb st0) stream_StreamKeyPrefix.
Proof. intros s1 s2 H. cbv beta. rewrite !IterateAllStreams_spec, H. reflexivity. Qed.

(* a params write is invisible to every stream reader, on every store *)
Theorem params_write_isolated (st st' : sstore) p u : go_st_SetParams st p = Ok (st', u) ->
  (forall r s, go_st_GetStream st' r s = go_st_GetStream st r s) /\
  (forall r s, go_st_IsStream st' r s = go_st_IsStream st r s) /\
  (forall St (cb : St -> list N * list N * go_Stream -> outcome (St * bool)) st0,
     go_st_IterateAllStreams st' cb st0 = go_st_IterateAllStreams st cb st0).
Proof.
  intros H. apply SetParams_writes in H. repeat split.
  - intros r s. apply (point_reader_isolated _ _ _ _ _ H (GetStream_reader r s)). apply skey_not_params.
  - intros r s. apply (point_reader_isolated _ _ _ _ _ H (IsStream_reader r s)). apply skey_not_params.
  - intros St cb st0. apply (prefix_reader_isolated _ _ _ _ _ H (IterateAllStreams_reader cb st0)). exact params_not_prefix.
Qed.

(* a stream write or delete is invisible to GetParams, on every store *)
Theorem stream_set_isolated (st st' : sstore) r s x u : go_st_SetStream st r s x = Ok (st', u) ->
  go_st_GetParams st' = go_st_GetParams st.
Proof.
  intros H. apply SetStream_writes in H. apply (point_reader_isolated _ _ _ _ _ H GetParams_reader).
  intros E. symmetry in E. revert E. apply skey_not_params.
Qed.

Theorem stream_delete_isolated (st st' : sstore) r s u : go_st_DeleteStream st r s = Ok (st', u) ->
  go_st_GetParams st' = go_st_GetParams st.
Proof.
  intros H. apply DeleteStream_writes in H. apply (point_reader_isolated _ _ _ _ _ H GetParams_reader).
  intros E. symmetry in E. revert E. apply skey_not_params.
Qed.

(* ================================================================== *)
(* (e) LISTINGS                                                         *)
(* ================================================================== *)

(* an entry the stream section is meant to hold: a key built from two addresses of 1..255 bytes, a Stream value *)
Definition stream_entry_ok (k : list N) (v : stream_val) : Prop :=
  exists r s x, addr_ok r /\ addr_ok s /\ k = skey r s /\ v = SV_Stream x.

(* well-formed store: the params cell holds a Params, every entry under StreamKeyPrefix is a stream entry *)
Definition stream_store_wf (st : sstore) : Prop :=
  (forall v, In (stream_ParamsKey, v) st -> exists p, v = SV_Params p) /\
  (forall k v, In (k, v) st -> is_prefix stream_StreamKeyPrefix k = true -> stream_entry_ok k v).

Theorem wf_empty : stream_store_wf [].
Proof. split; [intros v [] | intros k v []]. Qed.

Theorem SetParams_wf (st st' : sstore) p u : stream_store_wf st -> go_st_SetParams st p = Ok (st', u) -> stream_store_wf st'.
Proof.
  intros [W1 W2] H. apply SetParams_inv in H as [_ ->]. split.
  - intros v Hin. apply set_in in Hin as [[_ ->]|Hin]; [eexists; reflexivity | apply W1; exact Hin].
  - intros k v Hin Hp. apply set_in in Hin as [[-> _]|Hin]; [|apply W2; assumption].
    rewrite params_not_prefix in Hp. discriminate Hp.
Qed.

(* the addresses must be non-empty: [SetStream_wf_empty_refuted] *)
Theorem SetStream_wf (st st' : sstore) r s x u : r <> [] -> s <> [] ->
  stream_store_wf st -> go_st_SetStream st r s x = Ok (st', u) -> stream_store_wf st'.
Proof.
  intros Nr Ns [W1 W2] H. apply SetStream_inv in H as (-> & Hr & Hs & _). split.
  - intros v Hin. apply set_in in Hin as [[E _]|Hin]; [|apply W1; exact Hin].
    symmetry in E. apply skey_not_params in E. destruct E.
  - intros k v Hin Hp. apply set_in in Hin as [[-> ->]|Hin]; [|apply W2; assumption].
    exists r, s, x. split; [apply addr_ok_of; assumption|]. split; [apply addr_ok_of; assumption|].
    split; reflexivity.
Qed.

Theorem DeleteStream_wf (st st' : sstore) r s u : stream_store_wf st -> go_st_DeleteStream st r s = Ok (st', u) -> stream_store_wf st'.
Proof.
  intros [W1 W2] H. apply DeleteStream_inv in H as (-> & _). split.
  - intros v Hin. apply W1. eapply del_in; exact Hin.
  - intros k v Hin Hp. apply W2; [eapply del_in; exact Hin | exact Hp].
Qed.

(* on a well-formed store the readers never panic *)
Theorem GetParams_total (st : sstore) : stream_store_wf st -> exists p, go_st_GetParams st = Ok p.
Proof.
  intros [W1 _]. rewrite GetParams_spec. destruct (okv_get st stream_ParamsKey) as [v|] eqn:G.
  - apply get_in in G. destruct (W1 _ G) as [p ->]. eexists; reflexivity.
  - eexists; reflexivity.
Qed.

Theorem GetStream_total (st : sstore) r s : stream_store_wf st -> (length r <= 255)%nat -> (length s <= 255)%nat ->
  exists x b, go_st_GetStream st r s = Ok (x, b).
Proof.
  intros [_ W2] Hr Hs. rewrite GetStream_spec. destruct (stream_key_ok r s Hr Hs) as [-> _]. cbn [obind].
  destruct (okv_get st (skey r s)) as [v|] eqn:G.
  - apply get_in in G. destruct (W2 _ _ G (skey_prefix r s)) as (r0 & s0 & x & _ & _ & _ & ->).
    do 2 eexists; reflexivity.
  - do 2 eexists; reflexivity.
Qed.

(* ---- decoding a listing of stream entries ---- *)
Definition entry_of (a : list N * list N * go_Stream) : list N * stream_val :=
  (skey (fst (fst a)) (snd (fst a)), SV_Stream (snd a)).
Definition addrs_ok (a : list N * list N * go_Stream) : Prop := addr_ok (fst (fst a)) /\ addr_ok (snd (fst a)).

(* the loop body gives back the pair the key was built from *)
Lemma stream_dec_ok r s x : addr_ok r -> addr_ok s -> stream_dec (skey r s) (SV_Stream x) = Ok (r, s, x).
Proof.
  intros Hr Hs. unfold stream_dec.
  rewrite (gen_str_roundtrip_inv r s (skey r s)).
  - reflexivity.
  - apply addr_ok_nonempty; exact Hr.
  - apply addr_ok_nonempty; exact Hs.
  - apply stream_key_ok; [apply Hr | apply Hs].
Qed.

Lemma decode_entries (es : sstore) : (forall k v, In (k, v) es -> stream_entry_ok k v) ->
  exists L, decode_all stream_dec es = Ok L /\ map entry_of L = es /\ Forall addrs_ok L.
Proof.
  induction es as [|[k v] es IH]; intros H.
  - exists []. repeat split. constructor.
  - destruct IH as (L & D & M & F); [intros k' v' Hin; apply H; right; exact Hin|].
    destruct (H k v (or_introl eq_refl)) as (r & s & x & Hr & Hs & -> & ->).
    exists ((r, s, x) :: L). cbn [decode_all]. rewrite stream_dec_ok by assumption. cbn [obind]. rewrite D. cbn [obind].
    repeat split.
    + cbn [map]. rewrite M. reflexivity.
    + constructor; [split; assumption | exact F].
Qed.

Lemma listing_core (st : sstore) : stream_store_wf st ->
  exists L, decode_all stream_dec (okv_prefix st stream_StreamKeyPrefix) = Ok L /\
            map entry_of L = okv_prefix st stream_StreamKeyPrefix /\ Forall addrs_ok L.
Proof.
  intros [_ W2]. apply decode_entries. intros k v Hin. apply prefix_in in Hin as [Hin Hp]. apply W2; assumption.
Qed.

Notation collect := (fun acc_ a_ => Ok (acc_ ++ [a_], false)).

(* the listing never panics on a well-formed store *)
Theorem list_total (st : sstore) : stream_store_wf st -> exists L, go_st_IterateAllStreams st collect [] = Ok L.
Proof.
  intros W. destruct (listing_core st W) as (L & D & _). exists L.
  rewrite IterateAllStreams_spec, (iterate_decoded _ _ _ _ _ D), list_iterate_append. reflexivity.
Qed.

Lemma list_run (st : sstore) L : stream_store_wf st -> go_st_IterateAllStreams st collect [] = Ok L ->
  decode_all stream_dec (okv_prefix st stream_StreamKeyPrefix) = Ok L /\ Forall addrs_ok L.
Proof.
  intros W H. destruct (listing_core st W) as (L0 & D & _ & F).
  rewrite IterateAllStreams_spec, (iterate_decoded _ _ _ _ _ D), list_iterate_append in H. cbn [app] in H.
  injection H as <-. split; assumption.
Qed.

(* what is listed is exactly what is stored under StreamKeyPrefix: same entries, same order, same multiplicity,
   each with the (receiver, sender) its key encodes *)
Theorem list_entries (st : sstore) L : stream_store_wf st -> go_st_IterateAllStreams st collect [] = Ok L ->
  map entry_of L = okv_prefix st stream_StreamKeyPrefix /\ Forall addrs_ok L.
Proof.
  intros W H. destruct (list_run st L W H) as [D F]. destruct (listing_core st W) as (L0 & D0 & M & _).
  rewrite D in D0. injection D0 as <-. split; assumption.
Qed.

(* any callback, including one that stops early, is run over that same list *)
Theorem list_callback (st : sstore) L : stream_store_wf st -> go_st_IterateAllStreams st collect [] = Ok L ->
  forall St (cb : St -> list N * list N * go_Stream -> outcome (St * bool)) st0,
    go_st_IterateAllStreams st cb st0 = list_iterate cb L st0.
Proof.
  intros W H St cb st0. destruct (list_run st L W H) as [D _].
  rewrite IterateAllStreams_spec. apply iterate_decoded. exact D.
Qed.

(* a stream is listed iff the point query finds it (with that value) *)
Theorem list_point (st : sstore) L : stream_store_wf st -> okv_sorted st = true ->
  go_st_IterateAllStreams st collect [] = Ok L ->
  forall r s x, In (r, s, x) L <-> addr_ok r /\ addr_ok s /\ go_st_GetStream st r s = Ok (x, true).
Proof.
  intros W Hsd H r s x. destruct (list_entries st L W H) as [M F]. split.
  - intros Hin. rewrite Forall_forall in F. destruct (F _ Hin) as [Hr Hs]. cbn [fst snd] in Hr, Hs.
    split; [exact Hr|]. split; [exact Hs|].
    assert (In (entry_of (r, s, x)) (okv_prefix st stream_StreamKeyPrefix)) as Hin'
      by (rewrite <- M; apply in_map; exact Hin).
    unfold entry_of in Hin'. cbn [fst snd] in Hin'. apply prefix_in in Hin' as [Hin' _].
    apply in_get in Hin'; [|exact Hsd].
    rewrite GetStream_spec. destruct (stream_key_ok r s (proj2 Hr) (proj2 Hs)) as [-> _]. cbn [obind].
    rewrite Hin'. reflexivity.
  - intros (Hr & Hs & G). rewrite GetStream_spec in G.
    destruct (stream_key_ok r s (proj2 Hr) (proj2 Hs)) as [E _]. rewrite E in G. cbn [obind] in G.
    destruct (okv_get st (skey r s)) as [[p|y|bs]|] eqn:Gk; cbn [stream_found] in G; try discriminate G.
    injection G as ->. apply get_in in Gk.
    assert (In (skey r s, SV_Stream x) (map entry_of L)) as Hin
      by (rewrite M; apply prefix_in; split; [exact Gk | apply skey_prefix]).
    apply in_map_iff in Hin. destruct Hin as ([[r0 s0] x0] & E0 & Hin).
    unfold entry_of in E0. pose proof (f_equal fst E0) as Ek. pose proof (f_equal snd E0) as Ex.
    cbn [fst snd] in Ek, Ex. injection Ex as ->. clear E0.
    rewrite Forall_forall in F. destruct (F _ Hin) as [Hr0 Hs0]. cbn [fst snd] in Hr0, Hs0.
    apply skey_inj in Ek as [-> ->]; try (apply addr_ok_nonempty; assumption). exact Hin.
Qed.

(* no (receiver, sender) pair is listed twice *)
Theorem list_nodup (st : sstore) L : stream_store_wf st -> okv_sorted st = true ->
  go_st_IterateAllStreams st collect [] = Ok L -> NoDup (map fst L).
Proof.
  intros W Hsd H. destruct (list_entries st L W H) as [M _].
  assert (NoDup (map fst (map entry_of L))) as Hn
    by (rewrite M; apply sorted_nodup_keys, prefix_sorted; exact Hsd).
  rewrite map_map in Hn. unfold entry_of in Hn. cbn [fst] in Hn.
  rewrite <- (map_map fst (fun p => skey (fst p) (snd p))) in Hn.
  eapply NoDup_map_inv; exact Hn.
Qed.

(* the listing is ascending in the byte order of the store keys *)
Theorem list_order (st : sstore) L : stream_store_wf st -> okv_sorted st = true ->
  go_st_IterateAllStreams st collect [] = Ok L ->
  ForallOrdPairs (fun a b => lex_lt (skey (fst (fst a)) (snd (fst a))) (skey (fst (fst b)) (snd (fst b))) = true) L.
Proof.
  intros W Hsd H. destruct (list_entries st L W H) as [M _].
  assert (ForallOrdPairs (fun e1 e2 => lex_lt (fst e1) (fst e2) = true) (map entry_of L)) as Ho
    by (rewrite M; apply sorted_pairs, prefix_sorted; exact Hsd).
  apply ForallOrdPairs_map in Ho. exact Ho.
Qed.

(* ---- the listing after a write: the stream is reported with the pair it was created with ---- *)
Theorem list_after_set (st st' : sstore) r s x u L L' : stream_store_wf st -> okv_sorted st = true ->
  r <> [] -> s <> [] ->
  go_st_SetStream st r s x = Ok (st', u) ->
  go_st_IterateAllStreams st collect [] = Ok L ->
  go_st_IterateAllStreams st' collect [] = Ok L' ->
  forall a, In a L' <-> a = (r, s, x) \/ (In a L /\ fst a <> (r, s)).
Proof.
  intros W Hsd Nr Ns HS HL HL'.
  pose proof (SetStream_wf _ _ _ _ _ _ Nr Ns W HS) as W'.
  pose proof (SetStream_sorted _ _ _ _ _ _ Hsd HS) as Hsd'.
  pose proof (list_point st L W Hsd HL) as P. pose proof (list_point st' L' W' Hsd' HL') as P'.
  assert (Hr : addr_ok r) by (apply SetStream_inv in HS as (_ & Hr & _); apply addr_ok_of; assumption).
  assert (Hs : addr_ok s) by (apply SetStream_inv in HS as (_ & _ & Hs & _); apply addr_ok_of; assumption).
  intros [[r' s'] x']. cbn [fst]. rewrite P', P.
  assert (Hoth : (r', s') <> (r, s) ->
    (addr_ok r' /\ addr_ok s' /\ go_st_GetStream st' r' s' = Ok (x', true)) <->
    (addr_ok r' /\ addr_ok s' /\ go_st_GetStream st r' s' = Ok (x', true))).
  { intros Hne. split; intros (Hr' & Hs' & G); (split; [exact Hr'|]; split; [exact Hs'|]);
      destruct (stream_set_other st st' r s x u r' s' Nr Ns (addr_ok_nonempty _ Hr') (addr_ok_nonempty _ Hs') Hne HS)
        as [Eg _]; congruence. }
  destruct (list_eq_dec (list_eq_dec N.eq_dec) [r'; s'] [r; s]) as [E|E].
  - injection E as -> ->. rewrite (stream_get_after_set _ _ _ _ _ _ HS). split.
    + intros (_ & _ & E). injection E as ->. left; reflexivity.
    + intros [E|[_ Hne]]; [injection E as ->; split; [exact Hr|]; split; [exact Hs | reflexivity] | congruence].
  - assert (Hne : (r', s') <> (r, s)) by congruence. rewrite (Hoth Hne). split.
    + intros H. right. split; [exact H | exact Hne].
    + intros [E'|[H _]]; [congruence | exact H].
Qed.

Theorem list_after_delete (st st' : sstore) r s u L L' : stream_store_wf st -> okv_sorted st = true ->
  r <> [] -> s <> [] ->
  go_st_DeleteStream st r s = Ok (st', u) ->
  go_st_IterateAllStreams st collect [] = Ok L ->
  go_st_IterateAllStreams st' collect [] = Ok L' ->
  forall a, In a L' <-> In a L /\ fst a <> (r, s).
Proof.
  intros W Hsd Nr Ns HD HL HL'.
  pose proof (DeleteStream_wf _ _ _ _ _ W HD) as W'.
  pose proof (DeleteStream_sorted _ _ _ _ _ Hsd HD) as Hsd'.
  pose proof (list_point st L W Hsd HL) as P. pose proof (list_point st' L' W' Hsd' HL') as P'.
  intros [[r' s'] x']. cbn [fst]. rewrite P', P.
  assert (Hoth : (r', s') <> (r, s) ->
    (addr_ok r' /\ addr_ok s' /\ go_st_GetStream st' r' s' = Ok (x', true)) <->
    (addr_ok r' /\ addr_ok s' /\ go_st_GetStream st r' s' = Ok (x', true))).
  { intros Hne. split; intros (Hr' & Hs' & G); (split; [exact Hr'|]; split; [exact Hs'|]);
      destruct (stream_delete_other st st' r s u r' s' Nr Ns (addr_ok_nonempty _ Hr') (addr_ok_nonempty _ Hs') Hne HD)
        as [Eg _]; congruence. }
  destruct (list_eq_dec (list_eq_dec N.eq_dec) [r'; s'] [r; s]) as [E|E].
  - injection E as -> ->. destruct (stream_after_delete _ _ _ _ _ Hsd HD) as [_ G0]. rewrite G0. split.
    + intros (_ & _ & E). discriminate E.
    + intros [_ Hne]. congruence.
  - assert (Hne : (r', s') <> (r, s)) by congruence. rewrite (Hoth Hne). split.
    + intros H. split; [exact H | exact Hne].
    + intros [H _]. exact H.
Qed.

(* the stream just stored is reported to the callback with exactly the pair it was stored under, and nothing else
   is reported under that pair *)
Theorem list_reports_created_pair (st st' : sstore) r s x u L' : stream_store_wf st -> okv_sorted st = true ->
  r <> [] -> s <> [] ->
  go_st_SetStream st r s x = Ok (st', u) ->
  go_st_IterateAllStreams st' collect [] = Ok L' ->
  In (r, s, x) L' /\ (forall x', In (r, s, x') L' -> x' = x).
Proof.
  intros W Hsd Nr Ns HS HL'.
  destruct (list_total st W) as [L HL].
  pose proof (list_after_set _ _ _ _ _ _ _ _ W Hsd Nr Ns HS HL HL') as P. split.
  - apply P. left; reflexivity.
  - intros x' Hin. apply P in Hin as [E|[_ Hne]]; [congruence | cbn [fst] in Hne; congruence].
Qed.

(* ---- the store as a value: overwrite, commutation, set-then-delete ---- *)
Theorem stream_set_overwrites (st st1 st2 : sstore) r s x1 x2 u1 u2 : okv_sorted st = true ->
  go_st_SetStream st r s x1 = Ok (st1, u1) -> go_st_SetStream st1 r s x2 = Ok (st2, u2) ->
  go_st_SetStream st r s x2 = Ok (st2, tt).
Proof.
  intros Hsd H1 H2. apply SetStream_inv in H1 as (-> & Hr & Hs & _). apply SetStream_inv in H2 as (-> & _ & _ & Hm).
  rewrite SetStream_ok by assumption. rewrite set_set_same by exact Hsd. reflexivity.
Qed.

Theorem stream_set_commutes (st sa sab sb sba : sstore) r1 s1 x1 r2 s2 x2 u1 u2 u3 u4 : okv_sorted st = true ->
  r1 <> [] -> s1 <> [] -> r2 <> [] -> s2 <> [] -> (r1, s1) <> (r2, s2) ->
  go_st_SetStream st r1 s1 x1 = Ok (sa, u1) -> go_st_SetStream sa r2 s2 x2 = Ok (sab, u2) ->
  go_st_SetStream st r2 s2 x2 = Ok (sb, u3) -> go_st_SetStream sb r1 s1 x1 = Ok (sba, u4) ->
  sab = sba.
Proof.
  intros Hsd N1 N2 N3 N4 Hne H1 H2 H3 H4.
  apply SetStream_inv in H1 as (-> & _). apply SetStream_inv in H2 as (-> & _).
  apply SetStream_inv in H3 as (-> & _). apply SetStream_inv in H4 as (-> & _).
  apply set_set_comm; [exact Hsd | apply skey_neq; assumption].
Qed.

Theorem stream_set_then_delete (st st1 : sstore) r s x u : okv_sorted st = true ->
  go_st_IsStream st r s = Ok false -> go_st_SetStream st r s x = Ok (st1, u) ->
  go_st_DeleteStream st1 r s = Ok (st, tt).
Proof.
  intros Hsd Hi H. apply SetStream_inv in H as (-> & Hr & Hs & _).
  rewrite IsStream_spec in Hi. destruct (stream_key_ok r s Hr Hs) as [E _]. rewrite E in Hi. cbn [obind] in Hi.
  rewrite DeleteStream_ok by assumption. rewrite del_set_same; [reflexivity | exact Hsd|].
  destruct (okv_get st (skey r s)); [discriminate Hi | reflexivity].
Qed.

(* ================================================================== *)
(* (f) a concrete run; the hypotheses above are necessary               *)
(* ================================================================== *)

Local Open Scope Z_scope.

Definition ex_x (n : Z) : go_Stream := mk_go_Stream (go_zero_denom, 100 + n) n 0 0 true.

(* params, then three streams, written in an order that is not the key order *)
Definition ex_run : outcome sstore :=
  do r1 <- go_st_SetParams [] (mk_go_Params 5);
  do r2 <- go_st_SetStream (fst r1) [2; 2]%N [1]%N (ex_x 1);
  do r3 <- go_st_SetStream (fst r2) [9]%N [3]%N (ex_x 2);
  do r4 <- go_st_SetStream (fst r3) [9]%N [1]%N (ex_x 3);
  Ok (fst r4).

Definition ex_store : sstore :=
  [ ([1]%N, SV_Params (mk_go_Params 5));
    ([17; 1; 9; 1; 1]%N, SV_Stream (ex_x 3));
    ([17; 1; 9; 1; 3]%N, SV_Stream (ex_x 2));
    ([17; 2; 2; 2; 1; 1]%N, SV_Stream (ex_x 1)) ].

Example ex_run_result : ex_run = Ok ex_store /\ okv_sorted ex_store = true.
Proof. vm_compute. split; reflexivity. Qed.

Example ex_read_back :
  go_st_GetParams ex_store = Ok (mk_go_Params 5) /\
  go_st_GetStream ex_store [9]%N [3]%N = Ok (ex_x 2, true) /\
  go_st_IsStream ex_store [2; 2]%N [1]%N = Ok true /\
  go_st_GetStream ex_store [9]%N [2]%N = Ok (zero_go_Stream, false) /\
  go_st_IsStream ex_store [2]%N [2; 1]%N = Ok false.
Proof. vm_compute. repeat split. Qed.

(* the listing: ascending key order (shorter receivers first), not insertion order; every pair as stored *)
Example ex_listing :
  go_st_IterateAllStreams ex_store collect [] =
  Ok [ ([9]%N, [1]%N, ex_x 3); ([9]%N, [3]%N, ex_x 2); ([2; 2]%N, [1]%N, ex_x 1) ].
Proof. vm_compute. reflexivity. Qed.

(* a callback that stops at the second stream *)
Example ex_listing_break :
  go_st_IterateAllStreams ex_store (fun n a => Ok (n + Stream_FlowRate (snd a), Stream_FlowRate (snd a) <=? 2)) 0 = Ok 5.
Proof. vm_compute. reflexivity. Qed.

(* isolation: deleting one stream leaves the params, the other streams and their listing as they were; a params
   rewrite leaves the listing as it was *)
Example ex_isolation :
  (do r <- go_st_DeleteStream ex_store [9]%N [3]%N;
   do p <- go_st_GetParams (fst r);
   do a <- go_st_GetStream (fst r) [9]%N [1]%N;
   do b <- go_st_IsStream (fst r) [9]%N [3]%N;
   do l <- go_st_IterateAllStreams (fst r) collect [];
   Ok (p, a, b, l)) =
  Ok (mk_go_Params 5, (ex_x 3, true), false, [ ([9]%N, [1]%N, ex_x 3); ([2; 2]%N, [1]%N, ex_x 1) ]) /\
  (do r <- go_st_SetParams ex_store (mk_go_Params 7);
   do p <- go_st_GetParams (fst r);
   do l <- go_st_IterateAllStreams (fst r) collect [];
   Ok (p, l)) =
  Ok (mk_go_Params 7, [ ([9]%N, [1]%N, ex_x 3); ([9]%N, [3]%N, ex_x 2); ([2; 2]%N, [1]%N, ex_x 1) ]).
Proof. vm_compute. split; reflexivity. Qed.

(* the writers refuse what Go refuses *)
Example ex_refusals :
  go_st_SetParams ex_store (mk_go_Params (-5)) = Err MC.model.StreamKeeperPrims.stream_ErrInvalidParams /\
  go_st_SetStream ex_store (repeat 1%N 256) [1]%N (ex_x 1) = Panic GO_PANIC_LENPREFIX /\
  go_st_SetStream ex_store [1]%N [1]%N (mk_go_Stream (go_zero_denom, 1) 1 (300000000000 * NSEC) 0 true) = Panic MC.model.Stream.PANIC_MARSHAL /\
  go_st_DeleteStream ex_store [9]%N (repeat 1%N 256) = Panic GO_PANIC_LENPREFIX.
Proof. vm_compute. repeat split. Qed.

(* ---- necessity of the hypotheses ---- *)

(* sortedness in [stream_after_delete]: a list with a key twice is not a store; Delete removes one copy *)
Example stream_after_delete_unsorted_refuted :
  let st : sstore := [ ([17; 1; 9; 1; 1]%N, SV_Stream (ex_x 1)); ([17; 1; 9; 1; 1]%N, SV_Stream (ex_x 2)) ] in
  okv_sorted st = false /\
  (do r <- go_st_DeleteStream st [9]%N [1]%N; go_st_IsStream (fst r) [9]%N [1]%N) = Ok true.
Proof. vm_compute. split; reflexivity. Qed.

(* non-empty addresses in [stream_set_other]: LengthPrefix leaves the empty address without a length byte, so
   ([], [7]) and ([7], []) share a key - a write to one is seen through the other *)
Example stream_set_other_empty_refuted :
  ([7]%N, [] : list N) <> ([], [7]%N) /\
  go_st_GetStream [] [7]%N [] = Ok (zero_go_Stream, false) /\
  (do r <- go_st_SetStream [] [] [7]%N (ex_x 1); go_st_GetStream (fst r) [7]%N []) = Ok (ex_x 1, true).
Proof. split; [discriminate | vm_compute; split; reflexivity]. Qed.

(* non-empty addresses in [SetStream_wf]: SetStream accepts an empty receiver, and the listing then panics
   (AssertKeyAtLeastLength in AddressesFromStreamKey) on the entry it wrote *)
Example SetStream_wf_empty_refuted :
  (do r <- go_st_SetStream [] [] [7]%N (ex_x 1); go_st_IterateAllStreams (fst r) collect []) = Panic GO_PANIC_KEYLEN /\
  (do r <- go_st_SetStream [] [] [7]%N (ex_x 1); go_st_GetStream (fst r) [] [7]%N) = Ok (ex_x 1, true).
Proof. vm_compute. split; reflexivity. Qed.

(* well-formedness in [list_total] / [GetParams_total]: a value of the wrong type under a key is outside the
   description of the store (Unmarshal panic) *)
Example wf_refuted :
  go_st_GetParams [([1]%N, SV_bytes [])] = Panic OKV_PANIC_UNMARSHAL /\
  go_st_IterateAllStreams [([17; 1; 9; 1; 1]%N, SV_bytes [])] collect [] = Panic OKV_PANIC_UNMARSHAL /\
  go_st_IterateAllStreams [([17]%N, SV_Stream (ex_x 1))] collect [] = Panic GO_PANIC_KEYLEN.
Proof. vm_compute. repeat split. Qed.

(* sortedness in [list_point]: with a key twice the listing shows both copies, the point query the first *)
Example list_point_unsorted_refuted :
  let st : sstore := [ ([17; 1; 9; 1; 1]%N, SV_Stream (ex_x 1)); ([17; 1; 9; 1; 1]%N, SV_Stream (ex_x 2)) ] in
  stream_store_wf st /\
  go_st_IterateAllStreams st collect [] = Ok [ ([9]%N, [1]%N, ex_x 1); ([9]%N, [1]%N, ex_x 2) ] /\
  go_st_GetStream st [9]%N [1]%N = Ok (ex_x 1, true).
Proof.
  cbv zeta. split; [|vm_compute; split; reflexivity].
  split.
  - intros v [E|[E|[]]]; discriminate E.
  - intros k v Hin _. exists [9]%N, [1]%N.
    destruct Hin as [E|[E|[]]]; injection E as <- <-; eexists; (split; [unfold addr_ok; cbn; lia|]);
      (split; [unfold addr_ok; cbn; lia|]); split; reflexivity.
Qed.
