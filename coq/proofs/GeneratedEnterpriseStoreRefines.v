(* REFINEMENT: the store accessors of x/enterprise as generated on every run (GeneratedEnterpriseStore.v: go_st_* over the
   ordered byte-keyed store of model/KVStore.v) IMPLEMENT the hand-written primitives of model/EnterpriseKeeperPrims.v
   (ent_* over the abstract state [ent_state] of model/Enterprise.v), which the keeper-level translation
   (GeneratedEnterpriseKeeper.v) and every higher theorem are written against.

   Correspondence (by name and meaning):
     go_st_GetParams / GetParamDenom                 ent_GetParams / ent_GetParamDenom
     go_st_SetParams                                 ent_SetParams (= ent_set_params o params_of_go)
     go_st_GetHighestPurchaseOrderID / Set..         ent_GetHighestPurchaseOrderID / ent_SetHighestPurchaseOrderID
     go_st_PurchaseOrderExists / GetPurchaseOrder    ent_PurchaseOrderExists / ent_GetPurchaseOrder
     go_st_SetPurchaseOrder                          ent_SetPurchaseOrder
     go_st_GetAllPurchaseOrders / Iterate..          ent_GetAllPurchaseOrders
     go_st_AddPoToRaisedQueue / Remove.. / IsIn..    ent_AddPoToRaisedQueue / ent_RemovePurchaseOrderFromRaisedQueue / mem_addr
     go_st_GetAllRaisedPurchaseOrders / Iterate..    ent_GetAllRaisedPurchaseOrders          (same four for the accepted queue)
     go_st_AddressIsWhitelisted / Add.. / Remove..   ent_AddressIsWhitelisted / ent_AddAddressToWhitelist / ent_Remove..
     go_st_GetAllWhitelistedAddresses                ent_GetAllWhitelistedAddresses
     go_st_GetTotalLockedUnd / Set..                 ent_GetTotalLockedUnd / ent_SetTotalLockedUnd    (same for TotalSpentEFUND)
     go_st_AccountHasLockedUnd / GetLockedUndForAccount / GetLockedUndAmountForAccount / IsLocked
                                                     ahas / ent_GetLockedUndForAccount / locked_coin / its sign
     go_st_SetLockedUndForAccount                    ent_SetLockedUndForAccount
     go_st_GetAllLockedUnds                          ent_GetAllLockedUnds                   (same six for spent eFUND)

   The abstract addresses of the model are integers and bech32 is the identity there; the store is keyed by address BYTES.
   The development is parametrised by
       dom   : Z -> Prop          the abstract addresses in use,
       emb   : Z -> list N        their bytes,
       unemb : list N -> Z        an inverse,   with   emb injective on dom (used where two addresses must have two keys)
                                  and unemb (emb a) = a on dom (used where bytes are turned back into an address),
   and the two conversion arguments of the generated accessors are instantiated with
       bech a   = if addr_parses a then Ok (emb a) else Err ERR_ENT     (exactly ent_AccAddressFromBech32 of the primitives
                                                                         and es_bech of model/EnterpriseStoreWorld.v: BAD_ADDR
                                                                         and the empty string EMPTY_ADDR do not parse)
       astr b   = unemb b.
   The three address-keyed families need no length bound on emb (prefix byte ++ raw address); the whitelist needs
   emb a <> [] (the generated whitelist accessors treat the empty address specially).

   [Rent s st] is the representation relation (a record, one field per clause; C18storeenterpriserefines.v spells it out).
   Readers agree; writers simulate (same Ok / Err / Panic; the error CODE is stated per writer: the generated file reports
   the module error as STORE_ERR = 10 where the primitives say ERR_ENT = 30, see SetPurchaseOrder / SetLockedUndForAccount);
   listings agree exactly once the abstract listing is sorted by store key ([ksort]), hence as a Permutation, and on the
   nose when the abstract collection is already in key order (the two queues always are: the relation demands it);
   the store after the two genesis writes is related; the simulation composes over accessor-level histories.
   What the relation / the side conditions exclude although the primitives tolerate it is shown necessary by *_refuted
   Examples at the end. *)
From Coq Require Import ZArith NArith List Bool Lia Sorted Permutation.
From MC Require Import lib.Prelude lib.AMap lib.GoSdk model.Keys model.KeyPrims model.KVStore model.StoreCodecPrims.
From MC Require Import model.Bank model.Enterprise model.EnterpriseKeeperPrims.
From MC Require Import GeneratedKeys GeneratedEnterpriseTypes GeneratedEnterpriseKeeper GeneratedEnterpriseStore.
From MC Require Import proofs.KeysProofs proofs.GeneratedKeysEq proofs.KVStoreFacts proofs.KVStoreFacts2Enterprise.
From MC Require Import proofs.GeneratedEnterpriseStoreEq proofs.GeneratedEnterpriseParamsEq.
Import ListNotations.
Open Scope Z_scope.

Notation u64 x := (0 <= x < 2 ^ 64).

(* ================================================================== *)
(* 0. small library                                                     *)
(* ================================================================== *)

(* ---- the protobuf structs and the model's records are two spellings of the same data ---- *)
Lemma to_of_go_decision g : to_go_decision (of_go_decision g) = g.
Proof. destruct g. reflexivity. Qed.
Lemma of_to_go_decision d : of_go_decision (to_go_decision d) = d.
Proof. destruct d. reflexivity. Qed.
Lemma to_of_go_po g : to_go_po (of_go_po g) = g.
Proof.
  destruct g as [i p [d a] st rt ct ds]. unfold to_go_po, of_go_po. cbn. f_equal.
  rewrite map_map. rewrite <- (map_id ds) at 2. apply map_ext. apply to_of_go_decision.
Qed.
Lemma of_to_go_po o : of_go_po (to_go_po o) = o.
Proof.
  destruct o as [i p d a st rt ct ds]. unfold to_go_po, of_go_po. cbn. f_equal.
  rewrite map_map. rewrite <- (map_id ds) at 2. apply map_ext. apply of_to_go_decision.
Qed.
Lemma to_go_po_inj x y : to_go_po x = to_go_po y -> x = y.
Proof. intros E. rewrite <- (of_to_go_po x), <- (of_to_go_po y), E. reflexivity. Qed.
Lemma params_to_of_go p : params_to_go (params_of_go p) = p.
Proof. destruct p. reflexivity. Qed.
Lemma params_of_to_go p : params_of_go (params_to_go p) = p.
Proof. destruct p. reflexivity. Qed.
Lemma go_LockedUnd_eta x : mk_go_LockedUnd (LockedUnd_Owner x) (LockedUnd_Amount x) = x.
Proof. destruct x. reflexivity. Qed.
Lemma go_SpentEFUND_eta x : mk_go_SpentEFUND (SpentEFUND_Owner x) (SpentEFUND_Amount x) = x.
Proof. destruct x. reflexivity. Qed.

(* ---- association maps ---- *)
Section AMapMore.
  Context {K V : Type} `{EqKey K}.

  Lemma aget_of_In k v (m : amap K V) : NoDup (akeys m) -> In (k, v) m -> aget k m = Some v.
  Proof.
    induction m as [|[k1 v1] r IH]; intros ND Hin; [destruct Hin|].
    inversion ND as [|? ? NI ND']; subst. cbn. destruct Hin as [E|Hin].
    - inversion E; subst. rewrite keqb_refl. reflexivity.
    - destruct (keqb k k1) eqn:E.
      + apply keqb_spec in E; subst. exfalso. apply NI. change k1 with (fst (k1, v)). apply in_map. exact Hin.
      + apply IH; assumption.
  Qed.

  Lemma aset_In k v (m : amap K V) k' v' : In (k', v') (aset k v m) -> (k' = k /\ v' = v) \/ In (k', v') m.
  Proof.
    induction m as [|[k1 v1] r IH]; cbn.
    - intros [E|[]]. inversion E; subst. left; split; reflexivity.
    - destruct (keqb k k1); cbn.
      + intros [E|Hin]; [inversion E; subst; left; split; reflexivity | right; right; exact Hin].
      + intros [E|Hin]; [right; left; exact E|]. destruct (IH Hin) as [X|X]; [left; exact X | right; right; exact X].
  Qed.

  Lemma In_akeys_aset (k : K) (v : V) m x : In x (akeys (aset k v m)) -> x = k \/ In x (akeys m).
  Proof.
    intros Hin. apply in_map_iff in Hin as [[k' v'] [E Hin]]. cbn in E. subst x.
    apply aset_In in Hin as [[-> _]|Hin]; [left; reflexivity | right].
    change k' with (fst (k', v')). apply in_map. exact Hin.
  Qed.

  Lemma aget_Some_key k v (m : amap K V) : aget k m = Some v -> In k (akeys m).
  Proof. intros G. apply aget_In in G. change k with (fst (k, v)). apply in_map. exact G. Qed.
End AMapMore.

Lemma NoDup_map_inj_in {A B} (f : A -> B) (l : list A) :
  (forall x y, In x l -> In y l -> f x = f y -> x = y) -> NoDup l -> NoDup (map f l).
Proof.
  induction l as [|a l IH]; intros Hf ND; cbn; [constructor|].
  inversion ND as [|? ? NI ND']; subst. constructor.
  - intros Hin. apply in_map_iff in Hin as (b & E & Hb). apply NI.
    rewrite (Hf a b); [exact Hb | left; reflexivity | right; exact Hb | symmetry; exact E].
  - apply IH; [|exact ND']. intros x y Hx Hy. apply Hf; right; assumption.
Qed.

(* ---- membership / removal on lists of integers (model/Enterprise.v: mem_addr, remove_z) ---- *)
Lemma mem_addr_In a l : mem_addr a l = true <-> In a l.
Proof.
  unfold mem_addr. rewrite existsb_exists. split.
  - intros [x [Hx E]]. apply Z.eqb_eq in E. subst x. exact Hx.
  - intros Hx. exists a. split; [exact Hx | apply Z.eqb_refl].
Qed.
Lemma mem_addr_notIn a l : mem_addr a l = false <-> ~ In a l.
Proof.
  rewrite <- mem_addr_In. destruct (mem_addr a l); split; intros X.
  - discriminate X.
  - exfalso. apply X. reflexivity.
  - intros Y. discriminate Y.
  - reflexivity.
Qed.
Lemma mem_addr_snoc a l b : mem_addr a (l ++ [b]) = mem_addr a l || (a =? b).
Proof. unfold mem_addr. rewrite existsb_app. cbn [existsb]. rewrite orb_false_r. reflexivity. Qed.
Lemma In_remove_z x y l : In x (remove_z y l) <-> In x l /\ x <> y.
Proof. unfold remove_z. rewrite filter_In, negb_true_iff, Z.eqb_neq. reflexivity. Qed.
Lemma mem_addr_remove_same a l : mem_addr a (remove_z a l) = false.
Proof. apply mem_addr_notIn. rewrite In_remove_z. intros [_ X]. apply X. reflexivity. Qed.
Lemma mem_addr_remove_other a b l : a <> b -> mem_addr a (remove_z b l) = mem_addr a l.
Proof.
  intros Hne. destruct (mem_addr a l) eqn:E.
  - apply mem_addr_In. apply In_remove_z. split; [apply mem_addr_In; exact E | exact Hne].
  - apply mem_addr_notIn. rewrite In_remove_z. intros [X _]. apply mem_addr_notIn in E. contradiction.
Qed.

Lemma StronglySorted_filter {A} (R : A -> A -> Prop) f l : StronglySorted R l -> StronglySorted R (filter f l).
Proof.
  induction 1 as [|a l Hs IH Hall]; cbn; [constructor|]. destruct (f a); [|exact IH].
  constructor; [exact IH|]. rewrite Forall_forall in *. intros x Hx. apply filter_In in Hx. apply Hall, Hx.
Qed.
Lemma StronglySorted_snoc l x : StronglySorted Z.lt l -> (forall y, In y l -> y < x) -> StronglySorted Z.lt (l ++ [x]).
Proof.
  induction 1 as [|a l Hs IH Hall]; intros F; cbn; [constructor; constructor|].
  constructor; [apply IH; intros y Hy; apply F; right; exact Hy|].
  apply Forall_app. split; [exact Hall|]. constructor; [apply F; left; reflexivity | constructor].
Qed.
Lemma NoDup_snoc {A} (l : list A) x : NoDup l -> ~ In x l -> NoDup (l ++ [x]).
Proof.
  induction 1 as [|a l Ha ND IH]; intros NI; cbn; [constructor; [intros []|constructor]|].
  constructor.
  - rewrite in_app_iff. intros [X|[X|[]]]; [contradiction | subst; apply NI; left; reflexivity].
  - apply IH. intros X. apply NI. right. exact X.
Qed.
Lemma StronglySorted_impl_in {A} (R R' : A -> A -> Prop) l :
  (forall a b, In a l -> In b l -> R a b -> R' a b) -> StronglySorted R l -> StronglySorted R' l.
Proof.
  intros Hf Hs. rewrite <- (map_id l). apply (StronglySorted_map_in R R' (fun a => a) l); [|exact Hs]. exact Hf.
Qed.

(* ---- sorting a listing by store key: insertion sort in bytes.Compare order of a key ---- *)
Section KSort.
  Context {A : Type}.
  Variable key : A -> list N.
  Definition klt (a b : A) : Prop := lex_lt (key a) (key b) = true.

  Fixpoint kinsert (a : A) (l : list A) : list A :=
    match l with
    | [] => [a]
    | b :: r => if lex_lt (key a) (key b) then a :: b :: r else b :: kinsert a r
    end.
  Definition ksort (l : list A) : list A := fold_right kinsert [] l.

  Lemma kinsert_perm a l : Permutation (kinsert a l) (a :: l).
  Proof.
    induction l as [|b r IH]; cbn [kinsert]; [apply Permutation_refl|].
    destruct (lex_lt (key a) (key b)); [apply Permutation_refl|].
    eapply Permutation_trans; [apply perm_skip; exact IH | apply perm_swap].
  Qed.
  Lemma ksort_perm l : Permutation (ksort l) l.
  Proof.
    induction l as [|a l IH]; [constructor|]. change (ksort (a :: l)) with (kinsert a (ksort l)).
    eapply Permutation_trans; [apply kinsert_perm | apply perm_skip; exact IH].
  Qed.
  Lemma ksort_In a l : In a (ksort l) <-> In a l.
  Proof. split; apply Permutation_in; [apply ksort_perm | apply Permutation_sym, ksort_perm]. Qed.

  Lemma kinsert_sorted a l : StronglySorted klt l -> (forall b, In b l -> key b <> key a) -> StronglySorted klt (kinsert a l).
  Proof.
    induction l as [|b r IH]; intros Hs Hne; cbn [kinsert].
    - constructor; constructor.
    - inversion Hs as [|? ? Hr Hb]; subst. destruct (lex_lt (key a) (key b)) eqn:E.
      + constructor; [exact Hs|]. constructor; [exact E|].
        rewrite Forall_forall in *. intros x Hx. unfold klt. eapply lex_lt_trans; [exact E | apply Hb; exact Hx].
      + constructor.
        * apply IH; [exact Hr|]. intros x Hx. apply Hne. right; exact Hx.
        * rewrite Forall_forall in *. intros x Hx.
          apply (Permutation_in _ (kinsert_perm a r)) in Hx. destruct Hx as [<-|Hx]; [|apply Hb; exact Hx].
          unfold klt. destruct (lex_lt_total (key b) (key a)) as [T|[T|T]]; [exact T | | congruence].
          exfalso. apply (Hne b); [left; reflexivity | exact T].
  Qed.
  Lemma ksort_sorted l : NoDup (map key l) -> StronglySorted klt (ksort l).
  Proof.
    induction l as [|a l IH]; intros ND; [constructor|]. change (ksort (a :: l)) with (kinsert a (ksort l)).
    cbn [map] in ND. inversion ND as [|? ? NI ND']; subst. apply kinsert_sorted; [apply IH; exact ND'|].
    intros b Hb E. apply NI. rewrite <- E. apply in_map. apply ksort_In. exact Hb.
  Qed.

  (* an ascending listing is determined by its content *)
  Lemma sorted_perm_unique (l1 l2 : list A) : StronglySorted klt l1 -> StronglySorted klt l2 -> Permutation l1 l2 -> l1 = l2.
  Proof.
    revert l2. induction l1 as [|a l1 IH]; intros l2 H1 H2 P.
    - apply Permutation_nil in P. symmetry; exact P.
    - destruct l2 as [|b l2]; [apply Permutation_sym, Permutation_nil in P; discriminate P|].
      inversion H1 as [|? ? H1' Ha]; subst. inversion H2 as [|? ? H2' Hb]; subst.
      assert (E : a = b).
      { assert (Ia : In a (b :: l2)) by (apply (Permutation_in _ P); left; reflexivity).
        assert (Ib : In b (a :: l1)) by (apply (Permutation_in _ (Permutation_sym P)); left; reflexivity).
        destruct Ia as [Ia|Ia]; [symmetry; exact Ia|]. destruct Ib as [Ib|Ib]; [exact Ib|].
        rewrite Forall_forall in Ha, Hb. pose proof (Ha _ Ib) as T1. pose proof (Hb _ Ia) as T2.
        unfold klt in T1, T2. rewrite (lex_lt_asym _ _ T1) in T2. discriminate T2. }
      subst b. f_equal. apply IH; [exact H1' | exact H2' | eapply Permutation_cons_inv; exact P].
  Qed.
  Lemma klt_sorted_NoDup l : StronglySorted klt l -> NoDup (map key l).
  Proof.
    intros Hs. apply (StronglySorted_irrefl_NoDup (fun a b => lex_lt a b = true)).
    - intros a X. rewrite lex_lt_irrefl in X. discriminate X.
    - apply (StronglySorted_map_in klt); [|exact Hs]. intros a b _ _ X. exact X.
  Qed.
  (* a listing already in key order is left alone *)
  Lemma ksort_id l : StronglySorted klt l -> ksort l = l.
  Proof.
    intros Hs. apply sorted_perm_unique; [apply ksort_sorted, klt_sorted_NoDup, Hs | exact Hs | apply ksort_perm].
  Qed.
End KSort.

(* ---- ordered stores ---- *)
Section StoreMore.
  Context {V : Type}.
  Lemma okv_sorted_of_strongly (l : okv V) : StronglySorted key_lt l -> okv_sorted l = true.
  Proof.
    induction 1 as [|[k v] l Hs IH Hall]; [reflexivity|]. apply sorted_cons. split; [exact IH|].
    intros k' v' Hin. rewrite Forall_forall in Hall. exact (Hall _ Hin).
  Qed.
  Lemma okv_same_members (a b : okv V) : okv_sorted a = true -> okv_sorted b = true ->
    (forall k v, In (k, v) a <-> In (k, v) b) -> a = b.
  Proof.
    intros Ha Hb Hm. apply okv_ext; [exact Ha | exact Hb|]. intros k.
    destruct (okv_get a k) as [v|] eqn:Ea.
    - apply get_in in Ea. apply Hm in Ea. symmetry. apply in_get; assumption.
    - destruct (okv_get b k) as [v|] eqn:Eb; [|reflexivity].
      apply get_in in Eb. apply Hm in Eb. apply (in_get _ _ _ Ha) in Eb. congruence.
  Qed.

  (* the prefix listing of a sorted store whose entries under the prefix are exactly the images [enc a] of the
     elements of an abstract collection: those images, in key order *)
  Lemma prefix_listing {A} (P : list N) (enc : A -> list N * V) (AL : list A) (s : okv V) :
    okv_sorted s = true ->
    NoDup (map (fun a => fst (enc a)) AL) ->
    (forall k v, (In (k, v) s /\ is_prefix P k = true) <-> (exists a, In a AL /\ enc a = (k, v))) ->
    okv_prefix s P = map enc (ksort (fun a => fst (enc a)) AL).
  Proof.
    intros Hs ND Hm. apply okv_same_members.
    - apply prefix_sorted, Hs.
    - apply okv_sorted_of_strongly.
      apply (StronglySorted_map_in (klt (fun a => fst (enc a)))); [|apply ksort_sorted, ND].
      intros a b _ _ X. exact X.
    - intros k v. rewrite prefix_in, Hm. split.
      + intros [a [Ha E]]. apply in_map_iff. exists a. split; [exact E | apply ksort_In; exact Ha].
      + intros Hin. apply in_map_iff in Hin as [a [E Ha]]. exists a. split; [apply ksort_In in Ha; exact Ha | exact E].
  Qed.

  Lemma decode_all_enc {A B} (dec : list N -> V -> outcome B) (enc : A -> list N * V) (f : A -> B) (L : list A) :
    (forall a, In a L -> dec (fst (enc a)) (snd (enc a)) = Ok (f a)) -> decode_all dec (map enc L) = Ok (map f L).
  Proof.
    induction L as [|a L IH]; intros Hd; [reflexivity|]. cbn [map decode_all].
    destruct (enc a) as [k v] eqn:E. pose proof (Hd a (or_introl eq_refl)) as Ha. rewrite E in Ha. cbn [fst snd] in Ha.
    rewrite Ha. cbn [obind]. rewrite IH by (intros x Hx; apply Hd; right; exact Hx). reflexivity.
  Qed.

  (* the Go loop `for _, a := range l { if cb(a) { break } }` over an already decoded list *)
  Fixpoint lst_iterate {A St} (cb : St -> A -> outcome (St * bool)) (l : list A) (st : St) : outcome St :=
    match l with
    | [] => Ok st
    | a :: r => do res <- cb st a; if snd res then Ok (fst res) else lst_iterate cb r (fst res)
    end.
  Lemma iterate_decoded {A St} (dec : list N -> V -> outcome A) (cb : St -> A -> outcome (St * bool)) (es : okv V) L st :
    decode_all dec es = Ok L -> okv_iterate dec cb es st = lst_iterate cb L st.
  Proof.
    revert L st. induction es as [|[k v] r IH]; intros L st H; cbn in H.
    - injection H as <-. reflexivity.
    - destruct (dec k v) as [a| |] eqn:Ea; cbn in H; try discriminate H.
      destruct (decode_all dec r) as [l| |] eqn:El; cbn in H; try discriminate H.
      injection H as <-. cbn. rewrite Ea. cbn.
      destruct (cb st a) as [[st' b]| |]; cbn; try reflexivity.
      destruct b; [reflexivity | apply IH; reflexivity].
  Qed.
End StoreMore.

(* ---- the outcomes of the two sides of a simulation step ---- *)
Definition out_sim {A B} (R : A -> B -> Prop) (E : Z -> Z -> Prop) (a : outcome A) (c : outcome B) : Prop :=
  match a, c with
  | Ok x, Ok y => R x y
  | Err e, Err e' => E e e'
  | Panic p, Panic p' => p = p'
  | _, _ => False
  end.

(* ---- the stored images of the abstract data (no address involved) ---- *)
Definition v_id (id : Z) : enterprise_val := EV_bytes (be64 (Z.to_N id)).
Definition v_po (o : po) : enterprise_val := EV_EnterpriseUndPurchaseOrder (to_go_po o).
Definition v_locked (a : addr) (c : coin) : enterprise_val := EV_LockedUnd (mk_go_LockedUnd a c).
Definition v_spent (a : addr) (c : coin) : enterprise_val := EV_SpentEFUND (mk_go_SpentEFUND a c).

(* a family of cells: on [D], the cell under [key x] holds [f x] (absent when None) *)
Definition cells {X} (D : X -> Prop) (key : X -> list N) (f : X -> option enterprise_val) (s : store) : Prop :=
  forall x, D x -> okv_get s (key x) = f x.

Lemma cells_set_other {X} (D : X -> Prop) key f s K v :
  (forall x, D x -> key x <> K) -> cells D key f s -> cells D key f (okv_set s K v).
Proof. intros Hne Hc x Dx. rewrite get_set_other by (apply Hne; exact Dx). apply Hc; exact Dx. Qed.
Lemma cells_del_other {X} (D : X -> Prop) key f s K :
  (forall x, D x -> key x <> K) -> cells D key f s -> cells D key f (okv_del s K).
Proof. intros Hne Hc x Dx. rewrite get_del_other by (apply Hne; exact Dx). apply Hc; exact Dx. Qed.

(* a list-backed family (the two queues, the whitelist): present iff a member *)
Lemma mcells_add (D : Z -> Prop) key (val : Z -> enterprise_val) s q x0 :
  (forall a b, D a -> D b -> key a = key b -> a = b) -> D x0 ->
  cells D key (fun x => if mem_addr x q then Some (val x) else None) s ->
  cells D key (fun x => if mem_addr x (q ++ [x0]) then Some (val x) else None) (okv_set s (key x0) (val x0)).
Proof.
  intros Kinj D0 Hc x Dx. cbv beta. rewrite mem_addr_snoc. destruct (Z.eq_dec x x0) as [->|Hne].
  - rewrite get_set_same, Z.eqb_refl, orb_true_r. reflexivity.
  - rewrite get_set_other by (intros E; apply Hne; apply Kinj; assumption).
    apply Z.eqb_neq in Hne. rewrite Hne, orb_false_r. apply Hc; exact Dx.
Qed.
Lemma mcells_remove (D : Z -> Prop) key (val : Z -> enterprise_val) s q x0 :
  (forall a b, D a -> D b -> key a = key b -> a = b) -> D x0 -> okv_sorted s = true ->
  cells D key (fun x => if mem_addr x q then Some (val x) else None) s ->
  cells D key (fun x => if mem_addr x (remove_z x0 q) then Some (val x) else None) (okv_del s (key x0)).
Proof.
  intros Kinj D0 Hs Hc x Dx. cbv beta. destruct (Z.eq_dec x x0) as [->|Hne].
  - rewrite get_del_same by exact Hs. rewrite mem_addr_remove_same. reflexivity.
  - rewrite get_del_other by (intros E; apply Hne; apply Kinj; assumption).
    rewrite mem_addr_remove_other by exact Hne. apply Hc; exact Dx.
Qed.
(* a map-backed family (purchase orders, locked, spent) *)
Lemma acells_set {V} (D : Z -> Prop) key (val : Z -> V -> enterprise_val) s (m : amap Z V) x0 v0 :
  (forall a b, D a -> D b -> key a = key b -> a = b) -> D x0 ->
  cells D key (fun x => option_map (val x) (aget x m)) s ->
  cells D key (fun x => option_map (val x) (aget x (aset x0 v0 m))) (okv_set s (key x0) (val x0 v0)).
Proof.
  intros Kinj D0 Hc x Dx. cbv beta. destruct (Z.eq_dec x x0) as [->|Hne].
  - rewrite get_set_same, aget_aset_eq. reflexivity.
  - rewrite get_set_other by (intros E; apply Hne; apply Kinj; assumption).
    rewrite aget_aset_neq by (intros E; apply Hne; symmetry; exact E). apply Hc; exact Dx.
Qed.

(* the parameters cell: the stored Params, or nothing stored and the state holds the zero Params *)
Definition params_cell (s : store) (p : ent_params) : Prop :=
  okv_get s kparams = Some (EV_Params (params_to_go p)) \/
  (okv_get s kparams = None /\ params_to_go p = zero_go_Params).

Lemma params_cell_read s p : params_cell s p -> rd_params (okv_get s kparams) = Ok (params_to_go p).
Proof. intros [E|[E Z]]; rewrite E; cbn [rd_params]; [reflexivity | rewrite Z; reflexivity]. Qed.
Lemma params_cell_zero_coin s p : params_cell s p -> rd_zero_coin (okv_get s kparams) = Ok (ep_denom p, 0).
Proof. intros H. unfold rd_zero_coin. rewrite (params_cell_read s p H). reflexivity. Qed.
Lemma params_cell_set_other s p K v : kparams <> K -> params_cell s p -> params_cell (okv_set s K v) p.
Proof. intros Hne H. unfold params_cell. rewrite get_set_other by exact Hne. exact H. Qed.
Lemma params_cell_del_other s p K : kparams <> K -> params_cell s p -> params_cell (okv_del s K) p.
Proof. intros Hne H. unfold params_cell. rewrite get_del_other by exact Hne. exact H. Qed.

(* keys of different kinds differ in their first byte *)
Ltac kneq := let E := fresh "E" in intros E; cbn [ent_encode] in E; discriminate E.
Ltac frame :=
  first [ assumption
        | apply cells_set_other; [intros ? _; kneq | assumption]
        | apply cells_del_other; [intros ? _; kneq | assumption]
        | apply params_cell_set_other; [kneq | assumption]
        | apply params_cell_del_other; [kneq | assumption]
        | rewrite get_set_other by kneq; assumption
        | rewrite get_del_other by kneq; assumption ].
Ltac simp_st :=
  cbn [with_pos with_books with_next with_wl e_params e_next e_pos e_raisedq e_acceptedq e_wl e_locked e_spent
       e_totlocked e_totspent].

(* what a history observes *)
Inductive eobs :=
| ObUnit
| ObParams (p : go_Params)
| ObZ (n : Z)
| ObBool (b : bool)
| ObPO (g : go_EnterpriseUndPurchaseOrder) (found : bool)
| ObPOs (l : list go_EnterpriseUndPurchaseOrder)
| ObIds (l : list Z)
| ObAddrs (l : list go_addr)
| ObCoin (c : go_coin)
| ObLocked (x : go_LockedUnd)
| ObLockeds (l : list go_LockedUnd)
| ObSpent (x : go_SpentEFUND)
| ObSpents (l : list go_SpentEFUND).

(* one call of a store accessor of x/enterprise, on abstract addresses *)
Inductive eop :=
| OpSetParams (p : go_Params) | OpGetParams
| OpSetHighest (n : Z) | OpGetHighest
| OpSetPO (g : go_EnterpriseUndPurchaseOrder) | OpGetPO (id : Z) | OpPOExists (id : Z) | OpAllPOs
| OpAddRaised (id : Z) | OpRemoveRaised (id : Z) | OpInRaised (id : Z) | OpAllRaised
| OpAddAccepted (id : Z) | OpRemoveAccepted (id : Z) | OpInAccepted (id : Z) | OpAllAccepted
| OpAddWL (a : addr) | OpRemoveWL (a : addr) | OpIsWL (a : addr) | OpAllWL
| OpSetTotalLocked (c : go_coin) | OpGetTotalLocked | OpSetTotalSpent (c : go_coin) | OpGetTotalSpent
| OpSetLocked (x : go_LockedUnd) | OpGetLocked (a : addr) | OpHasLocked (a : addr) | OpAllLocked
| OpSetSpent (x : go_SpentEFUND) | OpGetSpent (a : addr) | OpHasSpent (a : addr) | OpAllSpent.

(* a run: the state is threaded through the calls; a call that returns an error leaves the state alone (the accessors
   validate before they write) and the run goes on; a panic ends it.  The trace keeps every result. *)
Section Run.
  Context {S : Type}.
  Variable step : S -> eop -> outcome (S * eobs).
  Fixpoint run (s : S) (ops : list eop) : list (outcome eobs) * S :=
    match ops with
    | [] => ([], s)
    | o :: r =>
        match step s o with
        | Ok (s', ob) => let tr := run s' r in (Ok ob :: fst tr, snd tr)
        | Err e => let tr := run s r in (Err e :: fst tr, snd tr)
        | Panic c => ([Panic c], s)
        end
    end.
End Run.

(* ================================================================== *)
Section Refinement.
(* ================================================================== *)

Variable dom : addr -> Prop.
Variable emb : addr -> list N.
Variable unemb : list N -> addr.
Hypothesis emb_inj : forall a b, dom a -> dom b -> emb a = emb b -> a = b.
Hypothesis unemb_emb : forall a, dom a -> unemb (emb a) = a.      (* implies emb_inj: [left_inverse_injective] below *)
Hypothesis emb_nonempty : forall a, dom a -> emb a <> [].
Hypothesis dom_parses : forall a, dom a -> addr_parses a = true.

(* the two conversion arguments of the generated accessors *)
Definition bech (a : go_addr) : outcome (list N) := if addr_parses a then Ok (emb a) else Err ERR_ENT.
Definition astr (b : list N) : go_addr := unemb b.

Lemma bech_dom a : dom a -> bech a = Ok (emb a).
Proof. intros D. unfold bech. rewrite (dom_parses a D). reflexivity. Qed.

(* every key of the store is one the module writes *)
Definition key_ok (k : list N) : Prop :=
  k = kparams \/ k = khighest \/ k = ktotlocked \/ k = ktotspent \/
  (exists id, u64 id /\ k = kpo id) \/ (exists id, u64 id /\ k = kraised id) \/ (exists id, u64 id /\ k = kaccepted id) \/
  (exists a, dom a /\ k = kwl (emb a)) \/ (exists a, dom a /\ k = klocked (emb a)) \/ (exists a, dom a /\ k = kspent (emb a)).

Record Rent (s : store) (st : ent_state) : Prop := mk_Rent {
  R_sorted : okv_sorted s = true;
  R_params : params_cell s (e_params st);
  R_highest : okv_get s khighest = Some (v_id (e_next st));
  R_next : u64 (e_next st);
  R_totlocked : okv_get s ktotlocked = option_map EV_Coin (e_totlocked st);
  R_totspent : okv_get s ktotspent = option_map EV_Coin (e_totspent st);
  R_pos : cells (fun id => u64 id) (fun id => kpo id) (fun id => option_map v_po (aget id (e_pos st))) s;
  R_pos_nodup : NoDup (akeys (e_pos st));
  R_pos_ids : forall id o, In (id, o) (e_pos st) -> u64 id /\ po_id o = id;
  R_raised : cells (fun id => u64 id) (fun id => kraised id)
               (fun id => if mem_addr id (e_raisedq st) then Some (v_id id) else None) s;
  R_raised_asc : StronglySorted Z.lt (e_raisedq st);
  R_raised_ids : forall id, In id (e_raisedq st) -> u64 id;
  R_accepted : cells (fun id => u64 id) (fun id => kaccepted id)
                 (fun id => if mem_addr id (e_acceptedq st) then Some (v_id id) else None) s;
  R_accepted_asc : StronglySorted Z.lt (e_acceptedq st);
  R_accepted_ids : forall id, In id (e_acceptedq st) -> u64 id;
  R_wl : cells dom (fun a => kwl (emb a)) (fun a => if mem_addr a (e_wl st) then Some (EV_bytes (emb a)) else None) s;
  R_wl_nodup : NoDup (e_wl st);
  R_wl_dom : forall a, In a (e_wl st) -> dom a;
  R_locked : cells dom (fun a => klocked (emb a)) (fun a => option_map (v_locked a) (aget a (e_locked st))) s;
  R_locked_nodup : NoDup (akeys (e_locked st));
  R_locked_dom : forall a, In a (akeys (e_locked st)) -> dom a;
  R_spent : cells dom (fun a => kspent (emb a)) (fun a => option_map (v_spent a) (aget a (e_spent st))) s;
  R_spent_nodup : NoDup (akeys (e_spent st));
  R_spent_dom : forall a, In a (akeys (e_spent st)) -> dom a;
  R_complete : forall k v, In (k, v) s -> key_ok k
}.

(* the point clauses, as equations *)
Lemma Rent_pos s st id : Rent s st -> u64 id -> okv_get s (kpo id) = option_map v_po (aget id (e_pos st)).
Proof. intros HR H. exact (R_pos _ _ HR id H). Qed.
Lemma Rent_raised s st id : Rent s st -> u64 id ->
  okv_get s (kraised id) = if mem_addr id (e_raisedq st) then Some (v_id id) else None.
Proof. intros HR H. exact (R_raised _ _ HR id H). Qed.
Lemma Rent_accepted s st id : Rent s st -> u64 id ->
  okv_get s (kaccepted id) = if mem_addr id (e_acceptedq st) then Some (v_id id) else None.
Proof. intros HR H. exact (R_accepted _ _ HR id H). Qed.
Lemma Rent_wl s st a : Rent s st -> dom a ->
  okv_get s (kwl (emb a)) = if mem_addr a (e_wl st) then Some (EV_bytes (emb a)) else None.
Proof. intros HR H. exact (R_wl _ _ HR a H). Qed.
Lemma Rent_locked s st a : Rent s st -> dom a -> okv_get s (klocked (emb a)) = option_map (v_locked a) (aget a (e_locked st)).
Proof. intros HR H. exact (R_locked _ _ HR a H). Qed.
Lemma Rent_spent s st a : Rent s st -> dom a -> okv_get s (kspent (emb a)) = option_map (v_spent a) (aget a (e_spent st)).
Proof. intros HR H. exact (R_spent _ _ HR a H). Qed.

(* keys of the families are injective *)
Lemma kwl_emb_inj a b : dom a -> dom b -> kwl (emb a) = kwl (emb b) -> a = b.
Proof. intros Da Db E. apply kwl_inj in E. apply emb_inj; assumption. Qed.
Lemma klocked_emb_inj a b : dom a -> dom b -> klocked (emb a) = klocked (emb b) -> a = b.
Proof. intros Da Db E. apply klocked_inj in E. apply emb_inj; assumption. Qed.
Lemma kspent_emb_inj a b : dom a -> dom b -> kspent (emb a) = kspent (emb b) -> a = b.
Proof. intros Da Db E. apply kspent_inj in E. apply emb_inj; assumption. Qed.

(* completeness under writes *)
Lemma complete_set (s : store) K v0 : (forall k v, In (k, v) s -> key_ok k) -> key_ok K ->
  forall k v, In (k, v) (okv_set s K v0) -> key_ok k.
Proof. intros Hc HK k v Hin. apply set_in in Hin as [[-> _]|Hin]; [exact HK | exact (Hc k v Hin)]. Qed.
Lemma complete_del (s : store) K : (forall k v, In (k, v) s -> key_ok k) ->
  forall k v, In (k, v) (okv_del s K) -> key_ok k.
Proof. intros Hc k v Hin. apply del_in in Hin. exact (Hc k v Hin). Qed.

Lemma key_ok_params : key_ok kparams. Proof. left; reflexivity. Qed.
Lemma key_ok_highest : key_ok khighest. Proof. right; left; reflexivity. Qed.
Lemma key_ok_totlocked : key_ok ktotlocked. Proof. do 2 right; left; reflexivity. Qed.
Lemma key_ok_totspent : key_ok ktotspent. Proof. do 3 right; left; reflexivity. Qed.
Lemma key_ok_po id : u64 id -> key_ok (kpo id). Proof. intros H. do 4 right; left. exists id. split; [exact H | reflexivity]. Qed.
Lemma key_ok_raised id : u64 id -> key_ok (kraised id). Proof. intros H. do 5 right; left. exists id. split; [exact H | reflexivity]. Qed.
Lemma key_ok_accepted id : u64 id -> key_ok (kaccepted id). Proof. intros H. do 6 right; left. exists id. split; [exact H | reflexivity]. Qed.
Lemma key_ok_wl a : dom a -> key_ok (kwl (emb a)). Proof. intros H. do 7 right; left. exists a. split; [exact H | reflexivity]. Qed.
Lemma key_ok_locked a : dom a -> key_ok (klocked (emb a)). Proof. intros H. do 8 right; left. exists a. split; [exact H | reflexivity]. Qed.
Lemma key_ok_spent a : dom a -> key_ok (kspent (emb a)). Proof. intros H. do 9 right. exists a. split; [exact H | reflexivity]. Qed.

(* the keys under one prefix *)
Ltac key_cases H :=
  destruct H as [H|[H|[H|[H|[[? [? H]]|[[? [? H]]|[[? [? H]]|[[? [? H]]|[[? [? H]]|[? [? H]]]]]]]]]]]; subst.
Lemma key_ok_under_po k : key_ok k -> is_prefix ent_prefix_po k = true -> exists id, u64 id /\ k = kpo id.
Proof. intros H P. key_cases H; try discriminate P. eauto. Qed.
Lemma key_ok_under_raised k : key_ok k -> is_prefix ent_prefix_raised k = true -> exists id, u64 id /\ k = kraised id.
Proof. intros H P. key_cases H; try discriminate P. eauto. Qed.
Lemma key_ok_under_accepted k : key_ok k -> is_prefix ent_prefix_accepted k = true -> exists id, u64 id /\ k = kaccepted id.
Proof. intros H P. key_cases H; try discriminate P. eauto. Qed.
Lemma key_ok_under_wl k : key_ok k -> is_prefix ent_prefix_whitelist k = true -> exists a, dom a /\ k = kwl (emb a).
Proof. intros H P. key_cases H; try discriminate P. eauto. Qed.
Lemma key_ok_under_locked k : key_ok k -> is_prefix ent_prefix_locked k = true -> exists a, dom a /\ k = klocked (emb a).
Proof. intros H P. key_cases H; try discriminate P. eauto. Qed.
Lemma key_ok_under_spent k : key_ok k -> is_prefix ent_prefix_spent k = true -> exists a, dom a /\ k = kspent (emb a).
Proof. intros H P. key_cases H; try discriminate P. eauto. Qed.

(* ================================================================== *)
(* READERS                                                              *)
(* ================================================================== *)

Theorem GetParams_refines s w : Rent s (ew_ent w) -> go_st_GetParams s = Ok (ent_GetParams w).
Proof. intros HR. rewrite spec_GetParams. exact (params_cell_read _ _ (R_params _ _ HR)). Qed.

Theorem GetParamDenom_refines s w : Rent s (ew_ent w) -> go_st_GetParamDenom s = Ok (ent_GetParamDenom w).
Proof. intros HR. rewrite spec_GetParamDenom, (params_cell_read _ _ (R_params _ _ HR)). reflexivity. Qed.

Theorem GetParamFields_refine s w : Rent s (ew_ent w) ->
  go_st_GetParamMinAccepts s = Ok (ep_min_accepts (e_params (ew_ent w))) /\
  go_st_GetParamDecisionLimit s = Ok (ep_time_limit (e_params (ew_ent w))) /\
  go_st_GetParamEntSigners s = Ok (ep_signers (e_params (ew_ent w))).
Proof.
  intros HR. rewrite spec_GetParamMinAccepts, spec_GetParamDecisionLimit, spec_GetParamEntSigners,
    (params_cell_read _ _ (R_params _ _ HR)). repeat split.
Qed.

Theorem GetHighestPurchaseOrderID_refines s w : Rent s (ew_ent w) ->
  go_st_GetHighestPurchaseOrderID s = ent_GetHighestPurchaseOrderID w.
Proof.
  intros HR. rewrite spec_GetHighestPurchaseOrderID, (R_highest _ _ HR). cbn [rd_highest v_id].
  apply id_from_bytes. exact (R_next _ _ HR).
Qed.

Theorem PurchaseOrderExists_refines s w id : Rent s (ew_ent w) -> u64 id ->
  go_st_PurchaseOrderExists s id = Ok (ent_PurchaseOrderExists w id).
Proof.
  intros HR H. rewrite spec_PurchaseOrderExists, (Rent_pos _ _ _ HR H). unfold ent_PurchaseOrderExists, ahas.
  destruct (aget id (e_pos (ew_ent w))); reflexivity.
Qed.

Theorem GetPurchaseOrder_refines s w id : Rent s (ew_ent w) -> u64 id ->
  go_st_GetPurchaseOrder s id = Ok (ent_GetPurchaseOrder w id).
Proof.
  intros HR H. rewrite spec_GetPurchaseOrder, (Rent_pos _ _ _ HR H). unfold ent_GetPurchaseOrder.
  destruct (aget id (e_pos (ew_ent w))); reflexivity.
Qed.

Theorem PurchaseOrderIsInRaisedQueue_refines s w id : Rent s (ew_ent w) -> u64 id ->
  go_st_PurchaseOrderIsInRaisedQueue s id = Ok (mem_addr id (ent_GetAllRaisedPurchaseOrders w)).
Proof.
  intros HR H. rewrite spec_PurchaseOrderIsInRaisedQueue, (Rent_raised _ _ _ HR H). unfold ent_GetAllRaisedPurchaseOrders.
  destruct (mem_addr id (e_raisedq (ew_ent w))); reflexivity.
Qed.

Theorem PurchaseOrderIsInAcceptedQueue_refines s w id : Rent s (ew_ent w) -> u64 id ->
  go_st_PurchaseOrderIsInAcceptedQueue s id = Ok (mem_addr id (ent_GetAllAcceptedPurchaseOrders w)).
Proof.
  intros HR H. rewrite spec_PurchaseOrderIsInAcceptedQueue, (Rent_accepted _ _ _ HR H). unfold ent_GetAllAcceptedPurchaseOrders.
  destruct (mem_addr id (e_acceptedq (ew_ent w))); reflexivity.
Qed.

Theorem AddressIsWhitelisted_refines s w a : Rent s (ew_ent w) -> dom a ->
  go_st_AddressIsWhitelisted s (emb a) = Ok (ent_AddressIsWhitelisted w a).
Proof.
  intros HR D. rewrite spec_AddressIsWhitelisted. pose proof (emb_nonempty a D) as Hne.
  destruct (emb a) as [|x r] eqn:E; [congruence|]. rewrite <- E, (Rent_wl _ _ _ HR D). unfold ent_AddressIsWhitelisted.
  destruct (mem_addr a (e_wl (ew_ent w))); reflexivity.
Qed.

Theorem GetTotalLockedUnd_refines s w : Rent s (ew_ent w) -> go_st_GetTotalLockedUnd s = Ok (ent_GetTotalLockedUnd w).
Proof.
  intros HR. rewrite spec_GetTotalLockedUnd, (R_totlocked _ _ HR). unfold ent_GetTotalLockedUnd, total_locked.
  destruct (e_totlocked (ew_ent w)); cbn [option_map rd_total]; [reflexivity|].
  exact (params_cell_zero_coin _ _ (R_params _ _ HR)).
Qed.

Theorem GetTotalSpentEFUND_refines s w : Rent s (ew_ent w) -> go_st_GetTotalSpentEFUND s = Ok (ent_GetTotalSpentEFUND w).
Proof.
  intros HR. rewrite spec_GetTotalSpentEFUND, (R_totspent _ _ HR). unfold ent_GetTotalSpentEFUND, total_spent.
  destruct (e_totspent (ew_ent w)); cbn [option_map rd_total]; [reflexivity|].
  exact (params_cell_zero_coin _ _ (R_params _ _ HR)).
Qed.

Theorem AccountHasLockedUnd_refines s w a : Rent s (ew_ent w) -> dom a ->
  go_st_AccountHasLockedUnd s (emb a) = Ok (ahas a (e_locked (ew_ent w))).
Proof.
  intros HR D. rewrite spec_AccountHasLockedUnd, (Rent_locked _ _ _ HR D). unfold ahas.
  destruct (aget a (e_locked (ew_ent w))); reflexivity.
Qed.

Theorem GetLockedUndForAccount_refines s w a : Rent s (ew_ent w) -> dom a ->
  go_st_GetLockedUndForAccount astr s (emb a) = Ok (ent_GetLockedUndForAccount w a).
Proof.
  intros HR D. rewrite spec_GetLockedUndForAccount, (Rent_locked _ _ _ HR D).
  unfold ent_GetLockedUndForAccount, locked_coin, astr. rewrite (unemb_emb a D).
  destruct (aget a (e_locked (ew_ent w))); cbn [option_map rd_locked v_locked]; [reflexivity|].
  rewrite (params_cell_zero_coin _ _ (R_params _ _ HR)). reflexivity.
Qed.

Theorem GetLockedUndAmountForAccount_refines s w a : Rent s (ew_ent w) -> dom a ->
  go_st_GetLockedUndAmountForAccount astr s (emb a) = Ok (locked_coin (ew_ent w) a).
Proof.
  intros HR D. unfold go_st_GetLockedUndAmountForAccount. rewrite (GetLockedUndForAccount_refines s w a HR D). reflexivity.
Qed.

Theorem IsLocked_refines s w a : Rent s (ew_ent w) -> dom a ->
  go_st_IsLocked astr s (emb a) = Ok (0 <? snd (locked_coin (ew_ent w) a)).
Proof.
  intros HR D. unfold go_st_IsLocked. rewrite (GetLockedUndForAccount_refines s w a HR D). reflexivity.
Qed.

Theorem AccountHasSpentEFUND_refines s w a : Rent s (ew_ent w) -> dom a ->
  go_st_AccountHasSpentEFUND s (emb a) = Ok (ahas a (e_spent (ew_ent w))).
Proof.
  intros HR D. rewrite spec_AccountHasSpentEFUND, (Rent_spent _ _ _ HR D). unfold ahas.
  destruct (aget a (e_spent (ew_ent w))); reflexivity.
Qed.

Theorem GetSpentEFUNDForAccount_refines s w a : Rent s (ew_ent w) -> dom a ->
  go_st_GetSpentEFUNDForAccount astr s (emb a) = Ok (ent_GetSpentEFUNDForAccount w a).
Proof.
  intros HR D. rewrite spec_GetSpentEFUNDForAccount, (Rent_spent _ _ _ HR D).
  unfold ent_GetSpentEFUNDForAccount, spent_coin, astr. rewrite (unemb_emb a D).
  destruct (aget a (e_spent (ew_ent w))); cbn [option_map rd_spent v_spent]; [reflexivity|].
  rewrite (params_cell_zero_coin _ _ (R_params _ _ HR)). reflexivity.
Qed.

Theorem GetSpentEFUNDAmountForAccount_refines s w a : Rent s (ew_ent w) -> dom a ->
  go_st_GetSpentEFUNDAmountForAccount astr s (emb a) = Ok (spent_coin (ew_ent w) a).
Proof.
  intros HR D. unfold go_st_GetSpentEFUNDAmountForAccount. rewrite (GetSpentEFUNDForAccount_refines s w a HR D). reflexivity.
Qed.

(* ================================================================== *)
(* WRITERS: the relation is preserved                                   *)
(* ================================================================== *)

Ltac open_R HR :=
  destruct HR as [Hsd Hp Hh Hn Htl Hts Hpo Hpon Hpoi Hr Hra Hri Ha Haa Hai Hw Hwn Hwd Hl Hln Hld Hsp Hspn Hspd Hc].

Lemma Rent_set_params s st p : Rent s st ->
  Rent (okv_set s kparams (EV_Params p))
    {| e_params := params_of_go p; e_next := e_next st; e_pos := e_pos st; e_raisedq := e_raisedq st;
       e_acceptedq := e_acceptedq st; e_wl := e_wl st; e_locked := e_locked st; e_spent := e_spent st;
       e_totlocked := e_totlocked st; e_totspent := e_totspent st |}.
Proof.
  intros HR. open_R HR. constructor; simp_st; try solve [frame].
  - apply set_sorted; exact Hsd.
  - left. rewrite get_set_same, params_to_of_go. reflexivity.
  - apply complete_set; [exact Hc | apply key_ok_params].
Qed.

Lemma Rent_set_highest s st n : Rent s st -> u64 n -> Rent (okv_set s khighest (v_id n)) (with_next st n).
Proof.
  intros HR Hn'. open_R HR. constructor; simp_st; try solve [frame].
  - apply set_sorted; exact Hsd.
  - apply get_set_same.
  - apply complete_set; [exact Hc | apply key_ok_highest].
Qed.

Lemma Rent_set_totlocked s st c : Rent s st ->
  Rent (okv_set s ktotlocked (EV_Coin c)) (with_books st (e_locked st) (e_spent st) (Some c) (e_totspent st)).
Proof.
  intros HR. open_R HR. constructor; simp_st; try solve [frame].
  - apply set_sorted; exact Hsd.
  - apply get_set_same.
  - apply complete_set; [exact Hc | apply key_ok_totlocked].
Qed.

Lemma Rent_set_totspent s st c : Rent s st ->
  Rent (okv_set s ktotspent (EV_Coin c)) (with_books st (e_locked st) (e_spent st) (e_totlocked st) (Some c)).
Proof.
  intros HR. open_R HR. constructor; simp_st; try solve [frame].
  - apply set_sorted; exact Hsd.
  - apply get_set_same.
  - apply complete_set; [exact Hc | apply key_ok_totspent].
Qed.

Lemma Rent_set_po s st g : Rent s st -> u64 (EnterpriseUndPurchaseOrder_Id g) ->
  Rent (okv_set s (kpo (EnterpriseUndPurchaseOrder_Id g)) (EV_EnterpriseUndPurchaseOrder g))
       (with_pos st (aset (EnterpriseUndPurchaseOrder_Id g) (of_go_po g) (e_pos st)) (e_raisedq st) (e_acceptedq st)).
Proof.
  intros HR Hid. open_R HR. constructor; simp_st; try solve [frame].
  - apply set_sorted; exact Hsd.
  - rewrite <- (to_of_go_po g) at 2. change (EV_EnterpriseUndPurchaseOrder (to_go_po (of_go_po g))) with (v_po (of_go_po g)).
    apply (acells_set (fun id => u64 id) (fun id => kpo id) (fun _ o => v_po o)); [apply kpo_inj | exact Hid | exact Hpo].
  - apply NoDup_akeys_aset; exact Hpon.
  - intros id o Hin. apply aset_In in Hin as [[-> ->]|Hin]; [split; [exact Hid | reflexivity] | exact (Hpoi id o Hin)].
  - apply complete_set; [exact Hc | apply key_ok_po; exact Hid].
Qed.

Lemma Rent_add_raised s st id : Rent s st -> u64 id -> (forall y, In y (e_raisedq st) -> y < id) ->
  Rent (okv_set s (kraised id) (v_id id)) (with_pos st (e_pos st) (e_raisedq st ++ [id]) (e_acceptedq st)).
Proof.
  intros HR Hid Hab. open_R HR. constructor; simp_st; try solve [frame].
  - apply set_sorted; exact Hsd.
  - apply (mcells_add (fun id => u64 id) (fun id => kraised id) v_id); [apply kraised_inj | exact Hid | exact Hr].
  - apply StronglySorted_snoc; assumption.
  - intros y Hy. apply in_app_iff in Hy as [Hy|[<-|[]]]; [exact (Hri y Hy) | exact Hid].
  - apply complete_set; [exact Hc | apply key_ok_raised; exact Hid].
Qed.

Lemma Rent_remove_raised s st id : Rent s st -> u64 id ->
  Rent (okv_del s (kraised id)) (with_pos st (e_pos st) (remove_z id (e_raisedq st)) (e_acceptedq st)).
Proof.
  intros HR Hid. open_R HR. constructor; simp_st; try solve [frame].
  - apply del_sorted; exact Hsd.
  - apply (mcells_remove (fun id => u64 id) (fun id => kraised id) v_id); [apply kraised_inj | exact Hid | exact Hsd | exact Hr].
  - apply StronglySorted_filter; exact Hra.
  - intros y Hy. apply In_remove_z in Hy as [Hy _]. exact (Hri y Hy).
  - apply complete_del; exact Hc.
Qed.

Lemma Rent_add_accepted s st id : Rent s st -> u64 id -> (forall y, In y (e_acceptedq st) -> y < id) ->
  Rent (okv_set s (kaccepted id) (v_id id)) (with_pos st (e_pos st) (e_raisedq st) (e_acceptedq st ++ [id])).
Proof.
  intros HR Hid Hab. open_R HR. constructor; simp_st; try solve [frame].
  - apply set_sorted; exact Hsd.
  - apply (mcells_add (fun id => u64 id) (fun id => kaccepted id) v_id); [apply kaccepted_inj | exact Hid | exact Ha].
  - apply StronglySorted_snoc; assumption.
  - intros y Hy. apply in_app_iff in Hy as [Hy|[<-|[]]]; [exact (Hai y Hy) | exact Hid].
  - apply complete_set; [exact Hc | apply key_ok_accepted; exact Hid].
Qed.

Lemma Rent_remove_accepted s st id : Rent s st -> u64 id ->
  Rent (okv_del s (kaccepted id)) (with_pos st (e_pos st) (e_raisedq st) (remove_z id (e_acceptedq st))).
Proof.
  intros HR Hid. open_R HR. constructor; simp_st; try solve [frame].
  - apply del_sorted; exact Hsd.
  - apply (mcells_remove (fun id => u64 id) (fun id => kaccepted id) v_id); [apply kaccepted_inj | exact Hid | exact Hsd | exact Ha].
  - apply StronglySorted_filter; exact Haa.
  - intros y Hy. apply In_remove_z in Hy as [Hy _]. exact (Hai y Hy).
  - apply complete_del; exact Hc.
Qed.

Lemma Rent_add_wl s st a : Rent s st -> dom a -> mem_addr a (e_wl st) = false ->
  Rent (okv_set s (kwl (emb a)) (EV_bytes (emb a))) (with_wl st (e_wl st ++ [a])).
Proof.
  intros HR D Hnew. open_R HR. constructor; simp_st; try solve [frame].
  - apply set_sorted; exact Hsd.
  - apply (mcells_add dom (fun a => kwl (emb a)) (fun a => EV_bytes (emb a))); [apply kwl_emb_inj | exact D | exact Hw].
  - apply NoDup_snoc; [exact Hwn | apply mem_addr_notIn; exact Hnew].
  - intros y Hy. apply in_app_iff in Hy as [Hy|[<-|[]]]; [exact (Hwd y Hy) | exact D].
  - apply complete_set; [exact Hc | apply key_ok_wl; exact D].
Qed.

Lemma Rent_remove_wl s st a : Rent s st -> dom a ->
  Rent (okv_del s (kwl (emb a))) (with_wl st (remove_z a (e_wl st))).
Proof.
  intros HR D. open_R HR. constructor; simp_st; try solve [frame].
  - apply del_sorted; exact Hsd.
  - apply (mcells_remove dom (fun a => kwl (emb a)) (fun a => EV_bytes (emb a))); [apply kwl_emb_inj | exact D | exact Hsd | exact Hw].
  - apply NoDup_filter; exact Hwn.
  - intros y Hy. apply In_remove_z in Hy as [Hy _]. exact (Hwd y Hy).
  - apply complete_del; exact Hc.
Qed.

Lemma Rent_set_locked s st a c : Rent s st -> dom a ->
  Rent (okv_set s (klocked (emb a)) (v_locked a c))
       (with_books st (aset a c (e_locked st)) (e_spent st) (e_totlocked st) (e_totspent st)).
Proof.
  intros HR D. open_R HR. constructor; simp_st; try solve [frame].
  - apply set_sorted; exact Hsd.
  - apply (acells_set dom (fun a => klocked (emb a)) v_locked); [apply klocked_emb_inj | exact D | exact Hl].
  - apply NoDup_akeys_aset; exact Hln.
  - intros y Hy. apply In_akeys_aset in Hy as [->|Hy]; [exact D | exact (Hld y Hy)].
  - apply complete_set; [exact Hc | apply key_ok_locked; exact D].
Qed.

Lemma Rent_set_spent s st a c : Rent s st -> dom a ->
  Rent (okv_set s (kspent (emb a)) (v_spent a c))
       (with_books st (e_locked st) (aset a c (e_spent st)) (e_totlocked st) (e_totspent st)).
Proof.
  intros HR D. open_R HR. constructor; simp_st; try solve [frame].
  - apply set_sorted; exact Hsd.
  - apply (acells_set dom (fun a => kspent (emb a)) v_spent); [apply kspent_emb_inj | exact D | exact Hsp].
  - apply NoDup_akeys_aset; exact Hspn.
  - intros y Hy. apply In_akeys_aset in Hy as [->|Hy]; [exact D | exact (Hspd y Hy)].
  - apply complete_set; [exact Hc | apply key_ok_spent; exact D].
Qed.

(* ================================================================== *)
(* WRITERS simulate                                                     *)
(* ================================================================== *)

(* the relation between the results of a writer: related states (both return the unit) *)
Definition Rres (a : eworld * unit) (c : store * unit) : Prop := Rent (fst c) (ew_ent (fst a)).
(* how the error codes of the two sides compare *)
Definition same_code (e e' : Z) : Prop := e = e'.
Definition ent_vs_store_code (e e' : Z) : Prop := e = ERR_ENT /\ e' = STORE_ERR.

(* SetParams: same verdict; the primitive always answers ERR_ENT, the generated code the error of Params.Validate *)
Theorem SetParams_refines s w p : Rent s (ew_ent w) -> ent_params_range p ->
  out_sim Rres (fun e e' => e = ERR_ENT /\ e' = ent_params_err p) (ent_SetParams w p) (go_st_SetParams s p).
Proof.
  intros HR Hp. unfold ent_SetParams, ent_set_params. rewrite spec_SetParams, (gen_ent_Params_Validate_exact p Hp).
  destruct (ent_params_valid (params_of_go p)); cbn [obind out_sim].
  - unfold Rres. cbn [fst ew_ent with_ent]. apply Rent_set_params; exact HR.
  - split; reflexivity.
Qed.

(* ... which is ERR_ENT too unless the denomination is malformed without being blank *)
Definition denom_ok (p : go_Params) : Prop := 0 <= Params_Denom p \/ Params_Denom p = go_zero_denom.

Lemma ent_params_err_ok p : denom_ok p -> ent_params_err p = ERR_ENT.
Proof.
  unfold denom_ok, ent_params_err, go_zero_denom. intros [H|H].
  - destruct (Z.ltb_spec (Params_Denom p) 0); [lia | reflexivity].
  - rewrite H. reflexivity.
Qed.

Theorem SetParams_sim s w p : Rent s (ew_ent w) -> ent_params_range p -> denom_ok p ->
  out_sim Rres same_code (ent_SetParams w p) (go_st_SetParams s p).
Proof.
  intros HR Hp Hd. pose proof (SetParams_refines s w p HR Hp) as H.
  destruct (ent_SetParams w p) as [a|e|c], (go_st_SetParams s p) as [a'|e'|c']; cbn [out_sim] in *; try exact H.
  destruct H as [-> ->]. unfold same_code. symmetry. apply ent_params_err_ok; exact Hd.
Qed.

Theorem SetHighestPurchaseOrderID_refines s w n : Rent s (ew_ent w) -> u64 n ->
  out_sim Rres same_code (ent_SetHighestPurchaseOrderID w n) (go_st_SetHighestPurchaseOrderID s n).
Proof.
  intros HR Hn. rewrite spec_SetHighestPurchaseOrderID. unfold ent_SetHighestPurchaseOrderID. cbn [out_sim].
  unfold Rres. cbn [fst ew_ent with_ent]. apply Rent_set_highest; assumption.
Qed.

Lemma po_status_ok_eq st : po_status_ok st = ((1 <=? st) && (st <=? 4)).
Proof. apply eq_true_iff_eq. rewrite po_status_ok_spec, andb_true_iff, !Z.leb_le. reflexivity. Qed.

(* SetPurchaseOrder: same verdict; an invalid status is ERR_ENT in the primitive, STORE_ERR in the generated file *)
Theorem SetPurchaseOrder_refines s w g : Rent s (ew_ent w) -> u64 (EnterpriseUndPurchaseOrder_Id g) ->
  out_sim Rres ent_vs_store_code (ent_SetPurchaseOrder w g) (go_st_SetPurchaseOrder s g).
Proof.
  intros HR Hid. rewrite spec_SetPurchaseOrder, po_status_ok_eq. unfold ent_SetPurchaseOrder.
  destruct ((1 <=? EnterpriseUndPurchaseOrder_Status g) && (EnterpriseUndPurchaseOrder_Status g <=? 4)); cbn [negb out_sim].
  - unfold Rres. cbn [fst ew_ent with_ent]. apply Rent_set_po; assumption.
  - split; reflexivity.
Qed.

(* the queues: Add appends in the primitive and inserts by key in the store - they agree when the id is above all queued
   ids (what the keeper does: ids are handed out in increasing order) *)
Theorem AddPoToRaisedQueue_refines s w id : Rent s (ew_ent w) -> u64 id ->
  (forall y, In y (e_raisedq (ew_ent w)) -> y < id) ->
  out_sim Rres same_code (ent_AddPoToRaisedQueue w id) (go_st_AddPoToRaisedQueue s id).
Proof.
  intros HR Hid Hab. rewrite spec_AddPoToRaisedQueue. unfold ent_AddPoToRaisedQueue. cbn [out_sim].
  unfold Rres. cbn [fst ew_ent with_ent]. apply Rent_add_raised; assumption.
Qed.

Theorem RemovePurchaseOrderFromRaisedQueue_refines s w id : Rent s (ew_ent w) -> u64 id ->
  out_sim Rres same_code (ent_RemovePurchaseOrderFromRaisedQueue w id) (go_st_RemovePurchaseOrderFromRaisedQueue s id).
Proof.
  intros HR Hid. rewrite spec_RemovePurchaseOrderFromRaisedQueue. unfold ent_RemovePurchaseOrderFromRaisedQueue. cbn [out_sim].
  unfold Rres. cbn [fst ew_ent with_ent]. apply Rent_remove_raised; assumption.
Qed.

Theorem AddPoToAcceptedQueue_refines s w id : Rent s (ew_ent w) -> u64 id ->
  (forall y, In y (e_acceptedq (ew_ent w)) -> y < id) ->
  out_sim Rres same_code (ent_AddPoToAcceptedQueue w id) (go_st_AddPoToAcceptedQueue s id).
Proof.
  intros HR Hid Hab. rewrite spec_AddPoToAcceptedQueue. unfold ent_AddPoToAcceptedQueue. cbn [out_sim].
  unfold Rres. cbn [fst ew_ent with_ent]. apply Rent_add_accepted; assumption.
Qed.

Theorem RemovePurchaseOrderFromAcceptedQueue_refines s w id : Rent s (ew_ent w) -> u64 id ->
  out_sim Rres same_code (ent_RemovePurchaseOrderFromAcceptedQueue w id) (go_st_RemovePurchaseOrderFromAcceptedQueue s id).
Proof.
  intros HR Hid. rewrite spec_RemovePurchaseOrderFromAcceptedQueue. unfold ent_RemovePurchaseOrderFromAcceptedQueue. cbn [out_sim].
  unfold Rres. cbn [fst ew_ent with_ent]. apply Rent_remove_accepted; assumption.
Qed.

(* the whitelist: Add appends in the primitive - they agree when the address is not yet whitelisted (the message
   server checks that first) *)
Theorem AddAddressToWhitelist_refines s w a : Rent s (ew_ent w) -> dom a -> ent_AddressIsWhitelisted w a = false ->
  out_sim Rres same_code (ent_AddAddressToWhitelist w a) (go_st_AddAddressToWhitelist s (emb a)).
Proof.
  intros HR D Hnew. rewrite spec_AddAddressToWhitelist. pose proof (emb_nonempty a D) as Hne.
  destruct (emb a) as [|x r] eqn:E; [congruence|]. rewrite <- E. unfold ent_AddAddressToWhitelist. cbn [out_sim].
  unfold Rres. cbn [fst ew_ent with_ent]. apply Rent_add_wl; assumption.
Qed.

Theorem RemoveAddressFromWhitelist_refines s w a : Rent s (ew_ent w) -> dom a ->
  out_sim Rres same_code (ent_RemoveAddressFromWhitelist w a) (go_st_RemoveAddressFromWhitelist s (emb a)).
Proof.
  intros HR D. rewrite spec_RemoveAddressFromWhitelist. pose proof (emb_nonempty a D) as Hne.
  destruct (emb a) as [|x r] eqn:E; [congruence|]. rewrite <- E. unfold ent_RemoveAddressFromWhitelist. cbn [out_sim].
  unfold Rres. cbn [fst ew_ent with_ent]. apply Rent_remove_wl; assumption.
Qed.

Theorem SetTotalLockedUnd_refines s w c : Rent s (ew_ent w) ->
  out_sim Rres same_code (ent_SetTotalLockedUnd w c) (go_st_SetTotalLockedUnd s c).
Proof.
  intros HR. rewrite spec_SetTotalLockedUnd. unfold ent_SetTotalLockedUnd. cbn [out_sim].
  unfold Rres. cbn [fst ew_ent with_ent]. apply Rent_set_totlocked; exact HR.
Qed.

Theorem SetTotalSpentEFUND_refines s w c : Rent s (ew_ent w) ->
  out_sim Rres same_code (ent_SetTotalSpentEFUND w c) (go_st_SetTotalSpentEFUND s c).
Proof.
  intros HR. rewrite spec_SetTotalSpentEFUND. unfold ent_SetTotalSpentEFUND. cbn [out_sim].
  unfold Rres. cbn [fst ew_ent with_ent]. apply Rent_set_totspent; exact HR.
Qed.

(* SetLockedUndForAccount: same verdict for an owner that parses; a negative amount is ERR_ENT in the primitive,
   STORE_ERR in the generated file *)
Theorem SetLockedUndForAccount_refines s w x : Rent s (ew_ent w) -> dom (LockedUnd_Owner x) ->
  out_sim Rres ent_vs_store_code (ent_SetLockedUndForAccount w x) (go_st_SetLockedUndForAccount bech s x).
Proof.
  intros HR D. rewrite spec_SetLockedUndForAccount, (bech_dom _ D). cbn [obind].
  unfold ent_SetLockedUndForAccount, Coin_IsNegative. destruct (snd (LockedUnd_Amount x) <? 0); cbn [out_sim].
  - split; reflexivity.
  - unfold Rres. cbn [fst ew_ent with_ent].
    pose proof (Rent_set_locked s _ (LockedUnd_Owner x) (LockedUnd_Amount x) HR D) as H.
    unfold v_locked in H. rewrite go_LockedUnd_eta in H. exact H.
Qed.

Theorem SetSpentEFUNDForAccount_refines s w x : Rent s (ew_ent w) -> dom (SpentEFUND_Owner x) ->
  out_sim Rres same_code (ent_SetSpentEFUNDForAccount w x) (go_st_SetSpentEFUNDForAccount bech s x).
Proof.
  intros HR D. rewrite spec_SetSpentEFUNDForAccount, (bech_dom _ D). cbn [obind].
  unfold ent_SetSpentEFUNDForAccount. cbn [out_sim]. unfold Rres. cbn [fst ew_ent with_ent].
  pose proof (Rent_set_spent s _ (SpentEFUND_Owner x) (SpentEFUND_Amount x) HR D) as H.
  unfold v_spent in H. rewrite go_SpentEFUND_eta in H. exact H.
Qed.

(* ================================================================== *)
(* LISTINGS                                                             *)
(* ================================================================== *)

(* the prefix listing of a list-backed family: the members, in key order *)
Lemma mlist_listing (P : list N) (D : Z -> Prop) (key : Z -> list N) (val : Z -> enterprise_val) (s : store) (q : list Z) :
  okv_sorted s = true ->
  (forall a b, D a -> D b -> key a = key b -> a = b) ->
  (forall x, is_prefix P (key x) = true) ->
  cells D key (fun x => if mem_addr x q then Some (val x) else None) s ->
  NoDup q -> (forall x, In x q -> D x) ->
  (forall k v, In (k, v) s -> is_prefix P k = true -> exists x, D x /\ k = key x) ->
  okv_prefix s P = map (fun x => (key x, val x)) (ksort key q).
Proof.
  intros Hs Kinj Hpre Hc ND HD Hcomp.
  apply (prefix_listing P (fun x => (key x, val x)) q s Hs).
  - cbn [fst]. apply NoDup_map_inj_in; [|exact ND]. intros x y Hx Hy. apply Kinj; apply HD; assumption.
  - intros k v. split.
    + intros [Hin Hp]. destruct (Hcomp k v Hin Hp) as [x [Dx ->]]. apply (in_get _ _ _ Hs) in Hin.
      rewrite (Hc x Dx) in Hin. destruct (mem_addr x q) eqn:M; [|discriminate Hin]. injection Hin as <-.
      exists x. split; [apply mem_addr_In; exact M | reflexivity].
    + intros [x [Hx E]]. injection E as <- <-. pose proof (HD x Hx) as Dx. split; [|apply Hpre].
      apply get_in. rewrite (Hc x Dx). apply mem_addr_In in Hx. rewrite Hx. reflexivity.
Qed.

(* the prefix listing of a map-backed family: the entries of the map, in key order *)
Lemma amap_listing {V} (P : list N) (D : Z -> Prop) (key : Z -> list N) (val : Z -> V -> enterprise_val)
    (s : store) (m : amap Z V) :
  okv_sorted s = true ->
  (forall a b, D a -> D b -> key a = key b -> a = b) ->
  (forall x, is_prefix P (key x) = true) ->
  cells D key (fun x => option_map (val x) (aget x m)) s ->
  NoDup (akeys m) -> (forall x, In x (akeys m) -> D x) ->
  (forall k v, In (k, v) s -> is_prefix P k = true -> exists x, D x /\ k = key x) ->
  okv_prefix s P = map (fun kv => (key (fst kv), val (fst kv) (snd kv))) (ksort (fun kv => key (fst kv)) m).
Proof.
  intros Hs Kinj Hpre Hc ND HD Hcomp.
  apply (prefix_listing P (fun kv : Z * V => (key (fst kv), val (fst kv) (snd kv))) m s Hs).
  - cbn [fst]. rewrite <- (map_map fst key). apply NoDup_map_inj_in; [|exact ND].
    intros x y Hx Hy. apply Kinj; apply HD; assumption.
  - intros k v. split.
    + intros [Hin Hp]. destruct (Hcomp k v Hin Hp) as [x [Dx ->]]. apply (in_get _ _ _ Hs) in Hin.
      rewrite (Hc x Dx) in Hin. destruct (aget x m) as [o|] eqn:G; [|discriminate Hin]. injection Hin as <-.
      exists (x, o). split; [apply aget_In; exact G | reflexivity].
    + intros [[x o] [Hx E]]. cbn [fst snd] in E. injection E as <- <-.
      assert (Dx : D x) by (apply HD; change x with (fst (x, o)); apply in_map; exact Hx).
      split; [|apply Hpre]. apply get_in. rewrite (Hc x Dx), (aget_of_In _ _ _ ND Hx). reflexivity.
Qed.

(* ---- the two queues: exactly the abstract list ---- *)
Lemma queue_decoded (P : list N) (key : Z -> list N) (s : store) (q : list Z) :
  okv_sorted s = true ->
  (forall a b, u64 a -> u64 b -> key a = key b -> a = b) ->
  (forall a b, u64 a -> u64 b -> (lex_lt (key a) (key b) = true <-> a < b)) ->
  (forall x, is_prefix P (key x) = true) ->
  cells (fun id => u64 id) key (fun x => if mem_addr x q then Some (v_id x) else None) s ->
  StronglySorted Z.lt q -> (forall x, In x q -> u64 x) ->
  (forall k v, In (k, v) s -> is_prefix P k = true -> exists x, u64 x /\ k = key x) ->
  decode_all dec_queue (okv_prefix s P) = Ok q.
Proof.
  intros Hs Kinj Kord Hpre Hc Hq Hids Hcomp.
  rewrite (mlist_listing P (fun id => u64 id) key v_id s q Hs Kinj Hpre Hc (ascending_NoDup q Hq) Hids Hcomp).
  rewrite ksort_id.
  - rewrite (decode_all_enc dec_queue (fun x => (key x, v_id x)) (fun x => x)); [rewrite map_id; reflexivity|].
    intros x Hx. cbn [fst snd]. unfold dec_queue, v_id. cbn [enterprise_unmarshal_bytes obind]. apply id_from_bytes, Hids, Hx.
  - apply (StronglySorted_impl_in Z.lt); [|exact Hq]. intros a b Ha Hb Hlt. apply Kord; [apply Hids, Ha | apply Hids, Hb | exact Hlt].
Qed.

Lemma raised_decoded s st : Rent s st -> decode_all dec_queue (okv_prefix s ent_prefix_raised) = Ok (e_raisedq st).
Proof.
  intros HR. apply (queue_decoded ent_prefix_raised (fun id => kraised id)).
  - exact (R_sorted _ _ HR).
  - apply kraised_inj.
  - apply kraised_order.
  - intros x. reflexivity.
  - exact (R_raised _ _ HR).
  - exact (R_raised_asc _ _ HR).
  - exact (R_raised_ids _ _ HR).
  - intros k v Hin Hp. apply key_ok_under_raised; [exact (R_complete _ _ HR k v Hin) | exact Hp].
Qed.

Lemma accepted_decoded s st : Rent s st -> decode_all dec_queue (okv_prefix s ent_prefix_accepted) = Ok (e_acceptedq st).
Proof.
  intros HR. apply (queue_decoded ent_prefix_accepted (fun id => kaccepted id)).
  - exact (R_sorted _ _ HR).
  - apply kaccepted_inj.
  - apply kaccepted_order.
  - intros x. reflexivity.
  - exact (R_accepted _ _ HR).
  - exact (R_accepted_asc _ _ HR).
  - exact (R_accepted_ids _ _ HR).
  - intros k v Hin Hp. apply key_ok_under_accepted; [exact (R_complete _ _ HR k v Hin) | exact Hp].
Qed.

Theorem GetAllRaisedPurchaseOrders_refines s w : Rent s (ew_ent w) ->
  go_st_GetAllRaisedPurchaseOrders s = Ok (ent_GetAllRaisedPurchaseOrders w).
Proof. intros HR. rewrite spec_GetAllRaisedPurchaseOrders. apply raised_decoded; exact HR. Qed.

Theorem GetAllAcceptedPurchaseOrders_refines s w : Rent s (ew_ent w) ->
  go_st_GetAllAcceptedPurchaseOrders s = Ok (ent_GetAllAcceptedPurchaseOrders w).
Proof. intros HR. rewrite spec_GetAllAcceptedPurchaseOrders. apply accepted_decoded; exact HR. Qed.

(* any callback (one that stops early too) runs over the abstract queue *)
Theorem IterateRaisedQueue_refines s w : Rent s (ew_ent w) ->
  forall St (cb : St -> Z -> outcome (St * bool)) st0,
    go_st_IterateRaisedQueue s cb st0 = lst_iterate cb (ent_GetAllRaisedPurchaseOrders w) st0.
Proof. intros HR St cb st0. rewrite spec_IterateRaisedQueue. apply iterate_decoded, raised_decoded, HR. Qed.

Theorem IterateAcceptedQueue_refines s w : Rent s (ew_ent w) ->
  forall St (cb : St -> Z -> outcome (St * bool)) st0,
    go_st_IterateAcceptedQueue s cb st0 = lst_iterate cb (ent_GetAllAcceptedPurchaseOrders w) st0.
Proof. intros HR St cb st0. rewrite spec_IterateAcceptedQueue. apply iterate_decoded, accepted_decoded, HR. Qed.

(* ---- purchase orders: the entries of the abstract map in id order ---- *)
Definition po_key (kv : Z * po) : list N := kpo (fst kv).
Definition po_image (kv : Z * po) : go_EnterpriseUndPurchaseOrder := to_go_po (snd kv).

Lemma pos_keys_u64 s st id : Rent s st -> In id (akeys (e_pos st)) -> u64 id.
Proof. intros HR Hin. apply in_map_iff in Hin as [[i o] [<- Hin]]. exact (proj1 (R_pos_ids _ _ HR i o Hin)). Qed.

Lemma pos_decoded s st : Rent s st ->
  decode_all dec_po (okv_prefix s ent_prefix_po) = Ok (map po_image (ksort po_key (e_pos st))).
Proof.
  intros HR.
  rewrite (amap_listing ent_prefix_po (fun id => u64 id) (fun id => kpo id) (fun _ o => v_po o) s (e_pos st)).
  - apply (decode_all_enc dec_po). intros a _. reflexivity.
  - exact (R_sorted _ _ HR).
  - apply kpo_inj.
  - intros x. reflexivity.
  - exact (R_pos _ _ HR).
  - exact (R_pos_nodup _ _ HR).
  - intros x. apply (pos_keys_u64 s st x HR).
  - intros k v Hin Hp. apply key_ok_under_po; [exact (R_complete _ _ HR k v Hin) | exact Hp].
Qed.

Theorem GetAllPurchaseOrders_refines s w : Rent s (ew_ent w) ->
  go_st_GetAllPurchaseOrders s = Ok (map po_image (ksort po_key (e_pos (ew_ent w)))).
Proof. intros HR. rewrite spec_GetAllPurchaseOrders. apply pos_decoded; exact HR. Qed.

Theorem GetAllPurchaseOrders_refines_perm s w : Rent s (ew_ent w) ->
  exists L, go_st_GetAllPurchaseOrders s = Ok L /\ Permutation L (ent_GetAllPurchaseOrders w).
Proof.
  intros HR. eexists. split; [apply GetAllPurchaseOrders_refines; exact HR|].
  unfold ent_GetAllPurchaseOrders. apply (Permutation_map po_image), ksort_perm.
Qed.

(* on the nose when the abstract map is in id order (ids are handed out in increasing order and lib/AMap.v appends) *)
Theorem GetAllPurchaseOrders_refines_sorted s w : Rent s (ew_ent w) -> StronglySorted Z.lt (akeys (e_pos (ew_ent w))) ->
  go_st_GetAllPurchaseOrders s = Ok (ent_GetAllPurchaseOrders w).
Proof.
  intros HR Hasc. rewrite (GetAllPurchaseOrders_refines s w HR). unfold ent_GetAllPurchaseOrders. f_equal. f_equal.
  apply ksort_id.
  assert (H : forall l : list (Z * po), (forall x, In x (map fst l) -> u64 x) -> StronglySorted Z.lt (map fst l) ->
              StronglySorted (klt po_key) l).
  { induction l as [|[i o] l IH]; intros Hu Hsrt; [constructor|]. cbn [map] in Hsrt. inversion Hsrt as [|? ? Hs' Hall]; subst.
    constructor; [apply IH; [intros x Hx; apply Hu; right; exact Hx | exact Hs']|].
    rewrite Forall_forall in *. intros [j o'] Hj. unfold klt, po_key. cbn [fst].
    apply kpo_order; [apply Hu; left; reflexivity | apply Hu; right; apply in_map_iff; exists (j, o'); split; [reflexivity | exact Hj]|].
    apply Hall. apply in_map_iff. exists (j, o'). split; [reflexivity | exact Hj]. }
  apply H; [intros x Hx; apply (pos_keys_u64 s _ x HR Hx) | exact Hasc].
Qed.

Theorem IteratePurchaseOrders_refines s w : Rent s (ew_ent w) ->
  forall St (cb : St -> go_EnterpriseUndPurchaseOrder -> outcome (St * bool)) st0,
    go_st_IteratePurchaseOrders s cb st0 = lst_iterate cb (map po_image (ksort po_key (e_pos (ew_ent w)))) st0.
Proof. intros HR St cb st0. rewrite spec_IteratePurchaseOrders. apply iterate_decoded, pos_decoded, HR. Qed.

(* ---- whitelist: the abstract list in address-byte order ---- *)
Definition wl_key (a : addr) : list N := kwl (emb a).

Lemma wl_decoded s st : Rent s st ->
  decode_all dec_wl (okv_prefix s ent_prefix_whitelist) = Ok (map emb (ksort wl_key (e_wl st))).
Proof.
  intros HR.
  rewrite (mlist_listing ent_prefix_whitelist dom (fun a => kwl (emb a)) (fun a => EV_bytes (emb a)) s (e_wl st)).
  - apply (decode_all_enc dec_wl). intros a _. reflexivity.
  - exact (R_sorted _ _ HR).
  - apply kwl_emb_inj.
  - intros x. reflexivity.
  - exact (R_wl _ _ HR).
  - exact (R_wl_nodup _ _ HR).
  - exact (R_wl_dom _ _ HR).
  - intros k v Hin Hp. apply key_ok_under_wl; [exact (R_complete _ _ HR k v Hin) | exact Hp].
Qed.

Theorem GetAllWhitelistedAddresses_refines s w : Rent s (ew_ent w) ->
  go_st_GetAllWhitelistedAddresses astr s = Ok (ksort wl_key (ent_GetAllWhitelistedAddresses w)).
Proof.
  intros HR. rewrite spec_GetAllWhitelistedAddresses, (wl_decoded s _ HR). cbn [obind]. f_equal.
  unfold ent_GetAllWhitelistedAddresses. rewrite map_map. rewrite <- (map_id (ksort wl_key _)) at 2.
  apply map_ext_in. intros a Ha. unfold astr. apply unemb_emb. apply (R_wl_dom _ _ HR). apply ksort_In in Ha. exact Ha.
Qed.

Theorem GetAllWhitelistedAddresses_refines_perm s w : Rent s (ew_ent w) ->
  exists L, go_st_GetAllWhitelistedAddresses astr s = Ok L /\ Permutation L (ent_GetAllWhitelistedAddresses w).
Proof. intros HR. eexists. split; [apply GetAllWhitelistedAddresses_refines; exact HR | apply ksort_perm]. Qed.

Theorem GetAllWhitelistedAddresses_refines_sorted s w : Rent s (ew_ent w) ->
  StronglySorted (fun a b => lex_lt (emb a) (emb b) = true) (e_wl (ew_ent w)) ->
  go_st_GetAllWhitelistedAddresses astr s = Ok (ent_GetAllWhitelistedAddresses w).
Proof.
  intros HR Hasc. rewrite (GetAllWhitelistedAddresses_refines s w HR). f_equal. apply ksort_id.
  apply (StronglySorted_impl_in (fun a b => lex_lt (emb a) (emb b) = true)); [|exact Hasc].
  intros a b _ _ H. unfold klt, wl_key. cbn [ent_encode]. rewrite lex_lt_cons_same. exact H.
Qed.

(* the callback of IterateWhitelist receives the address BYTES *)
Theorem IterateWhitelist_refines s w : Rent s (ew_ent w) ->
  forall St (cb : St -> list N -> outcome (St * bool)) st0,
    go_st_IterateWhitelist s cb st0 = lst_iterate cb (map emb (ksort wl_key (ent_GetAllWhitelistedAddresses w))) st0.
Proof. intros HR St cb st0. rewrite spec_IterateWhitelist. apply iterate_decoded, wl_decoded, HR. Qed.

(* ---- locked / spent: the entries of the abstract maps in address-byte order of the owner ---- *)
Definition locked_key (kv : addr * coin) : list N := klocked (emb (fst kv)).
Definition locked_image (kv : addr * coin) : go_LockedUnd := mk_go_LockedUnd (fst kv) (snd kv).
Definition spent_key (kv : addr * coin) : list N := kspent (emb (fst kv)).
Definition spent_image (kv : addr * coin) : go_SpentEFUND := mk_go_SpentEFUND (fst kv) (snd kv).

Theorem GetAllLockedUnds_refines s w : Rent s (ew_ent w) ->
  go_st_GetAllLockedUnds s = Ok (map locked_image (ksort locked_key (e_locked (ew_ent w)))).
Proof.
  intros HR. rewrite spec_GetAllLockedUnds.
  rewrite (amap_listing ent_prefix_locked dom (fun a => klocked (emb a)) v_locked s (e_locked (ew_ent w))).
  - apply (decode_all_enc dec_locked). intros a _. reflexivity.
  - exact (R_sorted _ _ HR).
  - apply klocked_emb_inj.
  - intros x. reflexivity.
  - exact (R_locked _ _ HR).
  - exact (R_locked_nodup _ _ HR).
  - exact (R_locked_dom _ _ HR).
  - intros k v Hin Hp. apply key_ok_under_locked; [exact (R_complete _ _ HR k v Hin) | exact Hp].
Qed.

Theorem GetAllLockedUnds_refines_perm s w : Rent s (ew_ent w) ->
  exists L, go_st_GetAllLockedUnds s = Ok L /\ Permutation L (ent_GetAllLockedUnds w).
Proof.
  intros HR. eexists. split; [apply GetAllLockedUnds_refines; exact HR|].
  unfold ent_GetAllLockedUnds. apply (Permutation_map locked_image), ksort_perm.
Qed.

Lemma akeys_sorted_klt {V} (tag : N) (l : list (addr * V)) :
  StronglySorted (fun a b => lex_lt (emb a) (emb b) = true) (map fst l) ->
  StronglySorted (klt (fun kv : addr * V => tag :: emb (fst kv))) l.
Proof.
  induction l as [|[a v] l IH]; intros Hs; [constructor|]. cbn [map] in Hs. inversion Hs as [|? ? Hs' Hall]; subst.
  constructor; [apply IH; exact Hs'|]. rewrite Forall_forall in *. intros [b v'] Hb. unfold klt. cbn [fst].
  rewrite lex_lt_cons_same. apply Hall. apply in_map_iff. exists (b, v'). split; [reflexivity | exact Hb].
Qed.

Theorem GetAllLockedUnds_refines_sorted s w : Rent s (ew_ent w) ->
  StronglySorted (fun a b => lex_lt (emb a) (emb b) = true) (akeys (e_locked (ew_ent w))) ->
  go_st_GetAllLockedUnds s = Ok (ent_GetAllLockedUnds w).
Proof.
  intros HR Hasc. rewrite (GetAllLockedUnds_refines s w HR). unfold ent_GetAllLockedUnds. f_equal. f_equal.
  apply ksort_id. exact (akeys_sorted_klt 2%N _ Hasc).
Qed.

Theorem GetAllSpentEFUNDs_refines s w : Rent s (ew_ent w) ->
  go_st_GetAllSpentEFUNDs s = Ok (map spent_image (ksort spent_key (e_spent (ew_ent w)))).
Proof.
  intros HR. rewrite spec_GetAllSpentEFUNDs.
  rewrite (amap_listing ent_prefix_spent dom (fun a => kspent (emb a)) v_spent s (e_spent (ew_ent w))).
  - apply (decode_all_enc dec_spent). intros a _. reflexivity.
  - exact (R_sorted _ _ HR).
  - apply kspent_emb_inj.
  - intros x. reflexivity.
  - exact (R_spent _ _ HR).
  - exact (R_spent_nodup _ _ HR).
  - exact (R_spent_dom _ _ HR).
  - intros k v Hin Hp. apply key_ok_under_spent; [exact (R_complete _ _ HR k v Hin) | exact Hp].
Qed.

Theorem GetAllSpentEFUNDs_refines_perm s w : Rent s (ew_ent w) ->
  exists L, go_st_GetAllSpentEFUNDs s = Ok L /\ Permutation L (ent_GetAllSpentEFUNDs w).
Proof.
  intros HR. eexists. split; [apply GetAllSpentEFUNDs_refines; exact HR|].
  unfold ent_GetAllSpentEFUNDs. apply (Permutation_map spent_image), ksort_perm.
Qed.

Theorem GetAllSpentEFUNDs_refines_sorted s w : Rent s (ew_ent w) ->
  StronglySorted (fun a b => lex_lt (emb a) (emb b) = true) (akeys (e_spent (ew_ent w))) ->
  go_st_GetAllSpentEFUNDs s = Ok (ent_GetAllSpentEFUNDs w).
Proof.
  intros HR Hasc. rewrite (GetAllSpentEFUNDs_refines s w HR). unfold ent_GetAllSpentEFUNDs. f_equal. f_equal.
  apply ksort_id. exact (akeys_sorted_klt 6%N _ Hasc).
Qed.

(* ================================================================== *)
(* INITIAL STATES                                                       *)
(* ================================================================== *)
(* The primitive ent_GetHighestPurchaseOrderID always answers ("the genesis always stores the counter"), the generated
   reader returns an error from a store without the counter cell: the relation asks for the cell, so the EMPTY store
   represents no state; the first related store is the one after the two genesis writes. *)

Definition init_state (p : go_Params) (n : Z) : ent_state :=
  {| e_params := params_of_go p; e_next := n; e_pos := []; e_raisedq := []; e_acceptedq := []; e_wl := [];
     e_locked := []; e_spent := []; e_totlocked := None; e_totspent := None |}.

Lemma Rent_init p n : u64 n -> Rent (okv_set (okv_set [] kparams (EV_Params p)) khighest (v_id n)) (init_state p n).
Proof.
  intros Hn. constructor; cbn [init_state e_params e_next e_pos e_raisedq e_acceptedq e_wl e_locked e_spent e_totlocked e_totspent];
    try solve [ constructor | intros ? [] | intros ? ? []
              | intros x Hx; cbv beta; cbn [aget option_map mem_addr existsb]; rewrite !get_set_other by kneq; reflexivity
              | cbn [option_map]; rewrite !get_set_other by kneq; reflexivity ].
  all: try exact Hn.
  all: try (apply set_sorted, set_sorted; reflexivity).
  all: try (left; rewrite get_set_other by kneq; rewrite get_set_same, params_to_of_go; reflexivity).
  all: try apply get_set_same.
  apply complete_set; [apply complete_set; [intros k v [] | apply key_ok_params] | apply key_ok_highest].
Qed.

Theorem init_refines p n s1 s2 :
  go_st_SetParams [] p = Ok (s1, tt) -> go_st_SetHighestPurchaseOrderID s1 n = Ok (s2, tt) -> u64 n ->
  Rent s2 (init_state p n).
Proof.
  intros H1 H2 Hn. apply eff_SetParams in H1 as [_ ->]. apply eff_SetHighestPurchaseOrderID in H2. subst s2.
  apply Rent_init; exact Hn.
Qed.

(* both sides of the genesis: the same verdict on the parameters, related states *)
Definition blank_state : ent_state := init_state zero_go_Params 0.

Theorem init_sim p n w : ew_ent w = blank_state -> ent_params_range p -> u64 n ->
  out_sim Rres (fun e e' => e = ERR_ENT /\ e' = ent_params_err p)
    (do r <- ent_SetParams w p; ent_SetHighestPurchaseOrderID (fst r) n)
    (do r <- go_st_SetParams [] p; go_st_SetHighestPurchaseOrderID (fst r) n).
Proof.
  intros Hw Hp Hn. unfold ent_SetParams, ent_set_params. rewrite spec_SetParams, (gen_ent_Params_Validate_exact p Hp).
  destruct (ent_params_valid (params_of_go p)); cbn [obind out_sim fst].
  - rewrite spec_SetHighestPurchaseOrderID. unfold ent_SetHighestPurchaseOrderID. cbn [out_sim]. unfold Rres.
    cbn [fst ew_ent with_ent]. rewrite Hw. exact (Rent_init p n Hn).
  - split; reflexivity.
Qed.

(* ================================================================== *)
(* HISTORIES                                                            *)
(* ================================================================== *)

(* the abstract step: the primitives of model/EnterpriseKeeperPrims.v (listings: sorted by store key) *)
Definition astep (w : eworld) (o : eop) : outcome (eworld * eobs) :=
  match o with
  | OpSetParams p => do r <- ent_SetParams w p; Ok (fst r, ObUnit)
  | OpGetParams => Ok (w, ObParams (ent_GetParams w))
  | OpSetHighest n => do r <- ent_SetHighestPurchaseOrderID w n; Ok (fst r, ObUnit)
  | OpGetHighest => do n <- ent_GetHighestPurchaseOrderID w; Ok (w, ObZ n)
  | OpSetPO g => do r <- ent_SetPurchaseOrder w g; Ok (fst r, ObUnit)
  | OpGetPO id => Ok (w, ObPO (fst (ent_GetPurchaseOrder w id)) (snd (ent_GetPurchaseOrder w id)))
  | OpPOExists id => Ok (w, ObBool (ent_PurchaseOrderExists w id))
  | OpAllPOs => Ok (w, ObPOs (map po_image (ksort po_key (e_pos (ew_ent w)))))
  | OpAddRaised id => do r <- ent_AddPoToRaisedQueue w id; Ok (fst r, ObUnit)
  | OpRemoveRaised id => do r <- ent_RemovePurchaseOrderFromRaisedQueue w id; Ok (fst r, ObUnit)
  | OpInRaised id => Ok (w, ObBool (mem_addr id (ent_GetAllRaisedPurchaseOrders w)))
  | OpAllRaised => Ok (w, ObIds (ent_GetAllRaisedPurchaseOrders w))
  | OpAddAccepted id => do r <- ent_AddPoToAcceptedQueue w id; Ok (fst r, ObUnit)
  | OpRemoveAccepted id => do r <- ent_RemovePurchaseOrderFromAcceptedQueue w id; Ok (fst r, ObUnit)
  | OpInAccepted id => Ok (w, ObBool (mem_addr id (ent_GetAllAcceptedPurchaseOrders w)))
  | OpAllAccepted => Ok (w, ObIds (ent_GetAllAcceptedPurchaseOrders w))
  | OpAddWL a => do r <- ent_AddAddressToWhitelist w a; Ok (fst r, ObUnit)
  | OpRemoveWL a => do r <- ent_RemoveAddressFromWhitelist w a; Ok (fst r, ObUnit)
  | OpIsWL a => Ok (w, ObBool (ent_AddressIsWhitelisted w a))
  | OpAllWL => Ok (w, ObAddrs (ksort wl_key (ent_GetAllWhitelistedAddresses w)))
  | OpSetTotalLocked c => do r <- ent_SetTotalLockedUnd w c; Ok (fst r, ObUnit)
  | OpGetTotalLocked => Ok (w, ObCoin (ent_GetTotalLockedUnd w))
  | OpSetTotalSpent c => do r <- ent_SetTotalSpentEFUND w c; Ok (fst r, ObUnit)
  | OpGetTotalSpent => Ok (w, ObCoin (ent_GetTotalSpentEFUND w))
  | OpSetLocked x => do r <- ent_SetLockedUndForAccount w x; Ok (fst r, ObUnit)
  | OpGetLocked a => Ok (w, ObLocked (ent_GetLockedUndForAccount w a))
  | OpHasLocked a => Ok (w, ObBool (ahas a (e_locked (ew_ent w))))
  | OpAllLocked => Ok (w, ObLockeds (map locked_image (ksort locked_key (e_locked (ew_ent w)))))
  | OpSetSpent x => do r <- ent_SetSpentEFUNDForAccount w x; Ok (fst r, ObUnit)
  | OpGetSpent a => Ok (w, ObSpent (ent_GetSpentEFUNDForAccount w a))
  | OpHasSpent a => Ok (w, ObBool (ahas a (e_spent (ew_ent w))))
  | OpAllSpent => Ok (w, ObSpents (map spent_image (ksort spent_key (e_spent (ew_ent w)))))
  end.

(* the concrete step: the generated accessors on the embedded addresses *)
Definition cstep (s : store) (o : eop) : outcome (store * eobs) :=
  match o with
  | OpSetParams p => do r <- go_st_SetParams s p; Ok (fst r, ObUnit)
  | OpGetParams => do p <- go_st_GetParams s; Ok (s, ObParams p)
  | OpSetHighest n => do r <- go_st_SetHighestPurchaseOrderID s n; Ok (fst r, ObUnit)
  | OpGetHighest => do n <- go_st_GetHighestPurchaseOrderID s; Ok (s, ObZ n)
  | OpSetPO g => do r <- go_st_SetPurchaseOrder s g; Ok (fst r, ObUnit)
  | OpGetPO id => do r <- go_st_GetPurchaseOrder s id; Ok (s, ObPO (fst r) (snd r))
  | OpPOExists id => do b <- go_st_PurchaseOrderExists s id; Ok (s, ObBool b)
  | OpAllPOs => do l <- go_st_GetAllPurchaseOrders s; Ok (s, ObPOs l)
  | OpAddRaised id => do r <- go_st_AddPoToRaisedQueue s id; Ok (fst r, ObUnit)
  | OpRemoveRaised id => do r <- go_st_RemovePurchaseOrderFromRaisedQueue s id; Ok (fst r, ObUnit)
  | OpInRaised id => do b <- go_st_PurchaseOrderIsInRaisedQueue s id; Ok (s, ObBool b)
  | OpAllRaised => do l <- go_st_GetAllRaisedPurchaseOrders s; Ok (s, ObIds l)
  | OpAddAccepted id => do r <- go_st_AddPoToAcceptedQueue s id; Ok (fst r, ObUnit)
  | OpRemoveAccepted id => do r <- go_st_RemovePurchaseOrderFromAcceptedQueue s id; Ok (fst r, ObUnit)
  | OpInAccepted id => do b <- go_st_PurchaseOrderIsInAcceptedQueue s id; Ok (s, ObBool b)
  | OpAllAccepted => do l <- go_st_GetAllAcceptedPurchaseOrders s; Ok (s, ObIds l)
  | OpAddWL a => do r <- go_st_AddAddressToWhitelist s (emb a); Ok (fst r, ObUnit)
  | OpRemoveWL a => do r <- go_st_RemoveAddressFromWhitelist s (emb a); Ok (fst r, ObUnit)
  | OpIsWL a => do b <- go_st_AddressIsWhitelisted s (emb a); Ok (s, ObBool b)
  | OpAllWL => do l <- go_st_GetAllWhitelistedAddresses astr s; Ok (s, ObAddrs l)
  | OpSetTotalLocked c => do r <- go_st_SetTotalLockedUnd s c; Ok (fst r, ObUnit)
  | OpGetTotalLocked => do c <- go_st_GetTotalLockedUnd s; Ok (s, ObCoin c)
  | OpSetTotalSpent c => do r <- go_st_SetTotalSpentEFUND s c; Ok (fst r, ObUnit)
  | OpGetTotalSpent => do c <- go_st_GetTotalSpentEFUND s; Ok (s, ObCoin c)
  | OpSetLocked x => do r <- go_st_SetLockedUndForAccount bech s x; Ok (fst r, ObUnit)
  | OpGetLocked a => do x <- go_st_GetLockedUndForAccount astr s (emb a); Ok (s, ObLocked x)
  | OpHasLocked a => do b <- go_st_AccountHasLockedUnd s (emb a); Ok (s, ObBool b)
  | OpAllLocked => do l <- go_st_GetAllLockedUnds s; Ok (s, ObLockeds l)
  | OpSetSpent x => do r <- go_st_SetSpentEFUNDForAccount bech s x; Ok (fst r, ObUnit)
  | OpGetSpent a => do x <- go_st_GetSpentEFUNDForAccount astr s (emb a); Ok (s, ObSpent x)
  | OpHasSpent a => do b <- go_st_AccountHasSpentEFUND s (emb a); Ok (s, ObBool b)
  | OpAllSpent => do l <- go_st_GetAllSpentEFUNDs s; Ok (s, ObSpents l)
  end.

(* the side condition of one call, relative to the current abstract state *)
Definition op_ok (w : eworld) (o : eop) : Prop :=
  match o with
  | OpSetParams p => ent_params_range p
  | OpSetHighest n => u64 n
  | OpSetPO g => u64 (EnterpriseUndPurchaseOrder_Id g)
  | OpGetPO id | OpPOExists id | OpRemoveRaised id | OpInRaised id | OpRemoveAccepted id | OpInAccepted id => u64 id
  | OpAddRaised id => u64 id /\ (forall y, In y (e_raisedq (ew_ent w)) -> y < id)
  | OpAddAccepted id => u64 id /\ (forall y, In y (e_acceptedq (ew_ent w)) -> y < id)
  | OpAddWL a => dom a /\ ent_AddressIsWhitelisted w a = false
  | OpRemoveWL a | OpIsWL a | OpGetLocked a | OpHasLocked a | OpGetSpent a | OpHasSpent a => dom a
  | OpSetLocked x => dom (LockedUnd_Owner x)
  | OpSetSpent x => dom (SpentEFUND_Owner x)
  | OpGetParams | OpGetHighest | OpAllPOs | OpAllRaised | OpAllAccepted | OpAllWL | OpSetTotalLocked _ | OpGetTotalLocked
  | OpSetTotalSpent _ | OpGetTotalSpent | OpAllLocked | OpAllSpent => True
  end.

(* the side conditions along a run of the abstract side *)
Fixpoint ops_ok (w : eworld) (ops : list eop) : Prop :=
  match ops with
  | [] => True
  | o :: r => op_ok w o /\
      match astep w o with
      | Ok (w', _) => ops_ok w' r
      | Err _ => ops_ok w r
      | Panic _ => True
      end
  end.

Lemma ops_ok_cons_ok w o r w' ob : op_ok w o -> astep w o = Ok (w', ob) -> ops_ok w' r -> ops_ok w (o :: r).
Proof. intros Ho E Hr. cbn [ops_ok]. rewrite E. split; assumption. Qed.
Lemma ops_ok_cons_err w o r e : op_ok w o -> astep w o = Err e -> ops_ok w r -> ops_ok w (o :: r).
Proof. intros Ho E Hr. cbn [ops_ok]. rewrite E. split; assumption. Qed.

(* error codes of the two sides: equal, or ERR_ENT against the generated file's STORE_ERR / sdk.ValidateDenom's 1 *)
Definition err_sim (e e' : Z) : Prop := e = e' \/ (e = ERR_ENT /\ (e' = STORE_ERR \/ e' = 1)).

(* one step: same result, related states *)
Definition Rstep (a : eworld * eobs) (c : store * eobs) : Prop := snd a = snd c /\ Rent (fst c) (ew_ent (fst a)).

Lemma out_sim_writer (E : Z -> Z -> Prop) (a : outcome (eworld * unit)) (c : outcome (store * unit)) :
  (forall e e', E e e' -> err_sim e e') -> out_sim Rres E a c ->
  out_sim Rstep err_sim (do res <- a; Ok (fst res, ObUnit)) (do res <- c; Ok (fst res, ObUnit)).
Proof.
  intros HE. destruct a as [[w' u]| |], c as [[s' u']| |]; cbn [out_sim obind]; try tauto.
  - unfold Rres, Rstep. cbn [fst snd]. intros H. split; [reflexivity | exact H].
  - apply HE.
Qed.

Lemma same_code_err_sim e e' : same_code e e' -> err_sim e e'.
Proof. intros H. left. exact H. Qed.
Lemma ent_vs_store_err_sim e e' : ent_vs_store_code e e' -> err_sim e e'.
Proof. intros [-> ->]. right. split; [reflexivity | left; reflexivity]. Qed.
Lemma params_err_sim p e e' : e = ERR_ENT /\ e' = ent_params_err p -> err_sim e e'.
Proof.
  intros [-> ->]. unfold ent_params_err. destruct (_ && _); [right; split; [reflexivity | right; reflexivity] | left; reflexivity].
Qed.

Lemma out_sim_reader {A} (f : A -> eobs) s w (x : A) (c : outcome A) : Rent s (ew_ent w) -> c = Ok x ->
  out_sim Rstep err_sim (Ok (w, f x)) (do y <- c; Ok (s, f y)).
Proof. intros HR ->. cbn [obind out_sim]. split; [reflexivity | exact HR]. Qed.

Theorem step_refines s w o : Rent s (ew_ent w) -> op_ok w o -> out_sim Rstep err_sim (astep w o) (cstep s o).
Proof.
  intros HR Hok. destruct o; cbn [astep cstep op_ok] in *.
  - apply (out_sim_writer _ _ _ (params_err_sim p)), SetParams_refines; assumption.
  - apply (out_sim_reader ObParams); [exact HR | apply GetParams_refines; exact HR].
  - apply (out_sim_writer _ _ _ same_code_err_sim), SetHighestPurchaseOrderID_refines; assumption.
  - rewrite (GetHighestPurchaseOrderID_refines s w HR). unfold ent_GetHighestPurchaseOrderID. cbn [obind out_sim].
    split; [reflexivity | exact HR].
  - apply (out_sim_writer _ _ _ ent_vs_store_err_sim), SetPurchaseOrder_refines; assumption.
  - rewrite (GetPurchaseOrder_refines s w id HR Hok). cbn [obind out_sim]. split; [reflexivity | exact HR].
  - apply (out_sim_reader ObBool); [exact HR | apply PurchaseOrderExists_refines; assumption].
  - apply (out_sim_reader ObPOs); [exact HR | apply GetAllPurchaseOrders_refines; exact HR].
  - destruct Hok. apply (out_sim_writer _ _ _ same_code_err_sim), AddPoToRaisedQueue_refines; assumption.
  - apply (out_sim_writer _ _ _ same_code_err_sim), RemovePurchaseOrderFromRaisedQueue_refines; assumption.
  - apply (out_sim_reader ObBool); [exact HR | apply PurchaseOrderIsInRaisedQueue_refines; assumption].
  - apply (out_sim_reader ObIds); [exact HR | apply GetAllRaisedPurchaseOrders_refines; exact HR].
  - destruct Hok. apply (out_sim_writer _ _ _ same_code_err_sim), AddPoToAcceptedQueue_refines; assumption.
  - apply (out_sim_writer _ _ _ same_code_err_sim), RemovePurchaseOrderFromAcceptedQueue_refines; assumption.
  - apply (out_sim_reader ObBool); [exact HR | apply PurchaseOrderIsInAcceptedQueue_refines; assumption].
  - apply (out_sim_reader ObIds); [exact HR | apply GetAllAcceptedPurchaseOrders_refines; exact HR].
  - destruct Hok. apply (out_sim_writer _ _ _ same_code_err_sim), AddAddressToWhitelist_refines; assumption.
  - apply (out_sim_writer _ _ _ same_code_err_sim), RemoveAddressFromWhitelist_refines; assumption.
  - apply (out_sim_reader ObBool); [exact HR | apply AddressIsWhitelisted_refines; assumption].
  - apply (out_sim_reader ObAddrs); [exact HR | apply GetAllWhitelistedAddresses_refines; exact HR].
  - apply (out_sim_writer _ _ _ same_code_err_sim), SetTotalLockedUnd_refines; assumption.
  - apply (out_sim_reader ObCoin); [exact HR | apply GetTotalLockedUnd_refines; exact HR].
  - apply (out_sim_writer _ _ _ same_code_err_sim), SetTotalSpentEFUND_refines; assumption.
  - apply (out_sim_reader ObCoin); [exact HR | apply GetTotalSpentEFUND_refines; exact HR].
  - apply (out_sim_writer _ _ _ ent_vs_store_err_sim), SetLockedUndForAccount_refines; assumption.
  - apply (out_sim_reader ObLocked); [exact HR | apply GetLockedUndForAccount_refines; assumption].
  - apply (out_sim_reader ObBool); [exact HR | apply AccountHasLockedUnd_refines; assumption].
  - apply (out_sim_reader ObLockeds); [exact HR | apply GetAllLockedUnds_refines; exact HR].
  - apply (out_sim_writer _ _ _ same_code_err_sim), SetSpentEFUNDForAccount_refines; assumption.
  - apply (out_sim_reader ObSpent); [exact HR | apply GetSpentEFUNDForAccount_refines; assumption].
  - apply (out_sim_reader ObBool); [exact HR | apply AccountHasSpentEFUND_refines; assumption].
  - apply (out_sim_reader ObSpents); [exact HR | apply GetAllSpentEFUNDs_refines; exact HR].
Qed.

(* any history: the same trace of results (error codes up to err_sim), related final states *)
Theorem history_refines ops : forall s w, Rent s (ew_ent w) -> ops_ok w ops ->
  Forall2 (out_sim eq err_sim) (fst (run astep w ops)) (fst (run cstep s ops)) /\
  Rent (snd (run cstep s ops)) (ew_ent (snd (run astep w ops))).
Proof.
  induction ops as [|o ops IH]; intros s w HR Hok; cbn [run].
  - split; [constructor | exact HR].
  - cbn [ops_ok] in Hok. destruct Hok as [Ho Hops]. pose proof (step_refines s w o HR Ho) as H.
    destruct (astep w o) as [[w' oa]| |], (cstep s o) as [[s' oc]| |]; cbn [out_sim] in H; try contradiction.
    + destruct H as [E HR']. cbn [fst snd] in E, HR'. subst oc.
      destruct (IH s' w' HR' Hops) as [Et HRf]. cbn [fst snd]. split; [constructor; [reflexivity | exact Et] | exact HRf].
    + destruct (IH s w HR Hops) as [Et HRf]. cbn [fst snd]. split; [constructor; [exact H | exact Et] | exact HRf].
    + subst. cbn [fst snd]. split; [constructor; [reflexivity | constructor] | exact HR].
Qed.

(* the primitives never panic, so no history of the generated accessors does either *)
Lemma astep_no_panic w o c : astep w o <> Panic c.
Proof.
  destruct o; cbn [astep]; try discriminate;
    unfold ent_SetParams, ent_set_params, ent_SetHighestPurchaseOrderID, ent_GetHighestPurchaseOrderID, ent_SetPurchaseOrder,
      ent_AddPoToRaisedQueue, ent_RemovePurchaseOrderFromRaisedQueue, ent_AddPoToAcceptedQueue,
      ent_RemovePurchaseOrderFromAcceptedQueue, ent_AddAddressToWhitelist, ent_RemoveAddressFromWhitelist,
      ent_SetTotalLockedUnd, ent_SetTotalSpentEFUND, ent_SetLockedUndForAccount, ent_SetSpentEFUNDForAccount;
    cbn [obind]; try discriminate.
  - destruct (ent_params_valid _); cbn [obind]; discriminate.
  - destruct (negb _); cbn [obind]; discriminate.
  - destruct (_ <? 0); cbn [obind]; discriminate.
Qed.

Corollary history_no_panic ops s w : Rent s (ew_ent w) -> ops_ok w ops ->
  forall c, ~ In (Panic c) (fst (run cstep s ops)).
Proof.
  revert s w. induction ops as [|o ops IH]; intros s w HR Hok c; cbn [run]; [intros []|].
  cbn [ops_ok] in Hok. destruct Hok as [Ho Hops]. pose proof (step_refines s w o HR Ho) as H.
  pose proof (astep_no_panic w o) as NP.
  destruct (astep w o) as [[w' oa]| |], (cstep s o) as [[s' oc]| |]; cbn [out_sim] in H; try contradiction.
  - destruct H as [_ HR']. cbn [fst snd] in *. intros [X|X]; [discriminate X | exact (IH s' w' HR' Hops c X)].
  - cbn [fst snd]. intros [X|X]; [discriminate X | exact (IH s w HR Hops c X)].
  - exfalso. exact (NP _ eq_refl).
Qed.

(* ================================================================== *)
(* a related store is sorted and well-formed in the sense of proofs/GeneratedEnterpriseStoreEq.v: every law proved there
   about the generated accessors (C18storeenterprise.v) holds of it *)
(* ================================================================== *)
Ltac fits_other := unfold ent_fits; repeat split; intros Hfit; try discriminate Hfit.

Theorem Rent_wf s st : Rent s st -> okv_sorted s = true /\ ent_wf bech s.
Proof.
  intros HR. split; [exact (R_sorted _ _ HR)|]. intros k v Hin.
  pose proof (R_complete _ _ HR k v Hin) as Hk. apply (in_get _ _ _ (R_sorted _ _ HR)) in Hin.
  key_cases Hk.
  - destruct (R_params _ _ HR) as [E|[E _]]; rewrite E in Hin; [|discriminate Hin]. injection Hin as <-.
    fits_other. eexists; reflexivity.
  - rewrite (R_highest _ _ HR) in Hin. injection Hin as <-. fits_other.
    exists (e_next st). split; [exact (R_next _ _ HR) | reflexivity].
  - rewrite (R_totlocked _ _ HR) in Hin. destruct (e_totlocked st); [|discriminate Hin]. injection Hin as <-.
    fits_other. eexists; reflexivity.
  - rewrite (R_totspent _ _ HR) in Hin. destruct (e_totspent st); [|discriminate Hin]. injection Hin as <-.
    fits_other. eexists; reflexivity.
  - rename x into id. rewrite (Rent_pos _ _ _ HR H) in Hin. destruct (aget id (e_pos st)) as [o|] eqn:G; [|discriminate Hin].
    injection Hin as <-. apply aget_In in G. destruct (R_pos_ids _ _ HR id o G) as [_ Eid].
    assert (E2 : EnterpriseUndPurchaseOrder_Id (to_go_po o) = id) by (rewrite <- Eid; reflexivity).
    fits_other. exists (to_go_po o). rewrite E2. split; [reflexivity|]. split; [exact H | reflexivity].
  - rename x into id. rewrite (Rent_raised _ _ _ HR H) in Hin. destruct (mem_addr id (e_raisedq st)); [|discriminate Hin].
    injection Hin as <-. fits_other. exists id. split; [exact H|]. split; reflexivity.
  - rename x into id. rewrite (Rent_accepted _ _ _ HR H) in Hin. destruct (mem_addr id (e_acceptedq st)); [|discriminate Hin].
    injection Hin as <-. fits_other. exists id. split; [exact H|]. split; reflexivity.
  - rename x into a. rewrite (Rent_wl _ _ _ HR H) in Hin. destruct (mem_addr a (e_wl st)); [|discriminate Hin].
    injection Hin as <-. fits_other. exists (emb a). split; [apply emb_nonempty; exact H|]. split; reflexivity.
  - rename x into a. rewrite (Rent_locked _ _ _ HR H) in Hin. destruct (aget a (e_locked st)) as [c|]; [|discriminate Hin].
    injection Hin as <-. fits_other. exists (mk_go_LockedUnd a c), (emb a). split; [reflexivity|].
    split; [apply bech_dom; exact H | reflexivity].
  - rename x into a. rewrite (Rent_spent _ _ _ HR H) in Hin. destruct (aget a (e_spent st)) as [c|]; [|discriminate Hin].
    injection Hin as <-. fits_other. exists (mk_go_SpentEFUND a c), (emb a). split; [reflexivity|].
    split; [apply bech_dom; exact H | reflexivity].
Qed.

(* the relation, clause by clause *)
Lemma Rent_iff s st : Rent s st <->
  ( okv_sorted s = true /\
    params_cell s (e_params st) /\
    okv_get s khighest = Some (v_id (e_next st)) /\
    u64 (e_next st) /\
    okv_get s ktotlocked = option_map EV_Coin (e_totlocked st) /\
    okv_get s ktotspent = option_map EV_Coin (e_totspent st) /\
    (forall id, u64 id -> okv_get s (kpo id) = option_map v_po (aget id (e_pos st))) /\
    NoDup (akeys (e_pos st)) /\
    (forall id o, In (id, o) (e_pos st) -> u64 id /\ po_id o = id) /\
    (forall id, u64 id -> okv_get s (kraised id) = if mem_addr id (e_raisedq st) then Some (v_id id) else None) /\
    StronglySorted Z.lt (e_raisedq st) /\
    (forall id, In id (e_raisedq st) -> u64 id) /\
    (forall id, u64 id -> okv_get s (kaccepted id) = if mem_addr id (e_acceptedq st) then Some (v_id id) else None) /\
    StronglySorted Z.lt (e_acceptedq st) /\
    (forall id, In id (e_acceptedq st) -> u64 id) /\
    (forall a, dom a -> okv_get s (kwl (emb a)) = if mem_addr a (e_wl st) then Some (EV_bytes (emb a)) else None) /\
    NoDup (e_wl st) /\
    (forall a, In a (e_wl st) -> dom a) /\
    (forall a, dom a -> okv_get s (klocked (emb a)) = option_map (v_locked a) (aget a (e_locked st))) /\
    NoDup (akeys (e_locked st)) /\
    (forall a, In a (akeys (e_locked st)) -> dom a) /\
    (forall a, dom a -> okv_get s (kspent (emb a)) = option_map (v_spent a) (aget a (e_spent st))) /\
    NoDup (akeys (e_spent st)) /\
    (forall a, In a (akeys (e_spent st)) -> dom a) /\
    (forall k v, In (k, v) s -> key_ok k) ).
Proof.
  split.
  - intros HR. open_R HR. repeat (split; [assumption|]). assumption.
  - intros (H1 & H2 & H3 & H4 & H5 & H6 & H7 & H8 & H9 & H10 & H11 & H12 & H13 & H14 & H15 & H16 & H17 & H18 & H19 & H20
            & H21 & H22 & H23 & H24 & H25).
    constructor; assumption.
Qed.

End Refinement.

(* an inverse on dom makes emb injective on dom: the first hypothesis follows from the second *)
Lemma left_inverse_injective (dom : addr -> Prop) (emb : addr -> list N) (unemb : list N -> addr) :
  (forall a, dom a -> unemb (emb a) = a) -> forall a b, dom a -> dom b -> emb a = emb b -> a = b.
Proof. intros H a b Da Db E. rewrite <- (H a Da), <- (H b Db), E. reflexivity. Qed.

(* ================================================================== *)
(* NON-VACUITY                                                          *)
(* ================================================================== *)

(* one-byte addresses 1..255 for the abstract addresses 0..254 (BAD_ADDR = -999 and the empty address -100 are outside) *)
Definition ex_dom (a : Z) : Prop := 0 <= a < 255.
Definition ex_emb (a : Z) : list N := [(Z.to_N a + 1)%N].
Definition ex_unemb (b : list N) : Z := match b with [x] => Z.of_N x - 1 | _ => 0 end.

Lemma ex_unemb_emb a : ex_dom a -> ex_unemb (ex_emb a) = a.
Proof. unfold ex_dom, ex_unemb, ex_emb. intros H. rewrite N2Z.inj_add, Z2N.id by lia. change (Z.of_N 1) with 1. lia. Qed.
Lemma ex_emb_inj a b : ex_dom a -> ex_dom b -> ex_emb a = ex_emb b -> a = b.
Proof. apply (left_inverse_injective ex_dom ex_emb ex_unemb ex_unemb_emb). Qed.
Lemma ex_emb_nonempty a : ex_dom a -> ex_emb a <> [].
Proof. intros _. discriminate. Qed.
Lemma ex_dom_parses a : ex_dom a -> addr_parses a = true.
Proof.
  unfold ex_dom, addr_parses, BAD_ADDR, EMPTY_ADDR. intros H.
  destruct (Z.eqb_spec a (-999)); [lia|]. destruct (Z.eqb_spec a (-100)); [lia|]. reflexivity.
Qed.

(* the hypotheses also have an instance on every address that parses (a byte is an N in this byte model) *)
Definition ex_dom_all (a : Z) : Prop := addr_parses a = true.
Definition ex_emb_all (a : Z) : list N := [if a <? 0 then (2 * Z.to_N (- a) + 1)%N else (2 * Z.to_N a)%N].
Definition ex_unemb_all (b : list N) : Z :=
  match b with [x] => if N.odd x then - Z.of_N (N.div2 x) else Z.of_N (N.div2 x) | _ => 0 end.

Lemma ex_unemb_emb_all a : ex_unemb_all (ex_emb_all a) = a.
Proof.
  assert (Ho : forall n, N.odd (2 * n + 1) = true /\ N.div2 (2 * n + 1) = n) by (intros n; destruct n; split; reflexivity).
  assert (He : forall n, N.odd (2 * n) = false /\ N.div2 (2 * n) = n) by (intros n; destruct n; split; reflexivity).
  unfold ex_unemb_all, ex_emb_all. destruct (Z.ltb_spec a 0).
  - destruct (Ho (Z.to_N (- a))) as [-> ->]. rewrite Z2N.id by lia. lia.
  - destruct (He (Z.to_N a)) as [-> ->]. apply Z2N.id. exact H.
Qed.
Lemma ex_emb_all_nonempty a : ex_emb_all a <> [].
Proof. discriminate. Qed.
Lemma ex_emb_all_inj a b : ex_emb_all a = ex_emb_all b -> a = b.
Proof. intros E. rewrite <- (ex_unemb_emb_all a), <- (ex_unemb_emb_all b), E. reflexivity. Qed.

Lemma u64_small x : 0 <= x < 1000 -> u64 x.
Proof. intros H. split; [lia|]. apply Z.lt_trans with 1000; [lia | reflexivity]. Qed.

Definition ex_params : go_Params := mk_go_Params [5] 1 1 10.
Definition ex_po (id st : Z) : go_EnterpriseUndPurchaseOrder := mk_go_EnterpriseUndPurchaseOrder id 5 (1, 100) st 0 0 [].
Definition ex_bank : bank := {| bal := []; supply := [] |}.

(* the store / the state after the two genesis writes *)
Definition ex_s0 : store := [ ([7%N], EV_Params ex_params); ([32%N], v_id 1) ].
Definition ex_w0 : eworld := mk_eworld 0 ex_bank (init_state ex_params 1).

Example ex_genesis :
  (do r <- go_st_SetParams [] ex_params; go_st_SetHighestPurchaseOrderID (fst r) 1) = Ok (ex_s0, tt) /\
  (do r <- ent_SetParams (mk_eworld 0 ex_bank blank_state) ex_params; ent_SetHighestPurchaseOrderID (fst r) 1) = Ok (ex_w0, tt).
Proof. vm_compute. split; reflexivity. Qed.

Example ex_R0 : Rent ex_dom ex_emb ex_s0 (ew_ent ex_w0).
Proof. apply (Rent_init ex_dom ex_emb ex_params 1). apply u64_small. lia. Qed.

(* every accessor once: purchase orders written against the id order, both queues, a refused purchase order, the
   whitelist written against the byte order, totals read before and after they are written, locked / spent with a
   refused negative amount, refused and accepted parameters (the default coins follow the new denomination) *)
Definition ex_ops : list eop :=
  [ OpGetParams; OpGetHighest; OpSetHighest 3;
    OpSetPO (ex_po 2 1); OpSetPO (ex_po 1 1); OpAllPOs; OpGetPO 1; OpPOExists 7;
    OpSetPO (ex_po 3 9);
    OpAddRaised 1; OpAddRaised 2; OpAllRaised; OpRemoveRaised 1; OpInRaised 1; OpInRaised 2; OpAddAccepted 1; OpAllAccepted;
    OpAddWL 7; OpAddWL 3; OpAllWL; OpIsWL 7; OpRemoveWL 7; OpIsWL 7;
    OpGetTotalLocked; OpSetTotalLocked (1, 50); OpGetTotalLocked;
    OpGetLocked 4; OpSetLocked (mk_go_LockedUnd 4 (1, 20)); OpSetLocked (mk_go_LockedUnd 2 (1, 30)); OpAllLocked;
    OpSetLocked (mk_go_LockedUnd 4 (1, -1)); OpHasLocked 4; OpGetLocked 4;
    OpSetSpent (mk_go_SpentEFUND 4 (1, 5)); OpGetSpent 4; OpGetSpent 9; OpAllSpent; OpSetTotalSpent (1, 5); OpGetTotalSpent;
    OpSetParams (mk_go_Params [] 1 1 10); OpSetParams (mk_go_Params [6; 8] 2 2 20); OpGetParams; OpGetSpent 9 ].

Ltac ok_side :=
  cbn [op_ok]; unfold ex_dom, ent_params_range, two64;
  first [ exact I | apply u64_small; cbn; lia | cbn; lia
        | split; [apply u64_small; lia | cbn; intros y Hy; intuition lia]
        | split; [lia | vm_compute; reflexivity] ].
Ltac ok_step :=
  first [ eapply ops_ok_cons_ok; [ok_side | vm_compute; reflexivity |]
        | eapply ops_ok_cons_err; [ok_side | vm_compute; reflexivity |] ].
Lemma ex_ops_ok : ops_ok ex_dom ex_emb ex_w0 ex_ops.
Proof. unfold ex_ops. repeat ok_step. exact I. Qed.

(* the trace of the generated accessors; [e1] / [e2] are the two error codes that differ between the sides *)
Definition ex_trace (e1 e2 : Z) : list (outcome eobs) :=
  [ Ok (ObParams ex_params); Ok (ObZ 1); Ok ObUnit;
    Ok ObUnit; Ok ObUnit; Ok (ObPOs [ex_po 1 1; ex_po 2 1]); Ok (ObPO (ex_po 1 1) true); Ok (ObBool false);
    Err e1;
    Ok ObUnit; Ok ObUnit; Ok (ObIds [1; 2]); Ok ObUnit; Ok (ObBool false); Ok (ObBool true); Ok ObUnit; Ok (ObIds [1]);
    Ok ObUnit; Ok ObUnit; Ok (ObAddrs [3; 7]); Ok (ObBool true); Ok ObUnit; Ok (ObBool false);
    Ok (ObCoin (1, 0)); Ok ObUnit; Ok (ObCoin (1, 50));
    Ok (ObLocked (mk_go_LockedUnd 4 (1, 0))); Ok ObUnit; Ok ObUnit;
    Ok (ObLockeds [mk_go_LockedUnd 2 (1, 30); mk_go_LockedUnd 4 (1, 20)]);
    Err e2; Ok (ObBool true); Ok (ObLocked (mk_go_LockedUnd 4 (1, 20)));
    Ok ObUnit; Ok (ObSpent (mk_go_SpentEFUND 4 (1, 5))); Ok (ObSpent (mk_go_SpentEFUND 9 (1, 0)));
    Ok (ObSpents [mk_go_SpentEFUND 4 (1, 5)]); Ok ObUnit; Ok (ObCoin (1, 5));
    Err 30; Ok ObUnit; Ok (ObParams (mk_go_Params [6; 8] 2 2 20)); Ok (ObSpent (mk_go_SpentEFUND 9 (2, 0))) ].

Definition ex_final_store : store :=
  [ (kpo 1, EV_EnterpriseUndPurchaseOrder (ex_po 1 1)); (kpo 2, EV_EnterpriseUndPurchaseOrder (ex_po 2 1));
    ([2; 3]%N, EV_LockedUnd (mk_go_LockedUnd 2 (1, 30))); ([2; 5]%N, EV_LockedUnd (mk_go_LockedUnd 4 (1, 20)));
    ([3; 4]%N, EV_bytes [4%N]);
    (kraised 2, v_id 2); (kaccepted 1, v_id 1);
    ([6; 5]%N, EV_SpentEFUND (mk_go_SpentEFUND 4 (1, 5)));
    ([7%N], EV_Params (mk_go_Params [6; 8] 2 2 20)); ([32%N], v_id 3);
    ([152%N], EV_Coin (1, 5)); ([153%N], EV_Coin (1, 50)) ].

Definition ex_final_state : ent_state :=
  {| e_params := params_of_go (mk_go_Params [6; 8] 2 2 20); e_next := 3;
     e_pos := [ (2, of_go_po (ex_po 2 1)); (1, of_go_po (ex_po 1 1)) ];
     e_raisedq := [2]; e_acceptedq := [1]; e_wl := [3];
     e_locked := [ (4, (1, 20)); (2, (1, 30)) ]; e_spent := [ (4, (1, 5)) ];
     e_totlocked := Some (1, 50); e_totspent := Some (1, 5) |}.

Example ex_runs :
  run (cstep ex_emb ex_unemb) ex_s0 ex_ops = (ex_trace 10 10, ex_final_store) /\
  fst (run (astep ex_emb) ex_w0 ex_ops) = ex_trace 30 30 /\
  ew_ent (snd (run (astep ex_emb) ex_w0 ex_ops)) = ex_final_state.
Proof. vm_compute. repeat split. Qed.

(* a concrete related pair, obtained through the theorem *)
Example ex_related : Rent ex_dom ex_emb ex_final_store ex_final_state.
Proof.
  pose proof (history_refines ex_dom ex_emb ex_unemb ex_emb_inj ex_unemb_emb ex_emb_nonempty ex_dom_parses ex_ops ex_s0 ex_w0 ex_R0 ex_ops_ok)
    as [_ H].
  destruct ex_runs as (E1 & _ & E3). rewrite E1, E3 in H. exact H.
Qed.

Example ex_traces_related :
  Forall2 (out_sim eq err_sim) (fst (run (astep ex_emb) ex_w0 ex_ops)) (fst (run (cstep ex_emb ex_unemb) ex_s0 ex_ops)).
Proof.
  exact (proj1 (history_refines ex_dom ex_emb ex_unemb ex_emb_inj ex_unemb_emb ex_emb_nonempty ex_dom_parses ex_ops ex_s0 ex_w0
                  ex_R0 ex_ops_ok)).
Qed.

(* the listings differ in ORDER: the model's map lists purchase order 2 first (inserted first), the store order 1 *)
Example ex_listing_order_differs :
  let w := mk_eworld 0 ex_bank ex_final_state in
  ent_GetAllPurchaseOrders w = [ex_po 2 1; ex_po 1 1] /\ go_st_GetAllPurchaseOrders ex_final_store = Ok [ex_po 1 1; ex_po 2 1] /\
  ent_GetAllLockedUnds w = [mk_go_LockedUnd 4 (1, 20); mk_go_LockedUnd 2 (1, 30)] /\
  go_st_GetAllLockedUnds ex_final_store = Ok [mk_go_LockedUnd 2 (1, 30); mk_go_LockedUnd 4 (1, 20)].
Proof. vm_compute. repeat split. Qed.

(* ================================================================== *)
(* THE SIDE CONDITIONS AND HYPOTHESES ARE NECESSARY                     *)
(* ================================================================== *)
Notation atrace ops := (fst (run (astep ex_emb) ex_w0 ops)).
Notation ctrace ops := (fst (run (cstep ex_emb ex_unemb) ex_s0 ops)).

(* the queue as a LIST must be strictly ascending: the store is an id-ordered set.  Add of an id that is not above all
   queued ids: the primitive appends, the store inserts in place *)
Example AddPoToRaisedQueue_order_refuted :
  atrace [OpAddRaised 5; OpAddRaised 3; OpAllRaised] = [Ok ObUnit; Ok ObUnit; Ok (ObIds [5; 3])] /\
  ctrace [OpAddRaised 5; OpAddRaised 3; OpAllRaised] = [Ok ObUnit; Ok ObUnit; Ok (ObIds [3; 5])].
Proof. vm_compute. split; reflexivity. Qed.
(* ... and a state whose queue is not ascending is represented by no store *)
Example queue_ascending_needed :
  forall s, ~ Rent ex_dom ex_emb s (with_pos (init_state ex_params 1) [] [5; 3] []).
Proof.
  intros s HR. pose proof (R_raised_asc _ _ _ _ HR) as H. cbn in H.
  inversion H as [|? ? _ F]; subst. inversion F as [|? ? X _]; subst. lia.
Qed.
(* Add of an id that is already queued: twice in the list, once in the store *)
Example AddPoToRaisedQueue_again_refuted :
  atrace [OpAddRaised 3; OpAddRaised 3; OpAllRaised] = [Ok ObUnit; Ok ObUnit; Ok (ObIds [3; 3])] /\
  ctrace [OpAddRaised 3; OpAddRaised 3; OpAllRaised] = [Ok ObUnit; Ok ObUnit; Ok (ObIds [3])].
Proof. vm_compute. split; reflexivity. Qed.
(* Add of an address that is already whitelisted *)
Example AddAddressToWhitelist_again_refuted :
  atrace [OpAddWL 7; OpAddWL 7; OpAllWL] = [Ok ObUnit; Ok ObUnit; Ok (ObAddrs [7; 7])] /\
  ctrace [OpAddWL 7; OpAddWL 7; OpAllWL] = [Ok ObUnit; Ok ObUnit; Ok (ObAddrs [7])].
Proof. vm_compute. split; reflexivity. Qed.

(* SetParams, error code: a malformed non-blank denomination is sdk.ValidateDenom's own error in the generated code *)
Example SetParams_code_refuted :
  atrace [OpSetParams (mk_go_Params [5] (-7) 1 10)] = [Err 30] /\ ctrace [OpSetParams (mk_go_Params [5] (-7) 1 10)] = [Err 1].
Proof. vm_compute. split; reflexivity. Qed.
(* SetParams, verdict: outside ent_params_range (a negative MinAccepts passes Go's `== 0` test) the two sides disagree *)
Example SetParams_range_refuted :
  atrace [OpSetParams (mk_go_Params [5; 6] 0 (-1) 100)] = [Err 30] /\
  ctrace [OpSetParams (mk_go_Params [5; 6] 0 (-1) 100)] = [Ok ObUnit].
Proof. vm_compute. split; reflexivity. Qed.
(* SetPurchaseOrder / SetLockedUndForAccount: the refusal is ERR_ENT = 30 in the primitive, STORE_ERR = 10 in the
   generated file - the codes never agree *)
Example SetPurchaseOrder_code_refuted :
  atrace [OpSetPO (ex_po 3 9)] = [Err 30] /\ ctrace [OpSetPO (ex_po 3 9)] = [Err 10].
Proof. vm_compute. split; reflexivity. Qed.
Example SetLockedUndForAccount_code_refuted :
  atrace [OpSetLocked (mk_go_LockedUnd 4 (1, -1))] = [Err 30] /\ ctrace [OpSetLocked (mk_go_LockedUnd 4 (1, -1))] = [Err 10].
Proof. vm_compute. split; reflexivity. Qed.
(* an owner that does not parse: the primitive stores the record, the generated code returns the decoding error
   (and with the owner decoded BEFORE the amount is checked, a negative amount does not change that) *)
Example SetLockedUndForAccount_owner_refuted :
  atrace [OpSetLocked (mk_go_LockedUnd BAD_ADDR (1, 5)); OpSetSpent (mk_go_SpentEFUND BAD_ADDR (1, 5))] = [Ok ObUnit; Ok ObUnit] /\
  ctrace [OpSetLocked (mk_go_LockedUnd BAD_ADDR (1, 5)); OpSetSpent (mk_go_SpentEFUND BAD_ADDR (1, 5))] = [Err 30; Err 30].
Proof. vm_compute. split; reflexivity. Qed.

(* ... and the empty string does not parse either (EMPTY_ADDR: sdk.AccAddressFromBech32("") is an error) *)
Example SetLockedUndForAccount_empty_owner_refuted :
  atrace [OpSetLocked (mk_go_LockedUnd EMPTY_ADDR (1, 5)); OpSetSpent (mk_go_SpentEFUND EMPTY_ADDR (1, 5))] = [Ok ObUnit; Ok ObUnit] /\
  ctrace [OpSetLocked (mk_go_LockedUnd EMPTY_ADDR (1, 5)); OpSetSpent (mk_go_SpentEFUND EMPTY_ADDR (1, 5))] = [Err 30; Err 30].
Proof. vm_compute. split; reflexivity. Qed.

(* ids outside the uint64 range: -5 converts to 0, 2^64 wraps to 0 *)
Example id_range_refuted :
  atrace [OpAddRaised 0; OpRemoveRaised (-5); OpInRaised 0] = [Ok ObUnit; Ok ObUnit; Ok (ObBool true)] /\
  ctrace [OpAddRaised 0; OpRemoveRaised (-5); OpInRaised 0] = [Ok ObUnit; Ok ObUnit; Ok (ObBool false)] /\
  atrace [OpSetPO (ex_po (2 ^ 64) 1); OpPOExists 0] = [Ok ObUnit; Ok (ObBool false)] /\
  ctrace [OpSetPO (ex_po (2 ^ 64) 1); OpPOExists 0] = [Ok ObUnit; Ok (ObBool true)].
Proof. vm_compute. repeat split. Qed.

(* the counter cell: the generated reader fails on a store without it, the primitive always answers *)
Example GetHighestPurchaseOrderID_absent_refuted :
  go_st_GetHighestPurchaseOrderID [] = Err STORE_ERR /\
  ent_GetHighestPurchaseOrderID (mk_eworld 0 ex_bank blank_state) = Ok 0 /\
  (forall st, ~ Rent ex_dom ex_emb [] st).
Proof.
  split; [reflexivity|]. split; [reflexivity|]. intros st HR. pose proof (R_highest _ _ _ _ HR) as H. discriminate H.
Qed.

(* emb injective (a consequence of unemb (emb a) = a): with two abstract addresses on one byte string the store cannot
   tell them apart, the model can *)
Example emb_inj_refuted :
  let emb := fun _ : Z => [1%N] in
  fst (run (astep emb) ex_w0 [OpAddWL 1; OpIsWL 2]) = [Ok ObUnit; Ok (ObBool false)] /\
  fst (run (cstep emb ex_unemb) ex_s0 [OpAddWL 1; OpIsWL 2]) = [Ok ObUnit; Ok (ObBool true)].
Proof. vm_compute. split; reflexivity. Qed.
(* unemb (emb a) = a: the record the generated reader makes up for an account without an entry carries astr of the bytes *)
Example unemb_emb_refuted :
  let unemb := fun _ : list N => 0 in
  fst (run (astep ex_emb) ex_w0 [OpGetLocked 4]) = [Ok (ObLocked (mk_go_LockedUnd 4 (1, 0)))] /\
  fst (run (cstep ex_emb unemb) ex_s0 [OpGetLocked 4]) = [Ok (ObLocked (mk_go_LockedUnd 0 (1, 0)))].
Proof. vm_compute. split; reflexivity. Qed.
(* emb a <> [] (whitelist only): the generated whitelist accessors refuse / deny the empty address *)
Example emb_nonempty_refuted :
  let emb := fun _ : Z => @nil N in
  let unemb := fun _ : list N => 0 in
  (forall a, a = 0 -> unemb (emb a) = a) /\
  fst (run (astep emb) ex_w0 [OpAddWL 0; OpIsWL 0]) = [Ok ObUnit; Ok (ObBool true)] /\
  fst (run (cstep emb unemb) ex_s0 [OpAddWL 0; OpIsWL 0]) = [Err STORE_ERR_SDK; Ok (ObBool false)].
Proof. cbv zeta. split; [intros a ->; reflexivity|]. vm_compute. split; reflexivity. Qed.
